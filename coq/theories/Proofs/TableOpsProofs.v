(** The column-store model of the row/column selection operations of
    Model/Table.v against the list-of-rows specifications of Spec/TableSpec.v:
    filtered, count, filtered_by_column, distinct_values, get_columns,
    with_new_column, transposed, appended. *)
From Coq Require Import Permutation QArith.
From CG3 Require Import Lib.PyZ Lib.Chars Lib.StableSort Lib.Val Model.Csv Model.Table Spec.TableSpec Proofs.TableBase.
Import ListNotations.
Open Scope Z_scope.

(* ------------------------------------------------------------------ boolean masks *)

Fixpoint true_idx (mask : list bool) : list nat :=
  match mask with
  | [] => []
  | b :: m => (if b then [0%nat] else []) ++ map S (true_idx m)
  end.

Lemma mask_take_take mask : forall c,
  length c = length mask -> mask_take mask c = take (true_idx mask) c.
Proof.
  induction mask as [|b m IH]; intros c Hl.
  - reflexivity.
  - destruct c as [|x c]; [discriminate|].
    cbn [mask_take true_idx]. rewrite (IH c) by (cbn in Hl; lia).
    unfold take. rewrite map_app, map_map. cbn [nth].
    destruct b; reflexivity.
Qed.

Lemma mask_take_map_filter {A} (p : A -> bool) l : mask_take (map p l) l = filter p l.
Proof.
  induction l as [|a l IH]; [reflexivity|].
  cbn [map mask_take filter]. rewrite IH. destruct (p a); reflexivity.
Qed.

Lemma map_true_idx {A} mask : forall (f : nat -> A),
  map f (true_idx mask) = mask_take mask (map f (seq 0 (length mask))).
Proof.
  induction mask as [|b m IH]; intros f; [reflexivity|].
  cbn [true_idx length seq map mask_take]. rewrite map_app, map_map.
  rewrite <- seq_shift, map_map. rewrite <- (IH (fun i => f (S i))).
  destruct b; reflexivity.
Qed.

Lemma true_idx_length mask : length (true_idx mask) = length (filter (fun b => b) mask).
Proof.
  induction mask as [|b m IH]; [reflexivity|].
  cbn [true_idx filter]. rewrite app_length, map_length, IH. destruct b; reflexivity.
Qed.

Lemma mask_take_col_length mask (c : list cell) :
  length c = length mask -> length (mask_take mask c) = length (true_idx mask).
Proof. intros Hl. rewrite (mask_take_take mask c Hl). apply take_length. Qed.

(* rows of a mask selection = the mask selection of the rows *)
Lemma mask_rows cs mask :
  Forall (fun c => length c = length mask) cs ->
  map (row_at (map (mask_take mask) cs)) (seq 0 (length (true_idx mask))) =
  mask_take mask (map (row_at cs) (seq 0 (length mask))).
Proof.
  intros Hf.
  assert (He : map (mask_take mask) cs = map (take (true_idx mask)) cs).
  { apply map_ext_in. intros c Hc. apply mask_take_take.
    rewrite Forall_forall in Hf. apply Hf. exact Hc. }
  rewrite He, take_rows. apply map_true_idx.
Qed.

Lemma mask_take_In {A} mask : forall (l : list A) x, In x (mask_take mask l) -> In x l.
Proof.
  induction mask as [|b m IH]; intros l x Hin; [destruct Hin|].
  destruct l as [|a l]; [destruct Hin|].
  cbn [mask_take] in Hin. destruct b.
  - destruct Hin as [Hx|Hin]; [left; exact Hx|right; apply IH; exact Hin].
  - right. apply IH. exact Hin.
Qed.

Lemma mask_take_NoDup {A} mask : forall (l : list A), NoDup l -> NoDup (mask_take mask l).
Proof.
  induction mask as [|b m IH]; intros l Hnd; [constructor|].
  destruct l as [|a l]; [constructor|].
  inversion Hnd as [|? ? Ha Hnd']; subst.
  cbn [mask_take]. destruct b.
  - constructor; [|apply IH; exact Hnd'].
    intros Hin. apply Ha. apply (mask_take_In m). exact Hin.
  - apply IH. exact Hnd'.
Qed.

Lemma mask_take_map {A B} (g : A -> B) mask : forall l,
  mask_take mask (map g l) = map g (mask_take mask l).
Proof.
  induction mask as [|b m IH]; intros l; [reflexivity|].
  destruct l as [|a l]; [reflexivity|].
  cbn [map mask_take]. rewrite IH. destruct b; reflexivity.
Qed.

Lemma mask_take_length2 {A B} mask : forall (l1 : list A) (l2 : list B),
  length l1 = length l2 -> length (mask_take mask l1) = length (mask_take mask l2).
Proof.
  induction mask as [|b m IH]; intros l1 l2 Hl; [reflexivity|].
  destruct l1 as [|a l1], l2 as [|a2 l2]; try discriminate; [reflexivity|].
  cbn [mask_take]. cbn in Hl. destruct b; cbn [length]; rewrite (IH l1 l2) by lia; reflexivity.
Qed.

Lemma mask_take_Forall {A} (P : A -> Prop) mask : forall l,
  Forall P l -> Forall P (mask_take mask l).
Proof.
  induction mask as [|b m IH]; intros l Hf; [constructor|].
  destruct l as [|a l]; [constructor|].
  inversion Hf as [|? ? Ha Hf']; subst.
  cbn [mask_take]. destruct b; [constructor; [exact Ha|]|]; apply IH; exact Hf'.
Qed.

Lemma filter_id_map_length {A} (g : A -> bool) l :
  length (filter (fun b => b) (map g l)) = length (filter g l).
Proof.
  induction l as [|a l IH]; [reflexivity|].
  cbn [map filter]. destruct (g a); cbn [length]; rewrite IH; reflexivity.
Qed.

Lemma incl_nonempty (names h : list str) : incl names h -> names <> [] -> h <> [].
Proof.
  intros Hincl Hne Hh. subst h. destruct names as [|x names]; [contradiction|].
  apply (Hincl x). left. reflexivity.
Qed.

Lemma NoDup_app_single {A} (l : list A) x : NoDup l -> ~ In x l -> NoDup (l ++ [x]).
Proof.
  induction l as [|a l IH]; intros Hnd Hx.
  - constructor; [intros []|constructor].
  - inversion Hnd as [|? ? Ha Hnd']; subst. cbn [app]. constructor.
    + intros Hin. apply in_app_or in Hin. destruct Hin as [Hin|[Hin|[]]]; [contradiction|].
      subst. apply Hx. left. reflexivity.
    + apply IH; [exact Hnd'|]. intros Hin. apply Hx. right. exact Hin.
Qed.

Lemma rows_no_rows t : nrows t = 0%nat -> rows t = [].
Proof. intros Hz. unfold rows, array. rewrite Hz. reflexivity. Qed.

(* ------------------------------------------------------------------ filtered / count *)

Lemma row_indices_ok t f names :
  wf t -> incl names (hdr t) -> NoDup names -> names <> [] ->
  row_indices t f names = Ok (map (fun r => f (proj (hdr t) names r)) (rows t)).
Proof.
  intros Hwf Hincl Hnd Hne. unfold row_indices.
  rewrite (sub_array_ok t names Hwf Hincl Hnd Hne). cbn [bind]. rewrite map_map. reflexivity.
Qed.

Theorem filtered_spec : forall t f columns,
  wf t -> incl (default_cols t columns) (hdr t) -> NoDup (default_cols t columns) ->
  default_cols t columns <> [] ->
  exists t', filtered t f columns = Ok t' /\ hdr t' = hdr t /\ wf t' /\
             rows t' = spec_filtered (hdr t) (rows t) f (default_cols t columns).
Proof.
  intros t f columns Hwf Hincl Hnd Hne. set (names := default_cols t columns) in *.
  unfold filtered. fold names. destruct (Nat.eqb (nrows t) 0) eqn:E.
  - apply Nat.eqb_eq in E. exists t. split; [reflexivity|]. split; [reflexivity|].
    split; [exact Hwf|]. unfold spec_filtered. rewrite (rows_no_rows t E). reflexivity.
  - rewrite (row_indices_ok t f names Hwf Hincl Hnd Hne). cbn [bind].
    set (mask := map (fun r => f (proj (hdr t) names r)) (rows t)).
    assert (Hml : length mask = nrows t).
    { unfold mask. rewrite map_length. apply rows_length. }
    pose proof Hwf as [Hl [Hf Hndh]].
    assert (Hf' : Forall (fun c => length c = length mask) (cols t)).
    { rewrite Hml. exact Hf. }
    assert (Hfn : Forall (fun v => length v = length (true_idx mask)) (map (mask_take mask) (cols t))).
    { rewrite Forall_forall. intros v Hv. apply in_map_iff in Hv. destruct Hv as [c [Hc Hin]]. subst v.
      apply mask_take_col_length. rewrite Forall_forall in Hf'. apply Hf'. exact Hin. }
    rewrite (set_cols_empty (hdr t) (map (mask_take mask) (cols t)) (length (true_idx mask)));
      [|rewrite map_length; exact Hl|exact Hfn|exact Hndh].
    assert (Hn : match hdr t with [] => 0%nat | _ :: _ => length (true_idx mask) end = length (true_idx mask)).
    { destruct (hdr t) eqn:Eh; [|reflexivity]. exfalso. apply (incl_nonempty names [] Hincl Hne). reflexivity. }
    rewrite Hn. eexists. split; [reflexivity|]. cbn [hdr]. split; [reflexivity|]. split.
    + unfold wf. cbn [hdr cols nrows]. split; [rewrite map_length; exact Hl|]. split; [exact Hfn|exact Hndh].
    + rewrite rows_mkT. rewrite (mask_rows (cols t) mask Hf'). rewrite Hml.
      change (map (row_at (cols t)) (seq 0 (nrows t))) with (rows t).
      unfold mask, spec_filtered. apply mask_take_map_filter.
Qed.

Theorem count_spec : forall t f columns,
  wf t -> incl (default_cols t columns) (hdr t) -> NoDup (default_cols t columns) ->
  default_cols t columns <> [] ->
  count t f columns = Ok (spec_count (hdr t) (rows t) f (default_cols t columns)).
Proof.
  intros t f columns Hwf Hincl Hnd Hne. set (names := default_cols t columns) in *.
  unfold count. fold names. unfold spec_count, spec_filtered. destruct (Nat.eqb (nrows t) 0) eqn:E.
  - apply Nat.eqb_eq in E. rewrite (rows_no_rows t E). reflexivity.
  - rewrite (row_indices_ok t f names Hwf Hincl Hnd Hne). cbn [bind].
    rewrite filter_id_map_length. reflexivity.
Qed.

(* ------------------------------------------------------------------ filtered_by_column *)

Theorem filtered_by_column_spec : forall t f, wf t ->
  exists t', filtered_by_column t f = Ok t' /\
             hdr t' = mask_take (map f (cols t)) (hdr t) /\ wf t' /\
             (hdr t' <> [] -> rows t' = map (mask_take (map f (cols t))) (rows t)).
Proof.
  intros t f Hwf. pose proof Hwf as [Hl [Hf Hnd]].
  unfold filtered_by_column. set (mask := map f (cols t)).
  rewrite (set_cols_empty (mask_take mask (hdr t)) (mask_take mask (cols t)) (nrows t));
    [|apply mask_take_length2; exact Hl|apply mask_take_Forall; exact Hf|apply mask_take_NoDup; exact Hnd].
  eexists. split; [reflexivity|]. cbn [hdr]. split; [reflexivity|]. split.
  - unfold wf. cbn [hdr cols nrows]. split; [apply mask_take_length2; exact Hl|].
    split; [|apply mask_take_NoDup; exact Hnd].
    assert (Hlen : length (mask_take mask (hdr t)) = length (mask_take mask (cols t))).
    { apply mask_take_length2. exact Hl. }
    destruct (mask_take mask (hdr t)) as [|x h'].
    + destruct (mask_take mask (cols t)); [constructor|discriminate].
    + apply mask_take_Forall. exact Hf.
  - intros Hne. rewrite rows_mkT.
    destruct (mask_take mask (hdr t)) as [|x h']; [contradiction|].
    unfold rows, array. rewrite map_map. apply map_ext. intros i.
    unfold row_at. symmetry. apply mask_take_map.
Qed.

(* ------------------------------------------------------------------ key equality is an equivalence *)

(* normal form: a number as its reduced fraction, anything else as itself *)
Definition cell_norm (c : cell) : Q + cell :=
  match cell_q c with Some q => inl (Qred q) | None => inr c end.

Lemma Qred_eq_iff (p q : Q) : Qeq p q <-> Qred p = Qred q.
Proof.
  split.
  - apply Qred_complete.
  - intros H. apply Qeq_trans with (Qred p); [apply Qeq_sym; apply Qred_correct|].
    rewrite H. apply Qred_correct.
Qed.

Lemma cell_eqb_norm a b : cell_eqb a b = true <-> cell_norm a = cell_norm b.
Proof.
  unfold cell_eqb, cell_norm.
  destruct (cell_q a) as [p|] eqn:Ea, (cell_q b) as [q|] eqn:Eb.
  - rewrite Qeq_bool_iff, Qred_eq_iff. split; intros H; [rewrite H; reflexivity|].
    inversion H as [H']. reflexivity.
  - split; intros H; discriminate.
  - split; intros H; discriminate.
  - destruct a as [x|x|x| |x1 x2]; try discriminate Ea;
      destruct b as [y|y|y| |y1 y2]; try discriminate Eb.
    + rewrite str_eqb_eq. split; intros H; [subst; reflexivity|inversion H; reflexivity].
    + split; intros H; discriminate.
    + split; intros H; discriminate.
    + split; reflexivity.
Qed.

Lemma key_eqb_norm a : forall b, key_eqb a b = true <-> map cell_norm a = map cell_norm b.
Proof.
  induction a as [|x a IH]; intros b; destruct b as [|y b]; cbn [key_eqb map];
    try (split; intros H; discriminate).
  - split; reflexivity.
  - rewrite andb_true_iff, cell_eqb_norm, IH. split.
    + intros [H1 H2]. rewrite H1, H2. reflexivity.
    + intros H. inversion H. split; reflexivity.
Qed.

Lemma key_eqb_refl k : key_eqb k k = true.
Proof. apply key_eqb_norm. reflexivity. Qed.

Lemma key_eqb_sym a b : key_eqb a b = key_eqb b a.
Proof.
  destruct (key_eqb a b) eqn:E1, (key_eqb b a) eqn:E2; try reflexivity.
  - apply key_eqb_norm in E1. symmetry in E1. apply key_eqb_norm in E1. congruence.
  - apply key_eqb_norm in E2. symmetry in E2. apply key_eqb_norm in E2. congruence.
Qed.

Lemma key_eqb_trans a b c : key_eqb a b = true -> key_eqb b c = true -> key_eqb a c = true.
Proof.
  intros H1 H2. apply key_eqb_norm in H1. apply key_eqb_norm in H2. apply key_eqb_norm. congruence.
Qed.

(* ------------------------------------------------------------------ distinct_values *)

Lemma dedup_props l : forall seen,
  (forall k, In k l -> existsb (key_eqb k) seen = true \/ existsb (key_eqb k) (dedup seen l) = true) /\
  (forall k, In k (dedup seen l) -> In k l) /\
  (forall k, In k (dedup seen l) -> existsb (key_eqb k) seen = false) /\
  ForallOrdPairs (fun a b => key_eqb a b = false) (dedup seen l).
Proof.
  induction l as [|x l IH]; intros seen.
  - cbn [dedup]. split; [intros k []|]. split; [intros k []|]. split; [intros k []|constructor].
  - cbn [dedup]. destruct (existsb (key_eqb x) seen) eqn:Ex.
    + destruct (IH seen) as [H1 [H2 [H3 H4]]]. split; [|split; [|split]].
      * intros k [Hk|Hk]; [subst k; left; exact Ex|apply H1; exact Hk].
      * intros k Hk. right. apply H2. exact Hk.
      * exact H3.
      * exact H4.
    + destruct (IH (x :: seen)) as [H1 [H2 [H3 H4]]]. split; [|split; [|split]].
      * intros k [Hk|Hk].
        -- subst k. right. cbn [existsb]. rewrite key_eqb_refl. reflexivity.
        -- destruct (H1 k Hk) as [Hs|Hs].
           ++ cbn [existsb] in Hs. apply orb_true_iff in Hs. destruct Hs as [Hs|Hs].
              ** right. cbn [existsb]. rewrite Hs. reflexivity.
              ** left. exact Hs.
           ++ right. cbn [existsb]. rewrite Hs. apply orb_true_r.
      * intros k [Hk|Hk]; [left; exact Hk|right; apply H2; exact Hk].
      * intros k [Hk|Hk]; [subst k; exact Ex|].
        specialize (H3 k Hk). cbn [existsb] in H3. apply orb_false_iff in H3. apply H3.
      * constructor; [|exact H4]. rewrite Forall_forall. intros k Hk.
        specialize (H3 k Hk). cbn [existsb] in H3. apply orb_false_iff in H3.
        rewrite key_eqb_sym. apply H3.
Qed.

Theorem distinct_values_spec : forall t names,
  wf t -> incl names (hdr t) -> NoDup names -> names <> [] ->
  exists l, distinct_values t names = Ok l /\
    (forall k, In k (map (proj (hdr t) names) (rows t)) -> existsb (key_eqb k) l = true) /\
    (forall k, In k l -> In k (map (proj (hdr t) names) (rows t))) /\
    ForallOrdPairs (fun a b => key_eqb a b = false) l.
Proof.
  intros t names Hwf Hincl Hnd Hne. unfold distinct_values.
  rewrite (sub_array_ok t names Hwf Hincl Hnd Hne). cbn [bind].
  eexists. split; [reflexivity|].
  destruct (dedup_props (map (proj (hdr t) names) (rows t)) []) as [H1 [H2 [_ H4]]].
  split; [|split; [exact H2|exact H4]].
  intros k Hk. destruct (H1 k Hk) as [H|H]; [discriminate|exact H].
Qed.

(* ------------------------------------------------------------------ get_columns *)

Theorem get_columns_spec : forall t names,
  wf t -> incl names (hdr t) -> NoDup names -> names <> [] -> nrows t <> 0%nat ->
  exists t', get_columns t names = Ok t' /\ hdr t' = names /\ wf t' /\
             rows t' = spec_get_columns (hdr t) (rows t) names.
Proof.
  intros t names Hwf Hincl Hnd Hne Hnz. unfold get_columns.
  rewrite (sub_table_ok t names Hwf Hincl Hnd Hnz Hne).
  eexists. split; [reflexivity|]. cbn [hdr]. split; [reflexivity|]. split.
  - unfold wf. cbn [hdr cols nrows]. split; [rewrite map_length; reflexivity|]. split; [|exact Hnd].
    rewrite Forall_forall. intros v Hv. apply in_map_iff in Hv. destruct Hv as [c [Hc Hin]]. subst v.
    apply col_of_length; [exact Hwf|apply Hincl; exact Hin].
  - rewrite rows_mkT. unfold spec_get_columns, rows, array. rewrite map_map.
    apply map_ext. intros i. apply row_at_cols_proj.
Qed.

Theorem get_columns_no_rows : forall t names,
  wf t -> incl names (hdr t) -> nrows t = 0%nat -> get_columns t names = Ok empty_table.
Proof.
  intros t names Hwf Hincl Hz. unfold get_columns, sub_table.
  rewrite (get_cols_ok t names Hwf Hincl). cbn [bind]. rewrite Hz. reflexivity.
Qed.

(* ------------------------------------------------------------------ coerce_col *)

(* the coercion changes nothing on a column without floats ... *)
Lemma coerce_col_id v : (forall c, In c v -> is_float_cell c = false) -> coerce_col v = v.
Proof.
  intros H. unfold coerce_col.
  assert (He : existsb is_float_cell v = false).
  { destruct (existsb is_float_cell v) eqn:E; [|reflexivity].
    apply existsb_exists in E. destruct E as [c [Hin Hc]]. rewrite (H c Hin) in Hc. discriminate. }
  rewrite He, andb_false_r. reflexivity.
Qed.

(* ... and on a column of floats *)
Lemma coerce_col_id_float v : forallb is_float_cell v = true -> coerce_col v = v.
Proof.
  intros H. unfold coerce_col.
  destruct (forallb is_num_cell v && existsb is_float_cell v); [|reflexivity].
  rewrite <- (map_id v) at 2. apply map_ext_in. intros c Hc.
  rewrite forallb_forall in H. specialize (H c Hc).
  destruct c; try discriminate H. reflexivity.
Qed.

Example coerce_col_id_ex : coerce_col [CI 1; CS [97]; CN; CB true] = [CI 1; CS [97]; CN; CB true].
Proof.
  apply coerce_col_id. intros c [Hc|[Hc|[Hc|[Hc|[]]]]]; subst c; reflexivity.
Qed.

Example coerce_col_id_float_ex : coerce_col [CF 15 (-1); CF 0 0; CF (-2) 3] = [CF 15 (-1); CF 0 0; CF (-2) 3].
Proof. apply coerce_col_id_float. reflexivity. Qed.

(* ------------------------------------------------------------------ with_new_column *)

Lemma cols_of_hdr t : wf t -> map (col_of t) (hdr t) = cols t.
Proof.
  intros [Hl [_ Hnd]]. unfold col_of.
  revert Hl Hnd. generalize (cols t) as cs. generalize (hdr t) as h.
  induction h as [|x h IH]; intros cs Hl Hnd; destruct cs as [|c cs]; try discriminate; [reflexivity|].
  cbn [map pos]. rewrite str_eqb_refl. cbn [nth]. f_equal.
  inversion Hnd as [|? ? Hx Hnd']; subst.
  transitivity (map (fun c0 => nth (pos c0 h) cs []) h).
  - apply map_ext_in. intros y Hy. cbn [pos]. destruct (str_eqb y x) eqn:E.
    + apply str_eqb_eq in E. subst. contradiction.
    + reflexivity.
  - apply IH; [cbn in Hl; lia|exact Hnd'].
Qed.

Lemma mask_take_cols t mask : wf t ->
  mask_take mask (cols t) = map (col_of t) (mask_take mask (hdr t)).
Proof. intros Hwf. rewrite <- mask_take_map. rewrite (cols_of_hdr t Hwf). reflexivity. Qed.

Lemma nth_map_seq {A} (g : nat -> A) n i d : (i < n)%nat -> nth i (map g (seq 0 n)) d = g i.
Proof.
  intros Hi. rewrite (nth_indep _ d (g 0%nat)) by (rewrite map_length, seq_length; exact Hi).
  rewrite map_nth. rewrite seq_nth by exact Hi. reflexivity.
Qed.

Theorem with_new_column_spec : forall t new f columns,
  wf t -> incl (default_cols t columns) (hdr t) -> NoDup (default_cols t columns) ->
  default_cols t columns <> [] ->
  coerce_col (map (fun r => f (proj (hdr t) (default_cols t columns) r)) (rows t)) =
  map (fun r => f (proj (hdr t) (default_cols t columns) r)) (rows t) ->
  let keep := filter (fun c => negb (str_eqb c new)) (hdr t) in
  exists t', with_new_column t new f columns = Ok t' /\ hdr t' = keep ++ [new] /\ wf t' /\
             rows t' = spec_with_new_column (hdr t) (rows t) new f (default_cols t columns).
Proof.
  intros t new f columns Hwf Hincl Hnd Hne Hco keep. set (names := default_cols t columns) in *.
  pose proof Hwf as [Hl [Hf Hndh]].
  unfold with_new_column. fold names.
  set (mask := map (fun c => negb (str_eqb c new)) (hdr t)).
  assert (Hkeep : mask_take mask (hdr t) = keep).
  { unfold mask, keep. apply mask_take_map_filter. }
  rewrite (mask_take_cols t mask Hwf). rewrite Hkeep.
  assert (Hkincl : incl keep (hdr t)).
  { intros c Hc. unfold keep in Hc. apply filter_In in Hc. apply Hc. }
  assert (Hknd : NoDup keep).
  { rewrite <- Hkeep. apply mask_take_NoDup. exact Hndh. }
  assert (Hkf : Forall (fun v => length v = nrows t) (map (col_of t) keep)).
  { rewrite Forall_forall. intros v Hv. apply in_map_iff in Hv. destruct Hv as [c [Hc Hin]]. subst v.
    apply col_of_length; [exact Hwf|apply Hkincl; exact Hin]. }
  rewrite (set_cols_empty keep (map (col_of t) keep) (nrows t));
    [|rewrite map_length; reflexivity|exact Hkf|exact Hknd].
  cbn [bind]. rewrite (sub_array_ok t names Hwf Hincl Hnd Hne). cbn [bind].
  rewrite (map_map (proj (hdr t) names) f), Hco.
  set (v := map (fun r => f (proj (hdr t) names r)) (rows t)).
  assert (Hv : length v = nrows t).
  { unfold v. rewrite map_length. apply rows_length. }
  unfold set_col. cbn [hdr cols nrows].
  assert (Hn : (if Nat.eqb (match keep with [] => 0%nat | _ :: _ => nrows t end) 0
                then length v else match keep with [] => 0%nat | _ :: _ => nrows t end) = nrows t).
  { destruct keep; [exact Hv|]. destruct (Nat.eqb (nrows t) 0) eqn:E; [|reflexivity].
    apply Nat.eqb_eq in E. lia. }
  rewrite Hn. rewrite Hv, Nat.eqb_refl. cbn [negb].
  assert (Hnew : mem_str new keep = false).
  { apply mem_str_false. intros Hin. unfold keep in Hin. apply filter_In in Hin.
    destruct Hin as [_ Hin]. rewrite str_eqb_refl in Hin. discriminate. }
  rewrite Hnew. eexists. split; [reflexivity|]. cbn [hdr]. split; [reflexivity|]. split.
  - unfold wf. cbn [hdr cols nrows]. split; [rewrite !app_length, map_length; reflexivity|]. split.
    + apply Forall_app. split; [exact Hkf|]. constructor; [exact Hv|constructor].
    + apply NoDup_app_single; [exact Hknd|]. apply mem_str_false. exact Hnew.
  - rewrite rows_mkT. unfold spec_with_new_column. fold keep. unfold rows, array.
    rewrite map_map. apply map_ext_in. intros i Hi. apply in_seq in Hi.
    rewrite row_at_app. rewrite row_at_cols_proj. f_equal.
    unfold row_at at 1. cbn [map]. f_equal. unfold v, rows, array. rewrite !map_map.
    apply (nth_map_seq (fun x => f (proj (hdr t) names (row_at (cols t) x)))). lia.
Qed.

(* ------------------------------------------------------------------ transposed *)

Lemma fold_bind_Er {A B} (F : A -> B -> res A) data e :
  fold_left (fun acc row => bind acc (fun r => F r row)) data (Er e) = Er e.
Proof. induction data as [|row d IH]; [reflexivity|]. cbn [fold_left bind]. exact IH. Qed.

Lemma fold_set_col (g : list cell -> str) (h : list cell -> list cell) data : forall r0,
  fold_left (fun acc row => bind acc (fun r => set_col r (g row) (h row))) data (Ok r0) =
  set_cols r0 (map g data) (map h data).
Proof.
  induction data as [|row d IH]; intros r0; [reflexivity|].
  cbn [fold_left map set_cols bind].
  destruct (set_col r0 (g row) (h row)) as [r1|e]; cbn [bind]; [apply IH|].
  apply (fold_bind_Er (fun r row => set_col r (g row) (h row))).
Qed.

Lemma match_list_same {A B} (l : list A) (a : B) : match l with [] => a | _ :: _ => a end = a.
Proof. destruct l; reflexivity. Qed.

Lemma map_as_seq {A B} (F : A -> B) l d :
  map F l = map (fun j => F (nth j l d)) (seq 0 (length l)).
Proof. rewrite <- (map_map (fun j => nth j l d) F). rewrite map_nth_seq. reflexivity. Qed.

Definition transposed_body (t : table) (new sah : str) : res table :=
  if negb (mem_str sah (hdr t)) then Er E_Assert
  else
    bind (distinct_values t [sah]) (fun dv =>
      if negb (Nat.eqb (length dv) (nrows t)) then Er E_Value
      else
        let columns := sah :: filter (fun c => negb (str_eqb c sah)) (hdr t) in
        bind (sub_array t columns) (fun data =>
          bind (set_col empty_table new (map CS (tl columns))) (fun result =>
            fold_left (fun acc row =>
                         bind acc (fun r => set_col r (cell_str (hd CN row)) (coerce_col (tl row))))
                      data (Ok result)))).

Lemma transposed_unfold t (new : str) (select : option str) (sah : str) : hdr t <> [] ->
  sah = match select with Some (c :: s) => c :: s | _ => hd [] (hdr t) end ->
  transposed t new select = transposed_body t new sah.
Proof.
  intros Hne ->. unfold transposed, transposed_body.
  destruct select as [[|c s]|]; destruct (hdr t) as [|h0 hs]; try contradiction; reflexivity.
Qed.

(* [sah] is the resolved [select_as_header]: the given name when it is a
   non-empty string, the first column otherwise *)
Theorem transposed_spec : forall t (new : str) (select : option str) (sah : str),
  wf t -> hdr t <> [] ->
  sah = match select with Some (c :: s) => c :: s | _ => hd [] (hdr t) end ->
  In sah (hdr t) ->
  length (dedup [] (map (proj (hdr t) [sah]) (rows t))) = nrows t ->
  NoDup (spec_transposed_header (hdr t) (rows t) new sah) ->
  (forall r, In r (rows t) ->
     coerce_col (proj (hdr t) (filter (fun c => negb (str_eqb c sah)) (hdr t)) r) =
     proj (hdr t) (filter (fun c => negb (str_eqb c sah)) (hdr t)) r) ->
  exists t', transposed t new select = Ok t' /\
             hdr t' = spec_transposed_header (hdr t) (rows t) new sah /\ wf t' /\
             rows t' = spec_transposed (hdr t) (rows t) sah.
Proof.
  intros t new select sah Hwf Hhne Hsah Hin Hlen Hnd Hco.
  pose proof Hwf as [Hl [Hf Hndh]].
  rewrite (transposed_unfold t new select sah Hhne Hsah). clear Hsah. unfold transposed_body.
  assert (Hmem : mem_str sah (hdr t) = true) by (apply mem_str_In; exact Hin).
  rewrite Hmem. cbn [negb].
  assert (Hincl1 : incl [sah] (hdr t)).
  { intros c [Hc|[]]. subst c. exact Hin. }
  assert (Hnd1 : NoDup [sah]) by (constructor; [intros []|constructor]).
  unfold distinct_values.
  rewrite (sub_array_ok t [sah] Hwf Hincl1 Hnd1) by discriminate. cbn [bind].
  rewrite Hlen, Nat.eqb_refl. cbn [negb].
  set (others := filter (fun c => negb (str_eqb c sah)) (hdr t)).
  assert (Hoincl : incl others (hdr t)).
  { intros c Hc. unfold others in Hc. apply filter_In in Hc. apply Hc. }
  assert (Hincl2 : incl (sah :: others) (hdr t)).
  { intros c [Hc|Hc]; [subst c; exact Hin|apply Hoincl; exact Hc]. }
  assert (Hnd2 : NoDup (sah :: others)).
  { constructor; [|apply NoDup_filter; exact Hndh].
    intros Hc. unfold others in Hc. apply filter_In in Hc. destruct Hc as [_ Hc].
    rewrite str_eqb_refl in Hc. discriminate. }
  rewrite (sub_array_ok t (sah :: others) Hwf Hincl2 Hnd2) by discriminate. cbn [bind tl].
  assert (Hs : set_col empty_table new (map CS others) = Ok (mkT [new] [map CS others] (length others))).
  { unfold set_col, empty_table. cbn [nrows hdr cols Nat.eqb mem_str existsb app].
    rewrite Nat.eqb_refl. cbn [negb]. rewrite map_length. reflexivity. }
  rewrite Hs. cbn [bind]. clear Hs.
  rewrite (fold_set_col (fun row => cell_str (hd CN row)) (fun row => coerce_col (tl row))).
  rewrite !map_map.
  assert (Hg : map (fun r => cell_str (hd CN (proj (hdr t) (sah :: others) r))) (rows t) =
               map (fun r => cell_str (nth (pos sah (hdr t)) r CN)) (rows t)).
  { apply map_ext. intros r. reflexivity. }
  assert (Hh : map (fun r => coerce_col (tl (proj (hdr t) (sah :: others) r))) (rows t) =
               map (proj (hdr t) others) (rows t)).
  { apply map_ext_in. intros r Hr. exact (Hco r Hr). }
  rewrite Hg, Hh. clear Hg Hh.
  assert (Hfo : Forall (fun v => length v = length others) (map (proj (hdr t) others) (rows t))).
  { rewrite Forall_forall. intros v Hv. apply in_map_iff in Hv. destruct Hv as [r [Hr _]]. subst v.
    unfold proj. apply map_length. }
  rewrite (set_cols_ok _ _ [new] [map CS others] (length others) (length others));
    [|rewrite !map_length; reflexivity|exact Hfo|left; reflexivity|exact Hnd].
  rewrite match_list_same.
  eexists. split; [reflexivity|]. cbn [hdr]. split; [reflexivity|]. split.
  - unfold wf. cbn [hdr cols nrows]. split; [rewrite !app_length, !map_length; reflexivity|].
    split; [|exact Hnd]. cbn [app]. constructor; [apply map_length|exact Hfo].
  - rewrite rows_mkT. unfold spec_transposed. fold others.
    rewrite (map_as_seq (fun c => CS c :: map (fun r => nth (pos c (hdr t)) r CN) (rows t)) others []).
    apply map_ext_in. intros j Hj. apply in_seq in Hj.
    cbn [app]. unfold row_at. cbn [map]. f_equal.
    + rewrite (nth_indep _ CN (CS [])) by (rewrite map_length; lia). apply map_nth.
    + rewrite map_map. apply map_ext. intros r. unfold proj.
      rewrite (nth_indep _ CN ((fun c => nth (pos c (hdr t)) r CN) [])) by (rewrite map_length; lia).
      apply (map_nth (fun c => nth (pos c (hdr t)) r CN)).
Qed.

(* the two forms in which [select_as_header] is given *)
Corollary transposed_spec_some : forall t (new sah : str),
  wf t -> sah <> [] -> In sah (hdr t) ->
  length (dedup [] (map (proj (hdr t) [sah]) (rows t))) = nrows t ->
  NoDup (spec_transposed_header (hdr t) (rows t) new sah) ->
  (forall r, In r (rows t) ->
     coerce_col (proj (hdr t) (filter (fun c => negb (str_eqb c sah)) (hdr t)) r) =
     proj (hdr t) (filter (fun c => negb (str_eqb c sah)) (hdr t)) r) ->
  exists t', transposed t new (Some sah) = Ok t' /\
             hdr t' = spec_transposed_header (hdr t) (rows t) new sah /\ wf t' /\
             rows t' = spec_transposed (hdr t) (rows t) sah.
Proof.
  intros t new sah Hwf Hne Hin Hlen Hnd Hco.
  apply (transposed_spec t new (Some sah) sah Hwf); try assumption.
  - intros Hh. rewrite Hh in Hin. destruct Hin.
  - destruct sah; [contradiction|reflexivity].
Qed.

Corollary transposed_spec_none : forall t (new : str),
  wf t -> hdr t <> [] ->
  length (dedup [] (map (proj (hdr t) [hd [] (hdr t)]) (rows t))) = nrows t ->
  NoDup (spec_transposed_header (hdr t) (rows t) new (hd [] (hdr t))) ->
  (forall r, In r (rows t) ->
     coerce_col (proj (hdr t) (filter (fun c => negb (str_eqb c (hd [] (hdr t)))) (hdr t)) r) =
     proj (hdr t) (filter (fun c => negb (str_eqb c (hd [] (hdr t)))) (hdr t)) r) ->
  exists t', transposed t new None = Ok t' /\
             hdr t' = spec_transposed_header (hdr t) (rows t) new (hd [] (hdr t)) /\ wf t' /\
             rows t' = spec_transposed (hdr t) (rows t) (hd [] (hdr t)).
Proof.
  intros t new Hwf Hne Hlen Hnd Hco.
  apply (transposed_spec t new None (hd [] (hdr t)) Hwf Hne); try assumption.
  - reflexivity.
  - destruct (hdr t); [contradiction|left; reflexivity].
Qed.

(* ------------------------------------------------------------------ appended *)

Fixpoint sum_len {T} (len : T -> nat) (l : list T) : nat :=
  match l with [] => 0%nat | x :: l' => (len x + sum_len len l')%nat end.

Lemma flat_map_length_sum {T} (F : T -> list cell) (len : T -> nat) l :
  (forall x, In x l -> length (F x) = len x) -> length (flat_map F l) = sum_len len l.
Proof.
  induction l as [|x l IH]; intros H; [reflexivity|].
  cbn [flat_map sum_len]. rewrite app_length. rewrite (H x) by (left; reflexivity).
  rewrite IH; [reflexivity|]. intros y Hy. apply H. right. exact Hy.
Qed.

Lemma seq_add_map n : forall a, seq a n = map (fun j => (a + j)%nat) (seq 0 n).
Proof.
  induction n as [|n IH]; intros a; [reflexivity|].
  cbn [seq map]. f_equal; [lia|]. rewrite <- (seq_shift n 0), map_map. rewrite (IH (S a)).
  apply map_ext. intros j. lia.
Qed.

(* rows of the column-wise concatenation of blocks = concatenation of the rows of the blocks *)
Lemma concat_rows {T K} (F : T -> K -> list cell) (len : T -> nat) (keys : list K) : forall titled,
  (forall tt k, In tt titled -> In k keys -> length (F tt k) = len tt) ->
  map (row_at (map (fun k => flat_map (fun tt => F tt k) titled) keys)) (seq 0 (sum_len len titled)) =
  flat_map (fun tt => map (row_at (map (F tt) keys)) (seq 0 (len tt))) titled.
Proof.
  induction titled as [|tt rest IH]; intros Hlen; [reflexivity|].
  cbn [sum_len flat_map]. rewrite seq_app, map_app. cbn [Nat.add]. f_equal.
  - apply map_ext_in. intros i Hi. apply in_seq in Hi. unfold row_at. rewrite !map_map.
    apply map_ext_in. intros k Hk. apply app_nth1.
    rewrite (Hlen tt k (or_introl eq_refl) Hk). lia.
  - rewrite <- IH by (intros tt' k Ht Hk; apply Hlen; [right; exact Ht|exact Hk]).
    rewrite (seq_add_map _ (len tt)), map_map.
    apply map_ext. intros j. unfold row_at. rewrite !map_map.
    apply map_ext_in. intros k Hk.
    rewrite <- (Hlen tt k (or_introl eq_refl) Hk). apply app_nth2_plus.
Qed.

Lemma concat_cols_ok titled c :
  (forall tt, In tt titled -> wf (snd tt) /\ In c (hdr (snd tt))) ->
  concat_cols (map snd titled) c = Ok (flat_map (fun tt : str * table => col_of (snd tt) c) titled).
Proof.
  induction titled as [|tt rest IH]; intros H; [reflexivity|].
  cbn [map concat_cols flat_map].
  destruct (H tt (or_introl eq_refl)) as [Hwf Hin].
  rewrite (get_col_ok _ c Hwf Hin). cbn [bind].
  rewrite IH; [reflexivity|]. intros tt' Ht. apply H. right. exact Ht.
Qed.

Lemma concat_all_ok titled names :
  (forall tt c, In tt titled -> In c names -> wf (snd tt) /\ In c (hdr (snd tt))) ->
  concat_all (map snd titled) names =
  Ok (map (fun c => flat_map (fun tt : str * table => col_of (snd tt) c) titled) names).
Proof.
  induction names as [|c names IH]; intros H; [reflexivity|].
  cbn [concat_all map]. rewrite (concat_cols_ok titled c).
  - cbn [bind]. rewrite IH; [reflexivity|]. intros tt c' Ht Hc. apply H; [exact Ht|right; exact Hc].
  - intros tt Ht. apply H; [exact Ht|left; reflexivity].
Qed.

(* the column of a titled table under a key: [None] is the title column *)
Definition app_col (tt : str * table) (k : option str) : list cell :=
  match k with
  | None => repeat (CS (fst tt)) (nrows (snd tt))
  | Some c => col_of (snd tt) c
  end.

Definition app_keys (b : bool) (h : list str) : list (option str) :=
  (if b then [None] else []) ++ map Some h.

Definition app_cols (b : bool) (titled : list (str * table)) (h : list str) : list (list cell) :=
  map (fun k => flat_map (fun tt => app_col tt k) titled) (app_keys b h).

Lemma app_col_length b titled h tt k :
  (forall tt, In tt titled -> wf (snd tt) /\ incl h (hdr (snd tt))) ->
  In tt titled -> In k (app_keys b h) -> length (app_col tt k) = nrows (snd tt).
Proof.
  intros H Ht Hk. destruct (H tt Ht) as [Hwf Hincl].
  destruct k as [c|]; cbn [app_col]; [|apply repeat_length].
  apply col_of_length; [exact Hwf|]. apply Hincl.
  unfold app_keys in Hk. apply in_app_or in Hk. destruct Hk as [Hk|Hk].
  - destruct b; [destruct Hk as [Hk|[]]; discriminate|destruct Hk].
  - apply in_map_iff in Hk. destruct Hk as [c' [Hc Hin]]. inversion Hc. subst. exact Hin.
Qed.

Lemma nth_repeat_lt {A} (x d : A) n i : (i < n)%nat -> nth i (repeat x n) d = x.
Proof.
  revert i. induction n as [|n IH]; intros i Hi; [lia|].
  cbn [repeat]. destruct i as [|i]; [reflexivity|]. cbn [nth]. apply IH. lia.
Qed.

Lemma flat_map_map {A B C} (g : B -> list C) (h : A -> B) l :
  flat_map g (map h l) = flat_map (fun x => g (h x)) l.
Proof. induction l as [|a l IH]; [reflexivity|]. cbn [map flat_map]. rewrite IH. reflexivity. Qed.

Lemma flat_map_ext_In {A B} (f g : A -> list B) l :
  (forall x, In x l -> f x = g x) -> flat_map f l = flat_map g l.
Proof.
  induction l as [|a l IH]; intros H; [reflexivity|].
  cbn [flat_map]. rewrite (H a) by (left; reflexivity). rewrite IH; [reflexivity|].
  intros x Hx. apply H. right. exact Hx.
Qed.

Lemma app_cols_rows b titled h :
  (forall tt, In tt titled -> wf (snd tt) /\ incl h (hdr (snd tt))) ->
  map (row_at (app_cols b titled h)) (seq 0 (sum_len (fun tt => nrows (snd tt)) titled)) =
  spec_appended h (map (fun tt : str * table => (fst tt, (hdr (snd tt), rows (snd tt)))) titled) b.
Proof.
  intros H. unfold app_cols.
  rewrite (concat_rows app_col (fun tt => nrows (snd tt)) (app_keys b h) titled)
    by (intros tt k Ht Hk; apply (app_col_length b titled h tt k H Ht Hk)).
  unfold spec_appended. rewrite flat_map_map. apply flat_map_ext_In. intros tt Ht.
  cbn [fst snd]. unfold rows, array. rewrite map_map.
  apply map_ext_in. intros i Hi. apply in_seq in Hi.
  unfold app_keys. rewrite map_app, row_at_app, map_map.
  change (map (fun x => app_col tt (Some x)) h) with (map (col_of (snd tt)) h).
  rewrite row_at_cols_proj. f_equal.
  destruct b; [|reflexivity]. cbn [map row_at app_col]. f_equal.
  apply nth_repeat_lt. lia.
Qed.

Lemma app_cols_Forall b titled h :
  (forall tt, In tt titled -> wf (snd tt) /\ incl h (hdr (snd tt))) ->
  Forall (fun v => length v = sum_len (fun tt => nrows (snd tt)) titled) (app_cols b titled h).
Proof.
  intros H. rewrite Forall_forall. intros v Hv. unfold app_cols in Hv.
  apply in_map_iff in Hv. destruct Hv as [k [Hk Hin]]. subst v.
  apply flat_map_length_sum. intros tt Ht. apply (app_col_length b titled h tt k H Ht Hin).
Qed.

Lemma app_cols_length b titled h :
  length (app_cols b titled h) = length ((if b then [None] else []) ++ map Some h).
Proof. unfold app_cols, app_keys. apply map_length. Qed.

Lemma same_set_incl a b : same_set a b = true -> incl b a.
Proof.
  unfold same_set. intros H. apply andb_true_iff in H. destruct H as [_ H].
  rewrite forallb_forall in H. intros c Hc. apply mem_str_In. apply H. exact Hc.
Qed.

Theorem appended_spec : forall self (nc : option str) (titled : list (str * table)),
  wf self -> hdr self <> [] ->
  (forall tt, In tt titled -> wf (snd tt) /\ same_set (hdr (snd tt)) (hdr self) = true) ->
  match nc with Some n => ~ In n (hdr self) | None => True end ->
  (forall c, In c (hdr self) ->
     coerce_col (flat_map (fun tt : str * table => col_of (snd tt) c) titled) =
     flat_map (fun tt : str * table => col_of (snd tt) c) titled) ->
  exists t', appended self nc titled = Ok t' /\
    hdr t' = (match nc with Some n => [n] | None => [] end) ++ hdr self /\
    wf t' /\
    rows t' = spec_appended (hdr self)
                (map (fun tt : str * table => (fst tt, (hdr (snd tt), rows (snd tt)))) titled)
                (match nc with Some _ => true | None => false end).
Proof.
  intros self nc titled Hwf Hhne Ht Hnc Hco.
  pose proof Hwf as [Hl [Hf Hndh]].
  set (h := hdr self) in *.
  assert (H : forall tt, In tt titled -> wf (snd tt) /\ incl h (hdr (snd tt))).
  { intros tt Hin. destruct (Ht tt Hin) as [Hw Hs]. split; [exact Hw|]. apply same_set_incl. exact Hs. }
  assert (Hall : forallb (fun t => same_set (hdr t) h) (map snd titled) = true).
  { apply forallb_forall. intros tb Htb. apply in_map_iff in Htb. destruct Htb as [tt [Hs Hin]]. subst tb.
    apply (Ht tt Hin). }
  assert (Hca : concat_all (map snd titled) h =
                Ok (map (fun c => flat_map (fun tt : str * table => col_of (snd tt) c) titled) h)).
  { apply concat_all_ok. intros tt c Hin Hc. destruct (H tt Hin) as [Hw Hi]. split; [exact Hw|apply Hi; exact Hc]. }
  assert (Hdata : map coerce_col (map (fun c => flat_map (fun tt : str * table => col_of (snd tt) c) titled) h) =
                  map (fun c => flat_map (fun tt : str * table => col_of (snd tt) c) titled) h).
  { rewrite map_map. apply map_ext_in. intros c Hc. apply Hco. exact Hc. }
  unfold appended. fold h. rewrite Hall. cbn [negb]. rewrite Hca. cbn [bind]. cbv zeta. rewrite Hdata.
  set (N := sum_len (fun tt : str * table => nrows (snd tt)) titled).
  destruct nc as [n|].
  - assert (Hmem : mem_str n h = false) by (apply mem_str_false; exact Hnc).
    rewrite Hmem.
    assert (Hcols : flat_map (fun tt : str * table => repeat (CS (fst tt)) (nrows (snd tt))) titled ::
                    map (fun c => flat_map (fun tt : str * table => col_of (snd tt) c) titled) h =
                    app_cols true titled h).
    { unfold app_cols, app_keys. cbn [app map]. rewrite map_map. reflexivity. }
    rewrite Hcols.
    assert (Hnd : NoDup (n :: h)) by (constructor; [exact Hnc|exact Hndh]).
    rewrite (set_cols_empty (n :: h) (app_cols true titled h) N);
      [|rewrite app_cols_length; cbn [app length]; rewrite map_length; reflexivity
       |apply app_cols_Forall; exact H|exact Hnd].
    eexists. split; [reflexivity|]. cbn [hdr app]. split; [reflexivity|]. split.
    + unfold wf. cbn [hdr cols nrows].
      split; [rewrite app_cols_length; cbn [app length]; rewrite map_length; reflexivity|].
      split; [apply app_cols_Forall; exact H|exact Hnd].
    + rewrite rows_mkT. apply app_cols_rows. exact H.
  - assert (Hcols : map (fun c => flat_map (fun tt : str * table => col_of (snd tt) c) titled) h =
                    app_cols false titled h).
    { unfold app_cols, app_keys. cbn [app]. rewrite map_map. reflexivity. }
    rewrite Hcols.
    rewrite (set_cols_empty h (app_cols false titled h) N);
      [|rewrite app_cols_length; cbn [app]; rewrite map_length; reflexivity
       |apply app_cols_Forall; exact H|exact Hndh].
    assert (Hn : match h with [] => 0%nat | _ :: _ => N end = N).
    { destruct h; [contradiction|reflexivity]. }
    rewrite Hn.
    eexists. split; [reflexivity|]. cbn [hdr app]. split; [reflexivity|]. split.
    + unfold wf. cbn [hdr cols nrows].
      split; [rewrite app_cols_length; cbn [app]; rewrite map_length; reflexivity|].
      split; [apply app_cols_Forall; exact H|exact Hndh].
    + rewrite rows_mkT. apply app_cols_rows. exact H.
Qed.

(* ------------------------------------------------------------------ the coercion hypotheses on a concrete table *)

(* columns a = [1; 2] (ints), b = [1.5; 2.5] (floats) *)
Definition ex_table : table :=
  mkT [[97]; [98]] [[CI 1; CI 2]; [CF 15 (-1); CF 25 (-1)]] 2.

(* with_new_column: the new column is the first cell of each row *)
Example with_new_column_coerce_ex :
  coerce_col (map (fun r => hd CN (proj (hdr ex_table) (default_cols ex_table None) r)) (rows ex_table)) =
  map (fun r => hd CN (proj (hdr ex_table) (default_cols ex_table None) r)) (rows ex_table).
Proof. apply coerce_col_id. intros c [Hc|[Hc|[]]]; subst c; reflexivity. Qed.

(* transposed on column a: every other cell of a row is a float *)
Example transposed_coerce_ex : forall r, In r (rows ex_table) ->
  coerce_col (proj (hdr ex_table) (filter (fun c => negb (str_eqb c [97])) (hdr ex_table)) r) =
  proj (hdr ex_table) (filter (fun c => negb (str_eqb c [97])) (hdr ex_table)) r.
Proof.
  intros r [Hr|[Hr|[]]]; subst r; apply coerce_col_id_float; reflexivity.
Qed.

(* appended: a table appended to itself; a column is all ints or all floats *)
Example appended_coerce_ex : forall c, In c (hdr ex_table) ->
  coerce_col (flat_map (fun tt : str * table => col_of (snd tt) c) [([116], ex_table); ([117], ex_table)]) =
  flat_map (fun tt : str * table => col_of (snd tt) c) [([116], ex_table); ([117], ex_table)].
Proof.
  intros c [Hc|[Hc|[]]]; subst c.
  - apply coerce_col_id. intros x [Hx|[Hx|[Hx|[Hx|[]]]]]; subst x; reflexivity.
  - apply coerce_col_id_float. reflexivity.
Qed.
