(** C09 — compositions ("histories") of the distance-preserving
    transformations: any finite chain of re-rootings, sortings, repaired
    unrootings and prunings preserves the tip set and every tip-to-tip path
    length, provided each step's own precondition holds on the tree it is
    applied to (the conditions are the premises of the step constructors). *)
From Coq Require Import Permutation.
From CG3 Require Import Lib.PyZ Lib.Val Lib.Rose Model.Tree Spec.TreeSpec Proofs.TreeProofs Proofs.TreeSubProofs.

Inductive tstep : tree -> tree -> Prop :=
| S_reroot t path x r :
    subtree_at t path = Some x -> kids x <> [] ->
    ((2 <= length (kids t))%nat \/ (path = [] /\ kids t <> [])) ->
    reroot_go t path None = Some r -> tstep t r
| S_rooted_at t nm r :
    (2 <= length (kids t))%nat -> rooted_at t nm = Ok r -> tstep t r
| S_rooted_with_tip t nm r :
    (2 <= length (kids t))%nat -> rooted_with_tip t nm = Ok r -> tstep t r
| S_sorted t order : tstep t (tree_sorted t order)
| S_unrooted t : has_lens t = true -> tstep t (unrooted_fixed t)
| S_prune t : has_lens t = true -> tstep t (prune t).

Inductive tsteps : tree -> tree -> Prop :=
| TS_nil t : tsteps t t
| TS_cons t u v : tstep t u -> tsteps u v -> tsteps t v.

Lemma tstep_preserves dflt t u a b :
  tstep t u -> NoDup (tips t) -> In a (tips t) -> In b (tips t) ->
  Permutation (tips u) (tips t) /\ pathlen dflt u a b = pathlen dflt t a b.
Proof.
  intros Hs Hnd Ha Hb. destruct Hs as [t path x r Hx Hk Har Hr|t nm r Har Hr|t nm r Har Hr|t order|t HL|t HL].
  - eapply reroot_preserves; eauto.
  - eapply rooted_at_preserves; eauto.
  - eapply rooted_with_tip_preserves; eauto.
  - apply sorted_preserves.
  - apply unrooted_fixed_preserves; auto.
  - apply prune_preserves; auto.
Qed.

Theorem chain_preserves : forall t v, tsteps t v ->
  NoDup (tips t) -> forall dflt a b, In a (tips t) -> In b (tips t) ->
  Permutation (tips v) (tips t) /\ pathlen dflt v a b = pathlen dflt t a b.
Proof.
  intros t v Hs. induction Hs as [t|t u v Hst Hs IH]; intros Hnd dflt a b Ha Hb.
  - split; reflexivity.
  - destruct (tstep_preserves dflt t u a b Hst Hnd Ha Hb) as (HP & HD).
    assert (Hndu : NoDup (tips u)) by (eapply Permutation_NoDup; [apply Permutation_sym; exact HP|exact Hnd]).
    assert (Hau : In a (tips u)) by (eapply Permutation_in; [apply Permutation_sym; exact HP|exact Ha]).
    assert (Hbu : In b (tips u)) by (eapply Permutation_in; [apply Permutation_sym; exact HP|exact Hb]).
    destruct (IH Hndu dflt a b Hau Hbu) as (HP2 & HD2).
    split; [etransitivity; eauto|congruence].
Qed.

(** non-vacuity: the standard idiom "re-root at a node, then prune" on a concrete tree *)
Example chain_example :
  let t := Node [114;111;111;116] None
             [Node [120] (Some 3) [Node [97] (Some 1) []; Node [98] (Some 2) []];
              Node [121] (Some 6) [Node [99] (Some 4) []; Node [100] (Some 5) []]] in
  exists r, tsteps t (prune r) /\ rooted_at t [120] = Ok r.
Proof.
  eexists. split.
  - eapply TS_cons; [eapply S_rooted_at with (nm := [120]); [cbn; lia|vm_compute; reflexivity]|].
    eapply TS_cons; [apply S_prune; vm_compute; reflexivity|apply TS_nil].
  - vm_compute. reflexivity.
Qed.
