(** Proofs about Model/TableCount.v: [count_unique] is a plain count over the projected rows with
    Python equality of keys, the argument forms (name / position / list / nothing) select the same
    columns, and its keys are the [distinct_values] list in the same order. *)
From Coq Require Import Permutation QArith.
From CG3 Require Import Lib.PyZ Lib.Chars Lib.StableSort Lib.Val Model.Csv Model.Table Model.TableCount
     Spec.TableSpec Proofs.TableBase Proofs.TableProofs.
Import ListNotations.
Open Scope Z_scope.

(* ------------------------------------------------------------------ 1. the counter is a plain count *)

Definition occ (k : list cell) (data : list (list cell)) : Z :=
  Z.of_nat (length (filter (fun d => key_eqb d k) data)).

Lemma occ_snoc k ds x : occ k (ds ++ [x]) = occ k ds + (if key_eqb x k then 1 else 0).
Proof.
  unfold occ. rewrite filter_app, app_length. cbn [filter].
  destruct (key_eqb x k); cbn [length]; lia.
Qed.

Lemma occ_zero k ds : (forall d, In d ds -> key_eqb d k = false) -> occ k ds = 0.
Proof.
  unfold occ. induction ds as [|d ds IH]; intros H; [reflexivity|].
  cbn [filter]. rewrite (H d (or_introl eq_refl)). apply IH. intros d' Hd'. apply H. right. exact Hd'.
Qed.

Definition knr (a b : list cell * Z) : Prop := key_eqb (fst a) (fst b) = false.

(* where an entry of the bumped counter comes from *)
Lemma counter_add_in x m :
  ForallOrdPairs knr m ->
  forall k0 n0, In (k0, n0) (counter_add x m) ->
    (In (k0, n0) m /\ key_eqb x k0 = false) \/
    (exists n, In (k0, n) m /\ n0 = n + 1 /\ key_eqb x k0 = true) \/
    (k0 = x /\ n0 = 1 /\ forall e, In e m -> key_eqb x (fst e) = false).
Proof.
  induction m as [|[k' n] m IH]; intros HF k0 n0 Hin.
  - cbn [counter_add] in Hin. destruct Hin as [E|[]]. inversion E; subst.
    right. right. split; [reflexivity|]. split; [reflexivity|]. intros e [].
  - inversion HF as [|? ? Hhd HF']; subst.
    cbn [counter_add] in Hin. destruct (key_eqb x k') eqn:E.
    + destruct Hin as [E0|Hin].
      * inversion E0; subst. right. left. exists n. split; [left; reflexivity|]. split; [reflexivity|exact E].
      * left. split; [right; exact Hin|].
        rewrite Forall_forall in Hhd. specialize (Hhd _ Hin). unfold knr in Hhd. cbn [fst] in Hhd.
        rewrite (keq_left _ _ _ E). exact Hhd.
    + destruct Hin as [E0|Hin].
      * inversion E0; subst. left. split; [left; reflexivity|exact E].
      * destruct (IH HF' k0 n0 Hin) as [[H1 H2]|[[n1 [H1 [H2 H3]]]|[H1 [H2 H3]]]].
        -- left. split; [right; exact H1|exact H2].
        -- right. left. exists n1. split; [right; exact H1|]. split; [exact H2|exact H3].
        -- right. right. split; [exact H1|]. split; [exact H2|].
           intros e [He|He]; [subst e; exact E|apply H3; exact He].
Qed.

(* the keys of the bumped counter *)
Lemma counter_add_keys x m :
  map fst (counter_add x m) =
  if existsb (key_eqb x) (map fst m) then map fst m else map fst m ++ [x].
Proof.
  induction m as [|[k' n] m IH]; [reflexivity|].
  cbn [counter_add map fst existsb]. destruct (key_eqb x k') eqn:E; cbn [orb map fst].
  - reflexivity.
  - rewrite IH. destruct (existsb (key_eqb x) (map fst m)); reflexivity.
Qed.

Lemma in_keys (k : list cell) (m : list (list cell * Z)) :
  In k (map fst m) <-> exists n, In (k, n) m.
Proof.
  rewrite in_map_iff. split.
  - intros [[k' n] [E H]]. cbn [fst] in E. subst. exists n. exact H.
  - intros [n H]. exists (k, n). split; [reflexivity|exact H].
Qed.

Lemma existsb_keq_false x (l : list (list cell)) :
  existsb (key_eqb x) l = false <-> forall k, In k l -> key_eqb x k = false.
Proof.
  induction l as [|a l IH]; cbn [existsb].
  - split; [intros _ k []|reflexivity].
  - rewrite orb_false_iff, IH. split.
    + intros [H1 H2] k [E|H]; [subst; exact H1|apply H2; exact H].
    + intros H. split; [apply H; left; reflexivity|]. intros k Hk. apply H. right. exact Hk.
Qed.

Lemma FOP_snoc {A} (R : A -> A -> Prop) l a :
  ForallOrdPairs R l -> (forall e, In e l -> R e a) -> ForallOrdPairs R (l ++ [a]).
Proof.
  induction l as [|b l IH]; intros HF H.
  - cbn. constructor; [constructor|constructor].
  - inversion HF as [|? ? Hhd HF']; subst. cbn [app]. constructor.
    + apply Forall_app. split; [exact Hhd|]. constructor; [|constructor]. apply H. left. reflexivity.
    + apply IH; [exact HF'|]. intros e He. apply H. right. exact He.
Qed.

Lemma FOP_map {A B} (f : A -> B) (R : B -> B -> Prop) l :
  ForallOrdPairs R (map f l) <-> ForallOrdPairs (fun a b => R (f a) (f b)) l.
Proof.
  induction l as [|a l IH]; cbn [map].
  - split; intros _; constructor.
  - split; intros H; inversion H as [|? ? Hhd HF']; subst; constructor.
    + rewrite Forall_forall in *. intros e He. apply Hhd. apply in_map. exact He.
    + apply IH. exact HF'.
    + rewrite Forall_forall in *. intros e He. apply in_map_iff in He. destruct He as [e' [E He']]. subst.
      apply Hhd. exact He'.
    + apply IH. exact HF'.
Qed.

Lemma counter_add_FOP x m : ForallOrdPairs knr m -> ForallOrdPairs knr (counter_add x m).
Proof.
  intros HF. unfold knr in *. apply (FOP_map fst (fun a b => key_eqb a b = false)).
  apply (FOP_map fst (fun a b => key_eqb a b = false)) in HF.
  rewrite counter_add_keys. destruct (existsb (key_eqb x) (map fst m)) eqn:E; [exact HF|].
  apply FOP_snoc; [exact HF|]. intros e He. rewrite keq_sym.
  rewrite existsb_keq_false in E. apply E. exact He.
Qed.

Definition cinv (ds : list (list cell)) (m : list (list cell * Z)) : Prop :=
  (forall k n, In (k, n) m -> In k ds /\ n = occ k ds /\ 0 < n) /\
  (forall d, In d ds -> exists k n, In (k, n) m /\ key_eqb d k = true) /\
  ForallOrdPairs knr m.

Lemma cinv_step ds m x : cinv ds m -> cinv (ds ++ [x]) (counter_add x m).
Proof.
  intros [H1 [H2 H3]]. split; [|split].
  - intros k0 n0 Hin.
    destruct (counter_add_in x m H3 k0 n0 Hin) as [[Ha Hb]|[[n1 [Ha [Hb Hc]]]|[Ha [Hb Hc]]]].
    + destruct (H1 _ _ Ha) as [Hi [Ho Hp]].
      split; [apply in_or_app; left; exact Hi|]. rewrite occ_snoc, Hb. split; [lia|exact Hp].
    + destruct (H1 _ _ Ha) as [Hi [Ho Hp]].
      split; [apply in_or_app; left; exact Hi|]. rewrite occ_snoc, Hc. split; lia.
    + subst k0 n0. split; [apply in_or_app; right; left; reflexivity|].
      rewrite occ_snoc, keq_refl. split; [|lia].
      rewrite occ_zero; [reflexivity|]. intros d Hd.
      destruct (H2 d Hd) as [k [n [Hk He]]].
      rewrite (keq_left _ _ _ He). rewrite keq_sym. apply (Hc (k, n)). exact Hk.
  - intros d Hd.
    assert (Hkeys : forall k, In k (map fst m) -> In k (map fst (counter_add x m))).
    { intros k Hk. rewrite counter_add_keys. destruct (existsb (key_eqb x) (map fst m)); [exact Hk|].
      apply in_or_app. left. exact Hk. }
    apply in_app_or in Hd. destruct Hd as [Hd|[Hd|[]]].
    + destruct (H2 d Hd) as [k [n [Hk He]]].
      assert (Hk' : In k (map fst (counter_add x m))) by (apply Hkeys; apply in_keys; exists n; exact Hk).
      apply in_keys in Hk'. destruct Hk' as [n' Hk']. exists k, n'. split; [exact Hk'|exact He].
    + subst d. destruct (existsb (key_eqb x) (map fst m)) eqn:E.
      * apply existsb_exists in E. destruct E as [k [Hk He]].
        apply Hkeys in Hk. apply in_keys in Hk. destruct Hk as [n' Hk]. exists k, n'. split; [exact Hk|exact He].
      * assert (Hk : In x (map fst (counter_add x m))).
        { rewrite counter_add_keys, E. apply in_or_app. right. left. reflexivity. }
        apply in_keys in Hk. destruct Hk as [n' Hk]. exists x, n'. split; [exact Hk|apply keq_refl].
  - apply counter_add_FOP. exact H3.
Qed.

Lemma cinv_fold data : forall ds m,
  cinv ds m -> cinv (ds ++ data) (fold_left (fun m k => counter_add k m) data m).
Proof.
  induction data as [|x data IH]; intros ds m H.
  - rewrite app_nil_r. exact H.
  - cbn [fold_left]. replace (ds ++ x :: data) with ((ds ++ [x]) ++ data) by (rewrite <- app_assoc; reflexivity).
    apply IH. apply cinv_step. exact H.
Qed.

Theorem counter_spec : forall data,
  (forall k n, In (k, n) (counter data) -> In k data /\ n = occ k data /\ 0 < n) /\
  (forall d, In d data -> exists k n, In (k, n) (counter data) /\ key_eqb d k = true) /\
  ForallOrdPairs (fun a b => key_eqb (fst a) (fst b) = false) (counter data).
Proof.
  intros data. unfold counter.
  assert (H0 : cinv [] []).
  { split; [intros k n []|]. split; [intros d []|constructor]. }
  exact (cinv_fold data [] [] H0).
Qed.

(* ------------------------------------------------------------------ 2. the argument forms *)

Lemma resolve_carg_name : forall t (s : str) b, resolve_carg t (CName s) b = Ok [s].
Proof. reflexivity. Qed.

Lemma resolve_carg_list : forall t (l : list str) b, resolve_carg t (CList l) b = Ok l.
Proof. reflexivity. Qed.

Lemma resolve_carg_int : forall t i b, 0 <= i < zlen (hdr t) ->
  resolve_carg t (CInt i) b = Ok [nth (Z.to_nat i) (hdr t) []].
Proof.
  intros t i b H. unfold resolve_carg.
  destruct (Z.leb_spec 0 i); [|lia]. destruct (Z.ltb_spec i (zlen (hdr t))); [|lia]. reflexivity.
Qed.

(* a negative position counts from the end *)
Lemma resolve_carg_int_neg : forall t i b, - zlen (hdr t) <= i < 0 ->
  resolve_carg t (CInt i) b = Ok [nth (Z.to_nat (zlen (hdr t) + i)) (hdr t) []].
Proof.
  intros t i b H. unfold resolve_carg.
  destruct (Z.leb_spec 0 i); [lia|]. cbn [andb].
  destruct (Z.leb_spec (- zlen (hdr t)) i); [|lia]. destruct (Z.ltb_spec i 0); [|lia]. reflexivity.
Qed.

Lemma resolve_carg_none_all : forall t, resolve_carg t CNone true = Ok (hdr t).
Proof. reflexivity. Qed.

Theorem count_unique_forms_agree : forall t (s : str) i,
  0 <= i < zlen (hdr t) -> nth (Z.to_nat i) (hdr t) [] = s ->
  count_unique t (CName s) = count_unique t (CList [s]) /\
  count_unique t (CInt i) = count_unique t (CName s).
Proof.
  intros t s i Hi Hs. split; [reflexivity|].
  unfold count_unique. rewrite (resolve_carg_int t i true Hi), Hs. reflexivity.
Qed.

Theorem distinct_values_forms_agree : forall t (s : str) i,
  0 <= i < zlen (hdr t) -> nth (Z.to_nat i) (hdr t) [] = s ->
  distinct_values_arg t (CName s) = distinct_values_arg t (CList [s]) /\
  distinct_values_arg t (CInt i) = distinct_values_arg t (CName s).
Proof.
  intros t s i Hi Hs. split; [reflexivity|].
  unfold distinct_values_arg. rewrite (resolve_carg_int t i false Hi), Hs. reflexivity.
Qed.

Theorem count_unique_none_one_column : forall t (s : str),
  hdr t = [s] -> count_unique t CNone = count_unique t (CName s).
Proof.
  intros t s H. unfold count_unique. cbn [resolve_carg]. rewrite H. reflexivity.
Qed.

(* ------------------------------------------------------------------ 3. count_unique = counter of the projected rows *)

Lemma first_occurrences_nodup (l : list str) : forall seen,
  NoDup l -> (forall c, In c l -> ~ In c seen) -> first_occurrences seen l = l.
Proof.
  induction l as [|c l IH]; intros seen Hnd Hd; [reflexivity|].
  inversion Hnd as [|? ? Hc Hnd']; subst.
  cbn [first_occurrences].
  assert (E : mem_str c seen = false) by (apply mem_str_false; apply Hd; left; reflexivity).
  rewrite E. f_equal. apply IH; [exact Hnd'|].
  intros c0 Hc0 [E0|Hs].
  - subst c0. contradiction.
  - apply (Hd c0); [right; exact Hc0|exact Hs].
Qed.

Lemma take_columns_ok t (names : list str) :
  wf t -> incl names (hdr t) -> NoDup names ->
  take_columns t names = Ok (names, map (col_of t) names).
Proof.
  intros Hwf Hincl Hnd. unfold take_columns.
  rewrite (first_occurrences_nodup names [] Hnd); [|intros c _ []].
  rewrite (get_cols_ok t names Hwf Hincl). reflexivity.
Qed.

Lemma selected_rows_proj t (names : list str) :
  selected_rows t (map (col_of t) names) = map (proj (hdr t) names) (rows t).
Proof.
  unfold selected_rows, rows, array. rewrite map_map. apply map_ext. intros i. apply row_at_cols_proj.
Qed.

Theorem count_unique_spec : forall t a names,
  wf t -> resolve_carg t a true = Ok names -> incl names (hdr t) -> NoDup names ->
  exists cnt, count_unique t a = Ok (Nat.eqb (length names) 1, cnt) /\
              cnt = counter (map (proj (hdr t) names) (rows t)).
Proof.
  intros t a names Hwf Hres Hincl Hnd. eexists. split; [|reflexivity].
  unfold count_unique. rewrite Hres. cbn [bind].
  rewrite (take_columns_ok t names Hwf Hincl Hnd). cbn [bind fst snd].
  rewrite selected_rows_proj. reflexivity.
Qed.

(* ------------------------------------------------------------------ 4. the keys are distinct_values, in order *)

Lemma counter_fold_keys data : forall seen m,
  (forall k, existsb (key_eqb k) seen = existsb (key_eqb k) (map fst m)) ->
  map fst (fold_left (fun m k => counter_add k m) data m) = map fst m ++ dedup seen data.
Proof.
  induction data as [|x data IH]; intros seen m H.
  - cbn [fold_left dedup]. rewrite app_nil_r. reflexivity.
  - cbn [fold_left dedup]. rewrite (H x).
    assert (Hk := counter_add_keys x m).
    destruct (existsb (key_eqb x) (map fst m)) eqn:E.
    + rewrite (IH seen (counter_add x m)); [rewrite Hk; reflexivity|].
      intros k. rewrite Hk. apply H.
    + rewrite (IH (x :: seen) (counter_add x m)).
      * rewrite Hk, <- app_assoc. reflexivity.
      * intros k. rewrite Hk, existsb_app. cbn [existsb]. rewrite (H k), orb_false_r. apply orb_comm.
Qed.

Theorem counter_keys_dedup : forall data, map fst (counter data) = dedup [] data.
Proof.
  intros data. unfold counter. rewrite (counter_fold_keys data [] []); [reflexivity|]. intros k. reflexivity.
Qed.

Lemma resolve_carg_false_true t a names :
  resolve_carg t a false = Ok names -> resolve_carg t a true = Ok names.
Proof.
  destruct a as [|s|i|l]; intros H; [discriminate H|exact H|exact H|exact H].
Qed.

Theorem count_unique_keys_distinct : forall t a names,
  wf t -> resolve_carg t a false = Ok names -> incl names (hdr t) -> NoDup names ->
  exists cnt ks,
    count_unique t a = Ok (Nat.eqb (length names) 1, cnt) /\
    distinct_values_arg t a = Ok (Nat.eqb (length names) 1, ks) /\
    map fst cnt = ks.
Proof.
  intros t a names Hwf Hres Hincl Hnd.
  destruct (count_unique_spec t a names Hwf (resolve_carg_false_true t a names Hres) Hincl Hnd) as [cnt [Hc He]].
  exists cnt, (dedup [] (map (proj (hdr t) names) (rows t))). split; [exact Hc|]. split.
  - unfold distinct_values_arg. rewrite Hres. cbn [bind].
    rewrite (take_columns_ok t names Hwf Hincl Hnd). cbn [bind fst snd].
    rewrite selected_rows_proj. reflexivity.
  - subst cnt. apply counter_keys_dedup.
Qed.

(* ------------------------------------------------------------------ 5. examples *)

Definition ex_t : table :=
  mkT [[97]; [98]]
      [[CI 1; CB true; CI 2; CI 1]; [CS [120]; CS [120]; CS [121]; CS [120]]] 4.

(* True == 1 : merged under the first key object *)
Example ex_name : count_unique ex_t (CName [97]) = Ok (true, [([CI 1], 3); ([CI 2], 1)]).
Proof. vm_compute. reflexivity. Qed.

(* no argument: all columns, tuple keys *)
Example ex_none : count_unique ex_t CNone = Ok (false, [([CI 1; CS [120]], 3); ([CI 2; CS [121]], 1)]).
Proof. vm_compute. reflexivity. Qed.

(* -1 : the last column, b *)
Example ex_int_neg : count_unique ex_t (CInt (-1)) = Ok (true, [([CS [120]], 3); ([CS [121]], 1)]).
Proof. vm_compute. reflexivity. Qed.

Example ex_int_neg_is_b : count_unique ex_t (CInt (-1)) = count_unique ex_t (CName [98]).
Proof. vm_compute. reflexivity. Qed.

Example ex_missing : count_unique ex_t (CName [122; 122]) = Er E_Key.
Proof. vm_compute. reflexivity. Qed.

(* distinct_values needs its argument *)
Example ex_distinct_none : distinct_values_arg ex_t CNone = Er E_Key.
Proof. vm_compute. reflexivity. Qed.

Example ex_distinct_int : distinct_values_arg ex_t (CInt 0) = Ok (true, [[CI 1]; [CI 2]]).
Proof. vm_compute. reflexivity. Qed.
