(** C15 — binary tree metrics exist and are closed under growing the tree: the 3-star is one, and
    replacing a tip u by a cherry (u, new tip) with positive lengths keeps the split system a
    binary tree (pairwise compatible, pendants, maximal). *)
From Coq Require Import QArith Qminmax List Bool Arith ZArith Lia Lqa.
From CG3 Require Import Model.NJ Spec.DistSpec Spec.SplitSpec Proofs.NJProofs Proofs.NJRunProofs Proofs.NJCompleteProofs
     Proofs.UPGMAProofs Proofs.NJQuartetProofs Proofs.NJCherryProofs.
Import ListNotations.
Open Scope Q_scope.

Lemma compat_sym L s t : compat L s t -> compat L t s.
Proof. intros (a & b & H). exists b, a. intros k Hk [H1 H2]. exact (H k Hk (conj H2 H1)). Qed.


Lemma side_ptip L k : (k < L)%nat -> side L (ptip k) k = 1%nat.
Proof.
  intros Hk. unfold side. rewrite (cnt_remove L _ k Hk) by (apply eqb_reflx).
  rewrite cnt_false; [reflexivity|]. intros x Hx. unfold ptip. rewrite Nat.eqb_refl.
  destruct (Nat.eqb_spec x k); cbn; reflexivity.
Qed.

(** ------------------------------------------------------------------ the 3-star *)

Definition star3 (a b c : Q) : list split := [(ptip 0, a); (ptip 1, b); (ptip 2, c)].

Lemma star3_sys a b c : 0 < a -> 0 < b -> 0 < c -> split_sys 3 (star3 a b c).
Proof.
  intros Pa Pb Pc. constructor.
  - intros e [<-|[<-|[<-|[]]]]; assumption.
  - intros e [<-|[<-|[<-|[]]]]; cbn [sg fst].
    + exists 0%nat, 1%nat. repeat split; try lia; discriminate.
    + exists 1%nat, 0%nat. repeat split; try lia; discriminate.
    + exists 2%nat, 0%nat. repeat split; try lia; discriminate.
  - intros e f [<-|[<-|[<-|[]]]] [<-|[<-|[<-|[]]]]; cbn [sg fst];
      try solve [exists true, false; intros k Hk [H1 H2]; congruence];
      exists true, true; intros k Hk [H1 H2]; unfold ptip in *; apply Nat.eqb_eq in H1; apply Nat.eqb_eq in H2; lia.
  - intros k Hk. assert (k = 0 \/ k = 1 \/ k = 2)%nat as [->|[->| ->]] by lia.
    + exists (ptip 0, a). split; [left; reflexivity|]. apply side_ptip. lia.
    + exists (ptip 1, b). split; [right; left; reflexivity|]. apply side_ptip. lia.
    + exists (ptip 2, c). split; [right; right; left; reflexivity|]. apply side_ptip. lia.
  - intros t (k & k' & Hk & Hk' & Hne) _.
    assert (Hcase : forall x, (x < 3)%nat -> x = 0%nat \/ x = 1%nat \/ x = 2%nat) by (intros; lia).
    destruct (t 0%nat) eqn:T0; destruct (t 1%nat) eqn:T1; destruct (t 2%nat) eqn:T2;
      try (exfalso; destruct (Hcase k Hk) as [->|[->| ->]]; destruct (Hcase k' Hk') as [->|[->| ->]]; congruence).
    + exists (ptip 2, c). split; [right; right; left; reflexivity|]. right. intros x Hx. destruct (Hcase x Hx) as [->|[->| ->]]; cbn; rewrite ?T0, ?T1, ?T2; reflexivity.
    + exists (ptip 1, b). split; [right; left; reflexivity|]. right. intros x Hx. destruct (Hcase x Hx) as [->|[->| ->]]; cbn; rewrite ?T0, ?T1, ?T2; reflexivity.
    + exists (ptip 0, a). split; [left; reflexivity|]. left. intros x Hx. destruct (Hcase x Hx) as [->|[->| ->]]; cbn; rewrite ?T0, ?T1, ?T2; reflexivity.
    + exists (ptip 0, a). split; [left; reflexivity|]. right. intros x Hx. destruct (Hcase x Hx) as [->|[->| ->]]; cbn; rewrite ?T0, ?T1, ?T2; reflexivity.
    + exists (ptip 1, b). split; [right; left; reflexivity|]. left. intros x Hx. destruct (Hcase x Hx) as [->|[->| ->]]; cbn; rewrite ?T0, ?T1, ?T2; reflexivity.
    + exists (ptip 2, c). split; [right; right; left; reflexivity|]. left. intros x Hx. destruct (Hcase x Hx) as [->|[->| ->]]; cbn; rewrite ?T0, ?T1, ?T2; reflexivity.
Qed.

(** ------------------------------------------------------------------ growing the tree: tip u becomes the cherry (u, L) *)

Definition lift (L u : nat) (e : split) : split := (fun x => sg e (pi_ L u x), wt e).
Definition expandE (L u : nat) (a b : Q) (E : list split) : list split :=
  (ptip u, a) :: (ptip L, b) :: map (lift L u) E.

Lemma pi_lt L u x : (u < L)%nat -> (x < S L)%nat -> (pi_ L u x < L)%nat.
Proof. intros Hu Hx. unfold pi_. destruct (Nat.eqb_spec x L); lia. Qed.

Lemma pi_id L u x : (x < L)%nat -> pi_ L u x = x.
Proof. intros Hx. unfold pi_. destruct (Nat.eqb_spec x L); [lia|reflexivity]. Qed.

Lemma cnt_lift L u p : cnt (S L) (fun x => p (pi_ L u x)) = (cnt L p + (if p u then 1 else 0))%nat.
Proof.
  rewrite cnt_S. unfold pi_ at 2. rewrite Nat.eqb_refl. f_equal.
  apply cnt_ext. intros k Hk. rewrite pi_id by exact Hk. reflexivity.
Qed.

Lemma expand_rep L u a b E d : (u < L)%nat -> rep L E d -> rep (S L) (expandE L u a b E) (expand_d L u a b d).
Proof.
  intros Hu Hrep x y Hx Hy. unfold expandE, expand_d, wsum. cbn [map]. rewrite !qsum_cons. cbn [wt sg fst snd].
  fold (wsum (map (lift L u) E) (fun e => b2q (sepb (sg e) x y))).
  rewrite (wsum_map (lift L u) E) by reflexivity. cbn [lift sg fst].
  rewrite (Hrep (pi_ L u x) (pi_ L u y)) by (apply pi_lt; assumption).
  rewrite (wsum_ext E (fun e => b2q (sepb (fun x0 => sg e (pi_ L u x0)) x y)) (fun e => b2q (sepb (sg e) (pi_ L u x) (pi_ L u y))))
    by (intros; reflexivity).
  ring.
Qed.

Section Expand.
  Variables (L u : nat) (a b : Q) (E : list split).
  Hypothesis HL : (2 <= L)%nat.
  Hypothesis Hu : (u < L)%nat.
  Hypothesis Pa : 0 < a. Hypothesis Pb : 0 < b.
  Hypothesis Hss : split_sys L E.

  Lemma lift_compat_ptip_u e : compat (S L) (ptip u) (sg (lift L u e)).
  Proof.
    exists true, (negb (sg e u)). intros x Hx [H1 H2]. unfold ptip in H1. apply Nat.eqb_eq in H1. subst x.
    cbn [lift sg fst] in H2. rewrite pi_id in H2 by exact Hu. destruct (sg e u); discriminate.
  Qed.

  Lemma lift_compat_ptip_L e : compat (S L) (ptip L) (sg (lift L u e)).
  Proof.
    exists true, (negb (sg e u)). intros x Hx [H1 H2]. unfold ptip in H1. apply Nat.eqb_eq in H1. subst x.
    cbn [lift sg fst] in H2. unfold pi_ in H2. rewrite Nat.eqb_refl in H2. destruct (sg e u); discriminate.
  Qed.

  Lemma expand_sys : split_sys (S L) (expandE L u a b E).
  Proof.
    constructor.
    - intros e [<-|[<-|He]]; try assumption. apply in_map_iff in He. destruct He as (e0 & <- & He0). cbn. apply (ss_pos L E Hss e0 He0).
    - intros e [<-|[<-|He]]; cbn [sg fst].
      + exists u, L. split; [lia|]. split; [lia|]. unfold ptip. rewrite Nat.eqb_refl. destruct (Nat.eqb_spec L u); [lia|discriminate].
      + exists L, u. split; [lia|]. split; [lia|]. unfold ptip. rewrite Nat.eqb_refl. destruct (Nat.eqb_spec u L); [lia|discriminate].
      + apply in_map_iff in He. destruct He as (e0 & <- & He0).
        destruct (ss_proper L E Hss e0 He0) as (k & k' & Hk & Hk' & Hne). exists k, k'. split; [lia|]. split; [lia|].
        cbn [lift sg fst]. rewrite !pi_id by assumption. exact Hne.
    - assert (Huu : compat (S L) (ptip u) (ptip u)) by (exists true, false; intros k Hk [H1 H2]; congruence).
      assert (HLL : compat (S L) (ptip L) (ptip L)) by (exists true, false; intros k Hk [H1 H2]; congruence).
      assert (HuL : compat (S L) (ptip u) (ptip L)).
      { exists true, true. intros k Hk [H1 H2]. unfold ptip in *. apply Nat.eqb_eq in H1. apply Nat.eqb_eq in H2. lia. }
      intros e f [<-|[<-|He]] [<-|[<-|Hf]]; cbn [sg fst]; try assumption; try (apply compat_sym; assumption).
      + apply in_map_iff in Hf. destruct Hf as (f0 & <- & _). apply lift_compat_ptip_u.
      + apply in_map_iff in Hf. destruct Hf as (f0 & <- & _). apply lift_compat_ptip_L.
      + apply in_map_iff in He. destruct He as (e0 & <- & _). apply compat_sym, lift_compat_ptip_u.
      + apply in_map_iff in He. destruct He as (e0 & <- & _). apply compat_sym, lift_compat_ptip_L.
      + apply in_map_iff in He. destruct He as (e0 & <- & He0). apply in_map_iff in Hf. destruct Hf as (f0 & <- & Hf0).
        destruct (ss_compat L E Hss e0 f0 He0 Hf0) as (a0 & b0 & H). exists a0, b0. intros k Hk. cbn [lift sg fst].
        apply H. apply pi_lt; assumption.
    - intros k Hk. destruct (Nat.eq_dec k u) as [->|Hku]; [|destruct (Nat.eq_dec k L) as [->|HkL]].
      + exists (ptip u, a). split; [left; reflexivity|]. apply side_ptip. lia.
      + exists (ptip L, b). split; [right; left; reflexivity|]. apply side_ptip. lia.
      + assert (HkL' : (k < L)%nat) by lia.
        destruct (ss_pend L E Hss k HkL') as (e & He & Hside).
        exists (lift L u e). split; [right; right; apply in_map; exact He|].
        unfold side. cbn [lift sg fst]. rewrite (pi_id L u k HkL').
        rewrite (cnt_lift L u (fun x => Bool.eqb (sg e x) (sg e k))).
        assert (Hp : pend L k e = true) by (unfold pend; apply Nat.eqb_eq; exact Hside).
        pose proof (pend_sep L k e u HkL' Hu Hp (not_eq_sym Hku)) as Hne.
        rewrite (proj2 (eqb_false_iff _ _) Hne). unfold side in Hside. lia.
    - intros t Hprop Hcomp.
      destruct (bool_dec (t u) (t L)) as [Esame|Ediff].
      + (* t keeps u and the new tip together: it comes from a split of the old tree *)
        assert (Hprop' : proper L t).
        { destruct Hprop as (k & k' & Hk & Hk' & Hne).
          assert (Hfix : forall z, (z < S L)%nat -> exists z', (z' < L)%nat /\ t z' = t z).
          { intros z Hz. destruct (Nat.eq_dec z L) as [->|]; [exists u; split; [exact Hu|exact Esame]|exists z; split; [lia|reflexivity]]. }
          destruct (Hfix k Hk) as (z & Hz & Ez). destruct (Hfix k' Hk') as (z' & Hz' & Ez').
          exists z, z'. split; [exact Hz|]. split; [exact Hz'|]. congruence. }
        assert (Hcomp' : forall e, In e E -> compat L (sg e) t).
        { intros e He. destruct (Hcomp (lift L u e) ltac:(right; right; apply in_map; exact He)) as (a0 & b0 & H).
          exists a0, b0. intros k Hk [H1 H2]. apply (H k ltac:(lia)). cbn [lift sg fst]. rewrite pi_id by exact Hk. auto. }
        destruct (ss_max L E Hss t Hprop' Hcomp') as (e & He & Hsame).
        exists (lift L u e). split; [right; right; apply in_map; exact He|].
        destruct Hsame as [Hs|Hs]; [left|right]; intros k Hk; cbn [lift sg fst];
          (destruct (Nat.eq_dec k L) as [->|HkL];
           [unfold pi_; rewrite Nat.eqb_refl; rewrite (Hs u Hu), Esame; reflexivity
           |rewrite pi_id by lia; apply Hs; lia]).
      + (* t separates u from the new tip: it is one of the two new pendant splits *)
        destruct (ss_pend L E Hss u Hu) as (ep & Hep & Hside).
        assert (Hp : pend L u ep = true) by (unfold pend; apply Nat.eqb_eq; exact Hside).
        pose proof (Hcomp (lift L u ep) ltac:(right; right; apply in_map; exact Hep)) as Hc.
        assert (Hrest : exists r, forall x, (x < L)%nat -> x <> u -> t x = r).
        { destruct Hc as (a0 & b0 & H).
          assert (Hsu : sg (lift L u ep) u = sg ep u) by (cbn [lift sg fst]; rewrite pi_id by exact Hu; reflexivity).
          assert (HsL : sg (lift L u ep) L = sg ep u) by (cbn [lift sg fst]; unfold pi_; rewrite Nat.eqb_refl; reflexivity).
          assert (Ha0 : a0 = negb (sg ep u)).
          { destruct (bool_dec a0 (sg ep u)) as [Ea|Na]; [exfalso|apply bool_neq_negb; exact Na].
            destruct (bool_dec (t u) b0) as [Eb|Nb].
            - apply (H u ltac:(lia)). rewrite Hsu. auto.
            - apply (H L ltac:(lia)). rewrite HsL. split; [auto|]. destruct (t u), (t L), b0; try reflexivity; congruence. }
          exists (negb b0). intros x Hx Hxu. apply bool_neq_negb. intros Hb. apply (H x ltac:(lia)). split; [|exact Hb].
          cbn [lift sg fst]. rewrite pi_id by exact Hx. rewrite Ha0. apply bool_neq_negb. exact (pend_sep L u ep x Hu Hx Hp Hxu). }
        destruct Hrest as (r & Hr).
        destruct (bool_dec (t u) r) as [Eur|Nur].
        * (* u goes with the rest: the new tip is alone *)
          exists (ptip L, b). split; [right; left; reflexivity|].
          assert (HtL : t L = negb r) by (apply bool_neq_negb; congruence).
          destruct r; [right|left]; intros k Hk; cbn [sg fst]; unfold ptip;
            (destruct (Nat.eqb_spec k L) as [->|HkL];
             [rewrite HtL; reflexivity
             |destruct (Nat.eq_dec k u) as [->|Hku]; [rewrite Eur; reflexivity|rewrite (Hr k ltac:(lia) Hku); reflexivity]]).
        * (* u is alone *)
          exists (ptip u, a). split; [left; reflexivity|].
          assert (Htu : t u = negb r) by (apply bool_neq_negb; exact Nur).
          assert (HtL : t L = r) by (destruct (t u), (t L), r; try reflexivity; congruence).
          destruct r; [right|left]; intros k Hk; cbn [sg fst]; unfold ptip;
            (destruct (Nat.eqb_spec k u) as [->|Hku];
             [rewrite Htu; reflexivity
             |destruct (Nat.eq_dec k L) as [->|HkL]; [rewrite HtL; reflexivity|rewrite (Hr k ltac:(lia) Hku); reflexivity]]).
  Qed.
End Expand.


Theorem star3_is_binary_tree_metric a b c : 0 < a -> 0 < b -> 0 < c -> binary_tree_metric 3 (star3_d a b c).
Proof.
  intros Pa Pb Pc. exists (star3 a b c). split; [apply star3_sys; assumption|].
  intros x y _ _. unfold star3_d, star3, wsum. cbn [map]. rewrite !qsum_cons. cbn [wt sg fst snd qsum fold_right]. ring.
Qed.

Theorem grow_binary_tree_metric L u a b d : (2 <= L)%nat -> (u < L)%nat -> 0 < a -> 0 < b ->
  binary_tree_metric L d -> binary_tree_metric (S L) (expand_d L u a b d).
Proof.
  intros HL Hu Pa Pb (E & Hss & Hrep). exists (expandE L u a b E). split.
  - apply expand_sys; assumption.
  - apply expand_rep; assumption.
Qed.

(** ------------------------------------------------------------------ relabelling the tips *)

Lemma cnt_inj : forall L M (q p : nat -> bool) (f : nat -> nat),
  (forall k, (k < L)%nat -> q k = true -> (f k < M)%nat /\ p (f k) = true) ->
  (forall k k', (k < L)%nat -> (k' < L)%nat -> q k = true -> q k' = true -> f k = f k' -> k = k') ->
  (cnt L q <= cnt M p)%nat.
Proof.
  induction L as [|L IH]; intros M q p f Hf Hinj; [cbn; lia|]. rewrite cnt_S.
  destruct (q L) eqn:QL.
  - destruct (Hf L ltac:(lia) QL) as [HfL HpL]. rewrite (cnt_remove M p (f L) HfL HpL).
    assert (cnt L q <= cnt M (fun x => p x && negb (Nat.eqb x (f L))))%nat; [|lia].
    apply (IH M q _ f).
    + intros k Hk Qk. destruct (Hf k ltac:(lia) Qk) as [H1 H2]. split; [exact H1|]. rewrite H2.
      destruct (Nat.eqb_spec (f k) (f L)) as [Ee|]; [|reflexivity].
      assert (k = L) by (apply Hinj; try lia; assumption). lia.
    + intros k k' Hk Hk'. apply Hinj; lia.
  - assert (cnt L q <= cnt M p)%nat; [|lia]. apply (IH M q p f).
    + intros k Hk. apply Hf. lia.
    + intros k k' Hk Hk'. apply Hinj; lia.
Qed.

Section Relabel.
  Variables (L : nat) (f g : nat -> nat).
  Hypothesis Hf : forall k, (k < L)%nat -> (f k < L)%nat.
  Hypothesis Hg : forall k, (k < L)%nat -> (g k < L)%nat.
  Hypothesis Hgf : forall k, (k < L)%nat -> g (f k) = k.
  Hypothesis Hfg : forall k, (k < L)%nat -> f (g k) = k.

  Lemma cnt_relabel p : cnt L (fun k => p (f k)) = cnt L p.
  Proof.
    apply Nat.le_antisymm.
    - apply (cnt_inj L L _ p f).
      + intros k Hk Hq. split; [apply Hf; exact Hk|exact Hq].
      + intros k k' Hk Hk' _ _ E. rewrite <- (Hgf k Hk), <- (Hgf k' Hk'), E. reflexivity.
    - apply (cnt_inj L L p _ g).
      + intros k Hk Hq. split; [apply Hg; exact Hk|]. rewrite Hfg by exact Hk. exact Hq.
      + intros k k' Hk Hk' _ _ E. rewrite <- (Hfg k Hk), <- (Hfg k' Hk'), E. reflexivity.
  Qed.

  Definition relab (e : split) : split := (fun k => sg e (f k), wt e).

  Lemma side_relab e x : side L (sg (relab e)) x = side L (sg e) (f x).
  Proof. unfold side. cbn [relab sg fst]. exact (cnt_relabel (fun y => Bool.eqb (sg e y) (sg e (f x)))). Qed.

  Lemma relabel_sys E : split_sys L E -> split_sys L (map relab E).
  Proof.
    intros Hss. constructor.
    - intros e2 H2. apply in_map_iff in H2. destruct H2 as (e & <- & He). cbn. apply (ss_pos L E Hss e He).
    - intros e2 H2. apply in_map_iff in H2. destruct H2 as (e & <- & He).
      destruct (ss_proper L E Hss e He) as (k & k' & Hk & Hk' & Hne).
      exists (g k), (g k'). split; [apply Hg; exact Hk|]. split; [apply Hg; exact Hk'|].
      cbn [relab sg fst]. rewrite !Hfg by assumption. exact Hne.
    - intros e2 f2 H2 H2'. apply in_map_iff in H2. destruct H2 as (e & <- & He). apply in_map_iff in H2'. destruct H2' as (e' & <- & He').
      destruct (ss_compat L E Hss e e' He He') as (a & b & H). exists a, b. intros k Hk. cbn [relab sg fst]. apply H. apply Hf. exact Hk.
    - intros k Hk. destruct (ss_pend L E Hss (f k) (Hf k Hk)) as (e & He & Hside).
      exists (relab e). split; [apply in_map; exact He|]. rewrite side_relab. exact Hside.
    - intros t Hprop Hcomp.
      assert (Hprop' : proper L (fun y => t (g y))).
      { destruct Hprop as (k & k' & Hk & Hk' & Hne). exists (f k), (f k'). split; [apply Hf; exact Hk|]. split; [apply Hf; exact Hk'|].
        rewrite !Hgf by assumption. exact Hne. }
      assert (Hcomp' : forall e, In e E -> compat L (sg e) (fun y => t (g y))).
      { intros e He. destruct (Hcomp (relab e) (in_map relab E e He)) as (a & b & H). exists a, b. intros y Hy [H1 H2].
        apply (H (g y) (Hg y Hy)). cbn [relab sg fst]. rewrite Hfg by exact Hy. auto. }
      destruct (ss_max L E Hss _ Hprop' Hcomp') as (e & He & Hsame).
      exists (relab e). split; [apply in_map; exact He|].
      destruct Hsame as [Hs|Hs]; [left|right]; intros k Hk; cbn [relab sg fst]; rewrite (Hs (f k) (Hf k Hk)), Hgf by exact Hk; reflexivity.
  Qed.

  Theorem relabel_binary_tree_metric d : binary_tree_metric L d -> binary_tree_metric L (fun x y => d (f x) (f y)).
  Proof.
    intros (E & Hss & Hrep). exists (map relab E). split; [apply relabel_sys; exact Hss|].
    intros x y Hx Hy. rewrite (Hrep (f x) (f y) (Hf x Hx) (Hf y Hy)).
    rewrite (wsum_map relab E) by reflexivity. apply wsum_ext. intros e _. reflexivity.
  Qed.
End Relabel.

(** a matrix that agrees (up to ==) with a binary tree metric on the tips is one *)
Lemma binary_tree_metric_ext L d d' : (forall x y, (x < L)%nat -> (y < L)%nat -> d' x y == d x y) ->
  binary_tree_metric L d -> binary_tree_metric L d'.
Proof. intros H (E & Hss & Hrep). exists E. split; [exact Hss|]. intros x y Hx Hy. rewrite (H x y Hx Hy). apply Hrep; assumption. Qed.

(** non-vacuity: the quartet ((0:1,1:2):1,(2:3,3:1)) of NJProofs is the 3-star (1, 2, 1) with tip 2 grown
    into the cherry (2:3, 3:1) *)
Example ex_quartet_binary_tree_metric : binary_tree_metric 4 ex_quartet.
Proof.
  apply (binary_tree_metric_ext 4 (expand_d 3 2 3 1 (star3_d 1 2 1))).
  - intros x y Hx Hy. destruct x as [|[|[|[|x]]]]; try lia; destruct y as [|[|[|[|y]]]]; try lia; vm_compute; reflexivity.
  - apply grow_binary_tree_metric; try lia; try reflexivity. apply star3_is_binary_tree_metric; reflexivity.
Qed.

Example ex_quartet_nj_consistent :
  exists T, nj 4 ex_quartet = Some T /\ pos_tree T /\
    (forall x y q, In (x, y, q) (tip_dists T) -> q == ex_quartet (Z.to_nat x) (Z.to_nat y)).
Proof.
  destruct (nj_consistent 4 ex_quartet ltac:(lia) ex_quartet_binary_tree_metric) as (T & E & Hp & _ & _ & H).
  exists T. auto.
Qed.

(** every generated tree metric is a binary tree metric; hence nj is consistent on all of them *)
Theorem gen_is_binary_tree_metric : forall n d, tree_metric_gen n d -> binary_tree_metric n d.
Proof.
  induction 1.
  - apply star3_is_binary_tree_metric; assumption.
  - apply grow_binary_tree_metric; try assumption. lia.
  - apply (relabel_binary_tree_metric L f g); assumption.
  - apply (binary_tree_metric_ext L d d'); assumption.
Qed.

Lemma gen_size : forall n d, tree_metric_gen n d -> (3 <= n)%nat.
Proof. induction 1; lia. Qed.

Theorem nj_consistent_on_trees : forall n d, tree_metric_gen n d ->
  exists T, nj n d = Some T /\ pos_tree T /\
    Permutation.Permutation (names T) (map Z.of_nat (seq 0 n)) /\
    (forall x y, (x < n)%nat -> (y < n)%nat -> x <> y ->
       exists q, (In (Z.of_nat x, Z.of_nat y, q) (tip_dists T) \/ In (Z.of_nat y, Z.of_nat x, q) (tip_dists T)) /\ q == d x y) /\
    (forall x y q, In (x, y, q) (tip_dists T) -> q == d (Z.to_nat x) (Z.to_nat y)).
Proof.
  intros n d H. apply nj_consistent; [exact (gen_size n d H)|exact (gen_is_binary_tree_metric n d H)].
Qed.
