(** C08 — translator tie: every function of coq/gen/IndelMapGen.v (regenerated
    from the CURRENT text of src/cogent3/core/location.py by
    harness/translators/indelmap.py) equals the hand-written function of
    Model/IndelMap.v / Model/IndelMapFixed.v, for all arguments (on maps whose two
    arrays are equally long, which the constructor enforces, where stated).

    The proofs do not depend on the names or the order of the local variables of
    the source, nor on if/else vs conditional expressions: both sides are
    zeta/beta-normalised, every condition is split, and the leaves are closed by
    [reflexivity] / [lia] / a few list identities. *)
From CG3 Require Import Lib.PyZ Lib.Val Model.IndelMap Model.IndelMapFixed Model.NumpyPrims.
From CG3 Require Import Proofs.IndelMapProofs.
From CG3gen Require Import IndelMapGen.
Import G.

Local Open Scope Z_scope.

(* split on a condition that does not itself contain a conditional (innermost first), so that [lia] can prune *)
Ltac break_if :=
  match goal with
  | |- context [if ?c then _ else _] =>
      lazymatch c with
      | context [if _ then _ else _] => fail
      | _ => destruct c eqn:?
      end
  end.

Ltac norm := cbv beta iota zeta.

Ltac split_ifs := repeat (norm; break_if); norm.

(** the arrays of a constructed map are equally long ([__post_init__] raises otherwise) *)
Definition LenOK (m : imap) : Prop := zlen (gap_pos m) = zlen (cum_gap_lengths m).

(** * the constructor *)

Lemma post_init_cum_eq gp cl plen : g_post_init_cum gp cl plen = post_init gp cl plen.
Proof. reflexivity. Qed.

Lemma post_init_len_eq gp l plen : g_post_init_len gp l plen = post_init_lengths gp l plen.
Proof. reflexivity. Qed.

Lemma post_init_LenOK gp cl plen m : post_init gp cl plen = Ok m -> LenOK m.
Proof.
  unfold post_init, LenOK. destruct (zlen gp =? zlen cl) eqn:E; cbn [negb]; [|discriminate].
  destruct (negb (zlen gp =? 0) && (zlast gp >? plen)); [discriminate|]. intros H. injection H as <-. cbn. lia.
Qed.

(** * [_gap_spans], [__len__], [get_gap_lengths] *)

Lemma add2_trunc gp : forall cl, zlen gp < zlen cl -> add2 gp (zslice cl 0 (zlen cl - 1)) = add2 gp cl.
Proof.
  induction gp as [|q gp IH]; intros cl Hl.
  - reflexivity.
  - destruct cl as [|c cl]; [znil; pose proof (zlen_nonneg (q :: gp)); lia|].
    rewrite !zlen_cons in Hl. rewrite (zlen_cons c cl). pose proof (zlen_nonneg gp) as Hn.
    rewrite zslice_cons_0 by lia. cbn [add2]. f_equal.
    replace (1 + zlen cl - 1 - 1) with (zlen cl - 1) by lia. apply IH. lia.
Qed.

Lemma add2_cons_0 gp cl : zlen gp = zlen cl ->
  add2 gp (0 :: cl) = firstn 1 gp ++ add2 (skipn 1 gp) (zslice cl 0 (zlen cl - 1)).
Proof.
  destruct gp as [|p gp]; intros Hl.
  - reflexivity.
  - cbn [add2 firstn skipn app]. f_equal; [lia|]. symmetry. apply add2_trunc. rewrite zlen_cons in Hl. lia.
Qed.

Lemma gap_spans_eq gp cl : zlen gp = zlen cl -> g_gap_spans gp cl = (add2 gp (0 :: cl), add2 gp cl).
Proof.
  intros Hl. unfold g_gap_spans. split_ifs.
  - assert (gp = []) as -> by (apply zlen_0_nil; lia). reflexivity.
  - f_equal. symmetry. apply add2_cons_0. exact Hl.
Qed.

Lemma gap_starts_eq m : LenOK m -> fst (g_gap_spans (gap_pos m) (cum_gap_lengths m)) = gap_starts m.
Proof. intros H. rewrite gap_spans_eq by exact H. reflexivity. Qed.

Lemma gap_ends_eq m : LenOK m -> snd (g_gap_spans (gap_pos m) (cum_gap_lengths m)) = gap_ends m.
Proof. intros H. rewrite gap_spans_eq by exact H. reflexivity. Qed.

Lemma len_eq m : g_len m = len m.
Proof. unfold g_len, len. split_ifs; try reflexivity; lia. Qed.

Lemma firstn1_np_diff l : firstn 1 l ++ np_diff l = diffs_from 0 l.
Proof. destruct l as [|x t]; [reflexivity|]. cbn. f_equal. lia. Qed.

Lemma get_gap_lengths_eq m : g_get_gap_lengths m = get_gap_lengths m.
Proof. unfold g_get_gap_lengths, get_gap_lengths. norm. apply firstn1_np_diff. Qed.

(** * index conversions *)

Lemma pyget_0 l : pyget l 0 = znth 0 l 0.
Proof. reflexivity. Qed.

(* leaves: identical terms, or terms that differ in integer sub-expressions only ([1 + r] vs [r + 1]) *)
Ltac leaf := try reflexivity; try lia; try (f_equal; lia); try congruence;
             try solve [ change g_post_init_len with post_init_lengths; change g_post_init_cum with post_init;
                         repeat (first [ reflexivity | lia | f_equal ]) ].

Lemma get_seq_index_eq m x : LenOK m -> g_get_seq_index m x = get_seq_index m x.
Proof.
  intros Hl. unfold g_get_seq_index, get_seq_index, seq_index_nn. norm.
  rewrite len_eq, (gap_starts_eq m Hl), (gap_ends_eq m Hl). unfold zlast. rewrite ?pyget_0.
  split_ifs; leaf.
Qed.

Lemma get_align_index_eq m s b : g_get_align_index m s b = get_align_index m s b.
Proof.
  unfold g_get_align_index, get_align_index. norm. unfold zlast. rewrite ?pyget_0.
  split_ifs; leaf.
  all: destruct (where_eq 0 (gap_pos m) _) as [|i0 [|i1 t]] eqn:Ew; norm; leaf.
  all: split_ifs; leaf.
Qed.

(** * [__getitem__] *)
From CG3 Require Import Spec.IndelMapSpec Proofs.IndelMapSlice.

Ltac split_ifs_pruned := repeat (norm; break_if; try lia); norm.

Lemma get_seq_index_nonneg m x : 0 <= x -> get_seq_index m x = seq_index_nn m x.
Proof. intros H. unfold get_seq_index. destruct (x <? 0) eqn:E; [lia|]. rewrite E. reflexivity. Qed.

Lemma np_set_single cl l v : 0 <= l < zlen cl -> np_set (zslice cl l (l + 1)) 0 v = [v].
Proof.
  intros H. assert (E : zlen (zslice cl l (l + 1)) = 1) by (rewrite zlen_zslice; lia).
  destruct (zslice cl l (l + 1)) as [|x [|y t]] eqn:Ez.
  - znil. lia.
  - reflexivity.
  - rewrite !zlen_cons in E. pose proof (zlen_nonneg t). lia.
Qed.

Lemma getitem_slice_empty m a b : 0 <= a -> 0 <= b -> b <= a ->
  getitem_slice m (Some a) (Some b) = Ok (mk_imap [] [] 0).
Proof.
  intros Ha Hb Hba. unfold getitem_slice. destruct (a >=? 0) eqn:E1; [|lia]. destruct (b >=? 0) eqn:E2; [|lia].
  destruct (Z.min a b <? 0) eqn:E3; [lia|]. destruct (a >=? b) eqn:E4; [|lia]. reflexivity.
Qed.

Lemma zlen_gap_ends_raw m : LenOK m -> zlen (gap_ends m) = zlen (gap_pos m).
Proof. unfold LenOK, gap_ends. intros H. rewrite zlen_add2. lia. Qed.

(** the index found for the start lies among the gaps as soon as the start is left of the last gap end *)
Lemma ss_left_ends_lt m a : LenOK m -> 0 < num_gaps m ->
  a < zlast (gap_pos m) + zlast (cum_gap_lengths m) ->
  0 <= ss_left (gap_ends m) a < zlen (cum_gap_lengths m).
Proof.
  intros Hl Hn Ha. unfold LenOK, num_gaps in *.
  pose proof (ss_left_spec (gap_ends m) a) as (S1 & S2 & S3).
  assert (Hz : zlen (gap_ends m) = zlen (gap_pos m)) by (unfold gap_ends; rewrite zlen_add2; lia).
  rewrite Hz in *. split; [lia|].
  destruct (Z.eq_dec (ss_left (gap_ends m) a) (zlen (gap_pos m))) as [E|]; [|lia].
  specialize (S2 (zlen (gap_pos m) - 1) ltac:(lia)).
  unfold gap_ends in S2. rewrite znth_add2 in S2 by lia.
  rewrite !zlast_znth in Ha by lia. rewrite <- Hl in Ha. lia.
Qed.

(* decide, without branching, a condition whose value follows from the hypotheses *)
Ltac simp_if :=
  match goal with
  | |- context [if ?c then _ else _] =>
      lazymatch c with context [if _ then _ else _] => fail | _ => idtac end;
      first [ let H := fresh in assert (H : c = true) by lia; rewrite !H; clear H
            | let H := fresh in assert (H : c = false) by lia; rewrite !H; clear H ]
  end.

Ltac simp_ifs := repeat (norm; simp_if); norm.

Lemma getitem_slice_eq m oa ob : LenOK m -> 0 <= len m ->
  g_getitem_slice m oa ob = getitem_slice_v2 m oa ob.
Proof.
  intros Hl Hlen. unfold g_getitem_slice, getitem_slice_v2. norm.
  rewrite ?len_eq, ?post_init_cum_eq, ?(gap_starts_eq m Hl), ?(gap_ends_eq m Hl), ?get_gap_lengths_eq.
  rewrite ?post_init_nogap. cbn [bind].
  (* the prefix (None / negative bounds) depends on the signs of the raw bounds only *)
  assert (Hcases : forall P : Prop,
            (oa = None -> P) -> (forall v, oa = Some v -> v < 0 -> P) -> (oa = Some 0 -> P) ->
            (forall v, oa = Some v -> 0 < v -> P) -> P).
  { intros P H1 H2 H3 H4. destruct oa as [v|]; [|auto]. destruct (Z_lt_dec v 0); [eauto|].
    destruct (Z.eq_dec v 0) as [->|]; [auto|]. apply (H4 v); auto; lia. }
  assert (Hcases2 : forall P : Prop,
            (ob = None -> P) -> (forall v, ob = Some v -> v < 0 -> P) -> (forall v, ob = Some v -> 0 <= v -> P) -> P).
  { intros P H1 H2 H3. destruct ob as [v|]; [|auto]. destruct (Z_lt_dec v 0); eauto. apply (H3 v); auto; lia. }
  apply Hcases; clear Hcases; [intros ->|intros va -> Hva|intros ->|intros va -> Hva];
    (apply Hcases2; clear Hcases2; [intros ->|intros vb -> Hvb|intros vb -> Hvb]); simp_ifs.
  all: try (match goal with |- _ = (if ?c then _ else _) => destruct c eqn:Emin; simp_ifs; [reflexivity|] end).
  all: match goal with |- _ = getitem_slice ?mm (Some ?A) (Some ?B) =>
         destruct (Z_le_dec B A) as [Hba|Hba];
         [ first [ exfalso; lia | rewrite (getitem_slice_empty mm A B) by lia; simp_ifs; reflexivity ]
         | first [ exfalso; lia | rewrite (getitem_slice_unfold mm A B) by lia ] ] end.
  all: norm; rewrite post_init_nogap.
  all: destruct (num_gaps m =? 0) eqn:En; simp_ifs; [reflexivity|].
  all: rewrite ?pyget_0; fold (zlast (gap_pos m)); fold (zlast (cum_gap_lengths m)).
  all: match goal with |- _ = (if ?c then _ else _) => destruct c eqn:Eout end; simp_ifs; [reflexivity|].
  all: pose proof (zlen_nonneg (gap_pos m)) as Hng; unfold num_gaps in En.
  all: match goal with |- _ = (if ?c then _ else _) => destruct c eqn:Esingle end; simp_ifs;
         [ rewrite np_set_single by (apply (ss_left_ends_lt m _ Hl); unfold num_gaps; lia); reflexivity |].
  all: unfold slice_start, slice_stop; norm; rewrite ?pyget_0; unfold num_gaps; rewrite (zlen_gap_ends_raw m Hl).
  all: repeat (norm; first
    [ break_if; try lia
    | progress (rewrite ?(get_seq_index_eq m _ Hl); rewrite ?get_seq_index_nonneg by lia)
    | match goal with |- context [bind ?x _] => destruct x eqn:?; cbn [bind] end ]).
  all: norm; leaf.
Qed.

Lemma getitem_int_eq m i : LenOK m -> 0 <= len m -> g_getitem_int m i = getitem_int_v2 m i.
Proof. intros Hl Hlen. unfold g_getitem_int, getitem_int_v2. now apply getitem_slice_eq. Qed.

(** * [__add__], [__mul__], [nucleic_reversed] *)

Lemma add_eq m other : g_add m other = add_v2 m other.
Proof.
  unfold g_add, add_v2. norm. unfold zlast.
  split_ifs_pruned; leaf.
Qed.

Lemma mul_eq m s : g_mul m s = mul m s.
Proof. reflexivity. Qed.

Lemma nucleic_reversed_eq m : g_nucleic_reversed m = nucleic_reversed m.
Proof.
  unfold g_nucleic_reversed, nucleic_reversed. norm. rewrite ?get_gap_lengths_eq.
  split_ifs_pruned; leaf.
Qed.

(** * coordinate listings *)

Lemma get_coordinates_eq m : g_get_coordinates m = get_coordinates_v2 m.
Proof.
  unfold g_get_coordinates, get_coordinates_v2. norm. unfold zlast, num_gaps. rewrite ?pyget_0.
  split_ifs_pruned; leaf.
Qed.

Lemma get_gap_coordinates_eq m : g_get_gap_coordinates m = get_gap_coordinates m.
Proof. unfold g_get_gap_coordinates, get_gap_coordinates. norm. now rewrite get_gap_lengths_eq. Qed.

Lemma get_gap_align_coordinates_eq m : LenOK m -> g_get_gap_align_coordinates m = get_gap_align_coordinates m.
Proof.
  intros Hl. unfold g_get_gap_align_coordinates, get_gap_align_coordinates. norm.
  rewrite (gap_starts_eq m Hl), (gap_ends_eq m Hl).
  destruct (combine (gap_starts m) (gap_ends m)) eqn:E; reflexivity.
Qed.

(** well-formed maps are in the domain of the tie *)
Lemma WF_LenOK m : WF m -> LenOK m.
Proof. intros H. apply WF_WFi in H. destruct H as (H & _). exact H. Qed.

Lemma WF_len_nonneg m : WF m -> 0 <= len m.
Proof. intros H. rewrite <- (zlen_abs m H). apply zlen_nonneg. Qed.
