(** C09 — proofs about [Model/TreeMid.v]: doubling, splicing a node into an
    edge, naming the nameless node, [root_at_midpoint] and [bifurcating]
    preserve the tip set and every tip-to-tip path length (midpoint: in
    doubled units); the current [root_at_midpoint] edits its receiver, the
    repaired one does not. *)
From Coq Require Import Permutation.
From CG3 Require Import Lib.PyZ Lib.Val Lib.Rose Model.Tree Model.TreeMid Spec.TreeSpec Proofs.TreeProofs.

(* ------------------------------------------------------------------ generic list facts *)

Lemma tips_of_map_eq (f : tree -> tree) cs :
  Forall (fun c => tips (f c) = tips c) cs -> tips_of (map f cs) = tips_of cs.
Proof.
  induction 1 as [|c cs Hc _ IH]; cbn [map]; [reflexivity|].
  rewrite !tips_of_cons, Hc, IH. reflexivity.
Qed.

Lemma tips_of_single c : tips_of [c] = tips c.
Proof. rewrite tips_of_cons. change (tips_of []) with (@nil name). apply app_nil_r. Qed.

Lemma contribs_single dflt a b c : contribs dflt a b [c] = contrib dflt a b c.
Proof. rewrite contribs_cons. change (contribs dflt a b []) with 0. lia. Qed.

Lemma zsum_map_scale {A} (k : Z) (f g : A -> Z) l :
  Forall (fun x => f x = k * g x) l -> zsum (map f l) = k * zsum (map g l).
Proof. induction 1 as [|x l Hx _ IH]; simpl; [lia|]. rewrite Hx, IH. lia. Qed.

Lemma remove_nth_length {A} (l : list A) i c :
  nth_error l i = Some c -> length (remove_nth i l) = pred (length l).
Proof.
  revert i; induction l as [|x l IH]; intros [|i] H; simpl in *; try discriminate.
  - reflexivity.
  - rewrite (IH _ H). destruct l as [|y l]; [destruct i; discriminate|reflexivity].
Qed.

Lemma nth_error_snoc {A} (l : list A) x : nth_error (l ++ [x]) (length l) = Some x.
Proof. induction l as [|y l IH]; simpl; auto. Qed.

Lemma nth_error_kids_nonempty t i c : nth_error (kids t) i = Some c -> kids t <> [].
Proof. intros H E. rewrite E in H. destruct i; discriminate. Qed.

Lemma subtree_at_app : forall p t u q,
  subtree_at t p = Some u -> subtree_at t (p ++ q) = subtree_at u q.
Proof.
  induction p as [|i p IH]; intros t u q H.
  - cbn [subtree_at] in H. inversion H; subst. reflexivity.
  - cbn [subtree_at app] in H |- *.
    destruct (nth_error (kids t) i) as [c|]; [|discriminate].
    apply IH. exact H.
Qed.

(* ------------------------------------------------------------------ (1) doubling *)

Lemma double_tips t : tips (double t) = tips t.
Proof.
  induction t as [n l cs IH] using tree_ind'. cbn [double].
  destruct cs as [|c0 cs0]; [reflexivity|].
  rewrite (tips_node _ _ (map double (c0 :: cs0))) by (cbn [map]; discriminate).
  rewrite (tips_node n l (c0 :: cs0)) by discriminate.
  apply tips_of_map_eq. exact IH.
Qed.

Lemma double_tlen t :
  tlen (double t) = match tlen t with Some z => Some (2 * z) | None => None end.
Proof. destruct t; reflexivity. Qed.

Lemma double_kids_length t : length (kids (double t)) = length (kids t).
Proof. destruct t as [n l cs]. cbn [double kids]. apply map_length. Qed.

Lemma double_pathlen dflt t a b :
  pathlen (2 * dflt) (double t) a b = 2 * pathlen dflt t a b.
Proof.
  induction t as [n l cs IH] using tree_ind'. cbn [double]. rewrite !pathlen_node.
  unfold contribs. rewrite map_map. apply zsum_map_scale.
  eapply Forall_impl; [|exact IH]. intros c Hc. cbn beta.
  unfold contrib. rewrite Hc. unfold edge_w, sep. rewrite double_tips.
  unfold clen. rewrite double_tlen.
  destruct (xorb (memb a (tips c)) (memb b (tips c))); destruct (tlen c); lia.
Qed.

(* ------------------------------------------------------------------ (2) splicing *)

(** [u] can replace [v] as a child (or as the whole tree) without changing
    the tip set or any path length *)
Definition same_tree (u v : tree) : Prop :=
  tname u = tname v /\ tlen u = tlen v /\ Permutation (tips u) (tips v) /\
  forall dflt a b, pathlen dflt u a b = pathlen dflt v a b.

Lemma splice_child_eq i l x parent c :
  nth_error (kids parent) i = Some c ->
  splice_child i l x parent =
  Node (tname parent) (tlen parent)
       (remove_nth i (kids parent) ++ [Node [] (Some (l - x)) [Node (tname c) (Some x) (kids c)]]).
Proof. intros H. unfold splice_child. rewrite H. reflexivity. Qed.

Lemma splice_child_same i l x parent c :
  nth_error (kids parent) i = Some c -> tlen c = Some l ->
  same_tree (splice_child i l x parent) parent.
Proof.
  intros Hn Hl. rewrite (splice_child_eq i l x parent c Hn).
  pose proof (remove_nth_perm _ _ _ Hn) as HP.
  pose proof (nth_error_kids_nonempty _ _ _ Hn) as Hkp.
  set (rm := remove_nth i (kids parent)) in *.
  set (c' := Node (tname c) (Some x) (kids c)).
  set (nw := Node [] (Some (l - x)) [c']).
  assert (Htc : tips c' = tips c) by apply tips_relen.
  assert (Htn : tips nw = tips c).
  { unfold nw. rewrite tips_node by discriminate. rewrite tips_of_single. exact Htc. }
  assert (Hne : rm ++ [nw] <> []).
  { intros E. apply app_eq_nil in E. destruct E as [_ E]. discriminate. }
  split; [reflexivity|]. split; [reflexivity|]. split.
  - rewrite (tips_node _ _ _ Hne), tips_of_app, tips_of_single, Htn.
    rewrite (tips_kids parent Hkp), (tips_of_perm _ _ HP), tips_of_cons.
    apply Permutation_app_comm.
  - intros dflt a b. rewrite pathlen_node, (pathlen_kids dflt parent).
    rewrite (contribs_perm _ _ _ _ _ HP), contribs_app, contribs_single, contribs_cons.
    assert (HC : contrib dflt a b nw = contrib dflt a b c).
    { unfold contrib at 1. unfold nw at 2. rewrite pathlen_node, contribs_single.
      unfold contrib, edge_w, sep. rewrite Htn, Htc.
      unfold c' at 2. rewrite pathlen_node, <- pathlen_kids.
      unfold clen, nw, c'. cbn [tlen]. rewrite Hl.
      destruct (xorb (memb a (tips c)) (memb b (tips c))); lia. }
    lia.
Qed.

Lemma splice_child_tname i l x parent : tname (splice_child i l x parent) = tname parent.
Proof. unfold splice_child. destruct (nth_error (kids parent) i); reflexivity. Qed.

Lemma splice_child_tlen i l x parent : tlen (splice_child i l x parent) = tlen parent.
Proof. unfold splice_child. destruct (nth_error (kids parent) i); reflexivity. Qed.

Lemma splice_child_tips i l x parent c :
  nth_error (kids parent) i = Some c -> tlen c = Some l ->
  Permutation (tips (splice_child i l x parent)) (tips parent).
Proof. intros Hn Hl. apply (splice_child_same i l x parent c Hn Hl). Qed.

Lemma splice_child_pathlen i l x parent c dflt a b :
  nth_error (kids parent) i = Some c -> tlen c = Some l ->
  pathlen dflt (splice_child i l x parent) a b = pathlen dflt parent a b.
Proof. intros Hn Hl. apply (splice_child_same i l x parent c Hn Hl). Qed.

Lemma splice_child_kids_length i l x parent c :
  nth_error (kids parent) i = Some c ->
  length (kids (splice_child i l x parent)) = length (kids parent).
Proof.
  intros Hn. rewrite (splice_child_eq i l x parent c Hn). cbn [kids].
  rewrite app_length, (remove_nth_length _ _ _ Hn). cbn [length].
  pose proof (nth_error_kids_nonempty _ _ _ Hn) as Hk.
  destruct (kids parent) as [|k ks]; [congruence|]. cbn [length]. lia.
Qed.

Lemma map_nth_length {A} i (f : A -> A) l : length (map_nth i f l) = length l.
Proof. revert i; induction l as [|x l IH]; intros [|i]; simpl; auto. Qed.

Lemma map_nth_nth {A} i (f : A -> A) l c :
  nth_error l i = Some c -> nth_error (map_nth i f l) i = Some (f c).
Proof.
  revert i; induction l as [|x l IH]; intros [|i] H; simpl in *; try discriminate.
  - inversion H; subst. reflexivity.
  - apply IH. exact H.
Qed.

Lemma map_nth_tips i (f : tree -> tree) l c :
  nth_error l i = Some c -> Permutation (tips (f c)) (tips c) ->
  Permutation (tips_of (map_nth i f l)) (tips_of l).
Proof.
  revert i; induction l as [|x l IH]; intros [|i] H HP; simpl in H; try discriminate.
  - inversion H; subst. cbn [map_nth]. rewrite !tips_of_cons.
    apply Permutation_app_tail. exact HP.
  - cbn [map_nth]. rewrite !tips_of_cons. apply Permutation_app_head.
    apply (IH i H HP).
Qed.

Lemma map_nth_contribs dflt a b i (f : tree -> tree) l c :
  nth_error l i = Some c -> contrib dflt a b (f c) = contrib dflt a b c ->
  contribs dflt a b (map_nth i f l) = contribs dflt a b l.
Proof.
  revert i; induction l as [|x l IH]; intros [|i] H HC; simpl in H; try discriminate.
  - inversion H; subst. cbn [map_nth]. rewrite !contribs_cons, HC. reflexivity.
  - cbn [map_nth]. rewrite !contribs_cons, (IH i H HC). reflexivity.
Qed.

Lemma update_at_same f : forall pp t parent,
  subtree_at t pp = Some parent -> same_tree (f parent) parent ->
  same_tree (update_at t pp f) t /\ subtree_at (update_at t pp f) pp = Some (f parent).
Proof.
  induction pp as [|i r IH]; intros t parent Hs Hf.
  - cbn [subtree_at] in Hs. inversion Hs; subst parent.
    cbn [update_at subtree_at]. split; [exact Hf|reflexivity].
  - cbn [subtree_at] in Hs.
    destruct (nth_error (kids t) i) as [c|] eqn:Hn; [|discriminate].
    destruct (IH c parent Hs Hf) as [(Hnm & Hl & Ht & Hp) Hsub].
    cbn [update_at]. set (g := fun c0 => update_at c0 r f).
    pose proof (nth_error_kids_nonempty _ _ _ Hn) as Hkt.
    assert (Hne : map_nth i g (kids t) <> []).
    { intros E. apply (f_equal (@length tree)) in E. rewrite map_nth_length in E.
      destruct (kids t); [congruence|discriminate]. }
    split; [split; [reflexivity|split; [reflexivity|split]]|].
    + rewrite (tips_node _ _ _ Hne), (tips_kids t Hkt).
      apply (map_nth_tips i g _ c Hn). exact Ht.
    + intros dflt a b. rewrite pathlen_node, (pathlen_kids dflt t).
      apply (map_nth_contribs dflt a b i g _ c Hn).
      apply contrib_same; [exact Hl|exact Ht|apply Hp].
    + cbn [subtree_at kids]. rewrite (map_nth_nth i g _ c Hn). exact Hsub.
Qed.

Lemma update_at_kids_length t pp f :
  pp <> [] -> length (kids (update_at t pp f)) = length (kids t).
Proof.
  destruct pp as [|i r]; [congruence|]. intros _. cbn [update_at kids].
  apply map_nth_length.
Qed.

Theorem update_at_preserves : forall f pp t parent,
  subtree_at t pp = Some parent ->
  tname (f parent) = tname parent -> tlen (f parent) = tlen parent ->
  Permutation (tips (f parent)) (tips parent) ->
  (forall dflt a b, pathlen dflt (f parent) a b = pathlen dflt parent a b) ->
  Permutation (tips (update_at t pp f)) (tips t) /\
  (forall dflt a b, pathlen dflt (update_at t pp f) a b = pathlen dflt t a b) /\
  subtree_at (update_at t pp f) pp = Some (f parent) /\
  (pp <> [] -> length (kids (update_at t pp f)) = length (kids t)).
Proof.
  intros f pp t parent Hs H1 H2 H3 H4.
  destruct (update_at_same f pp t parent Hs) as [(_ & _ & Ht & Hp) Hsub].
  { repeat split; assumption. }
  split; [exact Ht|]. split; [exact Hp|]. split; [exact Hsub|].
  apply update_at_kids_length.
Qed.

(* ------------------------------------------------------------------ (3) naming the nameless node *)

Lemma name_unnamed_tlen t : tlen (name_unnamed t) = tlen t.
Proof. destruct t; reflexivity. Qed.

Lemma name_unnamed_same t : ~ In [] (tips t) ->
  tips (name_unnamed t) = tips t /\
  forall dflt a b, pathlen dflt (name_unnamed t) a b = pathlen dflt t a b.
Proof.
  induction t as [n l cs IH] using tree_ind'. intros HN. cbn [name_unnamed].
  destruct cs as [|c0 cs0].
  - cbn [map]. split; [|intros; reflexivity]. cbn [tips] in HN |- *.
    destruct n as [|z n]; [exfalso; apply HN; left; reflexivity|reflexivity].
  - rewrite (tips_node n l (c0 :: cs0)) in HN by discriminate.
    assert (IH' : Forall (fun c => tips (name_unnamed c) = tips c /\
                    forall dflt a b, pathlen dflt (name_unnamed c) a b = pathlen dflt c a b)
                  (c0 :: cs0)).
    { rewrite Forall_forall in IH |- *. intros c Hc. apply IH; [exact Hc|].
      intros Hi. apply HN. unfold tips_of. apply in_flat_map. exists c. split; assumption. }
    split.
    + rewrite (tips_node _ _ (map name_unnamed (c0 :: cs0))) by (cbn [map]; discriminate).
      rewrite (tips_node n l (c0 :: cs0)) by discriminate.
      apply tips_of_map_eq. eapply Forall_impl; [|exact IH']. intros c [H _]. exact H.
    + intros dflt a b. rewrite !pathlen_node. unfold contribs. rewrite map_map.
      apply zsum_map_ext. eapply Forall_impl; [|exact IH']. intros c [H1 H2]. cbn beta.
      apply contrib_same; [apply name_unnamed_tlen|rewrite H1; reflexivity|apply H2].
Qed.

Lemma name_unnamed_tips t : ~ In [] (tips t) -> tips (name_unnamed t) = tips t.
Proof. intros H. apply (name_unnamed_same t H). Qed.

Lemma name_unnamed_pathlen dflt t a b : ~ In [] (tips t) ->
  pathlen dflt (name_unnamed t) a b = pathlen dflt t a b.
Proof. intros H. apply (name_unnamed_same t H). Qed.

(* ------------------------------------------------------------------ (4) root_at_midpoint *)

(** the successful outcomes of [root_at_midpoint], whatever the maximum
    distance and the climbing loop computed *)
Lemma midpoint_cases fx t r o :
  root_at_midpoint fx t = Ok (r, o) ->
  (reroot_go (double t) [] None = Some r /\ o = double t) \/
  (exists pp parent,
     subtree_at (double t) pp = Some parent /\ is_tip parent = false /\
     reroot_go (double t) pp None = Some r /\ o = double t) \/
  (exists pp parent i c l x r',
     subtree_at (double t) pp = Some parent /\ nth_error (kids parent) i = Some c /\
     tlen c = Some l /\
     reroot_go (update_at (double t) pp (splice_child i l x))
               (pp ++ [pred (length (kids parent))]) None = Some r' /\
     r = name_unnamed r' /\
     o = if fx then double t else update_at (double t) pp (splice_child i l x)).
Proof.
  unfold root_at_midpoint. cbv zeta. set (td := double t).
  destruct (first_max (pair_dists 2 td) _) as [[n1 n2] mx].
  destruct (mx =? 0) eqn:Emx.
  - destruct (reroot_go td [] None) as [r0|] eqn:Eg; [|discriminate].
    intros H. inversion H; subst. left. split; reflexivity.
  - destruct (find_path n1 td) as [p1|] eqn:Ep1; [|discriminate].
    destruct (find_path n2 td) as [p2|] eqn:Ep2; [|discriminate].
    set (p := if _ <? _ then p1 else p2).
    destruct (climb (mx / 2) (rev (nodes_on td p)) (length p) 0) as [[[d dc] n]|e] eqn:Ec;
      [|discriminate].
    set (pp := firstn (pred d) p). set (i := nth (pred d) p O).
    destruct (subtree_at td pp) as [parent|] eqn:Es; [|discriminate].
    destruct (nth_error (kids parent) i) as [c|] eqn:En; [|discriminate].
    destruct (tlen c) as [l|] eqn:El; [|discriminate].
    destruct (dc + l =? mx / 2) eqn:Eh.
    + destruct (is_tip parent) eqn:Et; [discriminate|].
      destruct (reroot_go td pp None) as [r0|] eqn:Eg; [|discriminate].
      intros H. inversion H; subst. right. left. exists pp, parent.
      repeat split; assumption.
    + destruct (reroot_go (update_at td pp (splice_child i l (mx / 2 - dc)))
                          (pp ++ [pred (length (kids parent))]) None) as [r0|] eqn:Eg;
        [|discriminate].
      intros H. inversion H; subst. right. right.
      exists pp, parent, i, c, l, (mx / 2 - dc), r0.
      repeat split; assumption.
Qed.

Lemma reroot_scaled dflt t td path x r a b :
  Permutation (tips td) (tips t) ->
  (forall a b, pathlen (2 * dflt) td a b = 2 * pathlen dflt t a b) ->
  (2 <= length (kids td))%nat ->
  subtree_at td path = Some x -> kids x <> [] ->
  NoDup (tips t) -> In a (tips t) -> In b (tips t) ->
  reroot_go td path None = Some r ->
  Permutation (tips r) (tips t) /\ pathlen (2 * dflt) r a b = 2 * pathlen dflt t a b.
Proof.
  intros HP HL H2 Hs Hx HN Ha Hb Hgo.
  destruct (reroot_preserves (2 * dflt) td path x r a b Hs Hx (or_introl H2)) as [HPr HLr].
  - eapply Permutation_NoDup; [symmetry; exact HP|exact HN].
  - eapply Permutation_in; [symmetry; exact HP|exact Ha].
  - eapply Permutation_in; [symmetry; exact HP|exact Hb].
  - exact Hgo.
  - split; [etransitivity; [exact HPr|exact HP]|]. rewrite HLr. apply HL.
Qed.

Theorem midpoint_preserves : forall fx dflt t r o a b,
  (2 <= length (kids t))%nat -> NoDup (tips t) -> ~ In [] (tips t) ->
  In a (tips t) -> In b (tips t) ->
  root_at_midpoint fx t = Ok (r, o) ->
  Permutation (tips r) (tips t) /\ pathlen (2 * dflt) r a b = 2 * pathlen dflt t a b.
Proof.
  intros fx dflt t r o a b H2 HN HE Ha Hb Hm.
  assert (Hk2 : (2 <= length (kids (double t)))%nat) by (rewrite double_kids_length; exact H2).
  assert (HPd : Permutation (tips (double t)) (tips t)) by (rewrite double_tips; reflexivity).
  assert (HLd : forall a b, pathlen (2 * dflt) (double t) a b = 2 * pathlen dflt t a b).
  { intros a0 b0. apply double_pathlen. }
  destruct (midpoint_cases fx t r o Hm) as
    [[Hgo _]|[(pp & parent & Hs & Ht & Hgo & _)|(pp & parent & i & c & l & x & r' & Hs & Hn & Hl & Hgo & Hr & _)]].
  - apply (reroot_scaled dflt t (double t) [] (double t) r a b); try assumption.
    + reflexivity.
    + intros E. rewrite E in Hk2. cbn [length] in Hk2. lia.
  - apply (reroot_scaled dflt t (double t) pp parent r a b); try assumption.
    unfold is_tip in Ht. intros E. rewrite E in Ht. discriminate.
  - set (f := splice_child i l x) in *.
    pose proof (splice_child_same i l x parent c Hn Hl) as Hf. fold f in Hf.
    destruct (update_at_same f pp (double t) parent Hs Hf) as [(_ & _ & HPs & HLs) Hsub].
    set (sp := update_at (double t) pp f) in *.
    set (nw := Node [] (Some (l - x)) [Node (tname c) (Some x) (kids c)]).
    assert (Hnw : subtree_at sp (pp ++ [pred (length (kids parent))]) = Some nw).
    { rewrite (subtree_at_app pp sp (f parent) _ Hsub). unfold f.
      rewrite (splice_child_eq i l x parent c Hn). cbn [subtree_at kids].
      rewrite <- (remove_nth_length _ _ _ Hn), nth_error_snoc. reflexivity. }
    assert (Hk2' : (2 <= length (kids sp))%nat).
    { destruct pp as [|j pp'].
      - cbn [subtree_at] in Hs. inversion Hs; subst parent.
        unfold sp. cbn [update_at]. unfold f.
        rewrite (splice_child_kids_length i l x (double t) c Hn). exact Hk2.
      - unfold sp. rewrite update_at_kids_length by discriminate. exact Hk2. }
    destruct (reroot_scaled dflt t sp (pp ++ [pred (length (kids parent))]) nw r' a b)
      as [HPr HLr]; try assumption.
    + etransitivity; [exact HPs|exact HPd].
    + intros a0 b0. rewrite HLs. apply HLd.
    + unfold nw. cbn [kids]. discriminate.
    + assert (HE' : ~ In [] (tips r')).
      { intros Hi. apply HE. eapply Permutation_in; [exact HPr|exact Hi]. }
      destruct (name_unnamed_same r' HE') as [Ht' Hp']. subst r.
      rewrite Ht', Hp'. split; assumption.
Qed.

Theorem midpoint_fixed_pure : forall t r o, root_at_midpoint true t = Ok (r, o) -> o = double t.
Proof.
  intros t r o Hm.
  destruct (midpoint_cases true t r o Hm) as
    [[_ Ho]|[(pp & parent & _ & _ & _ & Ho)|(pp & parent & i & c & l & x & r' & _ & _ & _ & _ & _ & Ho)]];
    exact Ho.
Qed.

Theorem midpoint_receiver_dists : forall fx dflt t r o a b,
  root_at_midpoint fx t = Ok (r, o) ->
  pathlen (2 * dflt) o a b = 2 * pathlen dflt t a b.
Proof.
  intros fx dflt t r o a b Hm.
  destruct (midpoint_cases fx t r o Hm) as
    [[_ Ho]|[(pp & parent & _ & _ & _ & Ho)|(pp & parent & i & c & l & x & r' & Hs & Hn & Hl & _ & _ & Ho)]].
  - subst o. apply double_pathlen.
  - subst o. apply double_pathlen.
  - destruct fx; subst o; [apply double_pathlen|].
    pose proof (splice_child_same i l x parent c Hn Hl) as Hf.
    destruct (update_at_same (splice_child i l x) pp (double t) parent Hs Hf)
      as [(_ & _ & _ & HLs) _].
    rewrite HLs. apply double_pathlen.
Qed.

(** the receiver's tip set is kept as well *)
Theorem midpoint_receiver_tips : forall fx t r o,
  root_at_midpoint fx t = Ok (r, o) -> Permutation (tips o) (tips t).
Proof.
  intros fx t r o Hm.
  destruct (midpoint_cases fx t r o Hm) as
    [[_ Ho]|[(pp & parent & _ & _ & _ & Ho)|(pp & parent & i & c & l & x & r' & Hs & Hn & Hl & _ & _ & Ho)]].
  - subst o. rewrite double_tips. reflexivity.
  - subst o. rewrite double_tips. reflexivity.
  - destruct fx; subst o; [rewrite double_tips; reflexivity|].
    pose proof (splice_child_same i l x parent c Hn Hl) as Hf.
    destruct (update_at_same (splice_child i l x) pp (double t) parent Hs Hf)
      as [(_ & _ & HPs & _) _].
    rewrite HPs, double_tips. reflexivity.
Qed.

Theorem midpoint_current_not_pure : exists t r o,
  root_at_midpoint false t = Ok (r, o) /\ o <> double t /\
  (2 <= length (kids t))%nat /\ NoDup (tips t).
Proof.
  exists (Node [114; 111; 111; 116] None
            [Node [120] (Some 3) [Node [97] (Some 1) []; Node [98] (Some 2) []];
             Node [121] (Some 6) [Node [99] (Some 4) []; Node [100] (Some 5) []]]).
  eexists. eexists. split; [vm_compute; reflexivity|].
  split; [vm_compute; discriminate|]. split; [cbn; lia|].
  cbn. repeat constructor; cbn; intuition discriminate.
Qed.

(* ------------------------------------------------------------------ (5) bifurcating *)

Lemma bif_kids_same dflt a b : forall fuel cs,
  tips_of (bif_kids fuel cs) = tips_of cs /\
  contribs dflt a b (bif_kids fuel cs) = contribs dflt a b cs.
Proof.
  induction fuel as [|f IH]; intros cs; cbn [bif_kids]; [split; reflexivity|].
  destruct (Nat.ltb 2 (length cs)) eqn:E2; [|split; reflexivity].
  apply Nat.ltb_lt in E2.
  set (k := (length cs - 2)%nat).
  set (nw := Node [] (Some 0) (skipn k cs)).
  destruct (IH (firstn k cs ++ [nw])) as [IHt IHc].
  assert (Hsk : skipn k cs <> []).
  { intros E. apply (f_equal (@length tree)) in E. rewrite skipn_length in E.
    cbn [length] in E. unfold k in E. lia. }
  split.
  - rewrite IHt, tips_of_app, tips_of_single. unfold nw.
    rewrite (tips_node _ _ _ Hsk), <- tips_of_app, firstn_skipn. reflexivity.
  - rewrite IHc, contribs_app, contribs_single.
    assert (HC : contrib dflt a b nw = contribs dflt a b (skipn k cs)).
    { unfold contrib, nw. rewrite pathlen_node. unfold edge_w, clen. cbn [tlen].
      destruct (sep _ a b); lia. }
    rewrite HC, <- contribs_app, firstn_skipn. reflexivity.
Qed.

Lemma bifurcating_tlen t : tlen (bifurcating t) = tlen t.
Proof. destruct t; reflexivity. Qed.

Lemma bifurcating_same t :
  tips (bifurcating t) = tips t /\
  forall dflt a b, pathlen dflt (bifurcating t) a b = pathlen dflt t a b.
Proof.
  induction t as [n l cs IH] using tree_ind'. cbn [bifurcating].
  split.
  - destruct cs as [|c0 cs0]; [reflexivity|].
    destruct (bif_kids_same 0 [] [] (length (c0 :: cs0)) (map bifurcating (c0 :: cs0))) as [Ht _].
    assert (Hm : tips_of (map bifurcating (c0 :: cs0)) = tips_of (c0 :: cs0)).
    { apply tips_of_map_eq. eapply Forall_impl; [|exact IH]. intros c [H _]. exact H. }
    assert (Hne : bif_kids (length (c0 :: cs0)) (map bifurcating (c0 :: cs0)) <> []).
    { intros E. rewrite E, Hm in Ht. symmetry in Ht. revert Ht.
      apply tips_of_nonempty. discriminate. }
    rewrite (tips_node _ _ _ Hne), Ht, Hm.
    rewrite (tips_node n l (c0 :: cs0)) by discriminate. reflexivity.
  - intros dflt a b. rewrite !pathlen_node.
    destruct (bif_kids_same dflt a b (length cs) (map bifurcating cs)) as [_ Hc].
    rewrite Hc. unfold contribs. rewrite map_map. apply zsum_map_ext.
    eapply Forall_impl; [|exact IH]. intros c [H1 H2]. cbn beta.
    apply contrib_same; [apply bifurcating_tlen|rewrite H1; reflexivity|apply H2].
Qed.

Lemma bifurcating_tips t : tips (bifurcating t) = tips t.
Proof. apply bifurcating_same. Qed.

Lemma bifurcating_pathlen dflt t a b :
  pathlen dflt (bifurcating t) a b = pathlen dflt t a b.
Proof. apply bifurcating_same. Qed.
