(** C16 — update_from_calculator snaps to the bound the value overshot, and only within tolerance *)
From CG3 Require Import Lib.PyZ Model.UpdateFromCalc.

Lemma update_snaps_lemma close lo hi out v :
  update_one close false lo hi out = UOk v ->
  v = out \/
  (exists l, truthy lo = Some l /\ v = l /\ out < l /\ close out l = true) \/
  (exists u, truthy hi = Some u /\ v = u /\ u < out /\ close out u = true).
Proof.
  unfold update_one, upper_branch.
  destruct (truthy lo) as [l|] eqn:L.
  - destruct (out <? l) eqn:C1.
    + destruct (close out l) eqn:K; intros E; inversion E; subst.
      right; left. exists v. repeat split; auto. lia.
    + destruct (truthy hi) as [u|] eqn:U.
      * destruct (u <? out) eqn:C2.
        -- destruct (close out u) eqn:K; intros E; inversion E; subst.
           right; right. exists v. repeat split; auto. lia.
        -- intros E; inversion E; auto.
      * intros E; inversion E; auto.
  - destruct (truthy hi) as [u|] eqn:U.
    + destruct (u <? out) eqn:C2.
      * destruct (close out u) eqn:K; intros E; inversion E; subst.
        right; right. exists v. repeat split; auto. lia.
      * intros E; inversion E; auto.
    + intros E; inversion E; auto.
Qed.

(** the value stored is within the (truthy) bounds *)
Lemma update_within_bounds_lemma close lo hi out v :
  update_one close false lo hi out = UOk v ->
  (forall l u, truthy lo = Some l -> truthy hi = Some u -> l <= u) ->
  (forall l, truthy lo = Some l -> l <= v) /\ (forall u, truthy hi = Some u -> v <= u).
Proof.
  intros H Hlu. unfold update_one, upper_branch in H.
  destruct (truthy lo) as [l|] eqn:L; destruct (truthy hi) as [u|] eqn:U;
    repeat match type of H with
           | context [if ?c then _ else _] => let E := fresh "E" in destruct c eqn:E
           end; inversion H; subst; split; intros x Hx; inversion Hx; subst;
    try lia; try (specialize (Hlu _ _ eq_refl eq_refl); lia).
Qed.

(** and moved by at most the tolerance of [close] *)
Lemma update_moves_within_tolerance_lemma close tol lo hi out v :
  (forall a b, close a b = true -> Z.abs (a - b) <= tol) -> 0 <= tol ->
  update_one close false lo hi out = UOk v -> Z.abs (v - out) <= tol.
Proof.
  intros Hc Ht H. destruct (update_snaps_lemma _ _ _ _ _ H) as [-> | [[l [_ [-> [_ K]]]] | [u [_ [-> [_ K]]]]]].
  - rewrite Z.sub_diag. simpl. lia.
  - specialize (Hc _ _ K). lia.
  - specialize (Hc _ _ K). lia.
Qed.

(** kappa in [0.5, 3] (unit 1e-12), best point on the upper bound, exp(log 3) one ulp above 3:
    the code stores 3; the swapped branch stores 0.5 *)
Lemma swapped_branch_witness :
  update_one allclose false (Some 500000000000) (Some 3000000000000) 3000000000001 = UOk 3000000000000 /\
  update_one_swapped allclose false (Some 500000000000) (Some 3000000000000) 3000000000001 = UOk 500000000000.
Proof. split; vm_compute; reflexivity. Qed.
