(** Proofs about the delimited-text codec model (property C20):
    the csv reader model inverts the csv writer model on every table whose
    fields are free of carriage returns; the guard on '\r' is necessary. *)
From CG3 Require Import Lib.PyZ Lib.Chars Model.Csv. Import ListNotations.

(* ------------------------------------------------------------------ no '\r' in the output *)

Definition nocr (s : str) : Prop := Forall (fun c => c <> ch_cr) s.

Lemma universal_nl_id : forall s, nocr s -> universal_nl s = s.
Proof.
  induction s as [|c t IH]; intros H; [reflexivity|].
  inversion H as [|c' t' Hc Ht]; subst.
  cbn [universal_nl].
  destruct (c =? ch_cr) eqn:E; [lia|].
  rewrite IH by assumption. reflexivity.
Qed.

Lemma field_okb_nocr : forall f, field_okb f = true -> nocr f.
Proof.
  unfold field_okb, nocr. induction f as [|c t IH]; intros H; [constructor|].
  cbn [existsb] in H.
  destruct (c =? ch_cr) eqn:E; [discriminate H|].
  constructor; [lia|]. apply IH. exact H.
Qed.

Lemma field_okb_cons : forall c f, field_okb (c :: f) = true ->
  (c =? ch_cr) = false /\ field_okb f = true.
Proof.
  unfold field_okb. intros c f H. cbn [existsb] in H.
  destruct (c =? ch_cr) eqn:E; [discriminate H|]. split; [reflexivity|exact H].
Qed.

Lemma nocr_quote_body : forall f, nocr f -> nocr (quote_body f).
Proof.
  unfold nocr, quote_body. induction f as [|c t IH]; intros H; [constructor|].
  inversion H as [|c' t' Hc Ht]; subst.
  cbn [flat_map]. apply Forall_app. split; [|apply IH; assumption].
  destruct (c =? ch_quote) eqn:E.
  - repeat constructor; unfold ch_quote, ch_cr; lia.
  - repeat constructor; assumption.
Qed.

Lemma nocr_fmt_field : forall d f, nocr f -> nocr (fmt_field d f).
Proof.
  intros d f H. unfold fmt_field. destruct (needs_quote d f); [|exact H].
  constructor; [unfold ch_quote, ch_cr; lia|].
  apply Forall_app. split; [apply nocr_quote_body; exact H|].
  repeat constructor; unfold ch_quote, ch_cr; lia.
Qed.

Lemma join_fields_cons2 : forall d a b l,
  join_fields d (a :: b :: l) = a ++ d :: join_fields d (b :: l).
Proof. reflexivity. Qed.

Lemma nocr_join_fields : forall d fs, d <> ch_cr -> Forall nocr fs -> nocr (join_fields d fs).
Proof.
  intros d fs Hd. induction fs as [|a l IH]; intros H; [constructor|].
  inversion H as [|a' l' Ha Hl]; subst.
  destruct l as [|b l]; [exact Ha|].
  rewrite join_fields_cons2. apply Forall_app. split; [exact Ha|].
  constructor; [exact Hd|]. apply IH. exact Hl.
Qed.

Lemma fmt_row_general : forall d row, row <> [[]] ->
  fmt_row d row = join_fields d (map (fmt_field d) row) ++ [ch_nl].
Proof.
  intros d row H. destruct row as [|[|c f] [|g rest]]; try reflexivity. congruence.
Qed.

Lemma delim_ok_facts : forall d, delim_okb d = true ->
  (d =? ch_quote) = false /\ (d =? ch_nl) = false /\ (d =? ch_cr) = false.
Proof. unfold delim_okb. intros d H. lia. Qed.

Lemma nocr_fmt_row : forall d row, delim_okb d = true -> forallb field_okb row = true ->
  nocr (fmt_row d row).
Proof.
  intros d row Hd Hrow.
  assert (Hg : nocr (join_fields d (map (fmt_field d) row) ++ [ch_nl])).
  { apply Forall_app. split.
    - apply nocr_join_fields.
      + apply delim_ok_facts in Hd. lia.
      + apply Forall_forall. intros x Hx. apply in_map_iff in Hx.
        destruct Hx as [f [Hf Hin]]. subst x. apply nocr_fmt_field.
        apply field_okb_nocr. rewrite forallb_forall in Hrow. apply Hrow. exact Hin.
    - repeat constructor. unfold ch_nl, ch_cr. lia. }
  destruct row as [|[|c f] [|g rest]]; try exact Hg.
  cbn [fmt_row]. repeat constructor; unfold ch_nl, ch_quote, ch_cr; lia.
Qed.

Lemma nocr_fmt_rows : forall d rows, delim_okb d = true -> rows_okb rows = true ->
  nocr (fmt_rows d rows).
Proof.
  intros d rows Hd. unfold fmt_rows, rows_okb.
  induction rows as [|row rows IH]; intros H; [constructor|].
  cbn [forallb] in H. apply andb_prop in H. destruct H as [Hrow Hrows].
  cbn [flat_map]. apply Forall_app. split; [|apply IH; exact Hrows].
  unfold row_okb in Hrow. apply andb_prop in Hrow. destruct Hrow as [_ Hrow].
  apply nocr_fmt_row; assumption.
Qed.

(* no carriage return in the output, so universal newline translation is the
   identity on it *)
Lemma fmt_rows_no_cr : forall d rows, delim_okb d = true -> rows_okb rows = true ->
  universal_nl (fmt_rows d rows) = fmt_rows d rows.
Proof. intros d rows Hd H. apply universal_nl_id. apply nocr_fmt_rows; assumption. Qed.

(* ------------------------------------------------------------------ the guard on '\r' is necessary *)

(* the guard on '\r' is necessary: the faithful model loses data *)
Theorem csv_roundtrip_cr_refuted : exists d rows,
  delim_okb d = true /\ rows_okb rows = false /\ Forall (fun r => r <> []) rows /\
  csv_read d (fmt_rows d rows) <> Some rows.
Proof.
  exists 44, [[[97;13;98];[99]]].
  split; [reflexivity|]. split; [reflexivity|]. split.
  - constructor; [discriminate|constructor].
  - vm_compute. discriminate.
Qed.

(* ------------------------------------------------------------------ char-stream presentation of the reader *)

(* one character of the file; a '\n' ends the line, so it is followed by EOL *)
Definition step (d : Z) (r : reader) (c : Z) : option reader :=
  match process_char d r (Ch c) with
  | Some r' => if c =? ch_nl then process_char d r' EOL else Some r'
  | None => None
  end.

(* what [read_all] answers once the lines are exhausted *)
Definition finish (r : reader) (acc : list (list str)) : option (list (list str)) :=
  if negb (is_nil (fld r)) || is_in_quoted (st r)
  then Some (acc ++ [flds (save_field r)])
  else Some acc.

Fixpoint run (d : Z) (text : str) (r : reader) (acc : list (list str))
  : option (list (list str)) :=
  match text with
  | [] => finish r acc
  | c :: t =>
      match step d r c with
      | None => None
      | Some r' =>
          if (c =? ch_nl) && is_start_record (st r')
          then run d t reader0 (acc ++ [flds r'])
          else run d t r' acc
      end
  end.

(* [b] = the current line is non-empty; true iff the text ends at a line boundary *)
Fixpoint ends_ok (text : str) (b : bool) : bool :=
  match text with
  | [] => negb b
  | c :: t => ends_ok t (negb (c =? ch_nl))
  end.

Definition feed (d : Z) (o : option reader) (s : str) : option reader :=
  fold_left (fun acc c => match acc with Some r => process_char d r (Ch c) | None => None end)
            s o.

Lemma feed_snoc : forall d o s c,
  feed d o (s ++ [c]) = match feed d o s with Some r => process_char d r (Ch c) | None => None end.
Proof. intros d o s c. unfold feed. rewrite fold_left_app. reflexivity. Qed.

Lemma is_nil_snoc : forall (A : Type) (l : list A) (x : A), is_nil (l ++ [x]) = false.
Proof. intros A l x. destruct l; reflexivity. Qed.

Lemma read_all_stream : forall d text cur r rc acc res,
  feed d (Some r) cur = Some rc ->
  ends_ok text (negb (is_nil cur)) = true ->
  run d text rc acc = Some res ->
  read_all d (split_lines_keep text cur) r acc = Some res.
Proof.
  intros d text. induction text as [|c t IH]; intros cur r rc acc res Hfeed Hends Hrun.
  - cbn [ends_ok] in Hends. destruct cur as [|x cur]; [|discriminate Hends].
    cbn in Hfeed. injection Hfeed as Hfeed. subst rc.
    cbn [split_lines_keep read_all]. exact Hrun.
  - cbn [ends_ok] in Hends. cbn [run] in Hrun. cbn [split_lines_keep].
    unfold step in Hrun.
    destruct (c =? ch_nl) eqn:Ec.
    + cbn [read_all]. unfold feed_line. fold (feed d (Some r) (cur ++ [c])).
      rewrite feed_snoc, Hfeed.
      destruct (process_char d rc (Ch c)) as [r1|]; [|discriminate Hrun].
      destruct (process_char d r1 EOL) as [r2|]; [|discriminate Hrun].
      cbn [andb] in Hrun.
      destruct (is_start_record (st r2)) eqn:Es.
      * apply (IH [] reader0 reader0); [reflexivity|exact Hends|exact Hrun].
      * apply (IH [] r2 r2); [reflexivity|exact Hends|exact Hrun].
    + destruct (process_char d rc (Ch c)) as [r1|] eqn:Ep; [|discriminate Hrun].
      cbn [andb] in Hrun.
      apply (IH (cur ++ [c]) r r1).
      * rewrite feed_snoc, Hfeed. exact Ep.
      * rewrite is_nil_snoc. exact Hends.
      * exact Hrun.
Qed.

Lemma run_cons_some : forall d c t r r' acc,
  step d r c = Some r' -> (c =? ch_nl) && is_start_record (st r') = false ->
  run d (c :: t) r acc = run d t r' acc.
Proof. intros d c t r r' acc Hs Hb. cbn [run]. rewrite Hs, Hb. reflexivity. Qed.

Lemma run_cons_emit : forall d t r r' acc,
  step d r ch_nl = Some r' -> st r' = StartRecord ->
  run d (ch_nl :: t) r acc = run d t reader0 (acc ++ [flds r']).
Proof. intros d t r r' acc Hs Hb. cbn [run]. rewrite Hs, Hb. reflexivity. Qed.

(* ------------------------------------------------------------------ the reader on written fields *)

Ltac step_cases :=
  unfold step, process_char, start_field_step, is_nlcr, is_special, delim_okb,
         set_st, save_field, add_char, ch_quote, ch_nl, ch_cr in *;
  cbn [st fld flds];
  repeat match goal with
         | |- context [if ?b then _ else _] => destruct b eqn:?
         end;
  try lia; try reflexivity.

Section Fields.
  Variable d : Z.
  Hypothesis Hd : delim_okb d = true.

  Lemma step_start_quote : forall fs,
    step d (mkReader StartField [] fs) ch_quote = Some (mkReader InQuoted [] fs).
  Proof. intros fs. step_cases. Qed.

  Lemma step_start_plain : forall c fs, is_special d c = false -> (c =? ch_cr) = false ->
    step d (mkReader StartField [] fs) c = Some (mkReader InField [c] fs).
  Proof. intros c fs Hs Hc. step_cases. Qed.

  Lemma step_infield_plain : forall c p fs, is_special d c = false -> (c =? ch_cr) = false ->
    step d (mkReader InField p fs) c = Some (mkReader InField (p ++ [c]) fs).
  Proof. intros c p fs Hs Hc. step_cases. Qed.

  Lemma step_inq_plain : forall c p fs, (c =? ch_quote) = false ->
    step d (mkReader InQuoted p fs) c = Some (mkReader InQuoted (p ++ [c]) fs).
  Proof. intros c p fs Hc. step_cases. Qed.

  Lemma step_inq_quote : forall p fs,
    step d (mkReader InQuoted p fs) ch_quote = Some (mkReader QuoteInQuoted p fs).
  Proof. intros p fs. step_cases. Qed.

  Lemma step_qiq_quote : forall p fs,
    step d (mkReader QuoteInQuoted p fs) ch_quote = Some (mkReader InQuoted (p ++ [ch_quote]) fs).
  Proof. intros p fs. step_cases. Qed.

  (* the states in which a complete field [f] is pending *)
  Definition fdone (r : reader) (f : str) (fs : list str) : Prop :=
    flds r = fs /\ fld r = f /\
    (st r = InField \/ st r = QuoteInQuoted \/ (st r = StartField /\ f = [])).

  Lemma step_term_d : forall r f fs, fdone r f fs ->
    step d r d = Some (mkReader StartField [] (fs ++ [f])).
  Proof.
    intros [s p l] f fs [H1 [H2 H3]]. cbn [st fld flds] in *. subst l p.
    destruct H3 as [H3|[H3|[H3 H4]]]; subst s; step_cases.
  Qed.

  Lemma step_term_nl : forall r f fs, fdone r f fs ->
    step d r ch_nl = Some (mkReader StartRecord [] (fs ++ [f])).
  Proof.
    intros [s p l] f fs [H1 [H2 H3]]. cbn [st fld flds] in *. subst l p.
    destruct H3 as [H3|[H3|[H3 H4]]]; subst s; step_cases.
  Qed.
End Fields.

Section Rows.
  Variable d : Z.
  Hypothesis Hd : delim_okb d = true.

  Lemma needs_quote_cons : forall c f,
    needs_quote d (c :: f) = is_special d c || needs_quote d f.
  Proof. reflexivity. Qed.

  Lemma andb_nl_false : forall c b, (c =? ch_nl) = false -> (c =? ch_nl) && b = false.
  Proof. intros c b H. rewrite H. reflexivity. Qed.

  (* the tail of an unquoted field *)
  Lemma run_infield : forall f p fs t acc,
    needs_quote d f = false -> field_okb f = true ->
    run d (f ++ t) (mkReader InField p fs) acc = run d t (mkReader InField (p ++ f) fs) acc.
  Proof.
    induction f as [|c f IH]; intros p fs t acc Hq Hok.
    - rewrite app_nil_r. reflexivity.
    - rewrite needs_quote_cons in Hq. apply orb_false_elim in Hq. destruct Hq as [Hc Hq].
      apply field_okb_cons in Hok. destruct Hok as [Hcr Hok].
      cbn [app].
      rewrite (run_cons_some d c (f ++ t) _ _ acc (step_infield_plain d Hd c p fs Hc Hcr)).
      + rewrite IH by assumption. rewrite <- app_assoc. reflexivity.
      + apply andb_nl_false. unfold is_special in Hc. lia.
  Qed.

  (* the body of a quoted field *)
  Lemma run_quote_body : forall f p fs t acc,
    run d (quote_body f ++ t) (mkReader InQuoted p fs) acc
    = run d t (mkReader InQuoted (p ++ f) fs) acc.
  Proof.
    induction f as [|c f IH]; intros p fs t acc.
    - rewrite app_nil_r. reflexivity.
    - unfold quote_body. cbn [flat_map]. fold (quote_body f).
      destruct (c =? ch_quote) eqn:Ec.
      + assert (c = ch_quote) by lia. subst c. cbn [app].
        rewrite (run_cons_some d ch_quote _ _ _ acc (step_inq_quote d p fs)) by reflexivity.
        rewrite (run_cons_some d ch_quote _ _ _ acc (step_qiq_quote d p fs)) by reflexivity.
        rewrite IH. rewrite <- app_assoc. reflexivity.
      + cbn [app].
        rewrite (run_cons_some d c _ _ _ acc (step_inq_plain d c p fs Ec))
          by (cbn [st is_start_record]; apply andb_false_r).
        rewrite IH. rewrite <- app_assoc. reflexivity.
  Qed.

  (* a written field brings the reader into a state where the field is pending *)
  Lemma run_field : forall f fs, field_okb f = true ->
    exists r, fdone r f fs /\
      forall t acc, run d (fmt_field d f ++ t) (mkReader StartField [] fs) acc = run d t r acc.
  Proof.
    intros f fs Hok. unfold fmt_field. destruct (needs_quote d f) eqn:Hq.
    - exists (mkReader QuoteInQuoted f fs). split.
      + unfold fdone. cbn [st fld flds]. split; [reflexivity|split; [reflexivity|right; left; reflexivity]].
      + intros t acc. cbn [app].
        rewrite (run_cons_some d ch_quote _ _ _ acc (step_start_quote d fs)) by reflexivity.
        rewrite <- app_assoc. rewrite run_quote_body. cbn [app].
        rewrite (run_cons_some d ch_quote _ _ _ acc (step_inq_quote d f fs)) by reflexivity.
        reflexivity.
    - destruct f as [|c f].
      + exists (mkReader StartField [] fs). split.
        * unfold fdone. cbn [st fld flds]. split; [reflexivity|split; [reflexivity|right; right; split; reflexivity]].
        * intros t acc. reflexivity.
      + exists (mkReader InField (c :: f) fs). split.
        * unfold fdone. cbn [st fld flds]. split; [reflexivity|split; [reflexivity|left; reflexivity]].
        * intros t acc.
          rewrite needs_quote_cons in Hq. apply orb_false_elim in Hq. destruct Hq as [Hc Hq].
          apply field_okb_cons in Hok. destruct Hok as [Hcr Hok].
          cbn [app].
          rewrite (run_cons_some d c _ _ _ acc (step_start_plain d Hd c fs Hc Hcr)).
          -- rewrite run_infield by assumption. reflexivity.
          -- apply andb_nl_false. unfold is_special in Hc. lia.
  Qed.

  Lemma run_term_d : forall r f fs t acc, fdone r f fs ->
    run d (d :: t) r acc = run d t (mkReader StartField [] (fs ++ [f])) acc.
  Proof.
    intros r f fs t acc H.
    rewrite (run_cons_some d d t r _ acc (step_term_d d Hd r f fs H)); [reflexivity|].
    apply andb_nl_false. apply delim_ok_facts in Hd. lia.
  Qed.

  Lemma run_term_nl : forall r f fs t acc, fdone r f fs ->
    run d (ch_nl :: t) r acc = run d t reader0 (acc ++ [fs ++ [f]]).
  Proof.
    intros r f fs t acc H.
    rewrite (run_cons_emit d t r _ acc (step_term_nl d Hd r f fs H)); reflexivity.
  Qed.

  (* a written record, read from StartField *)
  Lemma run_row : forall rest f fs t acc,
    forallb field_okb (f :: rest) = true ->
    run d (join_fields d (map (fmt_field d) (f :: rest)) ++ ch_nl :: t)
        (mkReader StartField [] fs) acc
    = run d t reader0 (acc ++ [fs ++ f :: rest]).
  Proof.
    induction rest as [|g rest IH]; intros f fs t acc Hok;
      cbn [forallb] in Hok; apply andb_prop in Hok; destruct Hok as [Hf Hrest].
    - cbn [map join_fields].
      destruct (run_field f fs Hf) as [r [Hdone Hrun]].
      rewrite Hrun. apply (run_term_nl r f fs t acc Hdone).
    - cbn [map]. rewrite join_fields_cons2. rewrite <- app_assoc. cbn [app].
      destruct (run_field f fs Hf) as [r [Hdone Hrun]].
      rewrite Hrun. rewrite (run_term_d r f fs _ acc Hdone).
      change (fmt_field d g :: map (fmt_field d) rest) with (map (fmt_field d) (g :: rest)).
      rewrite IH by exact Hrest.
      rewrite <- app_assoc. reflexivity.
  Qed.
End Rows.

(* ------------------------------------------------------------------ records and tables *)

(* at the start of a record the reader behaves as at the start of a field,
   unless the next character is a line end *)
Lemma run_start_record : forall d c t fs acc, is_nlcr c = false ->
  run d (c :: t) (mkReader StartRecord [] fs) acc
  = run d (c :: t) (mkReader StartField [] fs) acc.
Proof.
  intros d c t fs acc H. cbn [run].
  assert (E : step d (mkReader StartRecord [] fs) c = step d (mkReader StartField [] fs) c).
  { unfold step, process_char. cbn [st]. rewrite H. reflexivity. }
  rewrite E. reflexivity.
Qed.

Section Table.
  Variable d : Z.
  Hypothesis Hd : delim_okb d = true.

  (* the text of a record other than [[]] does not start with a line end *)
  Lemma row_head : forall (f : str) (rest : list str) (t : str),
    f :: rest <> [[]] -> field_okb f = true ->
    exists c s, join_fields d (map (fmt_field d) (f :: rest)) ++ ch_nl :: t = c :: s
                /\ is_nlcr c = false.
  Proof.
    intros f rest t Hne Hok.
    assert (Hdn : is_nlcr d = false).
    { apply delim_ok_facts in Hd. unfold is_nlcr. lia. }
    assert (Hf : (exists c s, fmt_field d f = c :: s /\ is_nlcr c = false) \/ f = []).
    { unfold fmt_field. destruct (needs_quote d f) eqn:Hq.
      - left. eexists. eexists. split; [reflexivity|reflexivity].
      - destruct f as [|c f]; [right; reflexivity|left].
        exists c, f. split; [reflexivity|].
        apply field_okb_cons in Hok. destruct Hok as [Hcr _].
        unfold needs_quote in Hq. cbn [existsb] in Hq. apply orb_false_elim in Hq.
        destruct Hq as [Hc _]. unfold is_special in Hc. unfold is_nlcr. lia. }
    destruct Hf as [[c [s [Ef Hc]]]|Ef].
    - destruct rest as [|g rest].
      + cbn [map join_fields]. rewrite Ef. exists c. eexists. split; [reflexivity|exact Hc].
      + cbn [map]. rewrite join_fields_cons2. rewrite Ef.
        exists c. eexists. split; [reflexivity|exact Hc].
    - subst f. destruct rest as [|g rest]; [exfalso; apply Hne; reflexivity|].
      cbn [map]. rewrite join_fields_cons2.
      assert (E : fmt_field d [] = []) by reflexivity. rewrite E.
      exists d. eexists. split; [reflexivity|exact Hdn].
  Qed.

  Lemma run_fmt_row : forall row t acc, row_okb row = true ->
    run d (fmt_row d row ++ t) reader0 acc = run d t reader0 (acc ++ [row]).
  Proof.
    intros row t acc Hok. unfold row_okb in Hok. apply andb_prop in Hok.
    destruct Hok as [Hne Hok].
    destruct row as [|f rest]; [discriminate Hne|]. clear Hne.
    destruct (list_eq_dec str_eq_dec (f :: rest) [[]]) as [E|E].
    - injection E as E1 E2. subst f rest.
      cbn [fmt_row app]. unfold reader0.
      rewrite run_start_record by reflexivity.
      rewrite (run_cons_some d ch_quote _ _ _ acc (step_start_quote d [])) by reflexivity.
      rewrite (run_cons_some d ch_quote _ _ _ acc (step_inq_quote d [] [])) by reflexivity.
      assert (Hdone : fdone (mkReader QuoteInQuoted [] []) [] []).
      { unfold fdone. cbn [st fld flds].
        split; [reflexivity|split; [reflexivity|right; left; reflexivity]]. }
      rewrite (run_term_nl d Hd _ _ _ t acc Hdone). reflexivity.
    - rewrite fmt_row_general by exact E. rewrite <- app_assoc. cbn [app].
      assert (Hf : field_okb f = true).
      { cbn [forallb] in Hok. apply andb_prop in Hok. destruct Hok as [Hf _]. exact Hf. }
      destruct (row_head f rest t E Hf) as [c [s [Etxt Hc]]].
      unfold reader0. rewrite Etxt. rewrite run_start_record by exact Hc. rewrite <- Etxt.
      rewrite (run_row d Hd rest f [] t acc Hok). reflexivity.
  Qed.

  Lemma run_fmt_rows : forall rows acc, rows_okb rows = true ->
    run d (fmt_rows d rows) reader0 acc = Some (acc ++ rows).
  Proof.
    unfold fmt_rows, rows_okb. induction rows as [|row rows IH]; intros acc Hok.
    - cbn. rewrite app_nil_r. reflexivity.
    - cbn [forallb] in Hok. apply andb_prop in Hok. destruct Hok as [Hrow Hrows].
      cbn [flat_map]. rewrite run_fmt_row by exact Hrow.
      rewrite IH by exact Hrows. rewrite <- app_assoc. reflexivity.
  Qed.

  Lemma ends_ok_app_nl : forall s t b, ends_ok ((s ++ [ch_nl]) ++ t) b = ends_ok t false.
  Proof.
    induction s as [|c s IH]; intros t b.
    - reflexivity.
    - cbn [app ends_ok]. apply IH.
  Qed.

  Lemma fmt_row_ends : forall row, exists s, fmt_row d row = s ++ [ch_nl].
  Proof.
    intros row. destruct (list_eq_dec str_eq_dec row [[]]) as [E|E].
    - subst row. exists [ch_quote; ch_quote]. reflexivity.
    - rewrite fmt_row_general by exact E. eexists. reflexivity.
  Qed.

  Lemma ends_ok_fmt_rows : forall rows, ends_ok (fmt_rows d rows) false = true.
  Proof.
    unfold fmt_rows. induction rows as [|row rows IH]; [reflexivity|].
    cbn [flat_map]. destruct (fmt_row_ends row) as [s Es]. rewrite Es.
    rewrite ends_ok_app_nl. exact IH.
  Qed.
End Table.

(* the reader inverts the writer *)
Theorem csv_roundtrip : forall d rows,
  delim_okb d = true -> rows_okb rows = true ->
  csv_read d (fmt_rows d rows) = Some rows.
Proof.
  intros d rows Hd Hok. unfold csv_read.
  rewrite fmt_rows_no_cr by assumption.
  apply (read_all_stream d (fmt_rows d rows) [] reader0 reader0 [] rows).
  - reflexivity.
  - apply ends_ok_fmt_rows.
  - rewrite (run_fmt_rows d Hd rows [] Hok). reflexivity.
Qed.
