(** C06 — lemmas about the format model. *)
From Coq Require Import DecimalNat.
From CG3 Require Import Lib.PyZ Lib.Chars Model.Formats Spec.FormatsSpec.

(* ------------------------------------------------------------------ characters *)

Lemma brk_is_space c : is_brk c = true -> is_space c = true.
Proof. unfold is_brk, is_space. lia. Qed.

Lemma bspace_is_space c : is_bspace c = true -> is_space c = true.
Proof. unfold is_bspace, is_space. lia. Qed.

Lemma ok_res_props c : ok_res c = true ->
  is_space c = false /\ is_brk c = false /\ c <> GT /\ c <> HASH /\ c <> PCT /\ ascii_upper_ch c = c /\ c <> NL.
Proof.
  unfold ok_res. intros H.
  assert (Hs : is_space c = false) by (destruct (is_space c); [cbn in H; discriminate|reflexivity]).
  assert (Hb : is_brk c = false).
  { destruct (is_brk c) eqn:E; [apply brk_is_space in E; congruence|reflexivity]. }
  rewrite Hs in H. cbn [negb andb] in H.
  repeat split; try assumption; unfold GT, HASH, PCT in *; try lia.
  intros ->. unfold is_space, NL in Hs. lia.
Qed.

(* ------------------------------------------------------------------ strip *)

Lemma lstrip_id f s : (match s with c :: _ => f c = false | [] => True end) -> lstrip_by f s = s.
Proof. destruct s as [|c t]; simpl; intros H; [reflexivity|]. now rewrite H. Qed.

Lemma strip_by_id f s : (forall c, In c s -> f c = false) -> strip_by f s = s.
Proof.
  intros H. unfold strip_by, rstrip_by.
  rewrite (lstrip_id f s).
  - rewrite (lstrip_id f (rev s)); [apply rev_involutive|].
    destruct (rev s) as [|c t] eqn:E; [exact I|].
    apply H. apply in_rev. rewrite E. now left.
  - destruct s as [|c t]; [exact I|]. apply H. now left.
Qed.

Lemma forallb_filter_id {A} (f : A -> bool) l : forallb f l = true -> filter f l = l.
Proof.
  induction l as [|x l IH]; simpl; intros H; [reflexivity|].
  apply andb_true_iff in H. destruct H as [Hx Hl]. rewrite Hx. f_equal. now apply IH.
Qed.

Lemma forallb_In {A} (f : A -> bool) l : forallb f l = true -> forall x, In x l -> f x = true.
Proof. intros H x Hx. rewrite forallb_forall in H. now apply H. Qed.

Lemma ok_line_props l : ok_line l = true ->
  l <> [] /\ (forall c, In c l -> ok_res c = true) /\ strip l = l /\ remove_ws l = l.
Proof.
  unfold ok_line. destruct l as [|c t]; [discriminate|]. intros H.
  assert (Hall : forall x, In x (c :: t) -> ok_res x = true) by (apply forallb_In; exact H).
  split; [discriminate|]. split; [exact Hall|]. split.
  - apply strip_by_id. intros x Hx. apply Hall in Hx. now apply ok_res_props in Hx.
  - unfold remove_ws. apply forallb_filter_id.
    apply forallb_forall. intros x Hx. apply Hall in Hx. apply ok_res_props in Hx.
    destruct Hx as [-> _]. reflexivity.
Qed.

Lemma remove_ws_concat cs : (forall l, In l cs -> ok_line l = true) -> remove_ws (concat cs) = concat cs.
Proof.
  intros H. unfold remove_ws. apply forallb_filter_id. apply forallb_forall.
  intros x Hx. apply in_concat in Hx. destruct Hx as [l [Hl Hx]].
  apply H in Hl. apply ok_line_props in Hl. destruct Hl as [_ [Hall _]].
  apply Hall in Hx. apply ok_res_props in Hx. destruct Hx as [-> _]. reflexivity.
Qed.

Lemma strip_ends f s :
  (match s with c :: _ => f c = false | [] => True end) ->
  (match rev s with c :: _ => f c = false | [] => True end) ->
  strip_by f s = s.
Proof.
  intros H1 H2. unfold strip_by, rstrip_by. rewrite (lstrip_id f s) by exact H1.
  rewrite (lstrip_id f (rev s)) by exact H2. apply rev_involutive.
Qed.

Lemma ends_ok_strip n : ends_ok n = true -> strip n = n /\ bstrip n = n.
Proof.
  unfold ends_ok. intros H. apply andb_true_iff in H. destruct H as [H1 H2].
  split; apply strip_ends.
  - destruct n as [|c t]; [exact I|]. destruct (is_space c); [discriminate|reflexivity].
  - destruct (rev n) as [|c t]; [exact I|]. destruct (is_space c); [discriminate|reflexivity].
  - destruct n as [|c t]; [exact I|]. destruct (is_bspace c) eqn:E; [|reflexivity].
    apply bspace_is_space in E. rewrite E in H1. discriminate.
  - destruct (rev n) as [|c t]; [exact I|]. destruct (is_bspace c) eqn:E; [|reflexivity].
    apply bspace_is_space in E. rewrite E in H2. discriminate.
Qed.

Lemma ok_frec_props n cs : ok_frec (n, cs) = true ->
  strip n = n /\ (forall c, In c n -> is_brk c = false) /\ cs <> [] /\ (forall l, In l cs -> ok_line l = true).
Proof.
  unfold ok_frec, ok_name. cbn [fst snd]. intros H.
  apply andb_true_iff in H. destruct H as [Hn Hcs].
  apply andb_true_iff in Hn. destruct Hn as [Hb Hs].
  split; [now apply ends_ok_strip|]. split.
  - intros c Hc. pose proof (forallb_In _ _ Hb c Hc) as Hx. cbn in Hx.
    destruct (is_brk c); [discriminate|reflexivity].
  - destruct cs as [|c0 cs0]; [discriminate|]. split; [discriminate|].
    apply forallb_In. exact Hcs.
Qed.

Lemma ok_frec_bstrip n cs : ok_frec (n, cs) = true -> bstrip n = n.
Proof.
  unfold ok_frec, ok_name. cbn [fst snd]. intros H.
  apply andb_true_iff in H. destruct H as [Hn _].
  apply andb_true_iff in Hn. destruct Hn as [_ Hs]. now apply ends_ok_strip.
Qed.

(* ------------------------------------------------------------------ splitlines of written text *)

Lemma sl_line l rest : (forall c, In c l -> is_brk c = false) ->
  sl false (l ++ NL :: rest) = l :: sl false rest.
Proof.
  induction l as [|c l IH]; intros H.
  - reflexivity.
  - simpl app. cbn [sl andb]. rewrite (H c) by now left.
    rewrite IH; [reflexivity|]. intros x Hx. apply H. now right.
Qed.

Lemma splitlines_join ls : (forall l, In l ls -> forall c, In c l -> is_brk c = false) ->
  py_splitlines (join_lines ls) = ls.
Proof.
  unfold py_splitlines. induction ls as [|l ls IH]; intros H.
  - reflexivity.
  - cbn [join_lines flat_map]. rewrite <- app_assoc. cbn [app].
    rewrite sl_line by (apply H; now left).
    f_equal. apply IH. intros l' Hl'. apply H. now right.
Qed.

(* ------------------------------------------------------------------ line-based FASTA / GDE parsers *)

Section LineParsers.
  Variable lc : list Z.          (* label characters *)
  Variable lch : Z.              (* the label character the writer uses *)
  Hypothesis Hlch : memz lch lc = true.
  Hypothesis Hlch_hash : lch <> HASH.
  Hypothesis Hres : forall c, ok_res c = true -> memz c lc = false.

  Definition lab_lines (recs : list (str * list str)) : list str :=
    flat_map (fun r => (lch :: fst r) :: snd r) recs.

  Definition out1 (lab : option str) (acc : list str) : list rec :=
    match acc with [] => [] | _ => [(lbl_or_empty lab, remove_ws (concat acc))] end.

  Lemma faster_seq_lines cs : forall acc lab rest,
    (forall l, In l cs -> ok_line l = true) ->
    faster_go lc lab acc (cs ++ rest) = faster_go lc lab (acc ++ cs) rest.
  Proof.
    induction cs as [|l cs IH]; intros acc lab rest H.
    - now rewrite app_nil_r.
    - assert (Hl : ok_line l = true) by (apply H; now left).
      apply ok_line_props in Hl. destruct Hl as [Hne [Hall [Hstrip _]]].
      destruct l as [|c t]; [congruence|].
      cbn [app faster_go]. rewrite (Hres c) by (apply Hall; now left).
      rewrite Hstrip. rewrite IH by (intros l' Hl'; apply H; now right).
      now rewrite <- app_assoc.
  Qed.

  Lemma faster_lab_lines recs : forall lab acc,
    (forall r, In r recs -> ok_frec r = true) ->
    faster_go lc lab acc (lab_lines recs) = out1 lab acc ++ records_of recs.
  Proof.
    induction recs as [|[n cs] recs IH]; intros lab acc H.
    - cbn. unfold out1. destruct acc; now rewrite ?app_nil_r.
    - assert (Hr : ok_frec (n, cs) = true) by (apply H; now left).
      apply ok_frec_props in Hr. destruct Hr as [Hn [_ [Hcne Hcs]]].
      cbn [lab_lines flat_map fst snd app]. fold (lab_lines recs).
      cbn [faster_go]. rewrite Hlch. rewrite Hn.
      rewrite faster_seq_lines by exact Hcs. cbn [app].
      rewrite IH by (intros r Hr'; apply H; now right).
      f_equal. unfold out1, records_of. cbn [lbl_or_empty map fst snd].
      destruct cs as [|c0 cs0]; [congruence|].
      rewrite (remove_ws_concat (c0 :: cs0)) by exact Hcs. reflexivity.
  Qed.

  Lemma strict_seq_lines cs : forall acc lab rest,
    (forall l, In l cs -> ok_line l = true) ->
    strict_go lc lab acc (cs ++ rest) = strict_go lc lab (acc ++ cs) rest.
  Proof.
    induction cs as [|l cs IH]; intros acc lab rest H.
    - now rewrite app_nil_r.
    - assert (Hl : ok_line l = true) by (apply H; now left).
      apply ok_line_props in Hl. destruct Hl as [Hne [Hall [Hstrip _]]].
      destruct l as [|c t]; [congruence|].
      assert (Hc : ok_res c = true) by (apply Hall; now left).
      cbn [app strict_go]. rewrite (Hres c) by exact Hc.
      apply ok_res_props in Hc. destruct Hc as [_ [_ [_ [Hh _]]]].
      destruct (Z.eqb_spec c HASH) as [E|_]; [congruence|].
      rewrite Hstrip. rewrite IH by (intros l' Hl'; apply H; now right).
      now rewrite <- app_assoc.
  Qed.

  Lemma strict_lab_lines_some recs : forall l acc,
    acc <> [] ->
    (forall r, In r recs -> ok_frec r = true) ->
    strict_go lc (Some l) acc (lab_lines recs) = POk ((l, remove_ws (concat acc)) :: records_of recs).
  Proof.
    induction recs as [|[n cs] recs IH]; intros l acc Hacc H.
    - cbn. destruct acc; [congruence|reflexivity].
    - assert (Hr : ok_frec (n, cs) = true) by (apply H; now left).
      apply ok_frec_props in Hr. destruct Hr as [Hn [_ [Hcne Hcs]]].
      cbn [lab_lines flat_map fst snd app]. fold (lab_lines recs).
      cbn [strict_go]. destruct (Z.eqb_spec lch HASH) as [E|_]; [congruence|].
      rewrite Hlch. destruct acc as [|a acc']; [congruence|].
      rewrite Hn. rewrite strict_seq_lines by exact Hcs. cbn [app].
      rewrite IH; [| exact Hcne | intros r Hr'; apply H; now right].
      cbn [pcons records_of map fst snd].
      rewrite (remove_ws_concat cs) by exact Hcs. reflexivity.
  Qed.

  Lemma strict_lab_lines recs :
    recs <> [] ->
    (forall r, In r recs -> ok_frec r = true) ->
    strict_parser lc (lab_lines recs) = POk (records_of recs).
  Proof.
    destruct recs as [|[n cs] recs]; intros Hne H; [congruence|].
    assert (Hr : ok_frec (n, cs) = true) by (apply H; now left).
    apply ok_frec_props in Hr. destruct Hr as [Hn [_ [Hcne Hcs]]].
    unfold strict_parser. cbn [lab_lines flat_map fst snd app]. fold (lab_lines recs).
    cbn [strict_go]. destruct (Z.eqb_spec lch HASH) as [E|_]; [congruence|].
    rewrite Hlch, Hn. rewrite strict_seq_lines by exact Hcs. cbn [app].
    rewrite strict_lab_lines_some; [| exact Hcne | intros r Hr'; apply H; now right].
    cbn [records_of map fst snd]. rewrite (remove_ws_concat cs) by exact Hcs. reflexivity.
  Qed.

  (** the written lines contain no line-boundary character *)
  Lemma lab_lines_nobrk recs :
    lch <> NL -> is_brk lch = false ->
    (forall r, In r recs -> ok_frec r = true) ->
    forall l, In l (lab_lines recs) -> forall c, In c l -> is_brk c = false.
  Proof.
    intros _ Hb H l Hl c Hc. unfold lab_lines in Hl. apply in_flat_map in Hl.
    destruct Hl as [[n cs] [Hr Hl]]. apply H in Hr. apply ok_frec_props in Hr.
    destruct Hr as [_ [Hnb [_ Hcs]]]. cbn [fst snd] in *.
    destruct Hl as [<-|Hl].
    - destruct Hc as [<-|Hc]; [exact Hb|]. now apply Hnb.
    - apply Hcs in Hl. apply ok_line_props in Hl.
      destruct Hl as [_ [Hall _]]. apply Hall in Hc. now apply ok_res_props in Hc.
  Qed.
End LineParsers.

(* ------------------------------------------------------------------ FASTA, line-based parsers *)

Lemma memz_res_fasta c : ok_res c = true -> memz c fasta_lc = false.
Proof. intros H. apply ok_res_props in H. unfold fasta_lc, memz. cbn. destruct H as [_ [_ [H _]]]. lia. Qed.

Lemma memz_res_gde c : ok_res c = true -> memz c gde_lc = false.
Proof.
  intros H. apply ok_res_props in H. unfold gde_lc, memz. cbn.
  destruct H as [_ [_ [_ [H1 [H2 _]]]]]. lia.
Qed.

Lemma fasta_lines_lab recs : fasta_lines recs = lab_lines GT recs.
Proof. reflexivity. Qed.

Lemma fasta_text_lines recs :
  (forall r, In r recs -> ok_frec r = true) ->
  py_splitlines (fasta_write recs) = fasta_lines recs.
Proof.
  intros H. unfold fasta_write. apply splitlines_join. rewrite fasta_lines_lab.
  apply lab_lines_nobrk; [discriminate|reflexivity|exact H].
Qed.

Lemma fasta_roundtrip_faster recs :
  (forall r, In r recs -> ok_frec r = true) ->
  lines_faster (fasta_write recs) = records_of recs.
Proof.
  intros H. unfold lines_faster. rewrite fasta_text_lines by exact H.
  unfold faster_parser. rewrite fasta_lines_lab.
  rewrite (faster_lab_lines fasta_lc GT); [reflexivity|reflexivity|exact memz_res_fasta|exact H].
Qed.

Lemma fasta_roundtrip_strict recs :
  recs <> [] -> (forall r, In r recs -> ok_frec r = true) ->
  lines_strict (fasta_write recs) = POk (records_of recs).
Proof.
  intros Hne H. unfold lines_strict. rewrite fasta_text_lines by exact H.
  rewrite fasta_lines_lab.
  apply (strict_lab_lines fasta_lc GT); [reflexivity|discriminate|exact memz_res_fasta|exact Hne|exact H].
Qed.

(** the known defect: a representable name containing '>' *)
Definition witness_gt : list (str * list str) := [([97; 62; 98], [[65; 67; 71; 84]])].   (* a>b / ACGT *)

Lemma bytes_roundtrip_unguarded_refuted :
  exists recs, (forall r, In r recs -> ok_frec r = true) /\ bytes_parser (fasta_write recs) <> records_of recs.
Proof.
  exists witness_gt. split.
  - intros r [<-|[]]. reflexivity.
  - vm_compute. discriminate.
Qed.

Lemma parsers_agree_unguarded_refuted :
  exists recs, (forall r, In r recs -> ok_frec r = true) /\
               bytes_parser (fasta_write recs) <> lines_faster (fasta_write recs).
Proof.
  exists witness_gt. split.
  - intros r [<-|[]]. reflexivity.
  - vm_compute. discriminate.
Qed.

(* ------------------------------------------------------------------ chunked line streaming *)

Definition simple (s : str) : Prop := forall c, In c s -> is_brk c = true -> c = NL.
Definition nobrk (s : str) : Prop := forall c, In c s -> is_brk c = false.

Lemma simple_decomp s : simple s ->
  nobrk s \/ exists l d, s = l ++ NL :: d /\ nobrk l /\ simple d.
Proof.
  induction s as [|c t IH]; intros Hs.
  - left. intros c [].
  - assert (Ht : simple t) by (intros x Hx; apply Hs; now right).
    destruct (is_brk c) eqn:Ec.
    + right. exists [], t. split; [|split; [intros x []|exact Ht]].
      cbn. f_equal. apply Hs; [now left|exact Ec].
    + destruct (IH Ht) as [Hn|[l [d [-> [Hl Hd]]]]].
      * left. intros x [<-|Hx]; [exact Ec|now apply Hn].
      * right. exists (c :: l), d. split; [reflexivity|]. split; [|exact Hd].
        intros x [<-|Hx]; [exact Ec|now apply Hl].
Qed.

Lemma sl_nobrk l : nobrk l -> l <> [] -> sl false l = [l].
Proof.
  induction l as [|c t IH]; intros Hn Hne; [congruence|].
  cbn [sl andb]. rewrite (Hn c) by now left.
  destruct t as [|c' t']; [reflexivity|].
  rewrite IH; [reflexivity| intros x Hx; apply Hn; now right | discriminate].
Qed.

Lemma sl_nonempty b s : s <> [] -> b = false -> sl b s <> [].
Proof.
  destruct s as [|c t]; [congruence|]. intros _ ->. cbn [sl andb].
  destruct (is_brk c); [discriminate|]. destruct (sl false t); discriminate.
Qed.

Lemma ends_nl_app a d : d <> [] -> ends_nl (a ++ d) = ends_nl d.
Proof.
  intros Hd. unfold ends_nl. rewrite rev_app_distr.
  destruct (rev d) as [|c r] eqn:E.
  - exfalso. apply Hd. rewrite <- (rev_involutive d), E. reflexivity.
  - reflexivity.
Qed.

Lemma ends_nl_nobrk s : nobrk s -> ends_nl s = false.
Proof.
  intros Hn. unfold ends_nl. destruct (rev s) as [|c r] eqn:E; [reflexivity|].
  assert (Hc : In c s) by (apply in_rev; rewrite E; now left).
  apply Hn in Hc. destruct (Z.eqb_spec c NL) as [->|]; [discriminate|reflexivity].
Qed.

Lemma simple_app a b : simple a -> simple b -> simple (a ++ b).
Proof. intros Ha Hb c Hc. apply in_app_or in Hc. destruct Hc; [now apply Ha|now apply Hb]. Qed.

Lemma nobrk_simple a : nobrk a -> simple a.
Proof. intros H c Hc Hb. rewrite (H c Hc) in Hb. discriminate. Qed.

Lemma simple_nl : simple [NL].
Proof. intros c [<-|[]] _. reflexivity. Qed.

Definition step_last (data : str) : str :=
  let l := last (sl false data) [] in if ends_nl data then l ++ [NL] else l.

(** the heart of iter_splitlines: what is carried over plus what is emitted is the text read so far *)
Lemma isl_key n : forall data rest, (length data <= n)%nat -> simple data ->
  simple (step_last data) /\
  sl false (data ++ rest) = removelast (sl false data) ++ sl false (step_last data ++ rest).
Proof.
  induction n as [|n IH]; intros data rest Hlen Hs.
  - destruct data; [|cbn in Hlen; lia]. split; [intros c []|reflexivity].
  - destruct (simple_decomp data Hs) as [Hn|[l [d [-> [Hl Hd]]]]].
    + destruct data as [|c t]; [split; [intros c []|reflexivity]|].
      unfold step_last. rewrite sl_nobrk by (exact Hn || discriminate).
      rewrite ends_nl_nobrk by exact Hn. cbn [last removelast app]. split; [exact Hs|reflexivity].
    + rewrite <- app_assoc. cbn [app]. rewrite !sl_line by exact Hl.
      destruct d as [|c d'].
      * unfold step_last. rewrite sl_line by exact Hl. cbn [sl last removelast app].
        rewrite ends_nl_app by discriminate. cbn [ends_nl rev app Z.eqb NL Pos.eqb].
        split; [apply simple_app; [now apply nobrk_simple|exact simple_nl]|].
        rewrite <- app_assoc. cbn [app]. now rewrite sl_line by exact Hl.
      * set (d := c :: d') in *.
        assert (Hdl : (length d <= n)%nat).
        { rewrite app_length in Hlen. cbn [length] in Hlen. fold d in Hlen. cbn [length] in Hlen. lia. }
        destruct (IH d rest Hdl Hd) as [Hs' Heq].
        assert (HL : sl false d <> []) by (apply sl_nonempty; [discriminate|reflexivity]).
        assert (Hsame : step_last (l ++ NL :: d) = step_last d).
        { unfold step_last. rewrite sl_line by exact Hl.
          change (l ++ NL :: d) with (l ++ [NL] ++ d). rewrite app_assoc.
          rewrite ends_nl_app by discriminate.
          destruct (sl false d) as [|x xs]; [congruence|]. reflexivity. }
        rewrite Hsame. split; [exact Hs'|].
        rewrite Heq. destruct (sl false d) as [|x xs]; [congruence|]. reflexivity.
Qed.

Lemma isl_fold chunks : forall lst out,
  simple lst -> simple (concat chunks) ->
  let st := fold_left isl_step chunks (lst, out) in
  snd st ++ sl false (fst st) = out ++ sl false (lst ++ concat chunks).
Proof.
  induction chunks as [|ch cs IH]; intros lst out Hl Hc.
  - cbn. now rewrite app_nil_r.
  - cbn [fold_left concat]. cbn [concat] in Hc.
    assert (Hch : simple ch) by (intros c Hx; apply Hc; apply in_or_app; now left).
    assert (Hcs : simple (concat cs)) by (intros c Hx; apply Hc; apply in_or_app; now right).
    assert (Hd : simple (lst ++ ch)) by now apply simple_app.
    destruct (isl_key (length (lst ++ ch)) (lst ++ ch) (concat cs) (le_n _) Hd) as [Hs' Heq].
    unfold isl_step at 2. cbn [fst snd]. fold (step_last (lst ++ ch)).
    cbv zeta. rewrite IH by assumption.
    rewrite (app_assoc lst ch). rewrite Heq. now rewrite app_assoc.
Qed.

Lemma only_nl_simple s :
  forallb (fun c => negb (is_brk c) || (c =? NL)) s = true -> simple s.
Proof.
  intros H c Hc Hb. pose proof (forallb_In _ _ H c Hc) as Hx. cbn in Hx. rewrite Hb in Hx. cbn in Hx. lia.
Qed.

Definition only_nl (s : str) : bool := forallb (fun c => negb (is_brk c) || (c =? NL)) s.

Lemma iter_splitlines_spec chunks :
  only_nl (concat chunks) = true -> iter_splitlines chunks = py_splitlines (concat chunks).
Proof.
  intros H. unfold iter_splitlines, py_splitlines.
  pose proof (isl_fold chunks [] [] (fun c (F : In c []) => match F with end) (only_nl_simple _ H)) as E.
  cbv zeta in E. exact E.
Qed.

Lemma concat_blocks_go fuel : forall w s, (1 <= w)%nat -> (length s <= fuel)%nat -> concat (blocks_go fuel w s) = s.
Proof.
  induction fuel as [|f IH]; intros w s Hw Hl.
  - destruct s; [reflexivity|cbn in Hl; lia].
  - destruct s as [|c t]; [reflexivity|]. cbn [blocks_go concat].
    rewrite IH; [apply firstn_skipn|exact Hw|].
    rewrite skipn_length. cbn [length] in *. lia.
Qed.

Lemma chunks_go_blocks_go : chunks_go = blocks_go.
Proof. reflexivity. Qed.

Lemma concat_chunks_of n s : (1 <= n)%nat -> concat (chunks_of n s) = s.
Proof. intros H. unfold chunks_of. rewrite chunks_go_blocks_go. now apply concat_blocks_go. Qed.

Lemma chunk_size_invariance n s :
  (1 <= n)%nat -> only_nl s = true -> iter_splitlines (chunks_of n s) = py_splitlines s.
Proof.
  intros Hn Hs. rewrite iter_splitlines_spec; rewrite concat_chunks_of by exact Hn; [reflexivity|exact Hs].
Qed.

(** the guard is needed: a form feed at the end of a chunk is lost *)
Lemma chunk_invariance_unguarded_refuted :
  exists chunks, iter_splitlines chunks <> py_splitlines (concat chunks).
Proof. exists [[97; 12]; [98]]. vm_compute. discriminate. Qed.

(* ------------------------------------------------------------------ FASTA, bytes parser (pinned source: split on every '>') *)

Lemma split_on_ne x s : split_on x s <> [].
Proof. destruct s as [|c t]; cbn; [discriminate|]. destruct (split_on x t); [discriminate|]. destruct (c =? x); discriminate. Qed.

Lemma split_on_app_free x a : forall T w ws,
  (forall c, In c a -> c <> x) -> split_on x T = w :: ws -> split_on x (a ++ T) = (a ++ w) :: ws.
Proof.
  induction a as [|c a IH]; intros T w ws Ha HT; [exact HT|].
  cbn [app split_on]. rewrite (IH T w ws); [| intros y Hy; apply Ha; now right | exact HT].
  destruct (Z.eqb_spec c x) as [E|_]; [exfalso; apply (Ha c); [now left|exact E]|reflexivity].
Qed.

Definition fbody (r : str * list str) : str := fst r ++ NL :: join_lines (snd r).

Lemma join_lines_app a b : join_lines (a ++ b) = join_lines a ++ join_lines b.
Proof. unfold join_lines. apply flat_map_app. Qed.

Lemma fasta_write_bodies recs : fasta_write recs = flat_map (fun r => GT :: fbody r) recs.
Proof.
  unfold fasta_write. induction recs as [|[n cs] recs IH]; [reflexivity|].
  cbn [fasta_lines flat_map fst snd]. fold (fasta_lines recs).
  change (((GT :: n) :: cs) ++ fasta_lines recs) with ([GT :: n] ++ cs ++ fasta_lines recs).
  rewrite !join_lines_app, IH. unfold fbody. cbn [join_lines flat_map fst snd app].
  rewrite app_nil_r. rewrite <- !app_assoc. cbn [app]. reflexivity.
Qed.

Lemma split_bodies recs :
  (forall r, In r recs -> forall c, In c (fbody r) -> c <> GT) ->
  split_on GT (flat_map (fun r => GT :: fbody r) recs) = [] :: map fbody recs.
Proof.
  induction recs as [|r recs IH]; intros H; [reflexivity|].
  cbn [flat_map map app]. cbn [split_on].
  rewrite (split_on_app_free GT (fbody r) _ [] (map fbody recs)).
  - rewrite Z.eqb_refl, app_nil_r. reflexivity.
  - apply H. now left.
  - apply IH. intros r' Hr'. apply H. now right.
Qed.

Lemma split1_app x a T : (forall c, In c a -> c <> x) -> split1 x (a ++ x :: T) = Some (a, T).
Proof.
  induction a as [|c a IH]; intros Ha.
  - cbn. now rewrite Z.eqb_refl.
  - cbn [app split1]. destruct (Z.eqb_spec c x) as [E|_]; [exfalso; apply (Ha c); [now left|exact E]|].
    rewrite IH by (intros y Hy; apply Ha; now right). reflexivity.
Qed.

Lemma converter_line l X : (forall c, In c l -> ok_res c = true) -> converter (l ++ NL :: X) = l ++ converter X.
Proof.
  induction l as [|c l IH]; intros H.
  - reflexivity.
  - assert (Hc : ok_res c = true) by (apply H; now left).
    apply ok_res_props in Hc. destruct Hc as [Hs [_ [_ [_ [_ [Hu _]]]]]].
    assert (Hk : negb ((c =? 10) || (c =? 13) || (c =? 9) || (c =? 32)) = true).
    { unfold is_space in Hs. lia. }
    unfold converter in *. cbn [app filter]. rewrite Hk. cbn [ascii_upper map]. rewrite Hu.
    f_equal. apply IH. intros y Hy. apply H. now right.
Qed.

Lemma converter_lines cs : (forall l, In l cs -> ok_line l = true) -> converter (join_lines cs) = concat cs.
Proof.
  induction cs as [|l cs IH]; intros H; [reflexivity|].
  cbn [join_lines flat_map concat]. fold (join_lines cs). rewrite <- app_assoc. cbn [app].
  assert (Hl : ok_line l = true) by (apply H; now left). apply ok_line_props in Hl.
  destruct Hl as [_ [Hall _]]. rewrite converter_line by exact Hall.
  f_equal. apply IH. intros l' Hl'. apply H. now right.
Qed.

Lemma bytes_record_body n cs : ok_frec (n, cs) = true -> bytes_record (fbody (n, cs)) = [(n, concat cs)].
Proof.
  intros Hr. pose proof (ok_frec_bstrip _ _ Hr) as Hb. apply ok_frec_props in Hr.
  destruct Hr as [_ [Hnb [_ Hcs]]].
  unfold bytes_record, fbody. cbn [fst snd].
  destruct (n ++ NL :: join_lines cs) as [|c0 t0] eqn:E.
  { apply app_eq_nil in E. destruct E; discriminate. }
  rewrite <- E. rewrite split1_app.
  - rewrite Hb, converter_lines by exact Hcs. reflexivity.
  - intros c Hc Ec. subst c. apply Hnb in Hc. discriminate.
Qed.

Lemma fbody_nogt n cs : ok_frec (n, cs) = true -> no_gt n = true -> forall c, In c (fbody (n, cs)) -> c <> GT.
Proof.
  intros Hr Hg c Hc. apply ok_frec_props in Hr. destruct Hr as [_ [_ [_ Hcs]]].
  unfold fbody in Hc. cbn [fst snd] in Hc. apply in_app_or in Hc. destruct Hc as [Hc|[<-|Hc]].
  - pose proof (forallb_In _ _ Hg c Hc) as Hx. cbn in Hx. lia.
  - discriminate.
  - unfold join_lines in Hc. apply in_flat_map in Hc. destruct Hc as [l [Hl Hc]].
    apply in_app_or in Hc. destruct Hc as [Hc|[<-|[]]]; [|discriminate].
    apply Hcs in Hl. apply ok_line_props in Hl. destruct Hl as [_ [Hall _]].
    apply Hall in Hc. now apply ok_res_props in Hc.
Qed.

Lemma bytes_records_bodies recs :
  (forall r, In r recs -> ok_frec r = true) ->
  flat_map bytes_record (map fbody recs) = records_of recs.
Proof.
  induction recs as [|[n cs] recs IH]; intros H; [reflexivity|].
  cbn [map flat_map records_of fst snd]. rewrite bytes_record_body by (apply H; now left).
  cbn [app]. f_equal. apply IH. intros r Hr. apply H. now right.
Qed.

Lemma fasta_roundtrip_bytes_lemma recs :
  (forall r, In r recs -> ok_frec r = true /\ no_gt (fst r) = true) ->
  bytes_parser (fasta_write recs) = records_of recs.
Proof.
  intros H. unfold bytes_parser. rewrite fasta_write_bodies, split_bodies.
  - cbn [flat_map bytes_record app]. apply bytes_records_bodies. intros r Hr. now apply H.
  - intros [n cs] Hr. destruct (H _ Hr) as [H1 H2]. now apply fbody_nogt.
Qed.

Lemma fasta_parsers_agree_lemma recs :
  (forall r, In r recs -> ok_frec r = true /\ no_gt (fst r) = true) ->
  bytes_parser (fasta_write recs) = lines_faster (fasta_write recs).
Proof.
  intros H. rewrite fasta_roundtrip_bytes_lemma by exact H.
  rewrite fasta_roundtrip_faster; [reflexivity|]. intros r Hr. now apply H.
Qed.

(* ------------------------------------------------------------------ FASTA, bytes parser after fix C06-1 (split at '>' that begins a line) *)

(** no '>' at a line start inside [s] when read from line-start state [b] *)
Fixpoint no_ls (b : bool) (s : str) : bool :=
  match s with
  | [] => true
  | x :: t => negb (b && (x =? GT)) && no_ls (x =? NL) t
  end.

Fixpoint end_state (b : bool) (s : str) : bool :=
  match s with [] => b | x :: t => end_state (x =? NL) t end.

Lemma no_ls_app b a c : no_ls b (a ++ c) = no_ls b a && no_ls (end_state b a) c.
Proof.
  revert b; induction a as [|x a IH]; intros b; [reflexivity|].
  cbn [app no_ls end_state]. rewrite IH. now rewrite andb_assoc.
Qed.

Lemma end_state_app b a c : end_state b (a ++ c) = end_state (end_state b a) c.
Proof. revert b; induction a as [|x a IH]; intros b; [reflexivity|]. cbn [app end_state]. apply IH. Qed.

Lemma split_ls_ne b s : split_linestart GT b s <> [].
Proof.
  destruct s as [|c t]; cbn; [discriminate|]. destruct (split_linestart GT (c =? NL) t); [discriminate|].
  destruct (b && (c =? GT)); discriminate.
Qed.

Lemma split_ls_app a : forall b T w ws,
  no_ls b a = true -> split_linestart GT (end_state b a) T = w :: ws ->
  split_linestart GT b (a ++ T) = (a ++ w) :: ws.
Proof.
  induction a as [|x a IH]; intros b T w ws Ha HT; [exact HT|].
  cbn [no_ls] in Ha. apply andb_true_iff in Ha. destruct Ha as [Hx Ha].
  cbn [app split_linestart]. cbn [end_state] in HT.
  rewrite (IH _ T w ws Ha HT).
  destruct (b && (x =? GT)); [discriminate|reflexivity].
Qed.

Lemma no_ls_nonl s : (forall c, In c s -> c <> NL) -> no_ls false s = true /\ end_state false s = false.
Proof.
  induction s as [|x s IH]; intros H; [split; reflexivity|].
  cbn [no_ls end_state andb negb].
  destruct (Z.eqb_spec x NL) as [E|_]; [exfalso; apply (H x); [now left|exact E]|].
  apply IH. intros c Hc. apply H. now right.
Qed.

Lemma no_ls_line l : ok_line l = true -> no_ls true (l ++ [NL]) = true /\ end_state true (l ++ [NL]) = true.
Proof.
  intros Hl. apply ok_line_props in Hl. destruct Hl as [Hne [Hall _]].
  destruct l as [|c t]; [congruence|].
  assert (Hc : ok_res c = true) by (apply Hall; now left). apply ok_res_props in Hc.
  destruct Hc as [_ [_ [Hg [_ [_ [_ Hn]]]]]].
  cbn [app no_ls end_state].
  destruct (Z.eqb_spec c GT) as [E|_]; [congruence|]. destruct (Z.eqb_spec c NL) as [E|_]; [congruence|].
  cbn [andb negb]. rewrite no_ls_app, end_state_app.
  destruct (no_ls_nonl t) as [H1 H2].
  { intros y Hy. assert (Hy' : ok_res y = true) by (apply Hall; now right). now apply ok_res_props in Hy'. }
  rewrite H1, H2. cbn. split; reflexivity.
Qed.

Lemma no_ls_lines cs : (forall l, In l cs -> ok_line l = true) ->
  no_ls true (join_lines cs) = true /\ end_state true (join_lines cs) = true.
Proof.
  induction cs as [|l cs IH]; intros H; [split; reflexivity|].
  cbn [join_lines flat_map]. fold (join_lines cs).
  destruct (no_ls_line l) as [H1 H2]; [apply H; now left|].
  destruct IH as [I1 I2]; [intros l' Hl'; apply H; now right|].
  split.
  - rewrite no_ls_app, H1, H2. exact I1.
  - rewrite end_state_app, H2. exact I2.
Qed.

Lemma no_ls_body n cs : ok_frec (n, cs) = true ->
  no_ls false (fbody (n, cs)) = true /\ end_state false (fbody (n, cs)) = true.
Proof.
  intros Hr. apply ok_frec_props in Hr. destruct Hr as [_ [Hnb [_ Hcs]]].
  unfold fbody. cbn [fst snd]. rewrite no_ls_app, end_state_app.
  destruct (no_ls_nonl n) as [H1 H2].
  { intros c Hc Ec. subst c. apply Hnb in Hc. discriminate. }
  rewrite H1, H2. cbn [no_ls end_state andb negb]. rewrite Z.eqb_refl. apply no_ls_lines. exact Hcs.
Qed.

Lemma split_ls_bodies recs :
  (forall r, In r recs -> ok_frec r = true) ->
  split_linestart GT true (flat_map (fun r => GT :: fbody r) recs) = [] :: map fbody recs.
Proof.
  induction recs as [|[n cs] recs IH]; intros H; [reflexivity|].
  cbn [flat_map map app]. cbn [split_linestart].
  destruct (no_ls_body n cs) as [H1 H2]; [apply H; now left|].
  rewrite (split_ls_app (fbody (n, cs)) false _ [] (map fbody recs)).
  - rewrite app_nil_r. reflexivity.
  - exact H1.
  - rewrite H2. apply IH. intros r Hr. apply H. now right.
Qed.

Lemma fasta_roundtrip_bytes_fixed_lemma recs :
  (forall r, In r recs -> ok_frec r = true) ->
  bytes_parser_fixed (fasta_write recs) = records_of recs.
Proof.
  intros H. unfold bytes_parser_fixed. rewrite fasta_write_bodies, split_ls_bodies by exact H.
  cbn [flat_map bytes_record app]. now apply bytes_records_bodies.
Qed.

Lemma fasta_parsers_agree_fixed_lemma recs :
  (forall r, In r recs -> ok_frec r = true) ->
  bytes_parser_fixed (fasta_write recs) = lines_faster (fasta_write recs).
Proof.
  intros H. rewrite fasta_roundtrip_bytes_fixed_lemma by exact H. now rewrite fasta_roundtrip_faster.
Qed.

(* ------------------------------------------------------------------ fixed-width blocks; FASTA with block_size; GDE *)

Lemma In_firstn {A} n (l : list A) x : In x (firstn n l) -> In x l.
Proof. intros H. rewrite <- (firstn_skipn n l). apply in_or_app. now left. Qed.

Lemma In_skipn {A} n (l : list A) x : In x (skipn n l) -> In x l.
Proof. intros H. rewrite <- (firstn_skipn n l). apply in_or_app. now right. Qed.

Lemma ok_line_intro l : l <> [] -> (forall c, In c l -> ok_res c = true) -> ok_line l = true.
Proof.
  intros Hne H. unfold ok_line. destruct l as [|c t]; [congruence|]. apply forallb_forall. exact H.
Qed.

Lemma blocks_go_ok fuel : forall w s, (1 <= w)%nat -> (forall c, In c s -> ok_res c = true) ->
  forall l, In l (blocks_go fuel w s) -> ok_line l = true.
Proof.
  induction fuel as [|f IH]; intros w s Hw Hs l Hl; [destruct Hl|].
  destruct s as [|c t]; [destruct Hl|]. cbn [blocks_go] in Hl. destruct Hl as [<-|Hl].
  - apply ok_line_intro.
    + destruct w as [|w']; [lia|]. discriminate.
    + intros x Hx. apply Hs. eapply In_firstn. exact Hx.
  - apply (IH w (skipn w (c :: t)) Hw); [|exact Hl]. intros x Hx. apply Hs. eapply In_skipn. exact Hx.
Qed.

Lemma ok_seq_props s : ok_seq s = true -> s <> [] /\ (forall c, In c s -> ok_res c = true).
Proof.
  unfold ok_seq. destruct s as [|c t]; [discriminate|]. intros H. split; [discriminate|].
  apply forallb_In. exact H.
Qed.

Lemma blocks_ne w s : s <> [] -> blocks w s <> [].
Proof. unfold blocks. destruct s as [|c t]; [congruence|]. intros _. cbn. discriminate. Qed.

Definition blocked (w : nat) (recs : list rec) : list (str * list str) :=
  map (fun r => (fst r, blocks w (snd r))) recs.

Lemma blocked_ok w recs : (1 <= w)%nat ->
  (forall r, In r recs -> ok_rec r = true) -> forall r, In r (blocked w recs) -> ok_frec r = true.
Proof.
  intros Hw H r Hr. unfold blocked in Hr. apply in_map_iff in Hr. destruct Hr as [[n s] [<- Hr]].
  apply H in Hr. unfold ok_rec in Hr. cbn [fst snd] in *. apply andb_true_iff in Hr. destruct Hr as [Hn Hs].
  apply ok_seq_props in Hs. destruct Hs as [Hne Hall].
  unfold ok_frec. cbn [fst snd]. rewrite Hn. cbn [andb].
  pose proof (blocks_ne w s Hne) as Hb. destruct (blocks w s) as [|b bs] eqn:E; [congruence|].
  rewrite <- E. apply forallb_forall. intros l Hl. unfold blocks in Hl.
  eapply blocks_go_ok; [exact Hw|exact Hall|exact Hl].
Qed.

Lemma records_of_blocked w recs : (1 <= w)%nat -> records_of (blocked w recs) = recs.
Proof.
  intros Hw. unfold records_of, blocked. rewrite map_map. cbn [fst snd].
  induction recs as [|[n s] recs IH]; [reflexivity|]. cbn [map fst snd]. rewrite IH. f_equal. f_equal.
  unfold blocks. now apply concat_blocks_go.
Qed.

Lemma fasta_w_roundtrip_faster w recs : (1 <= w)%nat ->
  (forall r, In r recs -> ok_rec r = true) -> lines_faster (fasta_write_w w recs) = recs.
Proof.
  intros Hw H. unfold fasta_write_w. fold (blocked w recs).
  rewrite fasta_roundtrip_faster by (apply blocked_ok; assumption). now apply records_of_blocked.
Qed.

Lemma fasta_w_roundtrip_strict w recs : (1 <= w)%nat -> recs <> [] ->
  (forall r, In r recs -> ok_rec r = true) -> lines_strict (fasta_write_w w recs) = POk recs.
Proof.
  intros Hw Hne H. unfold fasta_write_w. fold (blocked w recs).
  rewrite fasta_roundtrip_strict; [now rewrite records_of_blocked| |apply blocked_ok; assumption].
  unfold blocked. destruct recs; [congruence|discriminate].
Qed.

Lemma fasta_w_roundtrip_bytes w recs : (1 <= w)%nat ->
  (forall r, In r recs -> ok_rec r = true /\ no_gt (fst r) = true) -> bytes_parser (fasta_write_w w recs) = recs.
Proof.
  intros Hw H. unfold fasta_write_w. fold (blocked w recs).
  rewrite fasta_roundtrip_bytes_lemma; [now apply records_of_blocked|].
  intros r Hr. split.
  - apply (blocked_ok w recs Hw); [|exact Hr]. intros r' Hr'. now apply H.
  - unfold blocked in Hr. apply in_map_iff in Hr. destruct Hr as [r0 [<- Hr0]]. cbn [fst]. now apply H.
Qed.

Lemma fasta_w_roundtrip_bytes_fixed w recs : (1 <= w)%nat ->
  (forall r, In r recs -> ok_rec r = true) -> bytes_parser_fixed (fasta_write_w w recs) = recs.
Proof.
  intros Hw H. unfold fasta_write_w. fold (blocked w recs).
  rewrite fasta_roundtrip_bytes_fixed_lemma by (apply blocked_ok; assumption). now apply records_of_blocked.
Qed.

Lemma gde_lines_lab w recs : (forall r, In r recs -> ok_rec r = true) ->
  gde_lines w recs = lab_lines PCT (blocked w recs).
Proof.
  intros H. unfold gde_lines, lab_lines, blocked. rewrite flat_map_concat_map, flat_map_concat_map, map_map.
  f_equal. apply map_ext_in. intros [n s] Hr. cbn [fst snd]. f_equal.
  apply H in Hr. unfold ok_rec in Hr. cbn [fst snd] in Hr. apply andb_true_iff in Hr. destruct Hr as [_ Hs].
  apply ok_seq_props in Hs. destruct Hs as [Hne _]. unfold wrap_lines.
  pose proof (blocks_ne w s Hne). destruct (blocks w s); [congruence|reflexivity].
Qed.

Lemma gde_text_lines w recs : (1 <= w)%nat -> (forall r, In r recs -> ok_rec r = true) ->
  py_splitlines (gde_write w recs) = lab_lines PCT (blocked w recs).
Proof.
  intros Hw H. unfold gde_write. rewrite gde_lines_lab by exact H. apply splitlines_join.
  apply lab_lines_nobrk; [discriminate|reflexivity|apply blocked_ok; assumption].
Qed.

Lemma gde_roundtrip_strict w recs : (1 <= w)%nat -> recs <> [] ->
  (forall r, In r recs -> ok_rec r = true) ->
  strict_parser gde_lc (py_splitlines (gde_write w recs)) = POk recs.
Proof.
  intros Hw Hne H. rewrite gde_text_lines by assumption.
  rewrite (strict_lab_lines gde_lc PCT); [now rewrite records_of_blocked|reflexivity|discriminate|exact memz_res_gde| |apply blocked_ok; assumption].
  unfold blocked. destruct recs; [congruence|discriminate].
Qed.

Lemma gde_roundtrip_faster w recs : (1 <= w)%nat ->
  (forall r, In r recs -> ok_rec r = true) ->
  faster_parser gde_lc (py_splitlines (gde_write w recs)) = recs.
Proof.
  intros Hw H. rewrite gde_text_lines by assumption. unfold faster_parser.
  rewrite (faster_lab_lines gde_lc PCT); [cbn [out1 app]; now apply records_of_blocked|reflexivity|exact memz_res_gde|apply blocked_ok; assumption].
Qed.

(* ------------------------------------------------------------------ the guards are satisfiable *)

(** name "a b>c#%", lines "ACGT-" and "AC" *)
Example ok_frec_ex : ok_frec ([97; 32; 98; 62; 99; 35; 37], [[65; 67; 71; 84; 45]; [65; 67]]) = true.
Proof. reflexivity. Qed.
(** name "seq 1|x", sequence "AC-GT?N*" *)
Example ok_rec_ex : ok_rec ([115; 101; 113; 32; 49; 124; 120], [65; 67; 45; 71; 84; 63; 78; 42]) = true
                    /\ no_gt [115; 101; 113; 32; 49; 124; 120] = true.
Proof. split; reflexivity. Qed.
Example only_nl_ex : only_nl [62; 97; 10; 65; 67; 10; 10; 71] = true.
Proof. reflexivity. Qed.

(* ------------------------------------------------------------------ decimal header *)

Lemma digits_uint_digits u : digits_uint (uint_digits u) = Some u.
Proof. induction u; cbn [uint_digits digits_uint]; try rewrite IHu; reflexivity. Qed.

Lemma uint_digits_range u c : In c (uint_digits u) -> 48 <= c <= 57.
Proof. induction u; cbn [uint_digits]; intros H; try (destruct H as [<-|H]; [lia|auto]). destruct H. Qed.

Lemma to_uint_nonnil n : Nat.to_uint n <> Decimal.Nil.
Proof.
  intros E. pose proof (DecimalNat.Unsigned.to_of (Nat.to_uint n)) as H.
  rewrite DecimalNat.Unsigned.of_to in H. rewrite E in H. cbn in H. discriminate.
Qed.

Lemma dec_nonempty n : dec n <> [].
Proof.
  unfold dec. pose proof (to_uint_nonnil n). destruct (Nat.to_uint n); cbn; congruence.
Qed.

Lemma parse_nat_dec n : parse_nat (dec n) = Some n.
Proof.
  unfold parse_nat. pose proof (dec_nonempty n) as Hne. destruct (dec n) as [|c t] eqn:E; [congruence|].
  rewrite <- E. unfold dec. rewrite digits_uint_digits. now rewrite DecimalNat.Unsigned.of_to.
Qed.

Lemma dec_nospace n c : In c (dec n) -> is_space c = false.
Proof. intros H. apply uint_digits_range in H. unfold is_space. lia. Qed.

Lemma split_ws_go_word a : forall cur T, (forall c, In c a -> is_space c = false) ->
  split_ws_go cur (a ++ T) = split_ws_go (rev a ++ cur) T.
Proof.
  induction a as [|c a IH]; intros cur T H; [reflexivity|].
  cbn [app split_ws_go]. rewrite (H c) by now left.
  rewrite IH by (intros y Hy; apply H; now right). cbn [rev]. now rewrite <- app_assoc.
Qed.

Lemma split_ws_header a b : a <> [] -> b <> [] ->
  (forall c, In c a -> is_space c = false) -> (forall c, In c b -> is_space c = false) ->
  split_ws (a ++ [SP; SP] ++ b) = [a; b].
Proof.
  intros Ha Hb Hsa Hsb. unfold split_ws. rewrite split_ws_go_word by exact Hsa. rewrite app_nil_r.
  cbn [app split_ws_go is_space SP]. 
  destruct (rev a) as [|x xs] eqn:E.
  { exfalso. apply Ha. rewrite <- (rev_involutive a), E. reflexivity. }
  rewrite <- E, rev_involutive. cbn -[split_ws_go]. cbn [split_ws_go]. 
  rewrite <- (app_nil_r b) at 1. rewrite split_ws_go_word by exact Hsb. rewrite app_nil_r. cbn [split_ws_go].
  destruct (rev b) as [|y ys] eqn:E2.
  { exfalso. apply Hb. rewrite <- (rev_involutive b), E2. reflexivity. }
  rewrite <- E2, rev_involutive. reflexivity.
Qed.

Lemma header_tokens recs : split_ws (header_line recs) = [dec (length recs); dec (align_length recs)].
Proof.
  unfold header_line. apply split_ws_header; try apply dec_nonempty; apply dec_nospace.
Qed.

Lemma header_nobrk recs c : In c (header_line recs) -> is_brk c = false.
Proof.
  unfold header_line. intros H.
  assert (Hs : is_space c = false \/ c = SP).
  { apply in_app_or in H. destruct H as [H|H]; [left; eapply dec_nospace; exact H|].
    apply in_app_or in H. destruct H as [[<-|[<-|[]]]|H]; [now right|now right|left; eapply dec_nospace; exact H]. }
  destruct Hs as [Hs| ->]; [|reflexivity].
  destruct (is_brk c) eqn:E; [apply brk_is_space in E; congruence|reflexivity].
Qed.

(* ------------------------------------------------------------------ PAML *)

Lemma ascii_upper_ok s : (forall c, In c s -> ok_res c = true) -> ascii_upper s = s.
Proof.
  induction s as [|c s IH]; intros H; [reflexivity|]. cbn [ascii_upper map].
  assert (Hc : ok_res c = true) by (apply H; now left). apply ok_res_props in Hc.
  destruct Hc as [_ [_ [_ [_ [_ [Hu _]]]]]]. rewrite Hu. f_equal. apply IH. intros y Hy. apply H. now right.
Qed.

Lemma paml_blocks m N nm k rest bs : forall cur cur_len,
  bs <> [] -> (forall l, In l bs -> ok_line l = true) ->
  (cur_len + length (concat bs) = m)%nat ->
  paml_go m N (Some nm) cur cur_len k (bs ++ rest)
  = pcons (nm, ascii_upper (concat (cur ++ bs))) (paml_go m N None [] 0 (S k) rest).
Proof.
  induction bs as [|b bs IH]; intros cur cur_len Hne Hok Hlen; [congruence|].
  assert (Hb : ok_line b = true) by (apply Hok; now left).
  apply ok_line_props in Hb. destruct Hb as [Hbne [_ [Hstrip _]]].
  cbn [app paml_go]. rewrite Hstrip. destruct b as [|c0 b0]; [congruence|]. set (b := c0 :: b0) in *.
  cbn [concat] in Hlen. rewrite app_length in Hlen.
  destruct bs as [|b' bs'].
  - cbn [concat length] in Hlen. replace (cur_len + length b)%nat with m by lia.
    rewrite Nat.eqb_refl. cbn [app]. reflexivity.
  - assert (Hb' : ok_line b' = true) by (apply Hok; right; now left).
    apply ok_line_props in Hb'. destruct Hb' as [Hb'ne _].
    assert (Hpos : (1 <= length (concat (b' :: bs')))%nat).
    { cbn [concat]. rewrite app_length. destruct b'; [congruence|cbn; lia]. }
    destruct (Nat.eqb_spec (cur_len + length b) m) as [E|_]; [lia|].
    rewrite IH; [| discriminate | intros l Hl; apply Hok; now right | lia].
    rewrite <- app_assoc. reflexivity.
Qed.

Definition paml_rec_lines (w : nat) (r : rec) : list str := fst r :: wrap_lines w (snd r).

Lemma paml_go_recs w m N : (1 <= w)%nat -> forall recs k,
  (forall r, In r recs -> ok_arec m r = true) -> (k + length recs = N)%nat ->
  paml_go m N None [] 0 k (flat_map (paml_rec_lines w) recs) = POk recs.
Proof.
  intros Hw. induction recs as [|[n s] recs IH]; intros k H Hk.
  - cbn in *. replace k with N by lia. now rewrite Nat.eqb_refl.
  - assert (Hr : ok_arec m (n, s) = true) by (apply H; now left).
    unfold ok_arec, ok_rec in Hr. cbn [fst snd] in Hr.
    apply andb_true_iff in Hr. destruct Hr as [Hr Hlen].
    apply andb_true_iff in Hr. destruct Hr as [Hr Hnne].
    apply andb_true_iff in Hr. destruct Hr as [Hn Hs].
    unfold ok_name in Hn. apply andb_true_iff in Hn. destruct Hn as [_ Hends].
    apply ends_ok_strip in Hends. destruct Hends as [Hstrip _].
    apply ok_seq_props in Hs. destruct Hs as [Hsne Hall].
    apply Nat.eqb_eq in Hlen.
    cbn [flat_map paml_rec_lines fst snd app]. cbn [paml_go]. rewrite Hstrip.
    destruct n as [|c0 n0]; [discriminate|]. set (n := c0 :: n0) in *.
    unfold wrap_lines. pose proof (blocks_ne w s Hsne) as Hbne.
    destruct (blocks w s) as [|b0 bs0] eqn:E; [congruence|]. rewrite <- E.
    assert (Hcat : concat (blocks w s) = s) by (unfold blocks; now apply concat_blocks_go).
    rewrite paml_blocks.
    + cbn [app]. rewrite Hcat, ascii_upper_ok by exact Hall.
      rewrite IH; [reflexivity| intros r Hr; apply H; now right | cbn [length] in Hk; lia].
    + rewrite E. discriminate.
    + intros l Hl. unfold blocks in Hl. eapply blocks_go_ok; [exact Hw|exact Hall|exact Hl].
    + rewrite Hcat. lia.
Qed.

Lemma paml_lines_nobrk w recs m : (1 <= w)%nat -> (forall r, In r recs -> ok_arec m r = true) ->
  forall l, In l (paml_lines w recs) -> forall c, In c l -> is_brk c = false.
Proof.
  intros Hw H l Hl c Hc. unfold paml_lines in Hl. destruct Hl as [<-|Hl]; [eapply header_nobrk; exact Hc|].
  apply in_flat_map in Hl. destruct Hl as [[n s] [Hr Hl]]. apply H in Hr.
  unfold ok_arec, ok_rec, ok_name in Hr. cbn [fst snd] in *.
  apply andb_true_iff in Hr. destruct Hr as [Hr _]. apply andb_true_iff in Hr. destruct Hr as [Hr _].
  apply andb_true_iff in Hr. destruct Hr as [Hn Hs]. apply andb_true_iff in Hn. destruct Hn as [Hnb _].
  apply ok_seq_props in Hs. destruct Hs as [Hsne Hall].
  destruct Hl as [<-|Hl].
  - pose proof (forallb_In _ _ Hnb c Hc) as Hx. cbn in Hx. destruct (is_brk c); [discriminate|reflexivity].
  - unfold wrap_lines in Hl. pose proof (blocks_ne w s Hsne). destruct (blocks w s) as [|b0 bs0] eqn:E; [congruence|].
    rewrite <- E in Hl. unfold blocks in Hl.
    assert (Hok : ok_line l = true) by (eapply blocks_go_ok; [exact Hw|exact Hall|exact Hl]).
    apply ok_line_props in Hok. destruct Hok as [_ [Hall' _]]. apply Hall' in Hc. now apply ok_res_props in Hc.
Qed.

Lemma paml_roundtrip_lemma w recs : (1 <= w)%nat -> recs <> [] ->
  (forall r, In r recs -> ok_arec (align_length recs) r = true) ->
  paml_parser (py_splitlines (paml_write w recs)) = POk recs.
Proof.
  intros Hw Hne H. unfold paml_write. rewrite splitlines_join by (eapply paml_lines_nobrk; eassumption).
  unfold paml_lines, paml_parser. rewrite header_tokens, !parse_nat_dec.
  apply paml_go_recs; [exact Hw|exact H|reflexivity].
Qed.

(* ------------------------------------------------------------------ PHYLIP *)

Definition sp10 : str := repeat SP 10.

Definition add_prefix (first : bool) (n : str) (bs : list str) : list str :=
  match bs with
  | [] => []
  | b :: bs' => ((if first then pad10 n else sp10) ++ b) :: map (app sp10) bs'
  end.

Lemma add_prefix_false n bs : add_prefix false n bs = map (app sp10) bs.
Proof. destruct bs; reflexivity. Qed.

Lemma skipn_skipn' {A} (x y : nat) (l : list A) : skipn x (skipn y l) = skipn (y + x) l.
Proof.
  revert l; induction y as [|y IH]; intros l; [reflexivity|].
  destruct l as [|a l]; [now rewrite !skipn_nil|]. cbn [skipn Nat.add]. apply IH.
Qed.

Lemma phylip_rec_go_blocks w n alen s : length s = alen -> (1 <= w)%nat ->
  forall fuel off first,
  phylip_rec_go fuel w first n off alen s = add_prefix first n (blocks_go fuel w (skipn off s)).
Proof.
  intros Hlen Hw. induction fuel as [|f IH]; intros off first; [reflexivity|].
  cbn [phylip_rec_go blocks_go].
  destruct (Nat.ltb_spec off alen) as [Hlt|Hge].
  - assert (Hl' : length (skipn off s) = (alen - off)%nat) by (rewrite skipn_length; lia).
    destruct (skipn off s) as [|c t] eqn:E; [cbn in Hl'; lia|]. rewrite <- E.
    rewrite IH. rewrite add_prefix_false. rewrite skipn_skipn'.
    unfold add_prefix. f_equal. f_equal. fold sp10.
    destruct (Nat.ltb_spec alen (off + w)) as [H1|H1].
    + rewrite !firstn_all2 by (rewrite skipn_length; lia). reflexivity.
    + f_equal. lia.
  - rewrite skipn_all2 by lia. reflexivity.
Qed.

Lemma pad10_length n : length (pad10 n) = 10%nat.
Proof.
  unfold pad10. rewrite app_length, repeat_length. pose proof (firstn_le_length 9 n). lia.
Qed.

Lemma lstrip_all f a X : (forall c, In c a -> f c = true) -> lstrip_by f (a ++ X) = lstrip_by f X.
Proof.
  induction a as [|c a IH]; intros H; [reflexivity|]. cbn [app lstrip_by]. rewrite (H c) by now left.
  apply IH. intros y Hy. apply H. now right.
Qed.

Lemma strip_padded n9 k : n9 <> [] -> ends_ok n9 = true -> strip (n9 ++ repeat SP k) = n9.
Proof.
  intros Hne He. unfold ends_ok in He. apply andb_true_iff in He. destruct He as [H1 H2].
  unfold strip, strip_by, rstrip_by.
  destruct n9 as [|c t]; [congruence|].
  rewrite (lstrip_id is_space ((c :: t) ++ repeat SP k)).
  2:{ cbn. destruct (is_space c); [discriminate|reflexivity]. }
  rewrite rev_app_distr. rewrite lstrip_all.
  2:{ intros x Hx. apply in_rev in Hx. apply repeat_spec in Hx. subst x. reflexivity. }
  rewrite lstrip_id; [apply rev_involutive|].
  destruct (rev (c :: t)) as [|x xs]; [exact I|]. destruct (is_space x); [discriminate|reflexivity].
Qed.

Lemma ok_line_first b : ok_line b = true -> exists c t, b = c :: t /\ is_space c = false.
Proof.
  intros H. apply ok_line_props in H. destruct H as [Hne [Hall _]].
  destruct b as [|c t]; [congruence|]. exists c, t. split; [reflexivity|].
  assert (Hc : ok_res c = true) by (apply Hall; now left). now apply ok_res_props in Hc.
Qed.

Lemma filter_sp_ok b : ok_line b = true -> filter (fun c => negb (c =? SP)) b = b.
Proof.
  intros H. apply ok_line_props in H. destruct H as [_ [Hall _]].
  apply forallb_filter_id. apply forallb_forall. intros x Hx. apply Hall in Hx. apply ok_res_props in Hx.
  destruct Hx as [Hs _]. unfold is_space, SP in *. lia.
Qed.

Lemma split_first_line n b :
  n <> [] -> ok_name (phylip_name n) = true -> ok_line b = true ->
  phylip_split_line (pad10 n ++ b) = (phylip_name n, b).
Proof.
  intros Hn Hok Hb. unfold phylip_split_line.
  unfold ok_name in Hok. apply andb_true_iff in Hok. destruct Hok as [_ He].
  assert (Hne9 : phylip_name n <> []) by (unfold phylip_name; destruct n; [congruence|discriminate]).
  assert (Hfirst : all_space (pad10 n ++ b) = false).
  { unfold all_space, pad10. fold (phylip_name n). destruct (phylip_name n) as [|c t] eqn:E; [congruence|].
    unfold ends_ok in He. apply andb_true_iff in He. destruct He as [H1 _].
    cbn [app forallb]. destruct (is_space c); [discriminate|reflexivity]. }
  rewrite Hfirst.
  rewrite firstn_app, skipn_app, pad10_length. rewrite firstn_all2 by (rewrite pad10_length; lia).
  rewrite skipn_all2 by (rewrite pad10_length; lia).
  cbn [Nat.sub firstn skipn app]. rewrite app_nil_r.
  unfold pad10. fold (phylip_name n). rewrite strip_padded by assumption.
  pose proof (ok_line_props b Hb) as [_ [_ [Hs _]]]. rewrite Hs. now rewrite filter_sp_ok.
Qed.

Lemma split_cont_line b : ok_line b = true -> phylip_split_line (sp10 ++ b) = ([], b).
Proof.
  intros Hb. unfold phylip_split_line.
  destruct (ok_line_first b Hb) as [c [t [-> Hc]]].
  assert (Hfirst : all_space (sp10 ++ c :: t) = false).
  { unfold all_space. rewrite forallb_app. cbn [forallb]. rewrite Hc. now rewrite andb_false_r. }
  rewrite Hfirst.
  change (firstn 10 (sp10 ++ c :: t)) with sp10. change (skipn 10 (sp10 ++ c :: t)) with (c :: t).
  change (strip sp10) with (@nil Z).
  pose proof (ok_line_props _ Hb) as [_ [_ [Hs _]]]. rewrite Hs. now rewrite filter_sp_ok.
Qed.

Lemma phylip_cont_lines bs : forall i parts rest,
  (forall l, In l bs -> ok_line l = true) ->
  phylip_seq_go (Some (i, parts)) (map (app sp10) bs ++ rest) = phylip_seq_go (Some (i, parts ++ bs)) rest.
Proof.
  induction bs as [|b bs IH]; intros i parts rest H; [now rewrite app_nil_r|].
  assert (Hb : ok_line b = true) by (apply H; now left).
  cbn [map app phylip_seq_go]. rewrite split_cont_line by exact Hb.
  destruct (ok_line_first b Hb) as [c [t [-> _]]].
  rewrite IH by (intros l Hl; apply H; now right). now rewrite <- app_assoc.
Qed.

Definition pre (cache : option (str * list str)) (p : pres) : pres :=
  match cache_out cache with [] => p | r :: _ => pcons r p end.

Lemma phylip_one_record cache n b bs rest :
  n <> [] -> ok_name (phylip_name n) = true -> (forall l, In l (b :: bs) -> ok_line l = true) ->
  phylip_seq_go cache (add_prefix true n (b :: bs) ++ rest)
  = pre cache (phylip_seq_go (Some (phylip_name n, b :: bs)) rest).
Proof.
  intros Hn Hok H. cbn [add_prefix app phylip_seq_go].
  rewrite split_first_line; [|exact Hn|exact Hok|apply H; now left].
  assert (Hne9 : phylip_name n <> []) by (unfold phylip_name; destruct n; [congruence|discriminate]).
  destruct (phylip_name n) as [|c9 t9] eqn:E9; [congruence|].
  rewrite phylip_cont_lines by (intros l Hl; apply H; now right).
  unfold pre. cbn [app]. destruct (cache_out cache); reflexivity.
Qed.

Definition phylip_blocks (w alen : nat) (s : str) : list str := blocks_go (S alen) w s.

Lemma phylip_rec_lines_blocks w alen n s : length s = alen -> (1 <= w)%nat ->
  phylip_rec_lines w alen (n, s) = add_prefix true n (phylip_blocks w alen s).
Proof.
  intros Hl Hw. unfold phylip_rec_lines, phylip_blocks. cbn [fst snd].
  rewrite (phylip_rec_go_blocks w n alen s Hl Hw). reflexivity.
Qed.

Lemma ok_prec_props m n s : ok_prec m (n, s) = true ->
  n <> [] /\ ok_name n = true /\ ok_name (phylip_name n) = true /\ s <> [] /\ length s = m /\ (forall c, In c s -> ok_res c = true).
Proof.
  unfold ok_prec, ok_arec, ok_rec. cbn [fst snd]. intros H.
  apply andb_true_iff in H. destruct H as [H H9].
  apply andb_true_iff in H. destruct H as [H Hlen].
  apply andb_true_iff in H. destruct H as [H Hnne].
  apply andb_true_iff in H. destruct H as [Hn Hs].
  apply ok_seq_props in Hs. destruct Hs as [Hsne Hall]. apply Nat.eqb_eq in Hlen.
  repeat split; try assumption. destruct n; [discriminate|discriminate].
Qed.

Lemma phylip_seq_recs w m : (1 <= w)%nat -> forall recs cache,
  (forall r, In r recs -> ok_prec m r = true) ->
  phylip_seq_go cache (flat_map (phylip_rec_lines w m) recs) = POk (cache_out cache ++ phylip_expected recs).
Proof.
  intros Hw. induction recs as [|[n s] recs IH]; intros cache H.
  - cbn. now rewrite app_nil_r.
  - assert (Hr : ok_prec m (n, s) = true) by (apply H; now left).
    apply ok_prec_props in Hr. destruct Hr as [Hn [_ [H9 [Hsne [Hlen Hall]]]]].
    cbn [flat_map]. rewrite phylip_rec_lines_blocks by assumption.
    assert (Hcat : concat (phylip_blocks w m s) = s) by (unfold phylip_blocks; apply concat_blocks_go; lia).
    assert (Hok : forall l, In l (phylip_blocks w m s) -> ok_line l = true).
    { intros l Hl. unfold phylip_blocks in Hl. eapply blocks_go_ok; [exact Hw|exact Hall|exact Hl]. }
    destruct (phylip_blocks w m s) as [|b bs] eqn:E.
    { cbn in Hcat. congruence. }
    rewrite phylip_one_record by assumption.
    rewrite IH by (intros r Hr; apply H; now right).
    unfold pre. cbn [cache_out phylip_expected map fst snd app]. rewrite Hcat.
    destruct (cache_out cache) as [|r0 rs0] eqn:Ec.
    + reflexivity.
    + destruct cache as [[ci cp]|]; cbn in Ec; [|discriminate]. injection Ec as <- <-. reflexivity.
Qed.

Lemma pad10_chars n c : In c (pad10 n) -> In c n \/ c = SP.
Proof.
  unfold pad10. intros H. apply in_app_or in H. destruct H as [H|H].
  - left. eapply In_firstn. exact H.
  - right. now apply repeat_spec in H.
Qed.

Lemma phylip_lines_nobrk w recs m : (1 <= w)%nat -> (forall r, In r recs -> ok_prec m r = true) ->
  forall l, In l (header_line recs :: flat_map (phylip_rec_lines w m) recs) -> forall c, In c l -> is_brk c = false.
Proof.
  intros Hw H l Hl c Hc. destruct Hl as [<-|Hl]; [eapply header_nobrk; exact Hc|].
  apply in_flat_map in Hl. destruct Hl as [[n s] [Hr Hl]]. apply H in Hr.
  apply ok_prec_props in Hr. destruct Hr as [Hn [Hokn [_ [Hsne [Hlen Hall]]]]].
  rewrite phylip_rec_lines_blocks in Hl by assumption.
  assert (Hok : forall l, In l (phylip_blocks w m s) -> ok_line l = true).
  { intros l' Hl'. unfold phylip_blocks in Hl'. eapply blocks_go_ok; [exact Hw|exact Hall|exact Hl']. }
  assert (Hnb : forall x, In x n -> is_brk x = false).
  { unfold ok_name in Hokn. apply andb_true_iff in Hokn. destruct Hokn as [Hb _].
    intros x Hx. pose proof (forallb_In _ _ Hb x Hx) as Hy. cbn in Hy. destruct (is_brk x); [discriminate|reflexivity]. }
  assert (Hres : forall b, ok_line b = true -> forall x, In x b -> is_brk x = false).
  { intros b Hb x Hx. apply ok_line_props in Hb. destruct Hb as [_ [Hall' _]]. apply Hall' in Hx. now apply ok_res_props in Hx. }
  destruct (phylip_blocks w m s) as [|b bs]; [destruct Hl|].
  cbn [add_prefix] in Hl. destruct Hl as [<-|Hl].
  - apply in_app_or in Hc. destruct Hc as [Hc|Hc].
    + apply pad10_chars in Hc. destruct Hc as [Hc| ->]; [now apply Hnb|reflexivity].
    + apply (Hres b); [apply Hok; now left|exact Hc].
  - apply in_map_iff in Hl. destruct Hl as [b' [<- Hb']]. apply in_app_or in Hc. destruct Hc as [Hc|Hc].
    + apply repeat_spec in Hc. subst c. reflexivity.
    + apply (Hres b'); [apply Hok; now right|exact Hc].
Qed.

Lemma phylip_roundtrip_lemma w recs : (1 <= w)%nat -> recs <> [] ->
  (forall r, In r recs -> ok_prec (align_length recs) r = true) ->
  phylip_parser (py_splitlines (phylip_write w recs)) = Some (POk (phylip_expected recs)).
Proof.
  intros Hw Hne H. unfold phylip_write, phylip_lines.
  rewrite splitlines_join by (eapply phylip_lines_nobrk; eassumption).
  unfold phylip_parser, phylip_header. rewrite header_tokens, !parse_nat_dec.
  destruct recs as [|[n0 s0] recs']; [congruence|].
  assert (Hr0 : ok_prec (align_length ((n0, s0) :: recs')) (n0, s0) = true) by (apply H; now left).
  apply ok_prec_props in Hr0. destruct Hr0 as [_ [_ [_ [Hsne [Hlen _]]]]].
  cbn [length Nat.eqb orb]. cbn [align_length snd] in *.
  destruct s0 as [|c0 t0]; [congruence|]. cbn [length Nat.eqb].
  f_equal. change (S (length t0)) with (length (c0 :: t0)).
  exact (phylip_seq_recs w (length (c0 :: t0)) Hw ((n0, c0 :: t0) :: recs') None H).
Qed.

(** an alignment with a 10-character name ("abcdefghij" -> "abcdefghi") and a name with an inner blank *)
Example ok_prec_ex :
  let recs := [([97;98;99;100;101;102;103;104;105;106], [65;67;45;84]); ([97;32;98], [65;67;71;84])] in
  forallb (ok_prec (align_length recs)) recs = true /\ forallb (ok_arec (align_length recs)) recs = true.
Proof. split; reflexivity. Qed.

(* ------------------------------------------------------------------ strict = non-strict; streaming composed with parsing *)

Lemma fasta_strict_eq_faster recs :
  recs <> [] -> (forall r, In r recs -> ok_frec r = true) ->
  lines_strict (fasta_write recs) = POk (lines_faster (fasta_write recs)).
Proof. intros Hne H. rewrite fasta_roundtrip_strict by assumption. now rewrite fasta_roundtrip_faster. Qed.

Lemma gde_strict_eq_faster w recs : (1 <= w)%nat -> recs <> [] ->
  (forall r, In r recs -> ok_rec r = true) ->
  strict_parser gde_lc (py_splitlines (gde_write w recs)) = POk (faster_parser gde_lc (py_splitlines (gde_write w recs))).
Proof. intros Hw Hne H. rewrite gde_roundtrip_strict by assumption. now rewrite gde_roundtrip_faster. Qed.

Lemma join_lines_only_nl ls :
  (forall l, In l ls -> forall c, In c l -> is_brk c = false) -> only_nl (join_lines ls) = true.
Proof.
  intros H. unfold only_nl. apply forallb_forall. intros c Hc.
  unfold join_lines in Hc. apply in_flat_map in Hc. destruct Hc as [l [Hl Hc]].
  apply in_app_or in Hc. destruct Hc as [Hc|[<-|[]]].
  - rewrite (H l Hl c Hc). reflexivity.
  - reflexivity.
Qed.

(** what LineBasedParser does with a path: the parser applied to iter_splitlines, for ANY chunking of the file *)
Lemma gde_stream_roundtrip w recs chunks : (1 <= w)%nat -> recs <> [] ->
  (forall r, In r recs -> ok_rec r = true) ->
  concat chunks = gde_write w recs ->
  strict_parser gde_lc (iter_splitlines chunks) = POk recs.
Proof.
  intros Hw Hne H Hc. rewrite iter_splitlines_spec.
  - rewrite Hc. now apply gde_roundtrip_strict.
  - rewrite Hc. unfold gde_write. rewrite gde_lines_lab by exact H. apply join_lines_only_nl.
    apply lab_lines_nobrk; [discriminate|reflexivity|apply blocked_ok; assumption].
Qed.

Lemma paml_stream_roundtrip w recs chunks : (1 <= w)%nat -> recs <> [] ->
  (forall r, In r recs -> ok_arec (align_length recs) r = true) ->
  concat chunks = paml_write w recs ->
  paml_parser (iter_splitlines chunks) = POk recs.
Proof.
  intros Hw Hne H Hc. rewrite iter_splitlines_spec.
  - rewrite Hc. now apply paml_roundtrip_lemma.
  - rewrite Hc. unfold paml_write. apply join_lines_only_nl. eapply paml_lines_nobrk; eassumption.
Qed.

Lemma phylip_stream_roundtrip w recs chunks : (1 <= w)%nat -> recs <> [] ->
  (forall r, In r recs -> ok_prec (align_length recs) r = true) ->
  concat chunks = phylip_write w recs ->
  phylip_parser (iter_splitlines chunks) = Some (POk (phylip_expected recs)).
Proof.
  intros Hw Hne H Hc. rewrite iter_splitlines_spec.
  - rewrite Hc. now apply phylip_roundtrip_lemma.
  - rewrite Hc. unfold phylip_write, phylip_lines. apply join_lines_only_nl. eapply phylip_lines_nobrk; eassumption.
Qed.

(** every chunk size *)
Lemma gde_chunksize_roundtrip n w recs : (1 <= n)%nat -> (1 <= w)%nat -> recs <> [] ->
  (forall r, In r recs -> ok_rec r = true) ->
  strict_parser gde_lc (iter_splitlines (chunks_of n (gde_write w recs))) = POk recs.
Proof. intros Hn Hw Hne H. apply (gde_stream_roundtrip w); try assumption. now apply concat_chunks_of. Qed.

Lemma paml_chunksize_roundtrip n w recs : (1 <= n)%nat -> (1 <= w)%nat -> recs <> [] ->
  (forall r, In r recs -> ok_arec (align_length recs) r = true) ->
  paml_parser (iter_splitlines (chunks_of n (paml_write w recs))) = POk recs.
Proof. intros Hn Hw Hne H. apply (paml_stream_roundtrip w); try assumption. now apply concat_chunks_of. Qed.

Lemma phylip_chunksize_roundtrip n w recs : (1 <= n)%nat -> (1 <= w)%nat -> recs <> [] ->
  (forall r, In r recs -> ok_prec (align_length recs) r = true) ->
  phylip_parser (iter_splitlines (chunks_of n (phylip_write w recs))) = Some (POk (phylip_expected recs)).
Proof. intros Hn Hw Hne H. apply (phylip_stream_roundtrip w); try assumption. now apply concat_chunks_of. Qed.

(* ------------------------------------------------------------------ parser agreement on well-formed FASTA text in general *)

Lemma plain_props c : plain c = true ->
  is_brk c = false /\ c <> NL /\ is_space c = is_bspace c /\
  negb ((c =? 10) || (c =? 13) || (c =? 9) || (c =? 32)) = negb (is_space c).
Proof.
  unfold plain. intros H.
  assert (Hb : is_brk c = false) by (destruct (is_brk c); [rewrite !andb_false_r in H; cbn in H; lia|reflexivity]).
  split; [exact Hb|]. unfold is_brk, is_space, is_bspace, NL in *. repeat split; lia.
Qed.

Lemma filter_lstrip f s : filter (fun c => negb (f c)) (lstrip_by f s) = filter (fun c => negb (f c)) s.
Proof.
  induction s as [|c s IH]; [reflexivity|]. cbn [lstrip_by]. destruct (f c) eqn:E; [|reflexivity].
  cbn [filter]. rewrite E. cbn [negb]. exact IH.
Qed.

Lemma filter_rev' {A} (g : A -> bool) (l : list A) : filter g (rev l) = rev (filter g l).
Proof.
  induction l as [|x l IH]; [reflexivity|]. cbn [rev filter]. rewrite filter_app, IH. cbn [filter].
  destruct (g x); cbn [rev]; [reflexivity|now rewrite app_nil_r].
Qed.

Lemma remove_ws_strip l : remove_ws (strip l) = remove_ws l.
Proof.
  unfold remove_ws, strip, strip_by, rstrip_by.
  rewrite filter_rev', filter_lstrip, <- filter_rev', rev_involutive. apply filter_lstrip.
Qed.

Lemma remove_ws_app a b : remove_ws (a ++ b) = remove_ws a ++ remove_ws b.
Proof. unfold remove_ws. apply filter_app. Qed.

Lemma remove_ws_concat_strip ls :
  remove_ws (concat (map strip (filter nonempty ls))) = remove_ws (concat ls).
Proof.
  induction ls as [|l ls IH]; [reflexivity|]. cbn [filter concat]. rewrite remove_ws_app.
  destruct l as [|c t]; cbn [nonempty].
  - cbn. exact IH.
  - cbn [map concat]. rewrite remove_ws_app, remove_ws_strip, IH. reflexivity.
Qed.

Lemma existsb_filter_ne {A} (f : A -> bool) l : existsb f l = true -> filter f l <> [].
Proof.
  induction l as [|x l IH]; cbn; [discriminate|]. destruct (f x); [discriminate|]. cbn. exact IH.
Qed.

Lemma wf_line_props l : wf_line l = true ->
  (forall c, In c l -> plain c = true) /\ (forall c, In c l -> ascii_upper_ch c = c) /\
  match l with c :: _ => c <> GT /\ c <> HASH | [] => True end.
Proof.
  unfold wf_line. intros H. apply andb_true_iff in H. destruct H as [H H3].
  apply andb_true_iff in H. destruct H as [H1 H2].
  split; [apply forallb_In; exact H1|]. split.
  - intros c Hc. pose proof (forallb_In _ _ H2 c Hc) as Hx. cbn in Hx. lia.
  - destruct l as [|c t]; [exact I|]. unfold GT, HASH in *. lia.
Qed.

Lemma wf_frec_props n ls : wf_frec (n, ls) = true ->
  (forall c, In c n -> plain c = true) /\ (forall l, In l ls -> wf_line l = true) /\ filter nonempty ls <> [].
Proof.
  unfold wf_frec. cbn [fst snd]. intros H. apply andb_true_iff in H. destruct H as [H H3].
  apply andb_true_iff in H. destruct H as [H1 H2].
  split; [apply forallb_In; exact H1|]. split; [apply forallb_In; exact H2|]. now apply existsb_filter_ne.
Qed.

Lemma faster_seq_gen ls : forall acc lab rest,
  (forall l, In l ls -> wf_line l = true) ->
  faster_go fasta_lc lab acc (ls ++ rest) = faster_go fasta_lc lab (acc ++ map strip (filter nonempty ls)) rest.
Proof.
  induction ls as [|l ls IH]; intros acc lab rest H; [cbn; now rewrite app_nil_r|].
  assert (Hl : wf_line l = true) by (apply H; now left). apply wf_line_props in Hl. destruct Hl as [_ [_ Hf]].
  destruct l as [|c t].
  - cbn [app faster_go filter nonempty]. apply IH. intros l Hl. apply H. now right.
  - destruct Hf as [Hg _].
    assert (Hm : memz c fasta_lc = false).
    { unfold fasta_lc, memz. cbn [existsb]. destruct (Z.eqb_spec c GT) as [E|_]; [congruence|reflexivity]. }
    cbn [app faster_go filter nonempty map]. rewrite Hm.
    rewrite IH by (intros l Hl; apply H; now right). now rewrite <- app_assoc.
Qed.

Lemma map_strip_ne l : l <> [] -> map strip l <> [].
Proof. destruct l; [congruence|discriminate]. Qed.

Lemma faster_gen recs : forall lab acc,
  (forall r, In r recs -> wf_frec r = true) ->
  faster_go fasta_lc lab acc (fasta_lines recs) = out1 lab acc ++ gen_records recs.
Proof.
  induction recs as [|[n ls] recs IH]; intros lab acc H.
  - cbn. unfold out1. destruct acc; now rewrite ?app_nil_r.
  - assert (Hr : wf_frec (n, ls) = true) by (apply H; now left).
    apply wf_frec_props in Hr. destruct Hr as [_ [Hls Hne]].
    cbn [fasta_lines flat_map fst snd app]. fold (fasta_lines recs).
    cbn [faster_go]. change (memz GT fasta_lc) with true. cbv iota.
    rewrite faster_seq_gen by exact Hls. cbn [app].
    rewrite IH by (intros r Hr'; apply H; now right).
    f_equal. unfold out1, gen_records. cbn [map fst snd lbl_or_empty].
    pose proof (map_strip_ne _ Hne) as Hm.
    destruct (map strip (filter nonempty ls)) as [|x xs] eqn:E; [congruence|].
    rewrite <- E, remove_ws_concat_strip. reflexivity.
Qed.

Lemma strict_seq_gen ls : forall acc lab rest,
  (forall l, In l ls -> wf_line l = true) ->
  strict_go fasta_lc lab acc (ls ++ rest) = strict_go fasta_lc lab (acc ++ map strip (filter nonempty ls)) rest.
Proof.
  induction ls as [|l ls IH]; intros acc lab rest H; [cbn; now rewrite app_nil_r|].
  assert (Hl : wf_line l = true) by (apply H; now left). apply wf_line_props in Hl. destruct Hl as [_ [_ Hf]].
  destruct l as [|c t].
  - cbn [app strict_go filter nonempty]. apply IH. intros l Hl. apply H. now right.
  - destruct Hf as [Hg Hh].
    assert (Hm : memz c fasta_lc = false).
    { unfold fasta_lc, memz. cbn [existsb]. destruct (Z.eqb_spec c GT) as [E|_]; [congruence|reflexivity]. }
    cbn [app strict_go filter nonempty map]. rewrite Hm.
    destruct (Z.eqb_spec c HASH) as [E|_]; [congruence|].
    rewrite IH by (intros l Hl; apply H; now right). now rewrite <- app_assoc.
Qed.

Lemma strict_gen_some recs : forall l acc,
  acc <> [] ->
  (forall r, In r recs -> wf_frec r = true) ->
  strict_go fasta_lc (Some l) acc (fasta_lines recs) = POk ((l, remove_ws (concat acc)) :: gen_records recs).
Proof.
  induction recs as [|[n ls] recs IH]; intros l acc Hacc H.
  - cbn. destruct acc; [congruence|reflexivity].
  - assert (Hr : wf_frec (n, ls) = true) by (apply H; now left).
    apply wf_frec_props in Hr. destruct Hr as [_ [Hls Hne]].
    cbn [fasta_lines flat_map fst snd app]. fold (fasta_lines recs).
    cbn [strict_go]. change (GT =? HASH) with false. change (memz GT fasta_lc) with true. cbv iota.
    destruct acc as [|a acc']; [congruence|].
    rewrite strict_seq_gen by exact Hls. cbn [app].
    rewrite IH; [| now apply map_strip_ne | intros r Hr'; apply H; now right].
    cbn [pcons gen_records map fst snd]. rewrite remove_ws_concat_strip. reflexivity.
Qed.

Lemma strict_gen recs :
  recs <> [] -> (forall r, In r recs -> wf_frec r = true) ->
  strict_parser fasta_lc (fasta_lines recs) = POk (gen_records recs).
Proof.
  destruct recs as [|[n ls] recs]; intros Hne0 H; [congruence|].
  assert (Hr : wf_frec (n, ls) = true) by (apply H; now left).
  apply wf_frec_props in Hr. destruct Hr as [_ [Hls Hne]].
  unfold strict_parser. cbn [fasta_lines flat_map fst snd app]. fold (fasta_lines recs).
  cbn [strict_go]. change (GT =? HASH) with false. change (memz GT fasta_lc) with true. cbv iota.
  rewrite strict_seq_gen by exact Hls. cbn [app].
  rewrite strict_gen_some; [| now apply map_strip_ne | intros r Hr'; apply H; now right].
  cbn [gen_records map fst snd]. rewrite remove_ws_concat_strip. reflexivity.
Qed.

Lemma fasta_lines_nobrk_gen recs : (forall r, In r recs -> wf_frec r = true) ->
  forall l, In l (fasta_lines recs) -> forall c, In c l -> is_brk c = false.
Proof.
  intros H l Hl c Hc. unfold fasta_lines in Hl. apply in_flat_map in Hl.
  destruct Hl as [[n ls] [Hr Hl]]. apply H in Hr. apply wf_frec_props in Hr. destruct Hr as [Hn [Hls _]].
  cbn [fst snd] in Hl. destruct Hl as [<-|Hl].
  - destruct Hc as [<-|Hc]; [reflexivity|]. apply Hn in Hc. now apply plain_props in Hc.
  - apply Hls in Hl. apply wf_line_props in Hl. destruct Hl as [Hp _]. apply Hp in Hc. now apply plain_props in Hc.
Qed.

Lemma lines_faster_gen recs : (forall r, In r recs -> wf_frec r = true) ->
  lines_faster (fasta_write recs) = gen_records recs.
Proof.
  intros H. unfold lines_faster, fasta_write. rewrite splitlines_join by (apply fasta_lines_nobrk_gen; exact H).
  unfold faster_parser. rewrite faster_gen by exact H. reflexivity.
Qed.

Lemma lines_strict_gen recs : recs <> [] -> (forall r, In r recs -> wf_frec r = true) ->
  lines_strict (fasta_write recs) = POk (gen_records recs).
Proof.
  intros Hne H. unfold lines_strict, fasta_write. rewrite splitlines_join by (apply fasta_lines_nobrk_gen; exact H).
  now apply strict_gen.
Qed.

(** bytes side *)
Lemma lstrip_In f s c : In c (lstrip_by f s) -> In c s.
Proof.
  induction s as [|x s IH]; [intros []|]. cbn [lstrip_by]. destruct (f x); [|auto]. intros H. right. auto.
Qed.

Lemma lstrip_ext f g s : (forall c, In c s -> f c = g c) -> lstrip_by f s = lstrip_by g s.
Proof.
  induction s as [|x s IH]; intros H; [reflexivity|]. cbn [lstrip_by]. rewrite <- (H x) by now left.
  destruct (f x); [|reflexivity]. apply IH. intros c Hc. apply H. now right.
Qed.

Lemma strip_by_ext f g s : (forall c, In c s -> f c = g c) -> strip_by f s = strip_by g s.
Proof.
  intros H. unfold strip_by, rstrip_by. rewrite <- (lstrip_ext f g s H). f_equal.
  apply lstrip_ext. intros c Hc. apply H. apply in_rev in Hc. eapply lstrip_In. exact Hc.
Qed.

Lemma bstrip_plain n : (forall c, In c n -> plain c = true) -> bstrip n = strip n.
Proof.
  intros H. unfold bstrip, strip. apply strip_by_ext. intros c Hc. apply H in Hc. apply plain_props in Hc.
  destruct Hc as [_ [_ [E _]]]. now rewrite E.
Qed.

Lemma remove_ws_join_lines ls : remove_ws (join_lines ls) = remove_ws (concat ls).
Proof.
  induction ls as [|l ls IH]; [reflexivity|]. cbn [join_lines flat_map concat]. fold (join_lines ls).
  rewrite !remove_ws_app, IH. f_equal. unfold remove_ws. cbn. now rewrite app_nil_r.
Qed.

Lemma converter_gen ls : (forall l, In l ls -> wf_line l = true) ->
  converter (join_lines ls) = remove_ws (concat ls).
Proof.
  intros H. unfold converter.
  assert (E : filter (fun c => negb ((c =? 10) || (c =? 13) || (c =? 9) || (c =? 32))) (join_lines ls)
              = remove_ws (join_lines ls)).
  { unfold remove_ws. apply filter_ext_in. intros c Hc. unfold join_lines in Hc. apply in_flat_map in Hc.
    destruct Hc as [l [Hl Hc]]. apply in_app_or in Hc. destruct Hc as [Hc|[<-|[]]]; [|reflexivity].
    apply H in Hl. apply wf_line_props in Hl. destruct Hl as [Hp _]. apply Hp in Hc. now apply plain_props in Hc. }
  rewrite E, remove_ws_join_lines. unfold ascii_upper.
  rewrite <- (map_id (remove_ws (concat ls))) at 2. apply map_ext_in.
  intros c Hc. unfold remove_ws in Hc. apply filter_In in Hc. destruct Hc as [Hc _].
  apply in_concat in Hc. destruct Hc as [l [Hl Hc]]. apply H in Hl. apply wf_line_props in Hl.
  destruct Hl as [_ [Hu _]]. now apply Hu.
Qed.

Lemma bytes_record_gen n ls : wf_frec (n, ls) = true ->
  bytes_record (fbody (n, ls)) = [(strip n, remove_ws (concat ls))].
Proof.
  intros Hr. apply wf_frec_props in Hr. destruct Hr as [Hn [Hls _]].
  unfold bytes_record, fbody. cbn [fst snd].
  destruct (n ++ NL :: join_lines ls) as [|c0 t0] eqn:E.
  { apply app_eq_nil in E. destruct E; discriminate. }
  rewrite <- E. rewrite split1_app.
  - rewrite bstrip_plain by exact Hn. rewrite converter_gen by exact Hls. reflexivity.
  - intros c Hc. apply Hn in Hc. now apply plain_props in Hc.
Qed.

Lemma no_ls_line_gen l : wf_line l = true -> no_ls true (l ++ [NL]) = true /\ end_state true (l ++ [NL]) = true.
Proof.
  intros Hl. apply wf_line_props in Hl. destruct Hl as [Hp [_ Hf]].
  destruct l as [|c t]; [split; reflexivity|]. destruct Hf as [Hg _].
  assert (Hcn : c <> NL) by (assert (Hc : plain c = true) by (apply Hp; now left); now apply plain_props in Hc).
  cbn [app no_ls end_state].
  destruct (Z.eqb_spec c GT) as [E|_]; [congruence|]. destruct (Z.eqb_spec c NL) as [E|_]; [congruence|].
  cbn [andb negb]. rewrite no_ls_app, end_state_app.
  destruct (no_ls_nonl t) as [H1 H2].
  { intros y Hy. assert (Hy' : plain y = true) by (apply Hp; now right). now apply plain_props in Hy'. }
  rewrite H1, H2. cbn. split; reflexivity.
Qed.

Lemma no_ls_lines_gen ls : (forall l, In l ls -> wf_line l = true) ->
  no_ls true (join_lines ls) = true /\ end_state true (join_lines ls) = true.
Proof.
  induction ls as [|l ls IH]; intros H; [split; reflexivity|].
  cbn [join_lines flat_map]. fold (join_lines ls).
  destruct (no_ls_line_gen l) as [H1 H2]; [apply H; now left|].
  destruct IH as [I1 I2]; [intros l' Hl'; apply H; now right|].
  split.
  - rewrite no_ls_app, H1, H2. exact I1.
  - rewrite end_state_app, H2. exact I2.
Qed.

Lemma no_ls_body_gen n ls : wf_frec (n, ls) = true ->
  no_ls false (fbody (n, ls)) = true /\ end_state false (fbody (n, ls)) = true.
Proof.
  intros Hr. apply wf_frec_props in Hr. destruct Hr as [Hn [Hls _]].
  unfold fbody. cbn [fst snd]. rewrite no_ls_app, end_state_app.
  destruct (no_ls_nonl n) as [H1 H2].
  { intros c Hc. apply Hn in Hc. now apply plain_props in Hc. }
  rewrite H1, H2. cbn [no_ls end_state andb negb]. rewrite Z.eqb_refl. apply no_ls_lines_gen. exact Hls.
Qed.

Lemma split_ls_bodies_gen recs :
  (forall r, In r recs -> wf_frec r = true) ->
  split_linestart GT true (flat_map (fun r => GT :: fbody r) recs) = [] :: map fbody recs.
Proof.
  induction recs as [|[n ls] recs IH]; intros H; [reflexivity|].
  cbn [flat_map map app]. cbn [split_linestart].
  destruct (no_ls_body_gen n ls) as [H1 H2]; [apply H; now left|].
  rewrite (split_ls_app (fbody (n, ls)) false _ [] (map fbody recs)).
  - rewrite app_nil_r. reflexivity.
  - exact H1.
  - rewrite H2. apply IH. intros r Hr. apply H. now right.
Qed.

Lemma bytes_records_gen recs :
  (forall r, In r recs -> wf_frec r = true) ->
  flat_map bytes_record (map fbody recs) = gen_records recs.
Proof.
  induction recs as [|[n ls] recs IH]; intros H; [reflexivity|].
  cbn [map flat_map gen_records fst snd]. rewrite bytes_record_gen by (apply H; now left).
  cbn [app]. f_equal. apply IH. intros r Hr. apply H. now right.
Qed.

Lemma bytes_fixed_gen recs : (forall r, In r recs -> wf_frec r = true) ->
  bytes_parser_fixed (fasta_write recs) = gen_records recs.
Proof.
  intros H. unfold bytes_parser_fixed. rewrite fasta_write_bodies, split_ls_bodies_gen by exact H.
  cbn [flat_map bytes_record app]. now apply bytes_records_gen.
Qed.

(** pinned bytes parser: additionally no '>' anywhere in the record *)
Definition nogt_rec (r : str * list str) : bool := no_gt (fst r) && forallb no_gt (snd r).

Lemma fbody_nogt_gen n ls : nogt_rec (n, ls) = true -> forall c, In c (fbody (n, ls)) -> c <> GT.
Proof.
  unfold nogt_rec. cbn [fst snd]. intros H c Hc. apply andb_true_iff in H. destruct H as [Hn Hls].
  unfold fbody in Hc. cbn [fst snd] in Hc. apply in_app_or in Hc. destruct Hc as [Hc|[<-|Hc]].
  - pose proof (forallb_In _ _ Hn c Hc) as Hx. cbn in Hx. lia.
  - discriminate.
  - unfold join_lines in Hc. apply in_flat_map in Hc. destruct Hc as [l [Hl Hc]].
    apply in_app_or in Hc. destruct Hc as [Hc|[<-|[]]]; [|discriminate].
    pose proof (forallb_In _ _ Hls l Hl) as Hx. pose proof (forallb_In _ _ Hx c Hc) as Hy. cbn in Hy. lia.
Qed.

Lemma bytes_pinned_gen recs : (forall r, In r recs -> wf_frec r = true /\ nogt_rec r = true) ->
  bytes_parser (fasta_write recs) = gen_records recs.
Proof.
  intros H. unfold bytes_parser. rewrite fasta_write_bodies, split_bodies.
  - cbn [flat_map bytes_record app]. apply bytes_records_gen. intros r Hr. now apply H.
  - intros [n ls] Hr. destruct (H _ Hr) as [_ H2]. now apply fbody_nogt_gen.
Qed.

(** name " a>b " with blank ends, lines "AC GT", "", " -N\t" *)
Example wf_frec_ex : wf_frec ([32; 97; 62; 98; 32], [[65; 67; 32; 71; 84]; []; [32; 45; 78; 9]]) = true.
Proof. reflexivity. Qed.

(* ------------------------------------------------------------------ inputs the writers accept but cannot carry (findings) *)

(** a printable-ASCII name with a blank at an end (" a") comes back as "a" from every parser (open finding
    round:<fmt>:name-outer-blank) *)
Definition blank_rec : rec := ([32; 97], [65; 67; 71; 84]).

Lemma name_outer_blank_refuted_lemma :
  lines_faster (fasta_write_w 60 [blank_rec]) <> [blank_rec]
  /\ bytes_parser (fasta_write_w 60 [blank_rec]) <> [blank_rec]
  /\ bytes_parser_fixed (fasta_write_w 60 [blank_rec]) <> [blank_rec]
  /\ strict_parser gde_lc (py_splitlines (gde_write 60 [blank_rec])) <> POk [blank_rec]
  /\ paml_parser (py_splitlines (paml_write 60 [blank_rec])) <> POk [blank_rec]
  /\ phylip_parser (py_splitlines (phylip_write 60 [blank_rec])) <> Some (POk (phylip_expected [blank_rec])).
Proof. repeat split; vm_compute; discriminate. Qed.

(** the PHYLIP and PAML writers of the pinned tree accept sequences of unequal length and the text does not
    parse back to the records (findings round:phylip:unequal-lengths, round:paml:unequal-lengths; the proposed
    fixes C06-3 / C06-5 make the writers refuse such input) *)
Definition unequal_recs : list rec := [([97], [71; 71]); ([98], [71; 84; 67; 84; 71; 67]); ([99; 99; 99], [67])].

Lemma phylip_unequal_lengths_refuted_lemma :
  phylip_parser (py_splitlines (phylip_write 60 unequal_recs)) <> Some (POk (phylip_expected unequal_recs)).
Proof. vm_compute. discriminate. Qed.

Lemma paml_unequal_lengths_refuted_lemma :
  exists p, paml_parser (py_splitlines (paml_write 1 unequal_recs)) = POk p /\ p <> unequal_recs.
Proof. eexists. split; [vm_compute; reflexivity|discriminate]. Qed.

(* ------------------------------------------------------------------ PHYLIP, interleaved branch *)

Lemma split_off10 l : phylip_split_line_off 10 l = phylip_split_line l.
Proof. reflexivity. Qed.

Lemma strip_lead_blanks k b : strip (repeat SP k ++ b) = strip b.
Proof.
  unfold strip, strip_by. rewrite lstrip_all; [reflexivity|].
  intros c Hc. apply repeat_spec in Hc. subst c. reflexivity.
Qed.

Lemma split_cont_off0 b : ok_line b = true -> phylip_split_line_off 0 (sp10 ++ b) = ([], b).
Proof.
  intros Hb. unfold phylip_split_line_off.
  destruct (ok_line_first b Hb) as [c [t [-> Hc]]].
  assert (Hfirst : all_space (sp10 ++ c :: t) = false).
  { unfold all_space. rewrite forallb_app. cbn [forallb]. rewrite Hc. now rewrite andb_false_r. }
  rewrite Hfirst. cbn [firstn skipn]. change (strip []) with (@nil Z).
  unfold sp10. rewrite strip_lead_blanks.
  pose proof (ok_line_props _ Hb) as [_ [_ [Hs _]]]. rewrite Hs. now rewrite filter_sp_ok.
Qed.

Lemma map2_combine {A B C} (f : A -> B -> C) la : forall lb,
  map2 f la lb = map (fun p => f (fst p) (snd p)) (combine la lb).
Proof. induction la as [|a la IH]; intros [|b lb]; cbn; try reflexivity. now rewrite IH. Qed.

Lemma combine_map_fst {A B} (la : list A) : forall (lb : list B), length la = length lb -> map fst (combine la lb) = la.
Proof. induction la as [|a la IH]; intros [|b lb] H; cbn in *; try reflexivity; try discriminate. f_equal. apply IH. lia. Qed.

Lemma combine_map_snd {A B} (la : list A) : forall (lb : list B), length la = length lb -> map snd (combine la lb) = lb.
Proof. induction la as [|a la IH]; intros [|b lb] H; cbn in *; try reflexivity; try discriminate. f_equal. apply IH. lia. Qed.

Lemma upd_nth_app {A} (f : A -> A) done : forall x t, upd_nth (length done) f (done ++ x :: t) = done ++ f x :: t.
Proof. induction done as [|d done IH]; intros x t; cbn; [reflexivity|]. now rewrite IH. Qed.

Lemma mod_block q N j : (j < N)%nat -> Nat.modulo (q * N + j) N = j.
Proof. intros H. rewrite Nat.add_comm, Nat.mod_add by lia. apply Nat.mod_small. exact H. Qed.

(** the first block creates the entries *)
Lemma il_first_block N : forall (todo : list (rec * str)) done rest off,
  (length done + length todo = N)%nat ->
  (forall p, In p todo -> fst (fst p) <> [] /\ ok_name (phylip_name (fst (fst p))) = true /\ ok_line (snd p) = true) ->
  (todo <> [] -> off = 10%nat) ->
  phylip_il_go N off (length done) done (map (fun p => pad10 (fst (fst p)) ++ snd p) todo ++ rest)
  = phylip_il_go N (match todo with [] => off | _ => O end) N
      (done ++ map (fun p => (phylip_name (fst (fst p)), [snd p])) todo) rest.
Proof.
  induction todo as [|[[n s] b] todo IH]; intros done rest off Hlen H Hoff.
  - cbn in *. rewrite app_nil_r. replace (length done) with N by lia. reflexivity.
  - rewrite (Hoff ltac:(discriminate)). cbn [map app fst snd phylip_il_go].
    destruct (H ((n, s), b) ltac:(now left)) as [Hn [H9 Hb]]. cbn [fst snd] in *.
    rewrite split_off10, split_first_line by assumption.
    assert (Hne9 : phylip_name n <> []) by (unfold phylip_name; destruct n; [congruence|discriminate]).
    destruct (phylip_name n) as [|c9 t9] eqn:E9; [congruence|].
    cbn [length] in Hlen.
    assert (Hmod : Nat.modulo (length done) N = length done) by (apply Nat.mod_small; lia).
    rewrite Hmod. destruct (Nat.ltb_spec (length done) (length done)) as [Hx|_]; [lia|].
    assert (HS : S (length done) = length (done ++ [(c9 :: t9, [b])])) by (rewrite app_length; cbn; lia).
    rewrite HS.
    etransitivity.
    { apply (IH (done ++ [(c9 :: t9, [b])]) rest
               (if Nat.eqb (Nat.modulo (length (done ++ [(c9 :: t9, [b])])) N) 0 then O else 10%nat)).
      - rewrite <- HS. lia.
      - intros p Hp. apply H. now right.
      - intros Hne. rewrite <- HS. destruct todo as [|p' todo']; [congruence|]. cbn [length] in Hlen.
        rewrite Nat.mod_small by lia. reflexivity. }
    rewrite <- app_assoc. cbn [app]. rewrite <- E9.
    destruct todo as [|p' todo'].
    + cbn [length] in Hlen. rewrite app_length. cbn [length]. replace (length done + 1)%nat with N by lia.
      rewrite Nat.mod_same by lia. reflexivity.
    + reflexivity.
Qed.

(** every later block appends one part to every entry *)
Lemma il_later_block N q : forall (todo : list ((str * list str) * str)) done rest off,
  (length done + length todo = N)%nat ->
  (forall p, In p todo -> ok_line (snd p) = true) ->
  (todo <> [] -> off = O) ->
  phylip_il_go N off (q * N + length done) (done ++ map fst todo) (map (fun p => sp10 ++ snd p) todo ++ rest)
  = phylip_il_go N (match todo with [] => off | _ => O end) (q * N + N)
      (done ++ map (fun p => (fst (fst p), snd (fst p) ++ [snd p])) todo) rest.
Proof.
  induction todo as [|[e b] todo IH]; intros done rest off Hlen H Hoff.
  - cbn in *. replace (length done) with N by lia. reflexivity.
  - rewrite (Hoff ltac:(discriminate)). cbn [map app fst snd phylip_il_go].
    assert (Hb : ok_line b = true) by (apply (H (e, b)); now left).
    rewrite split_cont_off0 by exact Hb.
    destruct b as [|c t]; [discriminate Hb|]. set (b := c :: t) in *. cbn [length] in Hlen.
    rewrite mod_block by lia.
    assert (Hlt : (length done <? length (done ++ e :: map fst todo))%nat = true).
    { apply Nat.ltb_lt. rewrite app_length. cbn. lia. }
    rewrite Hlt. rewrite upd_nth_app.
    replace (S (q * N + length done)) with (q * N + length (done ++ [(fst e, snd e ++ [b])]))%nat
      by (rewrite app_length; cbn; lia).
    change (done ++ (fst e, snd e ++ [b]) :: map fst todo) with (done ++ ([(fst e, snd e ++ [b])] ++ map fst todo)).
    rewrite (app_assoc done).
    etransitivity.
    { apply (IH (done ++ [(fst e, snd e ++ [b])]) rest
               (if Nat.eqb (Nat.modulo (q * N + length (done ++ [(fst e, snd e ++ [b])])) N) 0 then O else O)).
      - rewrite app_length. cbn. lia.
      - intros p Hp. apply H. now right.
      - intros _. destruct (Nat.eqb _ 0); reflexivity. }
    rewrite <- app_assoc. cbn [app]. destruct todo; [|reflexivity].
    destruct (Nat.eqb _ 0); reflexivity.
Qed.

Definition add_row (cache : list (str * list str)) (row : list str) : list (str * list str) :=
  map2 (fun e b => (fst e, snd e ++ [b])) cache row.

Lemma add_row_length cache row : length cache = length row -> length (add_row cache row) = length cache.
Proof.
  unfold add_row. revert row; induction cache as [|e cache IH]; intros [|b row] H; cbn in *; try reflexivity; try discriminate.
  f_equal. apply IH. lia.
Qed.

Definition row_ok (N : nat) (row : list str) : Prop := length row = N /\ (forall b, In b row -> ok_line b = true).

Lemma map_snd_combine {A B C} (g : B -> C) (la : list A) : forall lb, length la = length lb ->
  map (fun p => g (snd p)) (combine la lb) = map g lb.
Proof. induction la as [|a la IH]; intros [|b lb] H; cbn in *; try reflexivity; try discriminate. f_equal. apply IH. lia. Qed.

Lemma il_later_row N q cache row rest : (1 <= N)%nat -> length cache = N -> row_ok N row ->
  phylip_il_go N 0 (q * N) cache (map (app sp10) row ++ rest)
  = phylip_il_go N 0 (q * N + N) (add_row cache row) rest.
Proof.
  intros HN Hc [Hr Hok].
  assert (L := il_later_block N q (combine cache row) [] rest O).
  assert (Hne : combine cache row <> []).
  { destruct cache; destruct row; cbn in *; try lia; discriminate. }
  assert (Hcr : length cache = length row) by lia.
  etransitivity; [|etransitivity; [apply L|]].
  - f_equal.
    + cbn. lia.
    + cbn [app]. symmetry. apply combine_map_fst. exact Hcr.
    + f_equal. symmetry. exact (map_snd_combine (app sp10) cache row Hcr).
  - cbn [length]. rewrite combine_length. lia.
  - intros p Hp. apply Hok. destruct p as [e b]. apply in_combine_r in Hp. exact Hp.
  - reflexivity.
  - destruct (combine cache row) as [|p0 ps] eqn:E; [congruence|]. rewrite <- E. cbn [app].
    f_equal. unfold add_row. symmetry.
    exact (map2_combine (fun (e : str * list str) (b : str) => (fst e, snd e ++ [b])) cache row).
Qed.

Lemma il_later_blocks N : (1 <= N)%nat -> forall rows q cache rest,
  length cache = N -> (forall row, In row rows -> row_ok N row) ->
  phylip_il_go N 0 (q * N) cache (flat_map (fun row => [] :: map (app sp10) row) rows ++ rest)
  = phylip_il_go N 0 ((q + length rows) * N) (fold_left add_row rows cache) rest.
Proof.
  intros HN. induction rows as [|row rows IH]; intros q cache rest Hc H.
  - cbn. now rewrite Nat.add_0_r.
  - assert (Hrow : row_ok N row) by (apply H; now left).
    cbn [flat_map app fold_left]. cbn [phylip_il_go phylip_split_line_off all_space forallb].
    rewrite <- app_assoc. rewrite il_later_row by assumption.
    replace (q * N + N)%nat with ((S q) * N)%nat by lia.
    rewrite IH; [| rewrite add_row_length; destruct Hrow; lia | intros r Hr'; apply H; now right].
    cbn [length]. f_equal. lia.
Qed.

(** transposing the per-record block lists and adding the rows one by one rebuilds the block lists *)
Definition cols_ok (K : nat) (bss : list (list str)) : Prop :=
  forall bs, In bs bss -> length bs = K /\ (forall b, In b bs -> ok_line b = true).

Lemma cols_ok_step K bss : cols_ok (S K) bss ->
  row_ok (length bss) (map (hd []) bss) /\ cols_ok K (map (@tl str) bss).
Proof.
  intros H. split; [split|].
  - now rewrite map_length.
  - intros b Hb. apply in_map_iff in Hb. destruct Hb as [bs [<- Hbs]]. destruct (H bs Hbs) as [Hl Hok].
    destruct bs as [|b0 bs']; [discriminate|]. apply Hok. now left.
  - intros bs Hbs. apply in_map_iff in Hbs. destruct Hbs as [bs0 [<- Hbs0]]. destruct (H bs0 Hbs0) as [Hl Hok].
    destruct bs0 as [|b0 bs']; [discriminate|]. cbn in *. split; [lia|]. intros b Hb. apply Hok. now right.
Qed.

Lemma il_rows_ok K : forall bss, cols_ok K bss -> forall row, In row (il_rows K bss) -> row_ok (length bss) row.
Proof.
  induction K as [|K IH]; intros bss H row Hr; [destruct Hr|].
  cbn [il_rows] in Hr. destruct (cols_ok_step K bss H) as [H1 H2]. destruct Hr as [<-|Hr]; [exact H1|].
  rewrite <- (map_length (@tl str) bss). now apply IH.
Qed.

Lemma fold_add_rows K : forall bss cache, cols_ok K bss -> length cache = length bss ->
  fold_left add_row (il_rows K bss) cache = map2 (fun e bs => (fst e, snd e ++ bs)) cache bss.
Proof.
  induction K as [|K IH]; intros bss cache H Hl.
  - cbn. revert cache Hl. induction bss as [|bs bss IHb]; intros [|e cache] Hl; cbn in *; try reflexivity; try discriminate.
    destruct (H bs ltac:(now left)) as [Hz _]. destruct bs; [|discriminate].
    rewrite app_nil_r. rewrite <- surjective_pairing. f_equal. apply IHb; [|lia].
    intros bs' Hbs'. apply H. now right.
  - cbn [il_rows fold_left]. destruct (cols_ok_step K bss H) as [H1 H2].
    rewrite IH; [| exact H2 | rewrite add_row_length by (rewrite map_length; exact Hl); rewrite map_length; exact Hl].
    unfold add_row. clear IH H1 H2. revert cache Hl. induction bss as [|bs bss IHb]; intros [|e cache] Hl; cbn in *; try reflexivity; try discriminate.
    destruct (H bs ltac:(now left)) as [Hz _]. destruct bs as [|b0 bs']; [discriminate|]. cbn [hd tl fst snd].
    rewrite <- app_assoc. cbn [app]. f_equal. apply IHb; [|lia]. intros bs'' Hbs''. apply H. now right.
Qed.

Lemma blocks_go_length fuel w : forall s s', length s = length s' -> length (blocks_go fuel w s) = length (blocks_go fuel w s').
Proof.
  induction fuel as [|f IH]; intros s s' H; [reflexivity|].
  destruct s as [|c t], s' as [|c' t']; cbn in H; try discriminate; [reflexivity|].
  cbn [blocks_go length]. f_equal. apply IH. rewrite !skipn_length. cbn [length]. lia.
Qed.

Lemma il_out_recs m : forall recs : list rec,
  (forall r, In r recs -> length (snd r) = m) ->
  forall w, (1 <= w)%nat ->
  phylip_il_out m (map (fun r => (phylip_name (fst r), phylip_blocks w m (snd r))) recs) = POk (phylip_expected recs).
Proof.
  intros recs H w Hw. induction recs as [|[n s] recs IH]; [reflexivity|].
  cbn [map phylip_il_out fst snd phylip_expected].
  assert (Hl : length s = m) by (apply (H (n, s)); now left).
  assert (Hcat : concat (phylip_blocks w m s) = s) by (unfold phylip_blocks; apply concat_blocks_go; lia).
  rewrite Hcat, Hl, Nat.eqb_refl. fold (phylip_expected recs).
  rewrite IH by (intros r Hr; apply H; now right). reflexivity.
Qed.

Lemma split_ws_header3 a b : a <> [] -> b <> [] ->
  (forall c, In c a -> is_space c = false) -> (forall c, In c b -> is_space c = false) ->
  split_ws ((a ++ [SP; SP] ++ b) ++ [SP; 73]) = [a; b; [73]].
Proof.
  intros Ha Hb Hsa Hsb. unfold split_ws. rewrite <- !app_assoc.
  rewrite split_ws_go_word by exact Hsa. rewrite app_nil_r.
  cbn [app split_ws_go is_space SP].
  destruct (rev a) as [|x xs] eqn:E.
  { exfalso. apply Ha. rewrite <- (rev_involutive a), E. reflexivity. }
  rewrite <- E, rev_involutive. cbn -[split_ws_go]. cbn [split_ws_go].
  rewrite split_ws_go_word by exact Hsb. rewrite app_nil_r. cbn [split_ws_go].
  destruct (rev b) as [|y ys] eqn:E2.
  { exfalso. apply Hb. rewrite <- (rev_involutive b), E2. reflexivity. }
  rewrite <- E2, rev_involutive. reflexivity.
Qed.

Lemma il_header_tokens recs : split_ws (il_header recs) = [dec (length recs); dec (align_length recs); [73]].
Proof.
  unfold il_header, header_line. apply split_ws_header3; try apply dec_nonempty; apply dec_nospace.
Qed.

Lemma il_header_nobrk recs c : In c (il_header recs) -> is_brk c = false.
Proof.
  unfold il_header. intros H. apply in_app_or in H. destruct H as [H|[<-|[<-|[]]]]; [|reflexivity|reflexivity].
  eapply header_nobrk. exact H.
Qed.

Definition pblocks (w m : nat) (r : rec) : list str := phylip_blocks w m (snd r).

Lemma final_cache w m : forall recs : list rec,
  (forall r, In r recs -> pblocks w m r <> []) ->
  map2 (fun (e : str * list str) (bs : list str) => (fst e, snd e ++ bs))
       (map (fun p : rec * str => (phylip_name (fst (fst p)), [snd p]))
            (combine recs (map (hd []) (map (pblocks w m) recs))))
       (map (@tl str) (map (pblocks w m) recs))
  = map (fun r => (phylip_name (fst r), pblocks w m r)) recs.
Proof.
  induction recs as [|r recs IH]; intros H; [reflexivity|].
  cbn [map combine map2 fst snd]. pose proof (H r ltac:(now left)) as Hr.
  destruct (pblocks w m r) as [|b bs] eqn:E; [congruence|]. cbn [hd tl app]. f_equal.
  apply IH. intros r' Hr'. apply H. now right.
Qed.

Lemma il_lines_eq w recs :
  phylip_interleaved_lines w recs =
  match il_rows (match map (pblocks w (align_length recs)) recs with [] => O | bs :: _ => length bs end)
                (map (pblocks w (align_length recs)) recs) with
  | [] => [il_header recs]
  | row0 :: rows =>
      il_header recs :: map2 (fun (r : rec) (b : str) => pad10 (fst r) ++ b) recs row0
        ++ flat_map (fun row : list str => [] :: map (app sp10) row) rows
  end.
Proof. reflexivity. Qed.

Lemma phylip_interleaved_lemma w recs : (1 <= w)%nat -> recs <> [] ->
  (forall r, In r recs -> ok_prec (align_length recs) r = true) ->
  phylip_parser (py_splitlines (phylip_interleaved_write w recs)) = Some (POk (phylip_expected recs)).
Proof.
  intros Hw Hne H.
  set (m := align_length recs) in *. set (N := length recs).
  assert (HN : (1 <= N)%nat) by (subst N; destruct recs; [congruence|cbn; lia]).
  assert (Hprops : forall r, In r recs ->
            fst r <> [] /\ ok_name (phylip_name (fst r)) = true /\ length (snd r) = m /\
            (forall c, In c (snd r) -> ok_res c = true) /\ snd r <> [] /\ (forall c, In c (fst r) -> is_brk c = false)).
  { intros [n s] Hr. apply H in Hr. apply ok_prec_props in Hr. destruct Hr as [Hn [Hokn [H9 [Hsne [Hlen Hall]]]]].
    cbn [fst snd]. repeat split; try assumption.
    unfold ok_name in Hokn. apply andb_true_iff in Hokn. destruct Hokn as [Hb _].
    intros x Hx. pose proof (forallb_In _ _ Hb x Hx) as Hy. cbn in Hy. destruct (is_brk x); [discriminate|reflexivity]. }
  assert (Hm : (1 <= m)%nat).
  { destruct recs as [|r0 recs']; [congruence|]. destruct (Hprops r0 ltac:(now left)) as [_ [_ [Hl [_ [Hs _]]]]].
    destruct (snd r0) as [|c0 t0]; [congruence|]. rewrite <- Hl. cbn [length]. lia. }
  set (bss := map (pblocks w m) recs).
  assert (Hbss : map (fun r : rec => blocks_go (S m) w (snd r)) recs = bss) by reflexivity.
  set (K := match bss with [] => O | bs :: _ => length bs end).
  assert (Hcols : cols_ok K bss).
  { intros bs Hbs. subst bss. apply in_map_iff in Hbs. destruct Hbs as [r [<- Hr]].
    destruct (Hprops r Hr) as [_ [_ [Hl [Hall _]]]]. split.
    - subst K. destruct recs as [|r0 recs']; [destruct Hr|]. cbn [map].
      destruct (Hprops r0 ltac:(now left)) as [_ [_ [Hl0 _]]].
      unfold pblocks, phylip_blocks. apply blocks_go_length. congruence.
    - intros b Hb. unfold pblocks, phylip_blocks in Hb. eapply blocks_go_ok; [exact Hw|exact Hall|exact Hb]. }
  assert (Hnonempty : forall r, In r recs -> pblocks w m r <> []).
  { intros r Hr. destruct (Hprops r Hr) as [_ [_ [Hl [_ [Hs _]]]]]. unfold pblocks, phylip_blocks.
    destruct (snd r); [congruence|]. cbn. discriminate. }
  assert (HK : exists K', K = S K').
  { subst K bss. destruct recs as [|r0 recs']; [congruence|]. cbn [map].
    pose proof (Hnonempty r0 ltac:(now left)) as Hx. destruct (pblocks w m r0); [congruence|]. cbn. eexists. reflexivity. }
  destruct HK as [K' HK].
  unfold phylip_interleaved_write. rewrite il_lines_eq. fold m. fold bss. fold K. rewrite HK.
  cbn [il_rows]. rewrite HK in Hcols. destruct (cols_ok_step K' bss Hcols) as [Hrow0 Hcols'].
  assert (Hlb : length bss = N) by (subst bss N; now rewrite map_length).
  rewrite Hlb in Hrow0.
  assert (Hrows : forall row, In row (il_rows K' (map (@tl str) bss)) -> row_ok N row).
  { intros row Hr. rewrite <- Hlb, <- (map_length (@tl str) bss). now apply (il_rows_ok K'). }
  rewrite map2_combine.
  (* the lines contain no line boundary *)
  rewrite splitlines_join.
  2:{ intros l Hl c Hc. destruct Hl as [<-|Hl]; [eapply il_header_nobrk; exact Hc|].
      apply in_app_or in Hl. destruct Hl as [Hl|Hl].
      - apply in_map_iff in Hl. destruct Hl as [[r b] [<- Hp]]. cbn [fst snd] in Hc.
        pose proof (in_combine_l _ _ _ _ Hp) as Hr. pose proof (in_combine_r _ _ _ _ Hp) as Hb.
        destruct (Hprops r Hr) as [_ [_ [_ [_ [_ Hnb]]]]]. destruct Hrow0 as [_ Hok0].
        apply in_app_or in Hc. destruct Hc as [Hc|Hc].
        + apply pad10_chars in Hc. destruct Hc as [Hc| ->]; [now apply Hnb|reflexivity].
        + apply Hok0 in Hb. apply ok_line_props in Hb. destruct Hb as [_ [Hall _]]. apply Hall in Hc. now apply ok_res_props in Hc.
      - apply in_flat_map in Hl. destruct Hl as [row [Hrow Hl]]. destruct Hl as [<-|Hl]; [destruct Hc|].
        apply in_map_iff in Hl. destruct Hl as [b [<- Hb]]. destruct (Hrows row Hrow) as [_ Hokr].
        apply in_app_or in Hc. destruct Hc as [Hc|Hc].
        + apply repeat_spec in Hc. subst c. reflexivity.
        + apply Hokr in Hb. apply ok_line_props in Hb. destruct Hb as [_ [Hall _]]. apply Hall in Hc. now apply ok_res_props in Hc. }
  unfold phylip_parser, phylip_header. rewrite il_header_tokens, !parse_nat_dec. fold N. fold m.
  destruct (Nat.eqb_spec N 0) as [E0|_]; [lia|]. destruct (Nat.eqb_spec m 0) as [E0|_]; [lia|]. cbn [orb].
  f_equal.
  (* first block *)
  pose proof (il_first_block N (combine recs (map (hd []) bss)) []
               (flat_map (fun row => [] :: map (app sp10) row) (il_rows K' (map (@tl str) bss))) 10%nat) as L1.
  cbn [length app] in L1.
  assert (Hcl : length (combine recs (map (hd []) bss)) = N).
  { rewrite combine_length, map_length. subst bss. rewrite map_length. subst N. apply Nat.min_id. }
  etransitivity; [apply f_equal; etransitivity; [apply L1|]|].
  - cbn [Nat.add]. exact Hcl.
  - intros [r b] Hp. cbn [fst snd]. pose proof (in_combine_l _ _ _ _ Hp) as Hr. pose proof (in_combine_r _ _ _ _ Hp) as Hb.
    destruct (Hprops r Hr) as [Hn [H9 _]]. destruct Hrow0 as [_ Hok0]. repeat split; try assumption. now apply Hok0.
  - reflexivity.
  - destruct (combine recs (map (hd []) bss)) as [|p0 ps] eqn:E; [cbn in Hcl; lia|]. rewrite <- E. rewrite <- E in Hcl.
    rewrite <- (app_nil_r (flat_map _ _)).
    replace N with (1 * N)%nat at 2 by lia.
    apply (il_later_blocks N HN).
    + rewrite map_length. exact Hcl.
    + exact Hrows.
  - cbn [phylip_il_go].
    rewrite (fold_add_rows K' (map (@tl str) bss)); [| exact Hcols' | rewrite !map_length; rewrite combine_length, map_length; subst bss; rewrite map_length; lia].
    subst bss. rewrite final_cache by exact Hnonempty.
    apply (il_out_recs m recs); [|exact Hw].
    intros r Hr. now destruct (Hprops r Hr) as [_ [_ [Hl _]]].
Qed.

Lemma phylip_interleaved_eq_sequential_lemma w recs : (1 <= w)%nat -> recs <> [] ->
  (forall r, In r recs -> ok_prec (align_length recs) r = true) ->
  phylip_parser (py_splitlines (phylip_interleaved_write w recs)) = phylip_parser (py_splitlines (phylip_write w recs)).
Proof. intros Hw Hne H. rewrite phylip_interleaved_lemma, phylip_roundtrip_lemma by assumption. reflexivity. Qed.

(* ------------------------------------------------------------------ GenBank: the line-based reader *)

Lemma rstrip_id l : (match rev l with c :: _ => is_space c = false | [] => True end) -> rstrip l = l.
Proof. intros H. unfold rstrip, rstrip_by. rewrite lstrip_id by exact H. apply rev_involutive. Qed.

Definition gl (l : str) : Prop := l <> [] /\ rstrip l = l.

Lemma gb_finder_rec ls : forall cur rest,
  (forall l, In l ls -> gl l /\ l <> s_double_slash) ->
  gb_finder cur (ls ++ s_double_slash :: rest)
  = ((cur ++ ls ++ [s_double_slash]) :: fst (gb_finder [] rest), snd (gb_finder [] rest)).
Proof.
  induction ls as [|l ls IH]; intros cur rest H.
  - cbn [app gb_finder]. change (rstrip s_double_slash) with s_double_slash. cbn. reflexivity.
  - destruct (H l ltac:(now left)) as [[Hne Hr] Hds]. cbn [app gb_finder]. rewrite Hr.
    destruct l as [|c t]; [congruence|].
    destruct (str_eqb_spec (c :: t) [SLASH; SLASH]) as [E|_]; [exfalso; apply Hds; exact E|].
    rewrite IH by (intros l' Hl'; apply H; now right). now rewrite <- app_assoc.
Qed.

Lemma is0_new l cur rest : gl l -> (match l with c :: _ => is_space c = false | [] => True end) ->
  indent_split 0 cur (l :: rest) = cur :: indent_split 0 [l] rest.
Proof.
  intros [Hne Hr] Hf. cbn [indent_split]. rewrite Hr. destruct l as [|c t]; [congruence|].
  cbn [length Nat.ltb Nat.leb nth andb]. rewrite Hf. reflexivity.
Qed.

Lemma is0_cont l cur rest : gl l -> (match l with c :: _ => is_space c = true | [] => False end) ->
  indent_split 0 cur (l :: rest) = indent_split 0 (cur ++ [l]) rest.
Proof.
  intros [Hne Hr] Hf. cbn [indent_split]. rewrite Hr. destruct l as [|c t]; [congruence|].
  cbn [length Nat.ltb Nat.leb nth andb]. rewrite Hf. reflexivity.
Qed.

Lemma is0_conts ols : forall cur rest,
  (forall l, In l ols -> gl l /\ match l with c :: _ => is_space c = true | [] => False end) ->
  indent_split 0 cur (ols ++ rest) = indent_split 0 (cur ++ ols) rest.
Proof.
  induction ols as [|l ols IH]; intros cur rest H; [now rewrite app_nil_r|].
  destruct (H l ltac:(now left)) as [Hg Hs]. cbn [app]. rewrite is0_cont by assumption.
  rewrite IH by (intros l' Hl'; apply H; now right). now rewrite <- app_assoc.
Qed.

Lemma is0_news es : forall cur l rest,
  (forall e, In e es -> gl e /\ match e with c :: _ => is_space c = false | [] => True end) ->
  gl l -> (match l with c :: _ => is_space c = false | [] => True end) ->
  indent_split 0 cur (es ++ l :: rest) = (cur :: map (fun e => [e]) es) ++ indent_split 0 [l] rest.
Proof.
  induction es as [|e es IH]; intros cur l rest H Hl Hf.
  - cbn [app map]. now apply is0_new.
  - destruct (H e ltac:(now left)) as [Hg Hs]. cbn [app map]. rewrite is0_new by assumption.
    rewrite IH; [reflexivity| intros e' He'; apply H; now right | exact Hl | exact Hf].
Qed.

(** tokens of the LOCUS line *)
Lemma split_ws_word w r : w <> [] -> (forall c, In c w -> is_space c = false) ->
  split_ws_go [] (w ++ SP :: r) = w :: split_ws_go [] r.
Proof.
  intros Hne Hs. rewrite split_ws_go_word by exact Hs. rewrite app_nil_r. cbn [split_ws_go is_space SP].
  destruct (rev w) as [|x xs] eqn:E.
  { exfalso. apply Hne. rewrite <- (rev_involutive w), E. reflexivity. }
  rewrite <- E, rev_involutive. reflexivity.
Qed.

Lemma gb_token_props n : gb_token n = true ->
  n <> [] /\ (forall c, In c n -> is_space c = false) /\ (forall c, In c n -> plain c = true).
Proof.
  unfold gb_token. intros H. apply andb_true_iff in H. destruct H as [H1 H2].
  split; [destruct n; [discriminate|discriminate]|].
  split; intros c Hc; pose proof (forallb_In _ _ H2 c Hc) as Hx; cbn in Hx; apply andb_true_iff in Hx; destruct Hx as [Hp Hs].
  - destruct (is_space c); [discriminate|reflexivity].
  - exact Hp.
Qed.

Lemma locus_tokens name n : gb_token name = true ->
  exists T, split_ws (gb_locus_of name n) = s_locus :: name :: dec n :: T.
Proof.
  intros Hn. apply gb_token_props in Hn. destruct Hn as [Hne [Hs _]].
  unfold split_ws, gb_locus_of. eexists.
  change (repeat SP 7) with (SP :: repeat SP 6).
  match goal with |- context [ (SP :: repeat SP 6) ++ ?r ] =>
    change ((SP :: repeat SP 6) ++ r) with (SP :: (repeat SP 6 ++ r)) end.
  rewrite split_ws_word; [| discriminate | intros c Hc; cbn in Hc; unfold is_space; lia].
  cbn [repeat app split_ws_go is_space SP]. 
  rewrite split_ws_word by assumption.
  rewrite split_ws_word; [reflexivity| apply dec_nonempty | apply dec_nospace].
Qed.

Lemma handle_locus name n lo sq : gb_token name = true ->
  gb_handle [gb_locus_of name n] lo sq = GOk (Some name) sq.
Proof.
  intros Hn. destruct (locus_tokens name n Hn) as [T ET]. unfold gb_handle. rewrite ET. cbv beta iota.
  assert (E1 : str_eqb s_locus s_locus = true) by reflexivity. rewrite E1. rewrite parse_nat_dec. reflexivity.
Qed.

Lemma handle_extra e lo sq : ok_gb_extra e = true -> gb_handle [e] lo sq = GOk lo sq.
Proof.
  unfold ok_gb_extra. intros H. apply andb_true_iff in H. destruct H as [_ H].
  unfold gb_handle. destruct (split_ws e) as [|w toks]; [discriminate|].
  unfold safe_label in H. apply andb_true_iff in H. destruct H as [H1 H2].
  apply negb_true_iff in H1, H2.
  repeat (apply orb_false_iff in H1; destruct H1 as [H1 ?]).
  apply orb_false_iff in H2. destruct H2 as [Hq1 Hq2].
  repeat match goal with E : str_eqb _ _ = false |- _ => rewrite E; clear E end.
  reflexivity.
Qed.

Lemma ok_oline_props l : ok_oline l = true ->
  gl l /\ (match l with c :: _ => is_space c = true | [] => False end) /\
  startswith l s_origin = false /\ gb_seq_clean l = residues l /\
  (forall c, In c l -> c = SP \/ is_digit c = true \/ is_lower_letter c = true).
Proof.
  unfold ok_oline. intros H. apply andb_true_iff in H. destruct H as [H H3].
  apply andb_true_iff in H. destruct H as [H1 H2].
  assert (Hall : forall c, In c l -> c = SP \/ is_digit c = true \/ is_lower_letter c = true).
  { intros c Hc. pose proof (forallb_In _ _ H2 c Hc) as Hx. cbn beta in Hx.
    apply orb_true_iff in Hx. destruct Hx as [Hx|Hx]; [|right; now right].
    apply orb_true_iff in Hx. destruct Hx as [Hx|Hx]; [left; now apply Z.eqb_eq in Hx|right; now left]. }
  destruct l as [|c t]; [discriminate|].
  assert (Ec : c = SP) by lia. subst c.
  split; [split; [discriminate|]|split; [reflexivity|split; [reflexivity|split; [|exact Hall]]]].
  - apply rstrip_id. destruct (rev (SP :: t)) as [|x xs]; [exact I|].
    unfold is_lower_letter, is_space in *. lia.
  - unfold gb_seq_clean, residues. apply filter_ext_in. intros x Hx. apply Hall in Hx.
    unfold is_digit, is_lower_letter, SP, SLASH in *. lia.
Qed.

Lemma parse_sequence_olines ols : (forall l, In l ols -> ok_oline l = true) ->
  concat (map gb_seq_clean (filter (fun l => negb (startswith l s_origin)) ols)) = concat (map residues ols).
Proof.
  induction ols as [|l ols IH]; intros H; [reflexivity|].
  destruct (ok_oline_props l (H l ltac:(now left))) as [_ [_ [Hs [Hc _]]]].
  cbn [filter]. rewrite Hs. cbn [negb map concat]. rewrite Hc. f_equal. apply IH. intros l' Hl'. apply H. now right.
Qed.

Lemma handle_origin ols lo sq : (forall l, In l ols -> ok_oline l = true) ->
  gb_handle (s_origin :: ols) lo sq = GOk lo (Some (concat (map residues ols))).
Proof.
  intros H. unfold gb_handle. change (split_ws s_origin) with [s_origin]. cbv beta iota.
  assert (E1 : str_eqb s_origin s_locus = false) by reflexivity.
  assert (E2 : str_eqb s_origin s_origin = true) by reflexivity.
  rewrite E1, E2. f_equal. f_equal. unfold gb_parse_sequence. cbn [filter]. change (startswith s_origin s_origin) with true. cbn [negb].
  now apply parse_sequence_olines.
Qed.

Lemma ok_gb_extra_props e : ok_gb_extra e = true ->
  gl e /\ (match e with c :: _ => is_space c = false | [] => True end) /\ e <> s_double_slash /\
  (forall c, In c e -> plain c = true) /\ startswith e s_origin = false /\ startswith e s_double_slash = false.
Proof.
  unfold ok_gb_extra. intros H.
  repeat (apply andb_true_iff in H; destruct H as [H ?]).
  destruct e as [|c t]; [discriminate|].
  split; [split; [discriminate|]|split; [|split; [|split; [apply forallb_In; exact H|split]]]].
  - apply rstrip_id. destruct (rev (c :: t)) as [|x xs]; [exact I|]. destruct (is_space x); [discriminate|reflexivity].
  - destruct (is_space c); [discriminate|reflexivity].
  - intros E. rewrite E in *. discriminate.
  - destruct (startswith (c :: t) s_origin); [discriminate|reflexivity].
  - destruct (startswith (c :: t) s_double_slash); [discriminate|reflexivity].
Qed.

Lemma ok_gbx_props r : ok_gbx r = true ->
  gb_token (x_name r) = true /\ (forall e, In e (x_extra r) -> ok_gb_extra e = true) /\
  x_olines r <> [] /\ (forall l, In l (x_olines r) -> ok_oline l = true).
Proof.
  unfold ok_gbx. intros H.
  apply andb_true_iff in H. destruct H as [H H4]. apply andb_true_iff in H. destruct H as [H H3].
  apply andb_true_iff in H. destruct H as [H1 H2].
  split; [exact H1|]. split; [apply forallb_In; exact H2|]. split; [destruct (x_olines r); [discriminate|discriminate]|].
  apply forallb_In. exact H4.
Qed.

Lemma locus_line_props name n : gb_token name = true ->
  gl (gb_locus_of name n) /\ gb_locus_of name n <> s_double_slash /\
  (forall c, In c (gb_locus_of name n) -> is_brk c = false).
Proof.
  intros Hn. apply gb_token_props in Hn. destruct Hn as [_ [_ Hp]]. unfold gb_locus_of. split; [split|split].
  - discriminate.
  - apply rstrip_id. rewrite !rev_app_distr. reflexivity.
  - discriminate.
  - intros c Hc. apply in_app_or in Hc. destruct Hc as [Hc|Hc]; [cbn in Hc; unfold is_brk; lia|].
    apply in_app_or in Hc. destruct Hc as [Hc|Hc]; [apply repeat_spec in Hc; subst c; reflexivity|].
    apply in_app_or in Hc. destruct Hc as [Hc|Hc]; [apply Hp in Hc; now apply plain_props in Hc|].
    apply in_app_or in Hc. destruct Hc as [Hc|Hc]; [cbn in Hc; unfold is_brk, SP in *; lia|].
    apply in_app_or in Hc. destruct Hc as [Hc|Hc].
    + apply dec_nospace in Hc. destruct (is_brk c) eqn:E; [apply brk_is_space in E; congruence|reflexivity].
    + cbn in Hc. unfold is_brk, SP in *. lia.
Qed.

Lemma gbx_fields r : ok_gbx r = true ->
  gb_fields (indent_splitter (gbx_lines r)) None None = GOk (Some (x_name r)) (Some (gbx_seq r)).
Proof.
  intros Hr. apply ok_gbx_props in Hr. destruct Hr as [Hn [He [Hone Ho]]].
  destruct (locus_line_props (x_name r) (x_len r) Hn) as [[Hlne Hlr] _].
  unfold gbx_lines. cbn [indent_splitter]. rewrite Hlr.
  destruct (gb_locus_of (x_name r) (x_len r)) as [|c0 t0] eqn:EL; [congruence|]. rewrite <- EL.
  assert (Hind : indent_of (gb_locus_of (x_name r) (x_len r)) = O).
  { unfold indent_of, lstrip. rewrite lstrip_id; [apply Nat.sub_diag|]. unfold gb_locus_of. reflexivity. }
  rewrite Hind.
  rewrite is0_news.
  - rewrite is0_conts.
    + cbn [app indent_split]. change (rstrip s_double_slash) with s_double_slash. cbn [s_double_slash length Nat.ltb Nat.leb nth andb].
      change (is_space SLASH) with false. cbv iota. cbn [indent_split].
      (* the fields *)
      cbn [app gb_fields]. rewrite handle_locus by exact Hn.
      assert (Hex : forall es lo sq rest, (forall e, In e es -> ok_gb_extra e = true) ->
                gb_fields (map (fun e => [e]) es ++ rest) lo sq = gb_fields rest lo sq).
      { induction es as [|e es IH]; intros lo sq rest H; [reflexivity|].
        cbn [map app gb_fields]. rewrite handle_extra by (apply H; now left). apply IH. intros e' He'. apply H. now right. }
      rewrite Hex by exact He. cbn [gb_fields]. rewrite handle_origin by exact Ho.
      reflexivity.
    + intros l Hl. destruct (ok_oline_props l (Ho l Hl)) as [Hg [Hs _]]. split; assumption.
  - intros e Hx. destruct (ok_gb_extra_props e (He e Hx)) as [Hg [Hs _]]. split; assumption.
  - split; [discriminate|reflexivity].
  - reflexivity.
Qed.

Lemma gbx_lines_finder recs : (forall r, In r recs -> ok_gbx r = true) ->
  gb_finder [] (flat_map gbx_lines recs) = (map gbx_lines recs, []).
Proof.
  induction recs as [|r recs IH]; intros H; [reflexivity|].
  assert (Hr : ok_gbx r = true) by (apply H; now left). apply ok_gbx_props in Hr. destruct Hr as [Hn [He [_ Ho]]].
  cbn [flat_map map]. unfold gbx_lines at 1.
  change ((gb_locus_of (x_name r) (x_len r) :: x_extra r ++ s_origin :: x_olines r ++ [s_double_slash]) ++ flat_map gbx_lines recs)
    with ((gb_locus_of (x_name r) (x_len r) :: x_extra r ++ s_origin :: x_olines r ++ [s_double_slash]) ++ flat_map gbx_lines recs).
  replace ((gb_locus_of (x_name r) (x_len r) :: x_extra r ++ s_origin :: x_olines r ++ [s_double_slash]) ++ flat_map gbx_lines recs)
    with ((gb_locus_of (x_name r) (x_len r) :: x_extra r ++ s_origin :: x_olines r) ++ s_double_slash :: flat_map gbx_lines recs).
  2:{ cbn [app]. f_equal. rewrite <- !app_assoc. cbn [app]. rewrite <- app_assoc. reflexivity. }
  rewrite gb_finder_rec.
  - rewrite IH by (intros r' Hr'; apply H; now right). cbn [fst snd app]. unfold gbx_lines. f_equal. f_equal. f_equal.
    rewrite <- app_assoc. reflexivity.
  - intros l Hl. destruct Hl as [<-|Hl].
    + destruct (locus_line_props (x_name r) (x_len r) Hn) as [Hg [Hd _]]. split; assumption.
    + apply in_app_or in Hl. destruct Hl as [Hl|[<-|Hl]].
      * destruct (ok_gb_extra_props l (He l Hl)) as [Hg [_ [Hd _]]]. split; assumption.
      * split; [split; [discriminate|reflexivity]|discriminate].
      * destruct (ok_oline_props l (Ho l Hl)) as [Hg [Hs _]]. split; [exact Hg|].
        intros E. rewrite E in Hs. cbn in Hs. discriminate.
Qed.

Lemma gbx_records recs : (forall r, In r recs -> ok_gbx r = true) ->
  gb_records (map gbx_lines recs) = Some (gbx_expected recs).
Proof.
  induction recs as [|r recs IH]; intros H; [reflexivity|].
  cbn [map gb_records]. rewrite gbx_fields by (apply H; now left).
  rewrite IH by (intros r' Hr'; apply H; now right). reflexivity.
Qed.

Lemma gbx_lines_nobrk recs : (forall r, In r recs -> ok_gbx r = true) ->
  forall l, In l (flat_map gbx_lines recs) -> forall c, In c l -> is_brk c = false.
Proof.
  intros H l Hl c Hc. apply in_flat_map in Hl. destruct Hl as [r [Hr Hl]]. apply H in Hr.
  apply ok_gbx_props in Hr. destruct Hr as [Hn [He [_ Ho]]]. unfold gbx_lines in Hl.
  destruct Hl as [<-|Hl]; [now apply (locus_line_props (x_name r) (x_len r) Hn)|].
  apply in_app_or in Hl. destruct Hl as [Hl|[<-|Hl]].
  - destruct (ok_gb_extra_props l (He l Hl)) as [_ [_ [_ [Hp _]]]]. apply Hp in Hc. now apply plain_props in Hc.
  - cbn in Hc. unfold is_brk. lia.
  - apply in_app_or in Hl. destruct Hl as [Hl|[<-|[]]].
    + destruct (ok_oline_props l (Ho l Hl)) as [_ [_ [_ [_ Hall]]]]. apply Hall in Hc.
      unfold is_digit, is_lower_letter, is_brk, SP in *. lia.
    + cbn in Hc. unfold is_brk, SLASH in *. lia.
Qed.

Lemma gb_lines_roundtrip recs : (forall r, In r recs -> ok_gbx r = true) ->
  gb_lines_parser (py_splitlines (gbx_write recs)) = GRecs (gbx_expected recs).
Proof.
  intros H. unfold gbx_write. rewrite splitlines_join by (apply gbx_lines_nobrk; exact H).
  unfold gb_lines_parser. rewrite gbx_lines_finder by exact H. cbn [fst snd].
  rewrite gbx_records by exact H. reflexivity.
Qed.

Lemma gb_lines_stream recs chunks : (forall r, In r recs -> ok_gbx r = true) ->
  concat chunks = gbx_write recs ->
  gb_lines_parser (iter_splitlines chunks) = GRecs (gbx_expected recs).
Proof.
  intros H Hc. rewrite iter_splitlines_spec.
  - rewrite Hc. now apply gb_lines_roundtrip.
  - rewrite Hc. unfold gbx_write. apply join_lines_only_nl. apply gbx_lines_nobrk. exact H.
Qed.

(* ------------------------------------------------------------------ GenBank: the bytes reader *)

Lemma split_sep_ne sep k s : split_sep sep k s <> [].
Proof.
  revert k; induction s as [|c t IH]; intros k; cbn [split_sep]; [discriminate|].
  destruct k; [|apply IH]. destruct (startswith (c :: t) sep); [discriminate|].
  destruct (split_sep sep 0 t); discriminate.
Qed.

Definition consf (l : str) (ps : list str) : list str :=
  match ps with [] => [l] | p :: ps' => (l ++ p) :: ps' end.

Lemma split_sep_line w l X : (forall c, In c l -> c <> NL) ->
  split_sep (NL :: w) 0 (l ++ X) = consf l (split_sep (NL :: w) 0 X).
Proof.
  induction l as [|c l IH]; intros H.
  - cbn [app]. pose proof (split_sep_ne (NL :: w) 0 X). destruct (split_sep (NL :: w) 0 X); [congruence|reflexivity].
  - cbn [app split_sep startswith]. destruct (Z.eqb_spec c NL) as [E|_]; [exfalso; apply (H c); [now left|exact E]|].
    cbn [andb]. rewrite IH by (intros y Hy; apply H; now right).
    pose proof (split_sep_ne (NL :: w) 0 X). destruct (split_sep (NL :: w) 0 X); [congruence|reflexivity].
Qed.

Lemma split_sep_skip sep a r : split_sep sep (length a) (a ++ r) = split_sep sep 0 r.
Proof. induction a as [|c a IH]; [reflexivity|]. cbn [length app split_sep]. exact IH. Qed.

Lemma split_sep_hit w X : split_sep (NL :: w) 0 (NL :: w ++ X) = [] :: split_sep (NL :: w) 0 X.
Proof.
  cbn [split_sep startswith]. rewrite Z.eqb_refl. cbn [andb].
  assert (E : startswith (w ++ X) w = true).
  { induction w as [|y w IH]; [cbn [app]; destruct X; reflexivity|]. cbn [app startswith]. now rewrite Z.eqb_refl, IH. }
  rewrite E. cbn [length pred]. now rewrite split_sep_skip.
Qed.

Lemma split_sep_miss w X : startswith X w = false ->
  split_sep (NL :: w) 0 (NL :: X) = consf [NL] (split_sep (NL :: w) 0 X).
Proof.
  intros E. cbn [split_sep startswith]. rewrite Z.eqb_refl, E. cbn [andb].
  pose proof (split_sep_ne (NL :: w) 0 X). destruct (split_sep (NL :: w) 0 X); [congruence|reflexivity].
Qed.

Lemma startswith_line w : (forall c, In c w -> c <> NL) -> forall e Z_, startswith (e ++ NL :: Z_) w = startswith e w.
Proof.
  induction w as [|y w IH]; intros Hw e Z_; [destruct e; reflexivity|].
  destruct e as [|c e].
  - cbn [app startswith]. destruct (Z.eqb_spec NL y) as [E|_]; [exfalso; apply (Hw y); [now left|now symmetry]|reflexivity].
  - cbn [app startswith]. rewrite IH by (intros x Hx; apply Hw; now right). reflexivity.
Qed.

Definition nlines (ls : list str) : str := flat_map (fun l => NL :: l) ls.

Definition yok (Y : str) : Prop := Y = [] \/ exists Y', Y = NL :: Y'.

Lemma startswith_yok w : (forall c, In c w -> c <> NL) -> forall e Y, yok Y -> startswith (e ++ Y) w = startswith e w.
Proof.
  intros Hw e Y [->|[Y' ->]]; [now rewrite app_nil_r|]. now apply startswith_line.
Qed.

Lemma yok_nlines ls Y : yok Y -> yok (nlines ls ++ Y).
Proof. intros H. destruct ls as [|l ls]; [exact H|]. right. cbn [nlines flat_map app]. eexists. reflexivity. Qed.

Lemma split_sep_nlines w : (forall c, In c w -> c <> NL) -> forall ls Y, yok Y ->
  (forall l, In l ls -> (forall c, In c l -> c <> NL) /\ startswith l w = false) ->
  split_sep (NL :: w) 0 (nlines ls ++ Y) = consf (nlines ls) (split_sep (NL :: w) 0 Y).
Proof.
  intros Hw. induction ls as [|l ls IH]; intros Y HY H.
  - cbn [nlines flat_map app]. pose proof (split_sep_ne (NL :: w) 0 Y). destruct (split_sep (NL :: w) 0 Y); [congruence|reflexivity].
  - destruct (H l ltac:(now left)) as [Hl Hs]. cbn [nlines flat_map app]. fold (nlines ls).
    rewrite <- app_assoc. rewrite split_sep_miss.
    + rewrite split_sep_line by exact Hl. rewrite IH; [| exact HY | intros l' Hl'; apply H; now right].
      pose proof (split_sep_ne (NL :: w) 0 Y). destruct (split_sep (NL :: w) 0 Y); [congruence|].
      cbn [consf app]. now rewrite <- app_assoc.
    + rewrite startswith_yok; [exact Hs|exact Hw|]. now apply yok_nlines.
Qed.

(** the text of a record: first line, then the other lines each preceded by a newline *)
Definition gbx_features (r : gbx) : str := gb_locus_of (x_name r) (x_len r) ++ nlines (x_extra r).
Definition gbx_body (r : gbx) : str := gbx_features r ++ NL :: s_origin ++ nlines (x_olines r).

Lemma join_lines_nlines l ls : join_lines (l :: ls) = l ++ nlines ls ++ [NL].
Proof.
  revert l; induction ls as [|l2 ls IH]; intros l; [cbn; now rewrite app_nil_r|].
  change (join_lines (l :: l2 :: ls)) with ((l ++ [NL]) ++ join_lines (l2 :: ls)). rewrite IH. cbn [nlines flat_map].
  rewrite <- !app_assoc. reflexivity.
Qed.

Lemma nlines_app a b : nlines (a ++ b) = nlines a ++ nlines b.
Proof. unfold nlines. apply flat_map_app. Qed.

Lemma gbx_record_text r : join_lines (gbx_lines r) = gbx_body r ++ NL :: s_double_slash ++ [NL].
Proof.
  unfold gbx_lines. rewrite join_lines_nlines. unfold gbx_body, gbx_features.
  rewrite nlines_app. cbn [nlines flat_map]. fold (nlines (x_olines r ++ [s_double_slash])).
  rewrite nlines_app. cbn [nlines flat_map app]. rewrite app_nil_r.
  rewrite <- !app_assoc. cbn [app]. rewrite <- !app_assoc. reflexivity.
Qed.

Lemma gbx_text_split recs : gbx_write recs = flat_map (fun r => gbx_body r ++ NL :: s_double_slash ++ [NL]) recs.
Proof.
  unfold gbx_write. induction recs as [|r recs IH]; [reflexivity|].
  cbn [flat_map]. rewrite join_lines_app, gbx_record_text, IH. reflexivity.
Qed.

Lemma no_nl_of_nobrk l : (forall c, In c l -> is_brk c = false) -> forall c, In c l -> c <> NL.
Proof. intros H c Hc E. subst c. apply H in Hc. discriminate. Qed.

Lemma gbx_body_props r : ok_gbx r = true ->
  (forall c, In c (gb_locus_of (x_name r) (x_len r)) -> c <> NL) /\
  (forall l, In l (x_extra r) -> (forall c, In c l -> c <> NL) /\ startswith l s_origin = false /\ startswith l s_double_slash = false) /\
  (forall l, In l (x_olines r) -> (forall c, In c l -> c <> NL) /\ startswith l s_origin = false /\ startswith l s_double_slash = false).
Proof.
  intros Hr. apply ok_gbx_props in Hr. destruct Hr as [Hn [He [_ Ho]]]. split; [|split].
  - apply no_nl_of_nobrk. now apply (locus_line_props _ _ Hn).
  - intros l Hl. destruct (ok_gb_extra_props l (He l Hl)) as [_ [_ [_ [Hp [H1 H2]]]]].
    split; [|split; assumption]. apply no_nl_of_nobrk. intros c Hc. apply Hp in Hc. now apply plain_props in Hc.
  - intros l Hl. destruct (ok_oline_props l (Ho l Hl)) as [_ [Hs [H1 [_ Hall]]]].
    split; [|split; [exact H1|]].
    + intros c Hc E. subst c. apply Hall in Hc. unfold is_digit, is_lower_letter, SP, NL in Hc. lia.
    + destruct l as [|c t]; [destruct Hs|]. cbn [startswith s_double_slash]. 
      destruct (Z.eqb_spec c SLASH) as [E|_]; [subst c; cbn in Hs; discriminate|reflexivity].
Qed.

Lemma w_slash_nonl : forall c, In c s_double_slash -> c <> NL.
Proof. intros c Hc. cbn in Hc. unfold SLASH, NL in *. lia. Qed.
Lemma w_origin_nonl : forall c, In c s_origin -> c <> NL.
Proof. intros c Hc. cbn in Hc. unfold NL in *. lia. Qed.

(** pieces of data.split(b"\n//") *)
Lemma gbx_pieces recs : (forall r, In r recs -> ok_gbx r = true) ->
  split_sep s_nl_slashes 0 (gbx_write recs)
  = match recs with
    | [] => [[]]
    | r :: rest => gbx_body r :: map (fun r' => NL :: gbx_body r') rest ++ [[NL]]
    end.
Proof.
  intros H. rewrite gbx_text_split. unfold s_nl_slashes. change [NL; SLASH; SLASH] with (NL :: s_double_slash).
  assert (G : forall recs, (forall r, In r recs -> ok_gbx r = true) ->
            split_sep (NL :: s_double_slash) 0 (NL :: flat_map (fun r => gbx_body r ++ NL :: s_double_slash ++ [NL]) recs)
            = map (fun r' => NL :: gbx_body r') recs ++ [[NL]]).
  { clear recs H. induction recs as [|r recs IH]; intros H.
    - reflexivity.
    - assert (Hr : ok_gbx r = true) by (apply H; now left). destruct (gbx_body_props r Hr) as [HL [HE HO]].
      cbn [flat_map map app].
      rewrite split_sep_miss.
      2:{ unfold gbx_body, gbx_features, gb_locus_of. reflexivity. }
      unfold gbx_body at 1, gbx_features. rewrite <- !app_assoc.
      rewrite split_sep_line by exact HL.
      rewrite split_sep_nlines; [| exact w_slash_nonl | right; eexists; reflexivity | intros l Hl; destruct (HE l Hl) as [A [_ B]]; split; assumption].
      cbn [app]. rewrite split_sep_miss by reflexivity.
      rewrite <- !app_assoc.
      rewrite split_sep_line by exact w_origin_nonl.
      rewrite split_sep_nlines; [| exact w_slash_nonl | right; eexists; reflexivity | intros l Hl; destruct (HO l Hl) as [A [_ B]]; split; assumption].
      rewrite split_sep_hit. cbn [app]. rewrite IH by (intros r' Hr'; apply H; now right).
      cbn [consf app]. unfold gbx_body, gbx_features. rewrite <- !app_assoc. cbn [app]. rewrite app_nil_r. reflexivity. }
  destruct recs as [|r recs]; [reflexivity|].
  assert (Hr : ok_gbx r = true) by (apply H; now left). destruct (gbx_body_props r Hr) as [HL [HE HO]].
  cbn [flat_map]. unfold gbx_body at 1, gbx_features. rewrite <- !app_assoc.
  rewrite split_sep_line by exact HL.
  rewrite split_sep_nlines; [| exact w_slash_nonl | right; eexists; reflexivity | intros l Hl; destruct (HE l Hl) as [A [_ B]]; split; assumption].
  cbn [app]. rewrite split_sep_miss by reflexivity.
  rewrite <- !app_assoc.
  rewrite split_sep_line by exact w_origin_nonl.
  rewrite split_sep_nlines; [| exact w_slash_nonl | right; eexists; reflexivity | intros l Hl; destruct (HO l Hl) as [A [_ B]]; split; assumption].
  rewrite split_sep_hit. cbn [app]. rewrite G by (intros r' Hr'; apply H; now right).
  cbn [consf app]. unfold gbx_body, gbx_features. rewrite <- !app_assoc. cbn [app]. rewrite app_nil_r. reflexivity.
Qed.

Lemma gbx_origin_split r : ok_gbx r = true ->
  split_sep s_nl_origin 0 (gbx_body r) = [gbx_features r; nlines (x_olines r)].
Proof.
  intros Hr. destruct (gbx_body_props r Hr) as [HL [HE HO]].
  unfold s_nl_origin, gbx_body, gbx_features. rewrite <- !app_assoc.
  rewrite split_sep_line by exact HL.
  rewrite split_sep_nlines; [| exact w_origin_nonl | right; eexists; reflexivity | intros l Hl; destruct (HE l Hl) as [A [B _]]; split; assumption].
  rewrite split_sep_hit.
  rewrite <- (app_nil_r (nlines (x_olines r))).
  rewrite split_sep_nlines; [| exact w_origin_nonl | now left | intros l Hl; destruct (HO l Hl) as [A [B _]]; split; assumption].
  cbn [split_sep consf app]. rewrite !app_nil_r. reflexivity.
Qed.

(** bytes.split() tokens of the LOCUS line, also after features[:-1] cut its last character *)
Lemma split_bws_go_word a : forall cur T, (forall c, In c a -> is_bspace c = false) ->
  split_bws_go cur (a ++ T) = split_bws_go (rev a ++ cur) T.
Proof.
  induction a as [|c a IH]; intros cur T H; [reflexivity|].
  cbn [app split_bws_go]. rewrite (H c) by now left.
  rewrite IH by (intros y Hy; apply H; now right). cbn [rev]. now rewrite <- app_assoc.
Qed.

Lemma split_bws_word w r : w <> [] -> (forall c, In c w -> is_bspace c = false) ->
  split_bws_go [] (w ++ SP :: r) = w :: split_bws_go [] r.
Proof.
  intros Hne Hs. rewrite split_bws_go_word by exact Hs. rewrite app_nil_r. cbn [split_bws_go is_bspace SP].
  destruct (rev w) as [|x xs] eqn:E.
  { exfalso. apply Hne. rewrite <- (rev_involutive w), E. reflexivity. }
  rewrite <- E, rev_involutive. reflexivity.
Qed.

Lemma not_space_not_bspace c : is_space c = false -> is_bspace c = false.
Proof. intros H. destruct (is_bspace c) eqn:E; [apply bspace_is_space in E; congruence|reflexivity]. Qed.

Lemma locus_btokens name n tail : gb_token name = true ->
  split_bws (s_locus ++ repeat SP 7 ++ name ++ [SP] ++ dec n ++ SP :: tail)
  = s_locus :: name :: dec n :: split_bws_go [] tail.
Proof.
  intros Hn. apply gb_token_props in Hn. destruct Hn as [Hne [Hs _]]. unfold split_bws.
  change (repeat SP 7) with (SP :: repeat SP 6).
  match goal with |- context [ (SP :: repeat SP 6) ++ ?r ] =>
    change ((SP :: repeat SP 6) ++ r) with (SP :: (repeat SP 6 ++ r)) end.
  rewrite split_bws_word; [| discriminate | intros c Hc; cbn in Hc; unfold is_bspace; lia].
  cbn [repeat app split_bws_go is_bspace SP].
  rewrite split_bws_word; [| exact Hne | intros c Hc; apply not_space_not_bspace; now apply Hs].
  rewrite split_bws_word; [reflexivity| apply dec_nonempty | intros c Hc; apply not_space_not_bspace; eapply dec_nospace; exact Hc].
Qed.

Lemma first_line_tokens r : ok_gbx r = true ->
  exists T, split_bws (first_line_py (gbx_features r)) = s_locus :: x_name r :: T.
Proof.
  intros Hr. destruct (gbx_body_props r Hr) as [HL _]. apply ok_gbx_props in Hr. destruct Hr as [Hn _].
  unfold first_line_py, gbx_features. destruct (x_extra r) as [|e es].
  - cbn [nlines flat_map]. rewrite app_nil_r.
    assert (Hnone : split1 NL (gb_locus_of (x_name r) (x_len r)) = None).
    { clear -HL. induction (gb_locus_of (x_name r) (x_len r)) as [|c t IH]; [reflexivity|].
      cbn [split1]. destruct (Z.eqb_spec c NL) as [E|_]; [exfalso; apply (HL c); [now left|exact E]|].
      rewrite IH by (intros y Hy; apply HL; now right). reflexivity. }
    rewrite Hnone. unfold gb_locus_of.
    replace (s_locus ++ repeat SP 7 ++ x_name r ++ [SP] ++ dec (x_len r) ++ [SP; 98; 112; SP; SP; SP; SP; 68; 78; 65])
      with ((s_locus ++ repeat SP 7 ++ x_name r ++ [SP] ++ dec (x_len r) ++ [SP; 98; 112; SP; SP; SP; SP; 68; 78]) ++ [65])
      by (rewrite <- !app_assoc; reflexivity).
    rewrite removelast_last. eexists.
    rewrite (locus_btokens (x_name r) (x_len r) [98; 112; SP; SP; SP; SP; 68; 78] Hn). reflexivity.
  - cbn [nlines flat_map app]. rewrite split1_app by exact HL.
    unfold gb_locus_of. eexists.
    rewrite (locus_btokens (x_name r) (x_len r) [98; 112; SP; SP; SP; SP; 68; 78; 65] Hn). reflexivity.
Qed.

Definition gbkeep (c : Z) : bool := negb ((c =? 10) || (c =? 13) || (c =? 9) || (c =? 32) || ((48 <=? c) && (c <=? 57))).

Lemma gbkeep_nlines ols : (forall l, In l ols -> ok_oline l = true) ->
  filter gbkeep (nlines ols) = concat (map residues ols).
Proof.
  induction ols as [|l ols IH]; intros H; [reflexivity|].
  cbn [nlines flat_map map concat app]. fold (nlines ols).
  change (filter gbkeep (NL :: l ++ nlines ols)) with (filter gbkeep (l ++ nlines ols)).
  rewrite filter_app. rewrite IH by (intros l' Hl'; apply H; now right). f_equal.
  destruct (ok_oline_props l (H l ltac:(now left))) as [_ [_ [_ [_ Hall]]]].
  unfold residues. apply filter_ext_in. intros c Hc. apply Hall in Hc.
  unfold gbkeep, is_digit, is_lower_letter, SP in *. lia.
Qed.

Lemma gb_converter_nlines ols : (forall l, In l ols -> ok_oline l = true) ->
  gb_converter (nlines ols) = ascii_upper (concat (map residues ols)).
Proof.
  intros H. unfold gb_converter. fold gbkeep. now rewrite gbkeep_nlines.
Qed.

Lemma sl_nlines l0 es : l0 <> [] -> nobrk l0 -> (forall e, In e es -> e <> [] /\ nobrk e) ->
  py_splitlines (l0 ++ nlines es) = l0 :: es.
Proof.
  unfold py_splitlines. revert l0; induction es as [|e es IH]; intros l0 Hne Hn H.
  - cbn [nlines flat_map]. rewrite app_nil_r. now apply sl_nobrk.
  - cbn [nlines flat_map app]. fold (nlines es). rewrite sl_line by exact Hn.
    destruct (H e ltac:(now left)) as [He1 He2]. f_equal. apply IH; [exact He1|exact He2|].
    intros e' He'. apply H. now right.
Qed.

Lemma is0_end es : forall cur, cur <> [] ->
  (forall e, In e es -> gl e /\ match e with c :: _ => is_space c = false | [] => True end) ->
  indent_split 0 cur es = cur :: map (fun e => [e]) es.
Proof.
  induction es as [|e es IH]; intros cur Hc H.
  - cbn. destruct cur; [congruence|reflexivity].
  - destruct (H e ltac:(now left)) as [Hg Hs]. rewrite is0_new by assumption. cbn [map]. f_equal.
    apply IH; [discriminate|]. intros e' He'. apply H. now right.
Qed.

Lemma gbx_metadata r : ok_gbx r = true ->
  gb_fields (indent_splitter (py_splitlines (gbx_features r))) None None = GOk (Some (x_name r)) None.
Proof.
  intros Hr. pose proof Hr as Hr0. apply ok_gbx_props in Hr. destruct Hr as [Hn [He _]].
  destruct (locus_line_props (x_name r) (x_len r) Hn) as [[Hlne Hlr] [_ Hnb]].
  unfold gbx_features. rewrite sl_nlines.
  - cbn [indent_splitter]. rewrite Hlr.
    destruct (gb_locus_of (x_name r) (x_len r)) as [|c0 t0] eqn:EL; [congruence|]. rewrite <- EL.
    assert (Hind : indent_of (gb_locus_of (x_name r) (x_len r)) = O).
    { unfold indent_of, lstrip. rewrite lstrip_id; [apply Nat.sub_diag|]. unfold gb_locus_of. reflexivity. }
    rewrite Hind. rewrite is0_end.
    + cbn [gb_fields]. rewrite handle_locus by exact Hn.
      assert (Hex : forall es lo sq, (forall e, In e es -> ok_gb_extra e = true) ->
                gb_fields (map (fun e => [e]) es) lo sq = GOk lo sq).
      { induction es as [|e es IH]; intros lo sq H; [reflexivity|].
        cbn [map gb_fields]. rewrite handle_extra by (apply H; now left). apply IH. intros e' He'. apply H. now right. }
      now apply Hex.
    + discriminate.
    + intros e Hx. destruct (ok_gb_extra_props e (He e Hx)) as [Hg [Hs _]]. split; assumption.
  - exact Hlne.
  - exact Hnb.
  - intros e Hx. destruct (ok_gb_extra_props e (He e Hx)) as [[Hne _] [_ [_ [Hp _]]]]. split; [exact Hne|].
    intros c Hc. apply Hp in Hc. now apply plain_props in Hc.
Qed.

Lemma gbx_bytes_record r : ok_gbx r = true ->
  gb_bytes_record (gbx_body r) = GRecs [(Some (x_name r), Some (ascii_upper (gbx_seq r)))].
Proof.
  intros Hr. unfold gb_bytes_record. rewrite gbx_origin_split by exact Hr.
  destruct (first_line_tokens r Hr) as [T ET]. rewrite ET.
  rewrite gbx_metadata by exact Hr.
  apply ok_gbx_props in Hr. destruct Hr as [_ [_ [_ Ho]]].
  rewrite gb_converter_nlines by exact Ho. reflexivity.
Qed.

Lemma lstrip_body r : ok_gbx r = true ->
  lstrip_by is_bspace (gbx_body r) = gbx_body r /\ lstrip_by is_bspace (NL :: gbx_body r) = gbx_body r /\ gbx_body r <> [].
Proof.
  intros _. unfold gbx_body, gbx_features, gb_locus_of. repeat split; try reflexivity. discriminate.
Qed.

Lemma gb_bytes_fixed_roundtrip recs : (forall r, In r recs -> ok_gbx r = true) ->
  gb_bytes_parser true (gbx_write recs) = GRecs (gbx_expected_upper recs).
Proof.
  intros H. unfold gb_bytes_parser. rewrite gbx_pieces by exact H.
  destruct recs as [|r recs]; [reflexivity|].
  assert (G : forall recs, (forall r, In r recs -> ok_gbx r = true) ->
            gb_bytes_go true (map (fun r' => NL :: gbx_body r') recs ++ [[NL]]) = GRecs (gbx_expected_upper recs)).
  { clear. induction recs as [|r recs IH]; intros H; [reflexivity|].
    assert (Hr : ok_gbx r = true) by (apply H; now left). destruct (lstrip_body r Hr) as [_ [L2 Lne]].
    cbn [map app gb_bytes_go]. rewrite L2. destruct (gbx_body r) as [|c0 t0] eqn:E; [congruence|]. rewrite <- E.
    rewrite gbx_bytes_record by exact Hr. rewrite IH by (intros r' Hr'; apply H; now right). reflexivity. }
  assert (Hr : ok_gbx r = true) by (apply H; now left). destruct (lstrip_body r Hr) as [L1 [_ Lne]].
  cbn [gb_bytes_go]. rewrite L1. destruct (gbx_body r) as [|c0 t0] eqn:E; [congruence|]. rewrite <- E.
  rewrite gbx_bytes_record by exact Hr. rewrite G by (intros r' Hr'; apply H; now right). reflexivity.
Qed.

(** pinned source (records are not stripped): a single record is read ... *)
Lemma gb_bytes_pinned_single r : ok_gbx r = true ->
  gb_bytes_parser false (gbx_write [r]) = GRecs (gbx_expected_upper [r]).
Proof.
  intros Hr. unfold gb_bytes_parser. rewrite gbx_pieces by (intros r' [<-|[]]; exact Hr).
  cbn [map app gb_bytes_go]. destruct (lstrip_body r Hr) as [_ [_ Lne]].
  assert (Hns : bytes_isspace (gbx_body r) = false).
  { unfold gbx_body, gbx_features, gb_locus_of. reflexivity. }
  rewrite Hns. rewrite gbx_bytes_record by exact Hr. reflexivity.
Qed.

(** ... but every file with more than one record raises IndexError (finding genbank-parsers:bytes-readers:multi-record) *)
Definition gbx_w1 : gbx := {| x_name := [65; 66]; x_len := 4; x_extra := []; x_olines := [[32; 49; 32; 97; 99; 103; 116]] |}.
Lemma gb_bytes_pinned_multi_refuted :
  ok_gbx gbx_w1 = true /\ gb_bytes_parser false (gbx_write [gbx_w1; gbx_w1]) = GErr 1
  /\ gb_lines_parser (py_splitlines (gbx_write [gbx_w1; gbx_w1])) = GRecs (gbx_expected [gbx_w1; gbx_w1]).
Proof. repeat split; vm_compute; reflexivity. Qed.

(** the standard layout is an instance of the grammar *)
Lemma gbx_of_lines r : gbx_lines (gbx_of r) = gb_record_lines r.
Proof. reflexivity. Qed.

Example gbx_standard_ex :
  let r := {| gb_name := [65; 66; 49; 50; 51]; gb_extra := [[68; 69; 70; 73; 78; 73; 84; 73; 79; 78; 32; 32; 120; 46]];
              gb_seq := repeat 97 61 ++ [99; 103; 116] |} in
  ok_gbx (gbx_of r) = true /\ gbx_seq (gbx_of r) = gb_seq r.
Proof. split; vm_compute; reflexivity. Qed.

Definition upper_rec (p : option str * option str) : option str * option str :=
  (fst p, match snd p with Some s => Some (ascii_upper s) | None => None end).

Lemma gbx_expected_upper_map recs : gbx_expected_upper recs = map upper_rec (gbx_expected recs).
Proof. unfold gbx_expected_upper, gbx_expected. rewrite map_map. reflexivity. Qed.

Lemma gb_readers_agree_fixed recs : (forall r, In r recs -> ok_gbx r = true) ->
  exists l, gb_lines_parser (py_splitlines (gbx_write recs)) = GRecs l
            /\ gb_bytes_parser true (gbx_write recs) = GRecs (map upper_rec l).
Proof.
  intros H. exists (gbx_expected recs). split; [now apply gb_lines_roundtrip|].
  rewrite gb_bytes_fixed_roundtrip by exact H. now rewrite gbx_expected_upper_map.
Qed.

(* ------------------------------------------------------------------ file names: (format, compression) *)

Fixpoint join_dot (comps : list str) : str :=
  match comps with
  | [] => []
  | [c] => c
  | c :: t => c ++ ch_dot :: join_dot t
  end.

(** a component of a file name: non-empty, without '.' and '/' *)
Definition ok_comp (c : str) : bool :=
  match c with [] => false | _ => forallb (fun x => negb (x =? ch_dot) && negb (x =? ch_slash)) c end.

Lemma ok_comp_props c : ok_comp c = true -> c <> [] /\ (forall x, In x c -> x <> ch_dot) /\ (forall x, In x c -> x <> ch_slash).
Proof.
  unfold ok_comp. destruct c as [|a t]; [discriminate|]. intros H. split; [discriminate|].
  split; intros x Hx; pose proof (forallb_In _ _ H x Hx) as Hy; cbn in Hy; lia.
Qed.

Lemma join_dot_cons c t : t <> [] -> join_dot (c :: t) = c ++ ch_dot :: join_dot t.
Proof. destruct t; [congruence|reflexivity]. Qed.

Lemma join_dot_snoc cs b : cs <> [] -> join_dot (cs ++ [b]) = join_dot cs ++ ch_dot :: b.
Proof.
  induction cs as [|c cs IH]; intros H; [congruence|]. destruct cs as [|c2 cs'].
  - reflexivity.
  - change ((c :: c2 :: cs') ++ [b]) with (c :: (c2 :: cs') ++ [b]).
    rewrite join_dot_cons by (destruct cs'; discriminate). rewrite IH by discriminate.
    rewrite (join_dot_cons c (c2 :: cs')) by discriminate. now rewrite <- app_assoc.
Qed.

Lemma join_dot_chars cs x : In x (join_dot cs) -> x = ch_dot \/ exists c, In c cs /\ In x c.
Proof.
  induction cs as [|c cs IH]; [intros []|]. destruct cs as [|c2 cs'].
  - cbn. intros H. right. exists c. split; [now left|exact H].
  - rewrite join_dot_cons by discriminate. intros H. apply in_app_or in H. destruct H as [H|[<-|H]].
    + right. exists c. split; [now left|exact H].
    + now left.
    + destruct (IH H) as [->|[c' [Hc' Hx]]]; [now left|]. right. exists c'. split; [now right|exact Hx].
Qed.

Lemma split_on_free x a : (forall c, In c a -> c <> x) -> split_on x a = [a].
Proof.
  induction a as [|c a IH]; intros H; [reflexivity|]. cbn [split_on]. rewrite IH by (intros y Hy; apply H; now right).
  destruct (Z.eqb_spec c x) as [E|_]; [exfalso; apply (H c); [now left|exact E]|reflexivity].
Qed.

Lemma split_on_join cs : cs <> [] -> (forall c, In c cs -> ok_comp c = true) -> split_on ch_dot (join_dot cs) = cs.
Proof.
  induction cs as [|c cs IH]; intros Hne H; [congruence|].
  destruct (ok_comp_props c (H c ltac:(now left))) as [_ [Hd _]].
  destruct cs as [|c2 cs'].
  - cbn [join_dot]. now apply split_on_free.
  - rewrite join_dot_cons by discriminate.
    rewrite (split_on_app_free ch_dot c _ [] (c2 :: cs')).
    + now rewrite app_nil_r.
    + exact Hd.
    + cbn [split_on]. rewrite IH; [| discriminate | intros c' Hc'; apply H; now right].
      now rewrite Z.eqb_refl.
Qed.

Lemma endswith_last s c d : endswith (s ++ [c]) [d] = (c =? d).
Proof.
  induction s as [|x s IH].
  - cbn. destruct (c =? d); reflexivity.
  - cbn [app endswith]. rewrite IH. cbn [str_eqb]. destruct (s ++ [c]) eqn:E; [destruct s; discriminate|].
    now rewrite andb_false_r.
Qed.

Lemma split1_none x s : (forall c, In c s -> c <> x) -> split1 x s = None.
Proof.
  induction s as [|c s IH]; intros H; [reflexivity|]. cbn [split1].
  destruct (Z.eqb_spec c x) as [E|_]; [exfalso; apply (H c); [now left|exact E]|].
  now rewrite IH by (intros y Hy; apply H; now right).
Qed.

Lemma rsplit1_none x s : (forall c, In c s -> c <> x) -> rsplit1 x s = None.
Proof. intros H. unfold rsplit1. rewrite split1_none; [reflexivity|]. intros c Hc. apply H. now apply in_rev. Qed.

Lemma rsplit1_snoc x a b : (forall c, In c b -> c <> x) -> rsplit1 x (a ++ x :: b) = Some (a, b).
Proof.
  intros H. unfold rsplit1. rewrite rev_app_distr. cbn [rev]. rewrite <- app_assoc. cbn [app].
  rewrite split1_app by (intros c Hc; apply H; now apply in_rev). now rewrite !rev_involutive.
Qed.

Definition ok_comps (cs : list str) : Prop := forall c, In c cs -> ok_comp c = true.

Lemma join_dot_noslash cs x : ok_comps cs -> In x (join_dot cs) -> x <> ch_slash.
Proof.
  intros H Hx. apply join_dot_chars in Hx. destruct Hx as [->|[c [Hc Hx]]]; [discriminate|].
  now apply (ok_comp_props c (H c Hc)).
Qed.

Lemma join_dot_ne cs : cs <> [] -> ok_comps cs -> join_dot cs <> [].
Proof.
  destruct cs as [|c cs]; [congruence|]. intros _ H. destruct (ok_comp_props c (H c ltac:(now left))) as [Hne _].
  destruct cs; [exact Hne|]. rewrite join_dot_cons by discriminate. destruct c; [congruence|discriminate].
Qed.

(** the suffixes pathlib reports for a name with stem components [st] (at least one) and further components [sf] *)
Lemma suffixes_of_name c0 rest : ok_comps (c0 :: rest) -> rest <> [] ->
  path_name (join_dot (c0 :: rest)) = join_dot (c0 :: rest) /\
  path_suffix (join_dot (c0 :: rest)) <> [] /\
  path_suffixes (join_dot (c0 :: rest)) = map (fun x => ch_dot :: x) rest.
Proof.
  intros H Hr. set (name := join_dot (c0 :: rest)).
  assert (Hname : path_name name = name).
  { unfold path_name. rewrite rsplit1_none; [reflexivity|]. intros x Hx. now apply (join_dot_noslash (c0 :: rest)). }
  split; [exact Hname|].
  destruct (exists_last Hr) as [pre [b ->]].
  assert (Hb : ok_comp b = true) by (apply H; right; apply in_or_app; right; now left).
  destruct (ok_comp_props b Hb) as [Hbne [Hbd _]].
  assert (Esn : name = join_dot (c0 :: pre) ++ ch_dot :: b).
  { unfold name. change (c0 :: pre ++ [b]) with ((c0 :: pre) ++ [b]). apply join_dot_snoc. discriminate. }
  split.
  - unfold path_suffix. rewrite Esn, rsplit1_snoc by exact Hbd.
    assert (Hpre : join_dot (c0 :: pre) <> []).
    { apply join_dot_ne; [discriminate|]. intros c Hc. apply H. destruct Hc as [<-|Hc]; [now left|right; apply in_or_app; now left]. }
    destruct (join_dot (c0 :: pre)); [congruence|]. destruct b; [congruence|discriminate].
  - unfold path_suffixes.
    assert (Hend : endswith name [ch_dot] = false).
    { rewrite Esn. destruct (exists_last Hbne) as [b' [x Eb]]. rewrite Eb.
      change (join_dot (c0 :: pre) ++ ch_dot :: b' ++ [x]) with (join_dot (c0 :: pre) ++ (ch_dot :: b') ++ [x]).
      rewrite app_assoc, endswith_last. destruct (Z.eqb_spec x ch_dot) as [E|_]; [|reflexivity].
      exfalso. apply (Hbd x); [rewrite Eb; apply in_or_app; right; now left|exact E]. }
    rewrite Hend.
    assert (Hl : lstrip_ch ch_dot name = name).
    { unfold name. destruct (ok_comp_props c0 (H c0 ltac:(now left))) as [Hc0 [Hd0 _]].
      destruct c0 as [|a t]; [congruence|]. rewrite join_dot_cons by exact Hr. cbn [app lstrip_ch].
      destruct (Z.eqb_spec a ch_dot) as [E|_]; [exfalso; apply (Hd0 a); [now left|exact E]|reflexivity]. }
    rewrite Hl. unfold name. rewrite split_on_join by (discriminate || exact H). reflexivity.
Qed.

Lemma snoc_cases {A} (l : list A) : l = [] \/ exists pre a, l = pre ++ [a].
Proof. destruct l as [|x l]; [now left|]. right. destruct (@exists_last _ (x :: l) ltac:(discriminate)) as [pre [a E]]. now exists pre, a. Qed.

Lemma last_n_two {A} (pre : list A) a b : last_n 2 (pre ++ [a; b]) = [a; b].
Proof.
  unfold last_n. rewrite app_length. cbn [length]. replace (length pre + 2 - 2)%nat with (length pre) by lia.
  rewrite skipn_app, skipn_all, Nat.sub_diag. reflexivity.
Qed.

Lemma last_n_one {A} (a : A) : last_n 2 [a] = [a].
Proof. reflexivity. Qed.

Definition lower_is (s : str) : Prop := ascii_lower s = s.

(** uncompressed: the format is the last suffix (lower-cased), for EVERY dotted stem *)
Lemma gfs_plain st f : st <> [] -> ok_comps (st ++ [f]) -> mem_str (ascii_lower f) compression_suffixes = false ->
  get_format_suffixes (join_dot (st ++ [f])) = (Some (ascii_lower f), None).
Proof.
  intros Hst H Hnc. destruct st as [|c0 st']; [congruence|]. cbn [app] in *.
  destruct (suffixes_of_name c0 (st' ++ [f]) H ltac:(destruct st'; discriminate)) as [E1 [E2 E3]].
  unfold get_format_suffixes. rewrite E1, E3. destruct (path_suffix (join_dot (c0 :: st' ++ [f]))) as [|s0 s1]; [congruence|].
  rewrite map_app. cbn [map].
  destruct (snoc_cases st') as [->|[pre [a ->]]].
  - cbn [map app]. rewrite last_n_one. cbn [map tl last]. rewrite Hnc. reflexivity.
  - rewrite map_app. cbn [map]. rewrite <- app_assoc. cbn [app]. rewrite last_n_two. cbn [map tl last]. rewrite Hnc. reflexivity.
Qed.

(** compressed: the compression is the last suffix, the format the one before it, for EVERY dotted stem *)
Lemma gfs_compressed st f cmp : st <> [] -> ok_comps (st ++ [f; cmp]) ->
  mem_str (ascii_lower cmp) compression_suffixes = true ->
  get_format_suffixes (join_dot (st ++ [f; cmp])) = (Some (ascii_lower f), Some (ascii_lower cmp)).
Proof.
  intros Hst H Hc. destruct st as [|c0 st']; [congruence|]. cbn [app] in *.
  destruct (suffixes_of_name c0 (st' ++ [f; cmp]) H ltac:(destruct st'; discriminate)) as [E1 [E2 E3]].
  unfold get_format_suffixes. rewrite E1, E3. destruct (path_suffix (join_dot (c0 :: st' ++ [f; cmp]))) as [|s0 s1]; [congruence|].
  rewrite map_app. cbn [map]. rewrite last_n_two. cbn [map tl last]. rewrite Hc. reflexivity.
Qed.

(** a name that is only stem + compression suffix has no format *)
Lemma gfs_only_compression c0 cmp : ok_comps [c0; cmp] -> mem_str (ascii_lower cmp) compression_suffixes = true ->
  get_format_suffixes (join_dot [c0; cmp]) = (None, Some (ascii_lower cmp)).
Proof.
  intros H Hc. destruct (suffixes_of_name c0 [cmp] H ltac:(discriminate)) as [E1 [E2 E3]].
  unfold get_format_suffixes. rewrite E1, E3. destruct (path_suffix (join_dot [c0; cmp])) as [|s0 s1]; [congruence|].
  cbn [map]. rewrite last_n_one. cbn [map tl last]. rewrite Hc. reflexivity.
Qed.

(** "ENSG00000012048.23.fasta.gz" *)
Example gfs_ex :
  get_format_suffixes [69;78;83;71;48;48;48;48;48;48;49;50;48;52;56;46;50;51;46;102;97;115;116;97;46;103;122]
  = (Some [102;97;115;116;97], Some [103;122]).
Proof. reflexivity. Qed.
