(** C08 — pointwise reading of [abs], the alignment->sequence index
    conversion and the slicing theorem of the IndelMap model. *)
From CG3 Require Import Lib.PyZ Lib.Val Model.IndelMap Spec.IndelMapSpec Proofs.IndelMapProofs.

Local Open Scope Z_scope.

(** * Part 4: [abs] read position by position *)

(** "alignment coordinate [x] lies inside some gap"; [pc] is the cumulative
    gap length before the head of the lists *)
Fixpoint gapcov (pc : Z) (gp cl : list Z) (x : Z) : bool :=
  match gp, cl with
  | p :: gp', c :: cl' => ((p + pc <=? x) && (x <? p + c)) || gapcov c gp' cl' x
  | _, _ => false
  end.

(** head may coincide with the previous insertion point (only for the very
    first gap, [gap_pos[0] = 0]) *)
Definition wfx (pp pc : Z) (gp cl : list Z) (plen : Z) : Prop :=
  match gp, cl with
  | [], [] => pp <= plen
  | p :: gp', c :: cl' => pp <= p /\ pc < c /\ wf_from p c gp' cl' plen
  | _, _ => False
  end.

Lemma wf_from_wfx pp pc gp cl plen : wf_from pp pc gp cl plen -> wfx pp pc gp cl plen.
Proof.
  destruct gp as [|p gp]; destruct cl as [|c cl]; cbn [wf_from wfx]; auto.
  intros (A & B & D). repeat split; auto; lia.
Qed.

Lemma WF_wfx m : WF m -> wfx 0 0 (gap_pos m) (cum_gap_lengths m) (parent_length m).
Proof.
  intros (Hp & H). destruct (gap_pos m) as [|p gp]; destruct (cum_gap_lengths m) as [|c cl];
    cbn [wf_from wfx] in *; auto. destruct H as (A & B & D). repeat split; auto; lia.
Qed.

Lemma gapcov_below gp : forall pp pc cl plen x,
  wfx pp pc gp cl plen -> x < pp + pc -> gapcov pc gp cl x = false.
Proof.
  induction gp as [|p gp IH]; intros pp pc cl plen x Hw Hx; destruct cl as [|c cl]; cbn [gapcov]; auto.
  cbn [wfx] in Hw. destruct Hw as (A & B & D).
  rewrite (IH p c cl plen x (wf_from_wfx _ _ _ _ _ D)) by lia.
  destruct (p + pc <=? x) eqn:E; [lia|]. reflexivity.
Qed.

Lemma zlen_expand gp : forall pp pc cl plen, wfx pp pc gp cl plen ->
  zlen (expand pp pc gp cl plen) = (plen - pp) + (cpv pc cl (zlen gp) - pc) /\ pp <= plen.
Proof.
  induction gp as [|p gp IH]; intros pp pc cl plen Hw; destruct cl as [|c cl]; cbn [wfx] in Hw; try contradiction.
  - cbn [expand]. rewrite zlen_repeat. unfold cpv. znil. cbn. lia.
  - destruct Hw as (A & B & D). cbn [expand]. rewrite !zlen_app, !zlen_repeat.
    destruct (IH p c cl plen (wf_from_wfx _ _ _ _ _ D)) as (E1 & E2). rewrite E1. rewrite zlen_cons.
    pose proof (zlen_nonneg gp) as Hn. split; [|lia].
    unfold cpv. destruct (zlen gp <=? 0) eqn:F1; destruct (1 + zlen gp <=? 0) eqn:F2; try lia.
    + assert (zlen gp = 0) as -> by lia. change (1 + 0 - 1) with 0. rewrite znth_0. lia.
    + rewrite (znth_pos 0 c cl (1 + zlen gp - 1)) by lia.
      replace (1 + zlen gp - 1 - 1) with (zlen gp - 1) by lia. lia.
Qed.

Lemma znth_expand gp : forall pp pc cl plen i, wfx pp pc gp cl plen ->
  0 <= i < zlen (expand pp pc gp cl plen) ->
  znth true (expand pp pc gp cl plen) i = negb (gapcov pc gp cl (pp + pc + i)).
Proof.
  induction gp as [|p gp IH]; intros pp pc cl plen i Hw Hi; destruct cl as [|c cl]; cbn [wfx] in Hw; try contradiction.
  - cbn [expand gapcov] in *. rewrite zlen_repeat in Hi. rewrite znth_repeat by lia. reflexivity.
  - destruct Hw as (A & B & D). pose proof (wf_from_wfx _ _ _ _ _ D) as D'.
    cbn [expand gapcov] in *. rewrite !zlen_app, !zlen_repeat in Hi.
    destruct (Z_lt_dec i (p - pp)) as [L1|L1].
    + rewrite znth_app_l by (rewrite zlen_repeat; lia). rewrite znth_repeat by lia.
      rewrite (gapcov_below gp p c cl plen) by (auto; lia).
      destruct (p + pc <=? pp + pc + i) eqn:E; [lia|]. reflexivity.
    + rewrite znth_app_r by (rewrite zlen_repeat; lia). rewrite zlen_repeat.
      destruct (Z_lt_dec i (p - pp + (c - pc))) as [L2|L2].
      * rewrite znth_app_l by (rewrite zlen_repeat; lia). rewrite znth_repeat by lia.
        destruct (p + pc <=? pp + pc + i) eqn:E1; [|lia]. destruct (pp + pc + i <? p + c) eqn:E2; [|lia].
        reflexivity.
      * rewrite znth_app_r by (rewrite zlen_repeat; lia). rewrite zlen_repeat.
        rewrite IH; [|exact D'|]. 2:{ Show. lia. }
        replace (p + c + (i - Z.of_nat (Z.to_nat (p - pp)) - Z.of_nat (Z.to_nat (c - pc)))) with (pp + pc + i) by lia.
        destruct (pp + pc + i <? p + c) eqn:E2; [lia|]. rewrite andb_false_r. reflexivity.
Qed.

(** [gapcov] in index form *)
Lemma gapcov_true gp : forall pc cl x, zlen gp = zlen cl ->
  gapcov pc gp cl x = true ->
  exists j, 0 <= j < zlen gp /\ znth 0 gp j + cpv pc cl j <= x < znth 0 gp j + znth 0 cl j.
Proof.
  induction gp as [|p gp IH]; intros pc cl x Hl H; destruct cl as [|c cl]; cbn [gapcov] in H; try discriminate.
  rewrite !zlen_cons in *. apply orb_prop in H. destruct H as [H|H].
  - exists 0. pose proof (zlen_nonneg gp). rewrite !znth_0. unfold cpv. cbn. lia.
  - destruct (IH c cl x ltac:(lia) H) as (j & Hj & Hx). exists (j + 1).
    rewrite !(znth_pos 0 _ _ (j + 1)) by lia. replace (j + 1 - 1) with j by lia.
    split; [lia|]. unfold cpv in *. destruct (j + 1 <=? 0) eqn:E; [lia|].
    destruct (j <=? 0) eqn:E2.
    + assert (j = 0) as -> by lia. change (0 + 1 - 1) with 0. rewrite znth_0. lia.
    + rewrite (znth_pos 0 c cl (j + 1 - 1)) by lia. replace (j + 1 - 1 - 1) with (j - 1) by lia. lia.
Qed.

Lemma gapcov_intro gp : forall pc cl x j, zlen gp = zlen cl -> 0 <= j < zlen gp ->
  znth 0 gp j + cpv pc cl j <= x < znth 0 gp j + znth 0 cl j -> gapcov pc gp cl x = true.
Proof.
  induction gp as [|p gp IH]; intros pc cl x j Hl Hj Hx; destruct cl as [|c cl]; rewrite ?zlen_cons in *; znil;
    try (pose proof (zlen_nonneg gp); pose proof (zlen_nonneg cl); lia).
  cbn [gapcov]. destruct (Z.eq_dec j 0) as [->|Hne].
  - rewrite !znth_0 in Hx. unfold cpv in Hx. cbn in Hx.
    destruct (p + pc <=? x) eqn:E1; [|lia]. destruct (x <? p + c) eqn:E2; [|lia]. reflexivity.
  - rewrite (IH c cl x (j - 1)); [apply orb_true_r|lia|lia|].
    rewrite !(znth_pos 0 _ _ j) in Hx by lia. unfold cpv in *.
    destruct (j <=? 0) eqn:E; [lia|]. destruct (j - 1 <=? 0) eqn:E2.
    + assert (j = 1) as -> by lia. change (1 - 1) with 0 in Hx. rewrite znth_0 in Hx. lia.
    + rewrite (znth_pos 0 c cl (j - 1)) in Hx by lia. lia.
Qed.

(** the three readings of [abs] for a well-formed map *)
Section AbsPointwise.
  Variable m : imap.
  Hypothesis Hwf : WF m.

  Let Hwfi : WFi m := proj1 (WF_WFi m) Hwf.
  Let n := num_gaps m.

  Lemma zlen_abs : zlen (abs m) = len m.
  Proof.
    unfold abs. destruct (zlen_expand _ _ _ _ _ (WF_wfx m Hwf)) as (E & _). rewrite E.
    rewrite (len_eq m Hwfi). unfold Cp, num_gaps. lia.
  Qed.

  Lemma abs_in_gap i j : 0 <= j < n -> gs m j <= i < ge m j -> znth true (abs m) i = false.
  Proof.
    intros Hj Hi. pose proof (gs_lt_ge m Hwfi j Hj) as G. pose proof (ge_le_len m Hwfi j Hj) as L.
    unfold abs. rewrite znth_expand; [|apply WF_wfx; auto|fold (abs m); rewrite zlen_abs; lia].
    rewrite (gapcov_intro _ _ _ _ j); [reflexivity|destruct Hwfi; auto|exact Hj|].
    unfold gs, ge, P, C, Cp in Hi. lia.
  Qed.

  Lemma abs_not_in_gap i : 0 <= i < len m ->
    (forall j, 0 <= j < n -> ~ (gs m j <= i < ge m j)) -> znth true (abs m) i = true.
  Proof.
    intros Hi Hno. unfold abs. rewrite znth_expand; [|apply WF_wfx; auto|fold (abs m); rewrite zlen_abs; lia].
    destruct (gapcov 0 (gap_pos m) (cum_gap_lengths m) (0 + 0 + i)) eqn:E; [|reflexivity].
    apply gapcov_true in E; [|destruct Hwfi; auto]. destruct E as (j & Hj & Hx).
    exfalso. apply (Hno j Hj). unfold gs, ge, P, C, Cp. lia.
  Qed.
End AbsPointwise.
