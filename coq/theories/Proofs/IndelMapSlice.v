(** C08 — pointwise reading of [abs], the alignment->sequence index
    conversion and the slicing theorem of the IndelMap model. *)
From CG3 Require Import Lib.PyZ Lib.Val Model.IndelMap Spec.IndelMapSpec Proofs.IndelMapProofs.

Local Open Scope Z_scope.

(** * Part 4: [abs] read position by position *)

(** "alignment coordinate [x] lies inside some gap"; [pc] is the cumulative
    gap length before the head of the lists *)
Fixpoint gapcov (pc : Z) (gp cl : list Z) (x : Z) : bool :=
  match gp, cl with
  | p :: gp', c :: cl' => ((p + pc <=? x) && (x <? p + c)) || gapcov c gp' cl' x
  | _, _ => false
  end.

(** head may coincide with the previous insertion point (only for the very
    first gap, [gap_pos[0] = 0]) *)
Definition wfx (pp pc : Z) (gp cl : list Z) (plen : Z) : Prop :=
  match gp, cl with
  | [], [] => pp <= plen
  | p :: gp', c :: cl' => pp <= p /\ pc < c /\ wf_from p c gp' cl' plen
  | _, _ => False
  end.

Lemma wf_from_wfx pp pc gp cl plen : wf_from pp pc gp cl plen -> wfx pp pc gp cl plen.
Proof.
  destruct gp as [|p gp]; destruct cl as [|c cl]; cbn [wf_from wfx]; auto.
  intros (A & B & D). repeat split; auto; lia.
Qed.

Lemma WF_wfx m : WF m -> wfx 0 0 (gap_pos m) (cum_gap_lengths m) (parent_length m).
Proof.
  intros (Hp & H). destruct (gap_pos m) as [|p gp]; destruct (cum_gap_lengths m) as [|c cl];
    cbn [wf_from wfx] in *; auto. destruct H as (A & B & D). repeat split; auto; lia.
Qed.

Lemma gapcov_below gp : forall pp pc cl plen x,
  wfx pp pc gp cl plen -> x < pp + pc -> gapcov pc gp cl x = false.
Proof.
  induction gp as [|p gp IH]; intros pp pc cl plen x Hw Hx; destruct cl as [|c cl]; cbn [gapcov]; auto.
  cbn [wfx] in Hw. destruct Hw as (A & B & D).
  rewrite (IH p c cl plen x (wf_from_wfx _ _ _ _ _ D)) by lia.
  destruct (p + pc <=? x) eqn:E; [lia|]. reflexivity.
Qed.

Lemma zlen_expand gp : forall pp pc cl plen, wfx pp pc gp cl plen ->
  zlen (expand pp pc gp cl plen) = (plen - pp) + (cpv pc cl (zlen gp) - pc) /\ pp <= plen.
Proof.
  induction gp as [|p gp IH]; intros pp pc cl plen Hw; destruct cl as [|c cl]; cbn [wfx] in Hw; try contradiction.
  - cbn [expand]. rewrite zlen_repeat. unfold cpv. znil. cbn. lia.
  - destruct Hw as (A & B & D). cbn [expand]. rewrite !zlen_app, !zlen_repeat.
    destruct (IH p c cl plen (wf_from_wfx _ _ _ _ _ D)) as (E1 & E2). rewrite E1. rewrite zlen_cons.
    pose proof (zlen_nonneg gp) as Hn. split; [|lia].
    unfold cpv. destruct (zlen gp <=? 0) eqn:F1; destruct (1 + zlen gp <=? 0) eqn:F2; try lia.
    + assert (zlen gp = 0) as -> by lia. change (1 + 0 - 1) with 0. rewrite znth_0. lia.
    + rewrite (znth_pos 0 c cl (1 + zlen gp - 1)) by lia.
      replace (1 + zlen gp - 1 - 1) with (zlen gp - 1) by lia. lia.
Qed.

Lemma znth_expand gp : forall pp pc cl plen i, wfx pp pc gp cl plen ->
  0 <= i < zlen (expand pp pc gp cl plen) ->
  znth true (expand pp pc gp cl plen) i = negb (gapcov pc gp cl (pp + pc + i)).
Proof.
  induction gp as [|p gp IH]; intros pp pc cl plen i Hw Hi; destruct cl as [|c cl]; cbn [wfx] in Hw; try contradiction.
  - cbn [expand gapcov] in *. rewrite zlen_repeat in Hi. rewrite znth_repeat by lia. reflexivity.
  - destruct Hw as (A & B & D). pose proof (wf_from_wfx _ _ _ _ _ D) as D'.
    cbn [expand gapcov] in *. rewrite !zlen_app, !zlen_repeat in Hi.
    destruct (Z_lt_dec i (p - pp)) as [L1|L1].
    + rewrite znth_app_l by (rewrite zlen_repeat; lia). rewrite znth_repeat by lia.
      rewrite (gapcov_below gp p c cl plen) by (auto; lia).
      destruct (p + pc <=? pp + pc + i) eqn:E; [lia|]. reflexivity.
    + rewrite znth_app_r by (rewrite zlen_repeat; lia). rewrite zlen_repeat.
      destruct (Z_lt_dec i (p - pp + (c - pc))) as [L2|L2].
      * rewrite znth_app_l by (rewrite zlen_repeat; lia). rewrite znth_repeat by lia.
        destruct (p + pc <=? pp + pc + i) eqn:E1; [|lia]. destruct (pp + pc + i <? p + c) eqn:E2; [|lia].
        reflexivity.
      * rewrite znth_app_r by (rewrite zlen_repeat; lia). rewrite zlen_repeat.
        rewrite IH; [|exact D'|]. 2:{ set (L := zlen (expand p c gp cl plen)) in *. lia. }
        replace (p + c + (i - Z.of_nat (Z.to_nat (p - pp)) - Z.of_nat (Z.to_nat (c - pc)))) with (pp + pc + i) by lia.
        destruct (pp + pc + i <? p + c) eqn:E2; [lia|]. rewrite andb_false_r. reflexivity.
Qed.

Lemma cpv_0 pc cl : cpv pc cl 0 = pc.
Proof. reflexivity. Qed.

Lemma cpv_cons pc c cl j : 0 < j -> cpv pc (c :: cl) j = cpv c cl (j - 1).
Proof.
  intros H. unfold cpv. destruct (j <=? 0) eqn:E; [lia|]. destruct (j - 1 <=? 0) eqn:E2.
  - assert (j - 1 = 0) as -> by lia. apply znth_0.
  - apply znth_pos. lia.
Qed.

(** [gapcov] in index form *)
Lemma gapcov_true gp : forall pc cl x, zlen gp = zlen cl ->
  gapcov pc gp cl x = true ->
  exists j, 0 <= j < zlen gp /\ znth 0 gp j + cpv pc cl j <= x < znth 0 gp j + znth 0 cl j.
Proof.
  induction gp as [|p gp IH]; intros pc cl x Hl H; destruct cl as [|c cl]; cbn [gapcov] in H; try discriminate.
  rewrite !zlen_cons in *. apply orb_prop in H. destruct H as [H|H].
  - exists 0. pose proof (zlen_nonneg gp). rewrite !znth_0. unfold cpv. change (0 <=? 0) with true. cbv iota. lia.
  - destruct (IH c cl x ltac:(lia) H) as (j & Hj & Hx). exists (j + 1).
    rewrite !(znth_pos 0 _ _ (j + 1)) by lia. rewrite cpv_cons by lia.
    replace (j + 1 - 1) with j by lia. split; lia.
Qed.

Lemma gapcov_intro gp : forall pc cl x j, zlen gp = zlen cl -> 0 <= j < zlen gp ->
  znth 0 gp j + cpv pc cl j <= x < znth 0 gp j + znth 0 cl j -> gapcov pc gp cl x = true.
Proof.
  induction gp as [|p gp IH]; intros pc cl x j Hl Hj Hx; destruct cl as [|c cl]; rewrite ?zlen_cons in *; znil; try lia;
    try (pose proof (zlen_nonneg gp); lia); try (pose proof (zlen_nonneg cl); lia).
  cbn [gapcov]. destruct (Z.eq_dec j 0) as [->|Hne].
  - rewrite !znth_0 in Hx. unfold cpv in Hx. change (0 <=? 0) with true in Hx. cbv iota in Hx.
    destruct (p + pc <=? x) eqn:E1; [|lia]. destruct (x <? p + c) eqn:E2; [|lia]. reflexivity.
  - rewrite (IH c cl x (j - 1)); [apply orb_true_r|lia|lia|].
    rewrite !(znth_pos 0 _ _ j) in Hx by lia. rewrite cpv_cons in Hx by lia. exact Hx.
Qed.

(** the three readings of [abs] for a well-formed map *)
Section AbsPointwise.
  Variable m : imap.
  Hypothesis Hwf : WF m.

  Let Hwfi : WFi m := proj1 (WF_WFi m) Hwf.
  Let n := num_gaps m.

  Lemma zlen_abs : zlen (abs m) = len m.
  Proof.
    unfold abs. destruct (zlen_expand _ _ _ _ _ (WF_wfx m Hwf)) as (E & _). rewrite E.
    rewrite (len_eq m Hwfi). unfold Cp, num_gaps. lia.
  Qed.

  Lemma abs_in_gap i j : 0 <= j < n -> gs m j <= i < ge m j -> znth true (abs m) i = false.
  Proof.
    intros Hj Hi. pose proof (gs_lt_ge m Hwfi j Hj) as G. pose proof (ge_le_len m Hwfi j Hj) as L.
    unfold abs. rewrite znth_expand; [|apply WF_wfx; auto|fold (abs m); rewrite zlen_abs; lia].
    rewrite (gapcov_intro _ _ _ _ j); [reflexivity|destruct Hwfi; auto|exact Hj|].
    unfold gs, ge, P, C, Cp in Hi. lia.
  Qed.

  Lemma abs_not_in_gap i : 0 <= i < len m ->
    (forall j, 0 <= j < n -> ~ (gs m j <= i < ge m j)) -> znth true (abs m) i = true.
  Proof.
    intros Hi Hno. unfold abs. rewrite znth_expand; [|apply WF_wfx; auto|fold (abs m); rewrite zlen_abs; lia].
    destruct (gapcov 0 (gap_pos m) (cum_gap_lengths m) (0 + 0 + i)) eqn:E; [|reflexivity].
    apply gapcov_true in E; [|destruct Hwfi; auto]. destruct E as (j & Hj & Hx).
    exfalso. apply (Hno j Hj). unfold gs, ge, P, C, Cp. lia.
  Qed.
End AbsPointwise.

(** * Part 5: alignment index -> sequence index *)

Section SeqIndex.
  Variable m : imap.
  Hypothesis Hwfi : WFi m.
  Local Notation n := (num_gaps m).

  Lemma ge_mono_le i j : 0 <= i -> i <= j -> j < n -> ge m i <= ge m j.
  Proof.
    intros. destruct (Z.eq_dec i j) as [->|]; [lia|]. pose proof (ge_mono m Hwfi i j). lia.
  Qed.

  Lemma gs_mono_le i j : 0 <= i -> i <= j -> j < n -> gs m i <= gs m j.
  Proof.
    intros. destruct (Z.eq_dec i j) as [->|]; [lia|]. pose proof (gs_mono m Hwfi i j). lia.
  Qed.

  Lemma ge_le_gs i j : 0 <= i -> i < j -> j < n -> ge m i < gs m j.
  Proof. intros. apply (ge_lt_gs m Hwfi);  lia. Qed.

  Lemma gs_ge j : 0 <= j < n -> 0 <= gs m j < ge m j.
  Proof. intros. apply (gs_lt_ge m Hwfi);  lia. Qed.

  Lemma gap_unique x j k : 0 <= j < n -> 0 <= k < n ->
    gs m j <= x < ge m j -> gs m k <= x < ge m k -> j = k.
  Proof.
    intros Hj Hk Xj Xk. destruct (Z_lt_dec j k) as [L|L].
    - pose proof (ge_le_gs j k). lia.
    - destruct (Z_lt_dec k j) as [L'|L']; [|lia]. pose proof (ge_le_gs k j). lia.
  Qed.

  (** position of [x] relative to the gaps, as used by the code *)
  Definition seq_rel (x s : Z) : Prop :=
    (forall j, 0 <= j < n -> gs m j <= x < ge m j -> s = P m j) /\
    (forall j, 0 <= j <= n -> (0 < j -> ge m (j - 1) <= x) -> (j < n -> x <= gs m j) -> s = x - Cp m j).

  Lemma gs_0 : gs m 0 = P m 0.
  Proof. unfold gs. rewrite Cp_0. lia. Qed.

  Lemma seq_index_nn_rel x : 0 <= x -> exists s, seq_index_nn m x = Ok s /\ seq_rel x s.
  Proof.
    intros Hx. unfold seq_index_nn.
    pose proof (n_nonneg m) as Hn.
    destruct (n =? 0) eqn:En.
    { cbn [orb]. exists x. split; [reflexivity|]. split.
      - intros j Hj. lia.
      - intros j Hj _ _. assert (j = 0) as -> by lia. rewrite Cp_0. lia. }
    cbn [orb]. change (znth 0 (gap_pos m) 0) with (P m 0).
    destruct (x <? P m 0) eqn:E0.
    { exists x. split; [reflexivity|]. split.
      - intros j Hj Hc. pose proof (gs_mono_le 0 j). rewrite gs_0 in *. lia.
      - intros j Hj H1 _. destruct (Z.eq_dec j 0) as [->|Hne]; [rewrite Cp_0; lia|].
        pose proof (ge_mono_le 0 (j - 1)). pose proof (gs_ge 0). rewrite gs_0 in *. lia. }
    rewrite (zlast_gap_ends m Hwfi) by lia. rewrite (zlast_cum m Hwfi) by lia.
    destruct (x >=? ge m (n - 1)) eqn:E1.
    { exists (x - C m (n - 1)). split; [reflexivity|]. split.
      - intros j Hj Hc. pose proof (ge_mono_le j (n - 1)). lia.
      - intros j Hj H1 H2. destruct (Z.eq_dec j n) as [->|Hne].
        + rewrite (Cp_pos m) by lia. reflexivity.
        + pose proof (gs_ge j). pose proof (ge_mono_le j (n - 1)). lia. }
    pose proof (ss_left_spec (gap_ends m) x) as (S1 & S2 & S3).
    rewrite (zlen_gap_ends m Hwfi) in *.
    set (ix := ss_left (gap_ends m) x) in *.
    assert (Hix : ix < n).
    { destruct (Z.eq_dec ix n) as [E|]; [|lia]. specialize (S2 (n - 1)).
      rewrite (znth_gap_ends m Hwfi) in S2 by lia. lia. }
    specialize (S3 Hix). rewrite (znth_gap_ends m Hwfi) in S3 by lia.
    assert (S2' : forall i, 0 <= i < ix -> ge m i < x).
    { intros i Hi. specialize (S2 i Hi). rewrite (znth_gap_ends m Hwfi) in S2 by lia. exact S2. }
    rewrite !(pyget_nonneg _ ix) by lia.
    rewrite (znth_gap_starts m Hwfi) by lia. rewrite (znth_gap_ends m Hwfi) by lia.
    fold (C m ix). fold (P m ix).
    destruct (x <? gs m ix) eqn:E2.
    { assert (Hpos : 0 < ix).
      { destruct (Z.eq_dec ix 0) as [E|]; [|lia]. rewrite E, gs_0 in E2. lia. }
      rewrite pyget_nonneg by lia. fold (C m (ix - 1)).
      exists (x - C m (ix - 1)). split; [reflexivity|]. split.
      - intros j Hj Hc. exfalso. destruct (Z_lt_dec j ix) as [L|L].
        + specialize (S2' j). lia.
        + pose proof (gs_mono_le ix j). lia.
      - intros j Hj H1 H2. assert (j = ix) as ->.
        { destruct (Z_lt_dec j ix) as [L|L].
          - pose proof (gs_ge j). specialize (S2' j). lia.
          - destruct (Z.eq_dec j ix); [auto|]. pose proof (ge_mono_le ix (j - 1)). pose proof (gs_ge ix). lia. }
        rewrite (Cp_pos m) by lia. reflexivity. }
    destruct (x =? ge m ix) eqn:E3.
    { exists (x - C m ix). split; [reflexivity|]. split.
      - intros j Hj Hc. exfalso. destruct (Z_lt_dec ix j) as [L|L].
        + pose proof (ge_le_gs ix j). lia.
        + pose proof (ge_mono_le j ix). lia.
      - intros j Hj H1 H2. assert (j = ix + 1) as ->.
        { destruct (Z_lt_dec ix j) as [L|L].
          - destruct (Z.eq_dec j (ix + 1)); [auto|]. pose proof (ge_mono m Hwfi ix (j - 1)). lia.
          - pose proof (gs_ge j). pose proof (ge_mono_le j ix). lia. }
        rewrite (Cp_succ m) by lia. reflexivity. }
    destruct ((gs m ix <=? x) && (x <? ge m ix)) eqn:E4; [|lia].
    exists (P m ix). split; [reflexivity|]. split.
    - intros j Hj Hc. f_equal. apply (gap_unique x); lia.
    - intros j Hj H1 H2. assert (j = ix) as ->.
      { destruct (Z_lt_dec j ix) as [L|L].
        - pose proof (gs_ge j). specialize (S2' j). lia.
        - destruct (Z.eq_dec j ix); [auto|]. pose proof (ge_mono_le ix (j - 1)). lia. }
      unfold gs in *. lia.
  Qed.

  (** the relation determines the value wherever it applies; existence of an
      applicable clause for every [0 <= x <= len m] *)
  Lemma seq_rel_cases x : 0 <= x ->
    (exists j, 0 <= j < n /\ gs m j <= x < ge m j) \/
    (exists j, 0 <= j <= n /\ (0 < j -> ge m (j - 1) <= x) /\ (j < n -> x < gs m j)).
  Proof.
    intros Hx. pose proof (ss_right_spec (gap_ends m) x) as (S1 & S2 & S3).
    rewrite (zlen_gap_ends m Hwfi) in *. set (j := ss_right (gap_ends m) x) in *.
    destruct (Z_lt_dec j n) as [L|L].
    - specialize (S3 L). rewrite (znth_gap_ends m Hwfi) in S3 by lia.
      destruct (Z_le_dec (gs m j) x) as [G|G].
      + left. exists j. lia.
      + right. exists j. split; [lia|]. split; [|lia]. intros Hj. specialize (S2 (j - 1)).
        rewrite (znth_gap_ends m Hwfi) in S2 by lia. lia.
    - right. exists j. split; [lia|]. split; [|lia]. intros Hj. specialize (S2 (j - 1)).
      rewrite (znth_gap_ends m Hwfi) in S2 by lia. lia.
  Qed.
End SeqIndex.

Lemma residues_nonneg k : 0 <= residues k.
Proof. induction k as [|[|] k IH]; cbn [residues]; lia. Qed.

Lemma residues_firstn_succ k : forall x, 0 <= x < zlen k ->
  residues (firstn (Z.to_nat (x + 1)) k) =
  residues (firstn (Z.to_nat x) k) + (if znth true k x then 1 else 0).
Proof.
  induction k as [|b k IH]; intros x Hx.
  - znil. lia.
  - rewrite zlen_cons in Hx. replace (Z.to_nat (x + 1)) with (S (Z.to_nat x)) by lia.
    destruct (Z.eq_dec x 0) as [->|Hne].
    + cbn [Z.to_nat firstn]. rewrite znth_0. destruct b; cbn [residues]; lia.
    + rewrite znth_pos by lia. replace (Z.to_nat x) with (S (Z.to_nat (x - 1))) by lia.
      rewrite !firstn_cons. specialize (IH (x - 1) ltac:(lia)).
      replace (Z.to_nat (x - 1 + 1)) with (S (Z.to_nat (x - 1))) in IH by lia.
      set (r1 := residues (firstn (S (Z.to_nat (x - 1))) k)) in *.
      set (r0 := residues (firstn (Z.to_nat (x - 1)) k)) in *.
      destruct b; cbn [residues]; fold r1; fold r0; lia.
Qed.

Section SeqIndexSpec.
  Variable m : imap.
  Hypothesis Hwf : WF m.
  Let Hwfi : WFi m := proj1 (WF_WFi m) Hwf.
  Local Notation n := (num_gaps m).

  Lemma seq_rel_residues x : 0 <= x -> x <= len m ->
    forall s, seq_rel m x s -> s = residues (firstn (Z.to_nat x) (abs m)).
  Proof.
    intros Hx. revert x Hx.
    apply (natlike_ind (fun x => x <= len m -> forall s, seq_rel m x s -> s = residues (firstn (Z.to_nat x) (abs m)))).
    - intros _ s (R1 & R2). cbn [Z.to_nat firstn residues].
      destruct (seq_rel_cases m Hwfi 0 ltac:(lia)) as [(j & Hj & Hc)|(j & Hj & H1 & H2)].
      + rewrite (R1 j Hj Hc). pose proof (gs_ge m Hwfi j Hj). pose proof (P_bounds m Hwfi j Hj).
        pose proof (Cp_lt_C m Hwfi j Hj). unfold gs in *. lia.
      + destruct (Z.eq_dec j 0) as [->|Hne].
        * rewrite (R2 0); [rewrite Cp_0; lia|lia|lia|]. intros L. specialize (H2 L). lia.
        * pose proof (gs_ge m Hwfi (j - 1)). lia.
    - intros x Hx IH Hlen s' (R1' & R2').
      destruct (seq_index_nn_rel m Hwfi x Hx) as (s & _ & Hrel).
      specialize (IH ltac:(lia) s Hrel). destruct Hrel as (R1 & R2).
      replace (Z.succ x) with (x + 1) in * by lia.
      rewrite residues_firstn_succ by (rewrite (zlen_abs m Hwf); lia). rewrite <- IH.
      destruct (seq_rel_cases m Hwfi x Hx) as [(j & Hj & Hc)|(j & Hj & H1 & H2)].
      + rewrite (abs_in_gap m Hwf x j Hj Hc). rewrite (R1 j Hj Hc).
        destruct (Z_lt_dec (x + 1) (ge m j)) as [L|L].
        * rewrite (R1' j Hj); lia.
        * rewrite (R2' (j + 1)); [|lia|intros; replace (j + 1 - 1) with j by lia; lia|].
          -- rewrite (Cp_succ m) by lia. unfold ge in *. lia.
          -- intros L2. pose proof (ge_le_gs m Hwfi j (j + 1)). lia.
      + rewrite (abs_not_in_gap m Hwf x); [|lia|].
        * rewrite (R2 j); [|lia|auto|intros L; specialize (H2 L); lia].
          rewrite (R2' j); [lia|lia|intros L; specialize (H1 L); lia|intros L; specialize (H2 L); lia].
        * intros k Hk Hc. destruct (Z_lt_dec k j) as [L|L].
          -- pose proof (ge_mono_le m Hwfi k (j - 1)). lia.
          -- pose proof (gs_mono_le m Hwfi j k). lia.
  Qed.

  Lemma seq_index_nn_spec x : 0 <= x <= len m ->
    seq_index_nn m x = Ok (residues (firstn (Z.to_nat x) (abs m))).
  Proof.
    intros Hx. destruct (seq_index_nn_rel m Hwfi x ltac:(lia)) as (s & E & Hrel).
    rewrite E. f_equal. apply seq_rel_residues; auto; lia.
  Qed.

  (** [get_seq_index] l.1271 = number of residues in front of the alignment position *)
  Lemma get_seq_index_spec x : 0 <= x <= len m ->
    get_seq_index m x = Ok (residues (firstn (Z.to_nat x) (abs m))).
  Proof.
    intros Hx. unfold get_seq_index. destruct (x <? 0) eqn:E; [lia|]. rewrite E.
    apply seq_index_nn_spec. exact Hx.
  Qed.

  (** negative indices count from the end, as for a Python sequence *)
  Lemma get_seq_index_neg x : - len m <= x < 0 ->
    get_seq_index m x = Ok (residues (firstn (Z.to_nat (len m + x)) (abs m))).
  Proof.
    intros Hx. unfold get_seq_index. destruct (x <? 0) eqn:E; [|lia].
    destruct (len m + x <? 0) eqn:E2; [lia|]. apply seq_index_nn_spec. lia.
  Qed.
End SeqIndexSpec.

(** * Part 6: slicing *)

Lemma sub_at_0 L : forall i, sub_at L i 0 = L.
Proof.
  induction L as [|x L IH]; intros i; cbn [sub_at]; auto.
  destruct (i =? 0); [f_equal; lia|]. now rewrite IH.
Qed.

Lemma abs_by_pointwise m m' a b :
  WF m -> WF m' -> 0 <= a -> a <= b -> b <= len m -> len m' = b - a ->
  (forall i, 0 <= i < b - a -> znth true (abs m') i = znth true (abs m) (a + i)) ->
  abs m' = msub (abs m) a b.
Proof.
  intros Hwf Hwf' Ha Hab Hb Hlen Hpt. rewrite <- zslice_msub.
  apply (list_ext_znth true).
  - rewrite zlen_abs by auto. rewrite zlen_zslice; [lia|lia|lia|rewrite zlen_abs; auto].
  - intros i Hi. rewrite zlen_abs in Hi by auto. rewrite znth_zslice by lia. apply Hpt. lia.
Qed.

(** the easy results: a gap-free map, a single all-gap map *)
Lemma abs_nogap L : 0 <= L -> abs (mk_imap [] [] L) = repeat true (Z.to_nat L).
Proof. intros. unfold abs. cbn [gap_pos cum_gap_lengths parent_length expand]. f_equal. lia. Qed.

Lemma WF_nogap L : 0 <= L -> WF (mk_imap [] [] L).
Proof. intros. split; cbn; lia. Qed.

Lemma abs_onegap L : 0 < L -> abs (mk_imap [0] [L] 0) = repeat false (Z.to_nat L).
Proof.
  intros. unfold abs. cbn [gap_pos cum_gap_lengths parent_length expand].
  change (Z.to_nat (0 - 0)) with O. cbn [repeat app]. rewrite app_nil_r. f_equal. lia.
Qed.

Lemma WF_onegap L : 0 < L -> WF (mk_imap [0] [L] 0).
Proof. intros. split; cbn; lia. Qed.

Lemma eq_repeat_pointwise (v : bool) k L :
  zlen k = L -> (forall i, 0 <= i < L -> znth true k i = v) -> repeat v (Z.to_nat L) = k.
Proof.
  intros Hl Hpt. pose proof (zlen_nonneg k). apply (list_ext_znth true).
  - rewrite zlen_repeat. lia.
  - intros i Hi. rewrite zlen_repeat in Hi. rewrite znth_repeat by lia. symmetry. apply Hpt. lia.
Qed.

Lemma zsum_zslice_sub_at' L i d x y : (0 <= i < zlen L \/ d = 0) -> 0 <= x -> x <= y ->
  zsum (zslice (sub_at L i d) x y) = zsum (zslice L x y) - (if (x <=? i) && (i <? y) then d else 0).
Proof.
  intros [Hi| ->] Hx Hxy.
  - apply zsum_zslice_sub_at; auto.
  - rewrite sub_at_0. destruct ((x <=? i) && (i <? y)); lia.
Qed.

Section SliceCore.
  Variable m : imap.
  Hypothesis Hwf : WF m.
  Let Hwfi : WFi m := proj1 (WF_WFi m) Hwf.
  Local Notation n := (num_gaps m).
  Variables a b : Z.
  Hypothesis Hab : 0 <= a < b.
  Hypothesis Hblen : b <= len m.
  Variables bg en d1 d2 : Z.
  Hypothesis HB1 : 0 <= bg < n.
  Hypothesis HB2 : forall j, 0 <= j < bg -> ge m j <= a.
  Hypothesis HB3 : a < ge m bg.
  Hypothesis HD1 : (a <= gs m bg /\ d1 = 0) \/ (gs m bg < a /\ d1 = a - gs m bg).
  Hypothesis HE1 : bg <= en <= n.
  Hypothesis HE2 : forall j, 0 <= j < en -> gs m j < b.
  Hypothesis HE3 : en < n -> b <= gs m en.
  Hypothesis HD2 : (d2 = 0 /\ (bg < en -> ge m (en - 1) <= b)) \/
                   (bg < en /\ b < ge m (en - 1) /\ d2 = ge m (en - 1) - b).

  Let L := get_gap_lengths m.
  Let shift := a - Cp m bg - d1.
  Let L2 := sub_at (sub_at L bg d1) (en - 1) d2.
  Let gp' := map (fun p => p - shift) (zslice (gap_pos m) bg en).
  Let lengths' := zslice L2 bg en.
  Let n' := en - bg.

  Lemma sc_zlen_L : zlen L = n.
  Proof. unfold L, get_gap_lengths. rewrite zlen_diffs. apply (wfi_len m Hwfi). Qed.

  Lemma sc_zlen_L2 : zlen L2 = n.
  Proof. unfold L2. rewrite !zlen_sub_at. apply sc_zlen_L. Qed.

  Lemma sc_zlen_gp' : zlen gp' = n'.
  Proof. unfold gp', n'. rewrite zlen_map. apply zlen_zslice; unfold num_gaps in *; lia. Qed.

  Lemma sc_zlen_lengths' : zlen lengths' = n'.
  Proof. unfold lengths', n'. apply zlen_zslice; rewrite ?sc_zlen_L2; lia. Qed.

  Lemma sc_d1_nonneg : 0 <= d1.
  Proof. destruct HD1 as [(A & ->)|(A & ->)]; lia. Qed.

  Lemma sc_d2_nonneg : 0 <= d2.
  Proof. destruct HD2 as [(-> & A)|(A & B & ->)]; lia. Qed.

  (** partial sums of the trimmed gap lengths *)
  Lemma sc_zsum y : bg < y <= en ->
    zsum (zslice L2 bg y) = Cp m y - Cp m bg - d1 - (if y =? en then d2 else 0).
  Proof.
    intros Hy. unfold L2.
    rewrite zsum_zslice_sub_at'; [|left; rewrite zlen_sub_at, sc_zlen_L; lia|lia|lia].
    rewrite zsum_zslice_sub_at'; [|left; rewrite sc_zlen_L; lia|lia|lia].
    unfold L, get_gap_lengths. rewrite zsum_zslice_diffs; [|lia|lia|rewrite (wfi_len m Hwfi); lia].
    fold (Cp m y). fold (Cp m bg).
    destruct ((bg <=? bg) && (bg <? y)) eqn:E1; [|lia].
    destruct ((bg <=? en - 1) && (en - 1 <? y)) eqn:E2; destruct (y =? en) eqn:E3; lia.
  Qed.

  Lemma sc_P j : 0 <= j < n' -> znth 0 gp' j = P m (bg + j) - shift.
  Proof.
    intros Hj. unfold gp'. rewrite (znth_map _ 0) by (rewrite zlen_zslice; unfold num_gaps, n' in *; lia).
    rewrite znth_zslice by (unfold n' in *; lia). reflexivity.
  Qed.

  Lemma sc_C j : 0 <= j < n' ->
    znth 0 (cumsum lengths') j = Cp m (bg + j + 1) - Cp m bg - d1 - (if bg + j + 1 =? en then d2 else 0).
  Proof.
    intros Hj. unfold cumsum. rewrite znth_cumsum_from by (rewrite sc_zlen_lengths'; lia).
    unfold lengths'. rewrite firstn_zslice by (unfold n' in *; lia).
    rewrite sc_zsum by (unfold n' in *; lia). replace (bg + (j + 1)) with (bg + j + 1) by lia. lia.
  Qed.

  (** sequence positions of the two slice ends *)
  Lemma sc_sa sa : seq_rel m a sa -> sa = shift.
  Proof.
    intros (R1 & R2). unfold shift. destruct HD1 as [(A & ->)|(A & ->)].
    - rewrite (R2 bg); [lia|lia| |lia]. intros Hpos. apply HB2. lia.
    - rewrite (R1 bg); [|lia|lia]. unfold gs. lia.
  Qed.

  Lemma sc_sb sb : seq_rel m b sb -> sb = b - Cp m en + d2.
  Proof.
    intros (R1 & R2). destruct HD2 as [(-> & A)|(A & B & ->)].
    - rewrite (R2 en); [lia|lia| |exact HE3]. intros Hpos.
      destruct (Z_lt_dec bg en) as [Lt|Lt]; [auto|]. assert (en = bg) as -> by lia.
      specialize (HB2 (bg - 1)). lia.
    - rewrite (R1 (en - 1)); [|lia|]. 2:{ specialize (HE2 (en - 1)). lia. }
      rewrite (Cp_pos m en) by lia. unfold ge. lia.
  Qed.

  Lemma sc_P_last_le sb : seq_rel m b sb -> 0 < n' -> P m (en - 1) <= sb.
  Proof.
    intros Hrel Hn'. rewrite (sc_sb sb Hrel). unfold n' in Hn'. rewrite (Cp_pos m en) by lia.
    destruct HD2 as [(-> & A)|(A & B & ->)].
    - specialize (A ltac:(lia)). unfold ge in A. lia.
    - unfold ge. lia.
  Qed.

  Variables sa sb : Z.
  Hypothesis Hsa : seq_rel m a sa.
  Hypothesis Hsb : seq_rel m b sb.
  Let m' := mk_imap gp' (cumsum lengths') (sb - sa).

  Lemma sc_shift_le : shift <= P m bg.
  Proof. unfold shift. destruct HD1 as [(A & ->)|(A & ->)]; unfold gs in *; lia. Qed.

  Lemma sc_num_gaps : num_gaps m' = n'.
  Proof. unfold num_gaps, m'. cbn [gap_pos]. apply sc_zlen_gp'. Qed.

  Lemma sc_gs_bg_lt_b : 0 < n' -> gs m bg < b.
  Proof. intros. apply HE2. unfold n' in *. lia. Qed.

  Lemma sc_WFi : WFi m'.
  Proof.
    unfold WFi. rewrite sc_num_gaps. unfold P, C, m'. cbn [gap_pos cum_gap_lengths parent_length].
    pose proof sc_d1_nonneg as Hd1. pose proof sc_d2_nonneg as Hd2. pose proof sc_shift_le as Hsh.
    rewrite (sc_sa sa Hsa).
    split; [|split; [|split]].
    - rewrite sc_zlen_gp'. unfold cumsum. rewrite zlen_cumsum_from. now rewrite sc_zlen_lengths'.
    - destruct (Z.eq_dec n' 0) as [E|E].
      + rewrite (sc_sb sb Hsb). unfold n' in E. assert (en = bg) as Een by lia.
        destruct HD2 as [(-> & A)|(A & B & D)]; [|lia]. unfold shift. rewrite Een. lia.
      + pose proof (sc_P_last_le sb Hsb ltac:(unfold n' in *; lia)).
        assert (P m bg <= P m (en - 1)).
        { destruct (Z.eq_dec bg (en - 1)) as [<-|Hne]; [lia|]. pose proof (P_mono m Hwfi bg (en - 1)). unfold n' in *. lia. }
        lia.
    - intros Hn'. rewrite sc_P by lia. rewrite sc_C by lia. rewrite sc_P by lia.
      replace (bg + 0) with bg by lia. replace (bg + (n' - 1)) with (en - 1) by (unfold n'; lia).
      split; [lia|]. split.
      + rewrite (Cp_succ m) by lia. pose proof (sc_gs_bg_lt_b Hn').
        assert (Cp m bg = gs m bg - P m bg) as -> by (unfold gs; lia).
        assert (C m bg = ge m bg - P m bg) as -> by (unfold ge; lia).
        destruct (bg + 1 =? en) eqn:E.
        * assert (en - 1 = bg) as Een by lia. pose proof (gs_ge m Hwfi bg ltac:(lia)).
          destruct HD2 as [(-> & A)|(A & B & ->)]; rewrite ?Een in *; destruct HD1 as [(A1 & ->)|(A1 & ->)]; lia.
        * destruct HD1 as [(A1 & ->)|(A1 & ->)]; pose proof (gs_ge m Hwfi bg); lia.
      + pose proof (sc_P_last_le sb Hsb Hn'). lia.
    - intros j Hj Hj1. rewrite !sc_P by lia. rewrite !sc_C by lia.
      replace (bg + (j + 1)) with (bg + j + 1) by lia.
      pose proof (P_mono m Hwfi (bg + j) (bg + j + 1)). split; [unfold n' in *; lia|].
      destruct (bg + j + 1 =? en) eqn:E1; [unfold n' in *; lia|].
      rewrite !(Cp_succ m) by lia.
      pose proof (C_mono m Hwfi (bg + j) (bg + j + 1)).
      destruct (bg + j + 1 + 1 =? en) eqn:E2; [|unfold n' in *; lia].
      assert (en - 1 = bg + j + 1) as Een by lia.
      destruct HD2 as [(-> & A)|(A & B & ->)]; [unfold n' in *; lia|]. rewrite Een.
      specialize (HE2 (bg + j + 1)). unfold gs, ge in *. rewrite (Cp_pos m (bg + j + 1)) in HE2 by lia.
      replace (bg + j + 1 - 1) with (bg + j) in HE2 by lia. unfold n' in *. lia.
  Qed.

  Lemma sc_WF : WF m'.
  Proof. apply WF_WFi. apply sc_WFi. Qed.

  Lemma sc_len : len m' = b - a.
  Proof.
    rewrite (len_eq m' sc_WFi). rewrite sc_num_gaps. unfold m' at 1. cbn [parent_length].
    rewrite (sc_sa sa Hsa), (sc_sb sb Hsb). unfold shift.
    destruct (Z.eq_dec n' 0) as [E|E].
    - rewrite E, Cp_0. unfold n' in E. assert (en = bg) as Een by lia.
      destruct HD2 as [(-> & A)|(A & B & D)]; [|lia]. rewrite Een in *.
      destruct HD1 as [(A1 & ->)|(A1 & ->)]; [lia|]. specialize (HE3 ltac:(lia)). lia.
    - pose proof (zlen_nonneg gp') as Hn. rewrite sc_zlen_gp' in Hn.
      rewrite (Cp_pos m') by lia. unfold C, m'. cbn [cum_gap_lengths]. rewrite sc_C by lia.
      replace (bg + (n' - 1) + 1) with en by (unfold n'; lia). rewrite Z.eqb_refl. lia.
  Qed.

  Lemma sc_gs j : 0 <= j < n' ->
    gs m' j = if j =? 0 then gs m bg - a + d1 else gs m (bg + j) - a.
  Proof.
    intros Hj. unfold gs at 1. unfold P, m'. cbn [gap_pos]. rewrite sc_P by lia. fold m'.
    destruct (j =? 0) eqn:E.
    - assert (j = 0) as -> by lia. rewrite Cp_0. replace (bg + 0) with bg by lia. unfold shift, gs. lia.
    - rewrite (Cp_pos m') by lia. unfold C, m'. cbn [cum_gap_lengths]. rewrite sc_C by lia.
      replace (bg + (j - 1) + 1) with (bg + j) by lia.
      destruct (bg + j =? en) eqn:E2; [unfold n' in *; lia|]. unfold shift, gs. lia.
  Qed.

  Lemma sc_ge j : 0 <= j < n' ->
    ge m' j = ge m (bg + j) - a - (if bg + j + 1 =? en then d2 else 0).
  Proof.
    intros Hj. unfold ge at 1. unfold P, C, m'. cbn [gap_pos cum_gap_lengths]. rewrite sc_P by lia.
    rewrite sc_C by lia. rewrite (Cp_succ m) by lia. unfold shift, ge. lia.
  Qed.

  Lemma sc_pointwise i : 0 <= i < b - a -> znth true (abs m') i = znth true (abs m) (a + i).
  Proof.
    intros Hi. pose proof sc_d1_nonneg as Hd1. pose proof sc_d2_nonneg as Hd2.
    destruct (seq_rel_cases m Hwfi (a + i) ltac:(lia)) as [(k & Hk & Hc)|(k & Hk & K1 & K2)].
    - rewrite (abs_in_gap m Hwf (a + i) k Hk Hc).
      assert (Hk1 : bg <= k).
      { destruct (Z_lt_dec k bg) as [Lt|]; [|lia]. specialize (HB2 k). lia. }
      assert (Hk2 : k < en).
      { destruct (Z_lt_dec k en) as [|Ge]; [lia|]. specialize (HE3 ltac:(lia)).
        pose proof (gs_mono_le m Hwfi en k). lia. }
      apply (abs_in_gap m' sc_WF i (k - bg)); rewrite ?sc_num_gaps; [unfold n'; lia|].
      rewrite sc_gs, sc_ge by (unfold n'; lia). replace (bg + (k - bg)) with k by lia.
      split.
      + destruct (k - bg =? 0) eqn:E; [|lia]. assert (k = bg) as Ek by lia. rewrite Ek in *.
        destruct HD1 as [(A1 & ->)|(A1 & ->)]; lia.
      + destruct (k + 1 =? en) eqn:E; [|lia]. assert (en - 1 = k) as Een by lia.
        destruct HD2 as [(-> & A)|(A & B & ->)]; rewrite ?Een in *; lia.
    - rewrite (abs_not_in_gap m Hwf (a + i)); [|lia|].
      2:{ intros K HK Hc. destruct (Z_lt_dec K k) as [Lt|Ge].
          - pose proof (ge_mono_le m Hwfi K (k - 1)). lia.
          - pose proof (gs_mono_le m Hwfi k K). lia. }
      apply (abs_not_in_gap m' sc_WF i); [rewrite sc_len; lia|].
      rewrite sc_num_gaps. intros j Hj Hc. rewrite sc_gs, sc_ge in Hc by lia.
      assert (Hcov : gs m (bg + j) <= a + i < ge m (bg + j)).
      { split.
        - destruct (j =? 0) eqn:E; [|lia]. assert (j = 0) as -> by lia. replace (bg + 0) with bg in * by lia. lia.
        - destruct (bg + j + 1 =? en); lia. }
      unfold n' in Hj. destruct (Z_lt_dec (bg + j) k) as [Lt|Ge].
      + pose proof (ge_mono_le m Hwfi (bg + j) (k - 1)). lia.
      + pose proof (gs_mono_le m Hwfi k (bg + j)). lia.
  Qed.

  (** the general branch of [__getitem__]: what it constructs is a well-formed
      map of the sliced string *)
  Lemma slice_core :
    post_init_lengths gp' lengths' (sb - sa) = Ok m' /\ WF m' /\ abs m' = msub (abs m) a b.
  Proof.
    split; [|split].
    - unfold post_init_lengths, post_init. fold m'.
      rewrite sc_zlen_gp'. unfold cumsum. rewrite zlen_cumsum_from, sc_zlen_lengths'. rewrite Z.eqb_refl.
      cbn [negb]. destruct (n' =? 0) eqn:E; [reflexivity|]. cbn [negb andb].
      pose proof (zlen_nonneg gp') as Hn. rewrite sc_zlen_gp' in Hn.
      rewrite zlast_znth by (rewrite sc_zlen_gp'; lia). rewrite sc_zlen_gp'. rewrite sc_P by lia.
      replace (bg + (n' - 1)) with (en - 1) by (unfold n'; lia).
      pose proof (sc_P_last_le sb Hsb ltac:(lia)). rewrite (sc_sa sa Hsa).
      destruct (P m (en - 1) - shift >? sb - shift) eqn:E2; [lia|]. reflexivity.
    - apply sc_WF.
    - apply abs_by_pointwise; auto; try lia; [apply sc_WF|apply sc_len|apply sc_pointwise].
  Qed.
End SliceCore.

(** ** the branches of [getitem_slice], named (each equation is by [reflexivity]:
    these are the model's own sub-expressions) *)

Definition slice_start (m : imap) (start l : Z) : Z * Z * list Z :=
  let gp := gap_pos m in
  let cum := cum_gap_lengths m in
  let gs := gap_starts m in
  let ge := gap_ends m in
  let lengths := get_gap_lengths m in
  let first_gap := znth 0 gp 0 in
  if start <? first_gap then (0, start, lengths)
  else if (pyget gs l <=? start) && (start <? pyget ge l) then
    let begin_diff := start - pyget gs l in
    (l,
     (if l =? 0 then znth 0 gp 0 else start - pyget cum (l - 1) - begin_diff),
     sub_at lengths l begin_diff)
  else if start =? pyget ge l then (l + 1, start - pyget cum l, lengths)
  else (l, (if l =? 0 then start else start - pyget cum (l - 1)), lengths).

Definition slice_stop (m : imap) (start stop l begin shift : Z) (lengths : list Z) : res imap :=
  let gp := gap_pos m in
  let gs := gap_starts m in
  let ge := gap_ends m in
  let r := ss_right (zslice ge l (zlen ge)) stop + l in
  let '(end_, lengths) :=
    if r =? num_gaps m then (r, lengths)
    else if (pyget gs r <? stop) && (stop <=? pyget ge r) then
      (r + 1, sub_at lengths r (pyget ge r - stop))
    else (r, lengths) in
  let pos_result := map (fun p => p - shift) (zslice gp begin end_) in
  let lengths := zslice lengths begin end_ in
  bind (seq_index_nn m stop) (fun si_stop =>
  bind (seq_index_nn m start) (fun si_start =>
  post_init_lengths pos_result lengths (si_stop - si_start))).

Lemma getitem_slice_unfold m a b : 0 <= a -> a < b ->
  getitem_slice m (Some a) (Some b) =
  let no_gaps := post_init [] [] (b - a) in
  if num_gaps m =? 0 then no_gaps
  else if (b <? znth 0 (gap_pos m) 0) || (a >=? zlast (gap_pos m) + zlast (cum_gap_lengths m)) then no_gaps
  else
    let l := ss_left (gap_ends m) a in
    if (pyget (gap_starts m) l <=? a) && (a <? pyget (gap_ends m) l) && (b <=? pyget (gap_ends m) l)
    then post_init [0] [b - a] 0
    else let '(begin, shift, lengths) := slice_start m a l in slice_stop m a b l begin shift lengths.
Proof.
  intros Ha Hab. unfold getitem_slice.
  destruct (a >=? 0) eqn:E1; [|lia]. destruct (b >=? 0) eqn:E2; [|lia].
  destruct (Z.min a b <? 0) eqn:E3; [lia|]. destruct (a >=? b) eqn:E4; [lia|].
  reflexivity.
Qed.

Section SliceBranches.
  Variable m : imap.
  Hypothesis Hwf : WF m.
  Let Hwfi : WFi m := proj1 (WF_WFi m) Hwf.
  Local Notation n := (num_gaps m).
  Variables a b : Z.
  Hypothesis Hab : 0 <= a < b.
  Hypothesis Hblen : b <= len m.
  Hypothesis Hn : 0 < n.
  Hypothesis Hlast : a < ge m (n - 1).
  Let l := ss_left (gap_ends m) a.

  Lemma sb_l_spec : 0 <= l < n /\ (forall j, 0 <= j < l -> ge m j < a) /\ a <= ge m l.
  Proof.
    pose proof (ss_left_spec (gap_ends m) a) as (S1 & S2 & S3).
    rewrite (zlen_gap_ends m Hwfi) in *. fold l in S1, S2, S3.
    assert (Hl : l < n).
    { destruct (Z.eq_dec l n) as [E|]; [|lia]. specialize (S2 (n - 1)).
      rewrite (znth_gap_ends m Hwfi) in S2 by lia. lia. }
    split; [lia|]. split.
    - intros j Hj. specialize (S2 j Hj). rewrite (znth_gap_ends m Hwfi) in S2 by lia. exact S2.
    - specialize (S3 Hl). rewrite (znth_gap_ends m Hwfi) in S3 by lia. exact S3.
  Qed.

  Lemma sb_start :
    exists bg d1,
      slice_start m a l = (bg, a - Cp m bg - d1, sub_at (get_gap_lengths m) bg d1) /\
      0 <= bg < n /\ (forall j, 0 <= j < bg -> ge m j <= a) /\ a < ge m bg /\
      ((a <= gs m bg /\ d1 = 0) \/ (gs m bg < a /\ d1 = a - gs m bg)).
  Proof.
    destruct sb_l_spec as (Hl & Hlt & Hle).
    unfold slice_start. change (znth 0 (gap_pos m) 0) with (P m 0).
    rewrite !(pyget_nonneg _ l) by lia.
    rewrite (znth_gap_starts m Hwfi) by lia. rewrite (znth_gap_ends m Hwfi) by lia.
    fold (C m l).
    destruct (a <? P m 0) eqn:E0.
    { exists 0, 0. rewrite Cp_0, sub_at_0. split; [f_equal; f_equal; lia|].
      pose proof (gs_ge m Hwfi 0 ltac:(lia)). pose proof (gs_0 m). split; [lia|]. split; [intros; lia|].
      split; [lia|]. left. lia. }
    destruct ((gs m l <=? a) && (a <? ge m l)) eqn:E1.
    { exists l, (a - gs m l). split.
      - f_equal. f_equal. destruct (l =? 0) eqn:El.
        + assert (l = 0) as -> by lia. rewrite Cp_0. unfold gs. rewrite Cp_0. lia.
        + rewrite pyget_nonneg by lia. fold (C m (l - 1)). rewrite (Cp_pos m l) by lia. reflexivity.
      - split; [lia|]. split; [intros j Hj; specialize (Hlt j Hj); lia|]. split; [lia|].
        destruct (Z.eq_dec a (gs m l)); [left|right]; lia. }
    destruct (a =? ge m l) eqn:E2.
    { assert (Hl1 : l + 1 < n).
      { destruct (Z.eq_dec l (n - 1)) as [E|]; [rewrite E in *; lia|lia]. }
      exists (l + 1), 0. rewrite sub_at_0. rewrite (Cp_succ m) by lia. split; [f_equal; f_equal; lia|].
      split; [lia|]. split.
      - intros j Hj. pose proof (ge_mono_le m Hwfi j l). lia.
      - pose proof (ge_le_gs m Hwfi l (l + 1)). pose proof (gs_ge m Hwfi (l + 1)). split; [lia|]. left. lia. }
    exists l, 0. rewrite sub_at_0. split.
    - f_equal. f_equal. destruct (l =? 0) eqn:El.
      + assert (l = 0) as -> by lia. rewrite Cp_0. lia.
      + rewrite pyget_nonneg by lia. fold (C m (l - 1)). rewrite (Cp_pos m l) by lia. lia.
    - split; [lia|]. split; [intros j Hj; specialize (Hlt j Hj); lia|]. split; [lia|]. left. lia.
  Qed.

  Lemma sb_stop bg d1 :
    0 <= bg < n -> (forall j, 0 <= j < bg -> ge m j <= a) -> a < ge m bg ->
    ((a <= gs m bg /\ d1 = 0) \/ (gs m bg < a /\ d1 = a - gs m bg)) ->
    exists m', slice_stop m a b l bg (a - Cp m bg - d1) (sub_at (get_gap_lengths m) bg d1) = Ok m'
               /\ WF m' /\ abs m' = msub (abs m) a b.
  Proof.
    intros HB1 HB2 HB3 HD1. destruct sb_l_spec as (Hl & Hlt & Hle).
    unfold slice_stop. rewrite (zlen_gap_ends m Hwfi).
    pose proof (ss_right_spec (zslice (gap_ends m) l n) b) as (S1 & S2 & S3).
    rewrite zlen_zslice in * by (rewrite ?(zlen_gap_ends m Hwfi); lia).
    set (r0 := ss_right (zslice (gap_ends m) l n) b) in *.
    set (r := r0 + l).
    assert (R2 : forall j, 0 <= j < r -> ge m j <= b).
    { intros j Hj. destruct (Z_lt_dec j l) as [Lt|Ge].
      - specialize (Hlt j). lia.
      - specialize (S2 (j - l) ltac:(unfold r in *; lia)). rewrite znth_zslice in S2 by (unfold r in *; lia).
        rewrite (znth_gap_ends m Hwfi) in S2 by (unfold r in *; lia). replace (l + (j - l)) with j in S2 by lia. exact S2. }
    assert (R3 : r < n -> b < ge m r).
    { intros Hr. specialize (S3 ltac:(unfold r in *; lia)). rewrite znth_zslice in S3 by (unfold r in *; lia).
      rewrite (znth_gap_ends m Hwfi) in S3 by (unfold r in *; lia). replace (l + r0) with r in S3 by (unfold r; lia). exact S3. }
    assert (Rbg : bg <= r).
    { destruct (Z_lt_dec r bg) as [Lt|]; [|lia]. specialize (HB2 r ltac:(unfold r in *; lia)).
      specialize (R3 ltac:(lia)). lia. }
    assert (Rn : r <= n) by (unfold r; lia).
    destruct (seq_index_nn_rel m Hwfi b ltac:(lia)) as (sb & Esb & Hsb).
    destruct (seq_index_nn_rel m Hwfi a ltac:(lia)) as (sa & Esa & Hsa).
    (* the three stop cases all produce [sub_at L1 (en - 1) d2] *)
    assert (Hcases : exists en d2,
      (if r =? n then (r, sub_at (get_gap_lengths m) bg d1)
       else if (pyget (gap_starts m) r <? b) && (b <=? pyget (gap_ends m) r)
            then (r + 1, sub_at (sub_at (get_gap_lengths m) bg d1) r (pyget (gap_ends m) r - b))
            else (r, sub_at (get_gap_lengths m) bg d1))
      = (en, sub_at (sub_at (get_gap_lengths m) bg d1) (en - 1) d2) /\
      bg <= en <= n /\ (forall j, 0 <= j < en -> gs m j < b) /\ (en < n -> b <= gs m en) /\
      ((d2 = 0 /\ (bg < en -> ge m (en - 1) <= b)) \/ (bg < en /\ b < ge m (en - 1) /\ d2 = ge m (en - 1) - b))).
    { destruct (r =? n) eqn:Er.
      - exists r, 0. rewrite sub_at_0. split; [reflexivity|]. split; [lia|]. split.
        + intros j Hj. specialize (R2 j Hj). pose proof (gs_ge m Hwfi j). lia.
        + split; [lia|]. left. split; [reflexivity|]. intros _. apply R2. lia.
      - assert (Hr : r < n) by lia. specialize (R3 Hr).
        rewrite !(pyget_nonneg _ r) by lia.
        rewrite (znth_gap_starts m Hwfi) by lia. rewrite (znth_gap_ends m Hwfi) by lia.
        destruct ((gs m r <? b) && (b <=? ge m r)) eqn:Ec.
        + exists (r + 1), (ge m r - b). replace (r + 1 - 1) with r by lia. split; [reflexivity|].
          split; [lia|]. split.
          * intros j Hj. destruct (Z.eq_dec j r) as [->|Hne]; [lia|].
            specialize (R2 j ltac:(lia)). pose proof (gs_ge m Hwfi j). lia.
          * split.
            -- intros Hlt'. pose proof (ge_le_gs m Hwfi r (r + 1)). lia.
            -- right. lia.
        + exists r, 0. rewrite sub_at_0. split; [reflexivity|]. split; [lia|]. split.
          * intros j Hj. specialize (R2 j Hj). pose proof (gs_ge m Hwfi j). lia.
          * split; [lia|]. left. split; [reflexivity|]. intros Hlt'. apply R2. lia. }
    destruct Hcases as (en & d2 & Eq & HE1 & HE2 & HE3 & HD2).
    fold r. rewrite Eq. rewrite Esb, Esa. cbn [bind].
    pose proof (slice_core m Hwf a b Hab Hblen bg en d1 d2 HB1 HB2 HB3 HD1 HE1 HE2 HE3 HD2 sa sb Hsa Hsb) as Hcore.
    cbv zeta in Hcore. eexists. exact Hcore.
  Qed.
End SliceBranches.

(** ** the slicing theorem *)

Lemma post_init_nogap L : post_init [] [] L = Ok (mk_imap [] [] L).
Proof. reflexivity. Qed.

Lemma post_init_onegap L : post_init [0] [L] 0 = Ok (mk_imap [0] [L] 0).
Proof. reflexivity. Qed.

Lemma between_not_covered m (Hwfi : WFi m) x k :
  0 <= k <= num_gaps m -> (0 < k -> ge m (k - 1) <= x) -> (k < num_gaps m -> x < gs m k) ->
  forall j, 0 <= j < num_gaps m -> ~ (gs m j <= x < ge m j).
Proof.
  intros Hk K1 K2 j Hj Hc. destruct (Z_lt_dec j k) as [Lt|Ge].
  - pose proof (ge_mono_le m Hwfi j (k - 1)). lia.
  - pose proof (gs_mono_le m Hwfi k j). lia.
Qed.

Theorem slice_spec m a b :
  WF m -> 0 <= a -> a <= b -> b <= len m ->
  exists m', getitem_slice m (Some a) (Some b) = Ok m' /\ WF m' /\ abs m' = msub (abs m) a b.
Proof.
  intros Hwf Ha Hab Hb. pose proof (proj1 (WF_WFi m) Hwf) as Hwfi.
  destruct (Z.eq_dec a b) as [<-|Hne].
  { (* empty slice *)
    exists (mk_imap [] [] 0). split; [|split].
    - unfold getitem_slice. destruct (a >=? 0) eqn:E1; [|lia]. destruct (Z.min a a <? 0) eqn:E3; [lia|].
      destruct (a >=? a) eqn:E4; [|lia]. reflexivity.
    - apply WF_nogap. lia.
    - rewrite abs_nogap by lia. unfold msub. replace (Z.to_nat (a - a)) with O by lia. reflexivity. }
  assert (Hlt : a < b) by lia.
  rewrite getitem_slice_unfold by lia. cbv zeta. rewrite post_init_nogap.
  pose proof (n_nonneg m) as Hn.
  assert (Hzl : zlen (msub (abs m) a b) = b - a).
  { rewrite <- zslice_msub. apply zlen_zslice; [lia|lia|rewrite zlen_abs; auto]. }
  (* a result without gaps is right as soon as no gap of [m] meets [a, b) *)
  assert (Hnogap : (forall x, a <= x < b -> forall j, 0 <= j < num_gaps m -> ~ (gs m j <= x < ge m j)) ->
          exists m', Ok (mk_imap [] [] (b - a)) = Ok m' /\ WF m' /\ abs m' = msub (abs m) a b).
  { intros Hno. exists (mk_imap [] [] (b - a)). split; [reflexivity|]. split; [apply WF_nogap; lia|].
    rewrite abs_nogap by lia. apply eq_repeat_pointwise; [exact Hzl|].
    intros i Hi. rewrite <- zslice_msub. rewrite znth_zslice by lia.
    apply abs_not_in_gap; [auto|lia|]. apply Hno. lia. }
  destruct (num_gaps m =? 0) eqn:En.
  { apply Hnogap. intros x Hx j Hj. lia. }
  change (znth 0 (gap_pos m) 0) with (P m 0).
  rewrite (zlast_gp m) by lia. rewrite (zlast_cum m Hwfi) by lia. fold (ge m (num_gaps m - 1)).
  destruct ((b <? P m 0) || (a >=? ge m (num_gaps m - 1))) eqn:Eout.
  { apply Hnogap. intros x Hx j Hj Hc. apply orb_prop in Eout. destruct Eout as [E|E].
    - pose proof (gs_mono_le m Hwfi 0 j). pose proof (gs_0 m). lia.
    - pose proof (ge_mono_le m Hwfi j (num_gaps m - 1)). lia. }
  apply orb_false_elim in Eout. destruct Eout as (Eo1 & Eo2).
  assert (Hlast : a < ge m (num_gaps m - 1)) by lia.
  destruct (sb_l_spec m Hwf a ltac:(lia) Hlast) as (Hl & Hl2 & Hl3).
  set (l := ss_left (gap_ends m) a) in *.
  rewrite !(pyget_nonneg _ l) by lia.
  rewrite (znth_gap_starts m Hwfi) by lia. rewrite (znth_gap_ends m Hwfi) by lia.
  destruct ((gs m l <=? a) && (a <? ge m l) && (b <=? ge m l)) eqn:Esingle.
  { (* the whole slice lies inside gap [l] *)
    rewrite post_init_onegap. exists (mk_imap [0] [b - a] 0). split; [reflexivity|]. split; [apply WF_onegap; lia|].
    rewrite abs_onegap by lia. apply eq_repeat_pointwise; [exact Hzl|].
    intros i Hi. rewrite <- zslice_msub. rewrite znth_zslice by lia.
    apply (abs_in_gap m Hwf (a + i) l); lia. }
  destruct (sb_start m Hwf a b ltac:(lia) Hlast) as (bg & d1 & Estart & HB1 & HB2 & HB3 & HD1).
  fold l in Estart. rewrite Estart.
  apply (sb_stop m Hwf a b ltac:(lia) Hb ltac:(lia) Hlast bg d1 HB1 HB2 HB3 HD1).
Qed.

(** Python's index conventions on top of it: [None], negative bounds *)
Definition py_bound (len : Z) (dflt : Z) (o : option Z) : Z :=
  match o with None => dflt | Some v => if v <? 0 then len + v else v end.

Lemma getitem_slice_norm m oa ob :
  let a := py_bound (len m) 0 oa in
  let b := py_bound (len m) (len m) ob in
  0 <= len m -> 0 <= a -> 0 <= b ->
  getitem_slice m oa ob = getitem_slice m (Some a) (Some b).
Proof.
  unfold py_bound. destruct oa as [va|]; destruct ob as [vb|]; cbv zeta.
  - destruct (va <? 0) eqn:E1; destruct (vb <? 0) eqn:E2; intros Hl Ha Hb; unfold getitem_slice;
      repeat match goal with |- context [?x >=? 0] => destruct (x >=? 0) eqn:?; try lia end; reflexivity.
  - destruct (va <? 0) eqn:E1; intros Hl Ha Hb; unfold getitem_slice;
      repeat match goal with |- context [?x >=? 0] => destruct (x >=? 0) eqn:?; try lia end; reflexivity.
  - destruct (vb <? 0) eqn:E2; intros Hl Ha Hb; unfold getitem_slice;
      repeat match goal with |- context [?x >=? 0] => destruct (x >=? 0) eqn:?; try lia end; reflexivity.
  - intros Hl Ha Hb; unfold getitem_slice;
      repeat match goal with |- context [?x >=? 0] => destruct (x >=? 0) eqn:?; try lia end; reflexivity.
Qed.

Theorem slice_spec_python m oa ob :
  WF m ->
  let a := py_bound (len m) 0 oa in
  let b := py_bound (len m) (len m) ob in
  0 <= a -> 0 <= b <= len m ->
  exists m', getitem_slice m oa ob = Ok m' /\ WF m' /\ abs m' = msub (abs m) a (Z.max a b).
Proof.
  intros Hwf a b Ha Hb.
  assert (Hlen : 0 <= len m) by (rewrite <- zlen_abs by auto; apply zlen_nonneg).
  rewrite (getitem_slice_norm m oa ob Hlen Ha ltac:(lia)). fold a. fold b.
  destruct (Z_le_dec a b) as [Le|Gt].
  - replace (Z.max a b) with b by lia. apply slice_spec; auto; lia.
  - (* start beyond stop: the empty map, as for a Python slice *)
    replace (Z.max a b) with a by lia. exists (mk_imap [] [] 0). split; [|split].
    + unfold getitem_slice. destruct (a >=? 0) eqn:E1; [|lia]. destruct (b >=? 0) eqn:E2; [|lia].
      destruct (Z.min a b <? 0) eqn:E3; [lia|]. destruct (a >=? b) eqn:E4; [|lia]. reflexivity.
    + apply WF_nogap. lia.
    + rewrite abs_nogap by lia. unfold msub. replace (Z.to_nat (a - a)) with O by lia. reflexivity.
Qed.
