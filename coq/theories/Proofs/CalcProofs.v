(** C07 — proofs about Model/Calc.v against Spec/CalcSpec.v *)
From Coq Require Import List Arith Bool Lia Sorting.Sorted.
Import ListNotations.
From CG3 Require Import Model.Calc Spec.CalcSpec.

(** * list utilities *)
Lemma length_upd : forall A (l : list A) r v, length (upd r v l) = length l.
Proof. induction l as [|h t IH]; intros [|r] v; simpl; auto. Qed.

Lemma nth_upd_eq : forall A (l : list A) r v d, r < length l -> nth r (upd r v l) d = v.
Proof. induction l as [|h t IH]; intros [|r] v d H; simpl in *; try lia; auto. apply IH; lia. Qed.

Lemma nth_upd_neq : forall A (l : list A) r k v d, r <> k -> nth k (upd r v l) d = nth k l d.
Proof. induction l as [|h t IH]; intros [|r] [|k] v d H; simpl; auto; try lia. Qed.

Lemma nth_upd : forall A (l : list A) r k v d,
  nth k (upd r v l) d = if (r =? k) && (r <? length l) then v else nth k l d.
Proof.
  intros A l r k v d. destruct (Nat.eqb_spec r k) as [->|Hn]; simpl.
  - destruct (Nat.ltb_spec k (length l)) as [Hl|Hl]; [apply nth_upd_eq; auto|].
    rewrite !nth_overflow; auto. rewrite length_upd; auto.
  - apply nth_upd_neq; auto.
Qed.

Lemma upd_overflow : forall A (l : list A) r v, length l <= r -> upd r v l = l.
Proof. induction l as [|h t IH]; intros [|r] v H; simpl in *; auto; try lia. f_equal. apply IH; lia. Qed.

Lemma nth_map_seq : forall A (fn : nat -> A) n r d, r < n -> nth r (map fn (seq 0 n)) d = fn r.
Proof.
  intros A fn n r d H. rewrite nth_indep with (d' := fn 0) by (rewrite map_length, seq_length; auto).
  change (fn 0) with (fn (0 + 0)) at 1. rewrite map_nth. rewrite seq_nth; auto.
Qed.

Lemma memb_In : forall r l, memb r l = true <-> In r l.
Proof.
  intros r l. unfold memb. rewrite existsb_exists. split.
  - intros [x [Hx He]]. apply Nat.eqb_eq in He. subst; auto.
  - intros H. exists r. split; auto. apply Nat.eqb_refl.
Qed.

(** * the Calculator *)
Definition wf_args (g : graph) : Prop :=
  forall r a, r < length g -> In a (args_of (cell_at g r)) -> a < r.

(** what the proofs need from a consequence program for the changed keys *)
Definition prog_ok (g : graph) (keys prog : list nat) : Prop :=
  StronglySorted lt prog /\
  (forall r, In r prog -> r < length g /\ is_eval (cell_at g r) = true) /\
  (forall c a, c < length g -> In a (args_of (cell_at g c)) -> In a keys \/ In a prog -> In c prog).

Section CalcProofs.
  Variable V : Type.
  Variable dflt : V.
  Variable f : nat -> list V -> option V.
  Variable tr : nat -> V -> V.
  Variable tinv : nat -> V -> V.
  Variable veq : V -> V -> bool.
  Hypothesis veq_spec : forall a b, veq a b = true <-> a = b.

  Notation slot := (slot V).
  Notation slot_at := (slot_at V dflt).
  Notation argvals := (argvals V dflt).
  Notation vargs := (vargs V dflt).
  Notation bufs := (bufs V).

  Definition vals (l : list slot) : list V := map sval l.

  Lemma nth_vals : forall l r, nth r (vals l) dflt = sval (slot_at l r).
  Proof. intros l r. unfold vals, Calc.slot_at. change dflt with (sval (dslot V dflt)) at 1. apply map_nth. Qed.

  Lemma argvals_vargs : forall g r d, argvals g r d = vargs g r (vals d).
  Proof. intros g r d. unfold Calc.argvals, CalcSpec.vargs. apply map_ext. intros a. rewrite nth_vals. reflexivity. Qed.

  Lemma slot_at_upd : forall l r k v, slot_at (upd r v l) k = if (r =? k) && (r <? length l) then v else slot_at l k.
  Proof. intros. unfold Calc.slot_at. apply nth_upd. Qed.

  Lemma argvals_ext : forall g r d d', wf_args g -> r < length g ->
    (forall a, a < r -> slot_at d a = slot_at d' a) -> argvals g r d = argvals g r d'.
  Proof.
    intros g r d d' Hwf Hr H. unfold Calc.argvals. apply map_ext_in. intros a Ha.
    rewrite H; [reflexivity|eapply Hwf; eauto].
  Qed.

  (** ** plain_update *)
  Definition sep (g : graph) (prog : list nat) (b : bufs) : Prop :=
    forall r, In r prog -> recycled_of (cell_at g r) = true ->
              sid (slot_at (b_data V b) r) <> sid (slot_at (b_base V b) r).

  Lemma thru_noop : forall r a v l, sid (slot_at l r) <> a -> thru V dflt r a v l = l.
  Proof. intros r a v l H. unfold thru. destruct (Nat.eqb_spec (sid (slot_at l r)) a); [contradiction|reflexivity]. Qed.

  Lemma length_thru : forall r a v l, length (thru V dflt r a v l) = length l.
  Proof. intros. unfold thru. destruct (_ =? _); auto. apply length_upd. Qed.

  Lemma sid_thru : forall r a v l k, sid (slot_at (thru V dflt r a v l) k) = sid (slot_at l k).
  Proof.
    intros r a v l k. unfold thru. destruct (Nat.eqb_spec (sid (slot_at l r)) a) as [He|]; auto.
    rewrite slot_at_upd. destruct (Nat.eqb_spec r k) as [->|]; simpl; auto.
    destruct (k <? length l); simpl; auto.
  Qed.

  (** effect of one write on the data buffer *)
  Lemma write_data : forall rec r v b k, r < length (b_data V b) ->
    (k <> r -> slot_at (b_data V (write V dflt rec r v b)) k = slot_at (b_data V b) k) /\
    sval (slot_at (b_data V (write V dflt rec r v b)) r) = v /\
    length (b_data V (write V dflt rec r v b)) = length (b_data V b).
  Proof.
    intros rec r v b k Hr. unfold write.
    destruct rec; [destruct (sid (slot_at (b_data V b) r) =? 0)|]; simpl;
      rewrite length_upd; repeat split; auto; try (intros Hk; rewrite slot_at_upd;
      destruct (Nat.eqb_spec r k); [subst; contradiction|reflexivity]);
      rewrite slot_at_upd, Nat.eqb_refl; apply Nat.ltb_lt in Hr; rewrite Hr; reflexivity.
  Qed.

  Lemma write_base : forall rec r v b,
    (rec = true -> sid (slot_at (b_data V b) r) <> sid (slot_at (b_base V b) r)) ->
    b_base V (write V dflt rec r v b) = b_base V b.
  Proof.
    intros rec r v b H. unfold write. destruct rec; simpl; auto.
    destruct (sid (slot_at (b_data V b) r) =? 0) eqn:E; simpl; auto.
    apply thru_noop. intros Hc. apply H; auto.
  Qed.

  Lemma write_spare : forall rec r v b k,
    sid (slot_at (b_spare V (write V dflt rec r v b)) k) = sid (slot_at (b_spare V b) k) /\
    length (b_spare V (write V dflt rec r v b)) = length (b_spare V b).
  Proof.
    intros rec r v b k. unfold write. destruct rec; simpl; auto.
    destruct (sid (slot_at (b_data V b) r) =? 0); simpl; auto.
    split; [apply sid_thru|apply length_thru].
  Qed.

  (** identities: a write keeps the identity at r or allocates a fresh one *)
  Lemma write_sid : forall rec r v b, r < length (b_data V b) ->
    let b' := write V dflt rec r v b in
    b_nxt V b <= b_nxt V b' /\
    (rec = true ->
       (sid (slot_at (b_data V b) r) <> 0 /\ sid (slot_at (b_data V b') r) = sid (slot_at (b_data V b) r) /\ b_nxt V b' = b_nxt V b)
       \/ (sid (slot_at (b_data V b) r) = 0 /\ sid (slot_at (b_data V b') r) = b_nxt V b /\ b_nxt V b' = S (b_nxt V b))) /\
    (rec = false -> sid (slot_at (b_data V b') r) = 0 /\ b_nxt V b' = b_nxt V b).
  Proof.
    intros rec r v b Hr. apply Nat.ltb_lt in Hr. unfold write. destruct rec.
    - destruct (Nat.eqb_spec (sid (slot_at (b_data V b) r)) 0) as [E|E]; simpl;
        rewrite slot_at_upd, Nat.eqb_refl, Hr; simpl; repeat split; auto; try discriminate.
    - simpl. rewrite slot_at_upd, Nat.eqb_refl, Hr; simpl. repeat split; auto; discriminate.
  Qed.

  Record pu_post (g : graph) (prog : list nat) (b b' : bufs) (res : option nat) : Prop := {
    pu_base : b_base V b' = b_base V b;
    pu_len : length (b_data V b') = length (b_data V b);
    pu_slen : length (b_spare V b') = length (b_spare V b);
    pu_ssid : forall k, sid (slot_at (b_spare V b') k) = sid (slot_at (b_spare V b) k);
    pu_out : forall k, ~ In k prog -> slot_at (b_data V b') k = slot_at (b_data V b) k;
    pu_in : res = None -> forall r, In r prog -> f r (argvals g r (b_data V b')) = Some (sval (slot_at (b_data V b') r));
    pu_nxt : b_nxt V b <= b_nxt V b';
    pu_sid : forall r, In r prog ->
               sid (slot_at (b_data V b') r) = sid (slot_at (b_data V b) r) \/
               (b_nxt V b <= sid (slot_at (b_data V b') r) < b_nxt V b') \/
               (recycled_of (cell_at g r) = false /\ sid (slot_at (b_data V b') r) = 0);
    pu_sid_ok : res = None -> forall r, In r prog -> recycled_of (cell_at g r) = true -> 0 < b_nxt V b ->
               sid (slot_at (b_data V b') r) <> 0;
    pu_fail : forall k, res = Some k ->
               In k prog /\ f k (argvals g k (b_data V b')) = None /\
               forall r, In r prog -> r < k -> f r (argvals g r (b_data V b')) = Some (sval (slot_at (b_data V b') r))
  }.

  Lemma plain_update_spec : forall g, wf_args g -> forall prog b b' res,
    plain_update V dflt f g prog b = (b', res) ->
    StronglySorted lt prog ->
    (forall r, In r prog -> r < length g /\ r < length (b_data V b)) ->
    sep g prog b ->
    pu_post g prog b b' res.
  Proof.
    intros g Hwf prog. induction prog as [|r p IH]; intros b b' res Hpu Hsort Hlt Hsep.
    - simpl in Hpu. inversion Hpu; subst. constructor; auto; try (intros; contradiction); try (intros; discriminate); intros; contradiction.
    - simpl in Hpu. inversion Hsort as [|? ? Hsp Hall]; subst.
      assert (Hr : r < length g /\ r < length (b_data V b)) by (apply Hlt; left; auto).
      destruct (f r (argvals g r (b_data V b))) as [v|] eqn:Ef.
      + set (b1 := write V dflt (recycled_of (cell_at g r)) r v b) in *.
        destruct (write_data (recycled_of (cell_at g r)) r v b r (proj2 Hr)) as [_ [Hwv Hwl]]. fold b1 in Hwv, Hwl.
        assert (Hwo : forall k, k <> r -> slot_at (b_data V b1) k = slot_at (b_data V b) k).
        { intros k Hk. destruct (write_data (recycled_of (cell_at g r)) r v b k (proj2 Hr)) as [H _]. auto. }
        assert (Hwb : b_base V b1 = b_base V b).
        { apply write_base. intros Hrec. apply Hsep; auto. left; auto. }
        assert (Hnotin : ~ In r p).
        { intros Hin. rewrite Forall_forall in Hall. specialize (Hall _ Hin). lia. }
        assert (Hpost : pu_post g p b1 b' res).
        { apply IH; auto.
          - intros k Hk. rewrite Hwl. apply Hlt. right; auto.
          - intros k Hk Hrec. rewrite Hwb. rewrite Hwo.
            + apply Hsep; auto. right; auto.
            + intros ->. contradiction. }
        destruct Hpost as [P1 P2 P3 P4 P5 P6 P7 P8 P9 P10].
        destruct (write_sid (recycled_of (cell_at g r)) r v b (proj2 Hr)) as [Wn [Wt Wf]]. fold b1 in Wn, Wt, Wf.
        assert (Hhead : f r (argvals g r (b_data V b')) = Some (sval (slot_at (b_data V b') r))).
        { rewrite P5 by auto.
          rewrite (argvals_ext g r (b_data V b') (b_data V b)); auto; [|tauto|].
          - rewrite Ef. f_equal. symmetry. exact Hwv.
          - intros a Ha. rewrite P5.
            + apply Hwo. lia.
            + intros Hin. rewrite Forall_forall in Hall. specialize (Hall _ Hin). lia. }
        constructor.
        * rewrite P1. exact Hwb.
        * rewrite P2. exact Hwl.
        * rewrite P3. apply write_spare; exact 0.
        * intros k. rewrite P4. apply write_spare.
        * intros k Hk. rewrite P5 by (intros Hc; apply Hk; right; auto).
          apply Hwo. intros ->. apply Hk. left; auto.
        * intros Hres k [<-|Hk].
          -- rewrite P5 by auto.
             rewrite (argvals_ext g r (b_data V b') (b_data V b)); auto; [|tauto|].
             ++ rewrite Ef. f_equal. symmetry. exact Hwv.
             ++ intros a Ha. rewrite P5.
                ** apply Hwo. lia.
                ** intros Hin. rewrite Forall_forall in Hall. specialize (Hall _ Hin). lia.
          -- apply P6; auto.
        * lia.
        * intros k [<-|Hk].
          -- rewrite P5 by auto. destruct (recycled_of (cell_at g r)) eqn:Erec; [|right; right; split; [reflexivity|apply Wf; reflexivity]].
             destruct (Wt eq_refl) as [[W1 [W2 W3]]|[W1 [W2 W3]]].
             ++ left. exact W2.
             ++ right; left. rewrite W2. lia.
          -- destruct (P8 k Hk) as [H|[H|H]].
             ++ left. rewrite H. rewrite Hwo; [reflexivity|]. intros ->. contradiction.
             ++ right; left. lia.
             ++ right; right. exact H.
        * intros Hres k [<-|Hk] Hrec Hpos.
          -- rewrite P5 by auto. destruct (Wt Hrec) as [[W1 [W2 W3]]|[W1 [W2 W3]]].
             ++ rewrite W2. exact W1.
             ++ rewrite W2. lia.
          -- apply P9; auto. lia.
        * intros k Hk. destruct (P10 k Hk) as [Q1 [Q2 Q3]]. split; [right; exact Q1|]. split; [exact Q2|].
          intros r' [<-|Hr'] Hlt'; [exact Hhead|apply Q3; auto].
      + inversion Hpu; subst. constructor; auto; try discriminate.
        intros k Hk. inversion Hk; subst k. split; [left; reflexivity|]. split; [exact Ef|].
        intros r' [<-|Hr'] Hlt'; [lia|]. rewrite Forall_forall in Hall. specialize (Hall _ Hr'). lia.
    Unshelve. all: exact 0.
  Qed.

  (** ** set_all / set_vals *)
  Notation set_all := (set_all V).

  Lemma length_set_all : forall ch x, length (set_all ch x) = length x.
  Proof. induction ch as [|c t IH]; intros x; simpl; auto. unfold CalcSpec.set_all in *. simpl. rewrite IH. apply length_upd. Qed.

  Lemma set_all_cons : forall c t x, set_all (c :: t) x = set_all t (upd (fst c) (snd c) x).
  Proof. reflexivity. Qed.

  Lemma set_all_notin : forall ch x j, ~ In j (map fst ch) -> nth j (set_all ch x) dflt = nth j x dflt.
  Proof.
    induction ch as [|c t IH]; intros x j Hn; auto. rewrite set_all_cons. rewrite IH.
    - apply nth_upd_neq. intros He. apply Hn. left; auto.
    - intros Hc. apply Hn. right; auto.
  Qed.

  Lemma set_all_in : forall ch x j v, NoDup (map fst ch) -> In (j, v) ch -> j < length x ->
    nth j (set_all ch x) dflt = v.
  Proof.
    induction ch as [|c t IH]; intros x j v Hnd Hin Hj; [contradiction|].
    rewrite set_all_cons. simpl in Hnd. inversion Hnd as [|? ? Hnot Hnd']; subst.
    destruct Hin as [->|Hin].
    - simpl. rewrite set_all_notin by exact Hnot. apply nth_upd_eq; auto.
    - apply IH; auto. rewrite length_upd; auto.
  Qed.

  Definition wf_changes (g : graph) (ch : list (nat * V)) : Prop :=
    NoDup (map fst ch) /\ forall i, In i (map fst ch) -> i < nopt g.

  Fixpoint olds (ch : list (nat * V)) (lv : list V) : list (nat * V) :=
    match ch with
    | [] => []
    | c :: t => (fst c, nth (fst c) lv dflt) :: olds t (upd (fst c) (snd c) lv)
    end.

  Definition set_data (ch : list (nat * V)) (d : list slot) : list slot :=
    fold_left (fun d c => upd (fst c) (mk_slot 0 (tr (fst c) (snd c))) d) ch d.

  Lemma set_vals_gen : forall np ch co lv d, (forall i, In i (map fst ch) -> i < np) ->
    fold_left (fun acc ch =>
                 let '(co, lv, d) := acc in
                 if fst ch <? np
                 then (co ++ [(fst ch, nth (fst ch) lv dflt)], upd (fst ch) (snd ch) lv,
                       upd (fst ch) (mk_slot 0 (tr (fst ch) (snd ch))) d)
                 else (co, lv, upd (fst ch) (mk_slot 0 (snd ch)) d))
              ch (co, lv, d) = (co ++ olds ch lv, set_all ch lv, set_data ch d).
  Proof.
    intros np. induction ch as [|c t IH]; intros co lv d Hlt; simpl.
    - rewrite app_nil_r. reflexivity.
    - assert (Hc : fst c <? np = true) by (apply Nat.ltb_lt; apply Hlt; left; auto).
      rewrite Hc. rewrite IH by (intros i Hi; apply Hlt; right; auto).
      rewrite <- app_assoc. reflexivity.
  Qed.

  Lemma set_vals_spec : forall np ch lv d, (forall i, In i (map fst ch) -> i < np) ->
    set_vals V dflt tr np ch lv d = (olds ch lv, set_all ch lv, set_data ch d).
  Proof. intros. unfold set_vals. rewrite set_vals_gen; auto. Qed.

  Lemma olds_fst : forall ch lv, map fst (olds ch lv) = map fst ch.
  Proof. induction ch as [|c t IH]; intros lv; simpl; auto. rewrite IH. reflexivity. Qed.

  Lemma olds_in : forall ch lv j v, NoDup (map fst ch) -> In (j, v) (olds ch lv) -> v = nth j lv dflt.
  Proof.
    induction ch as [|c t IH]; intros lv j v Hnd Hin; [contradiction|].
    simpl in Hnd. inversion Hnd as [|? ? Hnot Hnd']; subst. simpl in Hin. destruct Hin as [He|Hin].
    - inversion He; subst. reflexivity.
    - assert (Hj : In j (map fst t)).
      { rewrite <- (olds_fst t (upd (fst c) (snd c) lv)). apply in_map_iff. exists (j, v). auto. }
      apply IH in Hin; auto. rewrite Hin. apply nth_upd_neq. intros He. subst j. contradiction.
  Qed.

  Lemma restore_olds : forall ch lv, NoDup (map fst ch) -> (forall i, In i (map fst ch) -> i < length lv) ->
    set_all (olds ch lv) (set_all ch lv) = lv.
  Proof.
    intros ch lv Hnd Hlt. apply nth_ext with (d := dflt) (d' := dflt).
    - rewrite !length_set_all. reflexivity.
    - intros j Hj. rewrite !length_set_all in Hj.
      destruct (in_dec Nat.eq_dec j (map fst ch)) as [Hin|Hnin].
      + assert (Hin' : In j (map fst (olds ch lv))) by (rewrite olds_fst; auto).
        apply in_map_iff in Hin'. destruct Hin' as [[j' v] [Hj' Hv]]. simpl in Hj'. subst j'.
        rewrite (set_all_in (olds ch lv) _ j v); auto.
        * eapply olds_in; eauto.
        * rewrite olds_fst. auto.
        * rewrite length_set_all. auto.
      + rewrite set_all_notin by (rewrite olds_fst; auto). apply set_all_notin; auto.
  Qed.

  Lemma length_set_data : forall ch d, length (set_data ch d) = length d.
  Proof. induction ch as [|c t IH]; intros d; simpl; auto. unfold set_data in *. simpl. rewrite IH. apply length_upd. Qed.

  Lemma set_data_notin : forall ch d j, ~ In j (map fst ch) -> slot_at (set_data ch d) j = slot_at d j.
  Proof.
    induction ch as [|c t IH]; intros d j Hn; auto. unfold set_data in *. simpl. rewrite IH.
    - unfold Calc.slot_at. apply nth_upd_neq. intros He. apply Hn. left; auto.
    - intros Hc. apply Hn. right; auto.
  Qed.

  Lemma set_data_in : forall ch d j v, NoDup (map fst ch) -> In (j, v) ch -> j < length d ->
    slot_at (set_data ch d) j = mk_slot 0 (tr j v).
  Proof.
    induction ch as [|c t IH]; intros d j v Hnd Hin Hj; [contradiction|].
    unfold set_data in *. simpl. simpl in Hnd. inversion Hnd as [|? ? Hnot Hnd']; subst.
    destruct Hin as [->|Hin].
    - simpl. fold (set_data t (upd j (mk_slot 0 (tr j v)) d)). rewrite set_data_notin by exact Hnot.
      unfold Calc.slot_at. apply nth_upd_eq; auto.
    - apply IH; auto. rewrite length_upd; auto.
  Qed.


  (** ** one change: the buffer dance followed by the consequence program *)
  Notation inputs_of := (inputs_of V dflt tr).
  Notation consistent := (consistent V dflt f).

  Definition wf_graph (g : graph) : Prop :=
    wf_args g /\ (forall i, i < nopt g -> i < length g /\ is_eval (cell_at g i) = false) /\ 0 < length g.

  (** the buffer holds the solution of the DAG equations for optimiser vector x *)
  Definition solves (g : graph) (cvals x : list V) (buf : list slot) : Prop :=
    length buf = length g /\ consistent g (vals buf) /\
    forall r, r < length g -> is_eval (cell_at g r) = false ->
              sval (slot_at buf r) = nth r (inputs_of g cvals x) dflt.

  Lemma nth_inputs : forall g cvals x r, r < length g ->
    nth r (inputs_of g cvals x) dflt = if r <? nopt g then tr r (nth r x dflt) else nth r cvals dflt.
  Proof. intros. unfold CalcSpec.inputs_of. apply nth_map_seq; auto. Qed.

  Lemma slot_at_save : forall g d b sp r, r < length g ->
    slot_at (save_spare V dflt g d b sp) r =
    if recycled_of (cell_at g r) && negb (sid (slot_at d r) =? sid (slot_at b r)) then slot_at d r else slot_at sp r.
  Proof. intros. unfold save_spare. unfold Calc.slot_at at 1. rewrite nth_map_seq; auto. Qed.

  Lemma slot_at_give : forall g prog d b sp r, r < length g ->
    slot_at (give_spare V dflt g prog d b sp) r =
    if memb r prog && recycled_of (cell_at g r) && (sid (slot_at d r) =? sid (slot_at b r)) then slot_at sp r else slot_at d r.
  Proof. intros. unfold give_spare. unfold Calc.slot_at at 1. rewrite nth_map_seq; auto. Qed.

  Lemma length_save : forall g d b sp, length (save_spare V dflt g d b sp) = length g.
  Proof. intros. unfold save_spare. rewrite map_length, seq_length. reflexivity. Qed.

  Lemma length_give : forall g prog d b sp, length (give_spare V dflt g prog d b sp) = length g.
  Proof. intros. unfold give_spare. rewrite map_length, seq_length. reflexivity. Qed.

  Lemma recycled_is_eval : forall c, recycled_of c = true -> is_eval c = true.
  Proof. destruct c; simpl; auto; discriminate. Qed.

  Lemma core_step : forall g cvals lv1 base data0 sp nx ch,
    wf_graph g ->
    prog_ok g (map fst ch) (program g (map fst ch)) ->
    solves g cvals lv1 base -> length data0 = length g -> length sp = length g -> length lv1 = nopt g ->
    wf_changes g ch ->
    (forall r, r < length g -> recycled_of (cell_at g r) = true -> sid (slot_at base r) <> 0) ->
    (forall r, r < length g -> recycled_of (cell_at g r) = true ->
               sid (slot_at data0 r) = sid (slot_at base r) -> sid (slot_at sp r) <> sid (slot_at base r)) ->
    0 < nx ->
    (forall r, r < length g -> sid (slot_at base r) < nx /\ sid (slot_at data0 r) < nx /\ sid (slot_at sp r) < nx) ->
    let prog := program g (map fst ch) in
    let sp1 := save_spare V dflt g data0 base sp in
    let data2 := give_spare V dflt g prog base base sp1 in
    let data3 := set_data ch data2 in
    assert_ok V dflt g prog data2 base = true /\
    forall b' res, plain_update V dflt f g prog (mk_bufs V data3 base sp1 nx) = (b', res) ->
      b_base V b' = base /\ length (b_data V b') = length g /\ length (b_spare V b') = length g /\
      (forall r, r < length g -> recycled_of (cell_at g r) = true ->
                 sid (slot_at (b_data V b') r) = sid (slot_at base r) -> sid (slot_at (b_spare V b') r) <> sid (slot_at base r)) /\
      (0 < b_nxt V b' /\ forall r, r < length g ->
          sid (slot_at base r) < b_nxt V b' /\ sid (slot_at (b_data V b') r) < b_nxt V b' /\ sid (slot_at (b_spare V b') r) < b_nxt V b') /\
      (res = None -> solves g cvals (set_all ch lv1) (b_data V b') /\
                     forall r, r < length g -> recycled_of (cell_at g r) = true -> sid (slot_at (b_data V b') r) <> 0) /\
      (forall k, res = Some k -> forall vs, length vs = length g -> consistent g vs ->
                 (forall r, r < length g -> is_eval (cell_at g r) = false ->
                            nth r vs dflt = nth r (inputs_of g cvals (set_all ch lv1)) dflt) -> False).
  Proof.
    intros g cvals lv1 base data0 sp nx ch [Hwa [Hopt Hpos]] [Hsorted [Hevals Hclosed]] [Hlb [Hcons Hinp]] Hld Hls Hll
           [Hnd Hidx] Hid0 Halias Hnx Hids prog sp1 data2 data3.
    fold prog in Hsorted, Hevals, Hclosed.
    (* F1: the saved spare never aliases base *)
    assert (F1 : forall r, r < length g -> recycled_of (cell_at g r) = true -> sid (slot_at sp1 r) <> sid (slot_at base r)).
    { intros r Hr Hrec. unfold sp1. rewrite slot_at_save by auto. rewrite Hrec. simpl.
      destruct (Nat.eqb_spec (sid (slot_at data0 r)) (sid (slot_at base r))) as [He|Hne]; simpl; auto. }
    assert (F1n : forall r, r < length g -> sid (slot_at sp1 r) < nx).
    { intros r Hr. unfold sp1. rewrite slot_at_save by auto. destruct (Hids r Hr) as [_ [H1 H2]].
      destruct (_ && _); auto. }
    assert (F2 : forall r, r < length g ->
                 slot_at data2 r = if memb r prog && recycled_of (cell_at g r) then slot_at sp1 r else slot_at base r).
    { intros r Hr. unfold data2. rewrite slot_at_give by auto. rewrite Nat.eqb_refl. rewrite andb_true_r. reflexivity. }
    assert (Hidx_ne : forall r, In r (map fst ch) -> r < length g /\ is_eval (cell_at g r) = false).
    { intros r Hr. apply Hopt. apply Hidx. exact Hr. }
    assert (Hprog_notidx : forall r, In r prog -> ~ In r (map fst ch)).
    { intros r Hr Hc. destruct (Hevals r Hr) as [_ He]. destruct (Hidx_ne r Hc) as [_ Hn]. congruence. }
    assert (Hl2 : length data2 = length g) by (unfold data2; apply length_give).
    assert (F3 : forall r, In r prog -> slot_at data3 r = slot_at data2 r).
    { intros r Hr. unfold data3. apply set_data_notin. apply Hprog_notidx; auto. }
    assert (F4 : forall r, r < length g -> ~ In r prog -> ~ In r (map fst ch) -> slot_at data3 r = slot_at base r).
    { intros r Hr Hnp Hni. unfold data3. rewrite set_data_notin by auto. rewrite F2 by auto.
      destruct (memb r prog) eqn:Em; [apply memb_In in Em; contradiction|reflexivity]. }
    split.
    { unfold assert_ok. apply forallb_forall. intros r Hr. destruct (Hevals r Hr) as [Hrl _].
      destruct (recycled_of (cell_at g r)) eqn:Erec; simpl; auto.
      rewrite F2 by auto. assert (Em : memb r prog = true) by (apply memb_In; auto). rewrite Em, Erec. simpl.
      apply negb_true_iff. apply Nat.eqb_neq. apply F1; auto. }
    intros b' res Hpu.
    assert (Hpost : pu_post g prog (mk_bufs V data3 base sp1 nx) b' res).
    { apply plain_update_spec; auto.
      - intros r Hr. simpl. unfold data3. rewrite length_set_data, Hl2. destruct (Hevals r Hr); auto.
      - intros r Hr Hrec. simpl. rewrite F3 by auto. destruct (Hevals r Hr) as [Hrl _]. rewrite F2 by auto.
        assert (Em : memb r prog = true) by (apply memb_In; auto). rewrite Em, Hrec. simpl. apply F1; auto. }
    destruct Hpost as [P1 P2 P3 P4 P5 P6 P7 P8 P9 P10]. simpl in *.
    assert (Hl3 : length data3 = length g) by (unfold data3; rewrite length_set_data; auto).
    split; [exact P1|]. split; [rewrite P2; exact Hl3|]. split; [rewrite P3; unfold sp1; apply length_save|].
    split.
    { intros r Hr Hrec _. rewrite P4. apply F1; auto. }
    split.
    { split; [lia|]. intros r Hr. destruct (Hids r Hr) as [H1 [H2 H3]]. split; [lia|]. split.
      - destruct (in_dec Nat.eq_dec r prog) as [Hin|Hnin].
        + destruct (P8 r Hin) as [H|[H|[_ H]]].
          * rewrite H, F3 by auto. rewrite F2 by auto. destruct (_ && _).
            -- specialize (F1n r Hr). lia.
            -- lia.
          * lia.
          * rewrite H. lia.
        + rewrite P5 by auto. destruct (in_dec Nat.eq_dec r (map fst ch)) as [Hic|Hnic].
          * apply in_map_iff in Hic. destruct Hic as [[r' v] [Hr' Hv]]. simpl in Hr'. subst r'.
            unfold data3. rewrite (set_data_in ch data2 r v); auto; [simpl; lia|rewrite Hl2; auto].
          * rewrite F4 by auto. lia.
      - rewrite P4. specialize (F1n r Hr). lia. }
    (* facts that hold whether or not the program completed *)
    assert (Hinp' : forall r, r < length g -> is_eval (cell_at g r) = false ->
                    sval (slot_at (b_data V b') r) = nth r (inputs_of g cvals (set_all ch lv1)) dflt).
    { intros r Hr Hev.
      assert (Hnin : ~ In r prog). { intros Hc. destruct (Hevals r Hc) as [_ He]. congruence. }
      rewrite P5 by auto. rewrite nth_inputs by auto.
      destruct (in_dec Nat.eq_dec r (map fst ch)) as [Hic|Hnic].
      * assert (Hro : r < nopt g) by (apply Hidx; auto).
        apply in_map_iff in Hic. destruct Hic as [[r' v] [Hr' Hv]]. simpl in Hr'. subst r'.
        unfold data3. rewrite (set_data_in ch data2 r v); auto; [|rewrite Hl2; auto]. simpl.
        apply Nat.ltb_lt in Hro. rewrite Hro. rewrite (set_all_in ch lv1 r v); auto.
        rewrite Hll. apply Nat.ltb_lt; auto.
      * rewrite F4 by auto. rewrite Hinp by auto. rewrite nth_inputs by auto.
        destruct (r <? nopt g); auto. rewrite set_all_notin by auto. reflexivity. }
    assert (Hnp : forall r, r < length g -> is_eval (cell_at g r) = true -> ~ In r prog ->
                  slot_at (b_data V b') r = slot_at base r /\
                  forall a, In a (args_of (cell_at g r)) -> slot_at (b_data V b') a = slot_at base a).
    { intros r Hr Hev Hnin.
      assert (Hrni : ~ In r (map fst ch)).
      { intros Hc. destruct (Hidx_ne r Hc) as [_ Hn]. congruence. }
      split; [rewrite P5 by auto; apply F4; auto|].
      intros a Ha.
      assert (Hna : ~ In a prog /\ ~ In a (map fst ch)).
      { split; intros Hc; apply Hnin; eapply Hclosed; eauto. }
      destruct Hna as [Hnap Hnai]. assert (Har : a < length g) by (specialize (Hwa r a Hr Ha); lia).
      rewrite P5 by auto. apply F4; auto. }
    split.
    2:{ (* a calc raised: no solution exists for the requested vector *)
      intros k Hk vs Hlv Hcv Hiv. destruct (P10 k Hk) as [Q1 [Q2 Q3]].
      assert (Hag : forall m j, j < m -> j < k -> j < length g -> sval (slot_at (b_data V b') j) = nth j vs dflt).
      { induction m as [|m IHm]; intros j Hjm Hjk Hjl; [lia|].
        destruct (is_eval (cell_at g j)) eqn:Ej.
        - assert (Hargs_eq : forall d, (forall a, In a (args_of (cell_at g j)) -> sval (slot_at d a) = nth a vs dflt) ->
                                       argvals g j d = vargs g j vs).
          { intros d Hd. unfold Calc.argvals, CalcSpec.vargs. apply map_ext_in. exact Hd. }
          destruct (in_dec Nat.eq_dec j prog) as [Hin|Hnin].
          + pose proof (Q3 j Hin Hjk) as Hq. rewrite (Hargs_eq (b_data V b')) in Hq.
            * rewrite (Hcv j Hjl Ej) in Hq. inversion Hq; auto.
            * intros a Ha. pose proof (Hwa j a Hjl Ha). apply IHm; lia.
          + destruct (Hnp j Hjl Ej Hnin) as [Hj Hja]. rewrite Hj.
            pose proof (Hcons j Hjl Ej) as Hc. rewrite <- argvals_vargs, nth_vals in Hc.
            rewrite (Hargs_eq base) in Hc.
            * rewrite (Hcv j Hjl Ej) in Hc. inversion Hc; auto.
            * intros a Ha. rewrite <- (Hja a Ha). pose proof (Hwa j a Hjl Ha). apply IHm; lia.
        - rewrite Hinp' by auto. symmetry. apply Hiv; auto. }
      destruct (Hevals k Q1) as [Hkl Hke].
      assert (Hak : argvals g k (b_data V b') = vargs g k vs).
      { unfold Calc.argvals, CalcSpec.vargs. apply map_ext_in. intros a Ha. pose proof (Hwa k a Hkl Ha).
        apply (Hag (S a)); lia. }
      rewrite Hak in Q2. rewrite (Hcv k Hkl Hke) in Q2. discriminate. }
    intros Hres. split.
    - split; [rewrite P2; exact Hl3|]. split.
      + (* consistency *)
        intros r Hr Hev. rewrite <- argvals_vargs. rewrite nth_vals.
        destruct (in_dec Nat.eq_dec r prog) as [Hin|Hnin]; [apply P6; auto|].
        assert (Hrni : ~ In r (map fst ch)).
        { intros Hc. destruct (Hidx_ne r Hc) as [_ Hn]. congruence. }
        rewrite P5 by auto. rewrite F4 by auto.
        specialize (Hcons r Hr Hev). rewrite <- argvals_vargs, nth_vals in Hcons. rewrite <- Hcons. f_equal.
        unfold Calc.argvals. apply map_ext_in. intros a Ha.
        assert (Hna : ~ In a prog /\ ~ In a (map fst ch)).
        { split; intros Hc; apply Hnin; eapply Hclosed; eauto. }
        destruct Hna as [Hnap Hnai]. assert (Har : a < length g) by (specialize (Hwa r a Hr Ha); lia).
        rewrite P5 by auto. rewrite F4 by auto. reflexivity.
      + (* inputs *)
        intros r Hr Hev.
        assert (Hnin : ~ In r prog). { intros Hc. destruct (Hevals r Hc) as [_ He]. congruence. }
        rewrite P5 by auto. rewrite nth_inputs by auto.
        destruct (in_dec Nat.eq_dec r (map fst ch)) as [Hic|Hnic].
        * assert (Hro : r < nopt g) by (apply Hidx; auto).
          apply in_map_iff in Hic. destruct Hic as [[r' v] [Hr' Hv]]. simpl in Hr'. subst r'.
          unfold data3. rewrite (set_data_in ch data2 r v); auto; [|rewrite Hl2; auto]. simpl.
          apply Nat.ltb_lt in Hro. rewrite Hro. rewrite (set_all_in ch lv1 r v); auto.
          rewrite Hll. apply Nat.ltb_lt; auto.
        * rewrite F4 by auto. rewrite Hinp by auto. rewrite nth_inputs by auto.
          destruct (r <? nopt g); auto. rewrite set_all_notin by auto. reflexivity.
    - intros r Hr Hrec. destruct (in_dec Nat.eq_dec r prog) as [Hin|Hnin].
      + apply P9; auto.
      + rewrite P5 by auto. rewrite F4; auto.
        intros Hc. destruct (Hidx_ne r Hc) as [_ Hn]. apply recycled_is_eval in Hrec. congruence.
  Qed.


  (** ** the invariant *)
  Notation state := (state V).
  Definition recyc (g : graph) (r : nat) : Prop := recycled_of (cell_at g r) = true.

  Record Inv (g : graph) (cvals : list V) (s : state) : Prop := {
    i_len0 : length (cv0 V s) = length g;
    i_len1 : length (cv1 V s) = length g;
    i_lens : length (spare V s) = length g;
    i_lenl : length (lastv V s) = nopt g;
    (* the live buffer is the solution for last_values *)
    i_cur : solves g cvals (lastv V s) (cur V s);
    i_idc : forall r, r < length g -> recyc g r -> sid (slot_at (cur V s) r) <> 0;
    (* if an undo is available, the other buffer is the solution for last_values with the undo applied *)
    i_undo : undo V s <> [] ->
             solves g cvals (set_all (undo V s) (lastv V s)) (oth V s) /\
             wf_changes g (undo V s) /\
             (forall r, r < length g -> recyc g r -> sid (slot_at (oth V s) r) <> 0);
    (* recycled arrays: when both buffers hold the same array, the spare one is a different array *)
    i_alias : forall r, r < length g -> recyc g r ->
              sid (slot_at (cv0 V s) r) = sid (slot_at (cv1 V s) r) ->
              sid (slot_at (spare V s) r) <> sid (slot_at (cv0 V s) r);
    i_nxt : 0 < nxt V s /\ forall r, r < length g ->
              sid (slot_at (cv0 V s) r) < nxt V s /\ sid (slot_at (cv1 V s) r) < nxt V s /\
              sid (slot_at (spare V s) r) < nxt V s
  }.

  Definition mkst (dsw : bool) (d b sp : list slot) (nx : nat) (sw : bool) (lv : list V) (un : list (nat * V)) : state :=
    if dsw then mk_state V b d sw lv un sp nx else mk_state V d b sw lv un sp nx.

  Lemma inb_In : forall u l, inb V veq u l = true <-> In u l.
  Proof.
    intros [i v] l. unfold inb. rewrite existsb_exists. split.
    - intros [[i' v'] [Hin He]]. simpl in He. apply andb_true_iff in He. destruct He as [H1 H2].
      apply Nat.eqb_eq in H1. apply veq_spec in H2. subst. exact Hin.
    - intros Hin. exists (i, v). split; auto. simpl. rewrite Nat.eqb_refl. simpl. apply veq_spec. reflexivity.
  Qed.

  Lemma nodup_fst_filter : forall (p : nat * V -> bool) l, NoDup (map fst l) -> NoDup (map fst (filter p l)).
  Proof.
    intros p. induction l as [|c t IH]; intros Hnd; simpl; auto.
    simpl in Hnd. inversion Hnd as [|? ? Hnot Hnd']; subst.
    destruct (p c); simpl; auto. constructor; auto.
    intros Hc. apply Hnot. apply in_map_iff in Hc. destruct Hc as [x [Hx Hin]]. apply filter_In in Hin.
    apply in_map_iff. exists x. tauto.
  Qed.

  Lemma nodup_fst_inj : forall (l : list (nat * V)) j v v', NoDup (map fst l) -> In (j, v) l -> In (j, v') l -> v = v'.
  Proof.
    induction l as [|c t IH]; intros j v v' Hnd H1 H2; [contradiction|].
    simpl in Hnd. inversion Hnd as [|? ? Hnot Hnd']; subst.
    destruct H1 as [->|H1], H2 as [H2|H2].
    - inversion H2; auto.
    - exfalso. apply Hnot. simpl. apply in_map_iff. exists (j, v'). auto.
    - exfalso. apply Hnot. subst c. simpl. apply in_map_iff. exists (j, v). auto.
    - eapply IH; eauto.
  Qed.

  Lemma undo_filter_eq : forall un ch0 lv,
    NoDup (map fst un) -> NoDup (map fst ch0) ->
    (forall i, In i (map fst ch0) -> i < length lv) ->
    (forall u, In u un -> In u ch0) ->
    set_all (filter (fun c => negb (inb V veq c un)) ch0) (set_all un lv) = set_all ch0 lv.
  Proof.
    intros un ch0 lv Hndu Hnd0 Hlt Hsub. set (fl := filter (fun c => negb (inb V veq c un)) ch0).
    assert (Hndf : NoDup (map fst fl)) by (apply nodup_fst_filter; auto).
    apply nth_ext with (d := dflt) (d' := dflt); [rewrite !length_set_all; reflexivity|].
    intros j Hj. rewrite !length_set_all in Hj.
    destruct (in_dec Nat.eq_dec j (map fst ch0)) as [Hin|Hnin].
    - apply in_map_iff in Hin. destruct Hin as [[j' v] [Hj' Hv]]. simpl in Hj'. subst j'.
      rewrite (set_all_in ch0 lv j v); auto.
      destruct (inb V veq (j, v) un) eqn:Einb.
      + apply inb_In in Einb.
        assert (Hnf : ~ In j (map fst fl)).
        { intros Hc. apply in_map_iff in Hc. destruct Hc as [[j' v'] [Hj' Hv']]. simpl in Hj'. subst j'.
          apply filter_In in Hv'. destruct Hv' as [Hv' Hneg].
          assert (v = v') by (apply (nodup_fst_inj ch0 j v v' Hnd0 Hv Hv')). subst v'.
          apply inb_In in Einb. rewrite Einb in Hneg. discriminate. }
        rewrite set_all_notin by exact Hnf. apply set_all_in; auto.
      + apply set_all_in; auto.
        * apply filter_In. split; auto. rewrite Einb. reflexivity.
        * rewrite length_set_all. auto.
    - assert (Hnf : ~ In j (map fst fl)).
      { intros Hc. apply Hnin. apply in_map_iff in Hc. destruct Hc as [x [Hx Hin]]. apply filter_In in Hin.
        apply in_map_iff. exists x. tauto. }
      rewrite set_all_notin by exact Hnf. rewrite (set_all_notin ch0 lv j Hnin).
      apply set_all_notin. intros Hc. apply Hnin. apply in_map_iff in Hc. destruct Hc as [x [Hx Hin]].
      apply in_map_iff. exists x. split; auto.
  Qed.

  Lemma pre_undo_ok : forall g cvals s ch0 ch sw1 lv1,
    Inv g cvals s -> wf_changes g ch0 ->
    pre_undo V veq s ch0 = (ch, sw1, lv1) ->
    let base := if sw1 then cv1 V s else cv0 V s in
    solves g cvals lv1 base /\
    (forall r, r < length g -> recyc g r -> sid (slot_at base r) <> 0) /\
    length lv1 = nopt g /\ wf_changes g ch /\
    set_all ch lv1 = set_all ch0 (lastv V s).
  Proof.
    intros g cvals s ch0 ch sw1 lv1 HI [Hnd0 Hlt0] Hpre. unfold pre_undo in Hpre.
    destruct (negb (is_nil (undo V s)) && forallb (fun u => inb V veq u ch0) (undo V s)) eqn:Ec.
    - inversion Hpre; subst; clear Hpre. apply andb_true_iff in Ec. destruct Ec as [Hnn Hall].
      assert (Hne : undo V s <> []) by (destruct (undo V s); simpl in Hnn; [discriminate|intros Hc; discriminate]).
      destruct (i_undo g cvals s HI Hne) as [Hs [[Hndu Hltu] Hid]].
      change (fold_left (fun lv u => upd (fst u) (snd u) lv) (undo V s) (lastv V s)) with (set_all (undo V s) (lastv V s)).
      assert (Hoth : (if negb (sw V s) then cv1 V s else cv0 V s) = oth V s) by (unfold oth; destruct (sw V s); reflexivity).
      simpl. rewrite Hoth. split; [exact Hs|]. split; [exact Hid|]. split; [rewrite length_set_all; apply (i_lenl g cvals s HI)|].
      split.
      + split; [apply nodup_fst_filter; auto|].
        intros i Hi. apply Hlt0. apply in_map_iff in Hi. destruct Hi as [x [Hx Hin]]. apply filter_In in Hin.
        apply in_map_iff. exists x. tauto.
      + apply undo_filter_eq; auto.
        * intros i Hi. rewrite (i_lenl g cvals s HI). auto.
        * intros u Hu. rewrite forallb_forall in Hall. apply inb_In. apply Hall. exact Hu.
    - inversion Hpre; subst; clear Hpre.
      assert (Hc : (if sw V s then cv1 V s else cv0 V s) = cur V s) by reflexivity.
      simpl. rewrite Hc. split; [apply (i_cur g cvals s HI)|]. split; [apply (i_idc g cvals s HI)|].
      split; [apply (i_lenl g cvals s HI)|]. split; [split; auto|reflexivity].
  Qed.

  Lemma change_unfold : forall g s ch0,
    change V dflt f tr veq g s ch0 =
    let '(ch, sw1, lv1) := pre_undo V veq s ch0 in
    let prog := program g (map fst ch) in
    let sw2 := negb sw1 in
    let data0 := if sw2 then cv1 V s else cv0 V s in
    let base := if sw2 then cv0 V s else cv1 V s in
    let sp1 := save_spare V dflt g data0 base (spare V s) in
    let data2 := give_spare V dflt g prog base base sp1 in
    if negb (assert_ok V dflt g prog data2 base)
    then (mkst sw2 data2 base sp1 (nxt V s) sw2 lv1 [], RAssert)
    else
      let '(co, lv2, data3) := set_vals V dflt tr (nopt g) ch lv1 data2 in
      match plain_update V dflt f g prog (mk_bufs V data3 base sp1 (nxt V s)) with
      | (b, None) =>
          let s' := mkst sw2 (b_data V b) (b_base V b) (b_spare V b) (b_nxt V b) sw2 lv2 co in
          (s', RVal (sval (slot_at (cur V s') (length g - 1))))
      | (b, Some r) =>
          (mkst sw2 (b_data V b) (b_base V b) (b_spare V b) (b_nxt V b) (negb sw2)
                (set_all co lv2) [], RExc r)
      end.
  Proof.
    intros g s ch0. unfold change, mkst. destruct (pre_undo V veq s ch0) as [[ch sw1] lv1].
    destruct sw1; simpl; reflexivity.
  Qed.


  Lemma Inv_build : forall g cvals dsw d b sp nx sw lv un,
    length d = length g -> length b = length g -> length sp = length g -> length lv = nopt g ->
    let c := if Bool.eqb sw dsw then d else b in
    let o := if Bool.eqb sw dsw then b else d in
    solves g cvals lv c ->
    (forall r, r < length g -> recyc g r -> sid (slot_at c r) <> 0) ->
    (un <> [] -> solves g cvals (set_all un lv) o /\ wf_changes g un /\
                 (forall r, r < length g -> recyc g r -> sid (slot_at o r) <> 0)) ->
    (forall r, r < length g -> recyc g r -> sid (slot_at d r) = sid (slot_at b r) -> sid (slot_at sp r) <> sid (slot_at b r)) ->
    (0 < nx /\ forall r, r < length g -> sid (slot_at b r) < nx /\ sid (slot_at d r) < nx /\ sid (slot_at sp r) < nx) ->
    Inv g cvals (mkst dsw d b sp nx sw lv un).
  Proof.
    intros g cvals dsw d b sp nx sw lv un Hd Hb Hs Hl c o Hc Hidc Hun Hal [Hnx Hids].
    destruct dsw, sw; unfold mkst; simpl in *; constructor; unfold cur, oth; simpl; auto;
      try (intros r Hr Hrec He; try (rewrite He); try (rewrite <- He); apply Hal; auto; fail);
      try (split; auto; intros r Hr; destruct (Hids r Hr) as [H1 [H2 H3]]; auto; fail).
    all: try (intros r Hr Hrec He; first [ rewrite He; apply Hal; auto | rewrite <- He; apply Hal; auto | apply Hal; auto ]).
  Qed.


  (** every consequence program has the three properties (proved below from wf_args) *)
  Definition progs_ok (g : graph) : Prop :=
    forall keys, (forall i, In i keys -> i < nopt g) -> prog_ok g keys (program g keys).

  Theorem change_ok : forall g cvals s ch0,
    wf_graph g -> progs_ok g -> Inv g cvals s -> wf_changes g ch0 ->
    let '(s', r) := change V dflt f tr veq g s ch0 in
    Inv g cvals s' /\
    match r with
    | RVal v => lastv V s' = set_all ch0 (lastv V s) /\ v = sval (slot_at (cur V s') (length g - 1))
    | RExc _ => forall vs, length vs = length g -> consistent g vs ->
                  (forall r, r < length g -> is_eval (cell_at g r) = false ->
                             nth r vs dflt = nth r (inputs_of g cvals (set_all ch0 (lastv V s))) dflt) -> False
    | RAssert => False
    end.
  Proof.
    intros g cvals s ch0 Hwf Hprogs HI Hch0. rewrite change_unfold.
    destruct (pre_undo V veq s ch0) as [[ch sw1] lv1] eqn:Epre.
    destruct (pre_undo_ok g cvals s ch0 ch sw1 lv1 HI Hch0 Epre) as [Hsol [Hid0 [Hll [Hwch Heq]]]].
    cbv zeta.
    set (base := if negb sw1 then cv0 V s else cv1 V s).
    set (data0 := if negb sw1 then cv1 V s else cv0 V s).
    assert (Hbase : base = if sw1 then cv1 V s else cv0 V s) by (unfold base; destruct sw1; reflexivity).
    rewrite <- Hbase in Hsol, Hid0.
    assert (Hlb : length base = length g) by (destruct Hsol; auto).
    assert (Hld : length data0 = length g).
    { unfold data0. destruct (negb sw1); [apply (i_len1 g cvals s HI)|apply (i_len0 g cvals s HI)]. }
    assert (Hal : forall r, r < length g -> recyc g r -> sid (slot_at data0 r) = sid (slot_at base r) ->
                            sid (slot_at (spare V s) r) <> sid (slot_at base r)).
    { intros r Hr Hrec He. pose proof (i_alias g cvals s HI r Hr Hrec) as Ha. unfold data0, base in *.
      destruct (negb sw1).
      - apply Ha. symmetry. exact He.
      - rewrite <- He. apply Ha. exact He. }
    assert (Hids : forall r, r < length g -> sid (slot_at base r) < nxt V s /\ sid (slot_at data0 r) < nxt V s /\
                                             sid (slot_at (spare V s) r) < nxt V s).
    { intros r Hr. destruct (i_nxt g cvals s HI) as [_ Hn]. destruct (Hn r Hr) as [H0 [H1 H2]].
      unfold data0, base. destruct (negb sw1); auto. }
    assert (Hpk : prog_ok g (map fst ch) (program g (map fst ch))) by (apply Hprogs; apply Hwch).
    destruct (core_step g cvals lv1 base data0 (spare V s) (nxt V s) ch Hwf Hpk Hsol Hld (i_lens g cvals s HI) Hll Hwch
                        Hid0 Hal (proj1 (i_nxt g cvals s HI)) Hids) as [Hassert Hpu].
    rewrite Hassert. simpl negb. cbv iota.
    rewrite set_vals_spec by (apply Hwch).
    destruct (plain_update V dflt f g (program g (map fst ch))
                (mk_bufs V (set_data ch (give_spare V dflt g (program g (map fst ch)) base base
                                           (save_spare V dflt g data0 base (spare V s)))) base
                         (save_spare V dflt g data0 base (spare V s)) (nxt V s))) as [b' res] eqn:Epu.
    destruct (Hpu b' res eq_refl) as [Hb [Hdl [Hsl [Hal' [Hids' [Hres Hfail]]]]]].
    destruct Hwch as [Hndc Hltc].
    assert (Hrest : set_all (olds ch lv1) (set_all ch lv1) = lv1).
    { apply restore_olds; auto. intros i Hi. rewrite Hll. auto. }
    destruct res as [r|].
    - (* a calc raised: switch back, restore last_values, clear the undo *)
      split; [|rewrite <- Heq; apply (Hfail r eq_refl)]. rewrite Hrest.
      apply Inv_build; auto.
      + rewrite Hb. exact Hlb.
      + assert (E : Bool.eqb (negb (negb sw1)) (negb sw1) = false) by (destruct sw1; reflexivity).
        rewrite E, Hb. exact Hsol.
      + assert (E : Bool.eqb (negb (negb sw1)) (negb sw1) = false) by (destruct sw1; reflexivity).
        rewrite E, Hb. exact Hid0.
      + intros Hc. contradiction.
      + rewrite Hb. exact Hal'.
      + rewrite Hb. exact Hids'.
    - destruct (Hres eq_refl) as [Hsol' Hid'].
      split.
      + apply Inv_build; auto.
        * rewrite Hb. exact Hlb.
        * rewrite length_set_all. exact Hll.
        * rewrite Bool.eqb_reflx. exact Hsol'.
        * rewrite Bool.eqb_reflx. exact Hid'.
        * intros Hne. rewrite Bool.eqb_reflx, Hb, Hrest. split; [exact Hsol|]. split; [|exact Hid0].
          split; rewrite olds_fst; auto.
        * rewrite Hb. exact Hal'.
        * rewrite Hb. exact Hids'.
      + split; [|reflexivity].
        unfold mkst. destruct (negb sw1); simpl; exact Heq.
  Qed.


  (** ** a solution of the DAG equations IS the fresh evaluation *)
  Notation fresh := (fresh V dflt f).
  Notation eval_ranks := (eval_ranks V dflt f).

  Lemma vargs_ext : forall g r vs vs', wf_args g -> r < length g ->
    (forall a, a < r -> nth a vs dflt = nth a vs' dflt) -> vargs g r vs = vargs g r vs'.
  Proof.
    intros g r vs vs' Hwf Hr H. unfold CalcSpec.vargs. apply map_ext_in. intros a Ha. apply H. eapply Hwf; eauto.
  Qed.

  Lemma eval_ranks_solution : forall g vs, wf_args g -> consistent g vs -> length vs = length g ->
    forall m k cur, k + m = length g -> length cur = length g ->
      (forall r, r < length g -> r < k \/ is_eval (cell_at g r) = false -> nth r cur dflt = nth r vs dflt) ->
      eval_ranks g (seq k m) cur = Some vs.
  Proof.
    intros g vs Hwf Hcons Hlv. induction m as [|m IH]; intros k cur Hkm Hlc Hag.
    - simpl. f_equal. apply nth_ext with (d := dflt) (d' := dflt); [lia|].
      intros r Hr. apply Hag; [lia|left; lia].
    - simpl. assert (Hk : k < length g) by lia.
      destruct (is_eval (cell_at g k)) eqn:Ev.
      + rewrite (vargs_ext g k cur vs); auto.
        * rewrite (Hcons k Hk Ev). apply IH; [lia|rewrite length_upd; auto|].
          intros r Hr Hc. rewrite nth_upd. destruct (Nat.eqb_spec k r) as [->|Hne]; simpl.
          -- apply Nat.ltb_lt in Hk. rewrite Hlc, Hk. reflexivity.
          -- apply Hag; auto. destruct Hc; [left; lia|right; auto].
        * intros a Ha. apply Hag; [lia|left; auto].
      + apply IH; [lia|auto|]. intros r Hr Hc. apply Hag; auto.
        destruct Hc as [Hc|Hc]; [|right; auto]. destruct (Nat.eq_dec r k) as [->|]; [right; auto|left; lia].
  Qed.

  Lemma fresh_of_solves : forall g cvals x buf, wf_args g -> solves g cvals x buf ->
    fresh g (inputs_of g cvals x) = Some (vals buf).
  Proof.
    intros g cvals x buf Hwf [Hl [Hc Hi]]. unfold CalcSpec.fresh.
    apply eval_ranks_solution; auto.
    - unfold vals. rewrite map_length. exact Hl.
    - unfold CalcSpec.inputs_of. rewrite map_length, seq_length. reflexivity.
    - intros r Hr [Hlt|Hne]; [lia|]. rewrite nth_vals. symmetry. apply Hi; auto.
  Qed.


  Lemma eval_ranks_sound : forall g, wf_args g -> forall m k cur vs,
    eval_ranks g (seq k m) cur = Some vs -> k + m = length g -> length cur = length g ->
    length vs = length g /\
    (forall r, r < k \/ is_eval (cell_at g r) = false -> nth r vs dflt = nth r cur dflt) /\
    (forall r, k <= r < length g -> is_eval (cell_at g r) = true -> f r (vargs g r vs) = Some (nth r vs dflt)).
  Proof.
    intros g Hwf. induction m as [|m IH]; intros k cur vs He Hkm Hl; simpl in He.
    - inversion He; subst. split; auto. split; auto. intros r Hr. lia.
    - assert (Hk : k < length g) by lia.
      destruct (is_eval (cell_at g k)) eqn:Ev.
      + destruct (f k (vargs g k cur)) as [v|] eqn:Ef; [|discriminate].
        destruct (IH (S k) (upd k v cur) vs He ltac:(lia) ltac:(rewrite length_upd; auto)) as [I1 [I2 I3]].
        split; auto. split.
        * intros r Hr. rewrite I2.
          -- apply nth_upd_neq. destruct Hr as [Hr|Hr]; [lia|]. intros ->. congruence.
          -- destruct Hr; [left; lia|right; auto].
        * intros r Hr Hevr. destruct (Nat.eq_dec r k) as [->|Hne]; [|apply I3; auto; lia].
          rewrite (vargs_ext g k vs cur); auto.
          -- rewrite Ef. f_equal. rewrite I2 by (left; lia). symmetry. apply nth_upd_eq. lia.
          -- intros a Ha. rewrite I2 by (left; lia). apply nth_upd_neq. lia.
      + destruct (IH (S k) cur vs He ltac:(lia) Hl) as [I1 [I2 I3]]. split; auto. split.
        * intros r Hr. apply I2. destruct Hr; [left; lia|right; auto].
        * intros r Hr Hevr. destruct (Nat.eq_dec r k) as [->|Hne]; [congruence|apply I3; auto; lia].
  Qed.

  Lemma fresh_sound : forall g inp vs, wf_args g -> length inp = length g -> fresh g inp = Some vs ->
    length vs = length g /\ consistent g vs /\
    (forall r, r < length g -> is_eval (cell_at g r) = false -> nth r vs dflt = nth r inp dflt).
  Proof.
    intros g inp vs Hwf Hl Hf. unfold CalcSpec.fresh in Hf.
    destruct (eval_ranks_sound g Hwf (length g) 0 inp vs Hf eq_refl Hl) as [I1 [I2 I3]].
    split; auto. split.
    - intros r Hr He. apply I3; auto. lia.
    - intros r Hr He. apply I2. right; auto.
  Qed.

End CalcProofs.

(** * the consequence table of Calculator.__init__ is closed under dependency *)
Definition inner (r : nat) (args : list nat) (T : list (list nat)) : list (list nat) :=
  fold_left (fun T a => upd a (r :: nth r T [] ++ nth a T []) T) args T.

Lemma inner_spec : forall r args T, (forall a, In a args -> a < r) -> r < length T ->
  let T' := inner r args T in
  length T' = length T /\
  nth r T' [] = nth r T [] /\
  (forall x, incl (nth x T []) (nth x T' [])) /\
  (forall a, In a args -> In r (nth a T' []) /\ incl (nth r T []) (nth a T' [])) /\
  (forall x y, In y (nth x T' []) -> In y (nth x T []) \/ y = r \/ In y (nth r T [])) /\
  (forall x, ~ In x args -> nth x T' [] = nth x T []).
Proof.
  intros r args. induction args as [|a t IH]; intros T Hlt Hr; simpl.
  - repeat split; auto; try (intros; apply incl_refl); intros; contradiction.
  - assert (Har : a < r) by (apply Hlt; left; auto).
    set (T1 := upd a (r :: nth r T [] ++ nth a T []) T).
    assert (Hl1 : length T1 = length T) by apply length_upd.
    assert (Hr1 : nth r T1 [] = nth r T []) by (apply nth_upd_neq; lia).
    assert (Ha1 : nth a T1 [] = r :: nth r T [] ++ nth a T []) by (apply nth_upd_eq; lia).
    assert (Hx1 : forall x, x <> a -> nth x T1 [] = nth x T []) by (intros x Hx; apply nth_upd_neq; auto).
    destruct (IH T1 (fun a' H => Hlt a' (or_intror H)) ltac:(lia)) as [I1 [I2 [I3 [I4 [I5 I6]]]]].
    fold (inner r t T1) in *.
    assert (Hinc1 : forall x, incl (nth x T []) (nth x T1 [])).
    { intros x. destruct (Nat.eq_dec x a) as [->|Hx].
      - rewrite Ha1. intros y Hy. right. apply in_or_app. right; auto.
      - rewrite Hx1 by auto. apply incl_refl. }
    split; [lia|]. split; [congruence|]. split.
    { intros x. eapply incl_tran; [apply Hinc1|apply I3]. }
    split.
    { intros a' [<-|Ha'].
      - split.
        + apply (I3 a). rewrite Ha1. left; auto.
        + eapply incl_tran; [|apply (I3 a)]. rewrite Ha1. intros y Hy. right. apply in_or_app. left; auto.
      - destruct (I4 a' Ha') as [J1 J2]. split; auto. rewrite <- Hr1. exact J2. }
    split.
    { intros x y Hy. destruct (I5 x y Hy) as [H|[H|H]].
      - destruct (Nat.eq_dec x a) as [->|Hx].
        + rewrite Ha1 in H. destruct H as [H|H]; [right; left; auto|].
          apply in_app_or in H. destruct H; [right; right; auto|left; auto].
        + rewrite Hx1 in H by auto. left; auto.
      - right; left; auto.
      - right; right. rewrite <- Hr1. auto. }
    intros x Hx. rewrite I6 by (intros Hc; apply Hx; right; auto). apply Hx1. intros ->. apply Hx. left; auto.
Qed.

Definition QI (n : nat) (l : list (nat * cell)) (T : list (list nat)) : Prop :=
  length T = n /\
  (forall r c a, In (r, c) l -> In a (args_of c) -> In r (nth a T []) /\ incl (nth r T []) (nth a T [])) /\
  (forall x y, In y (nth x T []) -> exists c, In (y, c) l /\ args_of c <> []) /\
  (forall i x, In x (nth i T []) -> incl (nth x T []) (nth i T [])).

Lemma QI_step : forall n r c l T,
  QI n l T -> r < n -> (forall a, In a (args_of c) -> a < r) ->
  (forall r' c', In (r', c') l -> r < r') ->
  QI n ((r, c) :: l) (conseq_step T (r, c)).
Proof.
  intros n r c l T [Hlen [Hcl [Hev Htr]]] Hr Hargs Hgt. unfold conseq_step. simpl fst. simpl snd.
  fold (inner r (args_of c) T).
  destruct (args_of c) as [|a0 t0] eqn:Eargs.
  { (* no args: nothing changes *)
    simpl. split; auto. split.
    - intros r' c' a [He|Hin] Ha; [inversion He; subst; rewrite Eargs in Ha; contradiction|eapply Hcl; eauto].
    - split; auto. intros x y Hy. destruct (Hev x y Hy) as [c' [H1 H2]]. exists c'. split; auto. right; auto. }
  rewrite <- Eargs in *.
  destruct (inner_spec r (args_of c) T Hargs ltac:(lia)) as [I1 [I2 [I3 [I4 [I5 I6]]]]].
  set (T' := inner r (args_of c) T) in *.
  assert (Hbig : forall x y, In y (nth x T []) -> r < y).
  { intros x y Hy. destruct (Hev x y Hy) as [c' [H1 _]]. eapply Hgt; eauto. }
  assert (Hsame : forall x, r < x -> nth x T' [] = nth x T []).
  { intros x Hx. apply I6. intros Hc. apply Hargs in Hc. lia. }
  split; [lia|]. split.
  { intros r' c' a [He|Hin] Ha.
    - inversion He; subst r' c'. destruct (I4 a Ha) as [J1 J2]. split; auto. rewrite I2. exact J2.
    - destruct (Hcl r' c' a Hin Ha) as [J1 J2]. split; [apply I3; auto|].
      rewrite Hsame by (eapply Hgt; eauto). eapply incl_tran; [exact J2|apply I3]. }
  split.
  { intros x y Hy. destruct (I5 x y Hy) as [H|[H|H]].
    - destruct (Hev x y H) as [c' [H1 H2]]. exists c'. split; auto. right; auto.
    - subst y. exists c. split; [left; auto|]. rewrite Eargs. discriminate.
    - destruct (Hev r y H) as [c' [H1 H2]]. exists c'. split; auto. right; auto. }
  intros i x Hx. destruct (I5 i x Hx) as [H|[H|H]].
  - rewrite Hsame by (eapply Hbig; eauto). eapply incl_tran; [apply (Htr i x H)|apply I3].
  - subst x. rewrite I2.
    destruct (in_dec Nat.eq_dec i (args_of c)) as [Hi|Hi].
    + apply I4; auto.
    + (* r in T'[i] = T[i] is impossible: T only holds larger ranks *)
      rewrite I6 in Hx by auto. apply Hbig in Hx. lia.
  - rewrite Hsame by (eapply Hbig; eauto).
    destruct (in_dec Nat.eq_dec i (args_of c)) as [Hi|Hi].
    + eapply incl_tran; [apply (Htr r x H)|]. apply I4; auto.
    + rewrite I6 in Hx by auto.
      destruct (I5 i x ltac:(rewrite I6 by auto; exact Hx)) as [H'|[H'|H']].
      * eapply incl_tran; [apply (Htr i x H')|apply I3].
      * apply Hbig in H. lia.
      * eapply incl_tran; [apply (Htr i x Hx)|apply I3].
Qed.

Lemma In_combine_seq : forall (g : graph) r c, In (r, c) (combine (seq 0 (length g)) g) <-> r < length g /\ c = cell_at g r.
Proof.
  intros g r c. split.
  - intros Hin. apply (In_nth _ _ (0, CConst)) in Hin. destruct Hin as [k [Hk Hn]].
    rewrite combine_length, seq_length, Nat.min_id in Hk.
    rewrite combine_nth in Hn by (rewrite seq_length; auto). rewrite seq_nth in Hn by auto. simpl in Hn.
    inversion Hn; subst. split; auto.
  - intros [Hr ->]. replace (r, cell_at g r) with (nth r (combine (seq 0 (length g)) g) (0, CConst)).
    + apply nth_In. rewrite combine_length, seq_length, Nat.min_id. auto.
    + rewrite combine_nth by (rewrite seq_length; auto). rewrite seq_nth by auto. reflexivity.
Qed.

Lemma combine_seq_sorted : forall (l : list cell) k,
  StronglySorted (fun p q : nat * cell => fst p < fst q) (combine (seq k (length l)) l).
Proof.
  induction l as [|c t IH]; intros k; simpl; constructor; auto.
  apply Forall_forall. intros [r' c'] Hin. apply in_combine_l in Hin. apply in_seq in Hin. simpl. lia.
Qed.

Lemma QI_fold : forall n (l : list (nat * cell)),
  StronglySorted (fun p q : nat * cell => fst p < fst q) l ->
  (forall r c, In (r, c) l -> r < n /\ forall a, In a (args_of c) -> a < r) ->
  QI n l (fold_right (fun rc T => conseq_step T rc) (repeat [] n) l).
Proof.
  intros n. induction l as [|[r c] t IH]; intros Hs Hwf.
  - simpl. split; [apply repeat_length|]. split; [intros; contradiction|].
    assert (Hnil : forall x, nth x (repeat (@nil nat) n) [] = []).
    { intros x. destruct (Nat.lt_ge_cases x n) as [H|H]; [apply nth_repeat|apply nth_overflow; rewrite repeat_length; auto]. }
    split; intros ? ? H; rewrite Hnil in H; contradiction.
  - simpl. inversion Hs as [|? ? Hs' Hall]; subst. apply QI_step.
    + apply IH; auto. intros r' c' Hin. apply Hwf. right; auto.
    + apply (Hwf r c). left; auto.
    + apply (Hwf r c). left; auto.
    + intros r' c' Hin. rewrite Forall_forall in Hall. apply (Hall (r', c') Hin).
Qed.

Lemma conseq_QI : forall g, wf_args g -> QI (length g) (combine (seq 0 (length g)) g) (conseq_table g).
Proof.
  intros g Hwf. unfold conseq_table. rewrite <- fold_left_rev_right. rewrite rev_involutive.
  apply QI_fold.
  - apply combine_seq_sorted.
  - intros r c Hin. apply In_combine_seq in Hin. destruct Hin as [Hr ->]. split; [exact Hr|]. intros a Ha. eapply Hwf; eauto.
Qed.

Lemma filter_seq_sorted : forall (p : nat -> bool) n a, StronglySorted lt (filter p (seq a n)).
Proof.
  intros p. induction n as [|n IH]; intros a; simpl; [constructor|].
  destruct (p a); auto. constructor; auto.
  apply Forall_forall. intros x Hx. apply filter_In in Hx. destruct Hx as [Hx _]. apply in_seq in Hx. lia.
Qed.

Lemma program_In : forall g keys r,
  In r (program g keys) <-> r < length g /\ exists i, In i keys /\ In r (nth i (conseq_table g) []).
Proof.
  intros g keys r. unfold program, program_of. rewrite filter_In, in_seq, existsb_exists. split.
  - intros [Hr [i [Hi Hm]]]. split; [lia|]. exists i. split; auto. apply memb_In; auto.
  - intros [Hr [i [Hi Hm]]]. split; [lia|]. exists i. split; auto. apply memb_In; auto.
Qed.

Theorem program_ok : forall g keys, wf_args g -> prog_ok g keys (program g keys).
Proof.
  intros g keys Hwf. destruct (conseq_QI g Hwf) as [Hlen [Hcl [Hev Htr]]].
  split; [apply filter_seq_sorted|]. split.
  - intros r Hr. apply program_In in Hr. destruct Hr as [Hr [i [Hi Hin]]]. split; auto.
    destruct (Hev i r Hin) as [c [Hc Hne]]. apply In_combine_seq in Hc. destruct Hc as [_ ->].
    destruct (cell_at g r); simpl in *; auto; contradiction.
  - intros c a Hc Ha Hor. apply program_In. split; auto.
    assert (Hca : In (c, cell_at g c) (combine (seq 0 (length g)) g)) by (apply In_combine_seq; auto).
    destruct (Hcl c (cell_at g c) a Hca Ha) as [J1 J2].
    destruct Hor as [Hk|Hp].
    + exists a. split; auto.
    + apply program_In in Hp. destruct Hp as [_ [i [Hi Hin]]]. exists i. split; auto.
      apply (Htr i a Hin). exact J1.
Qed.

(** * histories *)
Lemma upd_app_len : forall A (pre : list A) o os x, upd (length pre) x (pre ++ o :: os) = pre ++ x :: os.
Proof. induction pre as [|h t IH]; intros; simpl; auto. rewrite IH. reflexivity. Qed.

Section CalcHistory.
  Variable V : Type.
  Variable dflt : V.
  Variable f : nat -> list V -> option V.
  Variable tr : nat -> V -> V.
  Variable tinv : nat -> V -> V.
  Variable veq : V -> V -> bool.
  Hypothesis veq_spec : forall a b, veq a b = true <-> a = b.

  Notation vec_changes := (vec_changes V veq).
  Notation set_all := (set_all V).
  Notation fresh := (fresh V dflt f).
  Notation inputs_of := (inputs_of V dflt tr).
  Notation Inv := (Inv V dflt f tr).
  Notation vals := (vals V).
  Notation requested := (requested V).

  Lemma vec_changes_idx : forall ol news i j,
    In j (map fst (vec_changes i ol news)) -> i <= j < i + length ol.
  Proof.
    induction ol as [|o os IH]; intros news i j Hin; simpl in Hin; [destruct Hin|].
    destruct news as [|x xs]; [destruct Hin|]. simpl.
    destruct (negb (veq o x)); simpl in Hin.
    - destruct Hin as [<-|Hin]; [lia|]. apply IH in Hin. lia.
    - apply IH in Hin. lia.
  Qed.

  Lemma vec_changes_nodup : forall ol news i, NoDup (map fst (vec_changes i ol news)).
  Proof.
    induction ol as [|o os IH]; intros news i; simpl; [constructor|].
    destruct news as [|x xs]; [constructor|].
    destruct (negb (veq o x)); simpl; auto. constructor; auto.
    intros Hc. apply vec_changes_idx in Hc. lia.
  Qed.

  Lemma vec_changes_set : forall ol news pre, length ol = length news ->
    set_all (vec_changes (length pre) ol news) (pre ++ ol) = pre ++ news.
  Proof.
    induction ol as [|o os IH]; intros news pre Hl; destruct news as [|x xs]; simpl in Hl; try discriminate; auto.
    simpl. assert (Hp : S (length pre) = length (pre ++ [x])) by (rewrite app_length; simpl; lia).
    destruct (veq o x) eqn:E; simpl.
    - apply veq_spec in E. subst x. rewrite Hp.
      replace (pre ++ o :: os) with ((pre ++ [o]) ++ os) by (rewrite <- app_assoc; reflexivity).
      rewrite IH by lia. rewrite <- app_assoc. reflexivity.
    - unfold CalcSpec.set_all. simpl. fold (set_all (vec_changes (S (length pre)) os xs) (upd (length pre) x (pre ++ o :: os))).
      rewrite upd_app_len. rewrite Hp.
      replace (pre ++ x :: os) with ((pre ++ [x]) ++ os) by (rewrite <- app_assoc; reflexivity).
      rewrite IH by lia. rewrite <- app_assoc. reflexivity.
  Qed.

  Definition wf_op (g : graph) (o : op V) : Prop :=
    match o with
    | OChange c => wf_changes V g c
    | OVec values => length values = nopt g
    end.

  Theorem step_ok : forall g cvals s o,
    wf_graph g -> Inv g cvals s -> wf_op g o ->
    let '(s', r) := step V dflt f tr veq g s o in
    Inv g cvals s' /\
    match r with
    | RVal v => lastv V s' = requested (lastv V s) o /\
                fresh g (inputs_of g cvals (requested (lastv V s) o)) = Some (vals (cur V s')) /\
                v = nth (length g - 1) (vals (cur V s')) dflt
    | RExc _ => fresh g (inputs_of g cvals (requested (lastv V s) o)) = None
    | RAssert => False
    end.
  Proof.
    intros g cvals s o Hwf HI Ho.
    assert (Hprogs : progs_ok g) by (intros keys _; apply program_ok; apply Hwf).
    assert (Hch : exists ch, step V dflt f tr veq g s o = change V dflt f tr veq g s ch /\ wf_changes V g ch /\
                             set_all ch (lastv V s) = requested (lastv V s) o).
    { destruct o as [c|values]; simpl in *.
      - exists c. auto.
      - exists (vec_changes 0 (lastv V s) values). split; [reflexivity|]. split.
        + split; [apply vec_changes_nodup|]. intros i Hi. apply vec_changes_idx in Hi.
          rewrite (i_lenl V dflt f tr g cvals s HI) in Hi. lia.
        + apply (vec_changes_set (lastv V s) values []). rewrite (i_lenl V dflt f tr g cvals s HI). auto. }
    destruct Hch as [ch [Hst [Hwch Hreq]]]. rewrite Hst.
    pose proof (change_ok V dflt f tr tinv veq veq_spec g cvals s ch Hwf Hprogs HI Hwch) as H.
    destruct (change V dflt f tr veq g s ch) as [s' r]. destruct H as [HI' Hr]. split; auto.
    destruct r as [v|k|]; auto.
    2:{ destruct (fresh g (inputs_of g cvals (requested (lastv V s) o))) as [vs|] eqn:Efr; auto. exfalso.
        rewrite <- Hreq in Efr.
        assert (Hli : length (inputs_of g cvals (set_all ch (lastv V s))) = length g).
        { unfold CalcSpec.inputs_of. rewrite map_length, seq_length. reflexivity. }
        destruct (fresh_sound V dflt f g _ vs (proj1 Hwf) Hli Efr) as [F1 [F2 F3]].
        apply (Hr vs F1 F2 F3). }
    destruct Hr as [Hlv Hv].
    split; [congruence|]. split.
    - rewrite <- Hreq, <- Hlv. apply fresh_of_solves; [apply Hwf|]. apply (i_cur V dflt f tr g cvals s' HI').
    - rewrite nth_vals. exact Hv.
  Qed.

  Theorem run_ok : forall g cvals, wf_graph g -> forall ops s,
    Inv g cvals s -> Forall (wf_op g) ops ->
    let '(s', rs) := run V dflt f tr veq g s ops in
    Inv g cvals s' /\ hist_ok V dflt f tr g cvals (lastv V s) ops rs (lastv V s').
  Proof.
    intros g cvals Hwf. induction ops as [|o ops IH]; intros s HI Hall; simpl.
    - split; auto. constructor.
    - inversion Hall as [|? ? Ho Hall']; subst.
      pose proof (step_ok g cvals s o Hwf HI Ho) as Hs.
      destruct (step V dflt f tr veq g s o) as [s1 r]. destruct Hs as [HI1 Hr].
      specialize (IH s1 HI1 Hall'). destruct (run V dflt f tr veq g s1 ops) as [s2 rs]. destruct IH as [HI2 Hh].
      split; auto. destruct r as [v|k|]; [| |contradiction].
      + destruct Hr as [Hlv [Hf Hv]]. eapply h_val; eauto. rewrite <- Hlv. exact Hh.
      + eapply h_exc; [exact Hr| |exact Hh]. apply fresh_of_solves; [apply Hwf|]. apply (i_cur V dflt f tr g cvals s1 HI1).
  Qed.

  (** ** Calculator.__init__ establishes the invariant *)
  Notation slot_at := (slot_at V dflt).
  Notation argvals := (argvals V dflt).

  Definition PI (g : graph) (inp0 : list V) (k : nat) (c0 c1 : list (slot V)) (nx : nat) : Prop :=
    length c0 = length g /\ length c1 = length g /\ 0 < nx /\
    (forall r, r < length g -> sid (slot_at c0 r) < nx /\ sid (slot_at c1 r) < nx) /\
    (forall r, r < k -> is_eval (cell_at g r) = true -> f r (argvals g r c0) = Some (sval (slot_at c0 r))) /\
    (forall r, r < k -> is_eval (cell_at g r) = false -> sval (slot_at c0 r) = nth r inp0 dflt) /\
    (forall r, r < k -> recycled_of (cell_at g r) = true -> sid (slot_at c0 r) <> 0).

  Lemma PI_upd : forall g inp0 k c0 c1 nx s0 s1 nx',
    wf_args g -> PI g inp0 k c0 c1 nx -> k < length g -> nx <= nx' ->
    sid s0 < nx' -> sid s1 < nx' ->
    (is_eval (cell_at g k) = true -> f k (argvals g k c0) = Some (sval s0)) ->
    (is_eval (cell_at g k) = false -> sval s0 = nth k inp0 dflt) ->
    (recycled_of (cell_at g k) = true -> sid s0 <> 0) ->
    PI g inp0 (S k) (upd k s0 c0) (upd k s1 c1) nx'.
  Proof.
    intros g inp0 k c0 c1 nx s0 s1 nx' Hwf [L0 [L1 [Hnx [Hids [Hev [Hin Hrc]]]]]] Hk Hle H0 H1 He Hn Hrk.
    assert (Hk0 : k <? length c0 = true) by (apply Nat.ltb_lt; lia).
    assert (Hk1 : k <? length c1 = true) by (apply Nat.ltb_lt; lia).
    assert (Hs0 : forall r, slot_at (upd k s0 c0) r = if k =? r then s0 else slot_at c0 r).
    { intros r. rewrite (slot_at_upd V dflt). rewrite Hk0, andb_true_r. reflexivity. }
    assert (Hs1 : forall r, slot_at (upd k s1 c1) r = if k =? r then s1 else slot_at c1 r).
    { intros r. rewrite (slot_at_upd V dflt). rewrite Hk1, andb_true_r. reflexivity. }
    assert (Harg : forall r, r <= k -> r < length g -> argvals g r (upd k s0 c0) = argvals g r c0).
    { intros r Hr Hrl. apply (argvals_ext V dflt); auto. intros a Ha. rewrite Hs0.
      destruct (Nat.eqb_spec k a); [lia|reflexivity]. }
    split; [rewrite length_upd; auto|]. split; [rewrite length_upd; auto|]. split; [lia|]. split.
    { intros r Hrl. rewrite Hs0, Hs1. destruct (Hids r Hrl). destruct (k =? r); split; lia. }
    split.
    { intros r Hr Hevr. rewrite Harg by lia. rewrite Hs0. destruct (Nat.eqb_spec k r) as [->|Hne]; auto.
      apply Hev; auto. lia. }
    split.
    { intros r Hr Hevr. rewrite Hs0. destruct (Nat.eqb_spec k r) as [->|Hne]; auto. apply Hin; auto. lia. }
    intros r Hr Hrec. rewrite Hs0. destruct (Nat.eqb_spec k r) as [->|Hne]; auto. apply Hrc; auto. lia.
  Qed.

  Lemma prime_none : forall g inp0 l, fold_left (prime_cell V dflt f g inp0) l None = None.
  Proof. induction l; simpl; auto. Qed.

  Lemma prime_fold : forall g inp0, wf_args g -> forall m k c0 c1 isc nx c0' c1' isc' nx',
    k + m = length g -> PI g inp0 k c0 c1 nx ->
    fold_left (prime_cell V dflt f g inp0) (seq k m) (Some (c0, c1, isc, nx)) = Some (c0', c1', isc', nx') ->
    PI g inp0 (length g) c0' c1' nx'.
  Proof.
    intros g inp0 Hwf. induction m as [|m IH]; intros k c0 c1 isc nx c0' c1' isc' nx' Hkm HP Hf.
    - simpl in Hf. inversion Hf; subst. replace (length g) with k by lia. exact HP.
    - simpl in Hf. assert (Hk : k < length g) by lia.
      destruct (cell_at g k) as [| |args rec] eqn:Ec.
      + eapply (IH (S k)); [lia| |exact Hf].
        eapply PI_upd; eauto; simpl; try (destruct HP as [_ [_ [Hnx _]]]; lia); rewrite Ec; simpl; auto; discriminate.
      + eapply (IH (S k)); [lia| |exact Hf].
        eapply PI_upd; eauto; simpl; try (destruct HP as [_ [_ [Hnx _]]]; lia); rewrite Ec; simpl; auto; discriminate.
      + assert (Hnx : 0 < nx) by (destruct HP as [_ [_ [Hnx _]]]; exact Hnx).
        destruct (forallb (fun a => nth a isc false) args).
        * destruct (f k (argvals g k c0)) as [v|] eqn:Ef; [|rewrite prime_none in Hf; discriminate].
          eapply (IH (S k)); [lia| |exact Hf].
          destruct rec; eapply PI_upd; eauto; simpl; try lia; rewrite Ec; simpl; auto; try discriminate; intros _; lia.
        * destruct (f k (argvals g k c0)) as [v0|] eqn:Ef; [|rewrite prime_none in Hf; discriminate].
          destruct (f k (argvals g k c1)) as [v1|] eqn:Ef1; [|rewrite prime_none in Hf; discriminate].
          destruct rec.
          -- eapply (IH (S k)); [lia| |exact Hf].
             eapply PI_upd; eauto; simpl; try lia; rewrite Ec; simpl; auto; try discriminate; intros _; lia.
          -- eapply (IH (S k)); [lia| |exact Hf].
             eapply PI_upd; eauto; simpl; try lia; rewrite Ec; simpl; auto; try discriminate.
  Qed.

  Theorem init_ok : forall g inp0 s,
    wf_graph g ->
    (forall i, i < nopt g -> tr i (tinv i (nth i inp0 dflt)) = nth i inp0 dflt) ->
    init V dflt f tinv g inp0 = Some s ->
    Inv g inp0 s.
  Proof.
    intros g inp0 s [Hwa [Hopt Hpos]] Hrt Hinit. unfold init in Hinit.
    destruct (fold_left (prime_cell V dflt f g inp0) (seq 0 (length g))
                (Some (repeat (dslot V dflt) (length g), repeat (dslot V dflt) (length g), repeat false (length g), 1)))
      as [[[[c0 c1] isc] nx]|] eqn:Ef; [|discriminate].
    inversion Hinit; subst s; clear Hinit.
    assert (Hd : forall r, slot_at (repeat (dslot V dflt) (length g)) r = dslot V dflt).
    { intros r. unfold Calc.slot_at. destruct (Nat.lt_ge_cases r (length g)); [apply nth_repeat|].
      apply nth_overflow. rewrite repeat_length. auto. }
    assert (HP0 : PI g inp0 0 (repeat (dslot V dflt) (length g)) (repeat (dslot V dflt) (length g)) 1).
    { split; [apply repeat_length|]. split; [apply repeat_length|]. split; [lia|]. split.
      - intros r Hr. rewrite Hd. simpl. lia.
      - repeat split; intros; lia. }
    destruct (prime_fold g inp0 Hwa (length g) 0 _ _ _ _ c0 c1 isc nx eq_refl HP0 Ef)
      as [L0 [L1 [Hnx [Hids [Hev [Hin Hrc]]]]]].
    assert (Hsp : forall r, slot_at (repeat (dslot V dflt) (length g)) r = dslot V dflt) by exact Hd.
    constructor; simpl; auto.
    - apply repeat_length.
    - rewrite map_length, seq_length. reflexivity.
    - unfold cur. simpl. split; [exact L0|]. split.
      + intros r Hr He. rewrite <- (argvals_vargs V dflt). rewrite (nth_vals V dflt). apply Hev; auto.
      + intros r Hr He. rewrite (nth_inputs V dflt tr) by auto. rewrite Hin by auto.
        destruct (Nat.ltb_spec r (nopt g)) as [Hlt|Hge]; auto.
        rewrite nth_map_seq by auto. rewrite Hin by auto. symmetry. apply Hrt. exact Hlt.
    - intros Hc. exfalso. apply Hc. reflexivity.
    - intros r Hr Hrec _. rewrite Hsp. simpl. intros Hc. symmetry in Hc. revert Hc. apply Hrc; auto.
    - split; auto. intros r Hr. destruct (Hids r Hr). rewrite Hsp. simpl. repeat split; lia.
  Qed.

  Theorem run_from_init : forall g inp0 s0 ops,
    wf_graph g ->
    (forall i, i < nopt g -> tr i (tinv i (nth i inp0 dflt)) = nth i inp0 dflt) ->
    init V dflt f tinv g inp0 = Some s0 ->
    Forall (wf_op g) ops ->
    let '(s', rs) := run V dflt f tr veq g s0 ops in
    hist_ok V dflt f tr g inp0 (lastv V s0) ops rs (lastv V s') /\
    fresh g (inputs_of g inp0 (lastv V s')) = Some (vals (cur V s')).
  Proof.
    intros g inp0 s0 ops Hwf Hrt Hinit Hall.
    pose proof (init_ok g inp0 s0 Hwf Hrt Hinit) as HI.
    pose proof (run_ok g inp0 Hwf ops s0 HI Hall) as H.
    destruct (run V dflt f tr veq g s0 ops) as [s' rs]. destruct H as [HI' Hh]. split; auto.
    apply fresh_of_solves; [apply Hwf|]. apply (i_cur V dflt f tr g inp0 s' HI').
  Qed.

  (** testfunction(): reading without changing anything gives the fresh value *)
  Theorem testfunction_fresh : forall g cvals s, wf_graph g -> Inv g cvals s ->
    exists vs, fresh g (inputs_of g cvals (lastv V s)) = Some vs /\
               testfunction V dflt g s = nth (length g - 1) vs dflt.
  Proof.
    intros g cvals s Hwf HI. exists (vals (cur V s)). split.
    - apply fresh_of_solves; [apply Hwf|]. apply (i_cur V dflt f tr g cvals s HI).
    - unfold testfunction. rewrite nth_vals. reflexivity.
  Qed.
End CalcHistory.

(** non-vacuity: a concrete graph with a recycled cell meets every hypothesis of
    [run_from_init], and a history with an undo short-cut runs through it *)
Definition ex_g : graph := [COpt; COpt; CEval [0; 1] true; CEval [2; 1] false].
Definition ex_f (r : nat) (args : list nat) : option nat :=
  let s := fold_left Nat.add args 0 in if 20 <? s then None else Some s.

Example ex_wf : wf_graph ex_g.
Proof.
  split; [|split].
  - intros r a Hr Ha. destruct r as [|[|[|[|r]]]]; simpl in *; try lia; try contradiction; intuition lia.
  - intros i Hi. change (nopt ex_g) with 2 in Hi. destruct i as [|[|i]]; simpl; try lia; split; auto.
  - simpl. lia.
Qed.

Example ex_init : exists s0, init nat 0 ex_f (fun _ v => v) ex_g [1; 2; 0; 0] = Some s0.
Proof. eexists. vm_compute. reflexivity. Qed.

Example ex_ops_wf : Forall (wf_op nat ex_g) [OChange [(0, 3)]; OChange [(0, 1); (1, 5)]; OVec [1; 2]; OVec [9; 9]].
Proof.
  assert (H2 : nopt ex_g = 2) by reflexivity.
  apply Forall_cons; [|apply Forall_cons; [|apply Forall_cons; [|apply Forall_cons; [|apply Forall_nil]]]];
    simpl; unfold wf_changes; try rewrite H2; try reflexivity.
  - split; [repeat constructor; simpl; intuition lia|simpl; intuition lia].
  - split; [repeat constructor; simpl; intuition lia|simpl; intuition lia].
Qed.

(** OUTSIDE the domain of the theorems (wf_op demands optimisable parameters):
    Calculator.change also accepts the rank of a ConstCell ("non-optimiser
    parameter").  The guard meant to invalidate the undo in that case
    (`if self.last_undo and max(self.last_undo)[0] >= len(self.opt_pars)`) reads
    last_undo just after it was cleared, so it is dead code: a change that sets an
    OptPar and a ConstCell together, followed by the revert of the OptPar, returns
    the value for the OLD constant.  Model-level witness (same behaviour observed
    on the real Calculator; no caller in cogent3 uses this path). *)
Example nonparameter_change_undo_stale :
  let g := [COpt; CConst; CEval [0; 1] false] in
  let fsum := fun (_ : nat) (a : list nat) => Some (fold_left Nat.add a 0) in
  match init nat 0 fsum (fun _ v => v) g [2; 5; 0] with
  | Some s0 =>
      let '(s1, r1) := change nat 0 fsum (fun _ v => v) Nat.eqb g s0 [(0, 4); (1, 7)] in
      let '(s2, r2) := change nat 0 fsum (fun _ v => v) Nat.eqb g s1 [(0, 2)] in
      r1 = RVal 11 /\ r2 = RVal 7 (* a fresh evaluation gives 2 + 7 = 9 *)
  | None => False
  end.
Proof. vm_compute. split; reflexivity. Qed.

(** * the controller: an exception inside `with updates_postponed()` leaves the
    function suspended; a later assignment is not propagated (witness) *)
Definition hsum (d : nat) (args : list nat) : nat := fold_left Nat.add args 0.

Definition wf_dgraph (g : dgraph) : Prop := forall d a, d < length g -> In a (nth d g []) -> a < d.

Lemma postponed_exception_stale :
  exists (g : dgraph) (asg : list nat) (ops : list (cop nat)),
    wf_dgraph g /\
    let s := fold_left (cstep nat 0 hsum (fun _ _ => false) true false g) ops (cinit nat 0 hsum (fun _ _ => false) true g asg) in
    final nat 0 g s <> nth (length g - 1) (cfresh nat 0 hsum g (assigned nat s)) 0.
Proof.
  exists [[]; []; [0; 1]], [1; 2; 0], [CPostponed [(0, 5)] true; CAssign 1 7].
  split.
  - intros d a Hd Ha. destruct d as [|[|[|d]]]; simpl in *; try lia; try contradiction.
  - vm_compute. discriminate.
Qed.

(** * the controller: refinement for every history (with try/finally, or when no block raises) *)
Section CtlProofs.
  Variable V : Type.
  Variable dflt : V.
  Variable h : nat -> list V -> V.
  Variable fails : nat -> list V -> bool.
  Variable retain : bool.

  Notation recompute := (recompute V dflt h).
  Notation update_pass := (update_pass V dflt h fails retain).
  Notation assign := (assign V dflt h fails retain).
  Notation postponed := (postponed V dflt h fails retain).
  Notation cstep := (cstep V dflt h fails retain).
  Notation cinit := (cinit V dflt h fails retain).
  Notation pass_step := (pass_step V dflt h fails).
  Notation cfresh := (cfresh V dflt h).
  Notation csolution := (csolution V dflt h).
  Notation cstate := (cstate V).

  Definition lok (g : dgraph) (asg vals : list V) (d : nat) : Prop :=
    nth d vals dflt = recompute g asg vals d.

  (** every definition that is not dirty satisfies its equation *)
  Definition CInv (g : dgraph) (s : cstate) : Prop :=
    length (values V s) = length g /\
    forall d, d < length g -> memb d (changed V s) = false -> lok g (assigned V s) (values V s) d.

  Definition CClean (g : dgraph) (s : cstate) : Prop :=
    suspended V s = false /\ changed V s = [] /\ length (values V s) = length g /\
    csolution g (assigned V s) (values V s).

  Lemma recompute_ext : forall g asg vals vals' d,
    (forall a, In a (dargs g d) -> nth a vals' dflt = nth a vals dflt) ->
    recompute g asg vals' d = recompute g asg vals d.
  Proof.
    intros g asg vals vals' d H. unfold Calc.recompute. destruct (is_leaf g d); auto.
    f_equal. apply map_ext_in. exact H.
  Qed.

  Lemma recompute_asg : forall g asg vals d d' v, d' <> d ->
    recompute g (upd d v asg) vals d' = recompute g asg vals d'.
  Proof.
    intros. unfold Calc.recompute. destruct (is_leaf g d'); auto. apply nth_upd_neq; auto.
  Qed.

  Lemma memb_app : forall d l1 l2, memb d (l1 ++ l2) = memb d l1 || memb d l2.
  Proof. intros. unfold memb. apply existsb_app. Qed.

  Lemma memb_false : forall d l, memb d l = false <-> ~ In d l.
  Proof.
    intros d l. split.
    - intros H Hc. apply memb_In in Hc. congruence.
    - intros H. destruct (memb d l) eqn:E; auto. apply memb_In in E. contradiction.
  Qed.

  Lemma In_clients : forall g k d, In d (clients g k) <-> d < length g /\ In k (dargs g d).
  Proof.
    intros g k d. unfold clients. rewrite filter_In, in_seq, memb_In. split; intros [H1 H2]; split; auto; lia.
  Qed.

  Lemma pass_frozen : forall g asg l vals ch, fold_left (pass_step g asg) l (vals, ch, true) = (vals, ch, true).
  Proof. induction l as [|d l IH]; intros; simpl; auto. Qed.

  (** the loop of _updateIntermediateValues, raising updates included: definitions that are not
      (still) dirty satisfy their equation; if no update raised, all do *)
  Lemma pass_fold : forall g asg, wf_dgraph g -> forall m k vals ch,
    k + m = length g -> length vals = length g ->
    (forall d, d < k -> lok g asg vals d) ->
    (forall d, k <= d < length g -> memb d ch = false -> lok g asg vals d) ->
    let '(vals', ch', fl) := fold_left (pass_step g asg) (seq k m) (vals, ch, false) in
    length vals' = length g /\
    (fl = false -> forall d, d < length g -> lok g asg vals' d) /\
    (forall d, d < length g -> memb d ch' = false -> lok g asg vals' d).
  Proof.
    intros g asg Hwf. induction m as [|m IH]; intros k vals ch Hkm Hl Hlo Hhi.
    - simpl. split; auto. split; [intros _ d Hd; apply Hlo; lia|]. intros d Hd _. apply Hlo. lia.
    - cbn [seq fold_left]. assert (Hk : k < length g) by lia.
      unfold Calc.pass_step at 2. destruct (memb k ch) eqn:Em.
      + destruct (raises_at V dflt fails g vals k) eqn:Er.
        * (* the update raised: the loop is abandoned, nothing else changes *)
          rewrite pass_frozen. split; auto. split; [discriminate|].
          intros d Hd Hm. destruct (Nat.lt_ge_cases d k); [apply Hlo; auto|apply Hhi; auto].
        * set (vals1 := upd k (recompute g asg vals k) vals).
          assert (Hn1 : forall a, a <> k -> nth a vals1 dflt = nth a vals dflt) by (intros a Ha; apply nth_upd_neq; auto).
          assert (Hargs : forall d, d <= k -> d < length g -> recompute g asg vals1 d = recompute g asg vals d).
          { intros d Hd Hdl. apply recompute_ext. intros a Ha. apply Hn1. specialize (Hwf d a Hdl Ha). lia. }
          apply IH; [lia|unfold vals1; rewrite length_upd; auto| |].
          -- intros d Hd. unfold lok. destruct (Nat.eq_dec d k) as [->|Hne].
             ++ rewrite Hargs by lia. unfold vals1. apply nth_upd_eq. lia.
             ++ rewrite Hargs by lia. rewrite Hn1 by auto. apply Hlo. lia.
          -- intros d Hd Hm. rewrite memb_app in Hm. apply orb_false_iff in Hm. destruct Hm as [Hm1 Hm2].
             unfold lok. rewrite Hn1 by lia.
             rewrite (recompute_ext g asg vals vals1 d).
             ++ apply Hhi; auto. lia.
             ++ intros a Ha. apply Hn1. intros ->. apply memb_false in Hm2. apply Hm2. apply In_clients. split; [lia|auto].
      + apply IH; [lia|auto| |].
        * intros d Hd. destruct (Nat.eq_dec d k) as [->|Hne]; [apply Hhi; auto; lia|apply Hlo; lia].
        * intros d Hd Hm. apply Hhi; auto. lia.
  Qed.

  Lemma update_pass_suspended : forall g s, suspended V s = true -> update_pass g s = s.
  Proof. intros g s Hs. unfold Calc.update_pass. rewrite Hs. reflexivity. Qed.

  (** with the dirty set retained, a pass — raising or not — keeps the invariant; and a pass that
      leaves no dirty definition has produced the solution *)
  Lemma update_pass_inv : forall g s, wf_dgraph g -> CInv g s -> retain = true ->
    CInv g (update_pass g s) /\ assigned V (update_pass g s) = assigned V s /\
    suspended V (update_pass g s) = suspended V s.
  Proof.
    intros g s Hwf [Hl Hlok] Hret. destruct (suspended V s) eqn:Hs.
    - rewrite update_pass_suspended by auto. repeat split; auto.
    - unfold Calc.update_pass. rewrite Hs.
      pose proof (pass_fold g (assigned V s) Hwf (length g) 0 (values V s) (changed V s) eq_refl Hl
                            ltac:(intros; lia) ltac:(intros d Hd Hm; apply Hlok; auto; lia)) as H.
      destruct (fold_left (pass_step g (assigned V s)) (seq 0 (length g)) (values V s, changed V s, false)) as [[vals' ch'] fl].
      destruct H as [H1 [H2 H3]]. simpl. rewrite Hret. split; [|auto]. split; simpl; auto.
      intros d Hd Hm. destruct fl; [apply H3; auto|apply H2; auto].
  Qed.

  Lemma CInv_clean : forall g s, CInv g s -> changed V s = [] -> csolution g (assigned V s) (values V s).
  Proof. intros g s [Hl Hlok] Hc d Hd. apply Hlok; auto. rewrite Hc. reflexivity. Qed.

  (** marking a definition dirty and changing its setting keeps the invariant *)
  Lemma CInv_mark : forall g s d v,
    CInv g s -> CInv g (mk_cstate V (values V s) (upd d v (assigned V s)) (d :: changed V s) (suspended V s)).
  Proof.
    intros g s d v [Hl Hlok]. split; simpl; auto.
    intros d' Hd' Hm. unfold memb in Hm. simpl in Hm. apply orb_false_iff in Hm. destruct Hm as [Hne Hm].
    apply Nat.eqb_neq in Hne. unfold lok. simpl. rewrite recompute_asg by auto. apply Hlok; auto.
  Qed.

  Lemma assign_ok : forall g s d v, wf_dgraph g -> retain = true -> CInv g s ->
    CInv g (assign g s d v) /\ assigned V (assign g s d v) = upd d v (assigned V s) /\
    suspended V (assign g s d v) = suspended V s.
  Proof.
    intros g s d v Hwf Hret HI. unfold Calc.assign.
    set (s1 := mk_cstate V (values V s) (upd d v (assigned V s)) (d :: changed V s) (suspended V s)).
    assert (HI1 : CInv g s1) by (apply CInv_mark; auto).
    destruct (update_pass_inv g s1 Hwf HI1 Hret) as [A [B C]]. split; auto.
  Qed.

  Definition asg_all (body : list (nat * V)) (asg : list V) : list V :=
    fold_left (fun a dv => upd (fst dv) (snd dv) a) body asg.

  Lemma body_fold : forall g, wf_dgraph g -> retain = true -> forall body s,
    CInv g s ->
    let s2 := fold_left (fun s dv => assign g s (fst dv) (snd dv)) body s in
    CInv g s2 /\ suspended V s2 = suspended V s /\ assigned V s2 = asg_all body (assigned V s).
  Proof.
    intros g Hwf Hret. induction body as [|[d v] t IH]; intros s HI; simpl; auto.
    destruct (assign_ok g s d v Hwf Hret HI) as [Hc [Ha Hsu]].
    specialize (IH (assign g s d v) Hc). simpl in IH.
    destruct IH as [I1 [I2 I3]]. split; auto. split; [congruence|]. rewrite I3, Ha. reflexivity.
  Qed.

  Definition no_raise (o : cop V) : Prop := match o with CPostponed _ true => False | _ => True end.

  Definition spec_asg (asg : list V) (ops : list (cop V)) : list V :=
    fold_left (fun a o => match o with CAssign d v => upd d v a | CPostponed body _ => asg_all body a end) ops asg.

  Lemma cstep_ok : forall fin g s o, wf_dgraph g -> retain = true -> CInv g s -> suspended V s = false ->
    (fin = true \/ no_raise o) ->
    CInv g (cstep fin g s o) /\ suspended V (cstep fin g s o) = false /\
    assigned V (cstep fin g s o) = match o with CAssign d v => upd d v (assigned V s) | CPostponed body _ => asg_all body (assigned V s) end.
  Proof.
    intros fin g s o Hwf Hret HI Hs Hor.
    destruct o as [d v|body raises]; simpl.
    - destruct (assign_ok g s d v Hwf Hret HI) as [Hc [Ha Hsu]]. split; auto. split; [congruence|auto].
    - unfold Calc.postponed. rewrite Hs.
      set (s1 := mk_cstate V (values V s) (assigned V s) (changed V s) true).
      assert (HI1 : CInv g s1) by (destruct HI; split; auto).
      destruct (body_fold g Hwf Hret body s1 HI1) as [I1 [I2 I3]].
      set (s2 := fold_left (fun s dv => assign g s (fst dv) (snd dv)) body s1) in *.
      assert (Hb : raises && negb fin = false).
      { destruct Hor as [->|Hn]; [destruct raises; reflexivity|]. destruct raises; simpl in Hn; [contradiction|reflexivity]. }
      rewrite Hb.
      set (s3 := mk_cstate V (values V s2) (assigned V s2) (changed V s2) false).
      assert (HI3 : CInv g s3) by (destruct I1; split; auto).
      destruct (update_pass_inv g s3 Hwf HI3 Hret) as [A [B C]]. split; auto. split; [rewrite C; reflexivity|].
      rewrite B. unfold s3. simpl. rewrite I3. reflexivity.
  Qed.

  Lemma cinit_ok : forall g asg, wf_dgraph g -> retain = true ->
    CInv g (cinit g asg) /\ suspended V (cinit g asg) = false /\ assigned V (cinit g asg) = asg.
  Proof.
    intros g asg Hwf Hret. unfold Calc.cinit.
    set (s0 := mk_cstate V (repeat dflt (length g)) asg (seq 0 (length g)) false).
    assert (HI : CInv g s0).
    { split; simpl; [apply repeat_length|]. intros d Hd Hm. exfalso.
      apply memb_false in Hm. apply Hm. apply in_seq. lia. }
    destruct (update_pass_inv g s0 Hwf HI Hret) as [A [B C]]. auto.
  Qed.

  Lemma ctl_run_gen : forall fin g, wf_dgraph g -> retain = true -> forall ops s,
    (fin = true \/ Forall no_raise ops) -> CInv g s -> suspended V s = false ->
    CInv g (fold_left (cstep fin g) ops s) /\ suspended V (fold_left (cstep fin g) ops s) = false /\
    assigned V (fold_left (cstep fin g) ops s) = spec_asg (assigned V s) ops.
  Proof.
    intros fin g Hwf Hret. induction ops as [|o t IH]; intros s Hor Hc Hs; simpl; auto.
    assert (Ho : fin = true \/ no_raise o) by (destruct Hor as [H|H]; [left; auto|right; inversion H; auto]).
    assert (Ht : fin = true \/ Forall no_raise t) by (destruct Hor as [H|H]; [left; auto|right; inversion H; auto]).
    destruct (cstep_ok fin g s o Hwf Hret Hc Hs Ho) as [Hc1 [Hs1 Ha1]].
    destruct (IH (cstep fin g s o) Ht Hc1 Hs1) as [I1 [I2 I3]]. split; auto. split; auto.
    rewrite I3. unfold spec_asg. simpl. rewrite Ha1. reflexivity.
  Qed.

  (** the solution of the equations is unique and is what cfresh computes *)
  Lemma csolution_unique : forall g asg vals vals', wf_dgraph g ->
    length vals = length g -> length vals' = length g ->
    csolution g asg vals -> csolution g asg vals' -> vals = vals'.
  Proof.
    intros g asg vals vals' Hwf Hl Hl' Hs Hs'.
    assert (H : forall n d, d < n -> d < length g -> nth d vals dflt = nth d vals' dflt).
    { induction n as [|n IH]; intros d Hd Hdl; [lia|].
      rewrite (Hs d Hdl), (Hs' d Hdl). apply recompute_ext. intros a Ha.
      specialize (Hwf d a Hdl Ha). apply IH; lia. }
    apply nth_ext with (d := dflt) (d' := dflt); [lia|]. intros d Hd. apply (H (S d)); lia.
  Qed.

  Lemma cfresh_fold : forall g asg, wf_dgraph g -> forall m k vals,
    k + m = length g -> length vals = length g -> (forall d, d < k -> lok g asg vals d) ->
    let vals' := fold_left (fun vals d => upd d (recompute g asg vals d) vals) (seq k m) vals in
    length vals' = length g /\ forall d, d < length g -> lok g asg vals' d.
  Proof.
    intros g asg Hwf. induction m as [|m IH]; intros k vals Hkm Hl Hlo; simpl.
    - split; auto. intros d Hd. apply Hlo. lia.
    - assert (Hk : k < length g) by lia.
      set (vals1 := upd k (recompute g asg vals k) vals).
      assert (Hn1 : forall a, a <> k -> nth a vals1 dflt = nth a vals dflt) by (intros a Ha; apply nth_upd_neq; auto).
      assert (Hargs : forall d, d <= k -> d < length g -> recompute g asg vals1 d = recompute g asg vals d).
      { intros d Hd Hdl. apply recompute_ext. intros a Ha. apply Hn1. specialize (Hwf d a Hdl Ha). lia. }
      apply IH; [lia|unfold vals1; rewrite length_upd; auto|].
      intros d Hd. unfold lok. destruct (Nat.eq_dec d k) as [->|Hne].
      + rewrite Hargs by lia. unfold vals1. apply nth_upd_eq. lia.
      + rewrite Hargs by lia. rewrite Hn1 by auto. apply Hlo. lia.
  Qed.

  Lemma cfresh_solution : forall g asg, wf_dgraph g ->
    length (cfresh g asg) = length g /\ csolution g asg (cfresh g asg).
  Proof.
    intros g asg Hwf. unfold CalcSpec.cfresh.
    apply (cfresh_fold g asg Hwf (length g) 0); auto; [apply repeat_length|intros; lia].
  Qed.

  (** any history — raising definition updates included — keeps the invariant; and whenever the
      dirty set is empty (the last propagation went through) the values are the fresh evaluation *)
  Theorem ctl_refines_fresh : forall fin g asg ops, wf_dgraph g -> retain = true ->
    (fin = true \/ Forall no_raise ops) ->
    let s := fold_left (cstep fin g) ops (cinit g asg) in
    suspended V s = false /\ assigned V s = spec_asg asg ops /\
    (changed V s = [] ->
       values V s = cfresh g (spec_asg asg ops) /\
       final V dflt g s = nth (length g - 1) (cfresh g (spec_asg asg ops)) dflt).
  Proof.
    intros fin g asg ops Hwf Hret Hor. destruct (cinit_ok g asg Hwf Hret) as [Hc [Hs Ha]].
    destruct (ctl_run_gen fin g Hwf Hret ops (cinit g asg) Hor Hc Hs) as [H1 [H2 H3]].
    simpl. split; auto. rewrite Ha in H3. split; auto. intros Hch.
    assert (Hv : values V (fold_left (cstep fin g) ops (cinit g asg)) = cfresh g (spec_asg asg ops)).
    { destruct (cfresh_solution g (spec_asg asg ops) Hwf) as [Hlf Hsf].
      apply (csolution_unique g (spec_asg asg ops)); auto.
      - destruct H1; auto.
      - rewrite <- H3. apply CInv_clean; auto. }
    split; auto. unfold final. rewrite Hv. reflexivity.
  Qed.

  (** a propagation that raises never leaves the dirty set empty (retain = true): "dirty set empty"
      is exactly "the last propagation went through" *)
  Lemma failed_pass_dirty : forall g asg l vals ch vals' ch',
    fold_left (pass_step g asg) l (vals, ch, false) = (vals', ch', true) -> ch' <> [].
  Proof.
    intros g asg. induction l as [|d l IH]; intros vals ch vals' ch' H; simpl in H; [discriminate|].
    destruct (memb d ch) eqn:Em.
    - destruct (raises_at V dflt fails g vals d).
      + rewrite pass_frozen in H. inversion H; subst. intros ->. discriminate.
      + eapply IH; eauto.
    - eapply IH; eauto.
  Qed.
End CtlProofs.

(** * rule export -> import is the identity on every valid setting, boundary values included *)
Section RuleProofs.
  Variable V : Type.
  Variable ltb : V -> V -> bool.
  Variable truthy : V -> bool.
  Variable dlower dupper : V.

  (** a numeric Var has lower <= value <= upper (assign_all only ever builds such settings);
      a non-scalar parameter has no bounds *)
  Definition valid_setting (numeric : bool) (s : setting V) : Prop :=
    match s with
    | SConst _ _ => True
    | SVar _ l v u => numeric = true /\ ltb u l = false /\ ltb v l = false /\ ltb u v = false
    | SNVar _ _ => numeric = false
    end.

  Theorem import_export_id : forall numeric c s,
    valid_setting numeric s ->
    import V ltb truthy dlower dupper numeric c (export V s) = ROk V s.
  Proof.
    intros numeric c s Hv. destruct s as [v|l v u|v]; simpl in *.
    - unfold import, assign_setting. simpl. reflexivity.
    - destruct Hv as [-> [H1 [H2 H3]]]. unfold import, assign_setting. simpl.
      destruct (cur_bounds V dlower dupper c) as [cl cu]. simpl. rewrite H1, H2, H3. reflexivity.
    - subst numeric. unfold import, assign_setting. simpl. reflexivity.
  Qed.

  (** the export never drops a key, whatever the value (0.0 included) *)
  Theorem export_keys : forall s,
    rule_keys V (export V s) =
    match s with
    | SConst _ _ => [true; true; false; false; false]
    | SVar _ _ _ _ => [false; false; true; true; true]
    | SNVar _ _ => [false; false; true; false; false]
    end.
  Proof. destruct s; reflexivity. Qed.

  (** what goes wrong when a falsy init is dropped from the exported rule (the
      `if v` filter): the import keeps the TARGET's current value *)
  Theorem dropped_init_keeps_target_value : forall c l u,
    ltb u l = false -> ltb (cur_value V c) l = false -> ltb u (cur_value V c) = false ->
    import V ltb truthy dlower dupper true c (mk_rule V None false None (Some l) (Some u)) = ROk V (SVar V l (cur_value V c) u).
  Proof.
    intros c l u H1 H2 H3. unfold import, assign_setting. simpl.
    destruct (cur_bounds V dlower dupper c) as [cl cu]. simpl. rewrite H1, H2, H3. reflexivity.
  Qed.
End RuleProofs.

(** the swap-and-clear variant of _updateIntermediateValues ([retain = false]) loses the pending
    definitions when an update raises: definition 2 = p0 + p1 raises above 22; definition 3 = p0
    comes after it.  p0 := 5 is rejected (25), the caller catches; p1 := 10 repairs (15): definition
    2 is recomputed, definition 3 still shows the old p0 *)
Definition fails_ex (d : nat) (args : list nat) : bool := (d =? 2) && (22 <? fold_left Nat.add args 0).

Lemma lost_dirty_set_stale :
  let g : dgraph := [[]; []; [0; 1]; [0]] in
  let ops := [CAssign 0 5; CAssign 1 10] in
  wf_dgraph g /\
  (let s := fold_left (cstep nat 0 hsum fails_ex false true g) ops (cinit nat 0 hsum fails_ex false g [1; 20; 0; 0]) in
   changed nat s = [] /\ values nat s <> cfresh nat 0 hsum g (assigned nat s)) /\
  (let s := fold_left (cstep nat 0 hsum fails_ex true true g) ops (cinit nat 0 hsum fails_ex true g [1; 20; 0; 0]) in
   changed nat s = [] /\ values nat s = cfresh nat 0 hsum g (assigned nat s)).
Proof.
  split.
  - intros d a Hd Ha. destruct d as [|[|[|[|d]]]]; simpl in *; try lia; try contradiction; intuition lia.
  - split; vm_compute; split; try reflexivity; discriminate.
Qed.
