(** C16 — a rule that only re-scopes a parameter keeps every cell's declared bounds *)
From CG3 Require Import Lib.PyZ Model.Nested Model.ScopeBounds Proofs.NestedProofs.

Lemma blookup_set_cells t scope b e :
  blookup (set_cells t scope b) e
  = if mem_name e scope then match blookup t e with Some _ => Some b | None => None end else blookup t e.
Proof.
  induction t as [|[k x] r IH]; simpl.
  - destruct (mem_name e scope); reflexivity.
  - destruct (mem_name k scope) eqn:Mk; simpl; destruct (name_eqb k e) eqn:E; auto.
    + apply name_eqb_eq in E. subst. rewrite Mk. reflexivity.
    + apply name_eqb_eq in E. subst. rewrite Mk. reflexivity.
Qed.

Lemma fold_uniform b : forall r, (forall x, In x r -> x = b) ->
  fold_left (fun acc x : Z * Z => (Z.min (fst acc) (fst x), Z.max (snd acc) (snd x))) r b = b.
Proof.
  induction r as [|x r IH]; simpl; intros H; auto.
  rewrite (H x) by auto. rewrite Z.min_id, Z.max_id. destruct b; simpl. apply IH. intros; apply H; auto.
Qed.

(** all cells of the scope carry the same bounds: the envelope is those bounds *)
Lemma envelope_uniform t scope b :
  (forall c, In c t -> mem_name (fst c) scope = true -> snd c = b) ->
  envelope t scope = None \/ envelope t scope = Some b.
Proof.
  intros H. unfold envelope.
  destruct (map snd (filter (fun c => mem_name (fst c) scope) t)) as [|x r] eqn:E; auto. right.
  assert (Hall : forall y, In y (x :: r) -> y = b).
  { intros y Hy. rewrite <- E in Hy. apply in_map_iff in Hy. destruct Hy as [c [<- Hc]].
    apply filter_In in Hc. destruct Hc. auto. }
  rewrite (Hall x) by (left; auto). f_equal. apply fold_uniform. intros; apply Hall; right; auto.
Qed.

Lemma blookup_In t e b : blookup t e = Some b -> exists k, In (k, b) t /\ name_eqb k e = true.
Proof.
  induction t as [|[k x] r IH]; simpl; [discriminate|].
  destruct (name_eqb k e) eqn:E.
  - intros H; inversion H; subst. exists k. auto.
  - intros H. destruct (IH H) as [k' [Hk He]]. exists k'. auto.
Qed.

(** a scope whose cells all carry the bounds [b], re-assigned WITHOUT stating
    bounds: nothing changes for any cell *)
Lemma assign_scope_keeps_lemma t scope b e :
  (forall c, In c t -> mem_name (fst c) scope = true -> snd c = b) ->
  blookup (assign_scope t scope None None) e = blookup t e.
Proof.
  intros H. unfold assign_scope.
  destruct (envelope_uniform t scope b H) as [-> | ->]; auto.
  destruct b as [l u]. cbn [override]. rewrite blookup_set_cells.
  destruct (mem_name e scope) eqn:M; auto.
  destruct (blookup t e) as [x|] eqn:L; auto.
  destruct (blookup_In _ _ _ L) as [k [Hk Hke]]. apply name_eqb_eq in Hke. subst k.
  f_equal. symmetry. apply (H (e, x) Hk M).
Qed.

(** stated bounds win on the selected cells, the other cells are untouched *)
Lemma assign_scope_states_lemma t scope lo hi e :
  envelope t scope <> None ->
  blookup (assign_scope t scope (Some lo) (Some hi)) e
  = if mem_name e scope then match blookup t e with Some _ => Some (lo, hi) | None => None end else blookup t e.
Proof.
  intros Hn. unfold assign_scope. destruct (envelope t scope) as [[l u]|]; [|congruence].
  cbn [override]. apply blookup_set_cells.
Qed.

(** kappa: [0.5, 2] declared on edges a, b (here x 10: [5, 20]), default [0, 1000] elsewhere; then
    set_param_rule("kappa", is_independent=True).  The code keeps [5, 20] on a and b; computing the
    inherited bounds once for the whole selection widens them to [0, 1000] *)
Lemma split_rule_bounds_witness :
  let t := [([97], (5, 20)); ([98], (5, 20)); ([99], (0, 1000)); ([100], (0, 1000))] in
  apply_rule t [[97]; [98]; [99]; [100]] true None None = t /\
  blookup (apply_rule_envelope_of_selection t [[97]; [98]; [99]; [100]] true None None) [97] = Some (0, 1000).
Proof. split; vm_compute; reflexivity. Qed.

Lemma nodup_functional (t : btable) : NoDup (map fst t) ->
  forall k b1 b2, In (k, b1) t -> In (k, b2) t -> b1 = b2.
Proof.
  induction t as [|[k0 x] r IH]; simpl; intros ND k b1 b2 H1 H2; [destruct H1|].
  inversion ND as [|? ? Hnot ND']; subst.
  destruct H1 as [E1 | H1], H2 as [E2 | H2].
  - congruence.
  - inversion E1; subst. exfalso. apply Hnot. apply (in_map fst) in H2. exact H2.
  - inversion E2; subst. exfalso. apply Hnot. apply (in_map fst) in H1. exact H1.
  - eapply IH; eauto.
Qed.

Lemma blookup_first t k b : NoDup (map fst t) -> In (k, b) t -> blookup t k = Some b.
Proof.
  induction t as [|[k0 x] r IH]; simpl; intros ND Hin; [destruct Hin|].
  inversion ND as [|? ? Hnot ND']; subst.
  destruct Hin as [E | Hin].
  - inversion E; subst. rewrite name_eqb_refl. reflexivity.
  - destruct (name_eqb k0 k) eqn:E; [|auto].
    apply name_eqb_eq in E. subst. exfalso. apply Hnot. apply (in_map fst) in Hin. exact Hin.
Qed.

(** set_param_rule(par, edges=..., is_independent=True) without bounds: every cell keeps its declared bounds *)
Lemma independent_split_keeps_lemma t edges e :
  NoDup (map fst t) -> blookup (apply_rule t edges true None None) e = blookup t e.
Proof.
  intros ND. unfold apply_rule.
  assert (G : forall es acc, (forall e', blookup acc e' = blookup t e') ->
            forall e', blookup (fold_left (fun acc0 x => match envelope t [x] with
                                                         | None => acc0
                                                         | Some (l, u) => set_cells acc0 [x] (override None l, override None u)
                                                         end) es acc) e' = blookup t e').
  { induction es as [|x es IH]; intros acc Hacc e'; simpl; auto.
    apply IH. intros e2.
    destruct (blookup t x) as [b|] eqn:L.
    - assert (U : forall c, In c t -> mem_name (fst c) [x] = true -> snd c = b).
      { intros [k y] Hc Hm. cbn [fst snd] in *. unfold mem_name in Hm. cbn [existsb] in Hm.
        rewrite orb_false_r in Hm. apply name_eqb_eq in Hm. subst k.
        destruct (blookup_In _ _ _ L) as [k' [Hk' Hke]]. apply name_eqb_eq in Hke. subst k'.
        exact (nodup_functional t ND x y b Hc Hk'). }
      destruct (envelope_uniform t [x] b U) as [-> | ->]; auto.
      destruct b as [l u]. cbn [override]. rewrite blookup_set_cells. simpl. rewrite orb_false_r.
      destruct (name_eqb e2 x) eqn:E; auto.
      apply name_eqb_eq in E. subst e2. rewrite Hacc, L. reflexivity.
    - assert (envelope t [x] = None).
      { unfold envelope. rewrite (filter_none (fun c => mem_name (fst c) [x]) t); auto.
        intros [k y] Hc. unfold mem_name. cbn [fst existsb]. rewrite orb_false_r. destruct (name_eqb k x) eqn:E; auto.
        apply name_eqb_eq in E. subst k. rewrite (blookup_first t x y ND Hc) in L. discriminate. }
      rewrite H. auto. }
  apply G. auto.
Qed.
