(** C17 — the chunked GFF load under the repaired rule, for files in which rows
    share IDs: closed form of [merged_gff_records], and (by induction over the
    blocks) independence of the block size when the spans of one feature are
    pairwise distinct. *)
From Coq Require Import Permutation Sorting.Sorted.
From CG3 Require Import Lib.PyZ Model.AnnotDb Model.AnnotDbGff Proofs.AnnotDbProofs Proofs.AnnotDbGffProofs.

Definition aline := (gname * gline)%type.

(** spans (converted, in file order) of the rows named [n] *)
Definition grp (al : list aline) (n : gname) : list (Z * Z) :=
  map (fun p => gl_span (snd p)) (filter (fun p => gname_eqb (fst p) n) al).

(** first row of every name not in [seen], in file order *)
Fixpoint firsts (seen : list gname) (al : list aline) : list aline :=
  match al with
  | [] => []
  | p :: t => if gmem (fst p) seen then firsts seen t else p :: firsts (fst p :: seen) t
  end.

Definition ext (al : list aline) (r : grec) : grec :=
  {| g_name := g_name r; g_first := g_first r; g_spans := g_spans r ++ grp al (g_name r) |}.
Definition mkrec (al : list aline) (p : aline) : grec :=
  {| g_name := fst p; g_first := snd p; g_spans := grp al (fst p) |}.

Definition group (al : list aline) (acc : list grec) : list grec :=
  fold_left (fun acc p => add_to (fst p) (snd p) acc) al acc.

Lemma merged_group ls : forall k acc, merged ls k acc = (group (assign k ls) acc, k + nfake ls).
Proof.
  induction ls as [|l t IH]; intros k acc; cbn [merged assign nfake group fold_left].
  - replace (k + 0) with k by lia. reflexivity.
  - destruct (gl_id l) as [s|]; rewrite IH; cbn [group fold_left fst snd]; [reflexivity|].
    replace (k + 1 + nfake t) with (k + (1 + nfake t)) by lia. reflexivity.
Qed.

Lemma gname_eqb_refl n : gname_eqb n n = true.
Proof. apply gname_eqb_eq. reflexivity. Qed.

Lemma gname_eqb_sym a b : gname_eqb a b = gname_eqb b a.
Proof.
  destruct (gname_eqb a b) eqn:E1, (gname_eqb b a) eqn:E2; try reflexivity.
  - apply gname_eqb_eq in E1. subst. rewrite gname_eqb_refl in E2. discriminate.
  - apply gname_eqb_eq in E2. subst. rewrite gname_eqb_refl in E1. discriminate.
Qed.

Lemma grp_cons_same p t n : gname_eqb (fst p) n = true -> grp (p :: t) n = gl_span (snd p) :: grp t n.
Proof. intros H. unfold grp. cbn [filter]. rewrite H. reflexivity. Qed.

Lemma grp_cons_other p t n : gname_eqb (fst p) n = false -> grp (p :: t) n = grp t n.
Proof. intros H. unfold grp. cbn [filter]. rewrite H. reflexivity. Qed.

Lemma grp_app a b n : grp (a ++ b) n = grp a n ++ grp b n.
Proof. unfold grp. rewrite filter_app, map_app. reflexivity. Qed.

Lemma grp_absent al n : ~ In n (map fst al) -> grp al n = [].
Proof.
  induction al as [|p t IH]; intros H; [reflexivity|].
  rewrite grp_cons_other.
  - apply IH. intros Hin. apply H. right. exact Hin.
  - apply gname_eqb_false. intros E. apply H. left. exact E.
Qed.

Lemma firsts_not_seen al : forall s q, In q (firsts s al) -> gmem (fst q) s = false.
Proof.
  induction al as [|p t IH]; intros s q H; cbn [firsts] in H; [contradiction|].
  destruct (gmem (fst p) s) eqn:E.
  - apply IH. exact H.
  - destruct H as [<-|H]; [exact E|].
    apply IH in H. cbn [gmem existsb] in H. apply orb_false_iff in H. destruct H as [_ H]. exact H.
Qed.

Lemma firsts_ext al : forall s s', (forall x, gmem x s = gmem x s') -> firsts s al = firsts s' al.
Proof.
  induction al as [|p t IH]; intros s s' H; cbn [firsts]; [reflexivity|].
  rewrite <- H. destruct (gmem (fst p) s); [apply IH; exact H|].
  f_equal. apply IH. intros x. cbn [gmem existsb]. f_equal. apply H.
Qed.

Lemma gmem_app x a b : gmem x (a ++ b) = gmem x a || gmem x b.
Proof. unfold gmem. apply existsb_app. Qed.

Lemma NoDup_app_single {A} (l : list A) x : NoDup l -> ~ In x l -> NoDup (l ++ [x]).
Proof.
  induction l as [|y l IH]; cbn [app]; intros Hnd Hx.
  - repeat constructor. intros [].
  - inversion Hnd as [|? ? Hn Hl]; subst. constructor.
    + intros Hin. apply in_app_or in Hin. destruct Hin as [Hin|[Hin|[]]]; [contradiction|].
      apply Hx. left. symmetry. exact Hin.
    + apply IH; [exact Hl|]. intros Hin. apply Hx. right. exact Hin.
Qed.

Definition extend1 (n : gname) (l : gline) (r : grec) : grec :=
  if gname_eqb (g_name r) n
  then {| g_name := g_name r; g_first := g_first r; g_spans := g_spans r ++ [gl_span l] |}
  else r.

Lemma extend1_name n l r : g_name (extend1 n l r) = g_name r.
Proof. unfold extend1. destruct (gname_eqb (g_name r) n); reflexivity. Qed.

Lemma add_to_member n l acc :
  NoDup (map g_name acc) -> In n (map g_name acc) -> add_to n l acc = map (extend1 n l) acc.
Proof.
  induction acc as [|r t IH]; cbn [map add_to]; intros Hnd Hin; [contradiction|].
  inversion Hnd as [|? ? Hn Ht]; subst.
  unfold extend1 at 1. destruct (gname_eqb (g_name r) n) eqn:E.
  - f_equal. apply gname_eqb_eq in E. subst n.
    symmetry. rewrite <- (map_id t) at 2. apply map_ext_in. intros r' Hr'.
    unfold extend1. replace (gname_eqb (g_name r') (g_name r)) with false; [reflexivity|].
    symmetry. apply gname_eqb_false. intros E. apply Hn. rewrite <- E. apply in_map. exact Hr'.
  - f_equal. apply IH; [exact Ht|]. destruct Hin as [Hin|Hin]; [|exact Hin].
    exfalso. subst n. rewrite gname_eqb_refl in E. discriminate.
Qed.

Lemma ext_nil r : ext [] r = r.
Proof. destruct r. unfold ext, grp; simpl. rewrite app_nil_r. reflexivity. Qed.

(** closed form of the OrderedDict built by [merged_gff_records] *)
Lemma group_closed al : forall acc,
  NoDup (map g_name acc) ->
  group al acc = map (ext al) acc ++ map (mkrec al) (firsts (map g_name acc) al).
Proof.
  induction al as [|p t IH]; intros acc Hnd.
  - cbn [group fold_left firsts map]. rewrite app_nil_r. rewrite <- (map_id acc) at 1.
    apply map_ext. intros r. symmetry. apply ext_nil.
  - destruct p as [n l]. cbn [group fold_left fst snd firsts]. fold (group t (add_to n l acc)).
    destruct (gmem n (map g_name acc)) eqn:E.
    + apply gmem_In in E. rewrite (add_to_member n l acc Hnd E).
      assert (Hnames : map g_name (map (extend1 n l) acc) = map g_name acc).
      { rewrite map_map. apply map_ext. intros r. apply extend1_name. }
      rewrite IH by (rewrite Hnames; exact Hnd). rewrite Hnames. f_equal.
      * rewrite map_map. apply map_ext. intros r. unfold extend1, ext.
        destruct (gname_eqb (g_name r) n) eqn:E2; cbn [g_name g_first g_spans].
        -- rewrite grp_cons_same by (cbn [fst]; rewrite gname_eqb_sym; exact E2).
           cbn [snd]. rewrite <- app_assoc. reflexivity.
        -- rewrite grp_cons_other by (cbn [fst]; rewrite gname_eqb_sym; exact E2). reflexivity.
      * apply map_ext_in. intros q Hq. unfold mkrec. f_equal.
        rewrite grp_cons_other; [reflexivity|]. cbn [fst].
        apply gname_eqb_false. intros E2. apply firsts_not_seen in Hq. rewrite <- E2 in Hq.
        apply gmem_not_In in Hq. contradiction.
    + apply gmem_not_In in E. rewrite (add_to_fresh n l acc E).
      assert (Hnd' : NoDup (map g_name (acc ++ [single n l]))).
      { rewrite map_app. cbn [map single g_name]. apply NoDup_app_single; assumption. }
      rewrite IH by exact Hnd'. rewrite !map_app. cbn [map]. change (g_name (single n l)) with n. rewrite <- app_assoc. f_equal.
      * apply map_ext_in. intros r Hr. unfold ext. f_equal.
        rewrite grp_cons_other; [reflexivity|]. cbn [fst].
        apply gname_eqb_false. intros E2. apply E. rewrite E2. apply in_map. exact Hr.
      * cbn [app]. f_equal.
        -- unfold ext, mkrec, single; cbn [g_name g_first g_spans fst snd].
           rewrite grp_cons_same by (cbn [fst]; apply gname_eqb_refl). reflexivity.
        -- rewrite (firsts_ext t (map g_name acc ++ [n]) (n :: map g_name acc)).
           2:{ intros x. rewrite gmem_app. cbn [gmem existsb]. rewrite orb_false_r. apply orb_comm. }
           apply map_ext_in. intros q Hq. unfold mkrec. f_equal.
           rewrite grp_cons_other; [reflexivity|]. cbn [fst].
           apply firsts_not_seen in Hq. cbn [gmem existsb] in Hq. apply orb_false_iff in Hq.
           destruct Hq as [Hq _]. rewrite gname_eqb_sym. exact Hq.
Qed.

(** ---------- sorting: the result depends on the multiset only ---------- *)
Lemma span_leb_antisym x y : span_leb x y = true -> span_leb y x = true -> x = y.
Proof.
  destruct x as [a b], y as [c d]. unfold span_leb; cbn [fst snd]. intros H1 H2.
  assert (a = c /\ b = d) as [-> ->] by lia. reflexivity.
Qed.

Lemma span_leb_trans_false x y z : span_leb y z = true -> span_leb x z = false -> span_leb x y = false.
Proof.
  destruct x as [a b], y as [c d], z as [e f]. unfold span_leb; cbn [fst snd]. lia.
Qed.

Lemma insert_span_comm x y l : insert_span x (insert_span y l) = insert_span y (insert_span x l).
Proof.
  induction l as [|z l IH]; cbn [insert_span].
  - destruct (span_leb x y) eqn:E1, (span_leb y x) eqn:E2; cbn [insert_span]; rewrite ?E1, ?E2; try reflexivity.
    + rewrite (span_leb_antisym x y E1 E2). reflexivity.
    + exfalso. apply span_leb_total in E1. congruence.
  - destruct (span_leb y z) eqn:Eyz, (span_leb x z) eqn:Exz; cbn [insert_span]; rewrite ?Eyz, ?Exz.
    + destruct (span_leb x y) eqn:E1, (span_leb y x) eqn:E2; cbn [insert_span]; rewrite ?Eyz, ?Exz, ?E1, ?E2; try reflexivity.
      * rewrite (span_leb_antisym x y E1 E2). reflexivity.
      * exfalso. apply span_leb_total in E1. congruence.
    + rewrite (span_leb_trans_false x y z Eyz Exz). cbn [insert_span]. rewrite ?Exz, ?Eyz. reflexivity.
    + rewrite (span_leb_trans_false y x z Exz Eyz). cbn [insert_span]. rewrite ?Exz, ?Eyz. reflexivity.
    + rewrite IH. reflexivity.
Qed.

Lemma sort_spans_perm_eq l l' : Permutation l l' -> sort_spans l = sort_spans l'.
Proof.
  induction 1; cbn [sort_spans fold_right].
  - reflexivity.
  - fold (sort_spans l). fold (sort_spans l'). rewrite IHPermutation. reflexivity.
  - fold (sort_spans l). apply insert_span_comm.
  - congruence.
Qed.

Lemma span_eqb_eq x y : span_eqb x y = true <-> x = y.
Proof.
  destruct x as [a b], y as [c d]. unfold span_eqb; cbn [fst snd]. split; intros H.
  - assert (a = c /\ b = d) as [-> ->] by lia. reflexivity.
  - inversion H; subst. lia.
Qed.

Lemma spans_eqb_eq a : forall b, spans_eqb a b = true -> a = b.
Proof.
  induction a as [|x a IH]; intros [|y b] H; cbn [spans_eqb] in H; try discriminate; [reflexivity|].
  apply andb_true_iff in H. destruct H as [H1 H2]. apply span_eqb_eq in H1. apply IH in H2. congruence.
Qed.

Lemma dedup_nodup l : NoDup l -> dedup l = l.
Proof.
  induction l as [|x l IH]; intros H; [reflexivity|].
  destruct l as [|y t]; [reflexivity|]. cbn [dedup].
  inversion H as [|? ? Hn Hl]; subst.
  destruct (span_eqb x y) eqn:E.
  - apply span_eqb_eq in E. subst y. exfalso. apply Hn. left. reflexivity.
  - f_equal. apply IH. exact Hl.
Qed.

Lemma norm_span_gl l : norm_span (gl_span l) = gl_span l.
Proof.
  unfold gl_span, gff_coord, norm_span.
  destruct ((gl_s l - 1 <? 0) || (gl_e l <? 0)); [destruct (Z.abs (gl_s l - 1) >? Z.abs (gl_e l)) eqn:E|destruct (gl_s l - 1 >? gl_e l) eqn:E];
    cbn [fst snd]; f_equal; lia.
Qed.

Lemma norm_grp al n : map norm_span (grp al n) = grp al n.
Proof.
  unfold grp. rewrite map_map. apply map_ext. intros p. apply norm_span_gl.
Qed.

Lemma norm_spans_grp al n : norm_spans (grp al n) = sort_spans (grp al n).
Proof. unfold norm_spans. rewrite norm_grp. reflexivity. Qed.

(** [_merge_spans] of the stored (sorted) spans with the spans met in a later
    block = sorting all of them, when no span occurs twice *)
Lemma merge_spans_sorted gp gb :
  gp <> [] -> NoDup (gp ++ gb) ->
  merge_spans (sort_spans gp) gb = sort_spans (gp ++ gb).
Proof.
  intros Hne Hnd. unfold merge_spans.
  destruct (spans_eqb (sort_spans gp) gb) eqn:E.
  - exfalso. apply spans_eqb_eq in E.
    destruct gp as [|x gp]; [congruence|].
    assert (Hin : In x gb).
    { rewrite <- E. apply (Permutation_in x (Permutation_sym (sort_spans_perm (x :: gp)))). left. reflexivity. }
    apply (NoDup_app_disjoint (x :: gp) gb x Hnd); [left; reflexivity|exact Hin].
  - rewrite (sort_spans_perm_eq (sort_spans gp ++ gb) (gp ++ gb)).
    2:{ apply Permutation_app_tail. apply sort_spans_perm. }
    apply dedup_nodup.
    apply (Permutation_NoDup (Permutation_sym (sort_spans_perm (gp ++ gb)))). exact Hnd.
Qed.

(** ---------- update_record_spans as a map over the table ---------- *)
Definition set_spans (r : grow) (m : list (Z * Z)) : grow :=
  {| gr_name := gr_name r; gr_line := gr_line r; gr_spans := m; gr_start := spans_min m; gr_stop := spans_max m |}.

Definition upd1 (n : gname) (new : list (Z * Z)) (r : grow) : grow :=
  if gname_eqb (gr_name r) n then set_spans r (merge_spans (gr_spans r) new) else r.

Lemma upd1_name n new r : gr_name (upd1 n new r) = gr_name r.
Proof. unfold upd1. destruct (gname_eqb (gr_name r) n); reflexivity. Qed.

Lemma nodup_map_inj {A B} (f : A -> B) l x y :
  NoDup (map f l) -> In x l -> In y l -> f x = f y -> x = y.
Proof.
  induction l as [|a l IH]; cbn [map In]; intros Hnd Hx Hy E; [contradiction|].
  inversion Hnd as [|? ? Hn Hl]; subst.
  destruct Hx as [->|Hx], Hy as [->|Hy]; try reflexivity.
  - exfalso. apply Hn. rewrite E. apply in_map. exact Hy.
  - exfalso. apply Hn. rewrite <- E. apply in_map. exact Hx.
  - apply IH; assumption.
Qed.

Lemma update_as_map db n new :
  NoDup (map gr_name db) -> new <> [] -> update_spans true db n new = map (upd1 n new) db.
Proof.
  intros Hnd Hne. unfold update_spans. destruct new as [|s new]; [congruence|].
  destruct (find (fun r => gname_eqb (gr_name r) n) db) as [r0|] eqn:E.
  - apply find_some in E. destruct E as [Hin0 E0].
    apply map_ext_in. intros r Hr. unfold upd1.
    destruct (gname_eqb (gr_name r) n) eqn:E1; [|reflexivity].
    assert (r = r0).
    { apply (nodup_map_inj gr_name db r r0 Hnd Hr Hin0).
      apply gname_eqb_eq in E1, E0. congruence. }
    subst r0. reflexivity.
  - rewrite <- (map_id db) at 1. apply map_ext_in. intros r Hr. unfold upd1.
    rewrite (find_none _ _ E r Hr). reflexivity.
Qed.

Definition find_rec (n : gname) (again : list grec) : option grec :=
  find (fun g => gname_eqb (g_name g) n) again.

Definition updall (again : list grec) (r : grow) : grow :=
  match find_rec (gr_name r) again with
  | Some g => set_spans r (merge_spans (gr_spans r) (g_spans g))
  | None => r
  end.

Lemma fold_update_as_map again : forall db,
  NoDup (map g_name again) -> (forall g, In g again -> g_spans g <> []) -> NoDup (map gr_name db) ->
  fold_left (fun db r => update_spans true db (g_name r) (g_spans r)) again db = map (updall again) db.
Proof.
  induction again as [|g rest IH]; intros db Hnd Hne Hdb; cbn [fold_left].
  - rewrite <- (map_id db) at 1. apply map_ext. intros r. reflexivity.
  - inversion Hnd as [|? ? Hn Hrest]; subst.
    rewrite update_as_map by (try exact Hdb; apply Hne; left; reflexivity).
    rewrite IH.
    + rewrite map_map. apply map_ext. intros r. unfold updall, find_rec. cbn [find].
      unfold upd1. destruct (gname_eqb (gr_name r) (g_name g)) eqn:E.
      * rewrite gname_eqb_sym, E. cbn [set_spans gr_name].
        replace (find (fun g0 => gname_eqb (g_name g0) (gr_name r)) rest) with (@None grec); [reflexivity|].
        symmetry. destruct (find (fun g0 => gname_eqb (g_name g0) (gr_name r)) rest) as [g1|] eqn:E1; [|reflexivity].
        exfalso. apply find_some in E1. destruct E1 as [Hin1 E1]. apply gname_eqb_eq in E1, E.
        apply Hn. rewrite <- E, <- E1. apply in_map. exact Hin1.
      * rewrite gname_eqb_sym, E. reflexivity.
    + exact Hrest.
    + intros g' Hg'. apply Hne. right. exact Hg'.
    + rewrite map_map. erewrite map_ext; [exact Hdb|]. intros r. apply upd1_name.
Qed.

(** ---------- first occurrences ---------- *)
Lemma gmem_cons x y l : gmem x (y :: l) = gname_eqb x y || gmem x l.
Proof. reflexivity. Qed.

Lemma firsts_app a : forall s b, firsts s (a ++ b) = firsts s a ++ firsts (map fst a ++ s) b.
Proof.
  induction a as [|p t IH]; intros s b; cbn [app firsts map]; [reflexivity|].
  destruct (gmem (fst p) s) eqn:E.
  - rewrite IH. f_equal. apply firsts_ext. intros x. rewrite gmem_cons.
    destruct (gname_eqb x (fst p)) eqn:E2; [|reflexivity].
    apply gname_eqb_eq in E2. subst x. rewrite gmem_app, E. rewrite orb_true_r. reflexivity.
  - cbn [app]. f_equal. rewrite IH. f_equal. apply firsts_ext. intros x.
    rewrite gmem_cons, !gmem_app, gmem_cons.
    destruct (gname_eqb x (fst p)), (gmem x (map fst t)), (gmem x s); reflexivity.
Qed.

Lemma firsts_filter b : forall s0 s,
  firsts (s ++ s0) b = filter (fun q => negb (gmem (fst q) s)) (firsts s0 b).
Proof.
  induction b as [|p t IH]; intros s0 s; cbn [firsts]; [reflexivity|].
  rewrite gmem_app. destruct (gmem (fst p) s0) eqn:E0.
  - rewrite orb_true_r. apply IH.
  - rewrite orb_false_r. cbn [filter]. destruct (gmem (fst p) s) eqn:E; cbn [negb].
    + rewrite <- IH. apply firsts_ext. intros x. rewrite !gmem_app, gmem_cons.
      destruct (gname_eqb x (fst p)) eqn:E2; [|reflexivity].
      apply gname_eqb_eq in E2. subst x. rewrite E. reflexivity.
    + f_equal. rewrite <- IH. apply firsts_ext. intros x. rewrite gmem_cons, !gmem_app, gmem_cons.
      destruct (gname_eqb x (fst p)), (gmem x s), (gmem x s0); reflexivity.
Qed.

Lemma firsts_in al : forall s q, In q (firsts s al) -> In q al.
Proof.
  induction al as [|p t IH]; intros s q H; cbn [firsts] in H; [contradiction|].
  destruct (gmem (fst p) s); [right; eapply IH; exact H|].
  destruct H as [<-|H]; [left; reflexivity|right; eapply IH; exact H].
Qed.

Lemma firsts_nodup al : forall s, NoDup (map fst (firsts s al)).
Proof.
  induction al as [|p t IH]; intros s; cbn [firsts]; [constructor|].
  destruct (gmem (fst p) s); [apply IH|]. cbn [map]. constructor; [|apply IH].
  intros Hin. apply in_map_iff in Hin. destruct Hin as [q [E Hq]].
  apply firsts_not_seen in Hq. rewrite gmem_cons in Hq. apply orb_false_iff in Hq. destruct Hq as [Hq _].
  rewrite E, gname_eqb_refl in Hq. discriminate.
Qed.

Lemma firsts_complete al : forall s n, In n (map fst al) -> gmem n s = false -> In n (map fst (firsts s al)).
Proof.
  induction al as [|p t IH]; intros s n Hin Hs; cbn [map In firsts] in *; [contradiction|].
  destruct (gmem (fst p) s) eqn:E.
  - destruct Hin as [Hin|Hin]; [subst n; congruence|]. apply IH; assumption.
  - cbn [map In]. destruct (gname_eqb n (fst p)) eqn:E2.
    + left. apply gname_eqb_eq in E2. congruence.
    + right. apply IH.
      * destruct Hin as [Hin|Hin]; [|exact Hin]. subst n. rewrite gname_eqb_refl in E2. discriminate.
      * rewrite gmem_cons, E2, Hs. reflexivity.
Qed.

Lemma grp_present al n : In n (map fst al) -> grp al n <> [].
Proof.
  induction al as [|p t IH]; cbn [map In]; intros H; [contradiction|].
  destruct (gname_eqb (fst p) n) eqn:E.
  - rewrite grp_cons_same by exact E. discriminate.
  - rewrite grp_cons_other by exact E. apply IH. destruct H as [H|H]; [|exact H].
    subst n. rewrite gname_eqb_refl in E. discriminate.
Qed.

Lemma filter_map_comm {A B} (f : B -> bool) (g : A -> B) l :
  filter f (map g l) = map g (filter (fun x => f (g x)) l).
Proof.
  induction l as [|a l IH]; cbn [map filter]; [reflexivity|].
  destruct (f (g a)); cbn [map]; rewrite IH; reflexivity.
Qed.

Lemma NoDup_map_filter {A B} (g : A -> B) (f : A -> bool) l : NoDup (map g l) -> NoDup (map g (filter f l)).
Proof.
  induction l as [|a l IH]; cbn [map filter]; intros H; [constructor|].
  inversion H as [|? ? Hn Hl]; subst. destruct (f a); cbn [map]; [|apply IH; exact Hl].
  constructor; [|apply IH; exact Hl]. intros Hin. apply Hn.
  apply in_map_iff in Hin. destruct Hin as [x [E Hx]]. apply filter_In in Hx. destruct Hx as [Hx _].
  rewrite <- E. apply in_map. exact Hx.
Qed.

(** ---------- the table a text describes, and the loop invariant ---------- *)
Definition mkrow (al : list aline) (p : aline) : grow := mk_grow (mkrec al p).

(** one record per distinct name, in order of first appearance, with the columns
    of its first row and the sorted converted coordinates of all its rows *)
Definition table_of (al : list aline) : list grow := map (mkrow al) (firsts [] al).

Definition distinct_spans (al : list aline) : Prop := forall n, NoDup (grp al n).

Definition Inv2 (p : list gline) (st : gstate) : Prop :=
  st_k st = nfake p /\
  (forall x, gmem x (st_seen st) = gmem x (map fst (assign 0 p))) /\
  st_db st = table_of (assign 0 p).

Lemma group_nil al : group al [] = map (mkrec al) (firsts [] al).
Proof. rewrite group_closed by constructor. reflexivity. Qed.

Lemma mkrow_eq al al' q :
  grp al (fst q) = grp al' (fst q) -> mkrow al q = mkrow al' q.
Proof. intros H. unfold mkrow, mkrec. rewrite H. reflexivity. Qed.

Lemma step_inv2 p b st :
  Inv2 p st -> distinct_spans (assign 0 (p ++ data_lines b)) ->
  Inv2 (p ++ data_lines b) (block_step true st b).
Proof.
  intros [Hk [Hseen Hdb]] Hds.
  set (alp := assign 0 p) in *.
  set (alb := assign (nfake p) (data_lines b)).
  assert (Hal : assign 0 (p ++ data_lines b) = alp ++ alb) by (rewrite assign_app; reflexivity).
  rewrite Hal in Hds.
  unfold block_step. rewrite Hk, merged_group. fold alb. rewrite group_nil.
  set (F := firsts [] alb).
  cbn [negb].
  rewrite !filter_map_comm. cbn [mkrec g_name].
  rewrite (filter_ext (fun x : aline => gmem (fst x) (st_seen st)) (fun x : aline => gmem (fst x) (map fst alp))) by (intros x; apply Hseen).
  rewrite (filter_ext (fun x : aline => negb (gmem (fst x) (st_seen st))) (fun x : aline => negb (gmem (fst x) (map fst alp)))) by (intros x; rewrite Hseen; reflexivity).
  set (X := filter (fun x : aline => gmem (fst x) (map fst alp)) F).
  unfold Inv2; cbn [st_k st_seen st_db]. split; [|split].
  - symmetry. apply nfake_app.
  - intros x. rewrite gmem_app, Hseen, Hal, map_app, gmem_app. f_equal.
    rewrite map_map. cbn [mkrec g_name].
    (* names of the first occurrences = names of the block, as sets *)
    destruct (gmem x (map fst alb)) eqn:E.
    + apply gmem_In in E. apply gmem_In. apply (firsts_complete alb [] x E). reflexivity.
    + apply gmem_not_In in E. apply gmem_not_In. intros Hin. apply E.
      apply in_map_iff in Hin. destruct Hin as [q [Eq Hq]]. rewrite <- Eq. apply in_map. eapply firsts_in. exact Hq.
  - rewrite Hal. unfold table_of. rewrite firsts_app, app_nil_r, map_app. f_equal.
    + (* rows already stored: updated in place *)
      rewrite Hdb. unfold table_of. fold alp.
      rewrite fold_update_as_map.
      * rewrite map_map. apply map_ext_in. intros q Hq.
        assert (Hqp : In (fst q) (map fst alp)) by (apply in_map; eapply firsts_in; exact Hq).
        unfold updall. change (gr_name (mkrow alp q)) with (fst q).
        destruct (find_rec (fst q) (map (mkrec alb) X)) as [g|] eqn:E.
        -- apply find_some in E. destruct E as [Hg Eg]. apply in_map_iff in Hg. destruct Hg as [q' [<- Hq']].
           cbn [mkrec g_name g_spans] in *. apply gname_eqb_eq in Eg.
           unfold mkrow at 1, mk_grow, set_spans; cbn [mkrec g_name g_first g_spans gr_name gr_line gr_spans].
           change (gr_spans (mkrow alp q)) with (norm_spans (grp alp (fst q))).
           rewrite Eg. rewrite norm_spans_grp.
           rewrite merge_spans_sorted; [| apply grp_present; exact Hqp | rewrite <- grp_app; apply Hds].
           unfold mkrow, mk_grow; cbn [mkrec g_name g_first g_spans].
           rewrite norm_spans_grp, grp_app. reflexivity.
        -- apply mkrow_eq. rewrite grp_app.
           assert (Hnb : ~ In (fst q) (map fst alb)).
           { intros Hin. apply (firsts_complete alb [] (fst q)) in Hin; [|reflexivity].
             apply in_map_iff in Hin. destruct Hin as [q' [Eq' Hq']].
             assert (HX : In q' X).
             { unfold X. apply filter_In. split; [exact Hq'|]. rewrite Eq'. apply gmem_In. exact Hqp. }
             unfold find_rec in E.
             assert (E' := find_none _ _ E (mkrec alb q') (in_map (mkrec alb) X q' HX)).
             cbn [mkrec g_name] in E'. rewrite Eq', gname_eqb_refl in E'. discriminate. }
           rewrite (grp_absent alb (fst q) Hnb), app_nil_r. reflexivity.
      * rewrite map_map. cbn [mkrec g_name]. apply NoDup_map_filter. apply firsts_nodup.
      * intros g Hg. apply in_map_iff in Hg. destruct Hg as [q' [<- Hq']]. cbn [mkrec g_spans].
        apply grp_present. apply in_map. unfold X in Hq'. apply filter_In in Hq'. destruct Hq' as [Hq' _].
        eapply firsts_in. exact Hq'.
      * rewrite map_map. change (fun x => gr_name (mkrow alp x)) with (fun x : aline => fst x). apply firsts_nodup.
    + (* new names: appended *)
      replace (firsts (map fst alp) alb) with (firsts (map fst alp ++ []) alb) by (rewrite app_nil_r; reflexivity).
      rewrite (firsts_filter alb [] (map fst alp)). fold F. rewrite map_map.
      apply map_ext_in. intros q Hq. apply filter_In in Hq. destruct Hq as [_ Hq].
      fold (mkrow alb q). apply mkrow_eq. rewrite grp_app.
      rewrite (grp_absent alp (fst q)); [reflexivity|].
      apply gmem_not_In. destruct (gmem (fst q) (map fst alp)); [discriminate|reflexivity].
Qed.

Lemma distinct_prefix a b : distinct_spans (a ++ b) -> distinct_spans a.
Proof. intros H n. specialize (H n). rewrite grp_app in H. eapply NoDup_app_l. exact H. Qed.

Lemma fold_inv2 bs : forall p st,
  Inv2 p st -> distinct_spans (assign 0 (p ++ data_lines (concat bs))) ->
  Inv2 (p ++ data_lines (concat bs)) (fold_left (block_step true) bs st).
Proof.
  induction bs as [|b bs IH]; intros p st Hinv Hds; cbn [concat fold_left data_lines] in *.
  - rewrite app_nil_r. exact Hinv.
  - rewrite data_lines_app, app_assoc. rewrite data_lines_app, app_assoc in Hds.
    apply IH; [|exact Hds].
    apply step_inv2; [exact Hinv|].
    rewrite assign_app in Hds. eapply distinct_prefix. exact Hds.
Qed.

(** under the repaired rule the table is the one the text describes, whatever the block size *)
Lemma load_fixed_table N lines :
  distinct_spans (assign 0 (data_lines lines)) ->
  st_db (load true N lines) = table_of (assign 0 (data_lines lines)).
Proof.
  intros H. unfold load.
  assert (Hinv : Inv2 ([] ++ data_lines (concat (blocks N lines)))
                      (fold_left (block_step true) (blocks N lines) st_init)).
  { apply fold_inv2.
    - unfold Inv2, st_init, table_of; cbn. auto.
    - cbn [app]. rewrite concat_blocks. exact H. }
  cbn [app] in Hinv. rewrite concat_blocks in Hinv. destruct Hinv as [_ [_ Hdb]]. exact Hdb.
Qed.

Lemma load_fixed_independent N N' lines :
  distinct_spans (assign 0 (data_lines lines)) ->
  st_db (load true N lines) = st_db (load true N' lines).
Proof. intros H. rewrite !load_fixed_table by exact H. reflexivity. Qed.

(** what the table holds *)
Lemma table_of_row al r :
  In r (table_of al) ->
  exists q, In q al /\ gr_name r = fst q /\ gr_line r = snd q /\
            gr_spans r = sort_spans (grp al (fst q)) /\ Permutation (gr_spans r) (grp al (fst q)) /\
            gr_start r = spans_min (gr_spans r) /\ gr_stop r = spans_max (gr_spans r).
Proof.
  intros H. unfold table_of in H. apply in_map_iff in H. destruct H as [q [<- Hq]].
  exists q. split; [eapply firsts_in; exact Hq|].
  unfold mkrow, mk_grow; cbn [mkrec g_name g_first g_spans gr_name gr_line gr_spans gr_start gr_stop].
  rewrite norm_spans_grp. repeat split; try reflexivity. apply sort_spans_perm.
Qed.

Lemma table_of_names al :
  NoDup (map gr_name (table_of al)) /\ (forall n, In n (map fst al) <-> In n (map gr_name (table_of al))).
Proof.
  unfold table_of. rewrite map_map. change (fun x => gr_name (mkrow al x)) with (fun x : aline => fst x).
  split; [apply firsts_nodup|]. intros n. split; intros H.
  - apply firsts_complete; [exact H|reflexivity].
  - apply in_map_iff in H. destruct H as [q [<- Hq]]. apply in_map. eapply firsts_in. exact Hq.
Qed.

(** the hypothesis is needed: a row repeated verbatim in another block is absorbed *)
Definition dup_file : list (option gline) :=
  [mkgl (Some [99]) [115] [67] [43] [] 11 20; mkgl (Some [99]) [115] [67] [43] [] 11 20].

Lemma repeated_row_depends_on_block_size :
  st_db (load true 1 dup_file) <> st_db (load true 2 dup_file).
Proof. intros H. vm_compute in H. discriminate. Qed.

(** non-vacuity: the split feature of finding C17-3, interleaved with an ID-less row *)
Definition ex_split_file : list (option gline) :=
  [mkgl (Some [99]) [115] [67] [43] [] 11 20; mkgl None [116] [103] [45] [] 5 9;
   mkgl (Some [99]) [115] [67] [43] [] 31 40; None; mkgl (Some [99]) [115] [67] [43] [] 41 50].

Lemma distinct_spans_dec al : (forall n, In n (map fst al) -> NoDup (grp al n)) -> distinct_spans al.
Proof.
  intros H n. destruct (gmem n (map fst al)) eqn:E.
  - apply H. apply gmem_In. exact E.
  - rewrite grp_absent; [constructor|]. apply gmem_not_In. exact E.
Qed.

Example ex_split_file_ok :
  distinct_spans (assign 0 (data_lines ex_split_file)) /\
  map gr_spans (st_db (load true 2 ex_split_file)) = [[(10, 20); (30, 40); (40, 50)]; [(4, 9)]].
Proof.
  split; [|vm_compute; reflexivity].
  apply distinct_spans_dec. intros n Hn. vm_compute in Hn.
  destruct Hn as [<-|[<-|[<-|[<-|[]]]]]; vm_compute; repeat constructor; simpl; intuition discriminate.
Qed.

(** ---------- several files ---------- *)
Lemma fold_files_inv2 N files : forall p st,
  Inv2 p st -> distinct_spans (assign 0 (p ++ data_lines (concat files))) ->
  Inv2 (p ++ data_lines (concat files)) (fold_left (file_step true true N) files st).
Proof.
  induction files as [|f files IH]; intros p st Hinv Hds; cbn [concat fold_left data_lines] in *.
  - rewrite app_nil_r. exact Hinv.
  - rewrite data_lines_app, app_assoc. rewrite data_lines_app, app_assoc in Hds.
    apply IH; [|exact Hds]. unfold file_step.
    rewrite <- (concat_blocks N f) at 1. apply fold_inv2; [exact Hinv|].
    rewrite concat_blocks. rewrite assign_app in Hds. eapply distinct_prefix. exact Hds.
Qed.

(** with the counter carried across files, loading files f1..fk with any block
    size gives the table of their concatenation *)
Lemma load_files_table N files :
  distinct_spans (assign 0 (data_lines (concat files))) ->
  st_db (load_files true true N files) = table_of (assign 0 (data_lines (concat files))).
Proof.
  intros H. unfold load_files.
  assert (Hinv : Inv2 ([] ++ data_lines (concat files)) (fold_left (file_step true true N) files st_init)).
  { apply fold_files_inv2; [|exact H]. unfold Inv2, st_init, table_of; cbn. auto. }
  destruct Hinv as [_ [_ Hdb]]. exact Hdb.
Qed.

Lemma load_files_independent N N' files files' :
  concat files = concat files' ->
  distinct_spans (assign 0 (data_lines (concat files))) ->
  st_db (load_files true true N files) = st_db (load_files true true N' files').
Proof.
  intros E H. rewrite (load_files_table N files H). rewrite E in H. rewrite (load_files_table N' files' H), E. reflexivity.
Qed.

Lemma load_files_is_one_block N files :
  distinct_spans (assign 0 (data_lines (concat files))) ->
  st_db (load_files true true N files) = st_db (load true 0 (concat files)).
Proof. intros H. rewrite load_files_table, load_fixed_table by exact H. reflexivity. Qed.

(** the counter restarting per file: the ID-less record of the second file is
    absorbed by the unrelated ID-less record of the first *)
Definition two_files : list (list (option gline)) :=
  [[mkgl None [115; 49] [103] [43] [] 1 10]; [mkgl None [115; 50] [101] [45] [] 101 110]].

Lemma counter_per_file_merges_unrelated_records :
  length (st_db (load_files true false 0 two_files)) = 1%nat /\
  length (st_db (load_files true true 0 two_files)) = 2%nat /\
  distinct_spans (assign 0 (data_lines (concat two_files))).
Proof.
  split; [vm_compute; reflexivity|]. split; [vm_compute; reflexivity|].
  apply distinct_spans_dec. intros n Hn. vm_compute in Hn.
  destruct Hn as [<-|[<-|[]]]; vm_compute; repeat constructor; simpl; intuition discriminate.
Qed.
