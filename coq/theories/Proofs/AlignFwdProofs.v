(** C18 — the forward reading of a path's score equals the backward one used by
    the optimality proof: [fscore P SB p xs ys = gscore P (rev p) (rev xs) (rev ys)]. *)
From CG3 Require Import Lib.PyZ Lib.Val Lib.MaxPlus Model.PairAlign Spec.AlignSpec Spec.AlignFwdSpec Proofs.AlignProofs.

Lemma count_x_app q1 q2 : count_x (q1 ++ q2) = (count_x q1 + count_x q2)%nat.
Proof. unfold count_x. rewrite filter_app, app_length. reflexivity. Qed.
Lemma count_y_app q1 q2 : count_y (q1 ++ q2) = (count_y q1 + count_y q2)%nat.
Proof. unfold count_y. rewrite filter_app, app_length. reflexivity. Qed.

Lemma app_eq_length {A} : forall (l1 l1' l2 l2' : list A),
  l1 ++ l2 = l1' ++ l2' -> length l1 = length l1' -> l1 = l1' /\ l2 = l2'.
Proof.
  induction l1 as [|a l1 IH]; intros l1' l2 l2' H L; destruct l1' as [|a' l1']; try discriminate.
  - auto.
  - cbn in H. inversion H; subst. destruct (IH _ _ _ H2) as (-> & ->); auto.
Qed.

(** a finite score of [q1 ++ q0] splits into a finite score of the older part [q0]
    over what [q1] leaves *)
Lemma rscore_prefix P : forall q1 q0 rx ry z,
  rscore P false (q1 ++ q0) rx ry = Some z ->
  exists r1x r1y rx0 ry0 z0,
    rx = r1x ++ rx0 /\ ry = r1y ++ ry0 /\ length r1x = count_x q1 /\ length r1y = count_y q1 /\
    rscore P false q0 rx0 ry0 = Some z0.
Proof.
  induction q1 as [|s q1 IH]; intros q0 rx ry z H.
  - exists [], [], rx, ry, z. cbn. auto.
  - cbn [app] in H. destruct s; cbn [rscore] in H; try discriminate.
    + destruct rx as [|a rx]; [discriminate|].
      apply eplus_some_inv in H. destruct H as (? & ? & _ & H & _).
      apply eplus_some_inv in H. destruct H as (? & ? & _ & H & _).
      destruct (IH _ _ _ _ H) as (r1x & r1y & rx0 & ry0 & z0 & -> & -> & Lx & Ly & H0).
      exists (a :: r1x), r1y, rx0, ry0, z0. unfold count_x, count_y in *. cbn. repeat split; auto.
    + destruct ry as [|b ry]; [discriminate|].
      apply eplus_some_inv in H. destruct H as (? & ? & _ & H & _).
      apply eplus_some_inv in H. destruct H as (? & ? & _ & H & _).
      destruct (IH _ _ _ _ H) as (r1x & r1y & rx0 & ry0 & z0 & -> & -> & Lx & Ly & H0).
      exists r1x, (b :: r1y), rx0, ry0, z0. unfold count_x, count_y in *. cbn. repeat split; auto.
    + destruct rx as [|a rx]; [discriminate|]. destruct ry as [|b ry]; [discriminate|].
      apply eplus_some_inv in H. destruct H as (? & ? & _ & H & _).
      apply eplus_some_inv in H. destruct H as (? & ? & _ & H & _).
      destruct (IH _ _ _ _ H) as (r1x & r1y & rx0 & ry0 & z0 & -> & -> & Lx & Ly & H0).
      exists (a :: r1x), (b :: r1y), rx0, ry0, z0. unfold count_x, count_y in *. cbn. repeat split; auto.
Qed.

(** if the whole is finite and the older part [q0] is known to fit [rx0], [ry0],
    then the older part, read over exactly [rx0], [ry0], is finite *)
Lemma rscore_prefix_at P q1 q0 rx1 ry1 rx0 ry0 z :
  rscore P false (q1 ++ q0) (rx1 ++ rx0) (ry1 ++ ry0) = Some z ->
  count_x q0 = length rx0 -> count_y q0 = length ry0 ->
  exists z0, rscore P false q0 rx0 ry0 = Some z0.
Proof.
  intros H Cx Cy.
  pose proof (rscore_some_fits _ _ _ _ _ H) as (Tx & Ty & _).
  destruct (rscore_prefix _ _ _ _ _ _ H) as (r1x & r1y & rx0' & ry0' & z0 & Ex & Ey & Lx & Ly & H0).
  pose proof (rscore_some_fits _ _ _ _ _ H0) as (Fx & Fy & _).
  rewrite count_x_app, app_length in Tx. rewrite count_y_app, app_length in Ty.
  assert (L1 : length rx1 = length r1x).
  { apply (f_equal (@length Z)) in Ex. rewrite !app_length in Ex. lia. }
  assert (L2 : length ry1 = length r1y).
  { apply (f_equal (@length Z)) in Ey. rewrite !app_length in Ey. lia. }
  destruct (app_eq_length _ _ _ _ Ex L1) as (_ & <-).
  destruct (app_eq_length _ _ _ _ Ey L2) as (_ & <-).
  eauto.
Qed.

Lemma gscore_none_of_rscore_none P q rx ry : rscore P false q rx ry = None -> gscore P q rx ry = None.
Proof. unfold gscore. intros ->. apply eplus_none_r. Qed.

Lemma fscore_gscore_gen P : forall p q0 rx0 ry0 r0 xs ys,
  rscore P false q0 rx0 ry0 = Some r0 ->
  eplus (Some r0) (fscore P (prev_of q0) p xs ys) = gscore P (rev p ++ q0) (rev xs ++ rx0) (rev ys ++ ry0).
Proof.
  induction p as [|s p IH]; intros q0 rx0 ry0 r0 xs ys H0.
  - cbn [rev app fscore].
    pose proof (rscore_some_fits _ _ _ _ _ H0) as (Cx & Cy & _).
    destruct xs as [|a xs]; [destruct ys as [|b ys]|].
    + cbn [rev app fscore]. unfold gscore. rewrite H0. apply eplus_comm.
    + rewrite eplus_none_r. symmetry. apply gscore_none_of_rscore_none.
      match goal with |- ?t = None => destruct t eqn:E; [|reflexivity] end.
      apply rscore_some_fits in E. destruct E as (_ & E & _). rewrite app_length, rev_length in E. cbn in E. lia.
    + rewrite eplus_none_r. symmetry. apply gscore_none_of_rscore_none.
      match goal with |- ?t = None => destruct t eqn:E; [|reflexivity] end.
      apply rscore_some_fits in E. destruct E as (E & _ & _). rewrite app_length, rev_length in E. cbn in E. lia.
  - pose proof (rscore_some_fits _ _ _ _ _ H0) as (Cx & Cy & HB0).
    cbn [rev]. rewrite <- app_assoc. cbn [app].
    (* a finite right-hand side forces the step to be well-formed and finite *)
    assert (Hnone : forall rx ry,
              (forall z, rscore P false (rev p ++ s :: q0) rx ry = Some z -> False) ->
              gscore P (rev p ++ s :: q0) rx ry = None).
    { intros rx ry Hf. apply gscore_none_of_rscore_none.
      destruct (rscore P false (rev p ++ s :: q0) rx ry) eqn:E; [exfalso; eapply Hf; eauto | reflexivity]. }
    destruct s.
    + (* SB *)
      cbn [fscore]. rewrite eplus_none_r. symmetry. apply Hnone. intros z E.
      apply rscore_some_fits in E. destruct E as (_ & _ & E). apply E. apply in_or_app. right. left. reflexivity.
    + (* SX *)
      cbn [fscore]. destruct xs as [|a xs].
      * rewrite eplus_none_r. symmetry. apply Hnone. intros z E.
        apply rscore_some_fits in E. destruct E as (E & _ & _).
        rewrite count_x_app in E. unfold count_x in E at 2. cbn in E. fold (count_x q0) in E. cbn in E. lia.
      * cbn [rev]. rewrite <- app_assoc. cbn [app].
        destruct (rscore P false (SX :: q0) (a :: rx0) ry0) as [r1|] eqn:E1.
        -- rewrite <- (IH (SX :: q0) (a :: rx0) ry0 r1 xs ys E1). cbn [prev_of].
           cbn [rscore] in E1. unfold ttr in E1. cbn [andb] in E1. rewrite H0 in E1.
           rewrite eplus_assoc. f_equal. rewrite <- E1.
           rewrite (eplus_comm (gx P a)). rewrite (eplus_comm (tr P (prev_of q0) SX) (Some r0)).
           rewrite eplus_assoc. reflexivity.
        -- assert (Et : eplus (tr P (prev_of q0) SX) (gx P a) = None).
           { cbn [rscore] in E1. unfold ttr in E1. cbn [andb] in E1. rewrite H0 in E1.
             destruct (tr P (prev_of q0) SX), (gx P a); cbn in *; try reflexivity; discriminate. }
           rewrite Et. cbn [eplus]. symmetry. apply Hnone. intros z E.
           change (a :: rx0) with ([a] ++ rx0) in E. rewrite app_assoc in E.
           change (SX :: q0) with ([SX] ++ q0) in E. rewrite app_assoc in E.
           destruct (rscore_prefix_at P _ _ _ _ _ _ _ E Cx Cy) as (z0 & _).
           (* use the split at SX :: q0 instead *)
           rewrite <- !app_assoc in E. cbn [app] in E.
           assert (Cx' : count_x (SX :: q0) = length (a :: rx0)) by (unfold count_x in *; cbn; lia).
           assert (Cy' : count_y (SX :: q0) = length ry0) by (unfold count_y in *; cbn; lia).
           destruct (rscore_prefix_at P _ _ _ _ _ _ _ E Cx' Cy') as (z1 & E2). congruence.
    + (* SY *)
      cbn [fscore]. destruct ys as [|b ys].
      * rewrite eplus_none_r. symmetry. apply Hnone. intros z E.
        apply rscore_some_fits in E. destruct E as (_ & E & _).
        rewrite count_y_app in E. unfold count_y in E at 2. cbn in E. fold (count_y q0) in E. cbn in E. lia.
      * cbn [rev]. rewrite <- app_assoc. cbn [app].
        destruct (rscore P false (SY :: q0) rx0 (b :: ry0)) as [r1|] eqn:E1.
        -- rewrite <- (IH (SY :: q0) rx0 (b :: ry0) r1 xs ys E1). cbn [prev_of].
           cbn [rscore] in E1. unfold ttr in E1. cbn [andb] in E1. rewrite H0 in E1.
           rewrite eplus_assoc. f_equal. rewrite <- E1.
           rewrite (eplus_comm (gy P b)). rewrite (eplus_comm (tr P (prev_of q0) SY) (Some r0)).
           rewrite eplus_assoc. reflexivity.
        -- assert (Et : eplus (tr P (prev_of q0) SY) (gy P b) = None).
           { cbn [rscore] in E1. unfold ttr in E1. cbn [andb] in E1. rewrite H0 in E1.
             destruct (tr P (prev_of q0) SY), (gy P b); cbn in *; try reflexivity; discriminate. }
           rewrite Et. cbn [eplus]. symmetry. apply Hnone. intros z E.
           assert (Cx' : count_x (SY :: q0) = length rx0) by (unfold count_x in *; cbn; lia).
           assert (Cy' : count_y (SY :: q0) = length (b :: ry0)) by (unfold count_y in *; cbn; lia).
           destruct (rscore_prefix_at P _ _ _ _ _ _ _ E Cx' Cy') as (z1 & E2). congruence.
    + (* SM *)
      cbn [fscore]. destruct xs as [|a xs]; [|destruct ys as [|b ys]].
      * rewrite eplus_none_r. symmetry. apply Hnone. intros z E.
        apply rscore_some_fits in E. destruct E as (E & _ & _).
        rewrite count_x_app in E. unfold count_x in E at 2. cbn in E. fold (count_x q0) in E. cbn in E. lia.
      * rewrite eplus_none_r. symmetry. apply Hnone. intros z E.
        apply rscore_some_fits in E. destruct E as (_ & E & _).
        rewrite count_y_app in E. unfold count_y in E at 2. cbn in E. fold (count_y q0) in E. cbn in E. lia.
      * cbn [rev]. rewrite <- !app_assoc. cbn [app].
        destruct (rscore P false (SM :: q0) (a :: rx0) (b :: ry0)) as [r1|] eqn:E1.
        -- rewrite <- (IH (SM :: q0) (a :: rx0) (b :: ry0) r1 xs ys E1). cbn [prev_of].
           cbn [rscore] in E1. unfold ttr in E1. cbn [andb] in E1. rewrite H0 in E1.
           rewrite eplus_assoc. f_equal. rewrite <- E1.
           rewrite (eplus_comm (em P a b)). rewrite (eplus_comm (tr P (prev_of q0) SM) (Some r0)).
           rewrite eplus_assoc. reflexivity.
        -- assert (Et : eplus (tr P (prev_of q0) SM) (em P a b) = None).
           { cbn [rscore] in E1. unfold ttr in E1. cbn [andb] in E1. rewrite H0 in E1.
             destruct (tr P (prev_of q0) SM), (em P a b); cbn in *; try reflexivity; discriminate. }
           rewrite Et. cbn [eplus]. symmetry. apply Hnone. intros z E.
           assert (Cx' : count_x (SM :: q0) = length (a :: rx0)) by (unfold count_x in *; cbn; lia).
           assert (Cy' : count_y (SM :: q0) = length (b :: ry0)) by (unfold count_y in *; cbn; lia).
           destruct (rscore_prefix_at P _ _ _ _ _ _ _ E Cx' Cy') as (z1 & E2). congruence.
Qed.

Lemma fscore_is_gscore P p xs ys :
  fscore P SB p xs ys = gscore P (rev p) (rev xs) (rev ys).
Proof.
  pose proof (fscore_gscore_gen P p [] [] [] 0 xs ys eq_refl) as H.
  cbn [prev_of] in H. rewrite !app_nil_r in H. rewrite <- H.
  destruct (fscore P SB p xs ys); reflexivity.
Qed.

(** the headline in forward form: the reported score is the score of the
    returned path, and every path (fitting or not) scores at most that *)
Lemma global_forward P xs ys z p :
  align_global P xs ys = (Some z, p) ->
  fscore P SB p xs ys = Some z /\ forall p', ele (fscore P SB p' xs ys) (Some z).
Proof.
  intros H. split.
  - rewrite fscore_is_gscore. eapply global_score_is_path_score; eauto.
  - intros p'. rewrite fscore_is_gscore.
    pose proof (global_alignment_optimal P xs ys (rev p')) as Ho. rewrite H in Ho. exact Ho.
Qed.
