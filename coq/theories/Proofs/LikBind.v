(** C02 — the top-level function the correspondence check executes
    ([lik_column]: bind one alignment column and the edge matrices to the named
    tree, prune, dot with the root probabilities) against the specification
    [sum_product], and the whole log-likelihood as a plain sum over columns. *)
From Coq Require Import Permutation.
From CG3 Require Import Lib.PyZ Lib.Semiring Lib.LikTree Model.Lik Spec.SumProduct
  Proofs.LikProofs Proofs.LikSumOne Proofs.LikSets Proofs.LikCompress.
Local Open Scope nat_scope.

Lemma resolve_length amb alphabet m bs : resolve amb alphabet m = Some bs -> length bs = length alphabet.
Proof.
  unfold resolve. intros H.
  destruct (existsb (motif_eqb m) alphabet).
  - injection H as <-. apply map_length.
  - destruct (negb (all_known amb m)); [discriminate|].
    destruct (existsb (fun b : bool => b) (map (in_product amb m) alphabet)); [|discriminate].
    injection H as <-. apply map_length.
Qed.

Section Bind.
  Variable R : Type.
  Variable o : sr_ops R.
  Hypothesis L : sr_laws o.

  Variable amb : amb_table.
  Variable alphabet : list motif.
  Local Notation n := (length alphabet).

  (** the leaf set the specification sees for the sequence named [nm] in column [col] *)
  Definition leaf_set (col : column) (nm : Z) : list bool :=
    match resolve amb alphabet (lookup [] nm col) with Some bs => bs | None => [] end.

  (** every tip of the tree has a resolvable symbol in the column *)
  Definition resolvable (t : tree Z Z) (col : column) : Prop :=
    forall nm, In nm (leaves t) -> resolve amb alphabet (lookup [] nm col) <> None.

  Lemma bind_as_model (psub : Z -> list (list R)) (t : tree Z Z) (col : column) :
    resolvable t col ->
    bind (profile o amb alphabet) psub col t = as_model R o (tmap (leaf_set col) psub t).
  Proof.
    intros Hres. unfold bind, as_model. rewrite tmap_tmap.
    apply tmap_ext; [|reflexivity].
    intros nm Hin. unfold profile, leaf_set.
    destruct (resolve amb alphabet (lookup [] nm col)) eqn:E; [reflexivity|].
    exfalso. exact (Hres nm Hin E).
  Qed.

  Lemma bound_tree_ok (psub : Z -> list (list R)) (t : tree Z Z) (col : column) :
    resolvable t col -> (forall e, In e (edges t) -> wfmat n (psub e)) ->
    tree_all (fun bs => length bs = n) (wfmat n) (tmap (leaf_set col) psub t).
  Proof.
    induction t as [nm|ch IH] using tree_ind'; intros Hres Hmat.
    - cbn. unfold leaf_set.
      destruct (resolve amb alphabet (lookup [] nm col)) eqn:E.
      + eapply resolve_length; eauto.
      + exfalso. apply (Hres nm); [cbn; auto|exact E].
    - cbn [tmap]. apply tree_all_node. rewrite Forall_map. rewrite Forall_forall in *.
      intros [e c] Hin. cbn [fst snd]. split.
      + apply Hmat. eapply in_edges_here; eauto.
      + apply (IH (e, c) Hin).
        * intros nm Hnm. apply Hres. eapply in_leaves_child; eauto.
        * intros e' He'. apply Hmat. eapply in_edges_child; eauto.
  Qed.

  (** the likelihood the model computes for one alignment column = the
      first-principles sum over all state assignments compatible with the
      leaf sets (ambiguity codes and gaps as sets of compatible states) *)
  Theorem lik_column_eq_sum_product_lemma (psub : Z -> list (list R)) (pi : list R) (t : tree Z Z) (col : column) :
    resolvable t col -> (forall e, In e (edges t) -> wfmat n (psub e)) -> length pi = n ->
    lik_column o n (profile o amb alphabet) psub pi t col
    = sum_product o n (as_spec R o (tmap (leaf_set col) psub t)) (vfun o pi).
  Proof.
    intros Hres Hmat Hpi. unfold lik_column. rewrite bind_as_model by exact Hres.
    apply (pruning_eq_sum_product R o L n); [apply bound_tree_ok; assumption|exact Hpi].
  Qed.

  (** the whole calculation: compressed, count-weighted log-sum = sum over all
      alignment columns of lg (first-principles column likelihood) *)
  Theorem total_log_lik_eq_sum_lemma (Lg : Type) (lm : cm_ops Lg) (LM : cm_laws lm) (lg : R -> Lg)
          (psub : Z -> list (list R)) (pi : list R) (t : tree Z Z) (gapcol : column) (cols : list column) :
    (forall col, In col cols -> resolvable t col) -> (forall e, In e (edges t) -> wfmat n (psub e)) -> length pi = n ->
    total_log_lik lm lg (lik_column o n (profile o amb alphabet) psub pi t) gapcol cols
    = big_op lm (fun col => lg (sum_product o n (as_spec R o (tmap (leaf_set col) psub t)) (vfun o pi))) cols.
  Proof.
    intros Hres Hmat Hpi. rewrite (compress_sum LM).
    apply big_op_ext. intros col Hin. f_equal.
    apply lik_column_eq_sum_product_lemma; auto.
  Qed.
End Bind.

(** non-vacuity: DNA alphabet TCAG, ambiguity table with R and N, a star tree of three named tips *)
Section Example.
  Let alphabet : list motif := [[84]; [67]; [65]; [71]]%Z.
  Let amb : amb_table := [(84, [84]); (67, [67]); (65, [65]); (71, [71]); (82, [65; 71]); (78, [65; 67; 84; 71]); (63, [84; 67; 65; 71; 45])]%Z.
  Let P : list (list Z) := [[5; 1; 1; 1]; [1; 5; 1; 1]; [1; 1; 5; 1]; [1; 1; 1; 5]]%Z.
  Let t : tree Z Z := Node [(1, Leaf 1); (2, Leaf 2); (3, Leaf 3)]%Z.
  Let col : column := [(1, [65]); (2, [82]); (3, [78])]%Z.

  Example bind_ex_resolvable : resolvable amb alphabet t col.
  Proof.
    intros nm Hin. cbn in Hin.
    destruct Hin as [<-|[<-|[<-|[]]]]; vm_compute; discriminate.
  Qed.

  Example bind_ex_value :
    lik_column Z_ops 4 (profile Z_ops amb alphabet) (fun _ => P) [2; 2; 2; 2]%Z t col = 640%Z
    /\ sum_product Z_ops 4 (as_spec Z Z_ops (tmap (leaf_set amb alphabet col) (fun _ : Z => P) t)) (vfun Z_ops [2; 2; 2; 2]%Z) = 640%Z.
  Proof. split; vm_compute; reflexivity. Qed.
End Example.
