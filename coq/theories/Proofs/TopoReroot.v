(** C09 — re-rooting ([reroot_go], [rooted_at], [rooted_with_tip]) and
    [root_at_midpoint] preserve the UNROOTED TOPOLOGY
    ([Spec/TreeTopoSpec.v]: the set of non-trivial tip bipartitions). *)
From Coq Require Import Permutation.
From CG3 Require Import Lib.PyZ Lib.Val Lib.Rose Model.Tree Model.TreeMid Model.TreeDist Spec.TreeSpec Spec.TreeTopoSpec
  Proofs.TreeProofs Proofs.TreeMidProofs Proofs.TreeDistProofs Proofs.TopoBase.

(* ------------------------------------------------------------------ *)
(** * (0) helpers *)

(** two cut lists that differ in one element, the two being the same split *)
Lemma splits_incl_swap U a b M L2 L3 :
  Permutation L2 (a :: M) -> Permutation L3 (b :: M) ->
  cut_eq U a b = true -> splits_incl U L2 L3.
Proof.
  intros H2 H3 Hab c Hc _.
  assert (Hc' : In c (a :: M)) by (eapply Permutation_in; eauto).
  destruct Hc' as [<-|Hc'].
  - apply cut_mem_In with b; [|exact Hab].
    eapply Permutation_in; [apply Permutation_sym; exact H3|left; reflexivity].
  - apply cut_mem_self.
    eapply Permutation_in; [apply Permutation_sym; exact H3|right; exact Hc'].
Qed.

Lemma splits_eq_swap U a b M L2 L3 :
  Permutation L2 (a :: M) -> Permutation L3 (b :: M) ->
  cut_eq U a b = true -> cut_eq U b a = true -> splits_eq U L2 L3.
Proof.
  intros H2 H3 Hab Hba. split.
  - apply (splits_incl_swap U a b M); assumption.
  - apply (splits_incl_swap U b a M); assumption.
Qed.

Lemma upl_inU t ctx : inU (tips t ++ tips_of (upl t ctx)) (cuts t ++ cuts_of (upl t ctx)).
Proof.
  apply inU_app. split.
  - apply inU_weaken with (tips t); [apply incl_appl; apply incl_refl|apply cuts_inU].
  - apply inU_weaken with (tips_of (upl t ctx)); [apply incl_appr; apply incl_refl|].
    apply cuts_of_incl.
Qed.

(** the tip set of the re-rooted tree (from the path-length invariant) *)
Lemma reroot_tips_perm path t ctx x r :
  subtree_at t path = Some x -> kids x <> [] ->
  (forall ks, ctx = Some ks -> ks <> []) ->
  (ctx = None -> path <> [] -> (2 <= length (kids t))%nat) ->
  NoDup (tips t ++ tips_of (upl t ctx)) ->
  reroot_go t path ctx = Some r ->
  Permutation (tips r) (tips t ++ tips_of (upl t ctx)).
Proof.
  intros Hsub Hx Hctx Hroot HN Hgo.
  destruct (tips t) as [|a tl] eqn:Et; [exfalso; exact (tips_nonempty t Et)|].
  rewrite <- Et in *.
  assert (Ha : In a (tips t ++ tips_of (upl t ctx))).
  { rewrite Et. left. reflexivity. }
  exact (proj1 (reroot_inv 0 a a path t ctx x r Hsub Hx Hctx Hroot HN Ha Ha Hgo)).
Qed.

Lemma cuts_of_single c : cuts_of [c] = tips c :: cuts c.
Proof. rewrite cuts_of_cons. change (cuts_of []) with (@nil (list name)). rewrite app_nil_r. reflexivity. Qed.

(* ------------------------------------------------------------------ *)
(** * (1) the generalised invariant *)

Lemma reroot_cuts_inv : forall path t ctx x r,
  subtree_at t path = Some x -> kids x <> [] ->
  (forall ks, ctx = Some ks -> ks <> []) ->
  (ctx = None -> path <> [] -> (2 <= length (kids t))%nat) ->
  NoDup (tips t ++ tips_of (upl t ctx)) ->
  reroot_go t path ctx = Some r ->
  splits_eq (tips t ++ tips_of (upl t ctx)) (cuts r) (cuts t ++ cuts_of (upl t ctx)).
Proof.
  induction path as [|i rest IH]; intros t ctx x r Hsub Hx Hctx Hroot HN Hgo.
  - rewrite reroot_go_nil in Hgo. inversion Hgo; subst r. clear Hgo.
    rewrite cuts_node, cuts_of_app, <- cuts_kids. apply splits_eq_refl.
  - rewrite reroot_go_cons in Hgo. cbn [subtree_at] in Hsub.
    destruct (nth_error (kids t) i) as [c|] eqn:Hnth; [|discriminate].
    pose proof (remove_nth_perm _ _ _ Hnth) as HP.
    set (rm := remove_nth i (kids t)) in *.
    pose proof (subtree_at_kids _ _ _ Hsub Hx) as Hkc.
    assert (Hkt : kids t <> []).
    { intros E. rewrite E in Hnth. destruct i; discriminate. }
    set (ks' := rm ++ upl t ctx) in *.
    assert (Hks' : ks' <> []).
    { unfold ks'. intros E. apply app_eq_nil in E. destruct E as [E1 E2].
      destruct ctx as [ks|]; [discriminate|].
      assert (Hi : i :: rest <> []) by discriminate.
      specialize (Hroot eq_refl Hi).
      apply Permutation_length in HP. rewrite E1 in HP. simpl in HP. lia. }
    assert (HU : Permutation (tips t ++ tips_of (upl t ctx))
                             (tips c ++ tips_of (upl c (Some ks')))).
    { rewrite (tips_of_upl_some c ks' Hks'). unfold ks'. rewrite tips_of_app, app_assoc.
      apply Permutation_app_tail. rewrite (tips_kids t Hkt).
      apply (TopoBase.tips_of_perm _ _ HP). }
    assert (HN' : NoDup (tips c ++ tips_of (upl c (Some ks')))).
    { eapply Permutation_NoDup; [exact HU|exact HN]. }
    assert (Hctx' : forall ks, Some ks' = Some ks -> ks <> []).
    { intros ks E. inversion E; subst. exact Hks'. }
    assert (Hroot' : Some ks' = None -> rest <> [] -> (2 <= length (kids c))%nat).
    { intros E. discriminate. }
    pose proof (IH c (Some ks') x r Hsub Hx Hctx' Hroot' HN' Hgo) as HIH.
    pose proof (reroot_tips_perm rest c (Some ks') x r Hsub Hx Hctx' Hroot' HN' Hgo) as HPr.
    apply splits_eq_seteq_U with (tips c ++ tips_of (upl c (Some ks'))).
    { apply perm_seteq. apply Permutation_sym. exact HU. }
    apply splits_eq_trans with (cuts c ++ cuts_of (upl c (Some ks'))).
    + apply inU_seteq_U with (tips r); [apply perm_seteq; exact HPr|apply cuts_inU].
    + apply upl_inU.
    + apply inU_seteq_U with (tips t ++ tips_of (upl t ctx)); [apply perm_seteq; exact HU|].
      apply upl_inU.
    + exact HIH.
    + rewrite (tips_of_upl_some c ks' Hks') in *.
      assert (Hab : cut_eq (tips c ++ tips_of ks') (tips c) (tips_of ks') = true).
      { apply cut_eq_complement; [exact HN'|apply seteq_refl]. }
      apply (splits_eq_swap _ (tips_of ks') (tips c) (cuts c ++ cuts_of ks')).
      * cbn [upl]. rewrite cuts_of_single, cuts_node, (tips_node _ _ _ Hks').
        apply Permutation_sym. apply Permutation_middle.
      * rewrite (cuts_kids t). rewrite (cuts_of_perm _ _ HP), cuts_of_cons.
        unfold ks'. rewrite cuts_of_app.
        cbn [app]. apply perm_skip. rewrite <- app_assoc. apply Permutation_refl.
      * rewrite cut_eq_sym; [exact Hab| |]; [apply incl_appr|apply incl_appl]; apply incl_refl.
      * exact Hab.
Qed.

(* ------------------------------------------------------------------ *)
(** * (2) re-rooting keeps the unrooted topology *)

Theorem reroot_topology : forall t path x r,
  subtree_at t path = Some x -> kids x <> [] ->
  ((2 <= length (kids t))%nat \/ (path = [] /\ kids t <> [])) ->
  NoDup (tips t) -> reroot_go t path None = Some r -> same_topology t r.
Proof.
  intros t path x r Hsub Hx Hroot HN Hgo.
  assert (HU : tips t ++ tips_of (upl t None) = tips t).
  { cbn [upl]. change (tips_of []) with (@nil name). apply app_nil_r. }
  assert (HC : cuts t ++ cuts_of (upl t None) = cuts t).
  { cbn [upl]. change (cuts_of []) with (@nil (list name)). apply app_nil_r. }
  pose proof (reroot_cuts_inv path t None x r Hsub Hx) as H.
  rewrite HU, HC in H. unfold same_topology. apply splits_eq_sym. apply H.
  - intros ks E. discriminate.
  - intros _ Hp. destruct Hroot as [H2|[Hnil _]]; [exact H2|contradiction].
  - exact HN.
  - exact Hgo.
Qed.

Theorem rooted_at_topology : forall t nm r,
  (2 <= length (kids t))%nat -> NoDup (tips t) -> rooted_at t nm = Ok r -> same_topology t r.
Proof.
  intros t nm r H2 HN Hr. unfold rooted_at in Hr.
  destruct (find_path nm t) as [p|] eqn:Ef; [|discriminate].
  destruct (subtree_at t p) as [x|] eqn:Es; [|discriminate].
  destruct (is_tip x) eqn:Et; [discriminate|].
  destruct (reroot_go t p None) as [r'|] eqn:Eg; [|discriminate].
  inversion Hr; subst r'.
  apply (reroot_topology t p x r Es); try assumption.
  - unfold is_tip in Et. intros E. rewrite E in Et. discriminate.
  - left. exact H2.
Qed.

Theorem rooted_with_tip_topology : forall t nm r,
  (2 <= length (kids t))%nat -> NoDup (tips t) -> rooted_with_tip t nm = Ok r -> same_topology t r.
Proof.
  intros t nm r H2 HN Hr. unfold rooted_with_tip in Hr.
  destruct (find_path nm t) as [p|] eqn:Ef; [|discriminate].
  destruct (find_path_sound nm t p Ef) as (y & Hy & _).
  destruct p as [|i p]; [discriminate|].
  destruct (reroot_go t (removelast (i :: p)) None) as [r'|] eqn:Eg; [|discriminate].
  inversion Hr; subst r'.
  destruct (subtree_at_removelast (i :: p) t y Hy) as (x & Hx1 & Hx2); [discriminate|].
  apply (reroot_topology t (removelast (i :: p)) x r Hx1); try assumption.
  left. exact H2.
Qed.

(** the tip set is kept as well (restated without path lengths) *)
Lemma reroot_tips : forall t path x r,
  subtree_at t path = Some x -> kids x <> [] ->
  ((2 <= length (kids t))%nat \/ (path = [] /\ kids t <> [])) ->
  NoDup (tips t) -> reroot_go t path None = Some r -> Permutation (tips r) (tips t).
Proof.
  intros t path x r Hsub Hx Hroot HN Hgo.
  destruct (tips t) as [|a tl] eqn:Et; [exfalso; exact (tips_nonempty t Et)|].
  rewrite <- Et in *.
  assert (Ha : In a (tips t)) by (rewrite Et; left; reflexivity).
  exact (proj1 (reroot_preserves 0 t path x r a a Hsub Hx Hroot HN Ha Ha Hgo)).
Qed.

(* ------------------------------------------------------------------ *)
(** * (3) root_at_midpoint *)

(** ** cut lists equal as sets of tip sets *)

Definition csub (L L' : list (list name)) : Prop :=
  forall c, In c L -> exists d, In d L' /\ seteq c d.

Definition cequiv (L L' : list (list name)) : Prop := csub L L' /\ csub L' L.

Lemma csub_refl L : csub L L.
Proof. intros c Hc. exists c. split; [exact Hc|apply seteq_refl]. Qed.

Lemma csub_incl L L' : incl L L' -> csub L L'.
Proof. intros H c Hc. exists c. split; [apply H; exact Hc|apply seteq_refl]. Qed.

Lemma csub_trans L1 L2 L3 : csub L1 L2 -> csub L2 L3 -> csub L1 L3.
Proof.
  intros H12 H23 c Hc. destruct (H12 c Hc) as (d & Hd & Hcd).
  destruct (H23 d Hd) as (e & He & Hde). exists e. split; [exact He|].
  apply seteq_trans with d; assumption.
Qed.

Lemma csub_app A A' B B' : csub A A' -> csub B B' -> csub (A ++ B) (A' ++ B').
Proof.
  intros HA HB c Hc. apply in_app_or in Hc. destruct Hc as [Hc|Hc].
  - destruct (HA c Hc) as (d & Hd & He). exists d. split; [apply in_or_app; left; exact Hd|exact He].
  - destruct (HB c Hc) as (d & Hd & He). exists d. split; [apply in_or_app; right; exact Hd|exact He].
Qed.

Lemma csub_cons x x' L L' : seteq x x' -> csub L L' -> csub (x :: L) (x' :: L').
Proof.
  intros Hx HL c Hc. destruct Hc as [<-|Hc].
  - exists x'. split; [left; reflexivity|exact Hx].
  - destruct (HL c Hc) as (d & Hd & He). exists d. split; [right; exact Hd|exact He].
Qed.

Lemma cequiv_refl L : cequiv L L.
Proof. split; apply csub_refl. Qed.

Lemma cequiv_sym L L' : cequiv L L' -> cequiv L' L.
Proof. intros [H1 H2]. split; assumption. Qed.

Lemma cequiv_trans L1 L2 L3 : cequiv L1 L2 -> cequiv L2 L3 -> cequiv L1 L3.
Proof.
  intros [H12 H21] [H23 H32]. split; [apply csub_trans with L2|apply csub_trans with L2]; assumption.
Qed.

Lemma cequiv_perm L L' : Permutation L L' -> cequiv L L'.
Proof.
  intros HP. split; apply csub_incl; intros c Hc.
  - eapply Permutation_in; eauto.
  - eapply Permutation_in; [apply Permutation_sym|]; eauto.
Qed.

Lemma cequiv_app A A' B B' : cequiv A A' -> cequiv B B' -> cequiv (A ++ B) (A' ++ B').
Proof. intros [HA HA'] [HB HB']. split; apply csub_app; assumption. Qed.

Lemma cequiv_cons x x' L L' : seteq x x' -> cequiv L L' -> cequiv (x :: L) (x' :: L').
Proof.
  intros Hx [H1 H2]. split; apply csub_cons; try assumption. apply seteq_sym. exact Hx.
Qed.

Lemma csub_splits_incl U L L' : csub L L' -> splits_incl U L L'.
Proof.
  intros H c Hc _. destruct (H c Hc) as (d & Hd & He).
  apply cut_mem_In with d; [exact Hd|]. apply cut_eq_of_set_eqb. apply set_eqb_iff. exact He.
Qed.

Lemma cequiv_splits_eq U L L' : cequiv L L' -> splits_eq U L L'.
Proof. intros [H1 H2]. split; apply csub_splits_incl; assumption. Qed.

(** ** maps that keep the tips and cuts of every child *)

Lemma cuts_of_map_eq (f : tree -> tree) cs :
  Forall (fun c => tips (f c) = tips c /\ cuts (f c) = cuts c) cs ->
  cuts_of (map f cs) = cuts_of cs.
Proof.
  induction 1 as [|c cs [Ht Hc] _ IH]; cbn [map]; [reflexivity|].
  rewrite !cuts_of_cons, Ht, Hc, IH. reflexivity.
Qed.

Lemma double_cuts t : cuts (double t) = cuts t.
Proof.
  induction t as [n l cs IH] using tree_ind'. cbn [double]. rewrite !cuts_node.
  apply cuts_of_map_eq. eapply Forall_impl; [|exact IH]. intros c Hc. cbn beta.
  split; [apply double_tips|exact Hc].
Qed.

Lemma name_unnamed_cuts t : ~ In [] (tips t) -> cuts (name_unnamed t) = cuts t.
Proof.
  induction t as [n l cs IH] using tree_ind'. intros HN. cbn [name_unnamed].
  rewrite !cuts_node. destruct cs as [|c0 cs0]; [reflexivity|].
  rewrite (tips_node n l (c0 :: cs0)) in HN by discriminate.
  apply cuts_of_map_eq. rewrite Forall_forall in IH |- *. intros c Hc.
  assert (Hn : ~ In [] (tips c)).
  { intros Hi. apply HN. unfold tips_of. apply in_flat_map. exists c. split; assumption. }
  split; [apply name_unnamed_tips; exact Hn|apply IH; assumption].
Qed.

(** ** splicing a node into an edge repeats the cut below it *)

Lemma cuts_relen s n l : cuts (Node n l (kids s)) = cuts s.
Proof. destruct s; reflexivity. Qed.

Lemma splice_child_cuts i l x parent c :
  nth_error (kids parent) i = Some c ->
  cequiv (cuts (splice_child i l x parent)) (cuts parent).
Proof.
  intros Hn. rewrite (splice_child_eq i l x parent c Hn).
  pose proof (remove_nth_perm _ _ _ Hn) as HP.
  set (rm := remove_nth i (kids parent)) in *.
  set (c' := Node (tname c) (Some x) (kids c)).
  set (nw := Node [] (Some (l - x)) [c']).
  assert (Htc : tips c' = tips c) by apply tips_relen.
  assert (Hcc : cuts c' = cuts c) by apply cuts_relen.
  assert (Htn : tips nw = tips c).
  { unfold nw. rewrite tips_node by discriminate. rewrite tips_of_single. exact Htc. }
  assert (Hcn : cuts nw = tips c :: cuts c).
  { unfold nw. rewrite cuts_node, cuts_of_single, Htc, Hcc. reflexivity. }
  rewrite cuts_node, cuts_of_app, cuts_of_single, Htn, Hcn.
  apply cequiv_trans with (tips c :: cuts c ++ cuts_of rm).
  - split.
    + intros d Hd. exists d. split; [|apply seteq_refl].
      apply in_app_or in Hd. destruct Hd as [Hd|Hd].
      * right. apply in_or_app. right. exact Hd.
      * destruct Hd as [<-|Hd]; [left; reflexivity|].
        destruct Hd as [<-|Hd]; [left; reflexivity|].
        right. apply in_or_app. left. exact Hd.
    + intros d Hd. exists d. split; [|apply seteq_refl].
      apply in_or_app. destruct Hd as [<-|Hd].
      * right. left. reflexivity.
      * apply in_app_or in Hd. destruct Hd as [Hd|Hd].
        -- right. right. right. exact Hd.
        -- left. exact Hd.
  - apply cequiv_perm. rewrite (cuts_kids parent).
    rewrite (cuts_of_perm _ _ HP), cuts_of_cons. apply Permutation_refl.
Qed.

(** ** replacing a subtree by one with the same tips and cuts *)

Lemma map_nth_cuts i (g : tree -> tree) l c :
  nth_error l i = Some c -> seteq (tips (g c)) (tips c) -> cequiv (cuts (g c)) (cuts c) ->
  cequiv (cuts_of (map_nth i g l)) (cuts_of l).
Proof.
  revert i; induction l as [|y l IH]; intros [|i] H Ht Hc; simpl in H; try discriminate.
  - inversion H; subst. cbn [map_nth]. rewrite !cuts_of_cons.
    apply cequiv_cons; [exact Ht|]. apply cequiv_app; [exact Hc|apply cequiv_refl].
  - cbn [map_nth]. rewrite !cuts_of_cons.
    apply cequiv_cons; [apply seteq_refl|]. apply cequiv_app; [apply cequiv_refl|].
    apply (IH i H Ht Hc).
Qed.

Lemma update_at_cuts f : forall pp t parent,
  subtree_at t pp = Some parent ->
  Permutation (tips (f parent)) (tips parent) -> cequiv (cuts (f parent)) (cuts parent) ->
  Permutation (tips (update_at t pp f)) (tips t) /\ cequiv (cuts (update_at t pp f)) (cuts t).
Proof.
  induction pp as [|i r IH]; intros t parent Hs Ht Hc.
  - cbn [subtree_at] in Hs. inversion Hs; subst parent.
    cbn [update_at]. split; assumption.
  - cbn [subtree_at] in Hs.
    destruct (nth_error (kids t) i) as [c|] eqn:Hn; [|discriminate].
    destruct (IH c parent Hs Ht Hc) as [Htc Hcc].
    cbn [update_at]. set (g := fun c0 => update_at c0 r f).
    pose proof (nth_error_kids_nonempty _ _ _ Hn) as Hkt.
    assert (Hne : map_nth i g (kids t) <> []).
    { intros E. apply (f_equal (@length tree)) in E. rewrite map_nth_length in E.
      destruct (kids t); [congruence|discriminate]. }
    split.
    + rewrite (tips_node _ _ _ Hne), (tips_kids t Hkt).
      apply (map_nth_tips i g _ c Hn). exact Htc.
    + rewrite cuts_node, (cuts_kids t).
      apply (map_nth_cuts i g _ c Hn); [apply perm_seteq; exact Htc|exact Hcc].
Qed.

(** ** assembling *)

Lemma double_topology t : same_topology t (double t).
Proof. unfold same_topology. rewrite double_cuts. apply splits_eq_refl. Qed.

(** the receiver with a node spliced into one of its edges *)
Lemma spliced_topology t pp parent i c l x :
  subtree_at (double t) pp = Some parent -> nth_error (kids parent) i = Some c ->
  tlen c = Some l ->
  Permutation (tips (update_at (double t) pp (splice_child i l x))) (tips t) /\
  same_topology t (update_at (double t) pp (splice_child i l x)).
Proof.
  intros Hs Hn Hl.
  destruct (update_at_cuts (splice_child i l x) pp (double t) parent Hs) as [HP HC].
  - apply (splice_child_tips i l x parent c Hn Hl).
  - apply (splice_child_cuts i l x parent c Hn).
  - rewrite double_tips, double_cuts in *. split; [exact HP|].
    unfold same_topology. apply cequiv_splits_eq. apply cequiv_sym. exact HC.
Qed.

Lemma reroot_topology_from t td path x r :
  Permutation (tips td) (tips t) -> same_topology t td ->
  (2 <= length (kids td))%nat ->
  subtree_at td path = Some x -> kids x <> [] ->
  NoDup (tips t) -> reroot_go td path None = Some r ->
  Permutation (tips r) (tips t) /\ same_topology t r.
Proof.
  intros HP HT H2 Hs Hx HN Hgo.
  assert (HNd : NoDup (tips td)).
  { eapply Permutation_NoDup; [apply Permutation_sym; exact HP|exact HN]. }
  pose proof (reroot_tips td path x r Hs Hx (or_introl H2) HNd Hgo) as HPr.
  pose proof (reroot_topology td path x r Hs Hx (or_introl H2) HNd Hgo) as HTr.
  split; [eapply Permutation_trans; [exact HPr|exact HP]|].
  apply same_topology_trans with td; try assumption.
  - apply perm_seteq. apply Permutation_sym. exact HP.
  - apply perm_seteq. apply Permutation_sym. exact HPr.
Qed.

Theorem midpoint_topology : forall fx t r o,
  (2 <= length (kids t))%nat -> NoDup (tips t) -> ~ In [] (tips t) ->
  root_at_midpoint fx t = Ok (r, o) -> same_topology t r.
Proof.
  intros fx t r o H2 HN HE Hm.
  assert (Hk2 : (2 <= length (kids (double t)))%nat) by (rewrite double_kids_length; exact H2).
  assert (HPd : Permutation (tips (double t)) (tips t)) by (rewrite double_tips; apply Permutation_refl).
  pose proof (double_topology t) as HTd.
  destruct (midpoint_cases fx t r o Hm) as
    [[Hgo _]|[(pp & parent & Hs & Ht & Hgo & _)|(pp & parent & i & c & l & x & r' & Hs & Hn & Hl & Hgo & Hr & _)]].
  - apply (reroot_topology_from t (double t) [] (double t) r); try assumption.
    + reflexivity.
    + intros E. rewrite E in Hk2. cbn [length] in Hk2. lia.
  - apply (reroot_topology_from t (double t) pp parent r); try assumption.
    unfold is_tip in Ht. intros E. rewrite E in Ht. discriminate.
  - set (f := splice_child i l x) in *.
    destruct (spliced_topology t pp parent i c l x Hs Hn Hl) as [HPs HTs]. fold f in HPs, HTs.
    pose proof (splice_child_same i l x parent c Hn Hl) as Hf. fold f in Hf.
    destruct (update_at_same f pp (double t) parent Hs Hf) as [_ Hsub].
    set (sp := update_at (double t) pp f) in *.
    set (nw := Node [] (Some (l - x)) [Node (tname c) (Some x) (kids c)]).
    assert (Hnw : subtree_at sp (pp ++ [pred (length (kids parent))]) = Some nw).
    { rewrite (subtree_at_app pp sp (f parent) _ Hsub). unfold f.
      rewrite (splice_child_eq i l x parent c Hn). cbn [subtree_at kids].
      rewrite <- (remove_nth_length _ _ _ Hn), nth_error_snoc. reflexivity. }
    assert (Hk2' : (2 <= length (kids sp))%nat).
    { destruct pp as [|j pp'].
      - cbn [subtree_at] in Hs. inversion Hs; subst parent.
        unfold sp. cbn [update_at]. unfold f.
        rewrite (splice_child_kids_length i l x (double t) c Hn). exact Hk2.
      - unfold sp. rewrite update_at_kids_length by discriminate. exact Hk2. }
    destruct (reroot_topology_from t sp (pp ++ [pred (length (kids parent))]) nw r')
      as [HPr HTr]; try assumption.
    + unfold nw. cbn [kids]. discriminate.
    + assert (HE' : ~ In [] (tips r')).
      { intros Hi. apply HE. eapply Permutation_in; [exact HPr|exact Hi]. }
      subst r. unfold same_topology in *. rewrite (name_unnamed_cuts r' HE'). exact HTr.
Qed.

(** the receiver afterwards ([double t], or the spliced tree for the current method) *)
Theorem midpoint_receiver_topology : forall fx t r o,
  root_at_midpoint fx t = Ok (r, o) -> same_topology t o.
Proof.
  intros fx t r o Hm.
  destruct (midpoint_cases fx t r o Hm) as
    [[_ Ho]|[(pp & parent & _ & _ & _ & Ho)|(pp & parent & i & c & l & x & r' & Hs & Hn & Hl & _ & _ & Ho)]].
  - subst o. apply double_topology.
  - subst o. apply double_topology.
  - destruct fx; subst o; [apply double_topology|].
    apply (spliced_topology t pp parent i c l x Hs Hn Hl).
Qed.

(* ------------------------------------------------------------------ *)
(** * (4) a concrete instance: ((a,b)x,(c,(d,e)z)y)r re-rooted at z and at its midpoint *)

Definition ex_tree5 : tree :=
  Node [114] None
    [Node [120] (Some 3) [Node [97] (Some 1) []; Node [98] (Some 2) []];
     Node [121] (Some 6)
       [Node [99] (Some 4) [];
        Node [122] (Some 1) [Node [100] (Some 5) []; Node [101] (Some 2) []]]].

Definition ex_tree5_at_z : tree :=
  Node root_name None
    [Node [100] (Some 5) []; Node [101] (Some 2) [];
     Node [122] (Some 1)
       [Node [99] (Some 4) [];
        Node [121] (Some 6)
          [Node [120] (Some 3) [Node [97] (Some 1) []; Node [98] (Some 2) []]]]].

Lemma ex_tree5_nodup : NoDup (tips ex_tree5).
Proof. cbn. repeat constructor; cbn; intuition discriminate. Qed.

Example rooted_at_topology_ex : same_topology ex_tree5 ex_tree5_at_z.
Proof.
  apply (rooted_at_topology ex_tree5 [122] ex_tree5_at_z).
  - cbn. lia.
  - exact ex_tree5_nodup.
  - vm_compute. reflexivity.
Qed.

(** not vacuous: the tree has two non-trivial splits, ab|cde and abc|de *)
Example ex_tree5_splits :
  splits ex_tree5 = [[[97]; [98]]; [[99]; [100]; [101]]; [[100]; [101]]].
Proof. vm_compute. reflexivity. Qed.

Example midpoint_topology_ex : exists r o,
  root_at_midpoint false ex_tree5 = Ok (r, o) /\ o <> double ex_tree5 /\
  same_topology ex_tree5 r /\ same_topology ex_tree5 o.
Proof.
  destruct (root_at_midpoint false ex_tree5) as [[r o]|e] eqn:Em; [|vm_compute in Em; discriminate].
  exists r, o. split; [reflexivity|]. split.
  - vm_compute in Em. inversion Em; subst. vm_compute. discriminate.
  - split.
    + apply (midpoint_topology false ex_tree5 r o); try exact Em.
      * cbn. lia.
      * exact ex_tree5_nodup.
      * cbn. intuition discriminate.
    + apply (midpoint_receiver_topology false ex_tree5 r o Em).
Qed.
