(** C20 proofs: the hash join of the model is the nested-loop join of the
    specification, cross join, and the table-level delimited round trip. *)
From Coq Require Import Permutation.
From Coq Require QArith.
From CG3 Require Import Lib.PyZ Lib.Chars Lib.StableSort Lib.Val Model.Csv Model.Table Model.TableRun
     Spec.TableSpec Proofs.TableBase Proofs.CsvProofs.
Import ListNotations.

(* ------------------------------------------------------------------ Python equality of keys is an equivalence *)

(* normal form: a number as its reduced fraction, anything else as itself *)
Definition cnorm (c : cell) : QArith_base.Q + cell :=
  match cell_q c with Some q => inl (Qreduction.Qred q) | None => inr c end.

Lemma Qred_eq_iff (p q : QArith_base.Q) :
  QArith_base.Qeq p q <-> Qreduction.Qred p = Qreduction.Qred q.
Proof.
  split.
  - apply Qreduction.Qred_complete.
  - intro H. apply QArith_base.Qeq_trans with (Qreduction.Qred p).
    + apply QArith_base.Qeq_sym. apply Qreduction.Qred_correct.
    + rewrite H. apply Qreduction.Qred_correct.
Qed.

Lemma cell_eqb_cnorm a b : cell_eqb a b = true <-> cnorm a = cnorm b.
Proof.
  unfold cell_eqb, cnorm.
  destruct (cell_q a) as [p|] eqn:Ea, (cell_q b) as [q|] eqn:Eb.
  - split; intro H.
    + apply QArith_base.Qeq_bool_iff in H. apply Qred_eq_iff in H. rewrite H. reflexivity.
    + apply QArith_base.Qeq_bool_iff. apply Qred_eq_iff. injection H. auto.
  - split; intro H; discriminate H.
  - split; intro H; discriminate H.
  - destruct a as [x|x|x| |x1 x2]; try discriminate Ea;
      destruct b as [y|y|y| |y1 y2]; try discriminate Eb.
    + rewrite str_eqb_eq. split; intro H; [subst; reflexivity|injection H; auto].
    + split; intro H; discriminate H.
    + split; intro H; discriminate H.
    + split; reflexivity.
Qed.

Lemma key_eqb_cnorm a : forall b, key_eqb a b = true <-> map cnorm a = map cnorm b.
Proof.
  induction a as [|x a IH]; intros [|y b]; cbn [key_eqb map]; try (split; intro H; discriminate H).
  - split; reflexivity.
  - rewrite andb_true_iff, cell_eqb_cnorm, IH. split.
    + intros [H1 H2]. rewrite H1, H2. reflexivity.
    + intro H. injection H. auto.
Qed.

Lemma keq_refl a : key_eqb a a = true.
Proof. apply key_eqb_cnorm. reflexivity. Qed.

Lemma keq_sym a b : key_eqb a b = key_eqb b a.
Proof.
  destruct (key_eqb a b) eqn:E1, (key_eqb b a) eqn:E2; try reflexivity.
  - apply key_eqb_cnorm in E1. symmetry in E1. apply key_eqb_cnorm in E1. congruence.
  - apply key_eqb_cnorm in E2. symmetry in E2. apply key_eqb_cnorm in E2. congruence.
Qed.

Lemma keq_trans a b c : key_eqb a b = true -> key_eqb b c = true -> key_eqb a c = true.
Proof. rewrite !key_eqb_cnorm. congruence. Qed.

(* equivalent keys select the same rows *)
Lemma keq_left a b c : key_eqb a b = true -> key_eqb a c = key_eqb b c.
Proof.
  intro H. destruct (key_eqb b c) eqn:E.
  - eapply keq_trans; eassumption.
  - destruct (key_eqb a c) eqn:E2; [|reflexivity].
    rewrite keq_sym in H. rewrite (keq_trans _ _ _ H E2) in E. discriminate.
Qed.

(* ------------------------------------------------------------------ generic list facts *)

Lemma combine_app_eq {A B} (a1 a2 : list A) (b1 b2 : list B) :
  length a1 = length b1 -> combine (a1 ++ a2) (b1 ++ b2) = combine a1 b1 ++ combine a2 b2.
Proof.
  revert b1. induction a1 as [|x a1 IH]; intros [|y b1] H; try discriminate; [reflexivity|].
  cbn. f_equal. apply IH. cbn in H. lia.
Qed.

Lemma combine_repeat {A B} (x : A) (l : list B) : combine (repeat x (length l)) l = map (fun j => (x, j)) l.
Proof. induction l as [|y l IH]; [reflexivity|]. cbn. f_equal. exact IH. Qed.

Lemma combine_map_same {A B} (f : A -> B) (l : list A) : combine l (map f l) = map (fun x => (x, f x)) l.
Proof. induction l as [|x l IH]; [reflexivity|]. cbn. f_equal. exact IH. Qed.

Lemma flat_map_map {A B C} (f : B -> list C) (g : A -> B) (l : list A) :
  flat_map f (map g l) = flat_map (fun x => f (g x)) l.
Proof. induction l as [|x l IH]; [reflexivity|]. cbn. rewrite IH. reflexivity. Qed.

Lemma map_flat_map {A B C} (f : B -> C) (g : A -> list B) (l : list A) :
  map f (flat_map g l) = flat_map (fun x => map f (g x)) l.
Proof. induction l as [|x l IH]; [reflexivity|]. cbn. rewrite map_app, IH. reflexivity. Qed.

Lemma flat_map_ext_in {A B} (f g : A -> list B) (l : list A) :
  (forall x, In x l -> f x = g x) -> flat_map f l = flat_map g l.
Proof.
  induction l as [|x l IH]; intro H; [reflexivity|]. cbn. rewrite (H x), IH; [reflexivity| |left; reflexivity].
  intros y Hy. apply H. right. exact Hy.
Qed.

Lemma combine_flat_map {A B C} (f : A -> list B) (g : A -> list C) (l : list A) :
  (forall x, length (f x) = length (g x)) ->
  combine (flat_map f l) (flat_map g l) = flat_map (fun x => combine (f x) (g x)) l.
Proof.
  intro H. induction l as [|x l IH]; [reflexivity|]. cbn. rewrite combine_app_eq, IH; [reflexivity|apply H].
Qed.

Lemma length_flat_map_eq {A B C} (f : A -> list B) (g : A -> list C) (l : list A) :
  (forall x, length (f x) = length (g x)) -> length (flat_map f l) = length (flat_map g l).
Proof.
  intro H. induction l as [|x l IH]; [reflexivity|]. cbn. rewrite !app_length, IH, H. reflexivity.
Qed.

Lemma map_nth_pos {B} (h : list str) : forall (vs : list B) d,
  NoDup h -> length h = length vs -> map (fun c => nth (pos c h) vs d) h = vs.
Proof.
  induction h as [|x h IH]; intros vs d Hnd Hl; destruct vs as [|v vs]; try discriminate; [reflexivity|].
  cbn [map pos]. rewrite str_eqb_refl. cbn [nth]. f_equal.
  inversion Hnd as [|? ? Hx Hnd']; subst.
  transitivity (map (fun c0 => nth (pos c0 h) vs d) h).
  - apply map_ext_in. intros y Hy. cbn [pos]. destruct (str_eqb y x) eqn:E.
    + apply str_eqb_eq in E. subst. contradiction.
    + reflexivity.
  - apply IH; [exact Hnd'|cbn in Hl; lia].
Qed.

Lemma cols_of_hdr t : wf t -> map (col_of t) (hdr t) = cols t.
Proof. intros [Hl [_ Hnd]]. unfold col_of. apply map_nth_pos; assumption. Qed.

(* ------------------------------------------------------------------ the row index of the hash join *)

Definition matches (k : list cell) (l : list (nat * list cell)) : list nat :=
  map fst (filter (fun ir => key_eqb k (snd ir)) l).

Definition opt (l : list nat) : option (list nat) := match l with [] => None | _ => Some l end.

Lemma idx_get_add k k0 i0 m :
  idx_get k (idx_add k0 i0 m) =
  if key_eqb k k0 then Some (match idx_get k0 m with Some l => l ++ [i0] | None => [i0] end)
  else idx_get k m.
Proof.
  induction m as [|[k' l] m IH].
  - cbn [idx_add idx_get]. destruct (key_eqb k k0); reflexivity.
  - cbn [idx_add idx_get]. destruct (key_eqb k0 k') eqn:E0.
    + cbn [idx_get]. destruct (key_eqb k k0) eqn:E.
      * rewrite (keq_left _ _ _ E), E0. reflexivity.
      * destruct (key_eqb k k') eqn:E'; [|reflexivity].
        rewrite keq_sym in E0. rewrite (keq_trans _ _ _ E' E0) in E. discriminate.
    + cbn [idx_get]. rewrite IH. destruct (key_eqb k k0) eqn:E.
      * rewrite (keq_left _ _ _ E), E0. reflexivity.
      * reflexivity.
Qed.

Lemma matches_app k l1 l2 : matches k (l1 ++ l2) = matches k l1 ++ matches k l2.
Proof. unfold matches. rewrite filter_app, map_app. reflexivity. Qed.

Lemma matches_equiv k k0 l : key_eqb k k0 = true -> matches k l = matches k0 l.
Proof.
  intro H. unfold matches. f_equal. apply filter_ext. intros [i r]. cbn [snd]. apply keq_left. exact H.
Qed.

Lemma build_fold todo : forall m done,
  (forall k, idx_get k m = opt (matches k done)) ->
  forall k, idx_get k (fold_left (fun m ir => idx_add (snd ir) (fst ir) m) todo m) = opt (matches k (done ++ todo)).
Proof.
  induction todo as [|[i0 k0] todo IH]; intros m done Hinv k.
  - cbn [fold_left]. rewrite app_nil_r. apply Hinv.
  - cbn [fold_left fst snd].
    replace (done ++ (i0, k0) :: todo) with ((done ++ [(i0, k0)]) ++ todo) by (rewrite <- app_assoc; reflexivity).
    apply IH. clear k. intro k. rewrite idx_get_add, matches_app.
    unfold matches at 2. cbn [filter snd].
    destruct (key_eqb k k0) eqn:E.
    + cbn [map fst]. rewrite (Hinv k0), (matches_equiv _ _ _ E).
      destruct (matches k0 done) as [|a l]; reflexivity.
    + cbn [map]. rewrite app_nil_r. apply Hinv.
Qed.

Lemma build_index_get rows k : idx_get k (build_index rows) = opt (matches k (enumerate rows)).
Proof. unfold build_index. apply (build_fold (enumerate rows) [] []). intro k'. reflexivity. Qed.

Definition found (m : index) (k : list cell) : list nat :=
  match idx_get k m with Some l => l | None => [] end.

Lemma found_build rows k : found (build_index rows) k = matches k (enumerate rows).
Proof. unfold found. rewrite build_index_get. destruct (matches k (enumerate rows)); reflexivity. Qed.

Lemma scan_fold (m : index) (l : list (nat * list cell)) : forall ss os : list nat,
  length ss = length os ->
  let r := fold_left (fun acc ir =>
               match idx_get (snd ir) m with
               | None => acc
               | Some l => (fst acc ++ repeat (fst ir) (length l), snd acc ++ l)
               end) l (ss, os) in
  length (fst r) = length (snd r) /\
  combine (fst r) (snd r) = combine ss os ++ flat_map (fun ir => map (fun j => (fst ir, j)) (found m (snd ir))) l.
Proof.
  induction l as [|[i k] l IH]; intros ss os Hlen.
  - cbn. rewrite app_nil_r. split; [exact Hlen|reflexivity].
  - cbn [fold_left flat_map fst snd]. unfold found at 1. destruct (idx_get k m) as [lk|] eqn:E.
    + cbn [fst snd].
      assert (Hl' : length (ss ++ repeat i (length lk)) = length (os ++ lk))
        by (rewrite !app_length, repeat_length; lia).
      destruct (IH _ _ Hl') as [H1 H2]. split; [exact H1|].
      rewrite H2, combine_app_eq, combine_repeat, <- app_assoc; [reflexivity|exact Hlen].
    + cbn [map app]. apply IH. exact Hlen.
Qed.

Lemma scan_spec m rows :
  let r := scan m rows in
  length (fst r) = length (snd r) /\
  combine (fst r) (snd r) = flat_map (fun ir => map (fun j => (fst ir, j)) (found m (snd ir))) (enumerate rows).
Proof. unfold scan. apply (scan_fold m (enumerate rows) [] []). reflexivity. Qed.

(* ------------------------------------------------------------------ assembling the joined table *)

Lemma dict_update_fresh ks2 : forall ks vs vs2,
  length ks2 = length vs2 -> NoDup (ks ++ ks2) ->
  dict_update ks vs ks2 vs2 = (ks ++ ks2, vs ++ vs2).
Proof.
  induction ks2 as [|k ks2 IH]; intros ks vs vs2 Hl Hnd; destruct vs2 as [|v vs2]; try discriminate.
  - cbn. rewrite !app_nil_r. reflexivity.
  - cbn [dict_update].
    assert (Hk : mem_str k ks = false).
    { apply mem_str_false. intro Hin. apply NoDup_remove_2 in Hnd. apply Hnd. apply in_or_app. left. exact Hin. }
    rewrite Hk, IH.
    + rewrite <- !app_assoc. reflexivity.
    + cbn in Hl. lia.
    + rewrite <- app_assoc. exact Hnd.
Qed.

Lemma dict_gets_pos ks vs names :
  length ks = length vs -> incl names ks ->
  dict_gets ks vs names = Ok (map (fun c => nth (pos c ks) vs []) names).
Proof.
  intros Hl. induction names as [|c names IH]; intro Hincl; [reflexivity|].
  cbn [dict_gets map]. rewrite (assoc_get_pos ks vs c []); [|apply Hincl; left; reflexivity|exact Hl].
  rewrite IH; [reflexivity|]. intros x Hx. apply Hincl. right. exact Hx.
Qed.

Lemma dict_gets_all ks vs : length ks = length vs -> NoDup ks -> dict_gets ks vs ks = Ok vs.
Proof.
  intros Hl Hnd. rewrite dict_gets_pos; [|exact Hl|apply incl_refl].
  rewrite map_nth_pos; [reflexivity|exact Hnd|exact Hl].
Qed.

Lemma prefixed_length p l : length (prefixed p l) = length l.
Proof. unfold prefixed. apply map_length. Qed.

Lemma assemble_ok self other onames prefix ss os :
  wf self -> wf other -> incl onames (hdr other) -> hdr self <> [] ->
  NoDup (hdr self ++ prefixed prefix onames) -> length ss = length os ->
  assemble self other onames prefix ss os =
  Ok (mkT (hdr self ++ prefixed prefix onames)
          (map (take ss) (cols self) ++ map (take os) (map (col_of other) onames)) (length ss)).
Proof.
  intros Hws Hwo Hincl Hne Hnd Hlen. unfold assemble.
  rewrite (get_cols_ok other onames Hwo Hincl). cbn [bind].
  destruct Hws as [Hls [Hfs Hnds]].
  rewrite dict_update_fresh; [|rewrite prefixed_length, !map_length; reflexivity|exact Hnd].
  rewrite dict_gets_all; [|rewrite !app_length, prefixed_length, !map_length; lia|exact Hnd].
  cbn [bind].
  rewrite (set_cols_empty _ _ (length ss)).
  - destruct (hdr self ++ prefixed prefix onames) eqn:E; [|reflexivity].
    apply app_eq_nil in E. destruct E as [E _]. contradiction.
  - rewrite !app_length, prefixed_length, !map_length. lia.
  - apply Forall_app. split; rewrite Forall_forall; intros v Hv; apply in_map_iff in Hv;
      destruct Hv as [c [Hc _]]; subst; rewrite take_length; [reflexivity|exact (eq_sym Hlen)].
  - exact Hnd.
Qed.

Lemma row_at_take cs sel i :
  (i < length sel)%nat -> row_at (map (take sel) cs) i = row_at cs (nth i sel 0%nat).
Proof.
  intro Hi. unfold row_at. rewrite map_map. apply map_ext. intros c. unfold take.
  rewrite (nth_indep _ CN (nth 0 c CN)); [|rewrite map_length; exact Hi].
  rewrite (map_nth (fun j => nth j c CN)). reflexivity.
Qed.

Lemma pair_rows cs ocs ss os :
  length ss = length os ->
  map (row_at (map (take ss) cs ++ map (take os) ocs)) (seq 0 (length ss)) =
  map (fun p => row_at cs (fst p) ++ row_at ocs (snd p)) (combine ss os).
Proof.
  intro Hlen.
  rewrite <- (map_nth_seq (combine ss os) (0%nat, 0%nat)) at 1.
  rewrite combine_length, <- Hlen, Nat.min_id, map_map.
  apply map_ext_in. intros i Hi. apply in_seq in Hi.
  rewrite combine_nth by exact Hlen. cbn [fst snd].
  rewrite row_at_app, row_at_take, row_at_take; [reflexivity|lia|lia].
Qed.

(* ------------------------------------------------------------------ inner join = nested loop *)

Lemma enumerate_map_seq {A} (F : nat -> A) n :
  enumerate (map F (seq 0 n)) = map (fun i => (i, F i)) (seq 0 n).
Proof. unfold enumerate. rewrite map_length, seq_length. apply combine_map_same. Qed.

Lemma inner_loop (RA : list cell) (k : list cell) (KB RB : nat -> list cell) (l : list nat) :
  map (fun j => RA ++ RB j) (matches k (map (fun j => (j, KB j)) l)) =
  flat_map (fun j => if key_eqb k (KB j) then [RA ++ RB j] else []) l.
Proof.
  induction l as [|j l IH]; [reflexivity|].
  unfold matches in *. cbn [map filter snd flat_map].
  destruct (key_eqb k (KB j)) eqn:E.
  - cbn [map fst snd app]. f_equal. exact IH.
  - cbn [app]. exact IH.
Qed.

Theorem inner_join_nested_loop : forall self other cs co prefix ks ko,
  wf self -> wf other ->
  join_keys self other cs co = Ok (ks, ko) ->
  ks <> [] -> ko <> [] -> NoDup ks -> NoDup ko ->
  incl ks (hdr self) -> incl ko (hdr other) -> hdr self <> [] ->
  NoDup (spec_join_header (hdr self) (hdr other) ko prefix) ->
  exists t,
    inner_join self other cs co prefix = Ok t /\ wf t /\
    hdr t = spec_join_header (hdr self) (hdr other) ko prefix /\
    rows t = spec_inner_join (hdr self) (rows self) (hdr other) (rows other) ks ko.
Proof.
  intros self other cs co prefix ks ko Hws Hwo Hkeys Hks Hko Hndks Hndko Hiks Hiko Hne Hndh.
  unfold inner_join. rewrite Hkeys. cbn [bind].
  rewrite (sub_array_ok other ko Hwo Hiko Hndko Hko). cbn [bind].
  rewrite (sub_array_ok self ks Hws Hiks Hndks Hks). cbn [bind].
  set (orows := map (proj (hdr other) ko) (rows other)).
  set (srows := map (proj (hdr self) ks) (rows self)).
  set (mask := filter (fun c => negb (mem_str c ko)) (hdr other)).
  destruct (scan_spec (build_index orows) srows) as [Hlen Hcomb].
  destruct (scan (build_index orows) srows) as [ss os] eqn:Escan. cbn [fst snd] in Hlen, Hcomb.
  assert (Hmask : incl mask (hdr other)).
  { intros c Hc. unfold mask in Hc. apply filter_In in Hc. exact (proj1 Hc). }
  unfold spec_join_header in Hndh. fold mask in Hndh.
  rewrite (assemble_ok self other mask prefix ss os Hws Hwo Hmask Hne Hndh Hlen).
  eexists. split; [reflexivity|]. split; [|split].
  - (* wf *)
    unfold wf. cbn [hdr cols nrows]. split; [|split].
    + destruct Hws as [Hl _]. rewrite !app_length, prefixed_length, !map_length. lia.
    + apply Forall_app. split; rewrite Forall_forall; intros v Hv; apply in_map_iff in Hv;
        destruct Hv as [c [Hc _]]; subst; rewrite take_length; [reflexivity|exact (eq_sym Hlen)].
    + exact Hndh.
  - reflexivity.
  - (* rows *)
    rewrite rows_mkT, (pair_rows _ _ _ _ Hlen), Hcomb.
    unfold spec_inner_join. fold mask.
    unfold srows, rows, array. rewrite map_map, enumerate_map_seq, flat_map_map, map_flat_map, flat_map_map.
    apply flat_map_ext_in. intros i Hi. cbn [fst snd].
    rewrite found_build. unfold orows, rows, array.
    rewrite (map_map (row_at (cols other)) (proj (hdr other) ko)), enumerate_map_seq.
    rewrite flat_map_map, map_map. cbn [fst snd].
    rewrite (inner_loop (row_at (cols self) i) _ (fun j => proj (hdr other) ko (row_at (cols other) j))
                        (fun j => row_at (map (col_of other) mask) j)).
    apply flat_map_ext_in. intros j Hj. rewrite row_at_cols_proj. reflexivity.
Qed.

(* the same statement through the public entry point [joined(..., inner_join=True)] *)
Theorem joined_inner_nested_loop : forall self other cs co prefix ks ko,
  wf self -> wf other ->
  join_keys self other cs co = Ok (ks, ko) ->
  ks <> [] -> ko <> [] -> NoDup ks -> NoDup ko ->
  incl ks (hdr self) -> incl ko (hdr other) -> hdr self <> [] ->
  NoDup (spec_join_header (hdr self) (hdr other) ko prefix) ->
  exists t,
    joined self other cs co true prefix = Ok t /\ wf t /\
    hdr t = spec_join_header (hdr self) (hdr other) ko prefix /\
    rows t = spec_inner_join (hdr self) (rows self) (hdr other) (rows other) ks ko.
Proof. intros. unfold joined. apply inner_join_nested_loop; assumption. Qed.

(* the natural join keys are the shared names in self's order, on both sides *)
Lemma join_keys_natural self other :
  join_keys self other None None =
  Ok (filter (fun c => mem_str c (hdr other)) (hdr self), filter (fun c => mem_str c (hdr other)) (hdr self)).
Proof. reflexivity. Qed.

Lemma join_keys_explicit self other a b :
  length a = length b -> join_keys self other (Some a) (Some b) = Ok (a, b).
Proof. intro H. unfold join_keys. rewrite H, Nat.eqb_refl. reflexivity. Qed.

(* ------------------------------------------------------------------ cross join *)

Lemma product_sel_spec n m :
  let r := product_sel n m in
  length (fst r) = length (snd r) /\
  combine (fst r) (snd r) = flat_map (fun i => map (fun j => (i, j)) (seq 0 m)) (seq 0 n).
Proof.
  unfold product_sel. cbn [fst snd]. split.
  - apply length_flat_map_eq. intro i. rewrite repeat_length, seq_length. reflexivity.
  - rewrite combine_flat_map.
    + apply flat_map_ext_in. intros i _. rewrite <- (seq_length m 0) at 1. apply combine_repeat.
    + intro i. rewrite repeat_length, seq_length. reflexivity.
Qed.

Theorem cross_join_product : forall self other prefix,
  wf self -> wf other -> hdr self <> [] ->
  NoDup (hdr self ++ prefixed prefix (hdr other)) ->
  exists t,
    cross_join self other prefix = Ok t /\ wf t /\
    hdr t = hdr self ++ prefixed prefix (hdr other) /\
    rows t = spec_cross_join (rows self) (rows other).
Proof.
  intros self other prefix Hws Hwo Hne Hnd. unfold cross_join.
  destruct (product_sel_spec (nrows self) (nrows other)) as [Hlen Hcomb].
  destruct (product_sel (nrows self) (nrows other)) as [ss os] eqn:Eps. cbn [fst snd] in Hlen, Hcomb.
  rewrite (assemble_ok self other (hdr other) prefix ss os Hws Hwo (incl_refl _) Hne Hnd Hlen).
  eexists. split; [reflexivity|]. split; [|split].
  - unfold wf. cbn [hdr cols nrows]. split; [|split].
    + destruct Hws as [Hl _]. rewrite !app_length, prefixed_length, !map_length. lia.
    + apply Forall_app. split; rewrite Forall_forall; intros v Hv; apply in_map_iff in Hv;
        destruct Hv as [c [Hc _]]; subst; rewrite take_length; [reflexivity|exact (eq_sym Hlen)].
    + exact Hnd.
  - reflexivity.
  - rewrite rows_mkT, (pair_rows _ _ _ _ Hlen), Hcomb, (cols_of_hdr other Hwo).
    unfold spec_cross_join, rows, array.
    rewrite map_flat_map, flat_map_map. apply flat_map_ext_in. intros i _.
    rewrite !map_map. reflexivity.
Qed.

(* public entry point, a table without rows included: the product is the empty table *)
Theorem joined_cross_product : forall self other prefix,
  wf self -> wf other -> hdr self <> [] ->
  NoDup (hdr self ++ prefixed right_ (hdr other)) ->
  exists t,
    joined self other None None false prefix = Ok t /\ wf t /\
    hdr t = hdr self ++ prefixed right_ (hdr other) /\
    rows t = spec_cross_join (rows self) (rows other).
Proof. intros. unfold joined. apply cross_join_product; assumption. Qed.

Example cross_join_empty_table :
  joined (mkT [[97]] [[CI 1; CI 2]] 2) (mkT [[98]] [[]] 0) None None false right_ =
  Ok (mkT [[97]; right_ ++ [98]] [[]; []] 0).
Proof. vm_compute. reflexivity. Qed.

(* non-vacuity of the join theorem: a concrete join with duplicate keys on both sides *)
Example inner_join_hyps_inhabited :
  let self := mkT [[107]; [112]] [[CI 1; CI 2; CI 2]; [CS [120]; CS [121]; CS [122]]] 3 in
  let other := mkT [[107]; [113]] [[CI 2; CB true; CI 2]; [CI 10; CI 11; CI 12]] 3 in
  wf self /\ wf other /\
  join_keys self other None None = Ok ([[107]], [[107]]) /\
  NoDup (spec_join_header (hdr self) (hdr other) [[107]] right_) /\
  inner_join self other None None right_ =
    Ok (mkT [[107]; [112]; right_ ++ [113]]
            [[CI 1; CI 2; CI 2; CI 2; CI 2]; [CS [120]; CS [121]; CS [121]; CS [122]; CS [122]];
             [CI 11; CI 10; CI 12; CI 10; CI 12]] 5).
Proof.
  cbv zeta. split; [|split; [|split; [|split]]].
  - unfold wf. cbn. split; [reflexivity|]. split; [repeat constructor|].
    constructor; [cbn; intros [H|[]]; discriminate H|]. constructor; [intros []|constructor].
  - unfold wf. cbn. split; [reflexivity|]. split; [repeat constructor|].
    constructor; [cbn; intros [H|[]]; discriminate H|]. constructor; [intros []|constructor].
  - reflexivity.
  - vm_compute. constructor; [cbn; intros [H|[H|[]]]; discriminate H|].
    constructor; [cbn; intros [H|[]]; discriminate H|]. constructor; [intros []|constructor].
  - vm_compute. reflexivity.
Qed.

(* ------------------------------------------------------------------ Table.write + load_delimited *)

Lemma digits_no_cr fuel : forall n acc, field_okb acc = true -> field_okb (digits fuel n acc) = true.
Proof.
  induction fuel as [|f IH]; intros n acc Hacc; [exact Hacc|].
  cbn [digits].
  assert (Hd : field_okb ((48 + n mod 10) :: acc) = true).
  { unfold field_okb in *. cbn [existsb]. apply negb_true_iff. apply negb_true_iff in Hacc.
    rewrite Hacc, orb_false_r. unfold ch_cr.
    pose proof (Z.mod_pos_bound n 10 ltac:(lia)) as Hb. lia. }
  destruct (n <? 10); [exact Hd|]. apply IH. exact Hd.
Qed.

Lemma field_okb_app a b : field_okb (a ++ b) = field_okb a && field_okb b.
Proof. unfold field_okb. rewrite existsb_app, negb_orb. reflexivity. Qed.

Lemma fok_app a b : field_okb a = true -> field_okb b = true -> field_okb (a ++ b) = true.
Proof. intros Ha Hb. rewrite field_okb_app, Ha, Hb. reflexivity. Qed.

Lemma fok_cons c f : (c =? ch_cr) = false -> field_okb f = true -> field_okb (c :: f) = true.
Proof.
  intros Hc Hf. unfold field_okb in *. cbn [existsb]. rewrite Hc. cbn [orb]. exact Hf.
Qed.

Lemma fok_zeros k : field_okb (zeros k) = true.
Proof.
  unfold zeros. induction (Z.to_nat k) as [|n IH]; [reflexivity|].
  cbn [repeat]. apply fok_cons; [reflexivity|exact IH].
Qed.

Lemma fok_firstn_skipn n s :
  field_okb s = true -> field_okb (firstn n s) = true /\ field_okb (skipn n s) = true.
Proof.
  intro H. rewrite <- (firstn_skipn n s), field_okb_app in H. apply andb_true_iff in H. exact H.
Qed.

Lemma fok_nat_str n : field_okb (nat_str n) = true.
Proof. unfold nat_str. apply (digits_no_cr _ _ []). reflexivity. Qed.

Lemma fok_exp_str x : field_okb (exp_str x) = true.
Proof.
  unfold exp_str. apply fok_cons; [destruct (x <? 0); reflexivity|].
  destruct (Z.abs x <? 10); [apply fok_cons; [reflexivity|]|]; apply fok_nat_str.
Qed.

Lemma fok_float_str m e : field_okb (float_str m e) = true.
Proof.
  unfold float_str. cbv zeta.
  pose proof (fok_nat_str (Z.abs m)) as Hds.
  generalize (zlen (nat_str (Z.abs m)) + e). generalize (zlen (nat_str (Z.abs m))).
  revert Hds. generalize (nat_str (Z.abs m)). intros ds Hds n decpt.
  assert (Hbody : field_okb
            (if (-4 <? decpt) && (decpt <=? 16)
             then if decpt <=? 0 then [48; 46] ++ zeros (- decpt) ++ ds
                  else if n <=? decpt then ds ++ zeros (decpt - n) ++ [46; 48]
                       else firstn (Z.to_nat decpt) ds ++ 46 :: skipn (Z.to_nat decpt) ds
             else match ds with
                  | [] => []
                  | d1 :: rest =>
                      d1 :: (match rest with [] => [] | _ :: _ => 46 :: rest end) ++ 101 :: exp_str (decpt - 1)
                  end) = true).
  { destruct ((-4 <? decpt) && (decpt <=? 16)).
    - destruct (decpt <=? 0).
      + apply fok_app; [reflexivity|]. apply fok_app; [apply fok_zeros|exact Hds].
      + destruct (n <=? decpt).
        * apply fok_app; [exact Hds|]. apply fok_app; [apply fok_zeros|reflexivity].
        * destruct (fok_firstn_skipn (Z.to_nat decpt) ds Hds) as [H1 H2].
          apply fok_app; [exact H1|]. apply fok_cons; [reflexivity|exact H2].
    - destruct ds as [|d1 rest]; [reflexivity|].
      apply field_okb_cons in Hds. destruct Hds as [Hd Hr].
      apply fok_cons; [exact Hd|]. apply fok_app.
      + destruct rest as [|d2 rest']; [reflexivity|]. apply fok_cons; [reflexivity|exact Hr].
      + apply fok_cons; [reflexivity|apply fok_exp_str]. }
  destruct (m <? 0); [apply fok_cons; [reflexivity|exact Hbody]|exact Hbody].
Qed.

Lemma csv_cell_text_ok c : cell_text_okb c = true -> field_okb (csv_cell_text c) = true.
Proof.
  destruct c as [z|s|b| |m e]; cbn [cell_text_okb csv_cell_text cell_str]; intro H.
  - unfold z_str. destruct (z <? 0).
    + unfold field_okb. cbn [existsb]. change (45 =? ch_cr) with false. cbn [orb].
      apply (digits_no_cr _ _ []). reflexivity.
    + apply (digits_no_cr _ _ []). reflexivity.
  - exact H.
  - destruct b; reflexivity.
  - reflexivity.
  - apply fok_float_str.
Qed.

(* writing a table as delimited text and reading the text back returns the
   header and the text of every cell *)
Theorem write_load_delimited_roundtrip : forall d t,
  delim_okb d = true -> length (hdr t) = length (cols t) -> hdr t <> [] ->
  forallb field_okb (hdr t) = true ->
  forallb (forallb cell_text_okb) (rows t) = true ->
  csv_read d (fmt_rows d (write_records t)) = Some (write_records t).
Proof.
  intros d t Hd Hl Hne Hh Hc. apply csv_roundtrip; [exact Hd|].
  unfold write_records, rows_okb. cbn [forallb]. apply andb_true_iff. split.
  - unfold row_okb. apply andb_true_iff. split; [|exact Hh]. destruct (hdr t); [contradiction|reflexivity].
  - rewrite forallb_forall. intros r Hr. apply in_map_iff in Hr. destruct Hr as [r0 [Hr0 Hin]]. subst r.
    rewrite forallb_forall in Hc. specialize (Hc r0 Hin).
    unfold row_okb. apply andb_true_iff. split.
    + unfold rows, array in Hin. apply in_map_iff in Hin. destruct Hin as [i [Hi _]]. subst r0.
      unfold row_at. destruct (cols t) as [|c cs]; [|reflexivity].
      destruct (hdr t); [contradiction|discriminate].
    + rewrite forallb_forall. intros f Hf. apply in_map_iff in Hf. destruct Hf as [c [Hc' Hin']]. subst f.
      apply csv_cell_text_ok. rewrite forallb_forall in Hc. apply Hc. exact Hin'.
Qed.

(* the natural join is the join on the same-named columns, whatever their order in other *)
Theorem natural_join_same_named : forall self other prefix,
  wf self -> wf other -> hdr self <> [] ->
  let ks := filter (fun c => mem_str c (hdr other)) (hdr self) in
  ks <> [] ->
  NoDup (spec_join_header (hdr self) (hdr other) ks prefix) ->
  exists t,
    joined self other None None true prefix = Ok t /\ wf t /\
    hdr t = spec_join_header (hdr self) (hdr other) ks prefix /\
    rows t = spec_inner_join (hdr self) (rows self) (hdr other) (rows other) ks ks.
Proof.
  intros self other prefix Hws Hwo Hne ks Hks Hnd.
  assert (Hndks : NoDup ks) by (apply NoDup_filter; exact (proj2 (proj2 Hws))).
  assert (Hi1 : incl ks (hdr self)) by (intros c Hc; apply filter_In in Hc; exact (proj1 Hc)).
  assert (Hi2 : incl ks (hdr other)) by (intros c Hc; apply filter_In in Hc; apply mem_str_In; exact (proj2 Hc)).
  apply (joined_inner_nested_loop self other None None prefix ks ks); try assumption.
  apply join_keys_natural.
Qed.

(* shared columns listed in a different order in the two tables *)
Example natural_join_reordered_columns :
  joined (mkT [[97]; [98]; [112]] [[CI 1; CI 2]; [CI 2; CI 1]; [CS [120]; CS [121]]] 2)
         (mkT [[98]; [97]; [113]] [[CI 2; CI 1]; [CI 1; CI 2]; [CS [117]; CS [118]]] 2) None None true right_ =
  Ok (mkT [[97]; [98]; [112]; right_ ++ [113]]
          [[CI 1; CI 2]; [CI 2; CI 1]; [CS [120]; CS [121]]; [CS [117]; CS [118]]] 2).
Proof. vm_compute. reflexivity. Qed.
