From CG3 Require Import Lib.PyZ Lib.Val Lib.Rose Model.Tree.

(** C09 — writing a tree as Newick text and parsing it back is the identity
    ([newick_roundtrip_id]) for the executable model of [get_newick],
    [_Tokeniser.tokens], [parse_string], [TreeBuilder], [make_tree] in
    Model/Tree.v.

    1. [parse_Z (dec z) = Some z] for every integer;
    2. the lexer / token generator on a printed label, number or punctuation
       character followed by a separator ([TL_quoted], [TL_word'], [TL_num], [TL_punct]);
    3. the tokeniser on the printed text of a tree yields the abstract token
       stream [toptoks] ([tokenise_get_newick]);
    4. [_unique_name] on fresh names, and its termination within the model's fuel;
    5. the parser on [toptoks] rebuilds the tree ([parse_toptoks]);
    6. the round trip under the computable guard [rt_ok]. *)

Ltac btrue e := let H := fresh in assert (H : e = true) by lia; rewrite H; clear H.
Ltac bfalse e := let H := fresh in assert (H : e = false) by lia; rewrite H; clear H.

(* ================================================================== *)
(** * 1. decimal printing / parsing *)

Definition is_digit (c : Z) : Prop := 48 <= c <= 57.
Definition dval (ds : list Z) (a : Z) : Z := fold_left (fun a c => a * 10 + (c - 48)) ds a.

Lemma parse_digits_dval ds : Forall is_digit ds -> forall a, parse_digits ds a = Some (dval ds a).
Proof.
  induction 1 as [|c ds Hc _ IH]; intros a; cbn [parse_digits dval fold_left]; [reflexivity|].
  unfold is_digit in Hc.
  btrue ((48 <=? c) && (c <=? 57)). apply IH.
Qed.

Lemma dec_digits_S f n acc : dec_digits (S f) n acc =
  if n <? 10 then (48 + n) :: acc else dec_digits f (n / 10) ((48 + n mod 10) :: acc).
Proof. reflexivity. Qed.

Lemma dec_digits_spec f : forall n acc, 0 <= n < 2 ^ Z.of_nat f ->
  exists ds, dec_digits (S f) n acc = ds ++ acc /\ Forall is_digit ds /\ ds <> [] /\ dval ds 0 = n.
Proof.
  induction f as [|f IH]; intros n acc Hn.
  - cbn [dec_digits]. change (Z.of_nat 0) with 0 in Hn; rewrite Z.pow_0_r in Hn.
    btrue (n <? 10).
    exists [48 + n]. repeat split; [|congruence|unfold dval; cbn [fold_left]; lia].
    constructor; [unfold is_digit; lia|constructor].
  - rewrite dec_digits_S.
    rewrite Nat2Z.inj_succ, Z.pow_succ_r in Hn by lia.
    destruct (n <? 10) eqn:E.
    + exists [48 + n]. repeat split; [|congruence|unfold dval; cbn [fold_left]; lia].
      constructor; [unfold is_digit; lia|constructor].
    + destruct (IH (n / 10) ((48 + n mod 10) :: acc)) as (ds & Hd & HF & Hne & Hv); [lia|].
      exists (ds ++ [48 + n mod 10]). rewrite Hd, <- app_assoc. repeat split.
      * apply Forall_app; split; [assumption|]. constructor; [unfold is_digit; lia|constructor].
      * destruct ds; cbn; congruence.
      * unfold dval in *. rewrite fold_left_app, Hv. cbn [fold_left]. lia.
Qed.

Lemma log2_fuel n : 0 <= n -> 0 <= n < 2 ^ Z.of_nat (Z.to_nat (Z.log2 n)) * 2.
Proof.
  intros Hn. rewrite Z2Nat.id by apply Z.log2_nonneg.
  destruct (Z.eq_dec n 0) as [->|Hz]; [cbn; lia|].
  pose proof (Z.log2_spec n ltac:(lia)) as H. rewrite Z.pow_succ_r in H by apply Z.log2_nonneg. lia.
Qed.

Lemma dec_nonneg_spec n : 0 <= n ->
  exists ds, dec_digits (S (Z.to_nat (Z.log2 n))) n [] = ds /\ Forall is_digit ds /\ ds <> [] /\ dval ds 0 = n.
Proof.
  intros Hn. pose proof (log2_fuel n Hn) as Hf.
  set (k := Z.to_nat (Z.log2 n)) in *.
  (* one more unit of fuel than [dec_digits_spec] needs is harmless: use f := k with bound 2^k*2 = 2^(S k) *)
  destruct k as [|k].
  - cbn [dec_digits]. change (Z.of_nat 0) with 0 in Hf; rewrite Z.pow_0_r in Hf. btrue (n <? 10).
    exists [48 + n]. repeat split; [|congruence|unfold dval; cbn [fold_left]; lia].
    constructor; [unfold is_digit; lia|constructor].
  - rewrite dec_digits_S.
    rewrite Nat2Z.inj_succ, Z.pow_succ_r in Hf by lia.
    destruct (n <? 10) eqn:E.
    + exists [48 + n]. repeat split; [|congruence|unfold dval; cbn [fold_left]; lia].
      constructor; [unfold is_digit; lia|constructor].
    + destruct (dec_digits_spec k (n / 10) [48 + n mod 10]) as (ds & Hd & HF & Hne & Hv); [lia|].
      exists (ds ++ [48 + n mod 10]). rewrite Hd. repeat split.
      * apply Forall_app; split; [assumption|]. constructor; [unfold is_digit; lia|constructor].
      * destruct ds; cbn; congruence.
      * unfold dval in *. rewrite fold_left_app, Hv. cbn [fold_left]. lia.
Qed.

(** what the printed number looks like *)
Definition is_numchar (c : Z) : Prop := c = 45 \/ 48 <= c <= 57.

Lemma dec_spec z : dec z <> [] /\ Forall is_numchar (dec z) /\ parse_Z (dec z) = Some z.
Proof.
  unfold dec. destruct (z <? 0) eqn:E.
  - destruct (dec_nonneg_spec (- z)) as (ds & -> & HF & Hne & Hv); [lia|].
    repeat split; [congruence| |].
    + constructor; [left; reflexivity|]. eapply Forall_impl; [|exact HF]. intros c Hc; right; exact Hc.
    + destruct ds as [|d ds]; [congruence|]. cbn [parse_Z].
      rewrite (parse_digits_dval _ HF), Hv. f_equal; lia.
  - destruct (dec_nonneg_spec z) as (ds & -> & HF & Hne & Hv); [lia|].
    repeat split; [assumption| |].
    + eapply Forall_impl; [|exact HF]. intros c Hc; right; exact Hc.
    + destruct ds as [|d ds]; [congruence|].
      assert (Hd : is_digit d) by (inversion HF; assumption). unfold is_digit in Hd.
      assert (Hp : parse_Z (d :: ds) = parse_digits (d :: ds) 0).
      { unfold parse_Z. destruct d as [|p|p]; try lia.
        do 6 (destruct p as [p|p|]; try reflexivity; try lia). }
      rewrite Hp, (parse_digits_dval _ HF), Hv. reflexivity.
Qed.

Theorem parse_Z_dec z : parse_Z (dec z) = Some z.
Proof. apply dec_spec. Qed.

(* ================================================================== *)
(** * 2. the lexer and the token generator on printed text *)

Definition TL (s : list Z) : list (res (option name)) := tok_loop true (lex s LNone []) None None.

(** characters that extend a chunk *)
Definition chunkc (c : Z) : Prop :=
  is_blank c = false /\ (c =? c_nl) = false /\ (c =? c_sq) = false /\ (c =? c_dq) = false /\ is_delim1 c = false.

(** the separators that can follow a label or a number in printed text *)
Definition is_sepch (d : Z) : Prop := d = c_close \/ d = c_comma \/ d = c_colon \/ d = c_semi.

Lemma lex_blank c r m acc : is_blank c = true ->
  lex (c :: r) m acc = match m with LBlank => lex r LBlank (c :: acc) | _ => flush m acc ++ lex r LBlank [c] end.
Proof. intros H. cbn [lex]. rewrite H. reflexivity. Qed.

Lemma lex_chunk1 c r m acc : chunkc c ->
  lex (c :: r) m acc = match m with LChunk => lex r LChunk (c :: acc) | _ => flush m acc ++ lex r LChunk [c] end.
Proof. intros (H1 & H2 & H3 & H4 & H5). cbn [lex]. rewrite H1, H2, H3, H4, H5. reflexivity. Qed.

Lemma lex_delim c r m acc : is_blank c = false -> (c =? c_nl) = false -> (c =? c_sq) = false -> (c =? c_dq) = false ->
  is_delim1 c = true -> lex (c :: r) m acc = flush m acc ++ [c] :: lex r LNone [].
Proof. intros H1 H2 H3 H4 H5. cbn [lex]. rewrite H1, H2, H3, H4, H5. reflexivity. Qed.

Lemma lex_sqsq r m acc : lex (c_sq :: c_sq :: r) m acc = flush m acc ++ [c_sq; c_sq] :: lex r LNone [].
Proof. reflexivity. Qed.
Lemma lex_dqdq r m acc : lex (c_dq :: c_dq :: r) m acc = flush m acc ++ [c_dq; c_dq] :: lex r LNone [].
Proof. reflexivity. Qed.
Lemma lex_sq1 h r m acc : (h =? c_sq) = false -> lex (c_sq :: h :: r) m acc = flush m acc ++ [c_sq] :: lex (h :: r) LNone [].
Proof. intros H. cbn [lex]. change (is_blank c_sq) with false. change (c_sq =? c_nl) with false.
  change ((c_sq =? c_sq) || (c_sq =? c_dq)) with true. cbv iota. rewrite H. reflexivity. Qed.
Lemma lex_dq1 h r m acc : (h =? c_dq) = false -> lex (c_dq :: h :: r) m acc = flush m acc ++ [c_dq] :: lex (h :: r) LNone [].
Proof. intros H. cbn [lex]. change (is_blank c_dq) with false. change (c_dq =? c_nl) with false.
  change ((c_dq =? c_sq) || (c_dq =? c_dq)) with true. cbv iota. rewrite H. reflexivity. Qed.

Lemma lex_sep d r m acc : is_sepch d \/ d = c_open -> lex (d :: r) m acc = flush m acc ++ [d] :: lex r LNone [].
Proof. intros [[->|[->|[->| ->]]]| ->]; reflexivity. Qed.

(** a run of chunk characters up to a separator *)
Lemma lex_chunk w : Forall chunkc w -> forall d r acc, is_sepch d ->
  lex (w ++ d :: r) LChunk acc = (rev acc ++ w) :: [d] :: lex r LNone [].
Proof.
  induction 1 as [|c w Hc _ IH]; intros d r acc Hd.
  - rewrite app_nil_r. cbn [app]. rewrite lex_sep by (left; exact Hd). reflexivity.
  - cbn [app]. rewrite (lex_chunk1 _ _ _ _ Hc), IH by exact Hd. cbn [rev]. rewrite <- app_assoc. reflexivity.
Qed.

(* ---- strip ---- *)
Lemma lstrip_id l : (match l with c :: _ => is_pyspace c = false | [] => True end) -> lstrip l = l.
Proof. destruct l as [|c l]; [reflexivity|]. intros H. cbn [lstrip]. rewrite H. reflexivity. Qed.

Lemma strip_id l : Forall (fun c => is_pyspace c = false) l -> strip l = l.
Proof.
  intros HF. unfold strip. rewrite (lstrip_id l).
  2:{ destruct l; [exact I|]. inversion HF; assumption. }
  rewrite (lstrip_id (rev l)); [apply rev_involutive|].
  destruct (rev l) as [|c l'] eqn:E; [exact I|].
  rewrite Forall_forall in HF. apply HF. apply in_rev. rewrite E. left; reflexivity.
Qed.

(* ---- tok_loop steps ---- *)
Lemma tok_punct d R : is_sepch d \/ d = c_open ->
  tok_loop true ([d] :: R) None None = Ok (Some [d]) :: tok_loop true R None None.
Proof. intros [[->|[->|[->| ->]]]| ->]; reflexivity. Qed.

Lemma TL_punct d r : is_sepch d \/ d = c_open -> TL (d :: r) = Ok (Some [d]) :: TL r.
Proof. intros H. unfold TL. rewrite lex_sep by exact H. cbn [flush app]. apply tok_punct, H. Qed.

Lemma tok_word c w R : chunkc c -> strip (c :: w) = c :: w ->
  tok_loop true ((c :: w) :: R) None None = tok_loop true R (Some (c :: w)) None.
Proof.
  intros (H1 & H2 & H3 & H4 & H5) Hs. cbn [tok_loop].
  assert (Hb : is_breaker (c :: w) = false).
  { destruct w; [|reflexivity]. unfold is_breaker. unfold is_delim1 in H5.
    unfold c_nl, c_lbr, c_rbr, c_open, c_close, c_colon, c_comma, c_semi, c_sq, c_dq in *. lia. }
  rewrite Hb. unfold list_eqb. cbn [str_eqb]. rewrite H3, H4. cbn [andb orb]. rewrite Hs. reflexivity.
Qed.

Lemma tok_sep_after_word d c w R : is_sepch d ->
  tok_loop true ([d] :: R) (Some (c :: w)) None
  = Ok (Some (us_to_blank (strip (c :: w)))) :: Ok (Some [d]) :: tok_loop true R None None.
Proof. intros [->|[->|[->| ->]]]; reflexivity. Qed.

(** unquoted word followed by a separator *)
Lemma TL_word c w d r : Forall chunkc (c :: w) -> Forall (fun c => is_pyspace c = false) (c :: w) -> is_sepch d ->
  TL ((c :: w) ++ d :: r) = Ok (Some (us_to_blank (c :: w))) :: Ok (Some [d]) :: TL r.
Proof.
  intros Hc Hp Hd. unfold TL. cbn [app]. inversion Hc as [|? ? Hc1 Hc2]; subst.
  rewrite (lex_chunk1 _ _ _ _ Hc1). cbn [flush app]. rewrite lex_chunk by assumption. cbn [rev app].
  rewrite tok_word by (try assumption; apply strip_id, Hp).
  rewrite tok_sep_after_word by assumption. rewrite strip_id by exact Hp. reflexivity.
Qed.

(* ---- quoted labels ---- *)
Definition unq (tok : list Z) : list Z := if list_eqb tok [c_sq; c_sq] then [c_sq] else tok.
Definition okq (tok : list Z) : Prop := list_eqb tok [c_nl] = false /\ list_eqb tok [c_sq] = false.

Lemma tokq_many L : Forall okq L -> forall t R,
  tok_loop true (L ++ R) (Some t) (Some [c_sq]) = tok_loop true R (Some (t ++ concat (map unq L))) (Some [c_sq]).
Proof.
  induction 1 as [|tok L (Ha & Hb) _ IH]; intros t R.
  - cbn [map concat app]. rewrite app_nil_r. reflexivity.
  - cbn [app tok_loop]. rewrite Ha, Hb. cbn [map app]. rewrite IH. cbn [map concat]. fold (unq tok).
    rewrite app_assoc. reflexivity.
Qed.

Lemma tokq_close t R : tok_loop true ([c_sq] :: R) (Some t) (Some [c_sq]) = Ok (Some t) :: tok_loop true R None None.
Proof. reflexivity. Qed.
Lemma tokq_open R : tok_loop true ([c_sq] :: R) None None = tok_loop true R (Some []) (Some [c_sq]).
Proof. reflexivity. Qed.

Definition pend (m : lexmode) (acc : list Z) : list Z := match m with LNone => [] | _ => rev acc end.
Definition okst (m : lexmode) (acc : list Z) : Prop :=
  m = LNone \/ exists h tl, rev acc = h :: tl /\ (h =? c_sq) = false /\ (h =? c_nl) = false.

Lemma okq_head h tl : (h =? c_sq) = false -> (h =? c_nl) = false -> okq (h :: tl) /\ unq (h :: tl) = h :: tl.
Proof.
  intros H1 H2. unfold okq, unq, list_eqb. cbn [str_eqb]. rewrite H1, H2. cbn [andb]. auto.
Qed.

Lemma flush_ok m acc : okst m acc -> Forall okq (flush m acc) /\ concat (map unq (flush m acc)) = pend m acc.
Proof.
  intros [->|(h & tl & E & H1 & H2)]; [cbn; auto|].
  destruct (okq_head h tl H1 H2) as [Ho Hu].
  destruct m; cbn [flush pend map concat]; [auto| |]; rewrite E, Hu, app_nil_r; auto.
Qed.

Lemma okst_push m acc c : okst m acc -> m <> LNone -> okst m (c :: acc).
Proof.
  intros [->|(h & tl & E & H1 & H2)] Hm; [congruence|]. right. exists h, (tl ++ [c]). cbn [rev]. rewrite E. auto.
Qed.

Lemma okst_new m c : (c =? c_sq) = false -> (c =? c_nl) = false -> okst m [c].
Proof. intros. right. exists c, []. auto. Qed.

Lemma lexq n : forall s, (length s <= n)%nat -> Forall (fun c => (c =? c_nl) = false) s ->
  forall m acc d r, okst m acc -> (d =? c_sq) = false ->
  exists L, lex (double_sq s ++ c_sq :: d :: r) m acc = L ++ [c_sq] :: lex (d :: r) LNone []
            /\ Forall okq L /\ concat (map unq L) = pend m acc ++ s.
Proof.
  induction n as [|n IH]; intros s Hlen Hnl m acc d r Hst Hd.
  - destruct s; [|cbn in Hlen; lia]. cbn [double_sq flat_map app].
    rewrite lex_sq1 by exact Hd. destruct (flush_ok m acc Hst) as [Ho Hc].
    exists (flush m acc). rewrite app_nil_r. auto.
  - destruct s as [|c s].
    { cbn [double_sq flat_map app].
      rewrite lex_sq1 by exact Hd. destruct (flush_ok m acc Hst) as [Ho Hc].
      exists (flush m acc). rewrite app_nil_r. auto. }
    cbn [length] in Hlen. inversion Hnl as [|? ? Hc Hnl']; subst.
    destruct (flush_ok m acc Hst) as [Ho Hcc].
    assert (Hds : forall x l, double_sq (x :: l) = (if x =? c_sq then [c_sq; c_sq] else [x]) ++ double_sq l) by reflexivity.
    (* generic continuation after a token [tok] with the lexer reset *)
    assert (Hreset : forall tok s', (length s' <= n)%nat -> Forall (fun c => (c =? c_nl) = false) s' ->
               okq tok -> concat (map unq (flush m acc ++ [tok])) ++ s' = pend m acc ++ c :: s ->
               forall X, X = flush m acc ++ tok :: lex (double_sq s' ++ c_sq :: d :: r) LNone [] ->
               exists L, X = L ++ [c_sq] :: lex (d :: r) LNone [] /\ Forall okq L
                         /\ concat (map unq L) = pend m acc ++ c :: s).
    { intros tok s' Hl' Hn' Hok Hcat X ->.
      destruct (IH s' Hl' Hn' LNone [] d r (or_introl eq_refl) Hd) as (L & HL & HoL & HcL).
      exists (flush m acc ++ tok :: L). rewrite HL. rewrite <- app_assoc. cbn [app]. split; [reflexivity|]. split.
      - apply Forall_app; split; [exact Ho|]. constructor; assumption.
      - rewrite <- Hcat. rewrite !map_app, !concat_app. cbn [map concat]. rewrite HcL. cbn [pend app].
        rewrite app_nil_r, <- app_assoc. reflexivity. }
    rewrite Hds.
    destruct (is_blank c) eqn:Eb.
    { assert (Es : (c =? c_sq) = false) by (unfold is_blank, c_sp, c_tab, c_sq in *; lia).
      rewrite Es. cbn [app]. rewrite lex_blank by exact Eb.
      destruct m.
      - destruct (IH s ltac:(lia) Hnl' LBlank [c] d r (okst_new _ c Es Hc) Hd) as (L & HL & HoL & HcL).
        exists L. cbn [flush app pend]. rewrite HL. auto.
      - destruct (IH s ltac:(lia) Hnl' LBlank [c] d r (okst_new _ c Es Hc) Hd) as (L & HL & HoL & HcL).
        exists (flush LChunk acc ++ L). rewrite HL, <- app_assoc. split; [reflexivity|]. split.
        + apply Forall_app; auto.
        + rewrite map_app, concat_app, Hcc, HcL. reflexivity.
      - destruct (IH s ltac:(lia) Hnl' LBlank (c :: acc) d r) as (L & HL & HoL & HcL); [apply okst_push; [assumption|congruence]|exact Hd|].
        exists L. rewrite HL. split; [reflexivity|]. split; [assumption|]. rewrite HcL. cbn [pend rev].
        rewrite <- app_assoc. reflexivity. }
    destruct (c =? c_sq) eqn:Es.
    { assert (c = c_sq) by lia. subst c. cbn [app]. eapply (Hreset [c_sq; c_sq] s); [lia|assumption|split; reflexivity| |apply lex_sqsq].
      rewrite map_app, concat_app, Hcc. cbn. rewrite <- app_assoc. reflexivity. }
    destruct (c =? c_dq) eqn:Eq.
    { assert (c = c_dq) by lia. subst c. cbn [app].
      destruct s as [|c' s'].
      - cbn [double_sq flat_map app]. eapply (Hreset [c_dq] []); [cbn; lia|constructor|split; reflexivity| |].
        + rewrite map_app, concat_app, Hcc. cbn. rewrite <- app_assoc. reflexivity.
        + apply lex_dq1. reflexivity.
      - inversion Hnl' as [|? ? Hc' Hnl'']; subst. destruct (c' =? c_dq) eqn:Eq'.
        + assert (c' = c_dq) by lia. subst c'. rewrite Hds. cbn [Z.eqb c_dq c_sq Pos.eqb app].
          eapply (Hreset [c_dq; c_dq] s'); [cbn [length] in Hlen; lia|assumption|split; reflexivity| |apply lex_dqdq].
          rewrite map_app, concat_app, Hcc. cbn. rewrite <- app_assoc. reflexivity.
        + eapply (Hreset [c_dq] (c' :: s')); [cbn [length] in *; lia|assumption|split; reflexivity| |].
          * rewrite map_app, concat_app, Hcc. cbn. rewrite <- app_assoc. reflexivity.
          * rewrite Hds. destruct (c' =? c_sq) eqn:Es'; cbn [app]; apply lex_dq1; [reflexivity|exact Eq']. }
    destruct (is_delim1 c) eqn:Edl.
    { cbn [app]. eapply (Hreset [c] s); [lia|assumption| | |apply lex_delim; assumption].
      - apply okq_head; assumption.
      - rewrite map_app, concat_app, Hcc. cbn [map concat]. destruct (okq_head c [] Es Hc) as [_ ->].
        rewrite app_nil_r, <- app_assoc. reflexivity. }
    assert (Hch : chunkc c) by (repeat split; assumption).
    cbn [app]. rewrite lex_chunk1 by exact Hch.
    destruct m.
    + destruct (IH s ltac:(lia) Hnl' LChunk [c] d r (okst_new _ c Es Hc) Hd) as (L & HL & HoL & HcL).
      exists L. cbn [flush app pend]. rewrite HL. auto.
    + destruct (IH s ltac:(lia) Hnl' LChunk (c :: acc) d r) as (L & HL & HoL & HcL); [apply okst_push; [assumption|congruence]|exact Hd|].
      exists L. rewrite HL. split; [reflexivity|]. split; [assumption|]. rewrite HcL. cbn [pend rev].
      rewrite <- app_assoc. reflexivity.
    + destruct (IH s ltac:(lia) Hnl' LChunk [c] d r (okst_new _ c Es Hc) Hd) as (L & HL & HoL & HcL).
      exists (flush LBlank acc ++ L). rewrite HL, <- app_assoc. split; [reflexivity|]. split.
      * apply Forall_app; auto.
      * rewrite map_app, concat_app, Hcc, HcL. reflexivity.
Qed.

(** quoted label followed by a character other than a quote *)
Lemma TL_quoted c s d r : (c =? c_sq) = false -> Forall (fun c => (c =? c_nl) = false) (c :: s) -> (d =? c_sq) = false ->
  TL (c_sq :: double_sq (c :: s) ++ c_sq :: d :: r) = Ok (Some (c :: s)) :: TL (d :: r).
Proof.
  intros Hc Hnl Hd. unfold TL.
  destruct (lexq (length (c :: s)) (c :: s) (le_n _) Hnl LNone [] d r (or_introl eq_refl) Hd) as (L & HL & HoL & HcL).
  assert (Hds : double_sq (c :: s) = c :: double_sq s).
  { change (double_sq (c :: s)) with ((if c =? c_sq then [c_sq; c_sq] else [c]) ++ double_sq s). rewrite Hc. reflexivity. }
  assert (E : lex (c_sq :: double_sq (c :: s) ++ c_sq :: d :: r) LNone []
              = [c_sq] :: lex (double_sq (c :: s) ++ c_sq :: d :: r) LNone []).
  { rewrite Hds. cbn [app]. rewrite lex_sq1 by exact Hc. reflexivity. }
  rewrite E, HL, tokq_open, tokq_many by exact HoL. rewrite tokq_close, HcL. reflexivity.
Qed.

(* ---- unquoted labels with interior tabs / exotic white space ---- *)

(** characters of an unquoted printed label: a chunk character or a tab *)
Definition wordc (c : Z) : Prop :=
  (c =? c_nl) = false /\ (c =? c_sq) = false /\ (c =? c_dq) = false /\ is_delim1 c = false /\ (c =? c_sp) = false.

Lemma wordc_cases c : wordc c -> is_blank c = true \/ chunkc c.
Proof.
  intros (H1 & H2 & H3 & H4 & H5). destruct (is_blank c) eqn:E; [left; reflexivity|right].
  repeat split; assumption.
Qed.

Lemma chunkc_wordc c : chunkc c -> wordc c.
Proof.
  intros (H1 & H2 & H3 & H4 & H5). repeat split; try assumption.
  unfold is_blank in H1. apply orb_false_iff in H1. tauto.
Qed.

Lemma wordc_not_breaker h tl : wordc h -> is_breaker (h :: tl) = false.
Proof.
  intros (H1 & H2 & H3 & H4 & H5). destruct tl; [|reflexivity]. unfold is_breaker. unfold is_delim1 in H4.
  unfold c_nl, c_lbr, c_rbr, c_open, c_close, c_colon, c_comma, c_semi, c_sq, c_dq in *. lia.
Qed.

Lemma lstrip_app_last l h : is_pyspace h = false -> lstrip (l ++ [h]) <> [].
Proof.
  intros Hh. induction l as [|x l IH]; cbn [app lstrip].
  - rewrite Hh. congruence.
  - destruct (is_pyspace x); [exact IH|congruence].
Qed.

Lemma strip_nonempty h tl : is_pyspace h = false -> exists x y, strip (h :: tl) = x :: y.
Proof.
  intros Hh. unfold strip. rewrite (lstrip_id (h :: tl)) by exact Hh. cbn [rev].
  pose proof (lstrip_app_last (rev tl) h Hh) as Hne.
  destruct (lstrip (rev tl ++ [h])) as [|a l] eqn:E; [congruence|].
  destruct (rev (a :: l)) as [|x y] eqn:E2; [|eauto].
  apply (f_equal (@rev Z)) in E2. rewrite rev_involutive in E2. discriminate.
Qed.

Lemma strip_id' l : is_pyspace (hd 0 l) = false -> is_pyspace (hd 0 (rev l)) = false -> strip l = l.
Proof.
  intros H1 H2. unfold strip. rewrite (lstrip_id l) by (destruct l; [exact I|exact H1]).
  rewrite (lstrip_id (rev l)) by (destruct (rev l); [exact I|exact H2]). apply rev_involutive.
Qed.

Definition tget (txt : option name) : name := match txt with Some t => t | None => [] end.

(** a flushed non-breaker token is appended to the label being collected (or starts it) *)
Lemma tok_flush h tl X txt : wordc h ->
  (txt = None -> chunkc h /\ is_pyspace h = false) ->
  tok_loop true ((h :: tl) :: X) txt None = tok_loop true X (Some (tget txt ++ h :: tl)) None.
Proof.
  intros Hw Ht. cbn [tok_loop]. rewrite (wordc_not_breaker h tl Hw).
  destruct txt as [t|]; [reflexivity|].
  destruct (Ht eq_refl) as [(H1 & H2 & H3 & H4 & H5) Hp].
  unfold list_eqb. cbn [str_eqb]. rewrite H3, H4. cbn [andb orb].
  destruct (strip_nonempty h tl Hp) as (x & y & ->). reflexivity.
Qed.

Lemma tokw w : Forall wordc w -> forall m acc txt d r h tl,
  m <> LNone -> rev acc = h :: tl -> wordc h ->
  (txt = None -> m = LChunk /\ chunkc h /\ is_pyspace h = false) -> is_sepch d ->
  tok_loop true (lex (w ++ d :: r) m acc) txt None
  = tok_loop true ([d] :: lex r LNone []) (Some (tget txt ++ rev acc ++ w)) None.
Proof.
  induction 1 as [|c w Hc _ IH]; intros m acc txt d r h tl Hm Hr Hh Ht Hd.
  - cbn [app]. rewrite lex_sep by (left; exact Hd). rewrite app_nil_r.
    assert (flush m acc = [rev acc]) as -> by (destruct m; [congruence|reflexivity|reflexivity]).
    cbn [app]. rewrite Hr. apply tok_flush; [exact Hh|]. intros E. destruct (Ht E) as (_ & ? & ?). auto.
  - cbn [app]. destruct (wordc_cases c Hc) as [Hb|Hch].
    + rewrite lex_blank by exact Hb. destruct m; [congruence| |].
      * (* chunk -> blank run *)
        cbn [flush app]. rewrite Hr. rewrite tok_flush; [|exact Hh|intros E; destruct (Ht E) as (_ & ? & ?); auto].
        rewrite (IH LBlank [c] _ d r c []); [|congruence|reflexivity|exact Hc|discriminate|exact Hd].
        cbn [tget rev app]. rewrite <- !app_assoc. reflexivity.
      * rewrite (IH LBlank (c :: acc) txt d r h (tl ++ [c])); [|congruence|cbn [rev]; rewrite Hr; reflexivity|exact Hh| |exact Hd].
        -- cbn [rev]. rewrite <- !app_assoc. reflexivity.
        -- intros E. destruct (Ht E) as (? & _). discriminate.
    + rewrite lex_chunk1 by exact Hch. destruct m; [congruence| |].
      * rewrite (IH LChunk (c :: acc) txt d r h (tl ++ [c])); [|congruence|cbn [rev]; rewrite Hr; reflexivity|exact Hh| |exact Hd].
        -- cbn [rev]. rewrite <- !app_assoc. reflexivity.
        -- intros E. destruct (Ht E) as (_ & ? & ?). auto.
      * cbn [flush app]. rewrite Hr. rewrite tok_flush; [|exact Hh|intros E; destruct (Ht E) as (? & _); discriminate].
        rewrite (IH LChunk [c] _ d r c []); [|congruence|reflexivity|exact Hc|discriminate|exact Hd].
        cbn [tget rev app]. rewrite <- !app_assoc. reflexivity.
Qed.

(** unquoted label (possibly several lexer tokens) followed by a separator *)
Lemma TL_word' c w d r : chunkc c -> Forall wordc w ->
  is_pyspace c = false -> is_pyspace (hd 0 (rev (c :: w))) = false -> is_sepch d ->
  TL ((c :: w) ++ d :: r) = Ok (Some (us_to_blank (c :: w))) :: Ok (Some [d]) :: TL r.
Proof.
  intros Hc Hw Hp Hl Hd. unfold TL. cbn [app]. rewrite (lex_chunk1 _ _ _ _ Hc). cbn [flush app].
  rewrite (tokw w Hw LChunk [c] None d r c []); [|congruence|reflexivity|apply chunkc_wordc, Hc|auto|exact Hd].
  cbn [tget rev app]. rewrite tok_sep_after_word by exact Hd.
  rewrite strip_id' by assumption. reflexivity.
Qed.

(* ================================================================== *)
(** * 3. the token stream of a printed tree *)

Fixpoint join {A} (sep : list A) (parts : list (list A)) : list A :=
  match parts with
  | [] => []
  | [p] => p
  | p :: r => p ++ sep ++ join sep r
  end.

Definition ltoks (l : option Z) : list (option name) :=
  match l with Some z => [Some [c_colon]; Some (dec z)] | None => [] end.

(** tokens of a non-root node *)
Fixpoint toks (t : tree) : list (option name) :=
  match t with
  | Node n l cs =>
      (match cs with
       | [] => []
       | _ => Some [c_open] :: join [Some [c_comma]] (map toks cs) ++ [Some [c_close]]
       end) ++ Some n :: ltoks l
  end.

Definition ktoks (cs : list tree) : list (option name) :=
  match cs with
  | [] => []
  | _ => Some [c_open] :: join [Some [c_comma]] (map toks cs) ++ [Some [c_close]]
  end.

(** tokens of the whole text (the root prints no name), up to and including the semicolon *)
Definition toptoks (t : tree) : list (option name) :=
  ktoks (kids t) ++ ltoks (tlen t) ++ [Some [c_semi]].

Lemma toks_eq n l cs : toks (Node n l cs) = ktoks cs ++ Some n :: ltoks l.
Proof. reflexivity. Qed.

Definition ktext (cs : list tree) : list Z :=
  match cs with
  | [] => []
  | _ => [c_open] ++ join_with [c_comma] (map (newick_node true true false) cs) ++ [c_close]
  end.
Definition ltext (l : option Z) : list Z := match l with Some z => c_colon :: dec z | None => [] end.

Lemma newick_node_eq is_root n l cs : newick_node true true is_root (Node n l cs)
  = ktext cs ++ (if is_root then [] else escape_name n) ++ ltext l.
Proof. reflexivity. Qed.

(** per-name guard of the text-level round trip: non-empty, no leading quote,
    no newline; a name printed without quotes must not begin or end with white
    space other than a blank (str.strip() would remove it) *)
Definition edge_okb (c : Z) : bool := negb (is_pyspace c) || (c =? c_sp).
Definition name_okb (n : name) : bool :=
  match n with [] => false | _ => true end
  && negb (starts_with_sq n)
  && forallb (fun c => negb (c =? c_nl)) n
  && (existsb needs_quote_char n || (edge_okb (hd 0 n) && edge_okb (hd 0 (rev n)))).

Fixpoint allnames (p : name -> bool) (t : tree) : bool :=
  match t with Node n _ cs => p n && forallb (allnames p) cs end.

Definition b2u (c : Z) : Z := if c =? c_sp then c_us else c.

Lemma plain_char1 c : needs_quote_char c = false -> (c =? c_nl) = false ->
  wordc (b2u c) /\ (if b2u c =? c_us then c_sp else b2u c) = c.
Proof.
  unfold b2u, needs_quote_char, wordc, is_delim1,
    c_rbr, c_lbr, c_sq, c_dq, c_open, c_close, c_comma, c_colon, c_semi, c_us, c_sp, c_tab, c_nl.
  intros H1 H2. destruct (c =? 32) eqn:E.
  - assert (c = 32) by lia. subst c. repeat split; reflexivity.
  - assert ((c =? 95) = false) as -> by lia. repeat split; lia.
Qed.

Lemma plain_char2 c : needs_quote_char c = false -> (c =? c_nl) = false -> edge_okb c = true ->
  chunkc (b2u c) /\ is_pyspace (b2u c) = false.
Proof.
  unfold b2u, edge_okb, needs_quote_char, is_pyspace, chunkc, is_blank, is_delim1,
    c_rbr, c_lbr, c_sq, c_dq, c_open, c_close, c_comma, c_colon, c_semi, c_us, c_sp, c_tab, c_nl.
  intros H1 H2 H3. destruct (c =? 32) eqn:E.
  - repeat split; reflexivity.
  - repeat split; lia.
Qed.

Lemma plain_name n : Forall (fun c => needs_quote_char c = false /\ (c =? c_nl) = false) n ->
  Forall wordc (blanks_to_us n) /\ us_to_blank (blanks_to_us n) = n.
Proof.
  induction 1 as [|c n [H1 H2] _ [Ia Ib]]; cbn [blanks_to_us us_to_blank map]; [split; [constructor|reflexivity]|].
  destruct (plain_char1 c H1 H2) as [Pa Pb]. fold (b2u c). split; [constructor; assumption|].
  unfold us_to_blank, blanks_to_us in *. rewrite Pb, Ib. reflexivity.
Qed.

Lemma hd_b2u l : hd 0 (map b2u l) = b2u (hd 0 l).
Proof. destruct l; reflexivity. Qed.

Lemma TL_name n d r : name_okb n = true -> is_sepch d ->
  TL (escape_name n ++ d :: r) = Ok (Some n) :: Ok (Some [d]) :: TL r.
Proof.
  unfold name_okb. intros H Hd. apply andb_true_iff in H. destruct H as [H H4].
  apply andb_true_iff in H. destruct H as [H H3].
  apply andb_true_iff in H. destruct H as [H1 H2]. apply negb_true_iff in H2.
  unfold escape_name. rewrite H2. cbn [andb].
  assert (Hdq : (d =? c_sq) = false) by (destruct Hd as [->|[->|[->| ->]]]; reflexivity).
  assert (Hnl : Forall (fun c => (c =? c_nl) = false) n).
  { rewrite forallb_forall in H3. apply Forall_forall. intros x Hx. apply H3 in Hx. apply negb_true_iff in Hx. exact Hx. }
  destruct n as [|c s]; [discriminate|].
  destruct (existsb needs_quote_char (c :: s)) eqn:E.
  - rewrite <- !app_assoc. cbn [app]. rewrite TL_quoted; [rewrite TL_punct by (left; exact Hd); reflexivity| | |exact Hdq].
    + exact H2.
    + exact Hnl.
  - cbn [orb] in H4. apply andb_true_iff in H4. destruct H4 as [H4 H5].
    assert (HQ : Forall (fun c => needs_quote_char c = false /\ (c =? c_nl) = false) (c :: s)).
    { rewrite Forall_forall in *. intros x Hx. split; [|apply Hnl, Hx].
      destruct (needs_quote_char x) eqn:Ex; [|reflexivity].
      assert (existsb needs_quote_char (c :: s) = true) by (apply existsb_exists; eauto). congruence. }
    destruct (plain_name _ HQ) as [Pa Pb].
    assert (Hc : chunkc (b2u c) /\ is_pyspace (b2u c) = false).
    { inversion HQ as [|? ? [Q1 Q2] _]; subst. apply plain_char2; assumption. }
    assert (Hl : is_pyspace (hd 0 (rev (blanks_to_us (c :: s)))) = false).
    { unfold blanks_to_us. fold b2u. rewrite <- map_rev, hd_b2u.
      assert (HQr : Forall (fun c => needs_quote_char c = false /\ (c =? c_nl) = false) (rev (c :: s))).
      { rewrite Forall_forall in *. intros x Hx. apply HQ, in_rev, Hx. }
      destruct (rev (c :: s)) as [|x l]; [reflexivity|]. cbn [hd] in *.
      inversion HQr as [|? ? [Q1 Q2] _]; subst. apply plain_char2; assumption. }
    change (blanks_to_us (c :: s)) with (b2u c :: blanks_to_us s) in *.
    inversion Pa as [|? ? _ Pa']; subst. destruct Hc as [Hc1 Hc2].
    rewrite TL_word' by assumption. rewrite Pb. reflexivity.
Qed.

Lemma numchar_plain c : is_numchar c -> chunkc c /\ is_pyspace c = false /\ (if c =? c_us then c_sp else c) = c.
Proof.
  unfold is_numchar, is_pyspace, chunkc, is_blank, is_delim1,
    c_rbr, c_lbr, c_sq, c_dq, c_open, c_close, c_comma, c_colon, c_semi, c_us, c_sp, c_tab, c_nl.
  intros H. assert ((c =? 95) = false) as -> by lia. repeat split; lia.
Qed.

Lemma TL_num z d r : is_sepch d -> TL (dec z ++ d :: r) = Ok (Some (dec z)) :: Ok (Some [d]) :: TL r.
Proof.
  intros Hd. destruct (dec_spec z) as (Hne & HF & _).
  assert (H : Forall chunkc (dec z) /\ Forall (fun c => is_pyspace c = false) (dec z) /\ us_to_blank (dec z) = dec z).
  { clear Hne. induction HF as [|c w Hc _ IH]; [repeat split; constructor|].
    destruct IH as (Ia & Ib & Ic). destruct (numchar_plain c Hc) as (Pa & Pb & Pc).
    repeat split; [constructor; assumption|constructor; assumption|].
    unfold us_to_blank in *. cbn [map]. rewrite Pc, Ic. reflexivity. }
  destruct H as (Ha & Hb & Hc). destruct (dec z) as [|c w]; [congruence|].
  rewrite TL_word by assumption. rewrite Hc. reflexivity.
Qed.

Lemma TL_len l d r : is_sepch d -> TL (ltext l ++ d :: r) = map Ok (ltoks l) ++ Ok (Some [d]) :: TL r.
Proof.
  intros Hd. destruct l as [z|]; cbn [ltext ltoks map app].
  - rewrite TL_punct by (left; right; right; left; reflexivity). rewrite TL_num by exact Hd. reflexivity.
  - apply TL_punct. left; exact Hd.
Qed.

Definition tokP (t : tree) : Prop := allnames name_okb t = true -> forall d r, is_sepch d ->
  TL (newick_node true true false t ++ d :: r) = map Ok (toks t) ++ Ok (Some [d]) :: TL r.

Lemma TL_join cs : Forall tokP cs -> forallb (allnames name_okb) cs = true -> cs <> [] -> forall r,
  TL (join_with [c_comma] (map (newick_node true true false) cs) ++ c_close :: r)
  = map Ok (join [Some [c_comma]] (map toks cs)) ++ Ok (Some [c_close]) :: TL r.
Proof.
  induction 1 as [|c cs Hc HF IH]; intros Hg Hne r; [congruence|].
  cbn [forallb] in Hg. apply andb_true_iff in Hg. destruct Hg as [Hg1 Hg2].
  destruct cs as [|c2 cs].
  - cbn [map join_with join]. apply Hc; [exact Hg1|left; reflexivity].
  - change (join_with [c_comma] (map (newick_node true true false) (c :: c2 :: cs)))
      with (newick_node true true false c ++ [c_comma] ++ join_with [c_comma] (map (newick_node true true false) (c2 :: cs))).
    change (join [Some [c_comma]] (map toks (c :: c2 :: cs)))
      with (toks c ++ [Some [c_comma]] ++ join [Some [c_comma]] (map toks (c2 :: cs))).
    rewrite <- !app_assoc. cbn [app].
    rewrite Hc; [|exact Hg1|right; left; reflexivity].
    rewrite IH; [|exact Hg2|congruence]. rewrite !map_app. cbn [map]. rewrite <- app_assoc. reflexivity.
Qed.

Lemma TL_kids cs : Forall tokP cs -> forallb (allnames name_okb) cs = true -> forall X,
  TL (ktext cs ++ X) = map Ok (ktoks cs) ++ TL X.
Proof.
  intros HF Hg X. destruct cs as [|c cs]; [reflexivity|].
  unfold ktext, ktoks. rewrite <- !app_assoc. cbn [app].
  rewrite TL_punct by (right; reflexivity). rewrite TL_join; [|exact HF|exact Hg|congruence].
  cbn [map app]. rewrite map_app, <- app_assoc. reflexivity.
Qed.

Lemma tok_node t : tokP t.
Proof.
  induction t as [n l cs IH] using tree_ind'. intros Hg d r Hd.
  cbn [allnames] in Hg. apply andb_true_iff in Hg. destruct Hg as [Hn Hcs].
  rewrite newick_node_eq, toks_eq. rewrite <- !app_assoc. rewrite TL_kids by assumption.
  rewrite map_app. cbn [map]. rewrite <- app_assoc. f_equal.
  destruct l as [z|]; cbn [ltext ltoks map app].
  - rewrite TL_name; [|exact Hn|right; right; left; reflexivity]. rewrite TL_num by exact Hd. reflexivity.
  - rewrite TL_name by assumption. reflexivity.
Qed.

Lemma TL_nil : TL [] = [Ok None].
Proof. reflexivity. Qed.

(** the tokeniser on the printed text of a whole tree *)
Theorem tokenise_get_newick t : forallb (allnames name_okb) (kids t) = true ->
  tokenise true (get_newick true true true t) = map Ok (toptoks t) ++ [Ok None].
Proof.
  destruct t as [n l cs]. cbn [kids]. intros Hg.
  unfold get_newick. rewrite newick_node_eq. change (tokenise true ?s) with (TL s).
  rewrite <- !app_assoc. cbn [app]. rewrite TL_kids; [|apply Forall_forall; intros; apply tok_node|exact Hg].
  unfold toptoks. cbn [kids tlen]. rewrite !map_app, <- !app_assoc. f_equal.
  rewrite TL_len by (right; right; right; reflexivity). cbn [map app]. rewrite TL_nil. reflexivity.
Qed.

(* ================================================================== *)
(** * 4. TreeBuilder names *)

Lemma used_get_set u n v m : used_get (used_set u n v) m = if str_eqb n m then Some v else used_get u m.
Proof.
  induction u as [|[k w] u IH]; cbn [used_set used_get].
  - destruct (str_eqb n m); reflexivity.
  - destruct (str_eqb k n) eqn:E; cbn [used_get].
    + apply str_eqb_eq in E. subst k. destruct (str_eqb n m); reflexivity.
    + rewrite IH. destruct (str_eqb k m) eqn:E2; [|reflexivity].
      apply str_eqb_eq in E2. subst k. destruct (str_eqb n m) eqn:E3; [|reflexivity].
      apply str_eqb_eq in E3. subst m. rewrite str_eqb_refl in E. discriminate.
Qed.

Lemma used_set_keys u n k v : used_get u n = Some k -> map fst (used_set u n v) = map fst u.
Proof.
  induction u as [|[k' w] u IH]; cbn [used_set used_get]; [discriminate|].
  destruct (str_eqb k' n); intros H; cbn [map fst]; [reflexivity|]. rewrite IH by exact H. reflexivity.
Qed.

Lemma used_get_In u n k : used_get u n = Some k -> In n (map fst u).
Proof.
  induction u as [|[k' w] u IH]; cbn [used_get]; [discriminate|].
  destruct (str_eqb k' n) eqn:E; intros H; cbn [map fst In].
  - left. apply str_eqb_eq. exact E.
  - right. apply IH, H.
Qed.

Definition cntk (L : nat) (ks : list name) : nat := length (filter (fun k => (L <=? length k)%nat) ks).

Lemma cntk_le_length L ks : (cntk L ks <= length ks)%nat.
Proof. unfold cntk. induction ks as [|k ks IH]; cbn [filter length]; [lia|]. destruct (L <=? length k)%nat; cbn [length]; lia. Qed.

Lemma cntk_mono L L' ks : (L <= L')%nat -> (cntk L' ks <= cntk L ks)%nat.
Proof.
  intros HL. unfold cntk. induction ks as [|k ks IH]; cbn [filter length]; [lia|].
  destruct (L' <=? length k)%nat eqn:E1; destruct (L <=? length k)%nat eqn:E2; cbn [length]; try lia.
Qed.

Lemma cntk_drop L L' ks n : In n ks -> (L <= length n < L')%nat -> (cntk L' ks < cntk L ks)%nat.
Proof.
  intros Hin HL. induction ks as [|k ks IH]; [destruct Hin|].
  pose proof (cntk_mono L L' ks ltac:(lia)) as Hm. unfold cntk in *. cbn [filter].
  destruct Hin as [->|Hin].
  - assert ((L' <=? length n)%nat = false) as -> by (apply Nat.leb_gt; lia).
    assert ((L <=? length n)%nat = true) as -> by (apply Nat.leb_le; lia). cbn [length]. lia.
  - specialize (IH Hin).
    destruct (L' <=? length k)%nat eqn:E1; destruct (L <=? length k)%nat eqn:E2; cbn [length]; try lia.
Qed.

(** [_unique_name] terminates within the fuel the model gives it *)
Lemma unique_some fuel : forall u n, n <> [] -> (cntk (length n) (map fst u) < fuel)%nat ->
  exists r, unique_name fuel u n = Some r.
Proof.
  induction fuel as [|f IH]; intros u n Hn Hc; [lia|].
  destruct n as [|c n']; [congruence|]. cbn [unique_name].
  destruct (used_get u (c :: n')) as [k|] eqn:E; [|eexists; reflexivity].
  apply IH; [destruct n'; cbn; congruence|].
  rewrite (used_set_keys _ _ _ _ E).
  pose proof (cntk_drop (length (c :: n')) (length ((c :: n') ++ [46] ++ dec (k + 1))) (map fst u) (c :: n')
                (used_get_In _ _ _ E)) as Hd.
  rewrite !app_length in Hd. cbn [length] in Hd, Hc. rewrite !app_length. cbn [length]. specialize (Hd ltac:(lia)). lia.
Qed.

Lemma unique_root u : exists r, unique_name (S (S (length u))) u [] = Some r.
Proof.
  change (unique_name (S (S (length u))) u []) with (unique_name (S (S (length u))) u edge_str).
  apply unique_some; [discriminate|].
  pose proof (cntk_le_length (length edge_str) (map fst u)) as H. rewrite map_length in H. lia.
Qed.

Definition uafter (u : list (name * Z)) (names : list name) : list (name * Z) :=
  fold_left (fun u n => used_set u n 1) names u.

(** the names, in the order in which they are created, are non-empty and unused *)
Fixpoint freshl (u : list (name * Z)) (l : list name) : Prop :=
  match l with
  | [] => True
  | m :: r => m <> [] /\ used_get u m = None /\ freshl (used_set u m 1) r
  end.

Lemma uafter_app u a b : uafter u (a ++ b) = uafter (uafter u a) b.
Proof. apply fold_left_app. Qed.

Lemma freshl_app a : forall u b, freshl u (a ++ b) <-> freshl u a /\ freshl (uafter u a) b.
Proof.
  induction a as [|m a IH]; intros u b; cbn [app freshl uafter fold_left]; [tauto|].
  fold (uafter (used_set u m 1) a). rewrite IH. tauto.
Qed.

Fixpoint nodupb (l : list name) : bool :=
  match l with [] => true | x :: r => negb (memb x r) && nodupb r end.

Lemma freshl_of_nodup l : forall u, nodupb l = true ->
  (forall m, In m l -> m <> [] /\ used_get u m = None) -> freshl u l.
Proof.
  induction l as [|x l IH]; intros u Hnd Hall; cbn [freshl]; [exact I|].
  cbn [nodupb] in Hnd. apply andb_true_iff in Hnd. destruct Hnd as [Hx Hnd]. apply negb_true_iff in Hx.
  destruct (Hall x (or_introl eq_refl)) as [H1 H2]. repeat split; [exact H1|exact H2|].
  apply IH; [exact Hnd|]. intros m Hm. destruct (Hall m (or_intror Hm)) as [H3 H4]. split; [exact H3|].
  rewrite used_get_set. destruct (str_eqb x m) eqn:E; [|exact H4].
  apply str_eqb_eq in E. subst m. apply memb_false_In in Hx. contradiction.
Qed.

(** names in creation order (children before parents) *)
Fixpoint pnames (t : tree) : list name :=
  match t with Node n _ cs => flat_map pnames cs ++ [n] end.
Definition pnames_l (cs : list tree) : list name := flat_map pnames cs.

Lemma pnames_eq c : pnames c = pnames_l (kids c) ++ [tname c].
Proof. destruct c; reflexivity. Qed.

Lemma allnames_impl (p q : name -> bool) : (forall n, p n = true -> q n = true) ->
  forall t, allnames p t = true -> allnames q t = true.
Proof.
  intros Hpq. induction t as [n l cs IH] using tree_ind'. cbn [allnames]. intros H.
  apply andb_true_iff in H. destruct H as [H1 H2]. apply andb_true_iff. split; [apply Hpq, H1|].
  rewrite forallb_forall in *. rewrite Forall_forall in IH. intros c Hc. apply IH; [exact Hc|]. apply H2, Hc.
Qed.

Lemma allnames_pnames (p : name -> bool) : forall t, allnames p t = true -> forall m, In m (pnames t) -> p m = true.
Proof.
  induction t as [n l cs IH] using tree_ind'. cbn [allnames pnames]. intros H m Hm.
  apply andb_true_iff in H. destruct H as [H1 H2]. apply in_app_or in Hm. destruct Hm as [Hm|[<-|[]]]; [|exact H1].
  apply in_flat_map in Hm. destruct Hm as (c & Hc & Hm). rewrite forallb_forall in H2. rewrite Forall_forall in IH.
  eapply IH; [exact Hc|apply H2, Hc|exact Hm].
Qed.

(* ================================================================== *)
(** * 5. the parser on the token stream of a tree *)

Notation mk stk ns top ch nm ex ln hl u :=
  {| p_stack := stk; p_nodes := ns; p_top := top; p_children := ch; p_name := nm;
     p_expect := ex; p_len := ln; p_haslen := hl; p_used := u |}.
Notation F stk ns top u := (mk stk ns top None None false None false u).

(** one-character names the parser confuses with punctuation *)
Definition is_punct1 (n : name) : bool :=
  match n with
  | [c] => (c =? c_open) || (c =? c_colon) || (c =? c_lbr) || (c =? c_close) || (c =? c_semi) || (c =? c_comma)
  | _ => false
  end.

Definition chl (ch : option (list pnode)) : list tree := match ch with Some l => map fst l | None => [] end.
Definition loaded (cs : list tree) : list pnode := map (fun k => (k, true)) cs.
Definition chopt (cs : list tree) : option (list pnode) := match cs with [] => None | _ => Some (loaded cs) end.
Definition islen (l : option Z) : bool := match l with Some _ => true | None => false end.

Lemma chl_chopt cs : chl (chopt cs) = cs.
Proof.
  destruct cs as [|c cs]; [reflexivity|]. unfold chopt, chl, loaded. rewrite map_map. cbn [fst]. apply map_id.
Qed.

Lemma parse_loop_cont st tok st' rest : parse_step st tok = PCont st' ->
  parse_loop st (Ok tok :: rest) = parse_loop st' rest.
Proof. intros H. cbn [parse_loop]. rewrite H. reflexivity. Qed.

Lemma step_open stk ns top u :
  parse_step (F stk ns top u) (Some [c_open]) = PCont (F ((ns, top) :: stk) [] false u).
Proof. reflexivity. Qed.

Lemma step_name stk ns top ch u n : is_punct1 n = false ->
  parse_step (mk stk ns top ch None false None false u) (Some n)
  = PCont (mk stk ns top ch (Some n) false None false u).
Proof.
  intros H. unfold parse_step. cbn [p_expect p_name p_children p_haslen p_stack p_nodes p_top p_len p_used].
  destruct n as [|c [|c2 n]]; [reflexivity| |reflexivity].
  unfold is_punct1 in H. unfold tok_is.
  assert ((c =? c_open) = false) as -> by lia. assert ((c =? c_colon) = false) as -> by lia.
  assert ((c =? c_lbr) = false) as -> by lia. assert ((c =? c_close) = false) as -> by lia.
  assert ((c =? c_semi) = false) as -> by lia. assert ((c =? c_comma) = false) as -> by lia.
  reflexivity.
Qed.

Lemma step_colon stk ns top ch nm u :
  parse_step (mk stk ns top ch nm false None false u) (Some [c_colon])
  = PCont (mk stk ns top ch nm true None false u).
Proof. reflexivity. Qed.

Lemma step_num stk ns top ch nm u z :
  parse_step (mk stk ns top ch nm true None false u) (Some (dec z))
  = PCont (mk stk ns top ch nm false (Some z) true u).
Proof. unfold parse_step. cbn [p_expect]. rewrite parse_Z_dec. reflexivity. Qed.

Lemma build_named stk ns top ch n ex l hl u : used_get u n = None -> n <> [] ->
  build_node (mk stk ns top ch (Some n) ex l hl u) = Some ((Node n l (chl ch), true), used_set u n 1).
Proof.
  intros Hu Hn. unfold build_node. cbn [p_name p_used p_children p_len unique_name].
  destruct n as [|c n]; [congruence|]. rewrite Hu. reflexivity.
Qed.

Lemma step_comma stk ns ch n l hl u : used_get u n = None -> n <> [] ->
  parse_step (mk stk ns false ch (Some n) false l hl u) (Some [c_comma])
  = PCont (F stk (ns ++ [(Node n l (chl ch), true)]) false (used_set u n 1)).
Proof.
  intros Hu Hn. unfold parse_step. rewrite build_named by assumption. reflexivity.
Qed.

Lemma step_close ns0 top0 stk ns ch n l hl u : used_get u n = None -> n <> [] ->
  parse_step (mk ((ns0, top0) :: stk) ns false ch (Some n) false l hl u) (Some [c_close])
  = PCont (mk stk ns0 top0 (Some (ns ++ [(Node n l (chl ch), true)])) None false None false (used_set u n 1)).
Proof.
  intros Hu Hn. unfold parse_step. rewrite build_named by assumption. reflexivity.
Qed.

Lemma step_semi_root ch l hl u n' u2 : unique_name (S (S (length u))) u [] = Some (n', u2) ->
  parse_step (mk [] [] true ch None false l hl u) (Some [c_semi]) = PDone (Node n' l (chl ch), false).
Proof.
  intros H. unfold parse_step, build_node. cbn [p_expect p_name p_children p_haslen p_stack p_nodes p_top p_len p_used].
  rewrite H. reflexivity.
Qed.

(** consuming the optional ":" number *)
Lemma parse_len stk ns top ch nm u l rest :
  parse_loop (mk stk ns top ch nm false None false u) (map Ok (ltoks l) ++ rest)
  = parse_loop (mk stk ns top ch nm false l (islen l) u) rest.
Proof.
  destruct l as [z|]; [|reflexivity]. cbn [ltoks map app].
  rewrite (parse_loop_cont _ _ _ _ (step_colon _ _ _ _ _ _)).
  rewrite (parse_loop_cont _ _ _ _ (step_num _ _ _ _ _ _ _)). reflexivity.
Qed.

Definition punct_okb (n : name) : bool := negb (is_punct1 n).

Definition parseP (c : tree) : Prop := allnames punct_okb c = true ->
  forall stk ns top u rest, freshl u (pnames_l (kids c)) ->
  parse_loop (F stk ns top u) (map Ok (toks c) ++ rest)
  = parse_loop (mk stk ns top (chopt (kids c)) (Some (tname c)) false (tlen c) (islen (tlen c))
                   (uafter u (pnames_l (kids c)))) rest.

Lemma node_eta c : Node (tname c) (tlen c) (chl (chopt (kids c))) = c.
Proof. rewrite chl_chopt. destruct c; reflexivity. Qed.

Lemma parse_join cs : Forall parseP cs -> forallb (allnames punct_okb) cs = true -> cs <> [] ->
  forall ns0 top0 stk ns u rest, freshl u (pnames_l cs) ->
  parse_loop (F ((ns0, top0) :: stk) ns false u)
             (map Ok (join [Some [c_comma]] (map toks cs)) ++ Ok (Some [c_close]) :: rest)
  = parse_loop (mk stk ns0 top0 (Some (ns ++ loaded cs)) None false None false (uafter u (pnames_l cs))) rest.
Proof.
  induction 1 as [|c cs Hc HF IH]; intros Hg Hne ns0 top0 stk ns u rest Hfr; [congruence|].
  cbn [forallb] in Hg. apply andb_true_iff in Hg. destruct Hg as [Hg1 Hg2].
  change (pnames_l (c :: cs)) with (pnames c ++ pnames_l cs) in *.
  rewrite uafter_app. apply freshl_app in Hfr. destruct Hfr as [Hf1 Hf2].
  rewrite pnames_eq in Hf1. apply freshl_app in Hf1. destruct Hf1 as [Hf1 (Hn1 & Hn2 & _)].
  assert (Eu : uafter u (pnames c) = used_set (uafter u (pnames_l (kids c))) (tname c) 1).
  { rewrite pnames_eq, uafter_app. reflexivity. }
  destruct cs as [|c2 cs].
  - cbn [map join]. rewrite (Hc Hg1 _ _ _ _ _ Hf1).
    rewrite (parse_loop_cont _ _ _ _ (step_close _ _ _ _ _ _ _ _ _ Hn2 Hn1)).
    rewrite node_eta, Eu. reflexivity.
  - change (join [Some [c_comma]] (map toks (c :: c2 :: cs)))
      with (toks c ++ [Some [c_comma]] ++ join [Some [c_comma]] (map toks (c2 :: cs))).
    rewrite !map_app, <- !app_assoc. cbn [map app].
    rewrite (Hc Hg1 _ _ _ _ _ Hf1).
    rewrite (parse_loop_cont _ _ _ _ (step_comma _ _ _ _ _ _ _ Hn2 Hn1)).
    rewrite node_eta, <- Eu.
    rewrite IH; [|exact Hg2|congruence|exact Hf2].
    unfold loaded. cbn [map]. rewrite <- app_assoc. reflexivity.
Qed.

Lemma parse_kids cs : Forall parseP cs -> forallb (allnames punct_okb) cs = true ->
  forall stk ns top u rest, freshl u (pnames_l cs) ->
  parse_loop (F stk ns top u) (map Ok (ktoks cs) ++ rest)
  = parse_loop (mk stk ns top (chopt cs) None false None false (uafter u (pnames_l cs))) rest.
Proof.
  intros HF Hg stk ns top u rest Hfr. destruct cs as [|c cs]; [reflexivity|].
  unfold ktoks. cbn [map app]. rewrite map_app, <- app_assoc. cbn [map app].
  rewrite (parse_loop_cont _ _ _ _ (step_open _ _ _ _)).
  change (toks c :: map toks cs) with (map toks (c :: cs)).
  rewrite parse_join; [|exact HF|exact Hg|congruence|exact Hfr]. reflexivity.
Qed.

Lemma parse_node c : parseP c.
Proof.
  induction c as [n l cs IH] using tree_ind'. intros Hg stk ns top u rest Hfr.
  cbn [allnames] in Hg. apply andb_true_iff in Hg. destruct Hg as [Hn Hcs]. cbn [kids tname tlen] in *.
  rewrite toks_eq, map_app, <- app_assoc. rewrite parse_kids by assumption.
  cbn [map app]. apply negb_true_iff in Hn.
  rewrite (parse_loop_cont _ _ _ _ (step_name _ _ _ _ _ _ Hn)). apply parse_len.
Qed.

(** parser-level theorem: the token stream of a tree is parsed back to the tree
    (with some generated name for the unnamed root, flagged as not loaded) *)
Theorem parse_toptoks t rest :
  forallb (allnames punct_okb) (kids t) = true -> freshl used0 (pnames_l (kids t)) ->
  exists n', parse_loop pstate0 (map Ok (toptoks t) ++ rest) = Ok (Node n' (tlen t) (kids t), false).
Proof.
  intros Hg Hfr. destruct t as [n l cs]. cbn [kids tlen] in *. unfold toptoks. cbn [kids tlen].
  change pstate0 with (F [] [] true used0).
  rewrite !map_app, <- !app_assoc.
  rewrite parse_kids; [|apply Forall_forall; intros; apply parse_node|exact Hg|exact Hfr].
  rewrite parse_len. cbn [map app parse_loop].
  destruct (unique_root (uafter used0 (pnames_l cs))) as [[n' u2] Hu].
  rewrite (step_semi_root _ _ _ _ _ _ Hu). exists n'. rewrite chl_chopt. reflexivity.
Qed.

(* ================================================================== *)
(** * 6. write-then-parse is the identity *)

(** per-name guard (non-root nodes): [name_okb] (text level: non-empty; does not
    start with a single quote — such names are written raw or mis-tokenised
    after doubling; contains no newline — a newline ends / aborts a label; when
    the name is written without quotes, i.e. it contains no character of
    [needs_quote_char] (brackets, quotes, parentheses, comma, colon, semicolon,
    underscore), its first and last characters are not white space other
    than a blank — str.strip() would remove them; blanks are fine, they travel
    as underscores) and [punct_okb] (parser level: the name is not one of the
    one-character strings made of a parenthesis, comma, colon, semicolon or
    opening bracket, which the parser cannot tell from
    punctuation tokens even though the writer quotes them). *)
Definition nm_okb (n : name) : bool := name_okb n && punct_okb n.

(** The guard.
    - the root is called "root" (the writer prints no name for the root, the
      parser calls an unnamed root "root"); the root's own length is arbitrary,
      the root may be a lone tip, and a non-root node may also be called "root";
    - every non-root name satisfies [nm_okb];
    - the non-root names ([pnames_l]: in creation order, children before
      parents) are pairwise distinct and none is "edge"
      ([TreeBuilder._unique_name] renames repeated names and "edge");
    - lengths are arbitrary ([option Z], negative included). *)
Definition rt_ok (t : tree) : bool :=
  str_eqb (tname t) root_name
  && forallb (allnames nm_okb) (kids t)
  && nodupb (pnames_l (kids t))
  && negb (memb edge_str (pnames_l (kids t))).

Lemma forallb_allnames_impl (p q : name -> bool) cs : (forall n, p n = true -> q n = true) ->
  forallb (allnames p) cs = true -> forallb (allnames q) cs = true.
Proof.
  intros Hpq H. rewrite forallb_forall in *. intros c Hc. eapply allnames_impl; [exact Hpq|]. apply H, Hc.
Qed.

Lemma has_semi t : has_char c_semi (get_newick true true true t) = true.
Proof. unfold get_newick, has_char. rewrite existsb_app. cbn [existsb]. apply orb_true_r. Qed.

Theorem newick_roundtrip_id : forall t, rt_ok t = true -> newick_roundtrip true t = Ok t.
Proof.
  intros t H. unfold rt_ok in H.
  apply andb_true_iff in H. destruct H as [H H4]. apply andb_true_iff in H. destruct H as [H H3].
  apply andb_true_iff in H. destruct H as [H1 H2].
  apply str_eqb_eq in H1. apply negb_true_iff in H4.
  assert (Hn : forallb (allnames name_okb) (kids t) = true).
  { eapply forallb_allnames_impl; [|exact H2]. intros n Hn. unfold nm_okb in Hn. apply andb_true_iff in Hn. tauto. }
  assert (Hp : forallb (allnames punct_okb) (kids t) = true).
  { eapply forallb_allnames_impl; [|exact H2]. intros n Hn'. unfold nm_okb in Hn'. apply andb_true_iff in Hn'. tauto. }
  assert (Hfr : freshl used0 (pnames_l (kids t))).
  { apply freshl_of_nodup; [exact H3|]. intros m Hm. split.
    - unfold pnames_l in Hm. apply in_flat_map in Hm. destruct Hm as (c & Hc & Hm).
      rewrite forallb_forall in Hn. pose proof (allnames_pnames _ _ (Hn c Hc) m Hm) as Ho.
      intros ->. discriminate Ho.
    - cbn [used0 used_get]. destruct (str_eqb edge_str m) eqn:E; [|reflexivity].
      apply str_eqb_eq in E. subst m. apply memb_false_In in H4. contradiction. }
  unfold newick_roundtrip, make_tree. rewrite has_semi. cbn [negb]. rewrite andb_false_r. cbn [andb].
  unfold make_tree_tokens. rewrite (tokenise_get_newick t Hn).
  destruct (parse_toptoks t [Ok None] Hp Hfr) as [n' Hpl]. rewrite Hpl.
  destruct t as [n l cs]. cbn [tname] in H1. subst n. reflexivity.
Qed.

(** the parser alone, on the abstract token stream, for any names that are not
    one-character punctuation and are fresh in creation order *)
Theorem parse_tokens_id t :
  tname t = root_name -> forallb (allnames punct_okb) (kids t) = true -> freshl used0 (pnames_l (kids t)) ->
  make_tree_tokens (map Ok (toptoks t) ++ [Ok None]) = Ok t.
Proof.
  intros H1 Hp Hfr. unfold make_tree_tokens.
  destruct (parse_toptoks t [Ok None] Hp Hfr) as [n' Hpl]. rewrite Hpl.
  destruct t as [n l cs]. cbn [tname] in H1. subst n. reflexivity.
Qed.

(** a concrete tree: 10 nodes, polytomies, missing lengths, a negative length,
    names that need quoting (x_y, it-apostrophe-s, two double quotes and an
    apostrophe, two colons), blanks (a b, and c between blanks), an interior
    tab, a non-root node called root *)
Definition ex_tree : tree :=
  Node root_name (Some 3)
    [ Node [97] (Some 1) [];
      Node [97; 32; 98] None
        [ Node [120; 95; 121] (Some (-12)) [];
          Node [105; 116; 39; 115] (Some 0) [];
          Node [34; 34; 39] None [] ];
      Node [32; 99; 32] (Some 100) [];
      Node root_name None [Node [58; 58] (Some 7) []; Node [97; 9; 98] None []] ].

Example ex_tree_ok : rt_ok ex_tree = true.
Proof. vm_compute. reflexivity. Qed.

Example ex_tree_text : get_newick true true true ex_tree =
  [40; 97; 58; 49; 44; 40; 39; 120; 95; 121; 39; 58; 45; 49; 50; 44; 39;
   105; 116; 39; 39; 115; 39; 58; 48; 44; 39; 34; 34; 39; 39; 39; 41;
   97; 95; 98; 44; 95; 99; 95; 58; 49; 48; 48; 44; 40; 39; 58; 58; 39;
   58; 55; 44; 97; 9; 98; 41; 114; 111; 111; 116; 41; 58; 51; 59].
Proof. vm_compute. reflexivity. Qed.

Example ex_tree_roundtrip : newick_roundtrip true ex_tree = Ok ex_tree.
Proof. vm_compute. reflexivity. Qed.

Example ex_tree_roundtrip' : newick_roundtrip true ex_tree = Ok ex_tree.
Proof. apply newick_roundtrip_id, ex_tree_ok. Qed.
