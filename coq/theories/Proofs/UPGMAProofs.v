(** C15 — UPGMA whole run on an ultrametric matrix. *)
From Coq Require Import QArith Qminmax List Bool Arith ZArith Lia Lqa Permutation.
From CG3 Require Import Model.NJ Spec.DistSpec Proofs.NJProofs.
Import ListNotations.
Open Scope Q_scope.

(** ------------------------------------------------------------------ argmin *)

Lemma argmin_pairs_spec (f : nat -> nat -> Q) : forall l best,
  let r := argmin_pairs f l best in
  (r = best \/ In r l) /\ f (fst r) (snd r) <= f (fst best) (snd best) /\
  (forall p, In p l -> f (fst r) (snd r) <= f (fst p) (snd p)).
Proof.
  induction l as [|p l IH]; intros best; cbn [argmin_pairs].
  - split; [left; reflexivity|]. split; [apply Qle_refl|]. intros p [].
  - destruct (Qlt_le_dec (f (fst p) (snd p)) (f (fst best) (snd best))) as [Hlt|Hle].
    + destruct (IH p) as (H1 & H2 & H3). split; [|split].
      * destruct H1 as [->|H1]; right; [left; reflexivity|right; exact H1].
      * apply Qle_trans with (f (fst p) (snd p)); [exact H2|apply Qlt_le_weak; exact Hlt].
      * intros q [<-|Hq]; [exact H2|apply H3; exact Hq].
    + destruct (IH best) as (H1 & H2 & H3). split; [|split].
      * destruct H1 as [->|H1]; [left; reflexivity|right; right; exact H1].
      * exact H2.
      * intros q [<-|Hq]; [apply Qle_trans with (f (fst best) (snd best)); assumption|apply H3; exact Hq].
Qed.

Lemma in_all_pairs n k l : In (k, l) (all_pairs n) <-> (k < n)%nat /\ (l < n)%nat.
Proof.
  unfold all_pairs. rewrite in_flat_map. split.
  - intros (i & Hi & H). apply in_map_iff in H. destruct H as (j & E & Hj). injection E as <- <-.
    apply in_seq in Hi. apply in_seq in Hj. lia.
  - intros [Hk Hl]. exists k. split; [apply in_seq; lia|]. apply in_map_iff. exists l. split; [reflexivity|apply in_seq; lia].
Qed.

Lemma find_smallest_spec n (m : qmat) :
  (1 <= n)%nat ->
  let r := find_smallest_index n m in
  (fst r < n)%nat /\ (snd r < n)%nat /\
  forall k l, (k < n)%nat -> (l < n)%nat -> m (fst r) (snd r) <= m k l.
Proof.
  intros Hn. unfold find_smallest_index.
  destruct (argmin_pairs_spec m (all_pairs n) (0, 0)%nat) as (H1 & H2 & H3).
  set (r := argmin_pairs m (all_pairs n) (0%nat, 0%nat)) in *. cbv zeta.
  assert (Hin : In r (all_pairs n)).
  { destruct H1 as [->|H1]; [apply in_all_pairs; lia|exact H1]. }
  destruct r as [a b]. apply in_all_pairs in Hin. cbn [fst snd] in *. split; [lia|]. split; [lia|].
  intros k l Hk Hl. apply (H3 (k, l)). apply in_all_pairs. lia.
Qed.

(** ------------------------------------------------------------------ invariant *)

Definition is_live (order : list (option unode)) (k : nat) : bool :=
  match nth k order None with Some _ => true | None => false end.
Definition node_at (order : list (option unode)) (k : nat) : unode :=
  match nth k order None with Some x => x | None => dummy_unode end.

Record ustate_ok (orig : Z -> Z -> Q) (n : nat) (large B : Q) (alive : list nat) (c : nat)
                 (m : qmat) (order : list (option unode)) : Prop := {
  us_len : length order = n;
  us_alive : forall k, (k < n)%nat -> (In k alive <-> is_live order k = true);
  us_alive_lt : forall k, In k alive -> (k < n)%nat;
  us_nodup : NoDup alive;
  us_dead : forall k l, (k < n)%nat -> (l < n)%nat -> (~ In k alive \/ ~ In l alive) -> m k l == large;
  us_diag : forall k, In k alive -> large <= m k k * pow2 c;
  us_off : forall k l, In k alive -> In l alive -> k <> l -> 0 <= m k l /\ m k l <= B;
  us_sym : forall k l, In k alive -> In l alive -> m k l == m l k;
  us_ultra : forall k l x, In k alive -> In l alive -> In x alive -> k <> l -> k <> x -> l <> x ->
     m k l <= Qmax (m k x) (m x l);
  us_tree : forall k, In k alive -> (exists h, height_ok (node_at order k) h) /\ udists_ok orig (node_at order k);
  us_between : forall k l, In k alive -> In l alive -> k <> l ->
     forall x y, In x (unames (node_at order k)) -> In y (unames (node_at order l)) -> orig x y == m k l;
  us_tips : forall z, (z < n)%nat -> exists k, In k alive /\ In (Z.of_nat z) (unames (node_at order k)) }.

Lemma pow2_pos c : 0 < pow2 c.
Proof. unfold pow2. replace 0 with (inject_Z 0) by reflexivity. rewrite <- Zlt_Qlt. apply Z.pow_pos_nonneg; lia. Qed.

Lemma pow2_S c : pow2 (S c) == 2 * pow2 c.
Proof.
  unfold pow2. rewrite Nat2Z.inj_succ, Z.pow_succ_r by lia. rewrite inject_Z_mult. reflexivity.
Qed.

Lemma pow2_mono c n : (c <= n)%nat -> pow2 c <= pow2 n.
Proof. intros H. unfold pow2. rewrite <- Zle_Qle. apply Z.pow_le_mono_r; lia. Qed.

Lemma pow2_ge1 n : 1 <= pow2 n.
Proof. change 1 with (pow2 0). apply pow2_mono. lia. Qed.

Section Select.
  Variables (orig : Z -> Z -> Q) (n : nat) (large B : Q) (alive : list nat) (c : nat) (m : qmat) (order : list (option unode)).
  Hypothesis Hok : ustate_ok orig n large B alive c m order.
  Hypothesis HB0 : 0 <= B.
  Hypothesis HB : B * pow2 n < large.
  Hypothesis Hc : (c <= n)%nat.
  Hypothesis Htwo : (2 <= length alive)%nat.

  Lemma large_gt_B : B < large.
  Proof.
    apply Qle_lt_trans with (B * pow2 n); [|exact HB].
    rewrite <- (Qmult_1_r B) at 1. rewrite (Qmult_comm B 1), (Qmult_comm B (pow2 n)).
    apply Qmult_le_compat_r; [apply pow2_ge1|exact HB0].
  Qed.

  Lemma select_ok :
    let r := find_smallest_index n m in
    In (fst r) alive /\ In (snd r) alive /\ fst r <> snd r /\
    forall k l, In k alive -> In l alive -> m (fst r) (snd r) <= m k l.
  Proof.
    destruct alive as [|a0 [|b0 rest]] eqn:Ea; try (simpl in Htwo; lia). rewrite <- Ea in *.
    assert (Ia : In a0 alive) by (rewrite Ea; left; reflexivity).
    assert (Ib : In b0 alive) by (rewrite Ea; right; left; reflexivity).
    assert (Hab : a0 <> b0).
    { pose proof (us_nodup _ _ _ _ _ _ _ _ Hok) as ND. rewrite Ea in ND. inversion ND as [|? ? Hnin _]; subst.
      intros ->. apply Hnin. left. reflexivity. }
    assert (Hn : (1 <= n)%nat) by (pose proof (us_alive_lt _ _ _ _ _ _ _ _ Hok a0 Ia); lia).
    destruct (find_smallest_spec n m Hn) as (Hi & Hj & Hmin).
    set (r := find_smallest_index n m) in *. cbv zeta. destruct r as [i j]. cbn [fst snd] in *.
    assert (Hle : m i j <= B).
    { apply Qle_trans with (m a0 b0).
      - apply Hmin; apply (us_alive_lt _ _ _ _ _ _ _ _ Hok); assumption.
      - apply (us_off _ _ _ _ _ _ _ _ Hok); assumption. }
    pose proof large_gt_B as HlB.
    destruct (in_dec Nat.eq_dec i alive) as [Ii|Ni].
    2:{ exfalso. rewrite (us_dead _ _ _ _ _ _ _ _ Hok i j Hi Hj (or_introl Ni)) in Hle. lra. }
    destruct (in_dec Nat.eq_dec j alive) as [Ij|Nj].
    2:{ exfalso. rewrite (us_dead _ _ _ _ _ _ _ _ Hok i j Hi Hj (or_intror Nj)) in Hle. lra. }
    split; [exact Ii|]. split; [exact Ij|]. split.
    - intros ->. pose proof (us_diag _ _ _ _ _ _ _ _ Hok j Ij) as Hd.
      assert (m j j * pow2 c <= B * pow2 n).
      { apply Qle_trans with (B * pow2 c).
        - apply Qmult_le_compat_r; [exact Hle|apply Qlt_le_weak, pow2_pos].
        - rewrite (Qmult_comm B (pow2 c)), (Qmult_comm B (pow2 n)). apply Qmult_le_compat_r; [apply pow2_mono; exact Hc|exact HB0]. }
      lra.
    - intros k l Hk Hl. apply Hmin; apply (us_alive_lt _ _ _ _ _ _ _ _ Hok); assumption.
  Qed.
End Select.

(** ------------------------------------------------------------------ helpers *)

Lemma in_remove_iff (l : list nat) x y : In x (remove Nat.eq_dec y l) <-> In x l /\ x <> y.
Proof.
  induction l as [|a l IH]; cbn [remove]; [simpl; tauto|].
  destruct (Nat.eq_dec y a) as [->|Hn].
  - rewrite IH. simpl. split; [tauto|]. intros [[->|H] Hxy]; [congruence|tauto].
  - simpl. rewrite IH. split; [intros [->|[H Hxy]]; [split; [left; reflexivity|congruence]|tauto]|].
    intros [[->|H] Hxy]; [left; reflexivity|right; tauto].
Qed.

Lemma nodup_remove (l : list nat) y : NoDup l -> NoDup (remove Nat.eq_dec y l).
Proof.
  induction 1 as [|a l Hnin Hnd IH]; cbn [remove]; [constructor|].
  destruct (Nat.eq_dec y a); [exact IH|]. constructor; [|exact IH].
  rewrite in_remove_iff. tauto.
Qed.

Lemma remove_length (l : list nat) y : NoDup l -> In y l -> S (length (remove Nat.eq_dec y l)) = length l.
Proof.
  induction 1 as [|a l Hnin Hnd IH]; intros Hin; [destruct Hin|].
  cbn [remove]. destruct (Nat.eq_dec y a) as [->|Hn].
  - cbn [length]. f_equal. clear IH Hin Hnd. induction l as [|b l IHl]; [reflexivity|].
    cbn [remove]. destruct (Nat.eq_dec a b) as [->|Hab]; [exfalso; apply Hnin; left; reflexivity|].
    cbn [length]. f_equal. apply IHl. intros H. apply Hnin. right. exact H.
  - cbn [length]. f_equal. apply IH. destruct Hin as [->|H]; [congruence|exact H].
Qed.

Lemma condense_eq (m : qmat) i j large k l :
  condense_matrix m (i, j) large k l =
  if Nat.eqb l j then large else if Nat.eqb k j then large
  else if Nat.eqb l i then (m i k + m j k) / 2 else if Nat.eqb k i then (m i l + m j l) / 2 else m k l.
Proof. unfold condense_matrix, upd_row, upd_col. destruct (Nat.eqb l j); destruct (Nat.eqb k j); reflexivity. Qed.

Lemma u_tip_depths_set_lengths n d : u_tip_depths (set_lengths n d) = u_tip_depths n.
Proof. destruct n as [nm len tl [|c0 cs]]; reflexivity. Qed.

Lemma u_tip_dists_set_lengths n d : u_tip_dists (set_lengths n d) = u_tip_dists n.
Proof. destruct n as [nm len tl [|c0 cs]]; reflexivity. Qed.

Lemma unames_child_depths c : map fst (child_depths c) = unames c.
Proof. unfold child_depths, unames. rewrite map_map. reflexivity. Qed.

Lemma merged_depths n1 n2 d :
  u_tip_depths (UN None None None [set_lengths n1 d; set_lengths n2 d]) =
  child_depths (set_lengths n1 d) ++ child_depths (set_lengths n2 d).
Proof. cbn [u_tip_depths flat_map]. rewrite app_nil_r. reflexivity. Qed.

Lemma merged_names n1 n2 d :
  unames (UN None None None [set_lengths n1 d; set_lengths n2 d]) = unames n1 ++ unames n2.
Proof.
  unfold unames at 1. rewrite merged_depths, map_app, !unames_child_depths.
  unfold unames. rewrite !u_tip_depths_set_lengths. reflexivity.
Qed.

Lemma merged_dists n1 n2 d t3 :
  In t3 (u_tip_dists (UN None None None [set_lengths n1 d; set_lengths n2 d])) ->
  In t3 (u_tip_dists n1) \/ In t3 (u_tip_dists n2) \/
  In t3 (cross (child_depths (set_lengths n1 d)) (child_depths (set_lengths n2 d))).
Proof.
  cbn [u_tip_dists flat_map map cross_all]. rewrite !app_nil_r, !u_tip_dists_set_lengths.
  intros H. rewrite !in_app_iff in H. unfold child_depths, u_len. tauto.
Qed.

Lemma in_cross' (a b : list (Z * Q)) t3 :
  In t3 (cross a b) -> exists x y, In x a /\ In y b /\ t3 = (fst x, fst y, snd x + snd y).
Proof.
  unfold cross. intros H. apply in_flat_map in H. destruct H as (x & Hx & H).
  apply in_map_iff in H. destruct H as (y & <- & Hy). exists x, y. auto.
Qed.

Section UStep.
  Variables (orig : Z -> Z -> Q) (n : nat) (large B : Q) (alive : list nat) (c : nat) (m : qmat) (order : list (option unode)).
  Variables (i j : nat).
  Hypothesis Hok : ustate_ok orig n large B alive c m order.
  Hypothesis HB0 : 0 <= B.
  Hypothesis HlB : B < large.
  Hypothesis Ii : In i alive.
  Hypothesis Ij : In j alive.
  Hypothesis Hne : i <> j.
  Hypothesis Hmin : forall k l, In k alive -> In l alive -> m i j <= m k l.

  Let d := m i j / 2.
  Let node1 := node_at order i.
  Let node2 := node_at order j.
  Let new := UN None None None [set_lengths node1 d; set_lengths node2 d].
  Let order' := list_set (list_set order i (Some new)) j None.
  Let m' := condense_matrix m (i, j) large.
  Let alive' := remove Nat.eq_dec j alive.

  Lemma Hi_lt : (i < n)%nat. Proof. exact (us_alive_lt _ _ _ _ _ _ _ _ Hok i Ii). Qed.
  Lemma Hj_lt : (j < n)%nat. Proof. exact (us_alive_lt _ _ _ _ _ _ _ _ Hok j Ij). Qed.

  Lemma rows_equal x : In x alive -> x <> i -> x <> j -> m i x == m j x.
  Proof.
    intros Ix Hxi Hxj.
    pose proof (Hmin i x Ii Ix) as M1. pose proof (Hmin j x Ij Ix) as M2.
    pose proof (us_ultra _ _ _ _ _ _ _ _ Hok i x j Ii Ix Ij (not_eq_sym Hxi) Hne Hxj) as U1.
    pose proof (us_ultra _ _ _ _ _ _ _ _ Hok j x i Ij Ix Ii (not_eq_sym Hxj) (not_eq_sym Hne) Hxi) as U2.
    pose proof (us_sym _ _ _ _ _ _ _ _ Hok i j Ii Ij) as S.
    destruct (Q.max_spec (m i j) (m j x)) as [[_ E1]|[_ E1]]; rewrite E1 in U1;
    destruct (Q.max_spec (m j i) (m i x)) as [[_ E2]|[_ E2]]; rewrite E2 in U2; lra.
  Qed.

  Lemma alive'_iff k : In k alive' <-> In k alive /\ k <> j.
  Proof. apply in_remove_iff. Qed.

  Lemma nth_order' k : (k < n)%nat ->
    nth k order' None = if Nat.eqb k j then None else if Nat.eqb k i then Some new else nth k order None.
  Proof.
    intros Hk. pose proof (us_len _ _ _ _ _ _ _ _ Hok) as Hlen. pose proof Hi_lt. pose proof Hj_lt.
    unfold order'. rewrite list_set_nth by (rewrite list_set_length; lia).
    destruct (Nat.eqb k j); [reflexivity|]. rewrite list_set_nth by lia. reflexivity.
  Qed.

  Lemma node_at' k : (k < n)%nat -> k <> j -> node_at order' k = if Nat.eqb k i then new else node_at order k.
  Proof.
    intros Hk Hkj. unfold node_at. rewrite nth_order' by exact Hk.
    destruct (Nat.eqb_spec k j); [contradiction|]. destruct (Nat.eqb k i); reflexivity.
  Qed.

  Lemma kept k l : In k alive' -> In l alive' -> k <> l -> m' k l == m k l.
  Proof.
    intros Hk Hl Hkl. apply alive'_iff in Hk. apply alive'_iff in Hl. destruct Hk as [Hk Hkj]. destruct Hl as [Hl Hlj].
    unfold m'. rewrite condense_eq.
    destruct (Nat.eqb_spec l j); [contradiction|]. destruct (Nat.eqb_spec k j); [contradiction|].
    destruct (Nat.eqb_spec l i) as [->|Hli].
    - rewrite <- (rows_equal k Hk Hkl Hkj). rewrite (us_sym _ _ _ _ _ _ _ _ Hok k i Hk Ii). field.
    - destruct (Nat.eqb_spec k i) as [->|Hki]; [|reflexivity].
      rewrite <- (rows_equal l Hl Hli Hlj). field.
  Qed.

  Lemma dead' k l : (k < n)%nat -> (l < n)%nat -> ~ In k alive' \/ ~ In l alive' -> m' k l == large.
  Proof.
    intros Hk Hl Hd. unfold m'. rewrite condense_eq.
    destruct (Nat.eqb_spec l j) as [->|Hlj]; [reflexivity|]. destruct (Nat.eqb_spec k j) as [->|Hkj]; [reflexivity|].
    assert (Hd' : ~ In k alive \/ ~ In l alive).
    { destruct Hd as [Hd|Hd]; [left|right]; intros H; apply Hd; apply alive'_iff; split; assumption. }
    pose proof Hi_lt. pose proof Hj_lt.
    destruct (Nat.eqb_spec l i) as [->|Hli].
    - destruct Hd' as [Nk|Ni]; [|contradiction].
      rewrite (us_dead _ _ _ _ _ _ _ _ Hok i k) by (auto). rewrite (us_dead _ _ _ _ _ _ _ _ Hok j k) by auto. field.
    - destruct (Nat.eqb_spec k i) as [->|Hki].
      + destruct Hd' as [Ni|Nl]; [contradiction|].
        rewrite (us_dead _ _ _ _ _ _ _ _ Hok i l) by auto. rewrite (us_dead _ _ _ _ _ _ _ _ Hok j l) by auto. field.
      + apply (us_dead _ _ _ _ _ _ _ _ Hok); assumption.
  Qed.

  Lemma large_pos : 0 < large. Proof. lra. Qed.

  Lemma diag' k : In k alive' -> large <= m' k k * pow2 (S c).
  Proof.
    intros Hk. apply alive'_iff in Hk. destruct Hk as [Hk Hkj].
    pose proof (pow2_pos c) as Hp. pose proof large_pos as Hl.
    rewrite pow2_S. unfold m'. rewrite condense_eq.
    destruct (Nat.eqb_spec k j); [contradiction|].
    destruct (Nat.eqb_spec k i) as [->|Hki].
    - pose proof (us_diag _ _ _ _ _ _ _ _ Hok i Ii) as Hd.
      assert (0 <= m j i) by (rewrite (us_sym _ _ _ _ _ _ _ _ Hok j i Ij Ii); apply (us_off _ _ _ _ _ _ _ _ Hok); assumption).
      assert (E : (m i i + m j i) / 2 * (2 * pow2 c) == m i i * pow2 c + m j i * pow2 c) by field.
      rewrite E. assert (0 <= m j i * pow2 c) by (apply Qmult_le_0_compat; lra). lra.
    - pose proof (us_diag _ _ _ _ _ _ _ _ Hok k Hk) as Hd.
      assert (0 <= m k k * pow2 c) by lra.
      assert (E : m k k * (2 * pow2 c) == 2 * (m k k * pow2 c)) by ring. rewrite E. lra.
  Qed.

  Lemma new_height : exists h, height_ok new h.
  Proof.
    destruct (us_tree _ _ _ _ _ _ _ _ Hok i Ii) as [(h1 & H1) _]. destruct (us_tree _ _ _ _ _ _ _ _ Hok j Ij) as [(h2 & H2) _].
    exists d. exact (merged_height_ok node1 node2 h1 h2 d H1 H2).
  Qed.

  Lemma new_dists : udists_ok orig new.
  Proof.
    destruct (us_tree _ _ _ _ _ _ _ _ Hok i Ii) as [(h1 & H1) W1]. destruct (us_tree _ _ _ _ _ _ _ _ Hok j Ij) as [(h2 & H2) W2].
    unfold udists_ok. apply Forall_forall. intros t3 H3. apply merged_dists in H3.
    destruct H3 as [H3|[H3|H3]].
    - unfold udists_ok in W1. rewrite Forall_forall in W1. exact (W1 t3 H3).
    - unfold udists_ok in W2. rewrite Forall_forall in W2. exact (W2 t3 H3).
    - apply in_cross' in H3. destruct H3 as (x & y & Hx & Hy & ->). cbn [fst snd].
      pose proof (set_lengths_depths node1 h1 d H1) as D1. pose proof (set_lengths_depths node2 h2 d H2) as D2.
      rewrite Forall_forall in D1, D2. rewrite (D1 x Hx), (D2 y Hy).
      assert (E1 : unames (set_lengths node1 d) = unames node1) by (unfold unames; rewrite u_tip_depths_set_lengths; reflexivity).
      assert (E2 : unames (set_lengths node2 d) = unames node2) by (unfold unames; rewrite u_tip_depths_set_lengths; reflexivity).
      assert (Nx : In (fst x) (unames node1)) by (rewrite <- E1, <- unames_child_depths; apply in_map; exact Hx).
      assert (Ny : In (fst y) (unames node2)) by (rewrite <- E2, <- unames_child_depths; apply in_map; exact Hy).
      rewrite (us_between _ _ _ _ _ _ _ _ Hok i j Ii Ij Hne _ _ Nx Ny). unfold d. field.
  Qed.

  Lemma ustep_ok : ustate_ok orig n large B alive' (S c) m' order'.
  Proof.
    pose proof Hi_lt as Hi. pose proof Hj_lt as Hj. pose proof (us_len _ _ _ _ _ _ _ _ Hok) as Hlen.
    constructor.
    - unfold order'. rewrite !list_set_length; rewrite ?list_set_length; lia.
    - intros k Hk. rewrite alive'_iff. unfold is_live. rewrite nth_order' by exact Hk.
      pose proof (us_alive _ _ _ _ _ _ _ _ Hok k Hk) as Ha. unfold is_live in Ha.
      destruct (Nat.eqb_spec k j) as [->|Hkj]; [split; [tauto|discriminate]|].
      destruct (Nat.eqb_spec k i) as [->|Hki]; [tauto|]. tauto.
    - intros k Hk. apply alive'_iff in Hk. apply (us_alive_lt _ _ _ _ _ _ _ _ Hok). tauto.
    - apply nodup_remove. exact (us_nodup _ _ _ _ _ _ _ _ Hok).
    - exact dead'.
    - exact diag'.
    - intros k l Hk Hl Hkl. rewrite (kept k l Hk Hl Hkl). apply alive'_iff in Hk. apply alive'_iff in Hl.
      apply (us_off _ _ _ _ _ _ _ _ Hok); tauto.
    - intros k l Hk Hl. destruct (Nat.eq_dec k l) as [->|Hkl]; [reflexivity|].
      rewrite (kept k l Hk Hl Hkl), (kept l k Hl Hk (not_eq_sym Hkl)). apply alive'_iff in Hk. apply alive'_iff in Hl.
      apply (us_sym _ _ _ _ _ _ _ _ Hok); tauto.
    - intros k l x Hk Hl Hx Hkl Hkx Hlx.
      rewrite (kept k l Hk Hl Hkl), (kept k x Hk Hx Hkx), (kept x l Hx Hl (not_eq_sym Hlx)).
      apply alive'_iff in Hk. apply alive'_iff in Hl. apply alive'_iff in Hx.
      apply (us_ultra _ _ _ _ _ _ _ _ Hok); tauto.
    - intros k Hk. apply alive'_iff in Hk. destruct Hk as [Hk Hkj].
      rewrite node_at' by (try apply (us_alive_lt _ _ _ _ _ _ _ _ Hok); assumption).
      destruct (Nat.eqb_spec k i) as [->|Hki]; [split; [exact new_height|exact new_dists]|].
      exact (us_tree _ _ _ _ _ _ _ _ Hok k Hk).
    - intros k l Hk Hl Hkl x y Hx Hy. rewrite (kept k l Hk Hl Hkl).
      apply alive'_iff in Hk. apply alive'_iff in Hl. destruct Hk as [Hk Hkj]. destruct Hl as [Hl Hlj].
      rewrite node_at' in Hx by (try apply (us_alive_lt _ _ _ _ _ _ _ _ Hok); assumption).
      rewrite node_at' in Hy by (try apply (us_alive_lt _ _ _ _ _ _ _ _ Hok); assumption).
      destruct (Nat.eqb_spec k i) as [->|Hki]; destruct (Nat.eqb_spec l i) as [->|Hli]; try congruence.
      + unfold new in Hx. rewrite merged_names in Hx. apply in_app_or in Hx. destruct Hx as [Hx|Hx].
        * exact (us_between _ _ _ _ _ _ _ _ Hok i l Ii Hl Hkl x y Hx Hy).
        * rewrite (rows_equal l Hl Hli Hlj). exact (us_between _ _ _ _ _ _ _ _ Hok j l Ij Hl (not_eq_sym Hlj) x y Hx Hy).
      + unfold new in Hy. rewrite merged_names in Hy. apply in_app_or in Hy. destruct Hy as [Hy|Hy].
        * exact (us_between _ _ _ _ _ _ _ _ Hok k i Hk Ii Hkl x y Hx Hy).
        * rewrite (us_sym _ _ _ _ _ _ _ _ Hok k i Hk Ii), (rows_equal k Hk Hki Hkj), <- (us_sym _ _ _ _ _ _ _ _ Hok k j Hk Ij).
          exact (us_between _ _ _ _ _ _ _ _ Hok k j Hk Ij Hkj x y Hx Hy).
      + exact (us_between _ _ _ _ _ _ _ _ Hok k l Hk Hl Hkl x y Hx Hy).
    - intros z Hz. destruct (us_tips _ _ _ _ _ _ _ _ Hok z Hz) as (k & Hk & Hin).
      destruct (Nat.eq_dec k j) as [->|Hkj].
      + exists i. split; [apply alive'_iff; split; assumption|].
        rewrite node_at' by assumption. rewrite Nat.eqb_refl. unfold new. rewrite merged_names. apply in_or_app. right. exact Hin.
      + exists k. split; [apply alive'_iff; split; assumption|].
        rewrite node_at' by (try apply (us_alive_lt _ _ _ _ _ _ _ _ Hok); assumption).
        destruct (Nat.eqb_spec k i) as [->|Hki]; [|exact Hin].
        unfold new. rewrite merged_names. apply in_or_app. left. exact Hin.
  Qed.
End UStep.

(** ------------------------------------------------------------------ the loop *)

Section ULoop.
  Variables (orig : Z -> Z -> Q) (n : nat) (large B : Q).
  Hypothesis HB0 : 0 <= B.
  Hypothesis HB : B * pow2 n < large.

  Lemma upgma_step_eq alive c m order :
    ustate_ok orig n large B alive c m order -> (c <= n)%nat -> (2 <= length alive)%nat ->
    let ix := find_smallest_index n m in
    let d := m (fst ix) (snd ix) / 2 in
    let new := UN None None None [set_lengths (node_at order (fst ix)) d; set_lengths (node_at order (snd ix)) d] in
    upgma_step n large (m, order) =
      ((condense_matrix m (fst ix, snd ix) large, list_set (list_set order (fst ix) (Some new)) (snd ix) None), ix)
    /\ ustate_ok orig n large B (remove Nat.eq_dec (snd ix) alive) (S c)
                 (condense_matrix m (fst ix, snd ix) large) (list_set (list_set order (fst ix) (Some new)) (snd ix) None)
    /\ In (fst ix) (remove Nat.eq_dec (snd ix) alive) /\ In (snd ix) alive.
  Proof.
    intros Hok Hc Htwo.
    destruct (select_ok orig n large B alive c m order Hok HB0 HB Hc Htwo) as (Ii & Ij & Hne & Hmin).
    cbv zeta in *. destruct (find_smallest_index n m) as [i j] eqn:Eix. cbn [fst snd] in *.
    split; [|split; [|split]].
    - unfold upgma_step. rewrite Eix. cbn [fst snd].
      destruct (Nat.eqb_spec i j); [contradiction|]. reflexivity.
    - apply ustep_ok; try assumption. apply (large_gt_B n large B); assumption.
    - apply in_remove_iff. split; assumption.
    - exact Ij.
  Qed.

  Lemma upgma_loop_ok : forall k alive c m order last,
    ustate_ok orig n large B alive c m order -> length alive = S k -> (c + S k = n)%nat -> In last alive ->
    exists alive' m' order' last',
      upgma_loop k n large (m, order) last = ((m', order'), last') /\
      ustate_ok orig n large B alive' (c + k) m' order' /\ length alive' = 1%nat /\ In last' alive'.
  Proof.
    induction k as [|k IH]; intros alive c m order last Hok Hlen Hc Hlast.
    - exists alive, m, order, last. cbn [upgma_loop]. rewrite Nat.add_0_r. auto.
    - destruct (upgma_step_eq alive c m order Hok ltac:(lia) ltac:(lia)) as (Estep & Hok' & Hi' & Hj).
      cbn [upgma_loop]. rewrite Estep.
      set (ix := find_smallest_index n m) in *.
      edestruct (IH _ (S c) _ _ (fst ix) Hok') as (alive' & m' & order' & last' & E & Hok'' & Hl & Hin).
      + pose proof (remove_length alive (snd ix) (us_nodup _ _ _ _ _ _ _ _ Hok) Hj). lia.
      + lia.
      + exact Hi'.
      + exists alive', m', order', last'. replace (c + S k)%nat with (S c + k)%nat by lia. auto.
  Qed.
End ULoop.

(** upgma on an ultrametric matrix (entries bounded by B with B * 2^n < large = BIG_NUM): returns a
    tree containing every tip, dated correctly (every tip at the same depth), in which every listed
    tip-to-tip path length is the input distance *)
Theorem upgma_exact n large B (d : qmat) :
  (1 <= n)%nat -> 0 <= B -> B * pow2 n < large ->
  (forall k l, (k < n)%nat -> (l < n)%nat -> d k l == d l k) ->
  (forall k, (k < n)%nat -> d k k == 0) ->
  (forall k l, (k < n)%nat -> (l < n)%nat -> k <> l -> 0 <= d k l /\ d k l <= B) ->
  (forall k l x, (k < n)%nat -> (l < n)%nat -> (x < n)%nat -> k <> l -> k <> x -> l <> x -> d k l <= Qmax (d k x) (d x l)) ->
  exists T, upgma n large d = Some T /\
    udists_ok (fun x y => d (Z.to_nat x) (Z.to_nat y)) T /\
    (exists h, height_ok T h) /\
    (forall z, (z < n)%nat -> In (Z.of_nat z) (unames T)).
Proof.
  intros Hn HB0 HB Hsym Hdiag Hoff Hultra.
  set (orig := fun x y : Z => d (Z.to_nat x) (Z.to_nat y)).
  set (m0 := fun k l : nat => if Nat.eqb k l then d k l + large else d k l).
  set (order0 := map (fun k => Some (UN (Some (Z.of_nat k)) None None [])) (seq 0 n)).
  assert (Hnth : forall k, (k < n)%nat -> nth k order0 None = Some (UN (Some (Z.of_nat k)) None None [])).
  { intros k Hk. unfold order0.
    rewrite (nth_indep _ None (Some (UN (Some (Z.of_nat 0)) None None []))) by (rewrite map_length, seq_length; exact Hk).
    rewrite (map_nth (fun k => Some (UN (Some (Z.of_nat k)) None None [])) (seq 0 n) 0%nat k). rewrite seq_nth by exact Hk. reflexivity. }
  assert (Hnode : forall k, (k < n)%nat -> node_at order0 k = UN (Some (Z.of_nat k)) None None []).
  { intros k Hk. unfold node_at. rewrite Hnth by exact Hk. reflexivity. }
  assert (Hin : forall k, In k (seq 0 n) <-> (k < n)%nat) by (intros k; rewrite in_seq; lia).
  assert (Hok0 : ustate_ok orig n large B (seq 0 n) 0 m0 order0).
  { constructor.
    - unfold order0. rewrite map_length, seq_length. reflexivity.
    - intros k Hk. unfold is_live. rewrite Hnth by exact Hk. rewrite Hin. tauto.
    - intros k Hk. apply Hin. exact Hk.
    - apply seq_NoDup.
    - intros k l Hk Hl [H|H]; exfalso; apply H; apply Hin; assumption.
    - intros k Hk. apply Hin in Hk. unfold m0. rewrite Nat.eqb_refl. rewrite (Hdiag k Hk).
      change (pow2 0) with 1. lra.
    - intros k l Hk Hl Hkl. apply Hin in Hk. apply Hin in Hl. unfold m0. destruct (Nat.eqb_spec k l); [contradiction|]. apply Hoff; assumption.
    - intros k l Hk Hl. apply Hin in Hk. apply Hin in Hl. unfold m0. rewrite (Nat.eqb_sym l k).
      destruct (Nat.eqb_spec k l) as [->|Hkl]; [reflexivity|]. apply Hsym; assumption.
    - intros k l x Hk Hl Hx Hkl Hkx Hlx. apply Hin in Hk. apply Hin in Hl. apply Hin in Hx. unfold m0.
      destruct (Nat.eqb_spec k l); [contradiction|]. destruct (Nat.eqb_spec k x); [contradiction|].
      destruct (Nat.eqb_spec x l); [congruence|]. apply Hultra; assumption.
    - intros k Hk. apply Hin in Hk. rewrite Hnode by exact Hk. split; [exists 0; reflexivity|constructor].
    - intros k l Hk Hl Hkl x y Hx Hy. apply Hin in Hk. apply Hin in Hl. rewrite Hnode in Hx, Hy by assumption.
      cbn in Hx, Hy. destruct Hx as [<-|[]]. destruct Hy as [<-|[]]. unfold orig, m0. rewrite !Nat2Z.id.
      destruct (Nat.eqb_spec k l); [contradiction|]. reflexivity.
    - intros z Hz. exists z. split; [apply Hin; exact Hz|]. rewrite Hnode by exact Hz. left. reflexivity. }
  destruct (upgma_loop_ok orig n large B HB0 HB (n - 1) (seq 0 n) 0 m0 order0 0%nat Hok0) as (alive' & m' & order' & last' & E & Hok' & Hl & Hlast).
  { rewrite seq_length. lia. } { lia. } { apply Hin. lia. }
  unfold upgma. fold m0. fold order0. rewrite E.
  pose proof (us_alive_lt _ _ _ _ _ _ _ _ Hok' last' Hlast) as Hlt.
  pose proof (proj1 (us_alive _ _ _ _ _ _ _ _ Hok' last' Hlt) Hlast) as Hlive. unfold is_live in Hlive.
  destruct (nth last' order' None) as [T|] eqn:ET; [|discriminate].
  assert (ENode : node_at order' last' = T) by (unfold node_at; rewrite ET; reflexivity).
  exists T. split; [reflexivity|].
  destruct (us_tree _ _ _ _ _ _ _ _ Hok' last' Hlast) as [Hh Hd]. rewrite ENode in Hh, Hd.
  split; [exact Hd|]. split; [exact Hh|].
  intros z Hz. destruct (us_tips _ _ _ _ _ _ _ _ Hok' z Hz) as (k & Hk & Hzin).
  destruct alive' as [|a [|b r]]; try discriminate Hl.
  destruct Hk as [<-|[]]. destruct Hlast as [<-|[]]. rewrite ENode in Hzin. exact Hzin.
Qed.

(** non-vacuity: the three-tip ultrametric matrix of NJProofs, BIG_NUM replaced by 1000 *)
Example ex_ultra_upgma :
  exists T, upgma 3 1000 ex_ultra = Some T /\ udists_ok (fun x y => ex_ultra (Z.to_nat x) (Z.to_nat y)) T.
Proof.
  destruct (upgma_exact 3 1000 6 ex_ultra) as (T & E & H & _).
  - lia.
  - discriminate.
  - reflexivity.
  - intros k l Hk Hl. destruct k as [|[|[|k]]]; destruct l as [|[|[|l]]]; try lia; reflexivity.
  - intros k Hk. destruct k as [|[|[|k]]]; try lia; reflexivity.
  - intros k l Hk Hl Hkl. destruct k as [|[|[|k]]]; destruct l as [|[|[|l]]]; try lia; split; discriminate.
  - intros k l x Hk Hl Hx Hkl Hkx Hlx.
    destruct k as [|[|[|k]]]; destruct l as [|[|[|l]]]; destruct x as [|[|[|x]]]; try lia; vm_compute; discriminate.
  - exists T. auto.
Qed.

(** ------------------------------------------------------------------ every pair of tips of a UPGMA tree is listed *)

Section UInd.
  Variable P : unode -> Prop.
  Hypothesis Hnode : forall nm len tl cs, Forall P cs -> P (UN nm len tl cs).
  Fixpoint unode_ind' (t : unode) : P t :=
    match t with
    | UN nm len tl cs =>
        Hnode nm len tl cs ((fix go (cs : list unode) : Forall P cs :=
                               match cs with
                               | [] => Forall_nil _
                               | c :: r => Forall_cons c (unode_ind' c) (go r)
                               end) cs)
    end.
End UInd.

Definition ucd (c : unode) : list (Z * Q) :=
  map (fun nd => (fst nd, snd nd + olen (match c with UN _ l _ _ => l end))) (u_tip_depths c).

Lemma unames_node nm len tl c0 cs :
  unames (UN nm len tl (c0 :: cs)) = flat_map unames (c0 :: cs).
Proof.
  unfold unames. cbn [u_tip_depths]. generalize (c0 :: cs). intros l.
  induction l as [|c r IH]; [reflexivity|]. cbn [flat_map]. rewrite map_app, IH. f_equal. rewrite map_map. reflexivity.
Qed.

Lemma u_tip_dists_node nm len tl cs :
  u_tip_dists (UN nm len tl cs) = flat_map u_tip_dists cs ++ cross_all (map ucd cs).
Proof. reflexivity. Qed.

Lemma in_unames_ucd x c : In x (unames c) -> exists nd, In nd (ucd c) /\ fst nd = x.
Proof.
  unfold unames, ucd. intros H. apply in_map_iff in H. destruct H as (nd & <- & H).
  eexists (fst nd, _). split; [|reflexivity]. apply in_map_iff. exists nd. split; [reflexivity|exact H].
Qed.

Lemma in_cross_intro' (a b : list (Z * Q)) u v : In u a -> In v b -> In (fst u, fst v, snd u + snd v) (cross a b).
Proof.
  intros Hu Hv. unfold cross. apply in_flat_map. exists u. split; [exact Hu|].
  apply in_map_iff. exists v. auto.
Qed.

Definition ulisted (T : list (Z * Z * Q)) (x y : Z) : Prop := exists q, In (x, y, q) T \/ In (y, x, q) T.

Lemma upairs_complete : forall T x y, In x (unames T) -> In y (unames T) -> x <> y -> ulisted (u_tip_dists T) x y.
Proof.
  induction T as [nm len tl cs IH] using unode_ind'; intros x y Hx Hy Hxy.
  destruct cs as [|c0 cs0].
  - cbn in Hx, Hy. destruct Hx as [<-|[]]. destruct Hy as [<-|[]]. congruence.
  - rewrite unames_node in Hx, Hy. rewrite u_tip_dists_node.
    revert x y Hx Hy Hxy. generalize dependent (c0 :: cs0). intros cs IH.
    induction cs as [|c r IHr]; intros x y Hx Hy Hxy; [destruct Hx|].
    inversion IH as [|? ? IHc IHrest]; subst. specialize (IHr IHrest).
    cbn [flat_map map cross_all] in *.
    apply in_app_or in Hx. apply in_app_or in Hy.
    destruct Hx as [Hx|Hx]; destruct Hy as [Hy|Hy].
    + destruct (IHc x y Hx Hy Hxy) as (q & [H|H]); exists q; [left|right]; apply in_or_app; left; apply in_or_app; left; exact H.
    + apply in_flat_map in Hy. destruct Hy as (c' & Hin & Hy).
      destruct (in_unames_ucd x c Hx) as (u & Hu & <-). destruct (in_unames_ucd y c' Hy) as (v & Hv & <-).
      exists (snd u + snd v). left. apply in_or_app. right. apply in_or_app. left.
      apply in_flat_map. exists (ucd c'). split; [apply in_map; exact Hin|]. apply in_cross_intro'; assumption.
    + apply in_flat_map in Hx. destruct Hx as (c' & Hin & Hx).
      destruct (in_unames_ucd y c Hy) as (u & Hu & <-). destruct (in_unames_ucd x c' Hx) as (v & Hv & <-).
      exists (snd u + snd v). right. apply in_or_app. right. apply in_or_app. left.
      apply in_flat_map. exists (ucd c'). split; [apply in_map; exact Hin|]. apply in_cross_intro'; assumption.
    + destruct (IHr x y Hx Hy Hxy) as (q & [H|H]); exists q; [left|right];
        (apply in_app_or in H; destruct H as [H|H]; apply in_or_app;
         [left; apply in_or_app; right; exact H | right; apply in_or_app; right; exact H]).
Qed.

(** the whole-algorithm statement with completeness: every pair of input tips is listed in the
    UPGMA tree with a path length equal to the input distance *)
Theorem upgma_exact_complete n large B (d : qmat) :
  (1 <= n)%nat -> 0 <= B -> B * pow2 n < large ->
  (forall k l, (k < n)%nat -> (l < n)%nat -> d k l == d l k) ->
  (forall k, (k < n)%nat -> d k k == 0) ->
  (forall k l, (k < n)%nat -> (l < n)%nat -> k <> l -> 0 <= d k l /\ d k l <= B) ->
  (forall k l x, (k < n)%nat -> (l < n)%nat -> (x < n)%nat -> k <> l -> k <> x -> l <> x -> d k l <= Qmax (d k x) (d x l)) ->
  exists T, upgma n large d = Some T /\
    (exists h, height_ok T h) /\
    (forall x y, (x < n)%nat -> (y < n)%nat -> x <> y ->
       exists q, (In (Z.of_nat x, Z.of_nat y, q) (u_tip_dists T) \/ In (Z.of_nat y, Z.of_nat x, q) (u_tip_dists T)) /\ q == d x y) /\
    (forall x y q, In (x, y, q) (u_tip_dists T) -> q == d (Z.to_nat x) (Z.to_nat y)).
Proof.
  intros Hn HB0 HB Hsym Hdiag Hoff Hultra.
  destruct (upgma_exact n large B d Hn HB0 HB Hsym Hdiag Hoff Hultra) as (T & E & Hd & Hh & Htips).
  exists T. split; [exact E|]. split; [exact Hh|].
  assert (Hall : forall x y q, In (x, y, q) (u_tip_dists T) -> q == d (Z.to_nat x) (Z.to_nat y)).
  { intros x y q Hin. unfold udists_ok in Hd. rewrite Forall_forall in Hd. exact (Hd _ Hin). }
  split; [|exact Hall].
  intros x y Hx Hy Hxy.
  destruct (upairs_complete T _ _ (Htips x Hx) (Htips y Hy) ltac:(lia)) as (q & Hq).
  exists q. split; [exact Hq|].
  destruct Hq as [Hq|Hq]; rewrite (Hall _ _ _ Hq); rewrite !Nat2Z.id; [reflexivity|apply Hsym; assumption].
Qed.
