(** C09 — proofs about the tree specification ([Spec/TreeSpec.v]) and the
    tree-transformation model ([Model/Tree.v]): the path length is a
    pseudo-metric; re-rooting, sorting and the repaired [unrooted] preserve
    the tip set and every tip-to-tip path length; the current [unrooted]
    does not. *)
From Coq Require Import Permutation.
From CG3 Require Import Lib.PyZ Lib.Val Lib.Rose Model.Tree Spec.TreeSpec.

(* ------------------------------------------------------------------ small facts *)

Lemma sep_sym c a b : sep c a b = sep c b a.
Proof. unfold sep. apply xorb_comm. Qed.

Lemma sep_diag c a : sep c a a = false.
Proof. unfold sep. apply xorb_nilpotent. Qed.

Lemma edge_w_sym dflt c a b : edge_w dflt c a b = edge_w dflt c b a.
Proof. unfold edge_w. rewrite sep_sym. reflexivity. Qed.

Lemma edge_w_diag dflt c a : edge_w dflt c a a = 0.
Proof. unfold edge_w. rewrite sep_diag. reflexivity. Qed.

Lemma clen_node dflt n l cs : clen dflt (Node n l cs) = match l with Some z => z | None => dflt end.
Proof. reflexivity. Qed.

Lemma zsum_map_add {A} (f g : A -> Z) l :
  zsum (map (fun x => f x + g x) l) = zsum (map f l) + zsum (map g l).
Proof. induction l as [|x l IH]; simpl; [reflexivity|]. rewrite IH. lia. Qed.

Lemma zsum_map_zero {A} (f : A -> Z) l :
  Forall (fun x => f x = 0) l -> zsum (map f l) = 0.
Proof. induction 1 as [|x l Hx _ IH]; simpl; [reflexivity|]. rewrite Hx, IH. reflexivity. Qed.

(* ------------------------------------------------------------------ (1) distance axioms *)

Lemma pathlen_sym dflt t a b : pathlen dflt t a b = pathlen dflt t b a.
Proof.
  induction t as [n l cs IH] using tree_ind'.
  cbn [pathlen]. apply zsum_map_ext.
  eapply Forall_impl; [|exact IH]. intros c Hc. cbn beta.
  rewrite Hc, edge_w_sym. reflexivity.
Qed.

Lemma pathlen_diag dflt t a : pathlen dflt t a a = 0.
Proof.
  induction t as [n l cs IH] using tree_ind'.
  cbn [pathlen]. apply zsum_map_zero.
  eapply Forall_impl; [|exact IH]. intros c Hc. cbn beta.
  rewrite Hc, edge_w_diag. reflexivity.
Qed.

(** every edge weight (with [dflt] for a missing length) is non-negative *)
Fixpoint wnonneg (dflt : Z) (t : tree) : Prop :=
  match t with
  | Node _ _ cs =>
      (fix go (l : list tree) : Prop :=
         match l with
         | [] => True
         | c :: r => 0 <= clen dflt c /\ wnonneg dflt c /\ go r
         end) cs
  end.

Lemma wnonneg_node dflt n l cs :
  wnonneg dflt (Node n l cs) <-> Forall (fun c => 0 <= clen dflt c /\ wnonneg dflt c) cs.
Proof.
  cbn [wnonneg]. induction cs as [|c cs IH].
  - split; intros _; [constructor|exact I].
  - split.
    + intros (H1 & H2 & H3). constructor; [split; assumption|]. apply IH. exact H3.
    + intros H. inversion H as [|? ? (H1 & H2) H3]; subst.
      split; [exact H1|]. split; [exact H2|]. apply IH. exact H3.
Qed.

Lemma edge_w_nonneg dflt c a b : 0 <= clen dflt c -> 0 <= edge_w dflt c a b.
Proof. intros H. unfold edge_w. destruct (sep c a b); lia. Qed.

Lemma edge_w_triangle dflt c x y z :
  0 <= clen dflt c -> edge_w dflt c x z <= edge_w dflt c x y + edge_w dflt c y z.
Proof.
  intros H. unfold edge_w, sep.
  destruct (memb x (tips c)), (memb y (tips c)), (memb z (tips c)); simpl; lia.
Qed.

Lemma pathlen_nonneg dflt t a b : wnonneg dflt t -> 0 <= pathlen dflt t a b.
Proof.
  induction t as [n l cs IH] using tree_ind'. intros HW.
  apply wnonneg_node in HW. cbn [pathlen]. apply zsum_nonneg.
  apply Forall_map.
  induction cs as [|c cs IHcs]; [constructor|].
  inversion IH as [|? ? Hc IH']; subst.
  inversion HW as [|? ? (Hl & Hw) HW']; subst.
  constructor.
  - pose proof (edge_w_nonneg dflt c a b Hl). specialize (Hc Hw). lia.
  - apply IHcs; assumption.
Qed.

Lemma pathlen_triangle dflt t a b c :
  wnonneg dflt t -> pathlen dflt t a c <= pathlen dflt t a b + pathlen dflt t b c.
Proof.
  induction t as [n l cs IH] using tree_ind'. intros HW.
  apply wnonneg_node in HW. cbn [pathlen].
  rewrite <- zsum_map_add. apply zsum_map_le.
  induction cs as [|k cs IHcs]; [constructor|].
  inversion IH as [|? ? Hk IH']; subst.
  inversion HW as [|? ? (Hl & Hw) HW']; subst.
  constructor.
  - pose proof (edge_w_triangle dflt k a b c Hl). specialize (Hk Hw). lia.
  - apply IHcs; assumption.
Qed.

Lemma lens_ok_wnonneg P dflt t :
  (forall z, P z = true -> 0 <= z) -> lens_ok P t = true -> wnonneg dflt t.
Proof.
  intros HP. induction t as [n l cs IH] using tree_ind'. intros HL.
  apply wnonneg_node. cbn [lens_ok] in HL. rewrite forallb_forall in HL.
  rewrite Forall_forall in IH. apply Forall_forall. intros c Hc.
  specialize (HL c Hc). apply andb_true_iff in HL. destruct HL as [H1 H2].
  split; [|apply IH; assumption].
  unfold clen. destruct (tlen c) as [z|]; [apply HP; exact H1|discriminate].
Qed.

Lemma nonneg_lens_wnonneg_gen dflt t : nonneg_lens t = true -> wnonneg dflt t.
Proof. apply lens_ok_wnonneg. intros z Hz. apply Z.leb_le. exact Hz. Qed.

Lemma nonneg_lens_wnonneg t : nonneg_lens t = true -> wnonneg 1 t.
Proof. apply nonneg_lens_wnonneg_gen. Qed.

Lemma pos_lens_wnonneg dflt t : pos_lens t = true -> wnonneg dflt t.
Proof. apply lens_ok_wnonneg. intros z Hz. apply Z.ltb_lt in Hz. lia. Qed.
