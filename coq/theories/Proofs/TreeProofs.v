(** C09 — proofs about the tree specification ([Spec/TreeSpec.v]) and the
    tree-transformation model ([Model/Tree.v]): the path length is a
    pseudo-metric; re-rooting, sorting and the repaired [unrooted] preserve
    the tip set and every tip-to-tip path length; the current [unrooted]
    does not. *)
From Coq Require Import Permutation.
From CG3 Require Import Lib.PyZ Lib.Val Lib.Rose Model.Tree Spec.TreeSpec.

(* ------------------------------------------------------------------ small facts *)

Lemma sep_sym c a b : sep c a b = sep c b a.
Proof. unfold sep. apply xorb_comm. Qed.

Lemma sep_diag c a : sep c a a = false.
Proof. unfold sep. apply xorb_nilpotent. Qed.

Lemma edge_w_sym dflt c a b : edge_w dflt c a b = edge_w dflt c b a.
Proof. unfold edge_w. rewrite sep_sym. reflexivity. Qed.

Lemma edge_w_diag dflt c a : edge_w dflt c a a = 0.
Proof. unfold edge_w. rewrite sep_diag. reflexivity. Qed.

Lemma clen_node dflt n l cs : clen dflt (Node n l cs) = match l with Some z => z | None => dflt end.
Proof. reflexivity. Qed.

Lemma zsum_map_add {A} (f g : A -> Z) l :
  zsum (map (fun x => f x + g x) l) = zsum (map f l) + zsum (map g l).
Proof. induction l as [|x l IH]; simpl; [reflexivity|]. rewrite IH. lia. Qed.

Lemma zsum_map_zero {A} (f : A -> Z) l :
  Forall (fun x => f x = 0) l -> zsum (map f l) = 0.
Proof. induction 1 as [|x l Hx _ IH]; simpl; [reflexivity|]. rewrite Hx, IH. reflexivity. Qed.

(* ------------------------------------------------------------------ (1) pseudo-metric laws *)

Lemma pathlen_sym dflt t a b : pathlen dflt t a b = pathlen dflt t b a.
Proof.
  induction t as [n l cs IH] using tree_ind'.
  cbn [pathlen]. apply zsum_map_ext.
  eapply Forall_impl; [|exact IH]. intros c Hc. cbn beta.
  rewrite Hc, edge_w_sym. reflexivity.
Qed.

Lemma pathlen_diag dflt t a : pathlen dflt t a a = 0.
Proof.
  induction t as [n l cs IH] using tree_ind'.
  cbn [pathlen]. apply zsum_map_zero.
  eapply Forall_impl; [|exact IH]. intros c Hc. cbn beta.
  rewrite Hc, edge_w_diag. reflexivity.
Qed.

(** every edge weight (with [dflt] for a missing length) is non-negative *)
Fixpoint wnonneg (dflt : Z) (t : tree) : Prop :=
  match t with
  | Node _ _ cs =>
      (fix go (l : list tree) : Prop :=
         match l with
         | [] => True
         | c :: r => 0 <= clen dflt c /\ wnonneg dflt c /\ go r
         end) cs
  end.

Lemma wnonneg_node dflt n l cs :
  wnonneg dflt (Node n l cs) <-> Forall (fun c => 0 <= clen dflt c /\ wnonneg dflt c) cs.
Proof.
  cbn [wnonneg]. induction cs as [|c cs IH].
  - split; intros _; [constructor|exact I].
  - split.
    + intros (H1 & H2 & H3). constructor; [split; assumption|]. apply IH. exact H3.
    + intros H. inversion H as [|? ? (H1 & H2) H3]; subst.
      split; [exact H1|]. split; [exact H2|]. apply IH. exact H3.
Qed.

Lemma edge_w_nonneg dflt c a b : 0 <= clen dflt c -> 0 <= edge_w dflt c a b.
Proof. intros H. unfold edge_w. destruct (sep c a b); lia. Qed.

Lemma edge_w_triangle dflt c x y z :
  0 <= clen dflt c -> edge_w dflt c x z <= edge_w dflt c x y + edge_w dflt c y z.
Proof.
  intros H. unfold edge_w, sep.
  destruct (memb x (tips c)), (memb y (tips c)), (memb z (tips c)); simpl; lia.
Qed.

Lemma pathlen_nonneg dflt t a b : wnonneg dflt t -> 0 <= pathlen dflt t a b.
Proof.
  induction t as [n l cs IH] using tree_ind'. intros HW.
  apply wnonneg_node in HW. cbn [pathlen]. apply zsum_nonneg.
  apply Forall_map.
  induction cs as [|c cs IHcs]; [constructor|].
  inversion IH as [|? ? Hc IH']; subst.
  inversion HW as [|? ? (Hl & Hw) HW']; subst.
  constructor.
  - pose proof (edge_w_nonneg dflt c a b Hl). specialize (Hc Hw). lia.
  - apply IHcs; assumption.
Qed.

Lemma pathlen_triangle dflt t a b c :
  wnonneg dflt t -> pathlen dflt t a c <= pathlen dflt t a b + pathlen dflt t b c.
Proof.
  induction t as [n l cs IH] using tree_ind'. intros HW.
  apply wnonneg_node in HW. cbn [pathlen].
  rewrite <- zsum_map_add. apply zsum_map_le.
  induction cs as [|k cs IHcs]; [constructor|].
  inversion IH as [|? ? Hk IH']; subst.
  inversion HW as [|? ? (Hl & Hw) HW']; subst.
  constructor.
  - pose proof (edge_w_triangle dflt k a b c Hl). specialize (Hk Hw). lia.
  - apply IHcs; assumption.
Qed.

Lemma lens_ok_wnonneg P dflt t :
  (forall z, P z = true -> 0 <= z) -> lens_ok P t = true -> wnonneg dflt t.
Proof.
  intros HP. induction t as [n l cs IH] using tree_ind'. intros HL.
  apply wnonneg_node. cbn [lens_ok] in HL. rewrite forallb_forall in HL.
  rewrite Forall_forall in IH. apply Forall_forall. intros c Hc.
  specialize (HL c Hc). apply andb_true_iff in HL. destruct HL as [H1 H2].
  split; [|apply IH; assumption].
  unfold clen. destruct (tlen c) as [z|]; [apply HP; exact H1|discriminate].
Qed.

Lemma nonneg_lens_wnonneg_gen dflt t : nonneg_lens t = true -> wnonneg dflt t.
Proof. apply lens_ok_wnonneg. intros z Hz. apply Z.leb_le. exact Hz. Qed.

Lemma nonneg_lens_wnonneg t : nonneg_lens t = true -> wnonneg 1 t.
Proof. apply nonneg_lens_wnonneg_gen. Qed.

Lemma pos_lens_wnonneg dflt t : pos_lens t = true -> wnonneg dflt t.
Proof. apply lens_ok_wnonneg. intros z Hz. apply Z.ltb_lt in Hz. lia. Qed.

(* ------------------------------------------------------------------ (2) re-rooting *)

(** the converted parent, as a list of zero or one trees *)
Definition upl (t : tree) (ctx : option (list tree)) : list tree :=
  match ctx with
  | None => []
  | Some ks => [Node (tname t) (tlen t) ks]
  end.

Lemma reroot_go_nil t ctx :
  reroot_go t [] ctx = Some (Node root_name None (kids t ++ upl t ctx)).
Proof. reflexivity. Qed.

Lemma reroot_go_cons t i rest ctx :
  reroot_go t (i :: rest) ctx =
  match nth_error (kids t) i with
  | None => None
  | Some c => reroot_go c rest (Some (remove_nth i (kids t) ++ upl t ctx))
  end.
Proof. reflexivity. Qed.

Lemma tips_kids t : kids t <> [] -> tips t = tips_of (kids t).
Proof. destruct t as [n l cs]. apply tips_node. Qed.

Lemma subtree_at_kids p : forall t x,
  subtree_at t p = Some x -> kids x <> [] -> kids t <> [].
Proof.
  destruct p as [|i p]; intros t x H Hx; cbn [subtree_at] in H.
  - inversion H; subst. exact Hx.
  - destruct (kids t) as [|k ks]; [|discriminate].
    destruct i; discriminate.
Qed.

Lemma tips_of_upl_some c ks : ks <> [] -> tips_of (upl c (Some ks)) = tips_of ks.
Proof.
  intros H. cbn [upl]. rewrite tips_of_cons, (tips_node _ _ _ H).
  change (tips_of []) with (@nil name). apply app_nil_r.
Qed.

Lemma edge_w_up dflt a b c ks :
  ks <> [] ->
  NoDup (tips c ++ tips_of ks) -> In a (tips c ++ tips_of ks) -> In b (tips c ++ tips_of ks) ->
  edge_w dflt (Node (tname c) (tlen c) ks) a b = edge_w dflt c a b.
Proof.
  intros Hks HN Ha Hb. unfold edge_w.
  assert (Hs : sep (Node (tname c) (tlen c) ks) a b = sep c a b).
  { unfold sep. rewrite (tips_node _ _ _ Hks). symmetry. apply xor_sides; assumption. }
  rewrite Hs. reflexivity.
Qed.

Lemma reroot_inv dflt a b : forall path t ctx x r,
  subtree_at t path = Some x -> kids x <> [] ->
  (forall ks, ctx = Some ks -> ks <> []) ->
  (ctx = None -> path <> [] -> (2 <= length (kids t))%nat) ->
  NoDup (tips t ++ tips_of (upl t ctx)) ->
  In a (tips t ++ tips_of (upl t ctx)) ->
  In b (tips t ++ tips_of (upl t ctx)) ->
  reroot_go t path ctx = Some r ->
  Permutation (tips r) (tips t ++ tips_of (upl t ctx)) /\
  pathlen dflt r a b = pathlen dflt t a b + contribs dflt a b (upl t ctx).
Proof.
  induction path as [|i rest IH]; intros t ctx x r Hsub Hx Hctx Hroot HN Ha Hb Hgo.
  - cbn [subtree_at] in Hsub. inversion Hsub; subst x. clear Hsub.
    rewrite reroot_go_nil in Hgo. inversion Hgo; subst r. clear Hgo.
    assert (Hne : kids t ++ upl t ctx <> []).
    { intros E. apply app_eq_nil in E. tauto. }
    split.
    + rewrite (tips_node _ _ _ Hne), tips_of_app, <- (tips_kids t Hx). reflexivity.
    + rewrite pathlen_node, contribs_app. destruct t as [n l cs]. reflexivity.
  - rewrite reroot_go_cons in Hgo. cbn [subtree_at] in Hsub.
    destruct (nth_error (kids t) i) as [c|] eqn:Hnth; [|discriminate].
    pose proof (remove_nth_perm _ _ _ Hnth) as HP.
    set (rm := remove_nth i (kids t)) in *.
    pose proof (subtree_at_kids _ _ _ Hsub Hx) as Hkc.
    assert (Hkt : kids t <> []).
    { intros E. rewrite E in Hnth. destruct i; discriminate. }
    set (ks' := rm ++ upl t ctx) in *.
    assert (Hks' : ks' <> []).
    { unfold ks'. intros E. apply app_eq_nil in E. destruct E as [E1 E2].
      destruct ctx as [ks|]; [discriminate|].
      assert (Hi : i :: rest <> []) by discriminate.
      specialize (Hroot eq_refl Hi).
      apply Permutation_length in HP. rewrite E1 in HP. simpl in HP. lia. }
    (* the universe is the same *)
    assert (HU : Permutation (tips t ++ tips_of (upl t ctx))
                             (tips c ++ tips_of (upl c (Some ks')))).
    { rewrite (tips_of_upl_some c ks' Hks'). unfold ks'. rewrite tips_of_app, app_assoc.
      apply Permutation_app_tail. rewrite (tips_kids t Hkt).
      apply (tips_of_perm _ _ HP). }
    assert (HN' : NoDup (tips c ++ tips_of (upl c (Some ks')))).
    { eapply Permutation_NoDup; [exact HU|exact HN]. }
    assert (Ha' : In a (tips c ++ tips_of (upl c (Some ks')))).
    { eapply Permutation_in; [exact HU|exact Ha]. }
    assert (Hb' : In b (tips c ++ tips_of (upl c (Some ks')))).
    { eapply Permutation_in; [exact HU|exact Hb]. }
    assert (Hctx' : forall ks, Some ks' = Some ks -> ks <> []).
    { intros ks E. inversion E; subst. exact Hks'. }
    assert (Hroot' : Some ks' = None -> rest <> [] -> (2 <= length (kids c))%nat).
    { intros E. discriminate. }
    destruct (IH c (Some ks') x r Hsub Hx Hctx' Hroot' HN' Ha' Hb' Hgo) as [HPr HLr].
    split.
    + etransitivity; [exact HPr|]. symmetry. exact HU.
    + rewrite HLr. cbn [upl]. rewrite contribs_cons.
      unfold contrib at 1. rewrite pathlen_node.
      assert (HE : edge_w dflt (Node (tname c) (tlen c) ks') a b = edge_w dflt c a b).
      { apply edge_w_up; [exact Hks'| | |].
        - rewrite (tips_of_upl_some c ks' Hks') in HN'. exact HN'.
        - rewrite (tips_of_upl_some c ks' Hks') in Ha'. exact Ha'.
        - rewrite (tips_of_upl_some c ks' Hks') in Hb'. exact Hb'. }
      rewrite HE. unfold ks'. rewrite contribs_app.
      assert (Hpt : pathlen dflt t a b = contrib dflt a b c + contribs dflt a b rm).
      { destruct t as [n l cs]. rewrite pathlen_node. cbn [kids] in HP.
        rewrite (contribs_perm _ _ _ _ _ HP). apply contribs_cons. }
      rewrite Hpt. unfold contrib. change (contribs dflt a b []) with 0. lia.
Qed.

(** The node re-rooted at must not be a tip: re-rooting AT a tip loses it
    ((A,B) re-rooted at A gives (B)A).  When the old root has a single child
    and the new root is below it, the old root becomes a new tip, hence the
    arity hypothesis. *)
Theorem reroot_preserves_strong : forall dflt t path x r a b,
  subtree_at t path = Some x -> kids x <> [] ->
  ((2 <= length (kids t))%nat \/ path = []) ->
  NoDup (tips t) -> In a (tips t) -> In b (tips t) ->
  reroot_go t path None = Some r ->
  Permutation (tips r) (tips t) /\ pathlen dflt r a b = pathlen dflt t a b.
Proof.
  intros dflt t path x r a b Hsub Hx Hroot HN Ha Hb Hgo.
  assert (HU : tips t ++ tips_of (upl t None) = tips t).
  { cbn [upl]. change (tips_of []) with (@nil name). apply app_nil_r. }
  destruct (reroot_inv dflt a b path t None x r Hsub Hx) as [HP HL].
  - intros ks E. discriminate.
  - intros _ Hp. destruct Hroot as [H2|Hnil]; [exact H2|contradiction].
  - rewrite HU. exact HN.
  - rewrite HU. exact Ha.
  - rewrite HU. exact Hb.
  - exact Hgo.
  - rewrite HU in HP. split; [exact HP|].
    rewrite HL. cbn [upl]. change (contribs dflt a b []) with 0. lia.
Qed.

Theorem reroot_preserves : forall dflt t path x r a b,
  subtree_at t path = Some x -> kids x <> [] ->
  ((2 <= length (kids t))%nat \/ (path = [] /\ kids t <> [])) ->
  NoDup (tips t) -> In a (tips t) -> In b (tips t) ->
  reroot_go t path None = Some r ->
  Permutation (tips r) (tips t) /\ pathlen dflt r a b = pathlen dflt t a b.
Proof.
  intros dflt t path x r a b Hsub Hx Hroot.
  apply (reroot_preserves_strong dflt t path x r a b Hsub Hx).
  destruct Hroot as [H2|[Hnil _]]; [left; exact H2|right; exact Hnil].
Qed.

(** [find_path] returns the path of a node of the tree with that name *)
Lemma find_path_sound nm t : forall p,
  find_path nm t = Some p -> exists y, subtree_at t p = Some y /\ tname y = nm.
Proof.
  induction t as [n l cs IH] using tree_ind'. intros p. cbn [find_path].
  destruct (str_eqb n nm) eqn:En.
  - intros E. inversion E; subst p. exists (Node n l cs). split; [reflexivity|].
    apply str_eqb_eq. exact En.
  - assert (Hgo : forall i p,
      (fix go (i : nat) (l0 : list tree) {struct l0} : option (list nat) :=
         match l0 with
         | [] => None
         | c :: r => match find_path nm c with
                     | Some p0 => Some (i :: p0)
                     | None => go (S i) r
                     end
         end) i cs = Some p ->
      exists j q c y, p = (i + j)%nat :: q /\ nth_error cs j = Some c /\
                      subtree_at c q = Some y /\ tname y = nm).
    { induction cs as [|c cs IHcs]; intros i p0 E; [discriminate|].
      inversion IH as [|? ? Hc IH']; subst.
      destruct (find_path nm c) as [q|] eqn:Ef.
      - inversion E; subst p0. destruct (Hc q eq_refl) as (y & Hy1 & Hy2).
        exists O, q, c, y. rewrite Nat.add_0_r. repeat split; assumption.
      - destruct (IHcs IH' (S i) p0 E) as (j & q & k & y & Hp & Hn & Hs & Hnm).
        exists (S j), q, k, y. rewrite Nat.add_succ_r. repeat split; assumption. }
    intros E. destruct (Hgo O p E) as (j & q & c & y & Hp & Hn & Hs & Hnm).
    subst p. exists y. split; [|exact Hnm].
    cbn [subtree_at kids Nat.add]. rewrite Hn. exact Hs.
Qed.

Lemma subtree_at_removelast : forall p t y,
  subtree_at t p = Some y -> p <> [] ->
  exists x, subtree_at t (removelast p) = Some x /\ kids x <> [].
Proof.
  induction p as [|i p IH]; intros t y Hs Hp; [contradiction|].
  destruct p as [|j p].
  - exists t. split; [reflexivity|]. cbn [subtree_at] in Hs.
    intros E. rewrite E in Hs. destruct i; discriminate.
  - change (removelast (i :: j :: p)) with (i :: removelast (j :: p)).
    cbn [subtree_at] in Hs |- *.
    destruct (nth_error (kids t) i) as [c|]; [|discriminate].
    apply (IH c y Hs). discriminate.
Qed.

Theorem rooted_at_preserves : forall dflt t nm r a b,
  (2 <= length (kids t))%nat -> NoDup (tips t) -> In a (tips t) -> In b (tips t) ->
  rooted_at t nm = Ok r ->
  Permutation (tips r) (tips t) /\ pathlen dflt r a b = pathlen dflt t a b.
Proof.
  intros dflt t nm r a b H2 HN Ha Hb Hr. unfold rooted_at in Hr.
  destruct (find_path nm t) as [p|] eqn:Ef; [|discriminate].
  destruct (subtree_at t p) as [x|] eqn:Es; [|discriminate].
  destruct (is_tip x) eqn:Et; [discriminate|].
  destruct (reroot_go t p None) as [r'|] eqn:Eg; [|discriminate].
  inversion Hr; subst r'.
  apply (reroot_preserves dflt t p x r a b Es); try assumption.
  - unfold is_tip in Et. intros E. rewrite E in Et. discriminate.
  - left. exact H2.
Qed.

Theorem rooted_with_tip_preserves : forall dflt t nm r a b,
  (2 <= length (kids t))%nat -> NoDup (tips t) -> In a (tips t) -> In b (tips t) ->
  rooted_with_tip t nm = Ok r ->
  Permutation (tips r) (tips t) /\ pathlen dflt r a b = pathlen dflt t a b.
Proof.
  intros dflt t nm r a b H2 HN Ha Hb Hr. unfold rooted_with_tip in Hr.
  destruct (find_path nm t) as [p|] eqn:Ef; [|discriminate].
  destruct (find_path_sound nm t p Ef) as (y & Hy & _).
  destruct p as [|i p]; [discriminate|].
  destruct (reroot_go t (removelast (i :: p)) None) as [r'|] eqn:Eg; [|discriminate].
  inversion Hr; subst r'.
  destruct (subtree_at_removelast (i :: p) t y Hy) as (x & Hx1 & Hx2); [discriminate|].
  apply (reroot_preserves dflt t (removelast (i :: p)) x r a b Hx1); try assumption.
  left. exact H2.
Qed.

(* ------------------------------------------------------------------ (3) sorted *)

Lemma insert_scored_perm x l : Permutation (insert_scored x l) (x :: l).
Proof.
  induction l as [|y l IH]; cbn [insert_scored]; [reflexivity|].
  destruct (fst x <? fst y); [reflexivity|].
  rewrite IH. apply perm_swap.
Qed.

Lemma sort_scored_perm l : Permutation (sort_scored l) l.
Proof.
  unfold sort_scored. induction l as [|x l IH]; cbn [fold_right]; [reflexivity|].
  rewrite insert_scored_perm. constructor. exact IH.
Qed.

Lemma tips_of_map_perm (f : tree -> tree) cs :
  Forall (fun c => Permutation (tips (f c)) (tips c)) cs ->
  Permutation (tips_of (map f cs)) (tips_of cs).
Proof.
  induction 1 as [|c cs Hc _ IH]; cbn [map]; [reflexivity|].
  rewrite !tips_of_cons. apply Permutation_app; assumption.
Qed.

Lemma contrib_same dflt a b c c' :
  tlen c' = tlen c -> Permutation (tips c') (tips c) ->
  pathlen dflt c' a b = pathlen dflt c a b ->
  contrib dflt a b c' = contrib dflt a b c.
Proof.
  intros Hl Ht Hp. unfold contrib, edge_w, clen.
  rewrite (sep_perm c' c a b Ht), Hl, Hp. reflexivity.
Qed.

Lemma sorted_go_node order n l c cs :
  snd (sorted_go order (Node n l (c :: cs))) =
  Node n l (map snd (sort_scored (map (sorted_go order) (c :: cs)))).
Proof. reflexivity. Qed.

Lemma sorted_go_preserves t : forall order,
  tname (snd (sorted_go order t)) = tname t /\
  tlen (snd (sorted_go order t)) = tlen t /\
  Permutation (tips (snd (sorted_go order t))) (tips t) /\
  forall dflt a b, pathlen dflt (snd (sorted_go order t)) a b = pathlen dflt t a b.
Proof.
  induction t as [n l cs IH] using tree_ind'. intros order.
  destruct cs as [|c0 cs0].
  - cbn [sorted_go snd]. repeat split; reflexivity.
  - rewrite sorted_go_node. set (cs := c0 :: cs0) in *.
    set (f := fun c => snd (sorted_go order c)).
    assert (HP : Permutation (map snd (sort_scored (map (sorted_go order) cs))) (map f cs)).
    { rewrite sort_scored_perm, map_map. reflexivity. }
    assert (Hne : map snd (sort_scored (map (sorted_go order) cs)) <> []).
    { intros E. rewrite E in HP. apply Permutation_length in HP. discriminate. }
    split; [reflexivity|]. split; [reflexivity|]. split.
    + rewrite (tips_node _ _ _ Hne). rewrite (tips_of_perm _ _ HP).
      rewrite (tips_node n l cs) by discriminate.
      apply tips_of_map_perm. eapply Forall_impl; [|exact IH].
      intros c Hc. apply (Hc order).
    + intros dflt a b. rewrite !pathlen_node. rewrite (contribs_perm _ _ _ _ _ HP).
      unfold contribs. rewrite map_map. apply zsum_map_ext.
      eapply Forall_impl; [|exact IH]. intros c Hc. cbn beta.
      destruct (Hc order) as (_ & Hl & Ht & Hp).
      apply contrib_same; [exact Hl|exact Ht|apply Hp].
Qed.

Theorem sorted_preserves : forall dflt t order a b,
  Permutation (tips (tree_sorted t order)) (tips t) /\
  pathlen dflt (tree_sorted t order) a b = pathlen dflt t a b.
Proof.
  intros dflt t order a b. unfold tree_sorted.
  destruct (sorted_go_preserves t (order ++ sort_names (tips t))) as (_ & _ & Ht & Hp).
  split; [exact Ht|apply Hp].
Qed.

Lemma sorted_tname t order : tname (tree_sorted t order) = tname t.
Proof. unfold tree_sorted. apply sorted_go_preserves. Qed.

Lemma sorted_tlen t order : tlen (tree_sorted t order) = tlen t.
Proof. unfold tree_sorted. apply sorted_go_preserves. Qed.

(* ------------------------------------------------------------------ (4) unrooted *)

(** the current [unrooted()] adds the collapsed edge's length to the
    grandchildren: ((a:1,b:2):3,(c:4,d:5):6) has d(a,b) = 3, the result 9 *)
Theorem unrooted_current_refuted : exists t a b,
  NoDup (tips t) /\ In a (tips t) /\ In b (tips t) /\ pos_lens t = true /\
  pathlen 1 (unrooted t) a b <> pathlen 1 t a b.
Proof.
  exists (Node [114] None
            [Node [120] (Some 3) [Node [97] (Some 1) []; Node [98] (Some 2) []];
             Node [121] (Some 6) [Node [99] (Some 4) []; Node [100] (Some 5) []]]),
         [97], [98].
  split.
  { cbn. repeat constructor; cbn; intuition discriminate. }
  split; [cbn; tauto|]. split; [cbn; tauto|]. split; [reflexivity|].
  vm_compute. discriminate.
Qed.

Lemma tips_relen s l : tips (Node (tname s) l (kids s)) = tips s.
Proof. destruct s as [n l0 cs]. destruct cs; reflexivity. Qed.

Lemma tips_bump lo s : tips (bump lo s) = tips s.
Proof. unfold bump. apply tips_relen. Qed.

Lemma pathlen_kids dflt t a b : pathlen dflt t a b = contribs dflt a b (kids t).
Proof. destruct t as [n l cs]. reflexivity. Qed.

Lemma pathlen_bump dflt lo s a b : pathlen dflt (bump lo s) a b = pathlen dflt s a b.
Proof. unfold bump. rewrite pathlen_node. symmetry. apply pathlen_kids. Qed.

Lemma sep_bump lo s a b : sep (bump lo s) a b = sep s a b.
Proof. unfold sep. rewrite tips_bump. reflexivity. Qed.

(** merging the edge above [x] into the edge above its sibling [y] *)
Lemma contrib_bump dflt a b x y lx ly :
  tlen x = Some lx -> tlen y = Some ly -> sep x a b = sep y a b ->
  contrib dflt a b (bump (tlen x) y) = edge_w dflt x a b + contrib dflt a b y.
Proof.
  intros Hx Hy Hs. unfold contrib. rewrite pathlen_bump.
  unfold edge_w. rewrite sep_bump, Hs.
  unfold clen, bump. cbn [tlen]. rewrite Hx, Hy. cbn [add_len].
  destruct (sep y a b); lia.
Qed.

Lemma edge_w_both dflt x a b :
  In a (tips x) -> In b (tips x) -> edge_w dflt x a b = 0.
Proof.
  intros Ha Hb. unfold edge_w, sep.
  apply memb_In in Ha, Hb. rewrite Ha, Hb. reflexivity.
Qed.

(** it is enough that, when the root has exactly two children, both carry a length *)
Theorem unrooted_fixed_preserves_gen : forall dflt t a b,
  (forall x y, kids t = [x; y] -> tlen x <> None /\ tlen y <> None) ->
  NoDup (tips t) -> In a (tips t) -> In b (tips t) ->
  Permutation (tips (unrooted_fixed t)) (tips t) /\
  pathlen dflt (unrooted_fixed t) a b = pathlen dflt t a b.
Proof.
  intros dflt t a b HL HN Ha Hb. destruct t as [n l cs].
  unfold unrooted_fixed. cbn [kids tname tlen].
  destruct cs as [|x cs]; [split; reflexivity|].
  destruct cs as [|y cs].
  - (* a single root child *)
    destruct (kids x) as [|x1 xs] eqn:Ex; [split; reflexivity|].
    assert (Hkx : kids x <> []) by (rewrite Ex; discriminate).
    assert (Ht : tips (Node n l [x]) = tips x).
    { rewrite tips_node by discriminate. rewrite tips_of_cons. apply app_nil_r. }
    rewrite Ht in *. split.
    + rewrite tips_node by discriminate. rewrite <- Ex, <- (tips_kids x Hkx). reflexivity.
    + rewrite <- Ex. rewrite !pathlen_node, (contribs_cons dflt a b x []).
      change (contribs dflt a b []) with 0.
      unfold contrib. rewrite (edge_w_both dflt x a b Ha Hb), <- pathlen_kids. lia.
  - destruct cs as [|z cs]; [|split; reflexivity].
    (* exactly two root children *)
    assert (Ht : tips (Node n l [x; y]) = tips x ++ tips y).
    { rewrite tips_node by discriminate. rewrite !tips_of_cons.
      change (tips_of []) with (@nil name). rewrite app_nil_r. reflexivity. }
    rewrite Ht in *.
    assert (Hsep : sep x a b = sep y a b).
    { unfold sep. apply xor_sides; assumption. }
    destruct (HL x y eq_refl) as [HLx HLy].
    destruct (tlen x) as [lx|] eqn:Elx; [|congruence].
    destruct (tlen y) as [ly|] eqn:Ely; [|congruence].
    destruct (kids x) as [|x1 xs] eqn:Ex.
    + destruct (kids y) as [|y1 ys] eqn:Ey; [rewrite Ht; split; reflexivity|].
      assert (Hky : kids y <> []) by (rewrite Ey; discriminate).
      split.
      * rewrite tips_node by discriminate. rewrite tips_of_cons, tips_bump.
        rewrite <- Ey, <- (tips_kids y Hky). reflexivity.
      * rewrite <- Ey. rewrite !pathlen_node.
        rewrite (contribs_cons dflt a b _ (kids y)), (contribs_cons dflt a b x [y]),
                (contribs_cons dflt a b y []).
        change (contribs dflt a b []) with 0.
        rewrite <- Ely. rewrite (contrib_bump dflt a b y x ly lx Ely Elx (eq_sym Hsep)).
        rewrite <- pathlen_kids. unfold contrib. lia.
    + assert (Hkx : kids x <> []) by (rewrite Ex; discriminate).
      assert (Hne : (x1 :: xs) ++ [bump (Some lx) y] <> []) by discriminate.
      split.
      * rewrite (tips_node _ _ _ Hne). rewrite <- Ex.
        rewrite tips_of_app, (tips_of_cons _ []), tips_bump.
        change (tips_of []) with (@nil name). rewrite app_nil_r.
        rewrite <- (tips_kids x Hkx). reflexivity.
      * rewrite <- Ex. rewrite !pathlen_node, contribs_app.
        rewrite (contribs_cons dflt a b _ []), (contribs_cons dflt a b x [y]),
                (contribs_cons dflt a b y []).
        change (contribs dflt a b []) with 0.
        rewrite <- Elx. rewrite (contrib_bump dflt a b x y lx ly Elx Ely Hsep).
        rewrite <- pathlen_kids. unfold contrib. lia.
Qed.

Theorem unrooted_fixed_preserves : forall dflt t a b,
  has_lens t = true -> NoDup (tips t) -> In a (tips t) -> In b (tips t) ->
  Permutation (tips (unrooted_fixed t)) (tips t) /\
  pathlen dflt (unrooted_fixed t) a b = pathlen dflt t a b.
Proof.
  intros dflt t a b HL. apply unrooted_fixed_preserves_gen.
  intros x y Hk. destruct t as [n l cs]. cbn [kids] in Hk. subst cs.
  unfold has_lens in HL. cbn [lens_ok forallb] in HL.
  apply andb_true_iff in HL. destruct HL as [HLx HL].
  apply andb_true_iff in HL. destruct HL as [HLy _].
  apply andb_true_iff in HLx. destruct HLx as [HLx _].
  apply andb_true_iff in HLy. destruct HLy as [HLy _].
  split.
  - destruct (tlen x); [discriminate|discriminate].
  - destruct (tlen y); [discriminate|discriminate].
Qed.
