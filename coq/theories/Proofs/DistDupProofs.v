(** C15 — _PairwiseDistance.run + _expand with the fixed duplicate rule ([strict = true]) on ANY
    alignment: every reported cell is 0 for identical index arrays and otherwise the calculator's
    verdict on the pair's own count matrix. *)
From CG3 Require Import Lib.PyZ Model.Dist Spec.DistSpec Proofs.DistProofs Proofs.DistRunProofs.
From Coq Require Import QArith.
Open Scope Z_scope.

Lemma list_eqb_eq : forall a b, list_eqb a b = true <-> a = b.
Proof.
  induction a as [|x a IH]; intros [|y b]; cbn [list_eqb]; split; intros H; try reflexivity; try discriminate.
  - apply andb_true_iff in H. destruct H as [H1 H2]. apply Z.eqb_eq in H1. apply IH in H2. congruence.
  - injection H as -> ->. rewrite Z.eqb_refl. cbn. apply IH. reflexivity.
Qed.

Lemma zmem_In x l : zmem x l = true <-> In x l.
Proof.
  unfold zmem. rewrite existsb_exists. split.
  - intros (y & Hy & E). apply Z.eqb_eq in E. subst. exact Hy.
  - intros H. exists x. split; [exact H|apply Z.eqb_refl].
Qed.

Section Dupes.
  Variables (f : zmat -> dist_result) (dim : Z) (seqs : list (list Z)).
  Let n := zlen seqs.
  Let s (k : Z) : list Z := znth [] seqs k.
  Definition eqs (a b : Z) : bool := list_eqb (s a) (s b).

  Lemma eqs_eq a b : eqs a b = true <-> s a = s b.
  Proof. apply list_eqb_eq. Qed.
  Lemma eqs_refl a : eqs a a = true. Proof. apply eqs_eq. reflexivity. Qed.
  Lemma eqs_sym a b : eqs a b = eqs b a.
  Proof.
    destruct (eqs a b) eqn:E1; destruct (eqs b a) eqn:E2; try reflexivity.
    - apply eqs_eq in E1. assert (eqs b a = true) by (apply eqs_eq; congruence). congruence.
    - apply eqs_eq in E2. assert (eqs a b = true) by (apply eqs_eq; congruence). congruence.
  Qed.
  Lemma eqs_trans a b c : eqs a b = true -> eqs b c = true -> eqs a c = true.
  Proof. rewrite !eqs_eq. congruence. Qed.

  (** a is the first occurrence of its sequence *)
  Definition ndb (a : Z) : bool := forallb (fun a' => negb (eqs a' a)) (zrange 0 a).

  Lemma ndb_true a : ndb a = true <-> forall a', 0 <= a' < a -> eqs a' a = false.
  Proof.
    unfold ndb. rewrite forallb_forall. split.
    - intros H a' Ha'. specialize (H a' (proj2 (zrange_In 0 a a') Ha')). destruct (eqs a' a); [discriminate|reflexivity].
    - intros H a' Ha'. apply zrange_In in Ha'. rewrite (H a' Ha'). reflexivity.
  Qed.

  Lemma ndb_false_ex a : ndb a = false -> exists a', 0 <= a' < a /\ eqs a' a = true.
  Proof.
    intros H. unfold ndb in H.
    destruct (existsb (fun a' => eqs a' a) (zrange 0 a)) eqn:E.
    - apply existsb_exists in E. destruct E as (a' & Hin & E). apply zrange_In in Hin. exists a'. auto.
    - exfalso. assert (forallb (fun a' => negb (eqs a' a)) (zrange 0 a) = true); [|congruence].
      apply forallb_forall. intros a' Hin. 
      destruct (eqs a' a) eqn:E'; [|reflexivity]. 
      assert (existsb (fun a' => eqs a' a) (zrange 0 a) = true) by (apply existsb_exists; exists a'; auto). congruence.
  Qed.

  (** every index has a first-occurrence representative at or before it *)
  Lemma rep_exists : forall a, 0 <= a -> exists r, 0 <= r <= a /\ ndb r = true /\ eqs r a = true.
  Proof.
    intros a Ha. pattern a. apply Zlt_0_ind; [|exact Ha]. clear a Ha. intros a IH Ha.
    destruct (ndb a) eqn:E.
    - exists a. split; [lia|]. split; [exact E|apply eqs_refl].
    - destruct (ndb_false_ex a E) as (a' & Ha' & Eq). destruct (IH a' Ha') as (r & Hr & Hnd & Er).
      exists r. split; [lia|]. split; [exact Hnd|]. exact (eqs_trans _ _ _ Er Eq).
  Qed.

  Lemma nd_distinct a b : 0 <= a -> a < b -> ndb b = true -> eqs a b = false.
  Proof. intros Ha Hab Hb. exact (proj1 (ndb_true b) Hb a (conj Ha Hab)). Qed.

  Lemma dup_iff b : 0 <= b -> (ndb b = false <-> exists a, 0 <= a /\ a < b /\ ndb a = true /\ eqs a b = true).
  Proof.
    intros Hb. split.
    - intros E. destruct (ndb_false_ex b E) as (a' & Ha' & Eq). destruct (rep_exists a' (proj1 Ha')) as (r & Hr & Hnd & Er).
      exists r. repeat split; try lia; [exact Hnd|exact (eqs_trans _ _ _ Er Eq)].
    - intros (a & Ha & Hab & _ & Eq). destruct (ndb b) eqn:E; [|reflexivity].
      rewrite (nd_distinct a b Ha Hab E) in Eq. discriminate.
  Qed.

  (** ------------------------------------------------------------------ run(): the double loop *)

  Definition doneP (i j a b : Z) : Prop := a < i \/ (a = i /\ b < j).
  Definition flagP (a b : Z) : Prop := exists a', 0 <= a' <= a /\ ndb a' = true /\ eqs a' b = true.
  Let rule (a b : Z) : dist_result := cell_rule f dim (s a) (s b).

  Record rinv (st : run_state) (i j : Z) : Prop := {
    ri_dupes : forall b, In b (rs_dupes st) <->
       exists a, 0 <= a /\ a < b /\ b < n /\ ndb a = true /\ eqs a b = true /\ doneP i j a b;
    ri_duped : forall add alias, In (add, alias) (redundants (rs_duped st)) <->
       0 <= alias /\ alias < add /\ add < n /\ ndb alias = true /\ eqs alias add = true /\ doneP i j alias add;
    ri_dists : forall a b, 0 <= a -> a < b -> b < n -> doneP i j a b -> ndb a = true -> ~ flagP a b ->
       aget (rs_dists st) (a, b) = Some (rule a b) /\ aget (rs_dists st) (b, a) = Some (rule a b) }.

  Lemma rinv_ext st i j i' j' :
    (forall a b, a < b -> b < n -> (doneP i j a b <-> doneP i' j' a b)) -> rinv st i j -> rinv st i' j'.
  Proof.
    intros E [H1 H2 H3]. constructor.
    - intros b. rewrite H1. split; intros (a & Ha & Hab & Hb & Hn & He & Hd); exists a; repeat split; try assumption; apply (E a b Hab Hb); exact Hd.
    - intros add alias. rewrite H2. split; intros (Ha & Hab & Hb & Hn & He & Hd); repeat split; try assumption; apply (E alias add Hab Hb); exact Hd.
    - intros a b Ha Hab Hb Hd. apply H3; try assumption. apply (E a b Hab Hb). exact Hd.
  Qed.

  Lemma redundants_add l i j r k :
    In (r, k) (redundants (duped_add l i j)) <-> (r = j /\ k = i) \/ In (r, k) (redundants l).
  Proof.
    unfold redundants. induction l as [|[k0 v0] l IH]; cbn [duped_add flat_map map fst snd].
    - cbn [app In]. split; [intros [E|[]]; injection E as <- <-; left; auto|intros [[-> ->]|[]]; left; reflexivity].
    - destruct (Z.eqb_spec k0 i) as [->|Hn]; cbn [flat_map fst snd].
      + rewrite !in_app_iff, map_app, in_app_iff. cbn [map In].
        split.
        * intros [[H|[E|[]]]|H]; [right; left; exact H|injection E as <- <-; left; auto|right; right; exact H].
        * intros [[-> ->]|[H|H]]; [left; right; left; reflexivity|left; left; exact H|right; exact H].
      + rewrite !in_app_iff, IH. tauto.
  Qed.

  Lemma no_offdiag_of_eqs i j : eqs i j = true -> any_offdiag dim (diversity (s i) (s j)) = false.
  Proof. intros E. apply eqs_eq in E. rewrite <- E. apply any_offdiag_self. Qed.

  Lemma run_pair_rinv st i j : 0 <= i -> i < j -> j < n -> ndb i = true ->
    rinv st i j -> rinv (run_pair true f dim seqs st i j) i (j + 1).
  Proof.
    intros Hi Hij Hj Hnd [H1 H2 H3]. unfold run_pair.
    destruct (zmem j (rs_dupes st)) eqn:Zm.
    - (* j was flagged by an earlier row *)
      apply zmem_In in Zm. pose proof (proj1 (H1 j) Zm) as (a0 & Ha0 & Ha0j & _ & Hnd0 & He0 & Hd0).
      assert (Ha0i : a0 < i) by (destruct Hd0 as [?|[? ?]]; lia).
      assert (Hne : eqs i j = false).
      { destruct (eqs i j) eqn:E; [|reflexivity]. 
        assert (eqs a0 i = true) by (apply (eqs_trans _ j); [exact He0|rewrite eqs_sym; exact E]).
        rewrite (nd_distinct a0 i Ha0 Ha0i Hnd) in H. discriminate. }
      constructor.
      + intros b. rewrite H1. split; intros (a & Ha & Hab & Hb & Hn & He & Hd); exists a; repeat split; try assumption.
        * destruct Hd as [?|[? ?]]; [left; lia|right; lia].
        * destruct Hd as [?|[-> Hbj]]; [left; assumption|].
          assert (b = j \/ b < j) as [->|?] by lia; [congruence|right; lia].
      + intros add alias. rewrite H2. split; intros (Ha & Hab & Hb & Hn & He & Hd); repeat split; try assumption.
        * destruct Hd as [?|[? ?]]; [left; lia|right; lia].
        * destruct Hd as [?|[-> Hbj]]; [left; assumption|].
          assert (add = j \/ add < j) as [->|?] by lia; [congruence|right; lia].
      + intros a b Ha Hab Hb Hd Hna Hnf. apply H3; try assumption.
        destruct Hd as [?|[-> Hbj]]; [left; assumption|].
        assert (b = j \/ b < j) as [->|?] by lia; [|right; lia].
        exfalso. apply Hnf. exists a0. repeat split; try lia; assumption.
    - assert (Hnotin : ~ In j (rs_dupes st)) by (intros H; apply zmem_In in H; congruence).
      fold (s i) (s j). 
      destruct (negb (any_offdiag dim (diversity (s i) (s j))) && list_eqb (s i) (s j)) eqn:Dup.
      + (* j is an exact duplicate of i *)
        apply andb_true_iff in Dup. destruct Dup as [D1 D2]. rewrite D1. cbn [negb orb]. rewrite D2.
        assert (He : eqs i j = true) by exact D2.
        constructor; cbn [rs_dupes rs_duped rs_dists].
        * intros b. cbn [In]. rewrite H1. split.
          -- intros [<-|(a & Ha & Hab & Hb & Hn & Hee & Hd)].
             ++ exists i. repeat split; try assumption; try lia. right. lia.
             ++ exists a. repeat split; try assumption. destruct Hd as [?|[? ?]]; [left; lia|right; lia].
          -- intros (a & Ha & Hab & Hb & Hn & Hee & Hd).
             destruct Hd as [?|[-> Hbj]]; [right; exists a; repeat split; try assumption; left; assumption|].
             assert (b = j \/ b < j) as [->|?] by lia; [left; reflexivity|right; exists i; repeat split; try assumption; right; lia].
        * intros add alias. rewrite redundants_add, H2. split.
          -- intros [[-> ->]|(Ha & Hab & Hb & Hn & Hee & Hd)].
             ++ repeat split; try assumption; try lia. right. lia.
             ++ repeat split; try assumption. destruct Hd as [?|[? ?]]; [left; lia|right; lia].
          -- intros (Ha & Hab & Hb & Hn & Hee & Hd).
             destruct Hd as [?|[-> Hbj]]; [right; repeat split; try assumption; left; assumption|].
             assert (add = j \/ add < j) as [->|?] by lia; [left; auto|right; repeat split; try assumption; right; lia].
        * intros a b Ha Hab Hb Hd Hna Hnf. apply H3; try assumption.
          destruct Hd as [?|[-> Hbj]]; [left; assumption|].
          assert (b = j \/ b < j) as [->|?] by lia; [|right; lia].
          exfalso. apply Hnf. exists i. repeat split; try lia; assumption.
      + (* a result is stored *)
        assert (He : eqs i j = false).
        { destruct (eqs i j) eqn:E; [|reflexivity]. rewrite (no_offdiag_of_eqs i j E) in Dup. cbn in Dup.
          unfold eqs in E. rewrite E in Dup. discriminate. }
        assert (Est : forall st', st' = RS (rs_dupes st) (rs_duped st) (aset (aset (rs_dists st) (i, j) (rule i j)) (j, i) (rule i j)) ->
                      rinv st' i (j + 1)).
        { intros st' ->. constructor; cbn [rs_dupes rs_duped rs_dists].
          - intros b. rewrite H1. split; intros (a & Ha & Hab & Hb & Hn & Hee & Hd); exists a; repeat split; try assumption.
            + destruct Hd as [?|[? ?]]; [left; lia|right; lia].
            + destruct Hd as [?|[-> Hbj]]; [left; assumption|].
              assert (b = j \/ b < j) as [->|?] by lia; [congruence|right; lia].
          - intros add alias. rewrite H2. split; intros (Ha & Hab & Hb & Hn & Hee & Hd); repeat split; try assumption.
            + destruct Hd as [?|[? ?]]; [left; lia|right; lia].
            + destruct Hd as [?|[-> Hbj]]; [left; assumption|].
              assert (add = j \/ add < j) as [->|?] by lia; [congruence|right; lia].
          - intros a b Ha Hab Hb Hd Hna Hnf. rewrite !aget_aset.
            destruct (key_eqb_spec (a, b) (j, i)) as [E|N1]; [injection E as -> ->; lia|].
            destruct (key_eqb_spec (b, a) (j, i)) as [E|N2].
            + injection E as -> ->. destruct (key_eqb_spec (i, j) (i, j)); [|congruence]. auto.
            + destruct (key_eqb_spec (a, b) (i, j)) as [E|N3]; [injection E as -> ->; congruence|].
              destruct (key_eqb_spec (b, a) (i, j)) as [E|N4]; [injection E as -> ->; lia|].
              apply H3; try assumption.
              destruct Hd as [?|[-> Hbj]]; [left; assumption|].
              assert (b = j \/ b < j) as [->|?] by lia; [congruence|right; lia]. }
        unfold rule, cell_rule in Est. cbv zeta in Est. fold (s i) (s j) in Est.
        destruct (negb (any_offdiag dim (diversity (s i) (s j)))) eqn:A; cbn [andb] in Dup.
        * cbn [negb orb]. rewrite Dup.
          destruct (0 <? msum dim (diversity (s i) (s j))) eqn:T; apply Est; reflexivity.
        * apply Est. reflexivity.
  Qed.

  Lemma inner_rinv i : 0 <= i -> ndb i = true -> forall k j st, i < j -> j + Z.of_nat k = n -> rinv st i j ->
    rinv (fold_left (fun s j => run_pair true f dim seqs s i j) (zrange_aux j k) st) i n.
  Proof.
    intros Hi Hnd. induction k as [|k IH]; intros j st Hij Hk Hinv; cbn [zrange_aux fold_left].
    - replace n with j by lia. exact Hinv.
    - apply IH; [lia|lia|]. apply run_pair_rinv; try lia; assumption.
  Qed.

  Lemma run_row_rinv st i : 0 <= i -> i < n - 1 -> rinv st i (i + 1) -> rinv (run_row true f dim seqs n st i) (i + 1) (i + 2).
  Proof.
    intros Hi Hin Hinv. unfold run_row.
    assert (Hdone : forall a b, a < b -> b < n -> (doneP i n a b <-> doneP (i + 1) (i + 2) a b)).
    { intros a b Hab Hb. unfold doneP. lia. }
    destruct (zmem i (rs_dupes st)) eqn:Zm.
    - (* row of a duplicate: skipped *)
      apply zmem_In in Zm. pose proof (proj1 (ri_dupes st i (i + 1) Hinv i) Zm) as (a0 & Ha0 & Ha0i & _ & Hnd0 & He0 & _).
      assert (Hdup : ndb i = false) by (apply dup_iff; [exact Hi|exists a0; auto]).
      destruct Hinv as [H1 H2 H3]. constructor.
      + intros b. rewrite H1. split; intros (a & Ha & Hab & Hb & Hn & He & Hd); exists a; repeat split; try assumption.
        * unfold doneP in *. lia.
        * unfold doneP in *. assert (a = i \/ a <> i) as [->|?] by lia; [congruence|lia].
      + intros add alias. rewrite H2. split; intros (Ha & Hab & Hb & Hn & He & Hd); repeat split; try assumption.
        * unfold doneP in *. lia.
        * unfold doneP in *. assert (alias = i \/ alias <> i) as [->|?] by lia; [congruence|lia].
      + intros a b Ha Hab Hb Hd Hna Hnf. apply H3; try assumption.
        unfold doneP in *. assert (a = i \/ a <> i) as [->|?] by lia; [congruence|lia].
    - assert (Hnd : ndb i = true).
      { destruct (ndb i) eqn:E; [reflexivity|]. exfalso.
        apply (dup_iff i Hi) in E. destruct E as (a & Ha & Hai & Hna & He).
        assert (In i (rs_dupes st)); [|apply zmem_In in H; congruence].
        apply (ri_dupes st i (i + 1) Hinv). exists a. repeat split; try assumption; try lia. left. exact Hai. }
      apply (rinv_ext _ i n); [exact Hdone|].
      unfold zrange. apply inner_rinv; try lia; assumption.
  Qed.

  Lemma outer_rinv : forall k i st, 0 <= i -> i + Z.of_nat k = n - 1 -> rinv st i (i + 1) ->
    rinv (fold_left (run_row true f dim seqs n) (zrange_aux i k) st) (n - 1) n.
  Proof.
    induction k as [|k IH]; intros i st Hi Hk Hinv; cbn [zrange_aux fold_left].
    - apply (rinv_ext _ i (i + 1)); [|exact Hinv]. intros a b Hab Hb. unfold doneP. lia.
    - apply IH; [lia|lia|]. replace (i + 1 + 1) with (i + 2) by lia. apply run_row_rinv; try lia. exact Hinv.
  Qed.

  Lemma aget_filter {V} (p : pairkey -> bool) (l : list (pairkey * V)) k :
    p k = true -> aget (filter (fun kv => p (fst kv)) l) k = aget l k.
  Proof.
    intros Hp. induction l as [|[k0 v0] l IH]; [reflexivity|]. cbn [filter fst aget].
    destruct (key_eqb_spec k k0) as [->|Hn].
    - rewrite Hp. cbn [aget]. destruct (key_eqb_spec k0 k0); [reflexivity|congruence].
    - destruct (p k0); [cbn [aget]; destruct (key_eqb_spec k k0); [congruence|exact IH]|exact IH].
  Qed.

  (** what run() leaves behind *)
  Lemma run_facts :
    let st := run true f dim seqs in
    (forall add alias, In (add, alias) (redundants (rs_duped st)) <->
       0 <= alias /\ alias < add /\ add < n /\ ndb alias = true /\ eqs alias add = true) /\
    (forall a b, 0 <= a -> a < b -> b < n -> ndb a = true -> ndb b = true ->
       aget (rs_dists st) (a, b) = Some (rule a b) /\ aget (rs_dists st) (b, a) = Some (rule a b)).
  Proof.
    cbv zeta. unfold run. fold n.
    set (st := fold_left (run_row true f dim seqs n) (zrange 0 (n - 1)) (RS [] [] [])).
    assert (I : rinv st (Z.max 0 (n - 1)) (Z.max 0 (n - 1) + 1)).
    { destruct (Z_lt_le_dec 1 n) as [Hn|Hn].
      - rewrite Z.max_r by lia. replace (n - 1 + 1) with n by lia.
        unfold st, zrange. apply outer_rinv; [lia|lia|].
        constructor; cbn [rs_dupes rs_duped rs_dists redundants flat_map].
        + intros b. split; [intros []|]. intros (a & Ha & Hab & Hb & _ & _ & Hd). unfold doneP in Hd. lia.
        + intros add alias. split; [intros []|]. intros (Ha & Hab & Hb & _ & _ & Hd). unfold doneP in Hd. lia.
        + intros a b Ha Hab Hb Hd. unfold doneP in Hd. lia.
      - rewrite Z.max_l by lia.
        assert (E : st = RS [] [] []) by (unfold st, zrange; replace (Z.to_nat (n - 1 - 0)) with 0%nat by lia; reflexivity).
        rewrite E. constructor; cbn [rs_dupes rs_duped rs_dists redundants flat_map].
        + intros b. split; [intros []|]. intros (a & Ha & Hab & Hb & _). lia.
        + intros add alias. split; [intros []|]. intros (Ha & Hab & Hb & _). lia.
        + intros a b Ha Hab Hb. lia. }
    assert (Hall : forall a b, 0 <= a -> a < b -> b < n -> doneP (Z.max 0 (n - 1)) (Z.max 0 (n - 1) + 1) a b).
    { intros a b Ha Hab Hb. unfold doneP. lia. }
    destruct I as [H1 H2 H3]. cbn [rs_dupes rs_duped rs_dists]. split.
    - intros add alias. rewrite H2. split.
      + intros (Ha & Hab & Hb & Hn & He & _). auto.
      + intros (Ha & Hab & Hb & Hn & He). repeat split; try assumption. apply Hall; assumption.
    - intros a b Ha Hab Hb Hna Hnb.
      assert (Hnf : ~ flagP a b).
      { intros (a' & Ha' & Hna' & He'). rewrite (nd_distinct a' b (proj1 Ha') ltac:(lia) Hnb) in He'. discriminate. }
      assert (Hnot : forall x, 0 <= x -> ndb x = true -> zmem x (rs_dupes st) = false).
      { intros x Hx Hnx. destruct (zmem x (rs_dupes st)) eqn:Zm; [|reflexivity]. exfalso.
        apply zmem_In in Zm. apply H1 in Zm. destruct Zm as (a0 & Ha0 & Ha0x & _ & Hn0 & He0 & _).
        rewrite (nd_distinct a0 x Ha0 Ha0x Hnx) in He0. discriminate. }
      rewrite !(aget_filter (fun k => negb (zmem (fst k) (rs_dupes st) || zmem (snd k) (rs_dupes st)))).
      + apply H3; try assumption. apply Hall; assumption.
      + cbn [fst snd]. rewrite (Hnot b) by (try lia; assumption). rewrite (Hnot a) by assumption. reflexivity.
      + cbn [fst snd]. rewrite (Hnot b) by (try lia; assumption). rewrite (Hnot a) by assumption. reflexivity.
  Qed.

  (** ------------------------------------------------------------------ _expand *)

  (** the correct content of the cell (a, b) *)
  Definition Fin (a b : Z) (c : cell) : Prop :=
    (eqs a b = true /\ c = CZero) \/
    (eqs a b = false /\ (c = CRes (cell_rule f dim (s a) (s b)) \/ c = CRes (cell_rule f dim (s b) (s a)))).

  Lemma Fin_sym a b c : Fin a b c -> Fin b a c.
  Proof. unfold Fin. rewrite (eqs_sym b a). tauto. Qed.

  Lemma Fin_class a a' b c : eqs a a' = true -> Fin a b c -> Fin a' b c.
  Proof.
    intros E. apply eqs_eq in E. unfold Fin, eqs. rewrite <- E. tauto.
  Qed.

  Definition exp_step (add alias : Z) (pw : list (pairkey * cell)) (name : Z) : list (pairkey * cell) :=
    if name =? add then pw
    else
      let v := if name =? alias then CZero
               else match aget pw (alias, name) with Some c => c | None => CMissing end in
      aset (aset pw (add, name) v) (name, add) v.

  Lemma expand_one_eq pw add alias :
    expand_one n pw (add, alias) = fold_left (exp_step add alias) (zrange 0 n) pw.
  Proof. reflexivity. Qed.

  Definition val (pw0 : list (pairkey * cell)) (alias name : Z) : cell :=
    if name =? alias then CZero else match aget pw0 (alias, name) with Some c => c | None => CMissing end.

  Definition einv (pw0 pw : list (pairkey * cell)) (add alias t : Z) : Prop :=
    (forall k, fst k <> add -> snd k <> add -> aget pw k = aget pw0 k) /\
    (forall name, 0 <= name < t -> name <> add ->
       aget pw (add, name) = Some (val pw0 alias name) /\ aget pw (name, add) = Some (val pw0 alias name)).

  Lemma exp_inner pw0 add alias : alias <> add -> forall k t pw, 0 <= t -> t + Z.of_nat k = n ->
    einv pw0 pw add alias t -> einv pw0 (fold_left (exp_step add alias) (zrange_aux t k) pw) add alias n.
  Proof.
    intros Hne. induction k as [|k IH]; intros t pw Ht Hk Hinv; cbn [zrange_aux fold_left].
    - replace n with t by lia. exact Hinv.
    - apply IH; [lia|lia|]. destruct Hinv as [E1 E2]. unfold exp_step.
      destruct (Z.eqb_spec t add) as [->|Hta].
      + split; [exact E1|]. intros name Hname Hna. apply E2; lia.
      + cbv zeta. rewrite (E1 (alias, t)) by (cbn [fst snd]; congruence). fold (val pw0 alias t).
        split.
        * intros k0 Hk1 Hk2. rewrite !aget_aset.
          destruct (key_eqb_spec k0 (t, add)) as [->|_]; [cbn in Hk2; congruence|].
          destruct (key_eqb_spec k0 (add, t)) as [->|_]; [cbn in Hk1; congruence|]. apply E1; assumption.
        * intros name Hname Hna. rewrite !aget_aset.
          destruct (key_eqb_spec (add, name) (t, add)) as [E|_]; [injection E as <- <-; congruence|].
          destruct (key_eqb_spec (name, add) (t, add)) as [E|N1].
          -- injection E as ->. destruct (key_eqb_spec (add, t) (add, t)); [|congruence]. auto.
          -- destruct (key_eqb_spec (add, name) (add, t)) as [E|N2]; [injection E as ->; congruence|].
             destruct (key_eqb_spec (name, add) (add, t)) as [E|_]; [injection E as -> <-; congruence|].
             apply E2; [|exact Hna]. assert (name <> t) by congruence. lia.
  Qed.

  Lemma expand_one_spec pw add alias : alias <> add ->
    einv pw (expand_one n pw (add, alias)) add alias n.
  Proof.
    intros Hne. rewrite expand_one_eq. unfold zrange.
    destruct (Z_le_gt_dec 0 n) as [Hn|Hn].
    - apply exp_inner; [exact Hne|lia|lia|]. split; [reflexivity|]. intros name Hname. lia.
    - replace (Z.to_nat (n - 0)) with 0%nat by lia. cbn [zrange_aux fold_left]. split; [reflexivity|]. intros name Hname. lia.
  Qed.

  Definition Res (R : Z -> Prop) (pw : list (pairkey * cell)) : Prop :=
    forall a b, 0 <= a < n -> 0 <= b < n -> a <> b -> R a -> R b -> exists c, aget pw (a, b) = Some c /\ Fin a b c.

  Lemma expand_one_res R pw add alias :
    Res R pw -> R alias -> 0 <= alias -> alias < add -> add < n -> eqs alias add = true ->
    Res (fun x => R x \/ x = add) (expand_one n pw (add, alias)).
  Proof.
    intros Hres Hal Ha0 Hlt Hadd He.
    destruct (expand_one_spec pw add alias ltac:(lia)) as [E1 E2].
    assert (Hval : forall x, 0 <= x < n -> x <> add -> R x -> Fin add x (val pw alias x)).
    { intros x Hx Hxa HRx. unfold val. destruct (Z.eqb_spec x alias) as [->|Hxal].
      - left. split; [rewrite eqs_sym; exact He|reflexivity].
      - destruct (Hres alias x ltac:(lia) Hx ltac:(congruence) Hal HRx) as (c & Ec & Hc). rewrite Ec.
        exact (Fin_class alias add x c He Hc). }
    intros a b Ha Hb Hab HRa HRb.
    destruct (Z.eq_dec a add) as [->|Hna]; destruct (Z.eq_dec b add) as [->|Hnb].
    - congruence.
    - assert (HR : R b) by (destruct HRb as [?|?]; [assumption|congruence]).
      exists (val pw alias b). split; [apply E2; assumption|]. apply Hval; assumption.
    - assert (HR : R a) by (destruct HRa as [?|?]; [assumption|congruence]).
      exists (val pw alias a). split; [apply E2; assumption|]. apply Fin_sym. apply Hval; assumption.
    - assert (HR1 : R a) by (destruct HRa as [?|?]; [assumption|congruence]).
      assert (HR2 : R b) by (destruct HRb as [?|?]; [assumption|congruence]).
      rewrite E1 by (cbn [fst snd]; assumption). apply Hres; assumption.
  Qed.

  Lemma expand_fold_res : forall (l : list (Z * Z)) R pw,
    Res R pw ->
    (forall add alias, In (add, alias) l -> 0 <= alias /\ alias < add /\ add < n /\ ndb alias = true /\ eqs alias add = true) ->
    (forall x, 0 <= x < n -> ndb x = true -> R x) ->
    Res (fun x => R x \/ exists alias, In (x, alias) l) (fold_left (expand_one n) l pw).
  Proof.
    induction l as [|[add alias] l IH]; intros R pw Hres Hl Hnd; cbn [fold_left].
    - intros a b Ha Hb Hab HRa HRb. apply Hres; try assumption.
      + destruct HRa as [?|(? & [])]; assumption.
      + destruct HRb as [?|(? & [])]; assumption.
    - destruct (Hl add alias (or_introl eq_refl)) as (Ha0 & Hlt & Hadd & Hna & He).
      pose proof (expand_one_res R pw add alias Hres (Hnd alias ltac:(lia) Hna) Ha0 Hlt Hadd He) as Hres'.
      specialize (IH (fun x => R x \/ x = add) (expand_one n pw (add, alias)) Hres').
      assert (Hl' : forall add0 alias0, In (add0, alias0) l -> 0 <= alias0 /\ alias0 < add0 /\ add0 < n /\ ndb alias0 = true /\ eqs alias0 add0 = true)
        by (intros; apply Hl; right; assumption).
      specialize (IH Hl' (fun x Hx Hn => or_introl (Hnd x Hx Hn))).
      intros a b Ha Hb Hab HRa HRb. apply IH; try assumption.
      + destruct HRa as [?|(al & [E|Hin])]; [left; left; assumption|injection E as -> ->; left; right; reflexivity|right; exists al; exact Hin].
      + destruct HRb as [?|(al & [E|Hin])]; [left; left; assumption|injection E as -> ->; left; right; reflexivity|right; exists al; exact Hin].
  Qed.

  (** every ordered pair of any alignment is reported with its correct cell *)
  Theorem strict_pairwise_exact : forall i j, 0 <= i < n -> 0 <= j < n -> i <> j ->
    exists c, In ((i, j), c) (pairwise true f dim seqs) /\ Fin i j c.
  Proof.
    intros i j Hi Hj Hij.
    destruct run_facts as [Hred Hd].
    set (st := run true f dim seqs) in *.
    set (pw0 := map (fun kv : pairkey * dist_result => (fst kv, CRes (snd kv))) (rs_dists st)).
    assert (Hres0 : Res (fun x => 0 <= x < n /\ ndb x = true) pw0).
    { intros a b Ha Hb Hab [_ Hna] [_ Hnb]. unfold pw0. rewrite aget_map_cres.
      destruct (Z.lt_total a b) as [Hlt|[?|Hgt]]; [|contradiction|].
      - destruct (Hd a b ltac:(lia) Hlt ltac:(lia) Hna Hnb) as [E _]. rewrite E. cbn [option_map].
        eexists. split; [reflexivity|]. right. split; [apply nd_distinct; try lia; assumption|left; reflexivity].
      - destruct (Hd b a ltac:(lia) Hgt ltac:(lia) Hnb Hna) as [_ E]. rewrite E. cbn [option_map].
        eexists. split; [reflexivity|]. right. split; [rewrite eqs_sym; apply nd_distinct; try lia; assumption|right; reflexivity]. }
    pose proof (expand_fold_res (redundants (rs_duped st)) _ pw0 Hres0) as Hfin.
    assert (Hres : Res (fun x => (0 <= x < n /\ ndb x = true) \/ exists alias, In (x, alias) (redundants (rs_duped st)))
                       (expand n st)).
    { apply Hfin.
      - intros add alias Hin. apply Hred in Hin. tauto.
      - intros x Hx Hn. auto. }
    assert (Hall : forall x, 0 <= x < n -> (0 <= x < n /\ ndb x = true) \/ exists alias, In (x, alias) (redundants (rs_duped st))).
    { intros x Hx. destruct (ndb x) eqn:E; [left; auto|]. right.
      apply (dup_iff x (proj1 Hx)) in E. destruct E as (a & Ha & Hax & Hna & He). exists a. apply Hred. repeat split; try assumption; lia. }
    destruct (Hres i j Hi Hj Hij (Hall i Hi) (Hall j Hj)) as (c & Ec & Hc).
    exists c. split; [|exact Hc].
    unfold pairwise. fold n. fold st.
    apply in_flat_map. exists i. split; [apply zrange_In; lia|].
    apply in_flat_map. exists j. split; [apply zrange_In; lia|].
    destruct (Z.eqb_spec i j); [contradiction|]. left. rewrite Ec. reflexivity.
  Qed.
End Dupes.

(** ------------------------------------------------------------------ orientation-free statement for the modelled estimators *)

Lemma any_offdiag_iff dim m :
  any_offdiag dim m = true <-> exists a b, In a (states dim) /\ In b (states dim) /\ a <> b /\ 0 < m a b.
Proof.
  unfold any_offdiag. rewrite existsb_exists. split.
  - intros (a & Ha & H). apply existsb_exists in H. destruct H as (b & Hb & H).
    apply andb_true_iff in H. destruct H as [H1 H2]. exists a, b. repeat split; try assumption; lia.
  - intros (a & b & Ha & Hb & Hab & Hm). exists a. split; [exact Ha|]. apply existsb_exists. exists b. split; [exact Hb|].
    apply andb_true_iff. split; lia.
Qed.

Lemma any_offdiag_swap dim m1 m2 : (forall a b, m1 a b = m2 b a) -> any_offdiag dim m1 = any_offdiag dim m2.
Proof.
  intros H. apply Bool.eq_iff_eq_true. rewrite !any_offdiag_iff. split; intros (a & b & Ha & Hb & Hab & Hm); exists b, a; (split; [assumption|]); (split; [assumption|]); (split; [congruence|]).
  - rewrite <- H. exact Hm.
  - rewrite H. exact Hm.
Qed.

Lemma cell_rule_sym e s1 s2 : cell_rule (estimate e) 4 s2 s1 = cell_rule (estimate e) 4 s1 s2.
Proof.
  unfold cell_rule. cbv zeta.
  rewrite (any_offdiag_swap 4 (diversity s2 s1) (diversity s1 s2)) by (intros; apply diversity_transpose).
  rewrite (msum_ext 4 (diversity s2 s1) (mtranspose (diversity s1 s2))) by (intros; apply diversity_transpose).
  rewrite msum_transpose, estimate_sequence_order. reflexivity.
Qed.

(** run() + _expand() of the fixed source, any alignment, any of the modelled estimators: the cell of
    every ordered pair is 0 for identical index arrays and otherwise the estimator's verdict on the
    pair's own count matrix (0 with the compared length when the pair shows no difference but is
    not interchangeable) *)
Theorem strict_pairwise_estimate : forall e (seqs : list (list Z)) i j,
  0 <= i < zlen seqs -> 0 <= j < zlen seqs -> i <> j ->
  In ((i, j), if list_eqb (znth [] seqs i) (znth [] seqs j) then CZero
              else CRes (cell_rule (estimate e) 4 (znth [] seqs i) (znth [] seqs j)))
     (pairwise true (estimate e) 4 seqs).
Proof.
  intros e seqs i j Hi Hj Hij.
  destruct (strict_pairwise_exact (estimate e) 4 seqs i j Hi Hj Hij) as (c & Hin & Hc).
  unfold Fin, eqs in Hc. cbv zeta in Hc.
  destruct Hc as [[E ->]|[E [->| ->]]]; rewrite E; try exact Hin.
  rewrite cell_rule_sym in Hin. exact Hin.
Qed.
