(** C18 — local alignment: the reported score is the score of the returned
    path ending at the reported cell, and no local path (ending anywhere,
    starting anywhere, entered and left through the match state) scores higher. *)
From CG3 Require Import Lib.PyZ Lib.Val Lib.MaxPlus Model.PairAlign Spec.AlignSpec Proofs.AlignProofs.

Definition bval (b : lbest) : ez := fst (fst (fst b)).

(** ------------------------------------------------------------------ the two folds *)

Lemma best_in_row_spec : forall cs i j best,
  ele (bval best) (bval (best_in_row i j cs best)) /\
  (forall k c, nth_error cs k = Some c -> ele (fst (cM c)) (bval (best_in_row i j cs best))) /\
  (best_in_row i j cs best = best \/
   exists k c, nth_error cs k = Some c /\
               best_in_row i j cs best = (fst (cM c), snd (cM c), i, j + Z.of_nat k)).
Proof.
  induction cs as [|c cs IH]; intros i j best.
  - cbn. split; [apply ele_refl|]. split; [intros k c H; destruct k; discriminate | left; reflexivity].
  - cbn [best_in_row].
    set (best' := if egtb (fst (cM c)) (fst (fst (fst best))) then (fst (cM c), snd (cM c), i, j) else best).
    destruct (IH i (j + 1) best') as (Hmono & Hall & Horig).
    assert (Hb : ele (bval best) (bval best') /\ ele (fst (cM c)) (bval best')).
    { unfold best', bval. destruct (egtb (fst (cM c)) (fst (fst (fst best)))) eqn:E; cbn [fst].
      - apply egtb_true in E. split; [tauto | apply ele_refl].
      - apply egtb_false in E. split; [apply ele_refl | exact E]. }
    destruct Hb as (Hb1 & Hb2).
    split; [eapply ele_trans; eauto|]. split.
    + intros k c' Hk. destruct k as [|k].
      * cbn in Hk. inversion Hk; subst c'. eapply ele_trans; eauto.
      * cbn in Hk. eapply Hall; eauto.
    + destruct Horig as [Ho | (k & c' & Hk & Ho)].
      * rewrite Ho. unfold best'.
        destruct (egtb (fst (cM c)) (fst (fst (fst best)))).
        -- right. exists 0%nat, c. split; [reflexivity|]. f_equal. cbn. lia.
        -- left. reflexivity.
      * right. exists (S k), c'. split; [exact Hk|]. rewrite Ho. f_equal. lia.
Qed.

Lemma best_in_rows_spec : forall rows i best,
  ele (bval best) (bval (best_in_rows i rows best)) /\
  (forall a row b c, nth_error rows a = Some row -> nth_error row b = Some c ->
                     ele (fst (cM c)) (bval (best_in_rows i rows best))) /\
  (best_in_rows i rows best = best \/
   exists a row b c, nth_error rows a = Some row /\ nth_error row b = Some c /\
                     best_in_rows i rows best = (fst (cM c), snd (cM c), i + Z.of_nat a, Z.of_nat b)).
Proof.
  induction rows as [|r rows IH]; intros i best.
  - cbn. split; [apply ele_refl|]. split; [intros a row b c H; destruct a; discriminate | left; reflexivity].
  - cbn [best_in_rows].
    destruct (best_in_row_spec r i 0 best) as (Hm1 & Hall1 & Ho1).
    set (best' := best_in_row i 0 r best) in *.
    destruct (IH (i + 1) best') as (Hm2 & Hall2 & Ho2).
    split; [eapply ele_trans; eauto|]. split.
    + intros a row b c Ha Hb. destruct a as [|a].
      * cbn in Ha. inversion Ha; subst row. eapply ele_trans; [eapply Hall1; eauto | exact Hm2].
      * cbn in Ha. eapply Hall2; eauto.
    + destruct Ho2 as [Ho2 | (a & row & b & c & Ha & Hb & Ho2)].
      * rewrite Ho2. destruct Ho1 as [Ho1 | (k & c & Hk & Ho1)].
        -- left. exact Ho1.
        -- right. exists 0%nat, r, k, c. split; [reflexivity|]. split; [exact Hk|].
           rewrite Ho1. replace (i + Z.of_nat 0) with i by lia.
           replace (0 + Z.of_nat k) with (Z.of_nat k) by lia. reflexivity.
      * right. exists (S a), row, b, c. split; [exact Ha|]. split; [exact Hb|].
        rewrite Ho2. replace (i + 1 + Z.of_nat a) with (i + Z.of_nat (S a)) by lia. reflexivity.
Qed.

(** ------------------------------------------------------------------ every cell of the table, by position *)

Section Table.
Variable P : params.
Variable local : bool.

Lemma RowOK_nth rx : forall ys ry cs k c,
  RowOK P local rx ry ys cs -> nth_error cs k = Some c ->
  cellOK local (R P local rx (rev (firstn (S k) ys) ++ ry)) c.
Proof.
  induction ys as [|b ys IH]; intros ry cs k c Hcs Hk.
  - inversion Hcs; subst. destruct k; discriminate.
  - inversion Hcs as [|ry' b' ys' c0 cs' Hc0 Hcs']; subst.
    destruct k as [|k].
    + cbn in Hk. inversion Hk; subst c0. cbn. exact Hc0.
    + cbn in Hk. specialize (IH _ _ _ _ Hcs' Hk).
      change (firstn (S (S k)) (b :: ys)) with (b :: firstn (S k) ys).
      cbn [rev]. rewrite <- app_assoc. exact IH.
Qed.

Lemma RowOK_length rx : forall ys ry cs, RowOK P local rx ry ys cs -> length cs = length ys.
Proof.
  induction ys as [|b ys IH]; intros ry cs H; inversion H; subst; cbn; auto.
  f_equal. eapply IH; eauto.
Qed.

Lemma FullRow_nth rx ys row b c :
  FullRow P local rx ys row -> nth_error row b = Some c ->
  cellOK local (R P local rx (rev (firstn b ys))) c.
Proof.
  intros (c0 & cs & -> & Hc0 & Hcs) Hb. destruct b as [|b].
  - cbn in Hb. inversion Hb; subst. cbn. exact Hc0.
  - cbn in Hb. pose proof (RowOK_nth _ _ _ _ _ _ Hcs Hb) as H. rewrite app_nil_r in H. exact H.
Qed.

Lemma FullRow_length rx ys row : FullRow P local rx ys row -> length row = S (length ys).
Proof. intros (c0 & cs & -> & _ & Hcs). cbn. f_equal. eapply RowOK_length; eauto. Qed.

Lemma rows_from_nth ys : forall xs rx prev a row,
  FullRow P local rx ys prev ->
  nth_error (rows_from P local prev xs ys) a = Some row ->
  FullRow P local (rev (firstn (S a) xs) ++ rx) ys row.
Proof.
  induction xs as [|x xs IH]; intros rx prev a row Hprev Ha.
  - destruct a; discriminate.
  - cbn [rows_from] in Ha.
    pose proof (next_row_OK P local x rx ys prev Hprev) as Hnext.
    destruct a as [|a].
    + cbn in Ha. inversion Ha; subst row. cbn. exact Hnext.
    + cbn in Ha. specialize (IH _ _ _ _ Hnext Ha).
      change (firstn (S (S a)) (x :: xs)) with (x :: firstn (S a) xs).
      cbn [rev]. rewrite <- app_assoc. exact IH.
Qed.

Lemma rows_from_length ys : forall xs prev, length (rows_from P local prev xs ys) = length xs.
Proof. induction xs as [|x xs IH]; intros prev; cbn; auto. Qed.

Lemma table_nth xs ys a row :
  nth_error (table P local xs ys) a = Some row ->
  FullRow P local (rev (firstn a xs)) ys row.
Proof.
  unfold table. intros Ha. destruct a as [|a].
  - cbn in Ha. inversion Ha; subst. cbn. apply row0_OK.
  - cbn in Ha. pose proof (rows_from_nth ys xs [] _ a row (row0_OK P local ys) Ha) as H.
    rewrite app_nil_r in H. exact H.
Qed.

Lemma table_length xs ys : length (table P local xs ys) = S (length xs).
Proof. unfold table. cbn. f_equal. apply rows_from_length. Qed.

End Table.

(** ------------------------------------------------------------------ the local result *)

Lemma firstn_min {A} (l : list A) n : firstn n l = firstn (Nat.min n (length l)) l.
Proof.
  destruct (Nat.le_gt_cases n (length l)) as [H | H].
  - rewrite Nat.min_l by exact H. reflexivity.
  - rewrite Nat.min_r by lia. rewrite firstn_all. apply firstn_all2. lia.
Qed.

Lemma align_local_sound P xs ys v p i j :
  align_local P xs ys = (v, p, i, j) ->
  (forall z, v = Some z ->
     rscore P true (rev p) (rev (firstn (Z.to_nat i) xs)) (rev (firstn (Z.to_nat j) ys)) = Some z) /\
  (forall i' j' q, ele (rscore P true (SM :: q) (rev (firstn i' xs)) (rev (firstn j' ys))) v) /\
  (forall z, v = Some z -> 0 <= i <= zlen xs /\ 0 <= j <= zlen ys).
Proof.
  unfold align_local.
  destruct (best_in_rows_spec (table P true xs ys) 0 (None, [], 0, 0)) as (_ & Hall & Horig).
  destruct (best_in_rows 0 (table P true xs ys) (None, [], 0, 0)) as [[[v0 q0] i0] j0] eqn:Eb.
  intros H. inversion H; subst v p i j. clear H.
  split; [|split].
  - intros z Hz. rewrite rev_involutive.
    destruct Horig as [Ho | (a & row & b & c & Ha & Hb & Ho)].
    + injection Ho as E1 E2 E3 E4. rewrite E1 in Hz. discriminate.
    + injection Ho as E1 E2 E3 E4. rewrite E1 in Hz. rewrite E2, E3, E4.
      pose proof (FullRow_nth _ _ _ _ _ _ _ (table_nth _ _ _ _ _ _ Ha) Hb) as (_ & _ & _ & (Hatt & _)).
      replace (Z.to_nat (0 + Z.of_nat a)) with a by lia.
      rewrite !Nat2Z.id.
      destruct (Hatt _ Hz) as (Hs & _). exact Hs.
  - intros i' j' q.
    rewrite (firstn_min xs i'), (firstn_min ys j').
    set (a := Nat.min i' (length xs)). set (b := Nat.min j' (length ys)).
    destruct (nth_error (table P true xs ys) a) as [row|] eqn:Ha.
    2:{ apply nth_error_None in Ha. rewrite table_length in Ha. unfold a in Ha. lia. }
    pose proof (table_nth _ _ _ _ _ _ Ha) as Hrow.
    destruct (nth_error row b) as [c|] eqn:Hb.
    2:{ apply nth_error_None in Hb. rewrite (FullRow_length _ _ _ _ _ Hrow) in Hb. unfold b in Hb. lia. }
    pose proof (FullRow_nth _ _ _ _ _ _ _ Hrow Hb) as (_ & _ & _ & (_ & Hopt)).
    eapply ele_trans; [apply Hopt|].
    pose proof (Hall _ _ _ _ Ha Hb) as Hle. unfold bval in Hle. cbn [fst] in Hle. exact Hle.
  - intros z Hz.
    destruct Horig as [Ho | (a & row & b & c & Ha & Hb & Ho)].
    + injection Ho as E1 E2 E3 E4. rewrite E1 in Hz. discriminate.
    + injection Ho as E1 E2 E3 E4. rewrite E3, E4.
      assert (La : (a < S (length xs))%nat).
      { rewrite <- (table_length P true xs ys). apply nth_error_Some. rewrite Ha. discriminate. }
      assert (Lb : (b < S (length ys))%nat).
      { rewrite <- (FullRow_length _ _ _ _ _ (table_nth _ _ _ _ _ _ Ha)). apply nth_error_Some. rewrite Hb. discriminate. }
      unfold zlen. lia.
Qed.

(** ------------------------------------------------------------------ validity of the local rows *)

Lemma rscore_local_fits P : forall q rx ry z,
  rscore P true q rx ry = Some z ->
  (count_x q <= length rx)%nat /\ (count_y q <= length ry)%nat /\ ~ In SB q.
Proof.
  induction q as [|s q IH]; intros rx ry z H.
  - unfold count_x, count_y. cbn. repeat split; try lia; try (intros []).
  - destruct s; cbn [rscore] in H; try discriminate.
    + destruct rx as [|a rx]; [discriminate|].
      apply eplus_some_inv in H. destruct H as (? & ? & _ & H & _).
      apply eplus_some_inv in H. destruct H as (? & ? & _ & H & _).
      destruct (IH _ _ _ H) as (Hx & Hy & HB).
      unfold count_x, count_y in *. cbn. repeat split; try lia.
      intros [E|E]; [discriminate | auto].
    + destruct ry as [|b ry]; [discriminate|].
      apply eplus_some_inv in H. destruct H as (? & ? & _ & H & _).
      apply eplus_some_inv in H. destruct H as (? & ? & _ & H & _).
      destruct (IH _ _ _ H) as (Hx & Hy & HB).
      unfold count_x, count_y in *. cbn. repeat split; try lia.
      intros [E|E]; [discriminate | auto].
    + destruct rx as [|a rx]; [discriminate|]. destruct ry as [|b ry]; [discriminate|].
      apply eplus_some_inv in H. destruct H as (? & ? & _ & H & _).
      apply eplus_some_inv in H. destruct H as (? & ? & _ & H & _).
      destruct (IH _ _ _ H) as (Hx & Hy & HB).
      unfold count_x, count_y in *. cbn. repeat split; try lia.
      intros [E|E]; [discriminate | auto].
Qed.

Lemma residues_sub l n m : residues l -> residues (skipn n (firstn m l)).
Proof.
  unfold residues. intros H.
  assert (H1 : Forall (fun a => a <> GAP) (firstn m l)).
  { rewrite <- (firstn_skipn m l) in H. apply Forall_app in H. tauto. }
  rewrite <- (firstn_skipn n (firstn m l)) in H1. apply Forall_app in H1. tauto.
Qed.

(** the local rows are an alignment of the contiguous parts xs[i-cx : i], ys[j-cy : j] *)
Lemma local_alignment_valid P xs ys z p i j :
  residues xs -> residues ys ->
  align_local P xs ys = (Some z, p, i, j) ->
  let ni := Z.to_nat i in let nj := Z.to_nat j in
  let sx := skipn (ni - count_x p) (firstn ni xs) in
  let sy := skipn (nj - count_y p) (firstn nj ys) in
  (count_x p <= ni <= length xs)%nat /\ (count_y p <= nj <= length ys)%nat /\
  valid_rows (fst (rows_of p sx sy)) (snd (rows_of p sx sy)) sx sy /\
  path_of_rows (fst (rows_of p sx sy)) (snd (rows_of p sx sy)) = p.
Proof.
  intros Fx Fy H ni nj sx sy.
  destruct (align_local_sound _ _ _ _ _ _ _ H) as (Hatt & _ & Hpos).
  specialize (Hatt z eq_refl). destruct (Hpos z eq_refl) as (Hi & Hj). unfold zlen in Hi, Hj.
  apply rscore_local_fits in Hatt. destruct Hatt as (Hx & Hy & HB).
  unfold count_x, count_y in Hx, Hy. rewrite !filter_length_rev, !rev_length, !firstn_length in Hx, Hy.
  fold (count_x p) in Hx. fold (count_y p) in Hy. fold ni in Hx. fold nj in Hy.
  assert (Lx : (ni <= length xs)%nat) by (unfold ni; lia).
  assert (Ly : (nj <= length ys)%nat) by (unfold nj; lia).
  assert (Hfit : fits p sx sy).
  { unfold fits, sx, sy. rewrite !skipn_length, !firstn_length. repeat split; try lia.
    intros Hin. apply HB. apply -> in_rev. exact Hin. }
  destruct (rows_of_valid p sx sy Hfit (residues_sub _ _ _ Fx) (residues_sub _ _ _ Fy)) as (Hl & H1 & H2 & H3).
  split; [lia|]. split; [lia|]. split; [|exact H3].
  unfold valid_rows. repeat split; auto. rewrite H3. destruct Hfit as (_ & _ & HB'). exact HB'.
Qed.

Lemma local_example :
  align_local ex_params [0; 1; 2; 3; 3; 3; 2; 0] [1; 3; 3; 2] = (Some 29, [SM; SM; SM], 7, 4).
Proof. vm_compute. reflexivity. Qed.
