(** C15 — the path metric of every leaf-labelled binary tree (datatype [btree]) with positive branch
    lengths is a binary tree metric: its edges form a maximal compatible split system. *)
From Coq Require Import QArith Qminmax List Bool Arith ZArith Lia Lqa Permutation.
From CG3 Require Import Model.NJ Spec.DistSpec Spec.SplitSpec Proofs.NJProofs Proofs.NJRunProofs Proofs.NJCompleteProofs
     Proofs.UPGMAProofs Proofs.NJQuartetProofs Proofs.NJCherryProofs Proofs.NJTreeMetricProofs.
Import ListNotations.
Open Scope Q_scope.

Lemma inN_iff c x : inN c x = true <-> In x (tips c).
Proof.
  unfold inN. rewrite existsb_exists. split.
  - intros (y & Hy & E). apply Nat.eqb_eq in E. subst. exact Hy.
  - intros H. exists x. split; [exact H|apply Nat.eqb_refl].
Qed.

Lemma inN_false c x : inN c x = false <-> ~ In x (tips c).
Proof. rewrite <- inN_iff. destruct (inN c x); split; intros; congruence. Qed.

Lemma tips_nonempty c : exists x, In x (tips c).
Proof.
  induction c as [k|l1 c1 [x Hx] l2 c2 _]; [exists k; left; reflexivity|]. exists x. cbn. apply in_or_app. left. exact Hx.
Qed.

Lemma subs_tips c : forall l a, In (l, a) (subs c) -> incl (tips a) (tips c).
Proof.
  induction c as [k|l1 c1 IH1 l2 c2 IH2]; intros l a H; [destruct H|]. cbn [subs] in H. cbn [tips].
  destruct H as [E|[E|H]].
  - injection E as _ <-. apply incl_appl, incl_refl.
  - injection E as _ <-. apply incl_appr, incl_refl.
  - apply in_app_or in H. destruct H as [H|H]; [apply incl_appl; exact (IH1 l a H)|apply incl_appr; exact (IH2 l a H)].
Qed.

Lemma subs_pos c : bpos c -> forall l a, In (l, a) (subs c) -> 0 < l.
Proof.
  induction c as [k|l1 c1 IH1 l2 c2 IH2]; intros Hp l a H; [destruct H|]. cbn in Hp. destruct Hp as (P1 & P2 & B1 & B2).
  cbn [subs] in H. destruct H as [E|[E|H]]; [injection E as <- _; exact P1|injection E as <- _; exact P2|].
  apply in_app_or in H. destruct H as [H|H]; [exact (IH1 B1 l a H)|exact (IH2 B2 l a H)].
Qed.

Lemma nodup_app_disj {A} (l1 l2 : list A) x : NoDup (l1 ++ l2) -> In x l1 -> In x l2 -> False.
Proof.
  induction l1 as [|a l1 IH]; intros Hnd H1 H2; [destruct H1|]. cbn in Hnd. inversion Hnd as [|? ? Hnin Hnd']; subst.
  destruct H1 as [->|H1]; [apply Hnin; apply in_or_app; right; exact H2|exact (IH Hnd' H1 H2)].
Qed.

Lemma nodup_app_l {A} (l1 l2 : list A) : NoDup (l1 ++ l2) -> NoDup l1.
Proof. induction l1 as [|a l1 IH]; intros H; [constructor|]. cbn in H. inversion H; subst. constructor; [intros Hin; apply H2; apply in_or_app; left; exact Hin|apply IH; assumption]. Qed.

Lemma nodup_app_r {A} (l1 l2 : list A) : NoDup (l1 ++ l2) -> NoDup l2.
Proof. induction l1 as [|a l1 IH]; intros H; [exact H|]. cbn in H. inversion H; subst. apply IH; assumption. Qed.

(** two subtrees of a tree are nested or disjoint *)
Lemma subs_laminar c : NoDup (tips c) -> forall l a l' b, In (l, a) (subs c) -> In (l', b) (subs c) ->
  incl (tips a) (tips b) \/ incl (tips b) (tips a) \/ (forall x, In x (tips a) -> In x (tips b) -> False).
Proof.
  induction c as [k|l1 c1 IH1 l2 c2 IH2]; intros Hnd l a l' b Ha Hb; [destruct Ha|].
  cbn [tips] in Hnd. pose proof (nodup_app_l _ _ Hnd) as Hn1. pose proof (nodup_app_r _ _ Hnd) as Hn2.
  assert (Hdisj : forall x, In x (tips c1) -> In x (tips c2) -> False) by (intros x; apply nodup_app_disj; exact Hnd).
  (* classify each of a, b: c1 itself, c2 itself, inside c1, inside c2 *)
  assert (Hcls : forall l0 a0, In (l0, a0) (subs (BN l1 c1 l2 c2)) ->
            (a0 = c1 \/ In (l0, a0) (subs c1)) \/ (a0 = c2 \/ In (l0, a0) (subs c2))).
  { intros l0 a0 H. cbn [subs] in H. destruct H as [E|[E|H]]; [injection E as _ <-; auto|injection E as _ <-; auto|].
    apply in_app_or in H. destruct H; auto. }
  assert (Hin1 : forall l0 a0, a0 = c1 \/ In (l0, a0) (subs c1) -> incl (tips a0) (tips c1)).
  { intros l0 a0 [->|H]; [apply incl_refl|exact (subs_tips c1 l0 a0 H)]. }
  assert (Hin2 : forall l0 a0, a0 = c2 \/ In (l0, a0) (subs c2) -> incl (tips a0) (tips c2)).
  { intros l0 a0 [->|H]; [apply incl_refl|exact (subs_tips c2 l0 a0 H)]. }
  destruct (Hcls l a Ha) as [Ha1|Ha2]; destruct (Hcls l' b Hb) as [Hb1|Hb2].
  - destruct Ha1 as [->|Ha1]; [right; left; exact (Hin1 l' b Hb1)|].
    destruct Hb1 as [->|Hb1]; [left; exact (subs_tips c1 l a Ha1)|]. exact (IH1 Hn1 l a l' b Ha1 Hb1).
  - right; right. intros x Hxa Hxb. exact (Hdisj x (Hin1 l a Ha1 x Hxa) (Hin2 l' b Hb2 x Hxb)).
  - right; right. intros x Hxa Hxb. exact (Hdisj x (Hin1 l' b Hb1 x Hxb) (Hin2 l a Ha2 x Hxa)).
  - destruct Ha2 as [->|Ha2]; [right; left; exact (Hin2 l' b Hb2)|].
    destruct Hb2 as [->|Hb2]; [left; exact (subs_tips c2 l a Ha2)|]. exact (IH2 Hn2 l a l' b Ha2 Hb2).
Qed.

(** below every subtree-edge there is a tip, and outside it another one *)
Lemma subs_outside c : NoDup (tips c) -> forall l a, In (l, a) (subs c) -> exists x, In x (tips c) /\ ~ In x (tips a).
Proof.
  destruct c as [k|l1 c1 l2 c2]; intros Hnd l a H; [destruct H|]. cbn [tips] in *.
  assert (Hdisj : forall x, In x (tips c1) -> In x (tips c2) -> False) by (intros x; apply nodup_app_disj; exact Hnd).
  cbn [subs] in H. destruct H as [E|[E|H]].
  - injection E as _ <-. destruct (tips_nonempty c2) as (x & Hx). exists x. split; [apply in_or_app; right; exact Hx|]. intros H1. exact (Hdisj x H1 Hx).
  - injection E as _ <-. destruct (tips_nonempty c1) as (x & Hx). exists x. split; [apply in_or_app; left; exact Hx|]. intros H2. exact (Hdisj x Hx H2).
  - apply in_app_or in H. destruct H as [H|H].
    + destruct (tips_nonempty c2) as (x & Hx). exists x. split; [apply in_or_app; right; exact Hx|]. intros Hxa. exact (Hdisj x (subs_tips c1 l a H x Hxa) Hx).
    + destruct (tips_nonempty c1) as (x & Hx). exists x. split; [apply in_or_app; left; exact Hx|]. intros Hxa. exact (Hdisj x Hx (subs_tips c2 l a H x Hxa)).
Qed.

(** the pendant edge of every tip *)
Lemma subs_leaf c k : In k (tips c) -> c = BT k \/ exists l, In (l, BT k) (subs c).
Proof.
  induction c as [k0|l1 c1 IH1 l2 c2 IH2]; intros H.
  - cbn in H. destruct H as [->|[]]. left. reflexivity.
  - right. cbn [tips] in H. apply in_app_or in H. cbn [subs]. destruct H as [H|H].
    + destruct (IH1 H) as [->|(l & Hl)]; [exists l1; left; reflexivity|exists l; right; right; apply in_or_app; left; exact Hl].
    + destruct (IH2 H) as [->|(l & Hl)]; [exists l2; right; left; reflexivity|exists l; right; right; apply in_or_app; right; exact Hl].
Qed.

Lemma compat_all4 n s t x1 x2 x3 x4 : compat n s t ->
  (x1 < n)%nat -> s x1 = true -> t x1 = true ->
  (x2 < n)%nat -> s x2 = true -> t x2 = false ->
  (x3 < n)%nat -> s x3 = false -> t x3 = true ->
  (x4 < n)%nat -> s x4 = false -> t x4 = false -> False.
Proof.
  intros (a & b & H) H1 S1 T1 H2 S2 T2 H3 S3 T3 H4 S4 T4.
  destruct a, b; [exact (H x1 H1 (conj S1 T1))|exact (H x2 H2 (conj S2 T2))|exact (H x3 H3 (conj S3 T3))|exact (H x4 H4 (conj S4 T4))].
Qed.

Lemma iff_same_split n a t v : (forall x, (x < n)%nat -> (t x = v <-> In x (tips a))) -> same_split n (inN a) t.
Proof.
  intros H. destruct v; [left|right]; intros x Hx; specialize (H x Hx).
  - destruct (inN a x) eqn:E.
    + apply inN_iff in E. symmetry. apply H. exact E.
    + apply inN_false in E. destruct (t x) eqn:T; [exfalso; apply E; apply H; reflexivity|reflexivity].
  - destruct (inN a x) eqn:E.
    + apply inN_iff in E. apply H in E. rewrite E. reflexivity.
    + apply inN_false in E. destruct (t x) eqn:T; [reflexivity|exfalso; apply E; apply H; reflexivity].
Qed.

Section TreeSys.
  Variables (n : nat) (tau : nat -> bool).

  (** descent: a side of tau that lies inside the subtree c0 is the tip set of c0 or of a subtree of it *)
  Lemma desc r : forall c0, NoDup (tips c0) ->
    (forall l a, In (l, a) (subs c0) -> compat n (inN a) tau) ->
    (forall x, In x (tips c0) -> (x < n)%nat) ->
    (forall x, (x < n)%nat -> tau x = negb r -> In x (tips c0)) ->
    (exists x, In x (tips c0) /\ tau x = negb r) ->
    (exists w, (w < n)%nat /\ ~ In w (tips c0) /\ tau w = r) ->
    (forall x, (x < n)%nat -> (tau x = negb r <-> In x (tips c0))) \/
    exists l a, In (l, a) (subs c0) /\ forall x, (x < n)%nat -> (tau x = negb r <-> In x (tips a)).
  Proof.
    induction c0 as [k|l1 c1 IH1 l2 c2 IH2]; intros Hnd Hcomp Hlt H1 H2 Hout.
    - left. intros x Hx. split; [apply H1; exact Hx|]. intros Hin. destruct H2 as (x0 & Hx0 & T0).
      cbn in Hin, Hx0. destruct Hin as [<-|[]]. destruct Hx0 as [<-|[]]. exact T0.
    - cbn [tips] in *.
      pose proof (nodup_app_l _ _ Hnd) as Hn1. pose proof (nodup_app_r _ _ Hnd) as Hn2.
      assert (Hdisj : forall x, In x (tips c1) -> In x (tips c2) -> False) by (intros x; apply nodup_app_disj; exact Hnd).
      destruct Hout as (w & Hw & Hwout & Tw).
      assert (Hsub1 : forall l a, In (l, a) (subs c1) -> In (l, a) (subs (BN l1 c1 l2 c2))) by (intros; cbn [subs]; right; right; apply in_or_app; left; assumption).
      assert (Hsub2 : forall l a, In (l, a) (subs c2) -> In (l, a) (subs (BN l1 c1 l2 c2))) by (intros; cbn [subs]; right; right; apply in_or_app; right; assumption).
      destruct (existsb (fun x => Bool.eqb (tau x) (negb r)) (tips c1)) eqn:M1; [destruct (existsb (fun x => Bool.eqb (tau x) (negb r)) (tips c2)) eqn:M2|].
      + (* the side meets both children: it contains both *)
        apply existsb_exists in M1. destruct M1 as (x1 & Hx1 & T1). apply eqb_prop in T1.
        apply existsb_exists in M2. destruct M2 as (x2 & Hx2 & T2). apply eqb_prop in T2.
        assert (Hall : forall cc xa xb, (cc = c1 /\ In xa (tips c1) /\ In xb (tips c2) \/ cc = c2 /\ In xa (tips c2) /\ In xb (tips c1)) ->
                  tau xa = negb r -> tau xb = negb r -> (exists l, In (l, cc) (subs (BN l1 c1 l2 c2))) ->
                  forall y, In y (tips cc) -> tau y = negb r).
        { intros cc xa xb Hcc Ta Tb (l & Hl) y Hy. destruct (bool_dec (tau y) (negb r)) as [?|Ny]; [assumption|exfalso].
          assert (Ty : tau y = r) by (destruct (tau y), r; cbn in *; congruence).
          assert (Hxa : In xa (tips cc)) by (destruct Hcc as [(-> & ? & ?)|(-> & ? & ?)]; assumption).
          assert (Hxb : ~ In xb (tips cc)) by (destruct Hcc as [(-> & ? & ?)|(-> & ? & ?)]; intros ?; eapply Hdisj; eassumption).
          assert (Hwc : ~ In w (tips cc)).
          { intros Hin. apply Hwout. destruct Hcc as [(-> & _)|(-> & _)]; apply in_or_app; [left|right]; exact Hin. }
          assert (Hlt' : forall z, In z (tips cc) -> (z < n)%nat).
          { intros z Hz. apply Hlt. destruct Hcc as [(-> & _)|(-> & _)]; apply in_or_app; [left|right]; exact Hz. }
          assert (Hxbn : (xb < n)%nat).
          { apply Hlt. destruct Hcc as [(-> & _ & ?)|(-> & _ & ?)]; apply in_or_app; [right|left]; assumption. }
          pose proof (Hcomp l cc Hl) as Hc.
          destruct r; cbn [negb] in *.
          - apply (compat_all4 n (inN cc) tau y xa w xb Hc); try assumption; try (apply Hlt'; assumption);
              try (apply inN_iff; assumption); try (apply inN_false; assumption).
          - apply (compat_all4 n (inN cc) tau xa y xb w Hc); try assumption; try (apply Hlt'; assumption);
              try (apply inN_iff; assumption); try (apply inN_false; assumption). }
        left. intros x Hx. split; [apply H1; exact Hx|]. intros Hin. apply in_app_or in Hin. destruct Hin as [Hin|Hin].
        * apply (Hall c1 x1 x2); auto. exists l1. cbn [subs]. left. reflexivity.
        * apply (Hall c2 x2 x1); auto. exists l2. cbn [subs]. right. left. reflexivity.
      + (* the side avoids c2: descend into c1 *)
        assert (Hno2 : forall x, In x (tips c2) -> tau x <> negb r).
        { intros x Hx E. assert (existsb (fun x => Bool.eqb (tau x) (negb r)) (tips c2) = true); [|congruence].
          apply existsb_exists. exists x. split; [exact Hx|apply eqb_true_iff; exact E]. }
        destruct (IH1 Hn1) as [Hl|(l & a & Hla & Hl)].
        * intros l a Hla. apply (Hcomp l a), Hsub1, Hla.
        * intros x Hx. apply Hlt, in_or_app. left. exact Hx.
        * intros x Hx Tx. specialize (H1 x Hx Tx). apply in_app_or in H1. destruct H1 as [?|Hx2]; [assumption|exfalso; exact (Hno2 x Hx2 Tx)].
        * destruct H2 as (x & Hx & Tx). apply in_app_or in Hx. destruct Hx as [Hx|Hx]; [exists x; auto|exfalso; exact (Hno2 x Hx Tx)].
        * exists w. split; [exact Hw|]. split; [intros Hin; apply Hwout, in_or_app; left; exact Hin|exact Tw].
        * right. exists l1, c1. split; [cbn [subs]; left; reflexivity|exact Hl].
        * right. exists l, a. split; [apply Hsub1; exact Hla|exact Hl].
      + (* the side avoids c1: descend into c2 *)
        assert (Hno1 : forall x, In x (tips c1) -> tau x <> negb r).
        { intros x Hx E. assert (existsb (fun x => Bool.eqb (tau x) (negb r)) (tips c1) = true); [|congruence].
          apply existsb_exists. exists x. split; [exact Hx|apply eqb_true_iff; exact E]. }
        destruct (IH2 Hn2) as [Hl|(l & a & Hla & Hl)].
        * intros l a Hla. apply (Hcomp l a), Hsub2, Hla.
        * intros x Hx. apply Hlt, in_or_app. right. exact Hx.
        * intros x Hx Tx. specialize (H1 x Hx Tx). apply in_app_or in H1. destruct H1 as [Hx1|?]; [exfalso; exact (Hno1 x Hx1 Tx)|assumption].
        * destruct H2 as (x & Hx & Tx). apply in_app_or in Hx. destruct Hx as [Hx|Hx]; [exfalso; exact (Hno1 x Hx Tx)|exists x; auto].
        * exists w. split; [exact Hw|]. split; [intros Hin; apply Hwout, in_or_app; right; exact Hin|exact Tw].
        * right. exists l2, c2. split; [cbn [subs]; right; left; reflexivity|exact Hl].
        * right. exists l, a. split; [apply Hsub2; exact Hla|exact Hl].
  Qed.
End TreeSys.

Lemma in_bedges c e : In e (bedges c) <-> exists l a, In (l, a) (subs c) /\ e = (inN a, l).
Proof.
  unfold bedges. rewrite in_map_iff. split.
  - intros ((l & a) & <- & H). exists l, a. auto.
  - intros (l & a & H & ->). exists (l, a). auto.
Qed.

Section BtreeSys.
  Variables (n : nat) (c : btree).
  Hypothesis Hn : (2 <= n)%nat.
  Hypothesis Hpos : bpos c.
  Hypothesis Hnd : NoDup (tips c).
  Hypothesis Hcover : forall x, In x (tips c) <-> (x < n)%nat.

  Lemma sub_compat l a l' b : In (l, a) (subs c) -> In (l', b) (subs c) -> compat n (inN a) (inN b).
  Proof.
    intros Ha Hb. destruct (subs_laminar c Hnd l a l' b Ha Hb) as [H|[H|H]].
    - exists true, false. intros k _ [H1 H2]. apply inN_iff in H1. apply inN_false in H2. apply H2, H, H1.
    - exists false, true. intros k _ [H1 H2]. apply inN_false in H1. apply inN_iff in H2. apply H1, H, H2.
    - exists true, true. intros k _ [H1 H2]. apply inN_iff in H1. apply inN_iff in H2. exact (H k H1 H2).
  Qed.

  Lemma btree_sys : split_sys n (bedges c).
  Proof.
    constructor.
    - intros e He. apply in_bedges in He. destruct He as (l & a & Hla & ->). cbn. exact (subs_pos c Hpos l a Hla).
    - intros e He. apply in_bedges in He. destruct He as (l & a & Hla & ->). cbn [sg fst].
      destruct (tips_nonempty a) as (x & Hx). destruct (subs_outside c Hnd l a Hla) as (y & Hy & Hya).
      exists x, y. split; [apply Hcover, (subs_tips c l a Hla), Hx|]. split; [apply Hcover, Hy|].
      rewrite (proj2 (inN_iff a x) Hx), (proj2 (inN_false a y) Hya). discriminate.
    - intros e f He Hf. apply in_bedges in He. destruct He as (l & a & Hla & ->). apply in_bedges in Hf. destruct Hf as (l' & b & Hlb & ->).
      cbn [sg fst]. exact (sub_compat l a l' b Hla Hlb).
    - intros k Hk. destruct (subs_leaf c k (proj2 (Hcover k) Hk)) as [Ec|(l & Hl)].
      + exfalso. assert (H0 : (0 < n)%nat) by lia. assert (H1 : (1 < n)%nat) by lia.
        apply Hcover in H0. apply Hcover in H1. rewrite Ec in H0, H1. cbn in H0, H1.
        destruct H0 as [E0|[]]. destruct H1 as [E1|[]]. lia.
      + exists (inN (BT k), l). split; [apply in_bedges; exists l, (BT k); auto|]. cbn [sg fst].
        rewrite <- (side_ptip n k Hk). unfold side. apply cnt_ext. intros x _. unfold inN, ptip. cbn. rewrite !orb_false_r, Nat.eqb_refl. reflexivity.
    - intros t Hprop Hcomp.
      assert (HcompS : forall l a, In (l, a) (subs c) -> compat n (inN a) t).
      { intros l a Hla. apply (Hcomp (inN a, l)). apply in_bedges. exists l, a. auto. }
      destruct c as [k|l1 c1 l2 c2] eqn:Ec.
      { exfalso. assert (H0 : (0 < n)%nat) by lia. assert (H1 : (1 < n)%nat) by lia.
        apply Hcover in H0. apply Hcover in H1. cbn in H0, H1. destruct H0 as [E0|[]]. destruct H1 as [E1|[]]. lia. }
      cbn [tips] in *.
      pose proof (nodup_app_l _ _ Hnd) as Hn1. pose proof (nodup_app_r _ _ Hnd) as Hn2.
      assert (Hdisj : forall x, In x (tips c1) -> In x (tips c2) -> False) by (intros x; apply nodup_app_disj; exact Hnd).
      assert (Hlt1 : forall x, In x (tips c1) -> (x < n)%nat) by (intros x Hx; apply Hcover, in_or_app; left; exact Hx).
      assert (Hlt2 : forall x, In x (tips c2) -> (x < n)%nat) by (intros x Hx; apply Hcover, in_or_app; right; exact Hx).
      assert (He1 : In (l1, c1) (subs (BN l1 c1 l2 c2))) by (cbn [subs]; left; reflexivity).
      assert (He2 : In (l2, c2) (subs (BN l1 c1 l2 c2))) by (cbn [subs]; right; left; reflexivity).
      assert (Hsub1 : forall l a, In (l, a) (subs c1) -> In (l, a) (subs (BN l1 c1 l2 c2))) by (intros; cbn [subs]; right; right; apply in_or_app; left; assumption).
      assert (Hsub2 : forall l a, In (l, a) (subs c2) -> In (l, a) (subs (BN l1 c1 l2 c2))) by (intros; cbn [subs]; right; right; apply in_or_app; right; assumption).
      assert (Hfinish : forall l a v, In (l, a) (subs (BN l1 c1 l2 c2)) -> (forall x, (x < n)%nat -> (t x = v <-> In x (tips a))) ->
                exists e, In e (bedges (BN l1 c1 l2 c2)) /\ same_split n (sg e) t).
      { intros l a v Hla Hiff. exists (inN a, l). split; [apply in_bedges; exists l, a; auto|]. cbn [sg fst]. exact (iff_same_split n a t v Hiff). }
      (* a generic step: if t takes both values inside cA then it is constant on the sibling cB and we descend into cA *)
      assert (Hsplit : forall lA cA cB, In (lA, cA) (subs (BN l1 c1 l2 c2)) ->
                (forall l a, In (l, a) (subs cA) -> In (l, a) (subs (BN l1 c1 l2 c2))) ->
                NoDup (tips cA) -> (forall x, In x (tips cA) -> (x < n)%nat) -> (forall x, In x (tips cB) -> (x < n)%nat) ->
                (forall x, (x < n)%nat -> In x (tips cA) \/ In x (tips cB)) ->
                (forall x, In x (tips cA) -> In x (tips cB) -> False) ->
                forall x y, In x (tips cA) -> In y (tips cA) -> t x = true -> t y = false ->
                exists e, In e (bedges (BN l1 c1 l2 c2)) /\ same_split n (sg e) t).
      { intros lA cA cB HeA HsubA HndA HltA HltB Hcov HdAB x y Hx Hy Tx Ty.
        destruct (tips_nonempty cB) as (z0 & Hz0).
        assert (Hconst : forall z, In z (tips cB) -> t z = t z0).
        { intros z Hz. destruct (bool_dec (t z) (t z0)) as [?|Nz]; [assumption|exfalso].
          assert (HzA : ~ In z (tips cA)) by (intros H; exact (HdAB z H Hz)).
          assert (Hz0A : ~ In z0 (tips cA)) by (intros H; exact (HdAB z0 H Hz0)).
          pose proof (HcompS lA cA HeA) as Hc.
          destruct (t z) eqn:Tz; destruct (t z0) eqn:Tz0; try congruence.
          - apply (compat_all4 n (inN cA) t x y z z0 Hc); try assumption; try (apply HltA; assumption); try (apply HltB; assumption);
              try (apply inN_iff; assumption); try (apply inN_false; assumption).
          - apply (compat_all4 n (inN cA) t x y z0 z Hc); try assumption; try (apply HltA; assumption); try (apply HltB; assumption);
              try (apply inN_iff; assumption); try (apply inN_false; assumption). }
        set (r := t z0) in *.
        destruct (desc n t r cA HndA) as [Hl|(l & a & Hla & Hl)].
        - intros l a Hla. apply (HcompS l a), HsubA, Hla.
        - exact HltA.
        - intros w Hw Tw. destruct (Hcov w Hw) as [?|HwB]; [assumption|exfalso]. rewrite (Hconst w HwB) in Tw. destruct r; discriminate.
        - destruct r; [exists y|exists x]; auto.
        - exists z0. split; [apply HltB; exact Hz0|]. split; [intros H; exact (HdAB z0 H Hz0)|reflexivity].
        - exact (Hfinish lA cA (negb r) HeA Hl).
        - exact (Hfinish l a (negb r) (HsubA l a Hla) Hl). }
      assert (Hcov12 : forall x, (x < n)%nat -> In x (tips c1) \/ In x (tips c2)) by (intros x Hx; apply in_app_or, Hcover, Hx).
      assert (Hcov21 : forall x, (x < n)%nat -> In x (tips c2) \/ In x (tips c1)) by (intros w Hw; destruct (Hcov12 w Hw); auto).
      assert (Hdisj21 : forall x, In x (tips c2) -> In x (tips c1) -> False) by (intros w H2 H1; exact (Hdisj w H1 H2)).
      destruct (existsb (fun x => t x) (tips c1)) eqn:A1; destruct (existsb (fun x => negb (t x)) (tips c1)) eqn:B1.
      + apply existsb_exists in A1. destruct A1 as (x & Hx & Tx). apply existsb_exists in B1. destruct B1 as (y & Hy & Ty). apply negb_true_iff in Ty.
        exact (Hsplit l1 c1 c2 He1 Hsub1 Hn1 Hlt1 Hlt2 Hcov12 Hdisj x y Hx Hy Tx Ty).
      + (* t is true on all of c1 *)
        assert (T1 : forall x, In x (tips c1) -> t x = true).
        { intros x Hx. destruct (t x) eqn:Tx; [reflexivity|exfalso].
          assert (existsb (fun x => negb (t x)) (tips c1) = true); [|congruence]. apply existsb_exists. exists x. rewrite Tx. auto. }
        destruct (existsb (fun x => t x) (tips c2)) eqn:A2.
        * apply existsb_exists in A2. destruct A2 as (x & Hx & Tx).
          destruct (existsb (fun x => negb (t x)) (tips c2)) eqn:B2.
          -- apply existsb_exists in B2. destruct B2 as (y & Hy & Ty). apply negb_true_iff in Ty.
             exact (Hsplit l2 c2 c1 He2 Hsub2 Hn2 Hlt2 Hlt1 Hcov21 Hdisj21 x y Hx Hy Tx Ty).
          -- (* t is true everywhere: not proper *)
             exfalso. destruct Hprop as (k & k' & Hk & Hk' & Hne).
             assert (Tall : forall w, (w < n)%nat -> t w = true).
             { intros w Hw. destruct (Hcov12 w Hw) as [H1|H2]; [apply T1; exact H1|].
               destruct (t w) eqn:Tw; [reflexivity|exfalso].
               assert (existsb (fun x => negb (t x)) (tips c2) = true); [|congruence]. apply existsb_exists. exists w. rewrite Tw. auto. }
             rewrite (Tall k Hk), (Tall k' Hk') in Hne. congruence.
        * (* true exactly on c1 *)
          apply (Hfinish l1 c1 true He1). intros w Hw. split.
          -- intros Tw. destruct (Hcov12 w Hw) as [?|H2]; [assumption|exfalso].
             assert (existsb (fun x => t x) (tips c2) = true); [|congruence]. apply existsb_exists. exists w. auto.
          -- apply T1.
      + (* t is false on all of c1 *)
        assert (T1 : forall x, In x (tips c1) -> t x = false).
        { intros x Hx. destruct (t x) eqn:Tx; [exfalso|reflexivity].
          assert (existsb (fun x => t x) (tips c1) = true); [|congruence]. apply existsb_exists. exists x. auto. }
        destruct (existsb (fun x => negb (t x)) (tips c2)) eqn:B2.
        * apply existsb_exists in B2. destruct B2 as (y & Hy & Ty). apply negb_true_iff in Ty.
          destruct (existsb (fun x => t x) (tips c2)) eqn:A2.
          -- apply existsb_exists in A2. destruct A2 as (x & Hx & Tx).
             exact (Hsplit l2 c2 c1 He2 Hsub2 Hn2 Hlt2 Hlt1 Hcov21 Hdisj21 x y Hx Hy Tx Ty).
          -- exfalso. destruct Hprop as (k & k' & Hk & Hk' & Hne).
             assert (Tall : forall w, (w < n)%nat -> t w = false).
             { intros w Hw. destruct (Hcov12 w Hw) as [H1|H2]; [apply T1; exact H1|].
               destruct (t w) eqn:Tw; [exfalso|reflexivity].
               assert (existsb (fun x => t x) (tips c2) = true); [|congruence]. apply existsb_exists. exists w. auto. }
             rewrite (Tall k Hk), (Tall k' Hk') in Hne. congruence.
        * apply (Hfinish l1 c1 false He1). intros w Hw. split.
          -- intros Tw. destruct (Hcov12 w Hw) as [?|H2]; [assumption|exfalso].
             assert (existsb (fun x => negb (t x)) (tips c2) = true); [|congruence]. apply existsb_exists. exists w. rewrite Tw. auto.
          -- apply T1.
      + (* c1 has no tip at all: impossible *)
        exfalso. destruct (tips_nonempty c1) as (x & Hx). destruct (t x) eqn:Tx.
        * assert (existsb (fun x => t x) (tips c1) = true); [|congruence]. apply existsb_exists. exists x. auto.
        * assert (existsb (fun x => negb (t x)) (tips c1) = true); [|congruence]. apply existsb_exists. exists x. rewrite Tx. auto.
  Qed.
End BtreeSys.

(** the path metric of every leaf-labelled binary tree with positive branch lengths on tips 0..n-1 *)
Theorem btree_metric_is_binary_tree_metric n c : (2 <= n)%nat -> bpos c -> NoDup (tips c) ->
  (forall x, In x (tips c) <-> (x < n)%nat) -> binary_tree_metric n (bt_metric c).
Proof.
  intros Hn Hp Hnd Hcov. exists (bedges c). split; [apply btree_sys; assumption|].
  intros x y _ _. reflexivity.
Qed.

(** NJ is consistent on every binary tree (datatype), n >= 3 tips *)
Theorem nj_consistent_on_btrees n c : (3 <= n)%nat -> bpos c -> NoDup (tips c) ->
  (forall x, In x (tips c) <-> (x < n)%nat) ->
  exists T, nj n (bt_metric c) = Some T /\ pos_tree T /\
    Permutation (names T) (map Z.of_nat (seq 0 n)) /\
    (forall x y, (x < n)%nat -> (y < n)%nat -> x <> y ->
       exists q, (In (Z.of_nat x, Z.of_nat y, q) (tip_dists T) \/ In (Z.of_nat y, Z.of_nat x, q) (tip_dists T)) /\ q == bt_metric c x y) /\
    (forall x y q, In (x, y, q) (tip_dists T) -> q == bt_metric c (Z.to_nat x) (Z.to_nat y)).
Proof.
  intros Hn Hp Hnd Hcov. apply nj_consistent; [exact Hn|]. apply btree_metric_is_binary_tree_metric; try assumption. lia.
Qed.

(** non-vacuity: the quartet ((0:1,1:2):1,(2:3,3:1)) as a datatype tree, rooted in the middle of its internal edge *)
Definition ex_btree : btree := BN (1#2) (BN 1 (BT 0) 2 (BT 1)) (1#2) (BN 3 (BT 2) 1 (BT 3)).

Example ex_btree_nj :
  exists T, nj 4 (bt_metric ex_btree) = Some T /\ pos_tree T /\
    (forall x y q, In (x, y, q) (tip_dists T) -> q == bt_metric ex_btree (Z.to_nat x) (Z.to_nat y)).
Proof.
  destruct (nj_consistent_on_btrees 4 ex_btree) as (T & E & Hp & _ & _ & H).
  - lia.
  - cbn. repeat split; reflexivity.
  - cbn. repeat constructor; cbn; lia.
  - intros x. cbn. lia.
  - exists T. auto.
Qed.

Example ex_btree_metric_is_ex_quartet : forall x y, (x < 4)%nat -> (y < 4)%nat -> bt_metric ex_btree x y == ex_quartet x y.
Proof.
  intros x y Hx Hy. destruct x as [|[|[|[|x]]]]; try lia; destruct y as [|[|[|[|y]]]]; try lia; vm_compute; reflexivity.
Qed.
