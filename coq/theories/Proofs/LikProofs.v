(** C02 / C11 — proofs about [Model/Lik.v] against [Spec/SumProduct.v].

    Everything is proved for an arbitrary type [R] with operations [o]
    satisfying the commutative-semiring laws [sr_laws o] (a section hypothesis,
    hence a premise of every exported theorem), for every rose tree (any
    number of children per node) and every number of states [n]. *)
From Coq Require Import Permutation.
From CG3 Require Import Lib.PyZ Lib.Semiring Lib.LikTree Model.Lik Spec.SumProduct.
Local Open Scope nat_scope.

(* ------------------------------------------------------------------ list helpers *)

Lemma seq_S_map s len : seq s (S len) = s :: map S (seq s len).
Proof. cbn [seq]. f_equal. symmetry. apply seq_shift. Qed.

Lemma nth_ext_len A (d : A) n (l l' : list A) :
  length l = n -> length l' = n -> (forall i, i < n -> nth i l d = nth i l' d) -> l = l'.
Proof.
  intros H1 H2 H. apply (nth_ext l l' d d); [congruence|]. intros i Hi. apply H. lia.
Qed.

(* ------------------------------------------------------------------ well-formedness *)

Section WF.
  Variable R : Type.

  (** an [n x n] matrix *)
  Definition wfmat (n : nat) (P : mat R) : Prop :=
    length P = n /\ Forall (fun row => length row = n) P.

  (** every leaf profile has [n] entries, every edge matrix is [n x n] *)
  Definition wf (n : nat) (t : ptree R) : Prop :=
    tree_all (fun p => length p = n) (wfmat n) t.

  Lemma wfmat_row n P i : wfmat n P -> i < n -> length (nth i P []) = n.
  Proof.
    intros [Hl Hr] Hi. rewrite Forall_forall in Hr. apply Hr. apply nth_In. lia.
  Qed.
End WF.
Arguments wfmat {R} n P.
Arguments wf {R} n t.
Arguments wfmat_row {R} n P i.

(* ------------------------------------------------------------------ tree_all under the transformations *)

Section AllPreserved.
  Variables L E : Type.
  Variable PL : L -> Prop.
  Variable PE : E -> Prop.
  Local Notation ok := (tree_all PL PE).

  Lemma ok_node_app (pre post : list (E * tree L E)) :
    ok (Node (pre ++ post)) <-> ok (Node pre) /\ ok (Node post).
  Proof. rewrite !tree_all_node, Forall_app. tauto. Qed.

  Lemma ok_node_cons e c (l : list (E * tree L E)) :
    ok (Node ((e, c) :: l)) <-> (PE e /\ ok c) /\ ok (Node l).
  Proof.
    rewrite !tree_all_node. split.
    - intros H; inversion H; subst; auto.
    - intros [H1 H2]; constructor; auto.
  Qed.

  Lemma ok_node_mid pre e c (post : list (E * tree L E)) :
    ok (Node (pre ++ (e, c) :: post)) <-> (PE e /\ ok c) /\ ok (Node (pre ++ post)).
  Proof. rewrite !ok_node_app, ok_node_cons. tauto. Qed.

  Lemma ok_node_perm (ch ch' : list (E * tree L E)) :
    Permutation ch ch' -> ok (Node ch) -> ok (Node ch').
  Proof. rewrite !tree_all_node. intros HP H. eapply Permutation_Forall; eauto. Qed.

  Lemma ok_ctx_clos (Rl : tree L E -> tree L E -> Prop) :
    (forall t t', Rl t t' -> ok t -> ok t') ->
    forall t t', ctx_clos Rl t t' -> ok t -> ok t'.
  Proof.
    intros HR t t' H. induction H as [t t' H|pre e c c' post _ IH]; [now apply HR|].
    rewrite !ok_node_mid. intros [[He Hc] Hr]. auto.
  Qed.

  Lemma ok_reorder1 t t' : reorder1 t t' -> ok t -> ok t'.
  Proof.
    apply ok_ctx_clos. intros a b H. destruct H as [ch ch' HP]. now apply ok_node_perm.
  Qed.

  Lemma ok_reorder t t' : reorder t t' -> ok t -> ok t'.
  Proof. induction 1 as [|t t' t'' H1 _ IH]; auto. intros H. apply IH. eapply ok_reorder1; eauto. Qed.

  Lemma ok_reroot_step t t' : reroot_step t t' -> ok t -> ok t'.
  Proof.
    intros H. destruct H as [pre e ch1 post].
    rewrite ok_node_mid. intros [[He Hc] Hr].
    rewrite ok_node_app. split; [exact Hc|].
    rewrite ok_node_cons. split; [split; assumption|]. cbn. exact I.
  Qed.

  Lemma ok_split_edge e ea eb t t' :
    PE ea -> PE eb -> split_edge e ea eb t t' -> ok t -> ok t'.
  Proof.
    intros Ha Hb. apply ok_ctx_clos. intros a b H. destruct H as [pre c post].
    rewrite !ok_node_mid. intros [[He Hc] Hr]. split; [|exact Hr]. split; [exact Ha|].
    rewrite ok_node_cons. split; [split; assumption|]. cbn. exact I.
  Qed.
End AllPreserved.
Arguments ok_node_app {L E} PL PE pre post.
Arguments ok_node_cons {L E} PL PE e c l.
Arguments ok_node_mid {L E} PL PE pre e c post.
Arguments ok_node_perm {L E} PL PE ch ch'.
Arguments ok_reorder1 {L E} PL PE t t'.
Arguments ok_reorder {L E} PL PE t t'.
Arguments ok_reroot_step {L E} PL PE t t'.
Arguments ok_split_edge {L E} PL PE e ea eb t t'.

(* ------------------------------------------------------------------ the algebra *)

Section Proofs.
  Variable R : Type.
  Variable o : sr_ops R.
  Hypothesis L : sr_laws o.
  Local Infix "+" := (sr_add o).
  Local Infix "*" := (sr_mul o).
  Local Notation "0" := (sr_zero o).
  Local Notation "1" := (sr_one o).
  Local Notation Σ := (big_sum o).
  Local Notation Π := (big_prod o).
  Local Notation vf := (vfun o).
  Local Notation mf := (mfun o).

  Variable n : nat.                       (* number of states *)
  Local Notation states := (seq 0 n).

  (* ---------------------------------------------------------------- vectors as functions *)

  Lemma inner_spec_gen (u v : vec R) :
    length u = length v ->
    inner o u v = Σ (fun j => vf u j * vf v j) (seq 0 (length u)).
  Proof.
    unfold inner, vfun. revert v. induction u as [|a u IH]; intros v Hl.
    - reflexivity.
    - destruct v as [|b v]; [discriminate|]. cbn [length combine].
      rewrite seq_S_map, !big_sum_cons, big_sum_map. cbn [fst snd nth]. f_equal.
      apply IH. cbn in Hl. lia.
  Qed.

  Lemma inner_spec (u v : vec R) :
    length u = n -> length v = n -> inner o u v = Σ (fun j => vf u j * vf v j) states.
  Proof. intros Hu Hv. rewrite inner_spec_gen by congruence. now rewrite Hu. Qed.

  Lemma child_term_length (P : mat R) plh : length (child_term o P plh) = length P.
  Proof. unfold child_term. apply map_length. Qed.

  Lemma child_term_spec (P : mat R) plh i :
    wfmat n P -> length plh = n -> i < n ->
    vf (child_term o P plh) i = Σ (fun j => mf P i j * vf plh j) states.
  Proof.
    intros HP Hl Hi. unfold vfun at 1, child_term.
    rewrite nth_indep with (d' := inner o plh []) by (rewrite map_length; destruct HP; lia).
    rewrite (map_nth (fun row => inner o plh row) P [] i).
    rewrite inner_spec by (auto using wfmat_row).
    apply big_sum_ext; intros j _. unfold mfun. apply (sr_mul_comm L).
  Qed.

  Lemma vmul_length (a b : vec R) : length a = n -> length b = n -> length (vmul o a b) = n.
  Proof. intros Ha Hb. unfold vmul. rewrite map_length, combine_length. lia. Qed.

  Lemma vmul_spec (a b : vec R) i :
    length a = n -> length b = n -> i < n -> vf (vmul o a b) i = vf a i * vf b i.
  Proof.
    intros Ha Hb Hi. unfold vfun, vmul.
    rewrite nth_indep with (d' := (fun p => fst p * snd p) (0, 0))
      by (rewrite map_length, combine_length; lia).
    rewrite (map_nth (fun p => fst p * snd p) (combine a b) (0, 0) i).
    now rewrite combine_nth by congruence.
  Qed.

  Lemma ones_spec i : i < n -> vf (ones o n) i = 1.
  Proof.
    intros Hi. unfold vfun, ones.
    rewrite nth_indep with (d' := 1) by (rewrite repeat_length; exact Hi). apply nth_repeat.
  Qed.

  Lemma fold_vmul_spec (ts : list (vec R)) (t : vec R) :
    length t = n -> Forall (fun x => length x = n) ts ->
    length (fold_left (vmul o) ts t) = n /\
    forall i, i < n -> vf (fold_left (vmul o) ts t) i = vf t i * Π (fun x => vf x i) ts.
  Proof.
    revert t. induction ts as [|x ts IH]; intros t Ht Hts; cbn [fold_left].
    - split; [exact Ht|]. intros i _. cbn. now rewrite (sr_mul_1_r L).
    - pose proof (Forall_inv Hts) as Hx. pose proof (Forall_inv_tail Hts) as Hts'. cbn beta in Hx.
      destruct (IH (vmul o t x)) as [Hlen Hval]; [now apply vmul_length|exact Hts'|].
      split; [exact Hlen|]. intros i Hi.
      rewrite Hval by exact Hi. rewrite vmul_spec by assumption.
      rewrite big_prod_cons. now rewrite (sr_mul_assoc L).
  Qed.

  Lemma prod_children_spec (terms : list (vec R)) :
    Forall (fun x => length x = n) terms ->
    length (prod_children o n terms) = n /\
    forall i, i < n -> vf (prod_children o n terms) i = Π (fun x => vf x i) terms.
  Proof.
    intros H. destruct terms as [|t ts]; cbn [prod_children].
    - split; [apply repeat_length|]. intros i Hi. now rewrite ones_spec.
    - pose proof (Forall_inv H) as Ht. pose proof (Forall_inv_tail H) as Hts. cbn beta in Ht.
      destruct (fold_vmul_spec ts t Ht Hts) as [Hl Hv]. split; [exact Hl|].
      intros i Hi. rewrite Hv by exact Hi. reflexivity.
  Qed.

  (* ---------------------------------------------------------------- partial, one level *)

  Lemma partial_node (ch : list (mat R * ptree R)) :
    partial o n (Node ch) = prod_children o n (map (fun ec => child_term o (fst ec) (partial o n (snd ec))) ch).
  Proof. reflexivity. Qed.

  Lemma partial_length (t : ptree R) : wf n t -> length (partial o n t) = n.
  Proof.
    induction t as [p|ch IH] using tree_ind'; intros Hwf.
    - exact Hwf.
    - rewrite partial_node. apply prod_children_spec.
      apply tree_all_node in Hwf. rewrite Forall_map.
      rewrite Forall_forall in *. intros ec Hin.
      rewrite child_term_length. destruct (Hwf ec Hin) as [[Hl _] _]. exact Hl.
  Qed.

  (** one level of the recursion in index notation *)
  Lemma partial_node_spec (ch : list (mat R * ptree R)) i :
    wf n (Node ch) -> i < n ->
    vf (partial o n (Node ch)) i
    = Π (fun ec => Σ (fun j => mf (fst ec) i j * vf (partial o n (snd ec)) j) states) ch.
  Proof.
    intros Hwf Hi. rewrite partial_node.
    apply tree_all_node in Hwf. rewrite Forall_forall in Hwf.
    destruct (prod_children_spec (map (fun ec => child_term o (fst ec) (partial o n (snd ec))) ch)) as [_ Hv].
    { rewrite Forall_map, Forall_forall. intros ec Hin. rewrite child_term_length.
      destruct (Hwf ec Hin) as [[Hl _] _]. exact Hl. }
    rewrite Hv by exact Hi. rewrite big_prod_map.
    apply big_prod_ext. intros ec Hin. destruct (Hwf ec Hin) as [Hm Hc].
    apply child_term_spec; auto using partial_length.
  Qed.

  Lemma col_lik_spec (t : ptree R) (pi : vec R) :
    wf n t -> length pi = n ->
    col_lik o n t pi = Σ (fun i => vf (partial o n t) i * vf pi i) states.
  Proof. intros Hwf Hpi. unfold col_lik. apply inner_spec; auto using partial_length. Qed.

  (* ================================================================ C02 *)

  (* ---------------------------------------------------------------- pruning on functional trees *)

  (** the pruning recursion on the functional view of a tree *)
  Fixpoint fpartial (t : ftree R) (i : nat) : R :=
    match t with
    | Leaf w => w i
    | Node ch => Π (fun ec => Σ (fun j => fst ec i j * fpartial (snd ec) j) states) ch
    end.

  Lemma partial_fpartial (t : ptree R) :
    wf n t -> forall i, i < n -> vf (partial o n t) i = fpartial (fview o t) i.
  Proof.
    induction t as [p|ch IH] using tree_ind'; intros Hwf i Hi.
    - reflexivity.
    - rewrite partial_node_spec by assumption.
      cbn [fview tmap fpartial]. rewrite big_prod_map.
      apply tree_all_node in Hwf. rewrite Forall_forall in *.
      apply big_prod_ext. intros ec Hin. cbn [fst snd].
      apply big_sum_ext. intros j Hj. apply in_seq in Hj.
      destruct (Hwf ec Hin) as [_ Hc].
      fold (fview o (snd ec)). rewrite (IH ec Hin Hc j) by lia. reflexivity.
  Qed.

  (** Felsenstein's pruning recursion = the brute-force sum over all
      assignments of states to the nodes below (functional trees) *)
  Lemma fpartial_brute (t : ftree R) : forall i, fpartial t i = brute o n t i.
  Proof.
    induction t as [w|ch IH] using tree_ind'; intro i.
    - unfold brute; cbn. now rewrite (sr_add_0_r L).
    - unfold brute. cbn [assignments fpartial]. rewrite big_sum_map. cbn [weight].
      induction ch as [|[P c] ch IHch].
      + cbn. now rewrite (sr_add_0_r L).
      + pose proof (Forall_inv IH) as Hc. pose proof (Forall_inv_tail IH) as Hrest. cbn [snd] in Hc.
        specialize (IHch Hrest).
        rewrite big_prod_cons. rewrite IHch. clear IHch. cbn [fst snd].
        rewrite (big_sum_flat_map L).
        rewrite (big_sum_mul_r L). apply big_sum_ext; intros j _.
        rewrite (big_sum_flat_map L).
        rewrite Hc. unfold brute.
        match goal with |- _ * _ * ?S = _ => set (SS := S) end.
        rewrite (big_sum_mul_l L). rewrite (big_sum_mul_r L). subst SS.
        apply big_sum_ext; intros s _.
        rewrite big_sum_map. rewrite (big_sum_mul_l L). reflexivity.
  Qed.

  (** C02 headline: the model's column likelihood is the first-principles sum *)
  Theorem pruning_eq_bruteforce_lemma (t : ptree R) (pi : vec R) :
    wf n t -> length pi = n ->
    col_lik o n t pi = brute_lik o n (fview o t) (vf pi).
  Proof.
    intros Hwf Hpi. rewrite col_lik_spec by assumption. unfold brute_lik.
    apply big_sum_ext. intros i Hi. apply in_seq in Hi.
    rewrite partial_fpartial by (auto; lia). rewrite fpartial_brute. apply (sr_mul_comm L).
  Qed.
End Proofs.
