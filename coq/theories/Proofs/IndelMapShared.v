(** C08 — [get_gap_align_coordinates], [shared_gaps] and [minus_gaps] read on
    the gapped string, for ALL well-formed maps (the bounded enumeration is in
    IndelMapBounded.v).

    Part A: the alignment gap coordinates of a well-formed map are the gap runs
            of the string it denotes.
    Part B: [span_and_span] / [coords_intersect] on canonical interval lists
            (sorted, non-empty, pairwise separated by at least one position):
            the result is canonical and covers exactly the common positions.
            A canonical list is determined by the set of positions it covers.
    Part C: [shared_gaps m1 m2 = Ok (mask_shared (abs m1) (abs m2))].
    Part D: [coords_minus_coords] as a pure function ([cmc_pure]) and
            [minus_gaps m1 m2 = Ok m'] with [WF m'] and
            [abs m' = mask_minus (abs m1) (abs m2)]. *)
From CG3 Require Import Lib.PyZ Lib.Val Model.IndelMap Spec.IndelMapSpec Spec.IndelMapStringOps Proofs.IndelMapProofs Proofs.IndelMapOps Proofs.IndelMapSlice.

(** * Part A: gap runs of [expand] *)

Lemma runs_trues rest n : forall i,
  runs_from false i None (repeat true n ++ rest) = runs_from false (i + Z.of_nat n) None rest.
Proof.
  induction n as [|n IH]; intros i.
  - cbn [repeat app]. f_equal. lia.
  - cbn [repeat app runs_from Bool.eqb]. rewrite (IH (i + 1)). f_equal. lia.
Qed.

Lemma runs_falses_some rest n : forall i s,
  runs_from false i (Some s) (repeat false n ++ rest) = runs_from false (i + Z.of_nat n) (Some s) rest.
Proof.
  induction n as [|n IH]; intros i s.
  - cbn [repeat app]. f_equal. lia.
  - cbn [repeat app runs_from Bool.eqb]. rewrite (IH (i + 1) s). f_equal. lia.
Qed.

Lemma runs_falses_none rest n i : (0 < n)%nat ->
  runs_from false i None (repeat false n ++ rest) = runs_from false (i + Z.of_nat n) (Some i) rest.
Proof.
  intros Hn. destruct n as [|n]; [lia|].
  cbn [repeat app runs_from Bool.eqb]. rewrite runs_falses_some. f_equal. lia.
Qed.

Lemma runs_some_true i s rest :
  runs_from false i (Some s) (true :: rest) = (s, i) :: runs_from false (i + 1) None rest.
Proof. reflexivity. Qed.

(** the coordinate listing with the cumulative length before the first gap
    generalised *)
Definition gac (pc : Z) (gp cl : list Z) : list (Z * Z) :=
  combine (add2 gp (pc :: cl)) (add2 gp cl).

Lemma gac_cons pc p c gp cl : gac pc (p :: gp) (c :: cl) = (p + pc, p + c) :: gac c gp cl.
Proof. reflexivity. Qed.

Lemma gac_nil pc cl : gac pc [] cl = [].
Proof. reflexivity. Qed.

(** right after a gap (run [s ..] still open, [pp + pc] the current index) *)
Lemma runs_expand_open gp : forall pp pc cl plen s, wf_from pp pc gp cl plen ->
  runs_from false (pp + pc) (Some s) (expand pp pc gp cl plen) = (s, pp + pc) :: gac pc gp cl.
Proof.
  induction gp as [|p gp IH]; intros pp pc cl plen s Hwf.
  - destruct cl as [|c cl]; cbn [wf_from] in Hwf; [|contradiction].
    cbn [expand]. rewrite gac_nil.
    destruct (Z.to_nat (plen - pp)) as [|k] eqn:E.
    + reflexivity.
    + cbn [repeat]. rewrite runs_some_true. f_equal.
      rewrite <- (app_nil_r (repeat true k)). rewrite runs_trues. reflexivity.
  - destruct cl as [|c cl]; cbn [wf_from] in Hwf; [contradiction|].
    destruct Hwf as (Hp & Hc & Hwf).
    cbn [expand]. rewrite gac_cons.
    destruct (Z.to_nat (p - pp)) as [|k] eqn:E; [lia|].
    cbn [repeat app]. rewrite runs_some_true. f_equal.
    rewrite runs_trues. rewrite runs_falses_none by lia.
    replace (pp + pc + 1 + Z.of_nat k) with (p + pc) by lia.
    replace (p + pc + Z.of_nat (Z.to_nat (c - pc))) with (p + c) by lia.
    apply IH. exact Hwf.
Qed.

Theorem gap_align_coordinates_spec m : WF m -> get_gap_align_coordinates m = gap_runs (abs m).
Proof.
  intros (Hpl & Hwf). unfold get_gap_align_coordinates, gap_starts, gap_ends, gap_runs, abs.
  change (gac 0 (gap_pos m) (cum_gap_lengths m) =
          runs_from false 0 None (expand 0 0 (gap_pos m) (cum_gap_lengths m) (parent_length m))).
  destruct (gap_pos m) as [|p gp]; destruct (cum_gap_lengths m) as [|c cl];
    cbn [wf_from] in Hwf; try contradiction.
  - cbn [expand]. rewrite gac_nil.
    rewrite <- (app_nil_r (repeat true _)). rewrite runs_trues. reflexivity.
  - destruct Hwf as (Hp & Hc & Hwf). cbn [expand]. rewrite gac_cons.
    rewrite runs_trues. rewrite runs_falses_none by lia.
    replace (0 + Z.of_nat (Z.to_nat (p - 0))) with (p + 0) by lia.
    replace (p + 0 + Z.of_nat (Z.to_nat (c - 0))) with (p + c) by lia.
    rewrite (runs_expand_open gp p c cl _ (p + 0) Hwf). reflexivity.
Qed.

Corollary gap_align_coordinates_from_mask k :
  get_gap_align_coordinates (from_mask k) = gap_runs k.
Proof.
  rewrite gap_align_coordinates_spec by apply wf_from_mask. rewrite abs_from_mask. reflexivity.
Qed.

(** * Part B: canonical interval lists and [coords_intersect] *)

(** sorted, non-empty half-open intervals, each starting at or after [lo],
    consecutive ones separated by at least one position (maximal runs) *)
Fixpoint canon (lo : Z) (l : list (Z * Z)) : Prop :=
  match l with
  | [] => True
  | (s, e) :: t => lo <= s /\ s < e /\ canon (e + 1) t
  end.

(** position [x] lies in one of the intervals *)
Fixpoint cov (l : list (Z * Z)) (x : Z) : Prop :=
  match l with
  | [] => False
  | (s, e) :: t => s <= x < e \/ cov t x
  end.

Lemma cov_app a b x : cov (a ++ b) x <-> cov a x \/ cov b x.
Proof.
  induction a as [|(s, e) a IH]; cbn [app cov].
  - tauto.
  - rewrite IH. tauto.
Qed.

Lemma cov_In l x : cov l x <-> exists s e, In (s, e) l /\ s <= x < e.
Proof.
  induction l as [|(s, e) l IH]; cbn [cov In].
  - split; [tauto|]. intros (s & e & [] & _).
  - rewrite IH. split.
    + intros [H|(s' & e' & Hin & H)].
      * exists s, e. split; [left; reflexivity|exact H].
      * exists s', e'. split; [right; exact Hin|exact H].
    + intros (s' & e' & [Heq|Hin] & H).
      * inversion Heq; subst. left; exact H.
      * right. exists s', e'. split; assumption.
Qed.

Lemma canon_weaken lo lo' l : lo' <= lo -> canon lo l -> canon lo' l.
Proof.
  intros Hle. destruct l as [|(s, e) t]; cbn [canon]; [tauto|]. intros (A & B & D).
  split; [lia|]. split; assumption.
Qed.

Lemma canon_lb l : forall lo x, canon lo l -> cov l x -> lo <= x.
Proof.
  induction l as [|(s, e) t IH]; intros lo x Hc Hx; cbn [canon cov] in *.
  - contradiction.
  - destruct Hc as (A & B & D). destruct Hx as [Hx|Hx]; [lia|].
    pose proof (IH (e + 1) x D Hx). lia.
Qed.

Lemma canon_raise lo lo' l : canon lo l -> (forall x, cov l x -> lo' <= x) -> canon lo' l.
Proof.
  destruct l as [|(s, e) t]; cbn [canon cov]; [tauto|]. intros (A & B & D) H.
  split; [|split; assumption]. apply H. left. lia.
Qed.

Lemma canon_app l1 : forall lo hi l2, canon lo l1 -> (forall x, cov l1 x -> x < hi) ->
  canon (hi + 1) l2 -> lo <= hi + 1 -> canon lo (l1 ++ l2).
Proof.
  induction l1 as [|(s, e) t IH]; intros lo hi l2 H1 Hub H2 Hle; cbn [app].
  - apply (canon_weaken (hi + 1)); assumption.
  - cbn [canon cov] in *. destruct H1 as (A & B & D).
    split; [exact A|]. split; [exact B|].
    assert (He : e - 1 < hi) by (apply Hub; left; lia).
    apply (IH (e + 1) hi l2); [exact D| |exact H2|lia].
    intros x Hx. apply Hub. right. exact Hx.
Qed.

(** a canonical list is determined by the positions it covers *)
Lemma canon_unique l1 : forall lo l2, canon lo l1 -> canon lo l2 ->
  (forall x, cov l1 x <-> cov l2 x) -> l1 = l2.
Proof.
  induction l1 as [|(s, e) t IH]; intros lo l2 H1 H2 Heq.
  - destruct l2 as [|(s', e') t']; [reflexivity|]. exfalso.
    cbn [canon] in H2. destruct H2 as (A & B & D).
    apply (Heq s'). cbn [cov]. left. lia.
  - destruct l2 as [|(s', e') t'].
    + exfalso. cbn [canon] in H1. destruct H1 as (A & B & D).
      apply (Heq s). cbn [cov]. left. lia.
    + cbn [canon] in H1, H2. destruct H1 as (A & B & D). destruct H2 as (A' & B' & D').
      assert (Hs : s = s').
      { assert (H1 : cov ((s', e') :: t') s) by (apply Heq; cbn [cov]; left; lia).
        assert (H2 : cov ((s, e) :: t) s') by (apply Heq; cbn [cov]; left; lia).
        cbn [cov] in H1, H2.
        assert (s' <= s).
        { destruct H1 as [H1|H1]; [lia|]. pose proof (canon_lb _ _ _ D' H1). lia. }
        assert (s <= s').
        { destruct H2 as [H2|H2]; [lia|]. pose proof (canon_lb _ _ _ D H2). lia. }
        lia. }
      subst s'.
      assert (He : e = e').
      { destruct (Z.lt_trichotomy e e') as [Hlt|[Heq'|Hgt]]; [exfalso|exact Heq'|exfalso].
        - assert (H1 : cov ((s, e) :: t) e) by (apply Heq; cbn [cov]; left; lia).
          cbn [cov] in H1. destruct H1 as [H1|H1]; [lia|].
          pose proof (canon_lb _ _ _ D H1). lia.
        - assert (H1 : cov ((s, e') :: t') e') by (apply Heq; cbn [cov]; left; lia).
          cbn [cov] in H1. destruct H1 as [H1|H1]; [lia|].
          pose proof (canon_lb _ _ _ D' H1). lia. }
      subst e'. f_equal. apply (IH (e + 1)); [exact D|exact D'|].
      intros x. split; intros Hx.
      * pose proof (canon_lb _ _ _ D Hx) as Hlb.
        assert (H1 : cov ((s, e) :: t') x) by (apply Heq; cbn [cov]; right; exact Hx).
        cbn [cov] in H1. destruct H1 as [H1|H1]; [lia|exact H1].
      * pose proof (canon_lb _ _ _ D' Hx) as Hlb.
        assert (H1 : cov ((s, e) :: t) x) by (apply Heq; cbn [cov]; right; exact Hx).
        cbn [cov] in H1. destruct H1 as [H1|H1]; [lia|exact H1].
Qed.

(** ** [span_and_span] *)

Lemma span_and_span_overlap a1 a2 b1 b2 : a1 < a2 -> b1 < b2 ->
  Z.max a1 b1 < Z.min a2 b2 ->
  span_and_span (a1, a2) (b1, b2) = Ok (Some (Z.max a1 b1, Z.min a2 b2)).
Proof.
  intros Ha Hb Hov. unfold span_and_span.
  destruct ((a1 >=? a2) || (b1 >=? b2)) eqn:E0; [lia|].
  destruct ((a1 <? b1) && (a2 >? b2)) eqn:E1; [do 3 f_equal; lia|].
  destruct ((a1 >=? b1) && (a2 <=? b2)) eqn:E2; [do 3 f_equal; lia|].
  destruct (a1 =? b1) eqn:E3; [do 3 f_equal; lia|].
  destruct (a2 =? b2) eqn:E4; [do 3 f_equal; lia|].
  destruct ((a1 <? b1) && (b1 <? a2)) eqn:E5; [do 3 f_equal; lia|].
  destruct ((a1 <? b2) && (b2 <? a2)) eqn:E6; [do 3 f_equal; lia|].
  lia.
Qed.

Lemma span_and_span_disjoint a1 a2 b1 b2 : a1 < a2 -> b1 < b2 ->
  Z.min a2 b2 <= Z.max a1 b1 ->
  span_and_span (a1, a2) (b1, b2) = Ok None.
Proof.
  intros Ha Hb Hov. unfold span_and_span.
  destruct ((a1 >=? a2) || (b1 >=? b2)) eqn:E0; [lia|].
  destruct ((a1 <? b1) && (a2 >? b2)) eqn:E1; [lia|].
  destruct ((a1 >=? b1) && (a2 <=? b2)) eqn:E2; [lia|].
  destruct (a1 =? b1) eqn:E3; [lia|].
  destruct (a2 =? b2) eqn:E4; [lia|].
  destruct ((a1 <? b1) && (b1 <? a2)) eqn:E5; [lia|].
  destruct ((a1 <? b2) && (b2 <? a2)) eqn:E6; [lia|].
  reflexivity.
Qed.

Lemma span_and_span_empty a1 a2 b1 b2 : a2 <= a1 \/ b2 <= b1 ->
  span_and_span (a1, a2) (b1, b2) = Err E_Value.
Proof.
  intros H. unfold span_and_span.
  destruct ((a1 >=? a2) || (b1 >=? b2)) eqn:E0; [reflexivity|lia].
Qed.

(** ** the inner loop: one interval against a canonical list *)

Lemma ci_inner_spec a1 a2 : a1 < a2 -> forall l2 lo, canon lo l2 ->
  exists l, ci_inner a1 a2 l2 = Ok l /\ canon a1 l /\
            (forall x, cov l x <-> a1 <= x < a2 /\ cov l2 x).
Proof.
  intros Ha. induction l2 as [|(b1, b2) rest IH]; intros lo Hc.
  - exists []. cbn [ci_inner canon cov]. split; [reflexivity|]. split; [exact I|]. tauto.
  - cbn [canon] in Hc. destruct Hc as (Hlo & Hb & Hrest).
    destruct (IH (b2 + 1) Hrest) as (tl & Htl & Hctl & Hcov).
    assert (Hrlb : forall x, cov rest x -> b2 + 1 <= x) by (intros x; apply canon_lb; exact Hrest).
    cbn [ci_inner].
    destruct ((a1 <=? b2) && (b1 <=? a2)) eqn:E1.
    + destruct (Z_lt_le_dec (Z.max a1 b1) (Z.min a2 b2)) as [Hov|Hno].
      * rewrite (span_and_span_overlap a1 a2 b1 b2 Ha Hb Hov). rewrite Htl. cbn [bind].
        exists ((Z.max a1 b1, Z.min a2 b2) :: tl). split; [reflexivity|]. split.
        -- cbn [canon]. split; [lia|]. split; [exact Hov|].
           apply (canon_raise a1); [exact Hctl|].
           intros x Hx. apply Hcov in Hx. destruct Hx as (_ & Hx). apply Hrlb in Hx. lia.
        -- intros x. cbn [cov]. rewrite Hcov. split.
           ++ intros [H|(H1 & H2)]; [split; [lia|left; lia]|split; [exact H1|right; exact H2]].
           ++ intros (H1 & [H2|H2]); [left; lia|right; split; assumption].
      * rewrite (span_and_span_disjoint a1 a2 b1 b2 Ha Hb Hno). rewrite Htl. cbn [bind].
        exists tl. split; [reflexivity|]. split; [exact Hctl|].
        intros x. cbn [cov]. rewrite Hcov. split.
        -- intros (H1 & H2). split; [exact H1|right; exact H2].
        -- intros (H1 & [H2|H2]); [lia|split; assumption].
    + destruct (a2 <? b1) eqn:E2.
      * exists []. split; [reflexivity|]. split; [exact I|].
        intros x. cbn [cov]. split; [tauto|].
        intros (H1 & [H2|H2]); [lia|]. apply Hrlb in H2. lia.
      * exists tl. split; [exact Htl|]. split; [exact Hctl|].
        intros x. cbn [cov]. rewrite Hcov. split.
        -- intros (H1 & H2). split; [exact H1|right; exact H2].
        -- intros (H1 & [H2|H2]); [lia|split; assumption].
Qed.

Lemma ci_inner_nil a1 a2 : ci_inner a1 a2 [] = Ok [].
Proof. reflexivity. Qed.

(** ** [coords_intersect] on two canonical lists *)

Theorem coords_intersect_spec l1 : forall lo1 lo2 l2, canon lo1 l1 -> canon lo2 l2 ->
  exists l, coords_intersect l1 l2 = Ok l /\ canon lo1 l /\
            (forall x, cov l x <-> cov l1 x /\ cov l2 x).
Proof.
  induction l1 as [|(a1, a2) rest IH]; intros lo1 lo2 l2 H1 H2.
  - exists []. cbn [coords_intersect canon cov]. split; [reflexivity|]. split; [exact I|]. tauto.
  - cbn [canon] in H1. destruct H1 as (Hlo & Ha & Hrest).
    destruct (ci_inner_spec a1 a2 Ha l2 lo2 H2) as (hd & Hhd & Hchd & Hcovhd).
    destruct (IH (a2 + 1) lo2 l2 Hrest H2) as (tl & Htl & Hctl & Hcovtl).
    cbn [coords_intersect]. rewrite Hhd, Htl. cbn [bind].
    exists (hd ++ tl). split; [reflexivity|]. split.
    + apply (canon_app hd lo1 a2 tl); [apply (canon_weaken a1); [lia|exact Hchd]| |exact Hctl|lia].
      intros x Hx. apply Hcovhd in Hx. lia.
    + intros x. rewrite cov_app. cbn [cov]. rewrite Hcovhd, Hcovtl. tauto.
Qed.

Lemma coords_intersect_nil_r l1 : coords_intersect l1 [] = Ok [].
Proof.
  induction l1 as [|(a1, a2) rest IH]; [reflexivity|].
  cbn [coords_intersect ci_inner bind]. rewrite IH. reflexivity.
Qed.

(** ** the gap runs of a string are canonical and cover its gap columns *)

Lemma runs_canon k : forall i,
  canon i (runs_from false i None k) /\
  (forall s, s < i -> canon s (runs_from false i (Some s) k)).
Proof.
  induction k as [|b k IH]; intros i.
  - cbn [runs_from canon]. split; [exact I|]. intros s Hs. split; [lia|]. split; [lia|exact I].
  - destruct (IH (i + 1)) as (IHn & IHs). destruct b; cbn [runs_from Bool.eqb app].
    + split.
      * apply (canon_weaken (i + 1)); [lia|exact IHn].
      * intros s Hs. cbn [canon]. split; [lia|]. split; [lia|exact IHn].
    + split.
      * apply IHs. lia.
      * intros s Hs. apply IHs. lia.
Qed.

Lemma runs_cov k : forall i x,
  (cov (runs_from false i None k) x <-> znth true k (x - i) = false) /\
  (forall s, s <= i ->
     (cov (runs_from false i (Some s) k) x <-> s <= x < i \/ znth true k (x - i) = false)).
Proof.
  induction k as [|b k IH]; intros i x.
  - cbn [runs_from cov]. rewrite znth_nil. split; [split; [tauto|discriminate]|].
    intros s Hs. split; [tauto|]. intros [H|H]; [left; exact H|discriminate].
  - destruct (IH (i + 1) x) as (IHn & IHs).
    assert (Hz : forall b', znth true (b' :: k) (x - i) = false <->
                 (x = i /\ b' = false) \/ znth true k (x - (i + 1)) = false).
    { intros b'. destruct (Z.lt_trichotomy x i) as [Hlt|[Heq|Hgt]].
      - rewrite !znth_neg by lia. split; [discriminate|]. intros [(H & _)|H]; [lia|discriminate].
      - subst x. replace (i - i) with 0 by lia. rewrite znth_0. rewrite (znth_neg true k) by lia.
        split; [intros H; left; split; [reflexivity|exact H]|].
        intros [(_ & H)|H]; [exact H|discriminate].
      - rewrite znth_pos by lia. replace (x - i - 1) with (x - (i + 1)) by lia.
        split; [intros H; right; exact H|]. intros [(H & _)|H]; [lia|exact H]. }
    destruct b; cbn [runs_from Bool.eqb app cov].
    + rewrite (Hz true). split.
      * rewrite IHn. split; [intros H; right; exact H|]. intros [(_ & H)|H]; [discriminate|exact H].
      * intros s Hs. rewrite (Hz true). rewrite IHn. split.
        -- intros [H|H]; [left; exact H|right; right; exact H].
        -- intros [H|[(_ & H)|H]]; [left; exact H|discriminate|right; exact H].
    + rewrite (Hz false). split.
      * rewrite (IHs i) by lia. split.
        -- intros [H|H]; [left; split; [lia|reflexivity]|right; exact H].
        -- intros [(H & _)|H]; [left; lia|right; exact H].
      * intros s Hs. rewrite (Hz false). rewrite (IHs s) by lia. split.
        -- intros [H|H]; [|right; right; exact H].
           destruct (Z.eq_dec x i) as [Heq|Hne]; [right; left; split; [exact Heq|reflexivity]|left; lia].
        -- intros [H|[(H & _)|H]]; [left; lia|left; lia|right; exact H].
Qed.

Lemma gap_runs_canon k : canon 0 (gap_runs k).
Proof. apply runs_canon. Qed.

Lemma gap_runs_cov k x : cov (gap_runs k) x <-> znth true k x = false.
Proof.
  unfold gap_runs. destruct (runs_cov k 0 x) as (H & _). rewrite H.
  replace (x - 0) with x by lia. tauto.
Qed.

Lemma nth_zip_orb k1 : forall k2 n,
  nth n (zip_with orb k1 k2) true = orb (nth n k1 true) (nth n k2 true).
Proof.
  induction k1 as [|a k1 IH]; intros k2 n.
  - cbn [zip_with]. destruct n; reflexivity.
  - destruct k2 as [|b k2]; cbn [zip_with].
    + destruct n; cbn [nth]; rewrite orb_true_r; reflexivity.
    + destruct n as [|n]; cbn [nth]; [reflexivity|apply IH].
Qed.

Lemma znth_zip_orb k1 k2 x :
  znth true (zip_with orb k1 k2) x = orb (znth true k1 x) (znth true k2 x).
Proof.
  unfold znth. destruct (x <? 0); [reflexivity|apply nth_zip_orb].
Qed.

Lemma mask_shared_cov k1 k2 x :
  cov (mask_shared k1 k2) x <-> znth true k1 x = false /\ znth true k2 x = false.
Proof.
  unfold mask_shared. rewrite gap_runs_cov, znth_zip_orb. apply orb_false_iff.
Qed.

(** [coords_intersect] of the gap runs of two strings: the runs of the columns
    in which both have a gap (no hypothesis on the lengths) *)
Theorem coords_intersect_gap_runs k1 k2 :
  coords_intersect (gap_runs k1) (gap_runs k2) = Ok (mask_shared k1 k2).
Proof.
  destruct (coords_intersect_spec (gap_runs k1) 0 0 (gap_runs k2)
              (gap_runs_canon k1) (gap_runs_canon k2)) as (l & Hl & Hc & Hcov).
  rewrite Hl. f_equal. apply (canon_unique l 0); [exact Hc|apply gap_runs_canon|].
  intros x. rewrite Hcov, !gap_runs_cov, mask_shared_cov. tauto.
Qed.

Lemma mask_shared_nil_l k1 k2 : gap_runs k1 = [] -> mask_shared k1 k2 = [].
Proof.
  intros H. pose proof (coords_intersect_gap_runs k1 k2) as E. rewrite H in E.
  cbn [coords_intersect] in E. inversion E. reflexivity.
Qed.

Lemma mask_shared_nil_r k1 k2 : gap_runs k2 = [] -> mask_shared k1 k2 = [].
Proof.
  intros H. pose proof (coords_intersect_gap_runs k1 k2) as E. rewrite H in E.
  rewrite coords_intersect_nil_r in E. inversion E. reflexivity.
Qed.

(** every run ends inside the string *)
Lemma runs_end_le k : forall i cur s e, In (s, e) (runs_from false i cur k) -> e <= i + zlen k.
Proof.
  induction k as [|b k IH]; intros i cur s e Hin.
  - rewrite zlen_nil. cbn [runs_from] in Hin. destruct cur as [s0|]; cbn [In] in Hin; [|contradiction].
    destruct Hin as [Heq|[]]. inversion Heq. lia.
  - rewrite zlen_cons. pose proof (zlen_nonneg k) as Hk.
    destruct b; cbn [runs_from Bool.eqb] in Hin.
    + apply in_app_or in Hin. destruct Hin as [Hin|Hin].
      * destruct cur as [s0|]; cbn [In] in Hin; [|contradiction].
        destruct Hin as [Heq|[]]. inversion Heq. lia.
      * apply IH in Hin. lia.
    + apply IH in Hin. lia.
Qed.

Lemma last_end_gap_runs k : last_end (gap_runs k) <= zlen k.
Proof.
  unfold last_end. pose proof (zlen_nonneg k) as Hk.
  destruct (rev (gap_runs k)) as [|(s, e) t] eqn:E; [exact Hk|].
  assert (Hin : In (s, e) (gap_runs k)).
  { apply in_rev. rewrite E. left. reflexivity. }
  apply runs_end_le in Hin. lia.
Qed.

(** * Part C: [shared_gaps] *)

Lemma num_gaps_0_coords m : num_gaps m = 0 -> get_gap_align_coordinates m = [].
Proof.
  unfold num_gaps. intros H. apply zlen_0_nil in H.
  unfold get_gap_align_coordinates, gap_starts. rewrite H. reflexivity.
Qed.

Theorem shared_gaps_spec m1 m2 : WF m1 -> WF m2 -> len m1 = len m2 ->
  shared_gaps m1 m2 = Ok (mask_shared (abs m1) (abs m2)).
Proof.
  intros H1 H2 Hlen. unfold shared_gaps.
  destruct (negb (len m1 =? len m2)) eqn:E0; [lia|].
  pose proof (gap_align_coordinates_spec m1 H1) as G1.
  pose proof (gap_align_coordinates_spec m2 H2) as G2.
  destruct ((num_gaps m1 =? 0) || (num_gaps m2 =? 0)) eqn:E1.
  - f_equal. symmetry. apply orb_true_iff in E1. destruct E1 as [E1|E1].
    + apply mask_shared_nil_l. rewrite <- G1. apply num_gaps_0_coords. lia.
    + apply mask_shared_nil_r. rewrite <- G2. apply num_gaps_0_coords. lia.
  - unfold shared_gaps_coords. rewrite G1, G2.
    destruct (zlen (gap_runs (abs m2)) =? 0) eqn:E2.
    + f_equal. symmetry. apply mask_shared_nil_r. apply zlen_0_nil. lia.
    + pose proof (last_end_gap_runs (abs m2)) as Hle. rewrite (zlen_abs m2 H2) in Hle.
      destruct (last_end (gap_runs (abs m2)) >? len m1) eqn:E3; [lia|].
      apply coords_intersect_gap_runs.
Qed.

Corollary shared_gaps_from_mask k1 k2 : zlen k1 = zlen k2 ->
  shared_gaps (from_mask k1) (from_mask k2) = Ok (mask_shared k1 k2).
Proof.
  intros Hlen.
  rewrite shared_gaps_spec; [rewrite !abs_from_mask; reflexivity|apply wf_from_mask|apply wf_from_mask|].
  rewrite <- !zlen_abs by apply wf_from_mask. rewrite !abs_from_mask. exact Hlen.
Qed.

(** * Part D: [minus_gaps] *)

(** ** [coords_minus_coords] as a pure function *)

(** number of positions common to [a1, a2) and [s, e) *)
Definition wov (a1 a2 s e : Z) : Z := Z.max 0 (Z.min a2 e - Z.max a1 s).

(** number of positions of [a1, a2) covered by the (disjoint) intervals of [l] *)
Fixpoint ovl (a1 a2 : Z) (l : list (Z * Z)) : Z :=
  match l with
  | [] => 0
  | (s, e) :: t => wov a1 a2 s e + ovl a1 a2 t
  end.

Definition oval (o : option Z) : Z := match o with Some t => t | None => 0 end.

Lemma ovl_bound a1 a2 l : forall lo, canon lo l ->
  0 <= ovl a1 a2 l <= Z.max 0 (a2 - Z.max a1 lo).
Proof.
  induction l as [|(s, e) t IH]; intros lo Hc; cbn [ovl].
  - lia.
  - cbn [canon] in Hc. destruct Hc as (A & B & D). specialize (IH (e + 1) D). unfold wov. lia.
Qed.

Lemma ovl_zero a1 a2 l lo : canon lo l -> a2 <= lo -> ovl a1 a2 l = 0.
Proof. intros Hc Hle. pose proof (ovl_bound a1 a2 l lo Hc). lia. Qed.

Lemma cmc_inner_spec a1 a2 : a1 < a2 -> forall l2 lo tot, canon lo l2 ->
  exists tot', cmc_inner a1 a2 l2 tot = Ok tot' /\ oval tot' = oval tot + ovl a1 a2 l2.
Proof.
  intros Ha. induction l2 as [|(b1, b2) rest IH]; intros lo tot Hc.
  - exists tot. cbn [cmc_inner ovl]. split; [reflexivity|lia].
  - cbn [canon] in Hc. destruct Hc as (Hlo & Hb & Hrest). cbn [cmc_inner ovl].
    destruct (b2 <? a1) eqn:E1.
    + destruct (IH (b2 + 1) tot Hrest) as (tot' & Ht & Hv). exists tot'.
      split; [exact Ht|]. rewrite Hv. unfold wov. lia.
    + destruct (a2 <=? b1) eqn:E2.
      * exists tot. split; [reflexivity|].
        rewrite (ovl_zero a1 a2 rest (b2 + 1) Hrest) by lia. unfold wov. lia.
      * destruct (Z_lt_le_dec (Z.max a1 b1) (Z.min a2 b2)) as [Hov|Hno].
        -- rewrite (span_and_span_overlap a1 a2 b1 b2 Ha Hb Hov). cbn [bind].
           destruct (IH (b2 + 1) (Some (Z.min a2 b2 - Z.max a1 b1 + oval tot)) Hrest)
             as (tot' & Ht & Hv).
           exists tot'. split; [exact Ht|]. rewrite Hv. cbn [oval]. unfold wov. lia.
        -- rewrite (span_and_span_disjoint a1 a2 b1 b2 Ha Hb Hno). cbn [bind].
           destruct (IH (b2 + 1) tot Hrest) as (tot' & Ht & Hv).
           exists tot'. split; [exact Ht|]. rewrite Hv. unfold wov. lia.
Qed.

(** every interval of [coords1] shortened by what [coords2] covers of it,
    dropped when nothing is left *)
Fixpoint cmc_pure (l1 l2 : list (Z * Z)) : list (Z * Z) :=
  match l1 with
  | [] => []
  | (a1, a2) :: rest =>
      if a2 - a1 =? ovl a1 a2 l2 then cmc_pure rest l2
      else (a1, a2 - ovl a1 a2 l2) :: cmc_pure rest l2
  end.

Theorem coords_minus_coords_spec l1 : forall lo1 lo2 l2, 0 <= lo1 -> canon lo1 l1 -> canon lo2 l2 ->
  coords_minus_coords l1 l2 = Ok (cmc_pure l1 l2).
Proof.
  induction l1 as [|(a1, a2) rest IH]; intros lo1 lo2 l2 Hlo H1 H2; [reflexivity|].
  cbn [canon] in H1. destruct H1 as (Hlo1 & Ha & Hrest).
  cbn [coords_minus_coords cmc_pure].
  destruct (cmc_inner_spec a1 a2 Ha l2 lo2 None H2) as (tot & Ht & Hv). rewrite Ht. cbn [bind].
  cbn [oval] in Hv. fold (oval tot).
  pose proof (ovl_bound a1 a2 l2 lo2 H2) as Hb.
  destruct (a2 - oval tot <? 0) eqn:E0; [lia|].
  rewrite (IH (a2 + 1) lo2 l2 ltac:(lia) Hrest H2). cbn [bind].
  destruct tot as [t|]; cbn [oval] in *.
  - assert (Ho : ovl a1 a2 l2 = t) by lia. rewrite Ho.
    destruct (a2 - a1 =? t) eqn:E1; reflexivity.
  - assert (Ho : ovl a1 a2 l2 = 0) by lia. rewrite Ho.
    destruct (a2 - a1 =? 0) eqn:E1; [lia|]. reflexivity.
Qed.

(** ** the overlap with the gap runs of a string counts its gap columns *)

(** gap characters of [k] *)
Fixpoint cntf (k : list bool) : Z :=
  match k with [] => 0 | b :: t => (if b then 0 else 1) + cntf t end.

(** gap characters of [k] (whose head has index [i]) at positions in [a1, a2) *)
Fixpoint cfr (a1 a2 i : Z) (k : list bool) : Z :=
  match k with
  | [] => 0
  | b :: t => (if negb b && (a1 <=? i) && (i <? a2) then 1 else 0) + cfr a1 a2 (i + 1) t
  end.

Lemma ovl_runs a1 a2 k : forall i,
  ovl a1 a2 (runs_from false i None k) = cfr a1 a2 i k /\
  (forall s, s <= i -> ovl a1 a2 (runs_from false i (Some s) k) = wov a1 a2 s i + cfr a1 a2 i k).
Proof.
  induction k as [|b k IH]; intros i.
  - cbn [runs_from ovl cfr]. split; [reflexivity|]. intros s Hs. lia.
  - destruct (IH (i + 1)) as (IHn & IHs). destruct b; cbn [runs_from Bool.eqb app ovl cfr negb andb].
    + split; [rewrite IHn; reflexivity|]. intros s Hs. rewrite IHn. lia.
    + split.
      * rewrite (IHs i) by lia.
        destruct ((a1 <=? i) && (i <? a2)) eqn:E; unfold wov; lia.
      * intros s Hs. rewrite (IHs s) by lia.
        destruct ((a1 <=? i) && (i <? a2)) eqn:E; unfold wov; lia.
Qed.

Lemma ovl_gap_runs a1 a2 k : ovl a1 a2 (gap_runs k) = cfr a1 a2 0 k.
Proof. apply ovl_runs. Qed.

Lemma cfr_app a1 a2 k : forall i k', cfr a1 a2 i (k ++ k') = cfr a1 a2 i k + cfr a1 a2 (i + zlen k) k'.
Proof.
  induction k as [|b k IH]; intros i k'.
  - cbn [app cfr]. change (zlen (@nil bool)) with 0. rewrite Z.add_0_r. lia.
  - cbn [app cfr]. rewrite IH, zlen_cons. replace (i + 1 + zlen k) with (i + (1 + zlen k)) by lia. lia.
Qed.

Lemma cfr_below a1 a2 k : forall i, i + zlen k <= a1 -> cfr a1 a2 i k = 0.
Proof.
  induction k as [|b k IH]; intros i Hi; [reflexivity|].
  rewrite zlen_cons in Hi. pose proof (zlen_nonneg k). cbn [cfr]. rewrite IH by lia.
  destruct (negb b && (a1 <=? i) && (i <? a2)) eqn:E; lia.
Qed.

Lemma cfr_above a1 a2 k : forall i, a2 <= i -> cfr a1 a2 i k = 0.
Proof.
  induction k as [|b k IH]; intros i Hi; [reflexivity|].
  cbn [cfr]. rewrite IH by lia.
  destruct (negb b && (a1 <=? i) && (i <? a2)) eqn:E; lia.
Qed.

Lemma cfr_inside a1 a2 k : forall i, a1 <= i -> i + zlen k <= a2 -> cfr a1 a2 i k = cntf k.
Proof.
  induction k as [|b k IH]; intros i Hlo Hhi; [reflexivity|].
  rewrite zlen_cons in Hhi. pose proof (zlen_nonneg k). cbn [cfr cntf]. rewrite IH by lia.
  destruct b; cbn [negb andb]; [reflexivity|].
  destruct ((a1 <=? i) && (i <? a2)) eqn:E; lia.
Qed.

Lemma cntf_bound k : 0 <= cntf k <= zlen k.
Proof.
  induction k as [|b k IH]; cbn [cntf]; [change (zlen (@nil bool)) with 0; lia|].
  rewrite zlen_cons. destruct b; lia.
Qed.

(** ** [mask_minus] block by block *)

Lemma mask_minus_app a : forall b a' b', length a = length b ->
  mask_minus (a ++ a') (b ++ b') = mask_minus a b ++ mask_minus a' b'.
Proof.
  induction a as [|x a IH]; intros b a' b' Hl; destruct b as [|y b]; cbn [length] in Hl; try discriminate.
  - reflexivity.
  - cbn [app mask_minus]. rewrite IH by lia. destruct (negb x && negb y); reflexivity.
Qed.

Lemma mask_minus_trues n : forall b, length b = n -> mask_minus (repeat true n) b = repeat true n.
Proof.
  induction n as [|n IH]; intros b Hl; destruct b as [|y b]; cbn [length] in Hl; try discriminate.
  - reflexivity.
  - cbn [repeat mask_minus negb andb]. rewrite IH by lia. reflexivity.
Qed.

Lemma mask_minus_falses b : forall L, zlen b = L ->
  mask_minus (repeat false (Z.to_nat L)) b = repeat false (Z.to_nat (L - cntf b)).
Proof.
  induction b as [|y b IH]; intros L Hl.
  - change (zlen (@nil bool)) with 0 in Hl. subst L. reflexivity.
  - rewrite zlen_cons in Hl. pose proof (zlen_nonneg b) as Hb. pose proof (cntf_bound b) as Hc.
    replace (Z.to_nat L) with (S (Z.to_nat (L - 1))) by lia.
    destruct y; cbn [repeat mask_minus cntf negb andb]; rewrite (IH (L - 1)) by lia.
    + replace (Z.to_nat (L - (0 + cntf b))) with (S (Z.to_nat (L - 1 - cntf b))) by lia. reflexivity.
    + f_equal. lia.
Qed.

Lemma mask_minus_all_true k1 : forall n, length k1 = n -> mask_minus k1 (repeat true n) = k1.
Proof.
  induction k1 as [|x k1 IH]; intros n Hl; destruct n as [|n]; cbn [length] in Hl; try discriminate.
  - reflexivity.
  - cbn [repeat mask_minus negb]. rewrite andb_false_r. rewrite IH by lia. reflexivity.
Qed.

Lemma runs_nil_all_true k : forall i cur, runs_from false i cur k = [] ->
  cur = None /\ k = repeat true (length k).
Proof.
  induction k as [|b k IH]; intros i cur H.
  - cbn [runs_from] in H. destruct cur; [discriminate|]. split; reflexivity.
  - destruct b; cbn [runs_from Bool.eqb] in H.
    + apply app_eq_nil in H. destruct H as (Hc & H). apply IH in H. destruct H as (_ & H).
      split; [destruct cur; [discriminate|reflexivity]|]. cbn [length repeat]. f_equal. exact H.
    + apply IH in H. destruct H as (H & _). destruct cur; discriminate.
Qed.

Lemma residues_app a b : residues (a ++ b) = residues a + residues b.
Proof.
  induction a as [|x a IH]; cbn [app residues]; [lia|]. destruct x; rewrite IH; lia.
Qed.

Lemma residues_trues n : residues (repeat true n) = Z.of_nat n.
Proof. induction n as [|n IH]; cbn [repeat residues]; lia. Qed.

Lemma residues_falses n : residues (repeat false n) = 0.
Proof. induction n as [|n IH]; cbn [repeat residues]; lia. Qed.

(** ** the main induction: the new gap positions / lengths spell [mask_minus] *)

Lemma wfL_weaken pq' pq gp ls plen : wfL pq gp ls plen -> pq' <= pq -> wfL pq' gp ls plen.
Proof.
  destruct gp as [|p gp]; destruct ls as [|l ls]; cbn [wfL]; try tauto; [lia|].
  intros (A & B & D) Hle. split; [lia|]. split; assumption.
Qed.

Lemma expandL_more_front pp p gp ls plen : wfL p gp ls plen -> pp <= p ->
  expandL pp gp ls plen = repeat true (Z.to_nat (p - pp)) ++ expandL p gp ls plen.
Proof.
  intros Hw Hle. destruct gp as [|p' gp]; destruct ls as [|l ls]; cbn [wfL] in Hw; try contradiction.
  - cbn [expandL]. replace (plen - pp) with ((p - pp) + (plen - p)) by lia.
    apply repeat_Zadd; lia.
  - destruct Hw as (A & B & D). cbn [expandL].
    replace (p' - pp) with ((p - pp) + (p' - p)) by lia.
    rewrite repeat_Zadd by lia. rewrite <- app_assoc. reflexivity.
Qed.

Lemma firstn_exact {A} (a b : list A) n : n = length a -> firstn n (a ++ b) = a.
Proof.
  intros ->. rewrite <- (Nat.add_0_r (length a)). rewrite firstn_app_2. cbn [firstn]. apply app_nil_r.
Qed.

Lemma length_zlen {A B} (a : list A) (b : list B) : zlen a = zlen b -> length a = length b.
Proof. unfold zlen. lia. Qed.

Section MinusMain.
  Variables (k1 k2 : list bool) (plen : Z).

  Definition new_pos (U : list (Z * Z)) : list Z :=
    map (fun se : Z * Z => residues (firstn (Z.to_nat (fst se)) k1)) U.
  Definition new_len (U : list (Z * Z)) : list Z :=
    map (fun se : Z * Z => snd se - fst se) U.

  Lemma minus_main gp : forall cl pq pp pc pre1 pre2 r2,
    wf_from pq pc gp cl plen -> wf0 pp pc gp cl plen -> 0 <= pp -> 0 <= pc ->
    k1 = pre1 ++ expand pp pc gp cl plen -> zlen pre1 = pp + pc -> residues pre1 = pp ->
    k2 = pre2 ++ r2 -> zlen pre2 = pp + pc -> zlen r2 = zlen (expand pp pc gp cl plen) ->
    wfL pq (new_pos (cmc_pure (gac pc gp cl) (gap_runs k2)))
           (new_len (cmc_pure (gac pc gp cl) (gap_runs k2))) plen /\
    expandL pp (new_pos (cmc_pure (gac pc gp cl) (gap_runs k2)))
               (new_len (cmc_pure (gac pc gp cl) (gap_runs k2))) plen
      = mask_minus (expand pp pc gp cl plen) r2 /\
    Forall (fun se : Z * Z => 0 <= fst se <= zlen k1) (cmc_pure (gac pc gp cl) (gap_runs k2)).
  Proof.
    induction gp as [|p gp IH]; intros cl pq pp pc pre1 pre2 r2 Hwq Hw0 Hpp Hpc Hk1 Hl1 Hr1 Hk2 Hl2 Hlr.
    - destruct cl as [|c cl]; cbn [wf_from] in Hwq; [|contradiction].
      destruct Hw0 as (Hle & _).
      rewrite gac_nil. cbn [cmc_pure new_pos new_len map wfL expandL expand].
      split; [exact Hwq|]. split; [|constructor].
      symmetry. apply mask_minus_trues. cbn [expand] in Hlr.
      apply length_zlen in Hlr. rewrite repeat_length in Hlr. exact Hlr.
    - destruct cl as [|c cl]; cbn [wf_from] in Hwq; [contradiction|].
      destruct Hwq as (Hqp & Hcc & Hw).
      destruct Hw0 as (Hle & Hw0). cbn [wf_from] in Hw0. destruct Hw0 as (Hpp' & _ & _).
      cbn [expand] in Hk1, Hlr |- *.
      rewrite !zlen_app, !zlen_repeat in Hlr.
      (* split the rest of [k2] like the rest of [k1] *)
      pose (n1 := Z.to_nat (p - pp)). pose (n2 := Z.to_nat (c - pc)).
      pose (ra := firstn n1 r2). pose (rb := firstn n2 (skipn n1 r2)). pose (rc := skipn n2 (skipn n1 r2)).
      assert (Hr2 : r2 = ra ++ rb ++ rc).
      { unfold ra, rb, rc. rewrite !firstn_skipn. reflexivity. }
      assert (Hla : zlen ra = p - pp).
      { unfold ra. rewrite zlen_firstn. unfold n1. pose proof (zlen_nonneg (expand p c gp cl plen)). lia. }
      assert (Hlb : zlen rb = c - pc).
      { unfold rb. rewrite zlen_firstn, zlen_skipn. unfold n1, n2.
        pose proof (zlen_nonneg (expand p c gp cl plen)). lia. }
      assert (Hlc : zlen rc = zlen (expand p c gp cl plen)).
      { unfold rc. rewrite !zlen_skipn. unfold n1, n2.
        pose proof (zlen_nonneg (expand p c gp cl plen)). lia. }
      clearbody ra rb rc.
      (* the overlap is the number of gap characters of [rb] *)
      assert (Ht : ovl (p + pc) (p + c) (gap_runs k2) = cntf rb).
      { rewrite ovl_gap_runs, Hk2, Hr2. rewrite !cfr_app.
        rewrite (cfr_below _ _ pre2) by lia.
        rewrite (cfr_below _ _ ra) by lia.
        rewrite (cfr_inside _ _ rb) by lia.
        rewrite (cfr_above _ _ rc) by lia. lia. }
      pose proof (cntf_bound rb) as Hcb.
      (* induction hypothesis on the rest *)
      destruct (IH cl p p c (pre1 ++ repeat true (Z.to_nat (p - pp)) ++ repeat false (Z.to_nat (c - pc)))
                  (pre2 ++ ra ++ rb) rc Hw (wf_from_wf0 _ _ _ _ _ Hw) ltac:(lia) ltac:(lia))
        as (IHw & IHe & IHf).
      { rewrite Hk1. rewrite <- !app_assoc. reflexivity. }
      { rewrite !zlen_app, !zlen_repeat. lia. }
      { rewrite !residues_app, residues_trues, residues_falses. lia. }
      { rewrite Hk2, Hr2. rewrite <- !app_assoc. reflexivity. }
      { rewrite !zlen_app. lia. }
      { exact Hlc. }
      (* [mask_minus] block by block *)
      assert (Hmm : mask_minus (repeat true (Z.to_nat (p - pp)) ++ repeat false (Z.to_nat (c - pc))
                                  ++ expand p c gp cl plen) r2
                    = repeat true (Z.to_nat (p - pp)) ++ repeat false (Z.to_nat (c - pc - cntf rb))
                        ++ mask_minus (expand p c gp cl plen) rc).
      { rewrite Hr2.
        rewrite mask_minus_app by (rewrite repeat_length; unfold zlen in Hla; lia).
        rewrite mask_minus_app by (rewrite repeat_length; unfold zlen in Hlb; lia).
        rewrite mask_minus_trues by (unfold zlen in Hla; lia).
        rewrite (mask_minus_falses rb (c - pc) Hlb). reflexivity. }
      rewrite Hmm. rewrite <- IHe.
      rewrite gac_cons. cbn [cmc_pure]. rewrite Ht.
      destruct (p + c - (p + pc) =? cntf rb) eqn:E.
      + (* nothing left of this gap *)
        split; [apply (wfL_weaken pq p); [exact IHw|lia]|]. split; [|exact IHf].
        replace (c - pc - cntf rb) with 0 by lia. cbn [Z.to_nat repeat app].
        apply expandL_more_front; [exact IHw|lia].
      + cbn [new_pos new_len map fst snd].
        fold (new_pos (cmc_pure (gac c gp cl) (gap_runs k2))).
        fold (new_len (cmc_pure (gac c gp cl) (gap_runs k2))).
        assert (Hres : residues (firstn (Z.to_nat (p + pc)) k1) = p).
        { rewrite Hk1. rewrite app_assoc. rewrite firstn_exact.
          - rewrite residues_app, residues_trues. lia.
          - rewrite app_length, repeat_length. unfold zlen in Hl1. lia. }
        rewrite Hres. replace (p + c - cntf rb - (p + pc)) with (c - pc - cntf rb) by lia.
        split; [|split].
        * cbn [wfL]. split; [exact Hqp|]. split; [lia|exact IHw].
        * cbn [expandL]. reflexivity.
        * constructor; [|exact IHf]. cbn [fst]. rewrite Hk1.
          rewrite !zlen_app, !zlen_repeat. pose proof (zlen_nonneg (expand p c gp cl plen)). lia.
  Qed.
End MinusMain.

Lemma minus_new_gaps_spec m : WF m -> forall U,
  Forall (fun se : Z * Z => 0 <= fst se <= zlen (abs m)) U ->
  minus_new_gaps m U = Ok (new_pos (abs m) U, new_len U).
Proof.
  intros Hwf. induction U as [|(s, e) U IH]; intros HF; [reflexivity|].
  inversion HF as [|x l Hx HF']; subst. cbn [fst] in Hx. rewrite (zlen_abs m Hwf) in Hx.
  cbn [minus_new_gaps]. rewrite (get_seq_index_spec m Hwf s Hx). cbn [bind].
  rewrite (IH HF'). reflexivity.
Qed.

(** [minus_gaps] l.1632: the result denotes the first row with the columns
    removed in which both rows have a gap *)
Theorem minus_gaps_spec m1 m2 : WF m1 -> WF m2 -> len m1 = len m2 ->
  exists m', minus_gaps m1 m2 = Ok m' /\ WF m' /\ abs m' = mask_minus (abs m1) (abs m2).
Proof.
  intros H1 H2 Hlen. unfold minus_gaps.
  destruct (negb (len m1 =? len m2)) eqn:E0; [lia|].
  pose proof (gap_align_coordinates_spec m1 H1) as G1.
  pose proof (gap_align_coordinates_spec m2 H2) as G2.
  pose proof (zlen_abs m1 H1) as L1. pose proof (zlen_abs m2 H2) as L2.
  unfold minus_gaps_coords. rewrite G2.
  destruct (zlen (gap_runs (abs m2)) =? 0) eqn:E1.
  - (* the second row has no gap *)
    exists m1. split; [reflexivity|]. split; [exact H1|].
    assert (Hnil : gap_runs (abs m2) = []) by (apply zlen_0_nil; lia).
    apply runs_nil_all_true in Hnil. destruct Hnil as (_ & Hk2). rewrite Hk2.
    symmetry. apply mask_minus_all_true. apply length_zlen. lia.
  - pose proof (last_end_gap_runs (abs m2)) as Hle.
    destruct (last_end (gap_runs (abs m2)) >? len m1) eqn:E2; [lia|].
    assert (Hc1 : canon 0 (get_gap_align_coordinates m1)) by (rewrite G1; apply gap_runs_canon).
    rewrite (coords_minus_coords_spec _ 0 0 _ ltac:(lia) Hc1 (gap_runs_canon (abs m2))). cbn [bind].
    destruct H1 as (Hpl & Hwq).
    destruct (minus_main (abs m1) (abs m2) (parent_length m1) (gap_pos m1) (cum_gap_lengths m1)
                (-1) 0 0 [] [] (abs m2) Hwq (conj Hpl Hwq) ltac:(lia) ltac:(lia))
      as (Mw & Me & Mf); try reflexivity.
    { rewrite L2, <- Hlen, <- L1. reflexivity. }
    change (gac 0 (gap_pos m1) (cum_gap_lengths m1)) with (get_gap_align_coordinates m1) in Mw, Me, Mf.
    rewrite (minus_new_gaps_spec m1 (conj Hpl Hwq) _ Mf). cbn [bind].
    unfold post_init_lengths, cumsum.
    apply (wfL_cumsum _ _ 0) in Mw.
    rewrite (post_init_wf _ _ _ _ _ Mw).
    eexists. split; [reflexivity|]. split.
    + split; [exact Hpl|exact Mw].
    + unfold abs at 1. cbn [gap_pos cum_gap_lengths parent_length].
      rewrite expand_cumsum. exact Me.
Qed.

Corollary minus_gaps_from_mask k1 k2 : zlen k1 = zlen k2 ->
  minus_gaps (from_mask k1) (from_mask k2) = Ok (from_mask (mask_minus k1 k2)).
Proof.
  intros Hlen.
  destruct (minus_gaps_spec (from_mask k1) (from_mask k2) (wf_from_mask k1) (wf_from_mask k2))
    as (m' & Hm & Hw & Ha).
  { rewrite <- !zlen_abs by apply wf_from_mask. rewrite !abs_from_mask. exact Hlen. }
  rewrite Hm. f_equal. rewrite !abs_from_mask in Ha. rewrite <- Ha. symmetry. apply from_mask_abs. exact Hw.
Qed.

(** a concrete instance: rows [A--C-G-] and [A-T--GC] *)
Example shared_minus_ex :
  let k1 := [true; false; false; true; false; true; false] in
  let k2 := [true; false; true; false; false; true; true] in
  WF (from_mask k1) /\ WF (from_mask k2) /\ len (from_mask k1) = len (from_mask k2) /\
  shared_gaps (from_mask k1) (from_mask k2) = Ok [(1, 2); (4, 5)] /\
  minus_gaps (from_mask k1) (from_mask k2)
    = Ok (from_mask [true; false; true; true; false]).
Proof.
  cbv zeta. split; [apply wf_from_mask|]. split; [apply wf_from_mask|].
  split; [reflexivity|]. split; [reflexivity|]. reflexivity.
Qed.
