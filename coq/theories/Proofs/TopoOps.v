(** C09 — the tree operations that must not change the UNROOTED TOPOLOGY
    ([Spec/TreeTopoSpec.v]): [sorted()], the repaired [unrooted()], [prune()]
    keep the set of non-trivial tip bipartitions; [bifurcating()] keeps every
    split and only adds splits carried by zero-length edges. *)
From Coq Require Import Permutation.
From CG3 Require Import Lib.PyZ Lib.Val Lib.Rose Model.Tree Model.TreeMid Model.TreeDist Spec.TreeSpec Spec.TreeTopoSpec
  Proofs.TreeProofs Proofs.TreeSubProofs Proofs.TreeMidProofs Proofs.TreeDistProofs Proofs.TopoBase.

(* ------------------------------------------------------------------ *)
(** * (0) lists of cuts included in each other up to set equality *)

Definition sle (L L' : list (list name)) : Prop :=
  forall c, In c L -> exists c', In c' L' /\ set_eqb c c' = true.

Definition sequiv (L L' : list (list name)) : Prop := sle L L' /\ sle L' L.

Lemma sle_refl L : sle L L.
Proof. intros c Hc. exists c. split; [exact Hc|apply set_eqb_refl]. Qed.

Lemma sle_incl L L' : incl L L' -> sle L L'.
Proof. intros H c Hc. exists c. split; [apply H; exact Hc|apply set_eqb_refl]. Qed.

Lemma sle_trans L1 L2 L3 : sle L1 L2 -> sle L2 L3 -> sle L1 L3.
Proof.
  intros H12 H23 c Hc.
  destruct (H12 c Hc) as (c2 & Hc2 & He2).
  destruct (H23 c2 Hc2) as (c3 & Hc3 & He3).
  exists c3. split; [exact Hc3|]. eapply set_eqb_trans; eauto.
Qed.

Lemma sle_app A A' B B' : sle A A' -> sle B B' -> sle (A ++ B) (A' ++ B').
Proof.
  intros HA HB c Hc. apply in_app_or in Hc. destruct Hc as [Hc|Hc].
  - destruct (HA c Hc) as (c' & Hc' & He). exists c'. split; [|exact He].
    apply in_or_app. left. exact Hc'.
  - destruct (HB c Hc) as (c' & Hc' & He). exists c'. split; [|exact He].
    apply in_or_app. right. exact Hc'.
Qed.

Lemma sle_cons a a' L L' : set_eqb a a' = true -> sle L L' -> sle (a :: L) (a' :: L').
Proof.
  intros Ha HL c Hc. destruct Hc as [<-|Hc].
  - exists a'. split; [left; reflexivity|exact Ha].
  - destruct (HL c Hc) as (c' & Hc' & He). exists c'. split; [right; exact Hc'|exact He].
Qed.

Lemma sle_splits_incl U L L' : sle L L' -> splits_incl U L L'.
Proof.
  intros H c Hc _. destruct (H c Hc) as (c' & Hc' & He).
  apply cut_mem_In with c'; [exact Hc'|]. apply cut_eq_of_set_eqb. exact He.
Qed.

Lemma sequiv_refl L : sequiv L L.
Proof. split; apply sle_refl. Qed.

Lemma sequiv_sym L L' : sequiv L L' -> sequiv L' L.
Proof. intros [H1 H2]. split; assumption. Qed.

Lemma sequiv_trans L1 L2 L3 : sequiv L1 L2 -> sequiv L2 L3 -> sequiv L1 L3.
Proof.
  intros [H12 H21] [H23 H32]. split; eapply sle_trans; eauto.
Qed.

Lemma sequiv_perm L L' : Permutation L L' -> sequiv L L'.
Proof.
  intros HP. split; apply sle_incl; intros c Hc.
  - eapply Permutation_in; eauto.
  - eapply Permutation_in; [apply Permutation_sym|]; eauto.
Qed.

Lemma sequiv_app A A' B B' : sequiv A A' -> sequiv B B' -> sequiv (A ++ B) (A' ++ B').
Proof. intros [HA HA'] [HB HB']. split; apply sle_app; assumption. Qed.

Lemma sequiv_cons a a' L L' : set_eqb a a' = true -> sequiv L L' -> sequiv (a :: L) (a' :: L').
Proof.
  intros Ha [H1 H2]. split; apply sle_cons; try assumption.
  apply set_eqb_true_sym. exact Ha.
Qed.

Lemma sequiv_splits_eq U L L' : sequiv L L' -> splits_eq U L L'.
Proof. intros [H1 H2]. split; apply sle_splits_incl; assumption. Qed.

Lemma perm_set_eqb (A B : list name) : Permutation A B -> set_eqb A B = true.
Proof. intros HP. apply set_eqb_iff. apply perm_seteq. exact HP. Qed.

(** a subtree replaced by one with the same tips (as a set) and equivalent cuts *)
Definition trel (c c' : tree) : Prop :=
  set_eqb (tips c) (tips c') = true /\ sequiv (cuts c) (cuts c').

Lemma cuts_of_map_sequiv (f : tree -> tree) cs :
  Forall (fun c => trel c (f c)) cs -> sequiv (cuts_of cs) (cuts_of (map f cs)).
Proof.
  induction cs as [|c cs IH]; intros H.
  - apply sequiv_refl.
  - inversion H as [|? ? [Ht Hc] Hcs]; subst. cbn [map]. rewrite !cuts_of_cons.
    apply sequiv_cons; [exact Ht|]. apply sequiv_app; [exact Hc|]. apply IH. exact Hcs.
Qed.

Lemma tips_of_map_set_eqb (f : tree -> tree) cs :
  Forall (fun c => trel c (f c)) cs -> set_eqb (tips_of cs) (tips_of (map f cs)) = true.
Proof.
  intros H. apply set_eqb_iff. induction cs as [|c cs IH].
  - apply seteq_refl.
  - inversion H as [|? ? [Ht Hc] Hcs]; subst. cbn [map]. rewrite !tips_of_cons.
    apply set_eqb_iff in Ht. intros x. rewrite !in_app_iff, (Ht x), (IH Hcs x). reflexivity.
Qed.

(* ------------------------------------------------------------------ *)
(** * (1) sorted() *)

Lemma sorted_go_trel t : forall order, trel t (snd (sorted_go order t)).
Proof.
  induction t as [n l cs IH] using tree_ind'. intros order.
  destruct cs as [|c0 cs0].
  - cbn [sorted_go snd]. split; [apply set_eqb_refl|apply sequiv_refl].
  - rewrite sorted_go_node. set (cs := c0 :: cs0) in *.
    assert (HP : Permutation (map snd (sort_scored (map (sorted_go order) cs)))
                             (map (fun c => snd (sorted_go order c)) cs)).
    { rewrite sort_scored_perm, map_map. reflexivity. }
    split.
    + destruct (sorted_go_preserves (Node n l cs) order) as (_ & _ & Hp & _).
      unfold cs in Hp. rewrite sorted_go_node in Hp. fold cs in Hp.
      apply perm_set_eqb. apply Permutation_sym. exact Hp.
    + rewrite !cuts_node.
      apply sequiv_trans with (cuts_of (map (fun c => snd (sorted_go order c)) cs)).
      * apply cuts_of_map_sequiv. eapply Forall_impl; [|exact IH].
        intros c Hc. apply (Hc order).
      * apply sequiv_perm. apply cuts_of_perm. apply Permutation_sym. exact HP.
Qed.

Theorem sorted_topology : forall t order, same_topology t (tree_sorted t order).
Proof.
  intros t order. unfold same_topology, tree_sorted.
  apply sequiv_splits_eq. apply sorted_go_trel.
Qed.

(* ------------------------------------------------------------------ *)
(** * (2) the repaired unrooted() *)

Lemma cuts_bump lo s : cuts (bump lo s) = cuts s.
Proof. unfold bump. rewrite cuts_node. symmetry. apply cuts_kids. Qed.

Lemma cuts_of_single c : cuts_of [c] = tips c :: cuts c.
Proof. rewrite cuts_of_cons, cuts_of_nil, app_nil_r. reflexivity. Qed.

Theorem unrooted_fixed_topology : forall t, NoDup (tips t) -> same_topology t (unrooted_fixed t).
Proof.
  intros t HN. destruct t as [n l cs]. unfold same_topology, unrooted_fixed.
  cbn [kids tname tlen].
  destruct cs as [|x cs]; [apply splits_eq_refl|].
  destruct cs as [|y cs].
  - (* a single root child *)
    destruct (kids x) as [|k ks] eqn:Ek; [apply splits_eq_refl|].
    rewrite <- Ek. rewrite !cuts_node, cuts_of_single, <- cuts_kids.
    rewrite tips_node by discriminate. rewrite tips_of_single.
    split.
    + apply splits_incl_cons_trivial; [|apply splits_incl_refl].
      apply trivial_full. apply incl_refl.
    + apply splits_incl_incl. apply incl_tl. apply incl_refl.
  - destruct cs as [|z cs]; [|apply splits_eq_refl].
    rewrite tips_node in HN |- * by discriminate.
    rewrite tips_of_cons, tips_of_single in HN |- *.
    destruct (kids x) as [|k ks] eqn:Ekx.
    + destruct (kids y) as [|k ks] eqn:Eky; [apply splits_eq_refl|].
      rewrite <- Eky. rewrite !cuts_node, !cuts_of_cons, cuts_of_nil, app_nil_r.
      rewrite cuts_bump, tips_bump, <- cuts_kids.
      split.
      * apply splits_incl_cons_mem; [apply cut_mem_self; left; reflexivity|].
        apply splits_incl_app_l.
        { apply splits_incl_incl. apply incl_tl. apply incl_appl. apply incl_refl. }
        apply splits_incl_cons_mem.
        { apply cut_mem_In with (tips x); [left; reflexivity|].
          apply cut_eq_complement.
          - eapply Permutation_NoDup; [apply Permutation_app_comm|exact HN].
          - apply perm_seteq. apply Permutation_app_comm. }
        apply splits_incl_incl. apply incl_tl. apply incl_appr. apply incl_refl.
      * apply splits_incl_incl. intros c Hc. destruct Hc as [<-|Hc]; [left; reflexivity|].
        right. apply in_app_or in Hc. apply in_or_app. destruct Hc as [Hc|Hc]; [left; exact Hc|].
        right. right. exact Hc.
    + rewrite <- Ekx. rewrite !cuts_node, cuts_of_app, !cuts_of_cons, cuts_of_nil, !app_nil_r.
      rewrite cuts_bump, tips_bump, <- cuts_kids.
      split.
      * apply splits_incl_cons_mem.
        { apply cut_mem_In with (tips y); [apply in_or_app; right; left; reflexivity|].
          apply cut_eq_complement; [exact HN|apply seteq_refl]. }
        apply splits_incl_refl.
      * apply splits_incl_incl. apply incl_tl. apply incl_refl.
Qed.

Example unrooted_fixed_topology_ex :
  let t := Node [114] None
             [Node [105] (Some 3) [Node [97] (Some 1) []; Node [98] (Some 2) []];
              Node [106] (Some 4) [Node [99] (Some 1) []; Node [100] (Some 2) []]] in
  same_topology t (unrooted_fixed t).
Proof.
  intros t. apply unrooted_fixed_topology. unfold t. cbn.
  repeat constructor; cbn; intuition discriminate.
Qed.

(* ------------------------------------------------------------------ *)
(** * (3) prune() *)

(** a subtree replaced by one in which single-child nodes may have been
    dissolved: the cut of the subtree itself is counted with its cuts *)
Definition prel (c c' : tree) : Prop :=
  set_eqb (tips c) (tips c') = true /\ sequiv (tips c :: cuts c) (tips c' :: cuts c').

Lemma cuts_of_map_sequiv_p (f : tree -> tree) cs :
  Forall (fun c => prel c (f c)) cs -> sequiv (cuts_of cs) (cuts_of (map f cs)).
Proof.
  induction cs as [|c cs IH]; intros H.
  - apply sequiv_refl.
  - inversion H as [|? ? [Ht Hc] Hcs]; subst. cbn [map]. rewrite !cuts_of_cons.
    change (sequiv ((tips c :: cuts c) ++ cuts_of cs)
                   ((tips (f c) :: cuts (f c)) ++ cuts_of (map f cs))).
    apply sequiv_app; [exact Hc|]. apply IH. exact Hcs.
Qed.

Lemma tips_of_map_set_eqb_p (f : tree -> tree) cs :
  Forall (fun c => prel c (f c)) cs -> set_eqb (tips_of cs) (tips_of (map f cs)) = true.
Proof.
  intros H. apply set_eqb_iff. induction cs as [|c cs IH].
  - apply seteq_refl.
  - inversion H as [|? ? [Ht Hc] Hcs]; subst. cbn [map]. rewrite !tips_of_cons.
    apply set_eqb_iff in Ht. intros x. rewrite !in_app_iff, (Ht x), (IH Hcs x). reflexivity.
Qed.

Lemma pkids_nonempty c cs : pkids (c :: cs) <> [].
Proof.
  intros E. pose proof (pkids_perm (c :: cs)) as HP. rewrite E in HP.
  apply Permutation_length in HP. discriminate.
Qed.

Lemma pkids_cuts cs :
  Forall (fun c => prel c (prep c)) cs -> sequiv (cuts_of cs) (cuts_of (pkids cs)).
Proof.
  intros H. apply sequiv_trans with (cuts_of (map prep cs)).
  - apply cuts_of_map_sequiv_p. exact H.
  - apply sequiv_perm. apply cuts_of_perm. apply Permutation_sym. apply pkids_perm.
Qed.

Lemma pkids_tips cs :
  Forall (fun c => prel c (prep c)) cs -> set_eqb (tips_of cs) (tips_of (pkids cs)) = true.
Proof.
  intros H. apply set_eqb_trans with (tips_of (map prep cs)).
  - apply tips_of_map_set_eqb_p. exact H.
  - apply perm_set_eqb. apply TopoBase.tips_of_perm. apply Permutation_sym. apply pkids_perm.
Qed.

Lemma pc_prel t : forall eff, prel t (fst (pc t eff)).
Proof.
  induction t as [n l cs IH] using tree_ind'. intros eff.
  destruct cs as [|c0 cs0].
  - rewrite pc_multi by (cbn; discriminate). cbn [fst].
    split; [apply set_eqb_refl|apply sequiv_refl].
  - destruct cs0 as [|c1 cs1].
    + (* a single child: the node is dissolved *)
      rewrite pc_single. cbn [fst].
      inversion IH as [|? ? Hc _]; subst.
      destruct (Hc (prune_len (tlen c0) eff)) as [Ht Hs].
      unfold prel. rewrite tips_node by discriminate. rewrite tips_of_single.
      rewrite cuts_node, cuts_of_single.
      split; [exact Ht|].
      apply sequiv_trans with (tips c0 :: cuts c0); [|exact Hs].
      split.
      * intros c Hc'. exists c. split; [|apply set_eqb_refl].
        destruct Hc' as [<-|Hc']; [left; reflexivity|exact Hc'].
      * apply sle_incl. apply incl_tl. apply incl_refl.
    + set (cs := c0 :: c1 :: cs1) in *.
      rewrite pc_multi by (unfold cs; cbn; discriminate). cbn [fst].
      assert (HF : Forall (fun c => prel c (prep c)) cs).
      { eapply Forall_impl; [|exact IH]. intros c Hc. apply (Hc (tlen c)). }
      assert (Ht : set_eqb (tips (Node n l cs)) (tips (Node n eff (pkids cs))) = true).
      { rewrite (tips_node n l cs) by (unfold cs; discriminate).
        rewrite tips_node by (unfold cs; apply pkids_nonempty).
        apply pkids_tips. exact HF. }
      split; [exact Ht|].
      apply sequiv_cons; [exact Ht|]. rewrite !cuts_node. apply pkids_cuts. exact HF.
Qed.

Theorem prune_topology : forall t, same_topology t (prune t).
Proof.
  intros t. unfold same_topology. rewrite prune_unfold, cuts_node, cuts_kids.
  apply sequiv_splits_eq. apply pkids_cuts.
  apply Forall_forall. intros c _. apply pc_prel.
Qed.

(* ------------------------------------------------------------------ *)
(** * (4) bifurcating() *)

Lemma bif_kids_cuts_incl : forall fuel cs, incl (cuts_of cs) (cuts_of (bif_kids fuel cs)).
Proof.
  induction fuel as [|f IH]; intros cs; cbn [bif_kids]; [apply incl_refl|].
  destruct (Nat.ltb 2 (length cs)) eqn:E2; [|apply incl_refl].
  set (k := (length cs - 2)%nat).
  eapply incl_tran; [|apply IH].
  rewrite cuts_of_app, cuts_of_single, cuts_node.
  rewrite <- (firstn_skipn k cs) at 1. rewrite cuts_of_app.
  apply incl_app; [apply incl_appl; apply incl_refl|].
  apply incl_appr. apply incl_tl. apply incl_refl.
Qed.

Lemma cuts_of_map_incl (f : tree -> tree) cs :
  Forall (fun c => tips (f c) = tips c /\ incl (cuts c) (cuts (f c))) cs ->
  incl (cuts_of cs) (cuts_of (map f cs)).
Proof.
  induction cs as [|c cs IH]; intros H.
  - apply incl_refl.
  - inversion H as [|? ? [Ht Hc] Hcs]; subst. cbn [map]. rewrite !cuts_of_cons, Ht.
    apply incl_cons; [left; reflexivity|]. apply incl_tl.
    apply incl_app; [apply incl_appl; exact Hc|apply incl_appr; apply IH; exact Hcs].
Qed.

Theorem bifurcating_keeps_splits : forall t, incl (cuts t) (cuts (bifurcating t)).
Proof.
  induction t as [n l cs IH] using tree_ind'. cbn [bifurcating]. rewrite !cuts_node.
  eapply incl_tran; [|apply bif_kids_cuts_incl].
  apply cuts_of_map_incl. eapply Forall_impl; [|exact IH].
  intros c Hc. split; [apply bifurcating_tips|exact Hc].
Qed.

Theorem bifurcating_refines_topology : forall t, splits_incl (tips t) (cuts t) (cuts (bifurcating t)).
Proof. intros t. apply splits_incl_incl. apply bifurcating_keeps_splits. Qed.

Lemma cuts_of_nodes cs :
  Forall (fun t => cuts t = map tips (flat_map nodes (kids t))) cs ->
  cuts_of cs = map tips (flat_map nodes cs).
Proof.
  induction cs as [|c cs IH]; intros H; [reflexivity|].
  inversion H as [|? ? Hc Hcs]; subst. rewrite cuts_of_cons. cbn [flat_map].
  rewrite map_app, <- (IH Hcs). destruct c as [n l ks]. cbn [nodes map kids] in *.
  rewrite Hc. reflexivity.
Qed.

Lemma cuts_nodes t : cuts t = map tips (flat_map nodes (kids t)).
Proof.
  induction t as [n l cs IH] using tree_ind'. rewrite cuts_node. cbn [kids].
  apply cuts_of_nodes. exact IH.
Qed.

Lemma nodes_unfold t : nodes t = t :: flat_map nodes (kids t).
Proof. destruct t; reflexivity. Qed.

Lemma bif_kids_nodes (P : tree -> Prop) : forall fuel cs,
  (forall x, In x (flat_map nodes cs) -> P x \/ tlen x = Some 0) ->
  forall x, In x (flat_map nodes (bif_kids fuel cs)) -> P x \/ tlen x = Some 0.
Proof.
  induction fuel as [|f IH]; intros cs H; cbn [bif_kids]; [exact H|].
  destruct (Nat.ltb 2 (length cs)) eqn:E2; [|exact H].
  set (k := (length cs - 2)%nat).
  apply IH. intros x Hx. rewrite flat_map_app in Hx. cbn [flat_map nodes] in Hx.
  rewrite app_nil_r in Hx. apply in_app_or in Hx.
  rewrite <- (firstn_skipn k cs), flat_map_app in H.
  destruct Hx as [Hx|[<-|Hx]].
  - apply H. apply in_or_app. left. exact Hx.
  - right. reflexivity.
  - apply H. apply in_or_app. right. exact Hx.
Qed.

Theorem bifurcating_new_edges_zero : forall t x,
  In x (flat_map nodes (kids (bifurcating t))) -> In (tips x) (cuts t) \/ tlen x = Some 0.
Proof.
  induction t as [n l cs IH] using tree_ind'. cbn [bifurcating kids]. rewrite cuts_node.
  apply bif_kids_nodes. intros x Hx.
  apply in_flat_map in Hx. destruct Hx as (c' & Hc' & Hx).
  apply in_map_iff in Hc'. destruct Hc' as (c & <- & Hc).
  rewrite Forall_forall in IH. rewrite nodes_unfold in Hx.
  assert (Hin : incl (tips c :: cuts c) (cuts_of cs)).
  { unfold cuts_of. intros d Hd. apply in_flat_map. exists c. split; assumption. }
  destruct Hx as [<-|Hx].
  - left. rewrite bifurcating_tips. apply Hin. left. reflexivity.
  - destruct (IH c Hc x Hx) as [Hl|Hr]; [left|right; exact Hr].
    apply Hin. right. exact Hl.
Qed.

