(** C15 — NJ whole-run invariant: a join at a cherry keeps the partial tree a faithful
    representation of the original metric; hence a run that joins a cherry every time returns a
    tree whose tip-to-tip distances are the input. *)
From Coq Require Import QArith Qminmax List Bool Arith ZArith Lia Lqa.
From CG3 Require Import Model.NJ Spec.DistSpec Proofs.NJProofs.
Import ListNotations.
Open Scope Q_scope.

Definition shift (l : Q) (nd : Z * Q) : Z * Q := (fst nd, snd nd + l).

Lemma tip_depths_two la lb ni nj :
  tip_depths (LNode [(la, ni); (lb, nj)]) = map (shift la) (tip_depths ni) ++ map (shift lb) (tip_depths nj).
Proof. cbn [tip_depths flat_map fst snd]. rewrite app_nil_r. reflexivity. Qed.

Lemma tip_dists_two la lb ni nj t3 :
  In t3 (tip_dists (LNode [(la, ni); (lb, nj)])) ->
  In t3 (tip_dists ni) \/ In t3 (tip_dists nj) \/
  In t3 (cross (map (shift la) (tip_depths ni)) (map (shift lb) (tip_depths nj))).
Proof.
  cbn [tip_dists flat_map map cross_all fst snd]. rewrite !app_nil_r. intros H.
  apply in_app_or in H. destruct H as [H|H].
  - apply in_app_or in H. destruct H as [H|H]; [left|right; left]; exact H.
  - right; right. exact H.
Qed.

Lemma in_cross a b t3 :
  In t3 (cross a b) -> exists x y, In x a /\ In y b /\ t3 = (fst x, fst y, snd x + snd y).
Proof.
  unfold cross. intros H. apply in_flat_map in H. destruct H as (x & Hx & H).
  apply in_map_iff in H. destruct H as (y & <- & Hy). exists x, y. auto.
Qed.

Lemma in_shift l nd ds : In nd (map (shift l) ds) -> exists nd0, In nd0 ds /\ fst nd = fst nd0 /\ snd nd = snd nd0 + l.
Proof. intros H. apply in_map_iff in H. destruct H as (nd0 & <- & H0). exists nd0. auto. Qed.

Lemma ren_lt L j k : (j < L)%nat -> (k < L - 1)%nat -> (ren L j k < L)%nat /\ ren L j k <> j.
Proof. intros Hj Hk. unfold ren. destruct (Nat.eqb_spec k j); lia. Qed.

Lemma ren_inj L j k l : (j < L)%nat -> (k < L - 1)%nat -> (l < L - 1)%nat -> ren L j k = ren L j l -> k = l.
Proof. intros Hj Hk Hl. unfold ren. destruct (Nat.eqb_spec k j); destruct (Nat.eqb_spec l j); lia. Qed.

Lemma contracted_sym d i D L x y :
  (forall k l, (k < L)%nat -> (l < L)%nat -> d k l == d l k) -> (x < L)%nat -> (y < L)%nat ->
  contracted d i D x y == contracted d i D y x.
Proof.
  intros Hs Hx Hy. unfold contracted.
  destruct (Nat.eqb x i); destruct (Nat.eqb y i); try reflexivity. apply Hs; assumption.
Qed.

Lemma contracted_diag d i D L x :
  (forall k, (k < L)%nat -> d k k == 0) -> (x < L)%nat -> contracted d i D x x == 0.
Proof. intros Hd Hx. unfold contracted. destruct (Nat.eqb x i); [reflexivity|apply Hd; assumption]. Qed.

Section Step.
  Variable orig : Z -> Z -> Q.
  Variable t : partial_tree.
  Variables (i j : nat) (a b : Q) (D : nat -> Q) (la lb : Q).
  Hypothesis Hok : state_ok orig t.
  Hypothesis Hch : cherry_at (pt_L t) (pt_d t) i j a b D.
  Hypothesis Ha : 0 < a.
  Hypothesis Hb : 0 < b.
  Hypothesis Hla : la == a.
  Hypothesis Hlb : lb == b.

  Let L := pt_L t.
  Let d := pt_d t.
  Let nodes := pt_nodes t.
  Let ni := nth i nodes dummy_tree.
  Let nj := nth j nodes dummy_tree.
  Let N := LNode [(la, ni); (lb, nj)].
  (** the subtree now denoted by old index x (x <> j) *)
  Let node' (x : nat) : ltree := if Nat.eqb x i then N else nth x nodes dummy_tree.

  Lemma node'_depths_i x : In x (tip_depths N) ->
    (exists x0, In x0 (tip_depths ni) /\ fst x = fst x0 /\ snd x == snd x0 + a) \/
    (exists x0, In x0 (tip_depths nj) /\ fst x = fst x0 /\ snd x == snd x0 + b).
  Proof.
    unfold N. rewrite tip_depths_two. intros H. apply in_app_or in H. destruct H as [H|H];
      apply in_shift in H; destruct H as (x0 & H0 & E1 & E2); [left|right]; exists x0; (split; [exact H0|split; [exact E1|]]);
      rewrite E2; [rewrite Hla|rewrite Hlb]; reflexivity.
  Qed.

  Lemma step_between x y : (x < L)%nat -> (y < L)%nat -> x <> j -> y <> j -> x <> y ->
    forall u v, In u (tip_depths (node' x)) -> In v (tip_depths (node' y)) ->
    orig (fst u) (fst v) == snd u + contracted d i D x y + snd v.
  Proof.
    intros Hx Hy Hxj Hyj Hxy u v Hu Hv.
    destruct Hch as [Hi Hj Hne Hij Hji Hdiag Hoth]. fold L d in Hi, Hj, Hij, Hji, Hdiag, Hoth.
    pose proof (so_between orig t Hok) as Hbt. fold L d nodes in Hbt.
    unfold node', contracted in *.
    destruct (Nat.eqb_spec x i) as [Exi|Nxi]; destruct (Nat.eqb_spec y i) as [Eyi|Nyi].
    - congruence.
    - subst x. destruct (Hoth y Hy Nyi Hyj) as (_ & H2 & _ & H4).
      apply node'_depths_i in Hu. destruct Hu as [(u0 & Hu0 & E1 & E2)|(u0 & Hu0 & E1 & E2)]; rewrite E1, E2.
      + rewrite (Hbt i y Hi Hy Hxy u0 v Hu0 Hv). rewrite H2. ring.
      + rewrite (Hbt j y Hj Hy (not_eq_sym Hyj) u0 v Hu0 Hv). rewrite H4. ring.
    - subst y. destruct (Hoth x Hx Nxi Hxj) as (H1 & _ & H3 & _).
      apply node'_depths_i in Hv. destruct Hv as [(v0 & Hv0 & E1 & E2)|(v0 & Hv0 & E1 & E2)]; rewrite E1, E2.
      + rewrite (Hbt x i Hx Hi Hxy u v0 Hu Hv0). rewrite H1. ring.
      + rewrite (Hbt x j Hx Hj Hxj u v0 Hu Hv0). rewrite H3. ring.
    - apply Hbt; assumption.
  Qed.

  Lemma step_within_N : dists_ok orig N.
  Proof.
    destruct Hch as [Hi Hj Hne Hij Hji Hdiag Hoth]. fold L d in Hi, Hj, Hij.
    unfold dists_ok. apply Forall_forall. intros t3 H3. unfold N in H3.
    apply tip_dists_two in H3. destruct H3 as [H3|[H3|H3]].
    - pose proof (so_within orig t Hok i Hi) as Hw. unfold dists_ok in Hw. rewrite Forall_forall in Hw. apply Hw. exact H3.
    - pose proof (so_within orig t Hok j Hj) as Hw. unfold dists_ok in Hw. rewrite Forall_forall in Hw. apply Hw. exact H3.
    - apply in_cross in H3. destruct H3 as (x & y & Hx & Hy & ->).
      apply in_shift in Hx. destruct Hx as (x0 & Hx0 & E1 & E2).
      apply in_shift in Hy. destruct Hy as (y0 & Hy0 & E3 & E4).
      cbn [fst snd]. rewrite E1, E2, E3, E4.
      rewrite (so_between orig t Hok i j Hi Hj Hne x0 y0 Hx0 Hy0). fold d. rewrite Hij, Hla, Hlb. ring.
  Qed.

  Lemma step_pos_N : pos_tree N.
  Proof.
    destruct Hch as [Hi Hj _ _ _ _ _]. fold L in Hi, Hj.
    unfold N. cbn [pos_tree fst snd]. repeat split.
    - rewrite Hla. exact Ha.
    - exact (so_pos orig t Hok i Hi).
    - rewrite Hlb. exact Hb.
    - exact (so_pos orig t Hok j Hj).
  Qed.

  Lemma step_state_ok :
    state_ok orig (PT (L - 1) (join_matrix L d i j) (join_nodes L nodes i j N dummy_tree) (pt_score t + d i j)).
  Proof.
    pose proof Hch as [Hi Hj Hne Hij Hji Hdiag Hoth]. fold L d in Hi, Hj, Hij, Hji, Hdiag, Hoth.
    pose proof (so_len orig t Hok) as Hlen. fold L nodes in Hlen.
    assert (Hnth : forall k, (k < L - 1)%nat ->
              nth k (join_nodes L nodes i j N dummy_tree) dummy_tree = node' (ren L j k)).
    { intros k Hk. rewrite (join_nodes_nth L nodes i j N dummy_tree k Hlen Hi Hj Hk).
      rewrite list_set_nth by lia. reflexivity. }
    constructor; cbn [pt_L pt_d pt_nodes].
    - apply join_nodes_length; assumption.
    - intros k l Hk Hl. rewrite !(join_matrix_exact L d i j a b D) by assumption.
      destruct (ren_lt L j k Hj Hk), (ren_lt L j l Hj Hl).
      apply (contracted_sym d i D L); try assumption. exact (so_sym orig t Hok).
    - intros k Hk. rewrite (join_matrix_exact L d i j a b D) by assumption.
      destruct (ren_lt L j k Hj Hk). apply (contracted_diag d i D L); assumption.
    - intros k l Hk Hl Hkl x y Hx Hy. rewrite Hnth in Hx, Hy by assumption.
      rewrite (join_matrix_exact L d i j a b D) by assumption.
      destruct (ren_lt L j k Hj Hk), (ren_lt L j l Hj Hl).
      apply step_between; try assumption.
      intros E. apply Hkl. exact (ren_inj L j k l Hj Hk Hl E).
    - intros k Hk. rewrite Hnth by assumption. unfold node'.
      destruct (ren_lt L j k Hj Hk). destruct (Nat.eqb (ren L j k) i); [apply step_within_N|].
      apply (so_within orig t Hok). assumption.
    - intros k Hk. rewrite Hnth by assumption. unfold node'.
      destruct (ren_lt L j k Hj Hk). destruct (Nat.eqb (ren L j k) i); [apply step_pos_N|].
      apply (so_pos orig t Hok). assumption.
  Qed.
End Step.

(** ------------------------------------------------------------------ convert is the identity on positive trees *)

Section LInd.
  Variable P : ltree -> Prop.
  Hypothesis Htip : forall n, P (LTip n).
  Hypothesis Hnode : forall cs, Forall (fun lc => P (snd lc)) cs -> P (LNode cs).
  Fixpoint ltree_ind' (t : ltree) : P t :=
    match t with
    | LTip n => Htip n
    | LNode cs =>
        Hnode cs ((fix go (cs : list (Q * ltree)) : Forall (fun lc => P (snd lc)) cs :=
                     match cs with
                     | [] => Forall_nil _
                     | lc :: r => Forall_cons lc (ltree_ind' (snd lc)) (go r)
                     end) cs)
    end.
End LInd.

Lemma max0_pos l : 0 < l -> max0 l = l.
Proof.
  intros H. unfold max0. destruct (Qle_bool l 0) eqn:E; [|reflexivity].
  apply Qle_bool_iff in E. lra.
Qed.

Lemma convert_pos : forall t, pos_tree t -> convert t = t.
Proof.
  induction t as [n|cs IH] using ltree_ind'; intros Hp; [reflexivity|].
  cbn [convert]. f_equal. cbn [pos_tree] in Hp.
  induction cs as [|[l c] r IHr]; [reflexivity|].
  cbn [map fst snd]. destruct Hp as (Hl & Hc & Hr). inversion IH as [|? ? IHc IHrest]; subst.
  rewrite (max0_pos l Hl). cbn [snd] in IHc. rewrite (IHc Hc). f_equal. apply IHr; assumption.
Qed.

(** ------------------------------------------------------------------ the final three-taxon step *)

Lemma final_lengths_sums d :
  (forall k l, (k < 3)%nat -> (l < 3)%nat -> d k l == d l k) -> (forall k, (k < 3)%nat -> d k k == 0) ->
  exists l0 l1 l2, final_lengths d = [l0; l1; l2] /\
    l0 + l1 == d 0%nat 1%nat /\ l0 + l2 == d 0%nat 2%nat /\ l1 + l2 == d 1%nat 2%nat.
Proof.
  intros Hs Hd. eexists _, _, _. split; [reflexivity|].
  unfold matsum, colsum. cbn [seq map qsum fold_right]. unfold Qdiv. change (/ 4) with (1 # 4).
  pose proof (Hs 0 1 ltac:(lia) ltac:(lia))%nat. pose proof (Hs 0 2 ltac:(lia) ltac:(lia))%nat.
  pose proof (Hs 1 2 ltac:(lia) ltac:(lia))%nat.
  pose proof (Hd 0 ltac:(lia))%nat. pose proof (Hd 1 ltac:(lia))%nat. pose proof (Hd 2 ltac:(lia))%nat.
  repeat split; lra.
Qed.

Lemma tip_dists_three l0 l1 l2 n0 n1 n2 t3 :
  In t3 (tip_dists (LNode [(l0, n0); (l1, n1); (l2, n2)])) ->
  In t3 (tip_dists n0) \/ In t3 (tip_dists n1) \/ In t3 (tip_dists n2) \/
  In t3 (cross (map (shift l0) (tip_depths n0)) (map (shift l1) (tip_depths n1))) \/
  In t3 (cross (map (shift l0) (tip_depths n0)) (map (shift l2) (tip_depths n2))) \/
  In t3 (cross (map (shift l1) (tip_depths n1)) (map (shift l2) (tip_depths n2))).
Proof.
  cbn [tip_dists flat_map map cross_all fst snd]. rewrite !app_nil_r. intros H.
  rewrite !in_app_iff in H. tauto.
Qed.

Lemma cross_ok orig la lb na nb dab :
  (forall x y, In x (tip_depths na) -> In y (tip_depths nb) -> orig (fst x) (fst y) == snd x + dab + snd y) ->
  la + lb == dab ->
  forall t3, In t3 (cross (map (shift la) (tip_depths na)) (map (shift lb) (tip_depths nb))) ->
  snd t3 == orig (fst (fst t3)) (snd (fst t3)).
Proof.
  intros Hb Hl t3 H3. apply in_cross in H3. destruct H3 as (x & y & Hx & Hy & ->).
  apply in_shift in Hx. destruct Hx as (x0 & Hx0 & E1 & E2).
  apply in_shift in Hy. destruct Hy as (y0 & Hy0 & E3 & E4).
  cbn [fst snd]. rewrite E1, E2, E3, E4. rewrite (Hb x0 y0 Hx0 Hy0). rewrite <- Hl. ring.
Qed.

Lemma final_tree_ok orig t :
  state_ok orig t -> pt_L t = 3%nat -> Forall (fun l => 0 < l) (final_lengths (pt_d t)) ->
  pos_tree (final_tree t) /\ dists_ok orig (final_tree t).
Proof.
  intros Hok HL Hpos.
  pose proof (so_len orig t Hok) as Hlen. rewrite HL in Hlen.
  destruct (pt_nodes t) as [|n0 [|n1 [|n2 [|n3 r]]]] eqn:En; try discriminate Hlen.
  destruct (final_lengths_sums (pt_d t)) as (l0 & l1 & l2 & El & S01 & S02 & S12).
  { intros k l Hk Hl. apply (so_sym orig t Hok); rewrite HL; assumption. }
  { intros k Hk. apply (so_diag orig t Hok); rewrite HL; assumption. }
  rewrite El in Hpos. inversion Hpos as [|? ? P0 Hpos1]; subst. inversion Hpos1 as [|? ? P1 Hpos2]; subst.
  inversion Hpos2 as [|? ? P2 _]; subst.
  pose proof (so_pos orig t Hok) as Hp. rewrite HL, En in Hp.
  pose proof (so_within orig t Hok) as Hw. rewrite HL, En in Hw.
  pose proof (so_between orig t Hok) as Hb. rewrite HL, En in Hb.
  assert (Hpt : pos_tree (LNode [(l0, n0); (l1, n1); (l2, n2)])).
  { cbn [pos_tree fst snd]. repeat split; try assumption.
    - exact (Hp 0%nat ltac:(lia)). - exact (Hp 1%nat ltac:(lia)). - exact (Hp 2%nat ltac:(lia)). }
  unfold final_tree. rewrite El, En. cbn [combine]. rewrite (convert_pos _ Hpt). split; [exact Hpt|].
  unfold dists_ok. apply Forall_forall. intros t3 H3. apply tip_dists_three in H3.
  destruct H3 as [H3|[H3|[H3|[H3|[H3|H3]]]]].
  - pose proof (Hw 0%nat ltac:(lia)) as W. unfold dists_ok in W. rewrite Forall_forall in W. exact (W t3 H3).
  - pose proof (Hw 1%nat ltac:(lia)) as W. unfold dists_ok in W. rewrite Forall_forall in W. exact (W t3 H3).
  - pose proof (Hw 2%nat ltac:(lia)) as W. unfold dists_ok in W. rewrite Forall_forall in W. exact (W t3 H3).
  - revert t3 H3. apply (cross_ok orig l0 l1 n0 n1 (pt_d t 0%nat 1%nat)); [|exact S01].
    intros x y Hx Hy. exact (Hb 0%nat 1%nat ltac:(lia) ltac:(lia) ltac:(lia) x y Hx Hy).
  - revert t3 H3. apply (cross_ok orig l0 l2 n0 n2 (pt_d t 0%nat 2%nat)); [|exact S02].
    intros x y Hx Hy. exact (Hb 0%nat 2%nat ltac:(lia) ltac:(lia) ltac:(lia) x y Hx Hy).
  - revert t3 H3. apply (cross_ok orig l1 l2 n1 n2 (pt_d t 1%nat 2%nat)); [|exact S12].
    intros x y Hx Hy. exact (Hb 1%nat 2%nat ltac:(lia) ltac:(lia) ltac:(lia) x y Hx Hy).
Qed.

(** ------------------------------------------------------------------ the loop *)

Lemma nj_loop_good orig : forall t, good_run t -> state_ok orig t ->
  forall fuel, (pt_L t - 2 <= fuel)%nat -> (1 <= fuel)%nat ->
  exists t3, nj_loop fuel t = Some t3 /\ pt_L t3 = 3%nat /\ state_ok orig t3 /\
             Forall (fun l => 0 < l) (final_lengths (pt_d t3)).
Proof.
  intros t Hg. induction Hg as [t HL Hpos|t t' a b D HL Ha Hb Hch Hjoin Hg IH]; intros Hok fuel Hf H1.
  - destruct fuel as [|f]; [lia|]. exists t. cbn [nj_loop]. rewrite HL. cbn. auto.
  - destruct fuel as [|f]; [lia|]. cbn [nj_loop].
    replace (Nat.leb (pt_L t) 3) with false by (symmetry; apply Nat.leb_gt; lia).
    rewrite (surjective_pairing (best_pair t)). rewrite Hjoin.
    destruct (join_exact t _ _ a b D ltac:(lia) Hch (Qlt_le_weak _ _ Ha) (Qlt_le_weak _ _ Hb)) as (la & lb & Hla & Hlb & Ej).
    rewrite Ej in Hjoin. injection Hjoin as <-.
    apply IH.
    + apply (step_state_ok orig t _ _ a b D la lb); assumption.
    + cbn [pt_L]. lia.
    + cbn [pt_L] in *. lia.
Qed.

Lemma star_tree_ok n d :
  (forall k l, (k < n)%nat -> (l < n)%nat -> d k l == d l k) -> (forall k, (k < n)%nat -> d k k == 0) ->
  state_ok (fun x y => d (Z.to_nat x) (Z.to_nat y)) (star_tree n d).
Proof.
  intros Hs Hd.
  assert (Hnth : forall k, (k < n)%nat -> nth k (map (fun k => LTip (Z.of_nat k)) (seq 0 n)) dummy_tree = LTip (Z.of_nat k)).
  { intros k Hk. rewrite (nth_indep _ dummy_tree (LTip (Z.of_nat 0))) by (rewrite map_length, seq_length; exact Hk).
    rewrite (map_nth (fun k => LTip (Z.of_nat k)) (seq 0 n) 0%nat k). rewrite seq_nth by exact Hk. reflexivity. }
  constructor; cbn [star_tree pt_L pt_d pt_nodes].
  - rewrite map_length, seq_length. reflexivity.
  - exact Hs.
  - exact Hd.
  - intros k l Hk Hl Hkl x y Hx Hy. rewrite Hnth in Hx, Hy by assumption.
    cbn [tip_depths In] in Hx, Hy. destruct Hx as [<-|[]]. destruct Hy as [<-|[]].
    cbn [fst snd]. rewrite !Nat2Z.id. ring.
  - intros k Hk. rewrite Hnth by assumption. constructor.
  - intros k Hk. rewrite Hnth by assumption. exact I.
Qed.

(** nj on a matrix on which the run joins a cherry every time: the returned tree has positive
    branch lengths and each of its tip-to-tip path lengths is the input distance *)
Theorem nj_good_run_exact n d :
  (3 <= n)%nat ->
  (forall k l, (k < n)%nat -> (l < n)%nat -> d k l == d l k) -> (forall k, (k < n)%nat -> d k k == 0) ->
  good_run (star_tree n d) ->
  exists T, nj n d = Some T /\ pos_tree T /\ dists_ok (fun x y => d (Z.to_nat x) (Z.to_nat y)) T.
Proof.
  intros Hn Hs Hd Hg.
  destruct (nj_loop_good _ _ Hg (star_tree_ok n d Hs Hd) (S n)) as (t3 & E & HL & Hok & Hpos).
  { cbn [star_tree pt_L]. lia. } { lia. }
  unfold nj. replace (Nat.eqb n 2) with false by (symmetry; apply Nat.eqb_neq; lia).
  rewrite E. exists (final_tree t3). split; [reflexivity|]. apply final_tree_ok; assumption.
Qed.

(** non-vacuity: the quartet of NJProofs is a good run (one join at the cherry (0,1), then the final step) *)
Example ex_quartet_good_run : good_run (star_tree 4 ex_quartet).
Proof.
  assert (Eb : best_pair (star_tree 4 ex_quartet) = (0%nat, 1%nat)) by (vm_compute; reflexivity).
  destruct (join_exact (star_tree 4 ex_quartet) 0 1 1 2 (fun k => nth k [0; 0; 4; 2] 0)) as (la & lb & Hla & Hlb & Ej);
    [cbn; lia|exact ex_quartet_cherry|discriminate|discriminate|].
  eapply (good_step _ _ 1 2 (fun k => nth k [0; 0; 4; 2] 0)).
  - cbn. lia.
  - reflexivity.
  - reflexivity.
  - rewrite Eb. exact ex_quartet_cherry.
  - rewrite Eb. exact Ej.
  - apply good_final; [reflexivity|].
    cbn [pt_d]. vm_compute. repeat constructor.
Qed.

Example ex_quartet_nj :
  exists T, nj 4 ex_quartet = Some T /\ dists_ok (fun x y => ex_quartet (Z.to_nat x) (Z.to_nat y)) T.
Proof.
  destruct (nj_good_run_exact 4 ex_quartet) as (T & E & _ & H).
  - lia.
  - intros k l Hk Hl. destruct k as [|[|[|[|k]]]]; destruct l as [|[|[|[|l]]]]; try lia; reflexivity.
  - intros k Hk. destruct k as [|[|[|[|k]]]]; try lia; reflexivity.
  - exact ex_quartet_good_run.
  - exists T. auto.
Qed.
