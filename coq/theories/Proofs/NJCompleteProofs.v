(** C15 — NJ whole run: no tip lost, every pair listed, every listed distance = input (given the run joins a cherry every time). *)
From Coq Require Import QArith Qminmax List Bool Arith ZArith Lia Lqa Permutation.
From CG3 Require Import Model.NJ Spec.DistSpec Proofs.NJProofs Proofs.NJRunProofs.
Import ListNotations.
Open Scope Q_scope.

(** ------------------------------------------------------------------ no tip is lost or duplicated *)

Definition names (t : ltree) : list Z := map fst (tip_depths t).
Definition tips_of (nodes : list ltree) : list Z := flat_map names nodes.

Lemma list_set_perm {A} (l : list A) i x d :
  (i < length l)%nat -> Permutation (nth i l d :: list_set l i x) (x :: l).
Proof.
  intros H. unfold list_set.
  rewrite <- (firstn_skipn i l) at 4.
  assert (E : skipn i l = nth i l d :: skipn (S i) l).
  { clear x. revert i H. induction l as [|y l IH]; intros i H; [simpl in H; lia|].
    destruct i; [reflexivity|]. cbn [skipn nth]. apply IH. simpl in H. lia. }
  rewrite E.
  transitivity (nth i l d :: x :: firstn i l ++ skipn (S i) l).
  { apply perm_skip. apply Permutation_sym. apply Permutation_middle. }
  transitivity (x :: nth i l d :: firstn i l ++ skipn (S i) l).
  { apply perm_swap. }
  apply perm_skip. apply Permutation_middle.
Qed.

Lemma removelast_last_nth {A} (l : list A) d :
  l <> [] -> l = removelast l ++ [nth (length l - 1) l d].
Proof.
  induction l as [|x l IH]; intros H; [congruence|].
  destruct l as [|y l]; [reflexivity|].
  cbn [removelast]. rewrite <- app_comm_cons. f_equal.
  replace (nth (length (x :: y :: l) - 1) (x :: y :: l) d) with (nth (length (y :: l) - 1) (y :: l) d).
  - apply IH. discriminate.
  - cbn [length]. replace (S (S (length l)) - 1)%nat with (S (length l)) by lia.
    replace (S (length l) - 1)%nat with (length l) by lia. reflexivity.
Qed.

Lemma join_nodes_perm (L : nat) (nodes : list ltree) i j N :
  length nodes = L -> (i < L)%nat -> (j < L)%nat -> i <> j ->
  Permutation (nth i nodes dummy_tree :: nth j nodes dummy_tree :: join_nodes L nodes i j N dummy_tree) (N :: nodes).
Proof.
  intros HL Hi Hj Hne. unfold join_nodes. cbv zeta.
  set (n1 := list_set nodes i N). set (v := nth (L - 1) n1 dummy_tree). set (n2 := list_set n1 j v).
  assert (L1 : length n1 = L) by (unfold n1; rewrite list_set_length; lia).
  assert (L2 : length n2 = L) by (unfold n2; rewrite list_set_length; lia).
  assert (P1 : Permutation (nth i nodes dummy_tree :: n1) (N :: nodes)) by (apply list_set_perm; lia).
  assert (P2 : Permutation (nth j n1 dummy_tree :: n2) (v :: n1)) by (apply list_set_perm; lia).
  assert (Ej : nth j n1 dummy_tree = nth j nodes dummy_tree).
  { unfold n1. rewrite list_set_nth by lia. destruct (Nat.eqb_spec j i); [congruence|reflexivity]. }
  assert (E2 : n2 = removelast n2 ++ [v]).
  { rewrite (removelast_last_nth n2 dummy_tree) at 1 by (intros E; rewrite E in L2; simpl in L2; lia).
    f_equal. f_equal. rewrite L2. unfold n2. rewrite list_set_nth by lia.
    destruct (Nat.eqb_spec (L - 1) j); reflexivity. }
  rewrite Ej in P2.
  assert (P3 : Permutation (nth j nodes dummy_tree :: removelast n2) n1).
  { apply (Permutation_cons_inv (a := v)).
    etransitivity; [|exact P2]. rewrite E2 at 2.
    etransitivity; [apply perm_swap|]. apply perm_skip.
    apply Permutation_sym. etransitivity; [apply Permutation_app_comm|]. reflexivity. }
  etransitivity; [apply perm_skip; exact P3|]. exact P1.
Qed.

Lemma tips_of_perm l1 l2 : Permutation l1 l2 -> Permutation (tips_of l1) (tips_of l2).
Proof.
  intros H. unfold tips_of. induction H; cbn [flat_map].
  - constructor.
  - apply Permutation_app_head. assumption.
  - rewrite !app_assoc. apply Permutation_app_tail. apply Permutation_app_comm.
  - etransitivity; eassumption.
Qed.

Lemma names_two la lb ni nj : names (LNode [(la, ni); (lb, nj)]) = names ni ++ names nj.
Proof.
  unfold names. rewrite tip_depths_two, map_app, !map_map. reflexivity.
Qed.

Lemma join_tips (L : nat) (nodes : list ltree) i j la lb :
  length nodes = L -> (i < L)%nat -> (j < L)%nat -> i <> j ->
  Permutation (tips_of (join_nodes L nodes i j (LNode [(la, nth i nodes dummy_tree); (lb, nth j nodes dummy_tree)]) dummy_tree))
              (tips_of nodes).
Proof.
  intros HL Hi Hj Hne.
  pose proof (tips_of_perm _ _ (join_nodes_perm L nodes i j (LNode [(la, nth i nodes dummy_tree); (lb, nth j nodes dummy_tree)]) HL Hi Hj Hne)) as P.
  unfold tips_of in *. cbn [flat_map] in P. rewrite names_two in P.
  rewrite app_assoc in P. apply Permutation_app_inv_l in P. exact P.
Qed.

(** ------------------------------------------------------------------ every pair of tips is listed *)

Definition sh (lc : Q * ltree) : list (Z * Q) := map (fun nd => (fst nd, snd nd + fst lc)) (tip_depths (snd lc)).

Lemma names_node cs : names (LNode cs) = flat_map (fun lc => names (snd lc)) cs.
Proof.
  unfold names. cbn [tip_depths]. induction cs as [|lc r IH]; [reflexivity|].
  cbn [flat_map]. rewrite map_app, IH. f_equal. rewrite map_map. reflexivity.
Qed.

Lemma tip_dists_node cs : tip_dists (LNode cs) = flat_map (fun lc => tip_dists (snd lc)) cs ++ cross_all (map sh cs).
Proof. reflexivity. Qed.

Lemma in_names_sh x lc : In x (names (snd lc)) -> exists nd, In nd (sh lc) /\ fst nd = x.
Proof.
  unfold names, sh. intros H. apply in_map_iff in H. destruct H as (nd & <- & H).
  exists (fst nd, snd nd + fst lc). split; [|reflexivity]. apply in_map_iff. exists nd. auto.
Qed.

Lemma in_cross_intro (a b : list (Z * Q)) u v : In u a -> In v b -> In (fst u, fst v, snd u + snd v) (cross a b).
Proof.
  intros Hu Hv. unfold cross. apply in_flat_map. exists u. split; [exact Hu|].
  apply in_map_iff. exists v. auto.
Qed.

Definition listed (T : list (Z * Z * Q)) (x y : Z) : Prop := exists q, In (x, y, q) T \/ In (y, x, q) T.

Lemma pairs_complete : forall T x y, In x (names T) -> In y (names T) -> x <> y -> listed (tip_dists T) x y.
Proof.
  induction T as [n|cs IH] using ltree_ind'; intros x y Hx Hy Hxy.
  - cbn in Hx, Hy. destruct Hx as [<-|[]]. destruct Hy as [<-|[]]. congruence.
  - rewrite names_node in Hx, Hy. rewrite tip_dists_node.
    revert x y Hx Hy Hxy. induction cs as [|lc r IHr]; intros x y Hx Hy Hxy; [destruct Hx|].
    inversion IH as [|? ? IHc IHrest]; subst. specialize (IHr IHrest).
    cbn [flat_map map cross_all] in *.
    apply in_app_or in Hx. apply in_app_or in Hy.
    destruct Hx as [Hx|Hx]; destruct Hy as [Hy|Hy].
    + destruct (IHc x y Hx Hy Hxy) as (q & [H|H]); exists q; [left|right]; apply in_or_app; left; apply in_or_app; left; exact H.
    + apply in_flat_map in Hy. destruct Hy as (lc' & Hin & Hy).
      destruct (in_names_sh x lc Hx) as (u & Hu & <-). destruct (in_names_sh y lc' Hy) as (v & Hv & <-).
      exists (snd u + snd v). left. apply in_or_app. right. apply in_or_app. left.
      apply in_flat_map. exists (sh lc'). split; [apply in_map; exact Hin|]. apply in_cross_intro; assumption.
    + apply in_flat_map in Hx. destruct Hx as (lc' & Hin & Hx).
      destruct (in_names_sh y lc Hy) as (u & Hu & <-). destruct (in_names_sh x lc' Hx) as (v & Hv & <-).
      exists (snd u + snd v). right. apply in_or_app. right. apply in_or_app. left.
      apply in_flat_map. exists (sh lc'). split; [apply in_map; exact Hin|]. apply in_cross_intro; assumption.
    + destruct (IHr x y Hx Hy Hxy) as (q & [H|H]); exists q; [left|right];
        (apply in_app_or in H; destruct H as [H|H]; apply in_or_app;
         [left; apply in_or_app; right; exact H | right; apply in_or_app; right; exact H]).
Qed.

(** ------------------------------------------------------------------ tips through the loop, final statement *)

Lemma nj_loop_tips orig : forall t, good_run t -> state_ok orig t ->
  forall fuel t3, nj_loop fuel t = Some t3 -> Permutation (tips_of (pt_nodes t3)) (tips_of (pt_nodes t)).
Proof.
  intros t Hg. induction Hg as [t HL Hpos|t t' a b D HL Ha Hb Hch Hjoin Hg IH]; intros Hok fuel t3 E.
  - destruct fuel as [|f]; [discriminate|]. cbn [nj_loop] in E. rewrite HL in E. cbn in E. injection E as <-. reflexivity.
  - destruct fuel as [|f]; [discriminate|]. cbn [nj_loop] in E.
    replace (Nat.leb (pt_L t) 3) with false in E by (symmetry; apply Nat.leb_gt; lia).
    rewrite (surjective_pairing (best_pair t)) in E. rewrite Hjoin in E.
    destruct (join_exact t _ _ a b D ltac:(lia) Hch (Qlt_le_weak _ _ Ha) (Qlt_le_weak _ _ Hb)) as (la & lb & Hla & Hlb & Ej).
    rewrite Ej in Hjoin. injection Hjoin as <-.
    etransitivity.
    + eapply IH; [|exact E]. apply (step_state_ok orig t _ _ a b D la lb); assumption.
    + cbn [pt_nodes]. destruct Hch as [Hi Hj Hne _ _ _ _].
      apply join_tips; try assumption. exact (so_len orig t Hok).
Qed.

Lemma final_tree_names orig t :
  state_ok orig t -> pt_L t = 3%nat -> Forall (fun l => 0 < l) (final_lengths (pt_d t)) ->
  names (final_tree t) = tips_of (pt_nodes t).
Proof.
  intros Hok HL Hpos.
  destruct (final_tree_ok orig t Hok HL Hpos) as [Hpt _].
  pose proof (so_len orig t Hok) as Hlen. rewrite HL in Hlen.
  unfold final_tree in *.
  destruct (pt_nodes t) as [|n0 [|n1 [|n2 [|n3 r]]]] eqn:En; try discriminate Hlen.
  destruct (final_lengths (pt_d t)) as [|l0 [|l1 [|l2 [|l3 r']]]] eqn:El; try discriminate El.
  cbn [combine] in *.
  assert (Hp : pos_tree (LNode [(l0, n0); (l1, n1); (l2, n2)])).
  { inversion Hpos as [|? ? P0 Hpos1]; subst. inversion Hpos1 as [|? ? P1 Hpos2]; subst. inversion Hpos2 as [|? ? P2 _]; subst.
    pose proof (so_pos orig t Hok) as Hp. rewrite HL, En in Hp.
    cbn [pos_tree fst snd]. repeat split; try assumption.
    - exact (Hp 0%nat ltac:(lia)). - exact (Hp 1%nat ltac:(lia)). - exact (Hp 2%nat ltac:(lia)). }
  rewrite (convert_pos _ Hp). rewrite names_node. unfold tips_of. reflexivity.
Qed.

Lemma star_tips n : tips_of (map (fun k => LTip (Z.of_nat k)) (seq 0 n)) = map Z.of_nat (seq 0 n).
Proof.
  generalize 0%nat. induction n as [|n IH]; intros s; [reflexivity|].
  cbn [seq map tips_of flat_map]. unfold tips_of in IH. rewrite IH. reflexivity.
Qed.

(** nj on a matrix on which the run joins a cherry every time returns a tree with positive branch
    lengths, with exactly the input's tips, in which every pair of tips is listed with a path
    length equal to the input distance *)
Theorem nj_good_run_complete n d :
  (3 <= n)%nat ->
  (forall k l, (k < n)%nat -> (l < n)%nat -> d k l == d l k) -> (forall k, (k < n)%nat -> d k k == 0) ->
  good_run (star_tree n d) ->
  exists T, nj n d = Some T /\ pos_tree T /\
    Permutation (names T) (map Z.of_nat (seq 0 n)) /\
    (forall x y, (x < n)%nat -> (y < n)%nat -> x <> y ->
       exists q, (In (Z.of_nat x, Z.of_nat y, q) (tip_dists T) \/ In (Z.of_nat y, Z.of_nat x, q) (tip_dists T)) /\ q == d x y) /\
    (forall x y q, In (x, y, q) (tip_dists T) -> q == d (Z.to_nat x) (Z.to_nat y)).
Proof.
  intros Hn Hs Hd Hg.
  set (orig := fun x y : Z => d (Z.to_nat x) (Z.to_nat y)).
  pose proof (star_tree_ok n d Hs Hd) as Hok0. fold orig in Hok0.
  destruct (nj_loop_good orig _ Hg Hok0 (S n)) as (t3 & E & HL & Hok & Hpos).
  { cbn [star_tree pt_L]. lia. } { lia. }
  pose proof (nj_loop_tips orig _ Hg Hok0 _ _ E) as Ptips.
  cbn [star_tree pt_nodes] in Ptips. rewrite star_tips in Ptips.
  destruct (final_tree_ok orig t3 Hok HL Hpos) as [Hpt Hdo].
  assert (Hnames : Permutation (names (final_tree t3)) (map Z.of_nat (seq 0 n))).
  { rewrite (final_tree_names orig t3 Hok HL Hpos). exact Ptips. }
  assert (Hall : forall x y q, In (x, y, q) (tip_dists (final_tree t3)) -> q == orig x y).
  { intros x y q Hin. unfold dists_ok in Hdo. rewrite Forall_forall in Hdo. exact (Hdo _ Hin). }
  exists (final_tree t3). unfold nj. replace (Nat.eqb n 2) with false by (symmetry; apply Nat.eqb_neq; lia).
  rewrite E. split; [reflexivity|]. split; [exact Hpt|]. split; [exact Hnames|]. split; [|exact Hall].
  intros x y Hx Hy Hxy.
  assert (Ix : In (Z.of_nat x) (names (final_tree t3))).
  { apply (Permutation_in _ (Permutation_sym Hnames)). apply in_map. apply in_seq. lia. }
  assert (Iy : In (Z.of_nat y) (names (final_tree t3))).
  { apply (Permutation_in _ (Permutation_sym Hnames)). apply in_map. apply in_seq. lia. }
  destruct (pairs_complete _ _ _ Ix Iy ltac:(lia)) as (q & Hq).
  exists q. split; [exact Hq|].
  destruct Hq as [Hq|Hq]; rewrite (Hall _ _ _ Hq); unfold orig; rewrite !Nat2Z.id; [reflexivity|apply Hs; assumption].
Qed.
