(** C13 — translator tie: every function of gen/DsNamesGen.v (regenerated from the
    current text of data_store.py / sqlite_data_store.py by
    harness/translators/ds_names.py) equals the corresponding hand-written
    function of Model/DataStore.v / Model/SqlStore.v (variant [repaired]).

    Equalities without hypothesis hold for ALL strings; the three that go
    through a regular expression hold for every suffix without a '.'. *)
From Coq Require Import ZArith List Bool Lia.
From CG3 Require Import Lib.PyZ Lib.Val Lib.Chars Lib.PyStr Model.DataStore Model.SqlStore Spec.DataStoreSpec.
From CG3 Require Import Proofs.SqlStoreProofs Proofs.DataStoreProofs Proofs.DataStoreNames.
From CG3gen Require Import DsNamesGen.
Import ListNotations.

Module G := DsNamesGen.

(** ------------------------------------------------------------------ the regular expression
    [.]LIT(?=[.]|$) is replacement of whole dotted components *)

Definition tailstr (comps : list str) : str :=
  match comps with [] => [] | _ => ch_dot :: join_dot comps end.

Lemma join_dot_cons p rest : join_dot (p :: rest) = p ++ tailstr rest.
Proof. destruct rest; cbn [join_dot tailstr]; [now rewrite app_nil_r|reflexivity]. Qed.

Lemma tailstr_cons p rest : tailstr (p :: rest) = ch_dot :: p ++ tailstr rest.
Proof. unfold tailstr at 1. now rewrite join_dot_cons. Qed.

Lemma split_on_join s :
  join_dot (split_on ch_dot s) = s /\ Forall (fun w => ~ In ch_dot w) (split_on ch_dot s) /\ split_on ch_dot s <> [].
Proof.
  induction s as [|x t [IH1 [IH2 IH3]]]; cbn [split_on].
  - splits; [reflexivity|constructor; [intros []|constructor]|discriminate].
  - destruct (split_on ch_dot t) as [|w ws] eqn:E; [congruence|].
    destruct (Z.eqb_spec x ch_dot) as [->|Hn].
    + splits; [|constructor; [intros []|assumption]|discriminate].
      change (join_dot ([] :: w :: ws)) with (ch_dot :: join_dot (w :: ws)). now rewrite IH1.
    + splits; [|inversion IH2; subst; constructor; [|assumption]|discriminate].
      * rewrite join_dot_cons. rewrite join_dot_cons in IH1. cbn [app]. now rewrite IH1.
      * intros [E1|Hin]; [congruence|contradiction].
Qed.

Lemma go_nodot lit repl h r : ~ In ch_dot h -> re_sub_go lit repl O (h ++ r) = h ++ re_sub_go lit repl O r.
Proof.
  induction h as [|c h IH]; intros H; [reflexivity|]. cbn [app re_sub_go].
  destruct (Z.eqb_spec c ch_dot) as [->|Hn]; [exfalso; apply H; now left|]. cbn [andb].
  rewrite IH; [reflexivity|]. intros Hin. apply H. now right.
Qed.

Lemma go_skip lit repl a b : re_sub_go lit repl (length a) (a ++ b) = re_sub_go lit repl O b.
Proof.
  induction a as [|c a IH]; [reflexivity|]. cbn [length app re_sub_go]. exact IH.
Qed.

Lemma match_component lit : forall p tl,
  ~ In ch_dot p -> ~ In ch_dot lit -> (tl = [] \/ exists r, tl = ch_dot :: r) ->
  startswith (p ++ tl) lit && la_ok (skipn (length lit) (p ++ tl)) = str_eqb p lit.
Proof.
  induction lit as [|y lit IH]; intros p tl Hp Hl Htl.
  - cbn [length skipn]. destruct p as [|x p]; cbn [app str_eqb].
    + destruct Htl as [->|[r ->]]; reflexivity.
    + assert (x <> ch_dot) by (intros ->; apply Hp; now left).
      cbn [la_ok startswith]. destruct (Z.eqb_spec x ch_dot); [contradiction|]. destruct tl; reflexivity.
  - assert (y <> ch_dot) by (intros ->; apply Hl; now left).
    destruct p as [|x p]; cbn [app str_eqb].
    + destruct Htl as [->|[r ->]]; cbn [startswith]; [reflexivity|].
      destruct (Z.eqb_spec ch_dot y); [congruence|reflexivity].
    + cbn [startswith length skipn]. rewrite <- andb_assoc. rewrite IH; [reflexivity| | |assumption].
      * intros Hin. apply Hp. now right.
      * intros Hin. apply Hl. now right.
Qed.

Lemma tailstr_shape comps : tailstr comps = [] \/ exists r, tailstr comps = ch_dot :: r.
Proof. destruct comps; cbn; eauto. Qed.

Lemma go_tail lit new comps :
  ~ In ch_dot lit -> Forall (fun w => ~ In ch_dot w) comps ->
  re_sub_go lit (ch_dot :: new) O (tailstr comps)
  = tailstr (map (fun p => if str_eqb p lit then new else p) comps).
Proof.
  intros Hl H. induction H as [|p rest Hp Hrest IH]; [reflexivity|].
  cbn [map]. rewrite !tailstr_cons.
  cbn [re_sub_go]. replace (ch_dot =? ch_dot) with true by reflexivity. cbn [andb].
  rewrite (match_component lit p (tailstr rest) Hp Hl (tailstr_shape rest)).
  destruct (str_eqb_spec p lit) as [->|Hne].
  - rewrite go_skip, IH. reflexivity.
  - rewrite (go_nodot _ _ p _ Hp), IH. reflexivity.
Qed.

Lemma re_sub_is_replace_comp s lit new :
  ~ In ch_dot lit -> re_sub_dot_lit_la s lit (ch_dot :: new) = replace_comp s lit new.
Proof.
  intros Hl. unfold re_sub_dot_lit_la, replace_comp.
  destruct (split_on_join s) as [J [F NE]]. destruct (split_on ch_dot s) as [|h t]; [congruence|].
  apply Forall_cons_iff in F. destruct F as [Hh Ht].
  rewrite <- J at 1. rewrite !join_dot_cons. rewrite (go_nodot _ _ h _ Hh). now rewrite (go_tail lit new t Hl Ht).
Qed.

(** ------------------------------------------------------------------ the equalities *)

Lemma split1_left c : forall l a b, split1 c l = Some (a, b) -> ~ In c a.
Proof.
  induction l as [|x t IH]; intros a b E; cbn [split1] in E; [discriminate|].
  destruct (Z.eqb_spec x c) as [->|Hn].
  - inversion E; subst. intros [].
  - destruct (split1 c t) as [[a1 b1]|] eqn:E1; [|discriminate]. inversion E; subst.
    intros [E2|Hin]; [congruence|]. now apply (IH a1 b).
Qed.

Lemma split1_none_notin c : forall l, split1 c l = None -> ~ In c l.
Proof.
  induction l as [|x t IH]; intros E; cbn [split1] in E; [intros []|].
  destruct (Z.eqb_spec x c) as [->|Hn]; [discriminate|].
  destruct (split1 c t) as [[a1 b1]|] eqn:E1; [discriminate|].
  intros [E2|Hin]; [congruence|]. now apply IH.
Qed.

Lemma path_name_no_slash s : ~ In ch_slash (path_name s).
Proof.
  unfold path_name, rsplit1. destruct (split1 ch_slash (rev s)) as [[a b]|] eqn:E.
  - intros Hin. apply in_rev in Hin. revert Hin. now apply (split1_left _ _ _ _ E).
  - intros Hin. apply (split1_none_notin _ _ E). now apply in_rev in Hin.
Qed.

Lemma path_name_idem s : path_name (path_name s) = path_name s.
Proof. apply path_name_plain. apply path_name_no_slash. Qed.

(** The equality proofs are written to survive harmless rewrites of the source (if/else
    against conditional expression, reordered tests, intermediate variables): both sides are
    unfolded, the regular expression is turned into component replacement, and then every
    ATOMIC test occurring in the goal is decided by case analysis. *)
Ltac atom :=
  match goal with
  | |- context [endswith ?a ?b] => destruct (endswith a b) eqn:?
  | |- context [startswith ?a ?b] => destruct (startswith a b) eqn:?
  | |- context [str_eqb ?a ?b] => destruct (str_eqb a b) eqn:?
  | |- context [opt_str_eqb ?a ?b] => destruct (opt_str_eqb a b) eqn:?
  | |- context [nonempty ?a] => destruct a eqn:?; cbn [nonempty]
  | |- context [present ?a] => destruct a eqn:?; cbn [present]
  | |- context [match ?a with [] => _ | _ :: _ => _ end] => destruct a eqn:?
  | |- context [match ?a with Some _ => _ | None => _ end] => destruct a eqn:?
  end.

Ltac decide_all :=
  cbn [app existsb negb andb orb fst snd];
  repeat (atom; cbn [app existsb negb andb orb fst snd]);
  try reflexivity; try congruence.

(** [DataStoreDirectory.__contains__]: all strings *)
Lemma contains_key_eq sfx item : G.contains_key sfx item = contains_key repaired sfx item.
Proof.
  unfold G.contains_key, contains_key, special_suffix, re_search_dot_alts_end, s_dot_log, s_dot_json, s_log, s_json, ch_dot.
  cbn [v_sfx repaired]. decide_all.
Qed.

(** [_write], the name written: every suffix without a '.' *)
Lemma write_name_eq self_sfx suffix uid :
  ~ In ch_dot self_sfx -> G.write_name self_sfx suffix uid = write_name repaired self_sfx suffix uid.
Proof.
  intros H. unfold G.write_name, write_name, subst_suffix. cbn [v_sfx repaired app].
  rewrite ?(fun s new => re_sub_is_replace_comp s self_sfx new H).
  destruct (get_format_suffixes uid) as [sfx cmp]. unfold ch_dot. decide_all.
Qed.

(** [_write], the md5 side file of an uncompressed member *)
Lemma md5_write_name_eq suffix fname :
  ~ In ch_dot suffix -> G.md5_write_name suffix None fname = md5_write_name repaired suffix fname.
Proof.
  intros H. unfold G.md5_write_name, md5_write_name, subst_suffix. cbn [v_sfx repaired].
  change [46;116;120;116] with (ch_dot :: s_txt).
  rewrite ?(fun s new => re_sub_is_replace_comp s suffix new H). decide_all.
Qed.

Lemma nc_member_id_eq fname : G.nc_member_id fname = s_nc_prefix ++ fname.
Proof. reflexivity. Qed.

(** [drop_not_completed]: all strings *)
Lemma drop_pattern_eq sfx uid : G.drop_pattern sfx uid = drop_pattern sfx uid.
Proof. unfold G.drop_pattern, drop_pattern, ch_dot. decide_all. Qed.

Lemma drop_file_eq m : G.drop_file m = path_name m.
Proof. unfold G.drop_file. now rewrite ?path_name_idem. Qed.

Lemma drop_md5_file_eq m : G.drop_md5_file m = path_stem (path_name m) ++ s_dot_txt.
Proof. unfold G.drop_md5_file. now rewrite ?path_name_idem. Qed.

Lemma drop_skip_eq pat m : G.drop_skip pat m = nonempty pat && negb (str_eqb (path_name m) pat).
Proof. unfold G.drop_skip. rewrite ?path_name_idem. decide_all. Qed.

(** one round of the loop of [drop_not_completed], written with the generated functions *)
Lemma drop_loop_gen pat m rest s :
  drop_loop repaired pat (m :: rest) s =
  if G.drop_skip pat m then drop_loop repaired pat rest s
  else
    match d_nc s with
    | None => (s, Some E_IO)
    | Some ncm =>
        if fm_mem ncm (G.drop_file m) then
          let s1 := with_nc s (Some (fm_del ncm (G.drop_file m))) in
          if fm_mem (d_md5 s1) (G.drop_md5_file m) then
            let s2 := with_md5 s1 (fm_del (d_md5 s1) (G.drop_md5_file m)) in
            let (s3, l) := nc_prop s2 in
            if mem_str m l then drop_loop repaired pat rest (with_ncache s3 (remove_first m l))
            else (s3, Some E_Value)
          else (s1, Some E_IO)
        else (s, Some E_IO)
    end.
Proof.
  rewrite drop_md5_file_eq, drop_file_eq, drop_skip_eq. cbn [drop_loop v_exact repaired]. reflexivity.
Qed.

(** [md5()]: every suffix without a '.' *)
Lemma md5_lookup_name_eq sfx uid :
  ~ In ch_dot sfx -> G.md5_lookup_name sfx uid = md5_lookup_name sfx uid.
Proof.
  intros H. unfold G.md5_lookup_name, md5_lookup_name, re_sub_dot_alts_end. rewrite ?path_name_idem. cbn [longest_alt].
  set (name := path_name uid). unfold s_dot_json. fold s_json.
  assert (Hj : ~ In ch_dot s_json) by (cbn; intuition discriminate).
  destruct (endswith name (ch_dot :: sfx)) eqn:E1.
  - destruct (endswith name (ch_dot :: s_json)) eqn:E2.
    + destruct (endswith_split _ _ E1) as [a Ea]. rewrite Ea in E2.
      rewrite (endswith_last ch_dot a sfx s_json H Hj) in E2. apply str_eqb_eq in E2. subst sfx.
      rewrite Nat.ltb_irrefl. reflexivity.
    + reflexivity.
  - destruct (endswith name (ch_dot :: s_json)) eqn:E2; reflexivity.
Qed.

(** sqlite: all strings *)
Lemma sq_write_id_eq uid : G.sq_write_id uid = strip_table s_results uid.
Proof. unfold G.sq_write_id, strip_table, G.c_RESULT_TABLE, s_results. decide_all. Qed.
Lemma sq_write_nc_id_eq uid : G.sq_write_nc_id uid = strip_table s_results uid.
Proof. unfold G.sq_write_nc_id, strip_table, G.c_RESULT_TABLE, s_results. decide_all. Qed.
Lemma sq_write_log_id_eq uid : G.sq_write_log_id uid = strip_table s_logs uid.
Proof. unfold G.sq_write_log_id, strip_table, G.c_LOG_TABLE, s_logs. decide_all. Qed.

(** ------------------------------------------------------------------ transported facts *)

Lemma plain_sfx_nodot sfx : plain_sfx sfx = true -> ~ In ch_dot sfx.
Proof. intros H. destruct (sfx_facts sfx H) as [Hf _]. apply (pl_dot _ Hf). Qed.

(** on plain identifiers the name computations of the CURRENT SOURCE are canonical:
    every normalisation of x or x.<suffix> leads to the files  x.<suffix> / x.json / x.txt *)
Lemma gen_canonical sfx x :
  plain_sfx sfx = true -> plain_did sfx x = true ->
  let k := dir_lid sfx x in
  G.contains_key sfx x = cfile sfx k /\
  G.write_name sfx sfx x = (cfile sfx k, None) /\
  G.write_name sfx s_json x = (nfile k, None) /\
  G.md5_write_name sfx None (cfile sfx k) = mfile k /\
  G.md5_write_name s_json None (nfile k) = mfile k /\
  G.nc_member_id (nfile k) = nmem k /\
  G.drop_pattern sfx x = nfile k /\
  G.drop_file (nmem k) = nfile k /\
  G.drop_md5_file (nmem k) = mfile k /\
  G.md5_lookup_name sfx (cfile sfx k) = mfile k /\
  G.md5_lookup_name sfx (nmem k) = mfile k.
Proof.
  intros Hs Hx k. pose proof (plain_sfx_nodot sfx Hs) as Hd.
  assert (Hj : ~ In ch_dot s_json) by (cbn; intuition discriminate).
  pose proof (wf_id_unpack sfx x (plain_did_wf sfx x Hs Hx)) as Wx. fold k in Wx.
  pose proof (wf_name_unpack sfx k (wi_name _ _ Wx)) as Wk.
  rewrite contains_key_eq, !write_name_eq, !md5_write_name_eq, drop_pattern_eq, drop_file_eq, drop_md5_file_eq,
    !md5_lookup_name_eq by assumption.
  splits.
  - apply (wi_key _ _ Wx).
  - apply (wi_wc _ _ Wx).
  - apply (wi_wn _ _ Wx).
  - apply (wn_md5c _ _ Wk).
  - apply (wn_md5n _ _ Wk).
  - reflexivity.
  - apply (wi_drop _ _ Wx).
  - apply (wn_pname _ _ Wk).
  - rewrite (wn_pname _ _ Wk). apply (wn_stem _ _ Wk).
  - apply (wn_lookc _ _ Wk).
  - apply (wn_lookn _ _ Wk).
Qed.

(** the loop of [drop_not_completed] skips exactly the members that are not the named record *)
Lemma gen_drop_skip_exact sfx x y :
  plain_sfx sfx = true -> plain_str x = true -> plain_str y = true ->
  G.drop_skip (G.drop_pattern sfx x) (nmem y) = negb (str_eqb y x).
Proof.
  intros Hs Hx Hy.
  assert (Hpx : plain_did sfx x = true) by (unfold plain_did; now rewrite Hx).
  assert (Hpy : plain_did sfx y = true) by (unfold plain_did; now rewrite Hy).
  assert (Ex : dir_lid sfx x = x).
  { unfold dir_lid. now rewrite (no_dot_endswith x sfx (pl_dot _ (plain_unpack x Hx))). }
  assert (Ey : dir_lid sfx y = y).
  { unfold dir_lid. now rewrite (no_dot_endswith y sfx (pl_dot _ (plain_unpack y Hy))). }
  destruct (gen_canonical sfx x Hs Hpx) as [_ [_ [_ [_ [_ [_ [Hp _]]]]]]].
  destruct (gen_canonical sfx y Hs Hpy) as [_ [_ [_ [_ [_ [_ [_ [Hf _]]]]]]]].
  rewrite Ex in Hp. rewrite Ey in Hf. rewrite drop_file_eq in Hf.
  rewrite drop_skip_eq, Hp, Hf.
  rewrite (str_eqb_inj nfile y x nfile_inj).
  pose proof (nfile_nonempty x). destruct (nfile x); [congruence|reflexivity].
Qed.
