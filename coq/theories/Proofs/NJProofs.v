(** C15 — proofs about the NJ / UPGMA model (exact rationals). *)
From Coq Require Import QArith Qminmax List Bool Arith ZArith Lia Lqa.
From CG3 Require Import Model.NJ Spec.DistSpec.
Import ListNotations.
Open Scope Q_scope.

Lemma qsum_map_ext (f g : nat -> Q) l :
  (forall k, In k l -> f k == g k) -> qsum (map f l) == qsum (map g l).
Proof.
  induction l as [|x l IH]; intros H; simpl; [reflexivity|].
  rewrite (H x) by (left; reflexivity). rewrite IH; [reflexivity|].
  intros; apply H; right; assumption.
Qed.

Lemma qsum_map_plus (f g : nat -> Q) l :
  qsum (map (fun k => f k + g k) l) == qsum (map f l) + qsum (map g l).
Proof. induction l as [|x l IH]; simpl; [ring|]. rewrite IH. ring. Qed.

Lemma qsum_map_const (c : Q) s n :
  qsum (map (fun _ => c) (seq s n)) == ofnat n * c.
Proof.
  revert s; induction n as [|n IH]; intros s; simpl.
  - unfold ofnat; simpl. ring.
  - rewrite IH. unfold ofnat. rewrite Nat2Z.inj_succ, <- Z.add_1_r, inject_Z_plus. ring.
Qed.

Lemma qsum_indicator_out (u : Q) i s n :
  (i < s \/ s + n <= i)%nat ->
  qsum (map (fun k => if Nat.eqb k i then u else 0) (seq s n)) == 0.
Proof.
  revert s; induction n as [|n IH]; intros s H; cbn [seq map qsum fold_right]; [reflexivity|].
  fold (qsum (map (fun k => if Nat.eqb k i then u else 0) (seq (S s) n))).
  rewrite IH by lia. destruct (Nat.eqb_spec s i); [lia|ring].
Qed.

Lemma qsum_indicator (u : Q) i s n :
  (s <= i < s + n)%nat ->
  qsum (map (fun k => if Nat.eqb k i then u else 0) (seq s n)) == u.
Proof.
  revert s; induction n as [|n IH]; intros s H; cbn [seq map qsum fold_right]; [lia|].
  fold (qsum (map (fun k => if Nat.eqb k i then u else 0) (seq (S s) n))).
  destruct (Nat.eqb_spec s i) as [->|Hn].
  - rewrite qsum_indicator_out by lia. ring.
  - rewrite IH by lia. ring.
Qed.

Lemma qsum_map_sub (f g : nat -> Q) l :
  qsum (map f l) - qsum (map g l) == qsum (map (fun k => f k - g k) l).
Proof. induction l as [|x l IH]; simpl; [ring|]. rewrite <- IH. ring. Qed.

Lemma ofnat_minus2_nz L : (3 <= L)%nat -> ~ ofnat L - 2 == 0.
Proof.
  intros H E. unfold ofnat in E.
  assert (inject_Z (Z.of_nat L) == inject_Z 2) as E2 by (rewrite <- (Qplus_0_r (inject_Z 2)), <- E; ring).
  unfold Qeq in E2. simpl in E2. lia.
Qed.

Lemma colsum_diff L d i j a b D :
  cherry_at L d i j a b D ->
  colsum L d i - colsum L d j == (ofnat L - 2) * (a - b).
Proof.
  intros [Hi Hj Hne Hij Hji Hdiag Hoth]. unfold colsum.
  rewrite qsum_map_sub.
  rewrite (qsum_map_ext _ (fun k => (a - b) + ((if Nat.eqb k i then - (2#1) * a else 0) + (if Nat.eqb k j then (2#1) * b else 0)))).
  2:{ intros k Hk. apply in_seq in Hk.
      destruct (Nat.eqb_spec k i) as [Eki|Hki]; destruct (Nat.eqb_spec k j) as [Ekj|Hkj]; try subst k.
      - congruence.
      - rewrite (Hdiag i) by lia. rewrite Hij. ring.
      - rewrite (Hdiag j) by lia. rewrite Hji. ring.
      - destruct (Hoth k) as (H1 & _ & H3 & _); try lia. rewrite H1, H3. ring. }
  rewrite qsum_map_plus, qsum_map_plus, qsum_map_const.
  rewrite qsum_indicator by lia. rewrite qsum_indicator by lia. ring.
Qed.

Lemma join_left_exact L d i j a b D :
  (3 <= L)%nat -> cherry_at L d i j a b D -> join_left L d i j == a.
Proof.
  intros HL H. unfold join_left. cbv zeta.
  rewrite (colsum_diff L d i j a b D H). rewrite (ch_ij _ _ _ _ _ _ _ H).
  field. apply ofnat_minus2_nz; assumption.
Qed.

Lemma join_right_exact L d i j a b D :
  (3 <= L)%nat -> cherry_at L d i j a b D -> join_right L d i j == b.
Proof.
  intros HL H. unfold join_right. cbv zeta.
  rewrite (colsum_diff L d i j a b D H). rewrite (ch_ij _ _ _ _ _ _ _ H).
  field. apply ofnat_minus2_nz; assumption.
Qed.

Lemma join_matrix_ren L d i j k l :
  join_matrix L d i j k l =
  (let new_dists := fun k => (1 # 2) * (d i k + d j k - d i j) in
   upd_cell (upd_row (upd_col d i new_dists) i new_dists) i i 0) (ren L j k) (ren L j l).
Proof.
  unfold join_matrix, ren. cbv zeta.
  match goal with |- context [upd_cell ?a ?b ?c ?e] => generalize (upd_cell a b c e) end.
  intros d3. unfold upd_col, upd_row.
  destruct (Nat.eqb l j); destruct (Nat.eqb k j); reflexivity.
Qed.

Lemma join_matrix_exact L d i j a b D k l :
  cherry_at L d i j a b D -> (k < L - 1)%nat -> (l < L - 1)%nat ->
  join_matrix L d i j k l == contracted d i D (ren L j k) (ren L j l).
Proof.
  intros [Hi Hj Hne Hij Hji Hdiag Hoth] Hk Hl.
  rewrite join_matrix_ren. cbv zeta.
  assert (Hx : (ren L j k < L)%nat /\ ren L j k <> j).
  { unfold ren. destruct (Nat.eqb_spec k j); lia. }
  assert (Hy : (ren L j l < L)%nat /\ ren L j l <> j).
  { unfold ren. destruct (Nat.eqb_spec l j); lia. }
  set (x := ren L j k) in *. set (y := ren L j l) in *. destruct Hx as [Hx Hxj]. destruct Hy as [Hy Hyj].
  unfold contracted, upd_cell, upd_row, upd_col.
  destruct (Nat.eqb_spec x i) as [->|Hxi]; destruct (Nat.eqb_spec y i) as [->|Hyi]; simpl.
  - reflexivity.
  - destruct (Hoth y) as (_ & H2 & _ & H4); try lia. rewrite H2, H4, Hij. field.
  - destruct (Hoth x) as (_ & H2 & _ & H4); try lia. rewrite H2, H4, Hij. field.
  - reflexivity.
Qed.

Lemma max0_nonneg x : 0 <= x -> max0 x == x.
Proof.
  intros H. unfold max0. destruct (Qle_bool x 0) eqn:E; [|reflexivity].
  apply Qle_bool_iff in E. apply Qle_antisym; assumption.
Qed.

Lemma join_assert_holds L d i j a b D :
  cherry_at L d i j a b D -> join_matrix L d i j j j == 0.
Proof.
  intros [Hi Hj Hne Hij Hji Hdiag Hoth].
  rewrite join_matrix_ren. cbv zeta. unfold ren. rewrite Nat.eqb_refl.
  unfold upd_cell, upd_row, upd_col.
  destruct (Nat.eqb_spec (L - 1) i) as [E|E]; simpl; [reflexivity|].
  apply Hdiag. lia.
Qed.

Lemma join_exact t i j a b D :
  (3 <= pt_L t)%nat -> cherry_at (pt_L t) (pt_d t) i j a b D -> 0 <= a -> 0 <= b ->
  exists la lb,
    la == a /\ lb == b /\
    join t i j = Some (PT (pt_L t - 1) (join_matrix (pt_L t) (pt_d t) i j)
                          (join_nodes (pt_L t) (pt_nodes t) i j
                             (LNode [(la, nth i (pt_nodes t) dummy_tree); (lb, nth j (pt_nodes t) dummy_tree)]) dummy_tree)
                          (pt_score t + pt_d t i j)).
Proof.
  intros HL H Ha Hb.
  exists (max0 (join_left (pt_L t) (pt_d t) i j)), (max0 (join_right (pt_L t) (pt_d t) i j)).
  split; [|split].
  - rewrite max0_nonneg; rewrite (join_left_exact _ _ _ _ _ _ _ HL H); [reflexivity|assumption].
  - rewrite max0_nonneg; rewrite (join_right_exact _ _ _ _ _ _ _ HL H); [reflexivity|assumption].
  - unfold join. cbv zeta.
    pose proof (join_assert_holds _ _ _ _ _ _ _ H) as E. apply Qeq_bool_iff in E. rewrite E. reflexivity.
Qed.

(** the final three-taxon step *)
Lemma final_three_exact d a b c :
  d 0%nat 0%nat == 0 -> d 1%nat 1%nat == 0 -> d 2%nat 2%nat == 0 ->
  d 0%nat 1%nat == a + b -> d 1%nat 0%nat == a + b ->
  d 0%nat 2%nat == a + c -> d 2%nat 0%nat == a + c ->
  d 1%nat 2%nat == b + c -> d 2%nat 1%nat == b + c ->
  Forall2 Qeq (final_lengths d) [a; b; c].
Proof.
  intros H00 H11 H22 H01 H10 H02 H20 H12 H21.
  unfold final_lengths, matsum, colsum. cbn [seq map qsum fold_right].
  unfold Qdiv. change (/ 4) with (1 # 4).
  apply Forall2_cons; [lra|]. apply Forall2_cons; [lra|]. apply Forall2_cons; [lra|]. apply Forall2_nil.
Qed.

(** list bookkeeping of join *)
Lemma list_set_length {A} (l : list A) i x : (i < length l)%nat -> length (list_set l i x) = length l.
Proof.
  intros H. unfold list_set. rewrite app_length. cbn [length]. rewrite firstn_length, skipn_length. lia.
Qed.

Lemma list_set_nth {A} (l : list A) i x k dflt :
  (i < length l)%nat -> nth k (list_set l i x) dflt = if Nat.eqb k i then x else nth k l dflt.
Proof.
  intros H. unfold list_set.
  destruct (Nat.eqb_spec k i) as [->|Hn].
  - rewrite app_nth2; rewrite firstn_length; [|lia]. replace (i - Nat.min i (length l))%nat with 0%nat by lia. reflexivity.
  - destruct (Nat.lt_ge_cases k i) as [Hlt|Hge].
    + rewrite app_nth1 by (rewrite firstn_length; lia).
      rewrite <- (firstn_skipn i l) at 2. rewrite app_nth1 by (rewrite firstn_length; lia). reflexivity.
    + rewrite app_nth2 by (rewrite firstn_length; lia). rewrite firstn_length.
      replace (k - Nat.min i (length l))%nat with (S (k - S i)) by lia. cbn [nth].
      rewrite <- (firstn_skipn (S i) l) at 2.
      rewrite app_nth2 by (rewrite firstn_length; lia). rewrite firstn_length.
      f_equal. lia.
Qed.

Lemma removelast_nth {A} (l : list A) k dflt :
  (k < length l - 1)%nat -> nth k (removelast l) dflt = nth k l dflt.
Proof.
  revert k; induction l as [|x l IH]; intros k H; [reflexivity|].
  destruct l as [|y l]; [simpl in H; lia|].
  cbn [removelast]. destruct k; [reflexivity|]. cbn [nth]. apply IH. simpl in *. lia.
Qed.

Lemma join_nodes_nth {A} L (nodes : list A) i j new dflt k :
  length nodes = L -> (i < L)%nat -> (j < L)%nat -> (k < L - 1)%nat ->
  nth k (join_nodes L nodes i j new dflt) dflt = nth (ren L j k) (list_set nodes i new) dflt.
Proof.
  intros HL Hi Hj Hk. unfold join_nodes. cbv zeta.
  rewrite removelast_nth by (rewrite !list_set_length; rewrite ?list_set_length; lia).
  rewrite list_set_nth by (rewrite list_set_length; lia).
  unfold ren. destruct (Nat.eqb k j); reflexivity.
Qed.

Lemma join_nodes_length {A} L (nodes : list A) i j new dflt :
  length nodes = L -> (i < L)%nat -> (j < L)%nat -> length (join_nodes L nodes i j new dflt) = (L - 1)%nat.
Proof.
  intros HL Hi Hj. unfold join_nodes. cbv zeta.
  assert (E : length (list_set (list_set nodes i new) j (nth (L - 1) (list_set nodes i new) dflt)) = L)
    by (rewrite !list_set_length; rewrite ?list_set_length; lia).
  revert E. generalize (list_set (list_set nodes i new) j (nth (L - 1) (list_set nodes i new) dflt)).
  intros l E. destruct l as [|x l]; [simpl in *; lia|].
  rewrite <- E. clear. revert x. induction l as [|y l IH]; intros x; [reflexivity|].
  cbn [removelast length] in *. rewrite IH. simpl. lia.
Qed.

(** ------------------------------------------------------------------ UPGMA *)

Lemma ultrametric_rows_equal (m : qmat) i j k :
  m i j <= m i k -> m i j <= m j k ->
  m i k <= Qmax (m i j) (m j k) -> m j k <= Qmax (m i j) (m i k) ->
  m i k == m j k.
Proof.
  intros H1 H2 H3 H4.
  destruct (Q.max_spec (m i j) (m j k)) as [[_ E]|[_ E]]; rewrite E in H3;
  destruct (Q.max_spec (m i j) (m i k)) as [[_ E']|[_ E']]; rewrite E' in H4; lra.
Qed.

Lemma condense_matrix_kept (m : qmat) i j large k l :
  i <> j ->
  (forall x y, m x y == m y x) ->
  (forall x, x <> i -> x <> j -> m i x == m j x) ->
  k <> j -> l <> j -> ~ (k = i /\ l = i) ->
  condense_matrix m (i, j) large k l == m k l.
Proof.
  intros Hne Hsym Heq Hk Hl Hii. unfold condense_matrix, upd_row, upd_col.
  destruct (Nat.eqb_spec l j) as [?|_]; [contradiction|].
  destruct (Nat.eqb_spec k j) as [?|_]; [contradiction|].
  destruct (Nat.eqb_spec l i) as [El|Hli].
  - subst l. assert (Hki : k <> i) by (intros ->; apply Hii; split; reflexivity).
    rewrite <- (Heq k Hki Hk). rewrite (Hsym k i). field.
  - destruct (Nat.eqb_spec k i) as [Ek|Hki].
    + subst k. rewrite <- (Heq l Hli Hl). field.
    + reflexivity.
Qed.

Lemma condense_matrix_masked (m : qmat) i j large k l :
  k = j \/ l = j -> condense_matrix m (i, j) large k l = large.
Proof.
  intros H. unfold condense_matrix, upd_row, upd_col.
  destruct (Nat.eqb_spec l j); [reflexivity|]. destruct (Nat.eqb_spec k j); [reflexivity|]. destruct H; contradiction.
Qed.

Lemma set_lengths_depths n h d :
  height_ok n h -> Forall (fun nd => snd nd == d) (child_depths (set_lengths n d)).
Proof.
  destruct n as [nm len tl cs]. unfold height_ok. cbn [u_children].
  destruct cs as [|c0 cs].
  - intros Hh. cbn. constructor; [|constructor]. cbn. ring.
  - intros [(t & Ht & Eth) Hall]. unfold set_lengths. rewrite Ht.
    unfold child_depths. cbn [u_len olen].
    change (u_tip_depths (UN nm (Some (d - t)) (Some d) (c0 :: cs))) with (u_tip_depths (UN nm len tl (c0 :: cs))).
    induction Hall as [|x l Hx Hl IH]; [constructor|].
    cbn [map]. constructor; [|exact IH]. cbn [snd]. rewrite Hx, Eth. ring.
Qed.

Lemma set_lengths_tiplength n d : u_tiplength (set_lengths n d) = Some d.
Proof. destruct n as [nm len tl [|c0 cs]]; reflexivity. Qed.

Lemma merged_height_ok n1 n2 h1 h2 d :
  height_ok n1 h1 -> height_ok n2 h2 ->
  height_ok (UN None None None [set_lengths n1 d; set_lengths n2 d]) d.
Proof.
  intros H1 H2. unfold height_ok. cbn [u_children]. split.
  - exists d. split; [apply set_lengths_tiplength|reflexivity].
  - cbn [u_tip_depths flat_map]. rewrite app_nil_r. apply Forall_app. split.
    + exact (set_lengths_depths n1 h1 d H1).
    + exact (set_lengths_depths n2 h2 d H2).
Qed.

(** ------------------------------------------------------------------ non-vacuity *)

(** the quartet ((0:1,1:2):1,(2:3,3:1)): additive matrix, (0,1) is a cherry *)
Definition ex_quartet : qmat :=
  mat_of_lists [[0; 3; 5; 3]; [3; 0; 6; 4]; [5; 6; 0; 4]; [3; 4; 4; 0]].

Example ex_quartet_cherry : cherry_at 4 ex_quartet 0 1 1 2 (fun k => nth k [0; 0; 4; 2] 0).
Proof.
  constructor; try lia; try reflexivity.
  - intros k Hk. destruct k as [|[|[|[|k]]]]; try lia; reflexivity.
  - intros k Hk H0 H1. destruct k as [|[|[|[|k]]]]; try lia; repeat split; reflexivity.
Qed.

Example ex_quartet_join :
  exists t', join (star_tree 4 ex_quartet) 0 1 = Some t' /\
             Forall2 (Forall2 Qeq) (lists_of_mat 3 (pt_d t')) [[0; 2; 4]; [2; 0; 4]; [4; 4; 0]].
Proof.
  eexists. split; [vm_compute; reflexivity|].
  repeat (constructor; [repeat (constructor; [reflexivity|]); constructor|]). constructor.
Qed.

(** an ultrametric matrix on 3 tips ((0,1):1, 2):3 ; the minimal pair is (0,1) *)
Definition ex_ultra : qmat := mat_of_lists [[0; 2; 6]; [2; 0; 6]; [6; 6; 0]].
Example ex_ultra_hyps :
  ex_ultra 0%nat 1%nat <= ex_ultra 0%nat 2%nat /\ ex_ultra 0%nat 1%nat <= ex_ultra 1%nat 2%nat /\
  ex_ultra 0%nat 2%nat <= Qmax (ex_ultra 0%nat 1%nat) (ex_ultra 1%nat 2%nat) /\
  ex_ultra 1%nat 2%nat <= Qmax (ex_ultra 0%nat 1%nat) (ex_ultra 0%nat 2%nat).
Proof. repeat split; vm_compute; discriminate. Qed.

Example ex_height_ok_tip : height_ok (UN (Some 0%Z) None None []) 0.
Proof. reflexivity. Qed.
Example ex_height_ok_merged :
  height_ok (UN None None None [set_lengths (UN (Some 0%Z) None None []) 1; set_lengths (UN (Some 1%Z) None None []) 1]) 1.
Proof. apply (merged_height_ok _ _ 0 0); reflexivity. Qed.

(** tips on the two sides of a merge are at distance 2d = m[i,j] in the UPGMA tree *)
Lemma cross_depths : forall (a b : list (Z * Q)) d,
  Forall (fun nd => snd nd == d) a -> Forall (fun nd => snd nd == d) b ->
  Forall (fun t => snd t == d + d) (cross a b).
Proof.
  intros a b d Ha Hb. apply Forall_forall. intros t Ht. unfold cross in Ht.
  apply in_flat_map in Ht. destruct Ht as (x & Hx & Ht). apply in_map_iff in Ht. destruct Ht as (y & <- & Hy).
  cbn [snd]. rewrite Forall_forall in Ha, Hb. rewrite (Ha x Hx), (Hb y Hy). reflexivity.
Qed.

Lemma merged_cross_distance : forall n1 n2 h1 h2 d,
  height_ok n1 h1 -> height_ok n2 h2 ->
  Forall (fun t => snd t == d + d)
         (cross (child_depths (set_lengths n1 d)) (child_depths (set_lengths n2 d))).
Proof.
  intros n1 n2 h1 h2 d H1 H2. apply cross_depths.
  - exact (set_lengths_depths n1 h1 d H1).
  - exact (set_lengths_depths n2 h2 d H2).
Qed.
