(** C01 - proofs, part 2: integer indexing, the parent segment a view
    reports, [copy(sliced=True)], and chains of operations on sequences. *)
From CG3 Require Import Lib.PyZ Lib.Val Lib.PySlice Model.View Spec.ViewSpec Proofs.ViewProofs.

(** * [__getitem__(int)] *)

Lemma get_index_false v i :
  get_index v i false =
  if vlen v =? 0 then Err E_Index else
  if (i >? 0) && (i >=? vlen v) then Err E_Index else
  if (i <? 0) && (Z.abs i >? vlen v) then Err E_Index else
  if step v >? 0 then
    let x := if i >=? 0 then start v + i * step v
             else start v + vlen v * step v + i * Z.abs (step v) in
    Ok (x, x + 1, 1)
  else if step v <? 0 then
    let x := if i >=? 0 then start v + i * step v
             else start v + vlen v * step v + i * step v in
    Ok (x, x - 1, -1)
  else Err E_Type.
Proof.
  unfold get_index. cbn [negb]. rewrite !andb_false_r, !andb_true_r. cbn [andb]. reflexivity.
Qed.

Lemma zget_nth_error {A} (l : list A) j y : 0 <= j -> nth_error l (Z.to_nat j) = Some y -> zget l j = [y].
Proof. intros Hj H. unfold zget. replace (j <? 0) with false by lia. now rewrite H. Qed.

Lemma value_getitem_int_lemma {A} v (p : list A) i :
  WF v -> zlen p = seq_len v ->
  match getitem_int v i with
  | Ok v' => exists y, py_getitem (value v p) i = Some y /\ value v' p = [y]
  | Err _ => py_getitem (value v p) i = None
  end.
Proof.
  intros Hwf Hp.
  pose proof (len_value_lemma v p Hwf Hp) as Hlen.
  pose proof (vlen_nonneg v) as HL0. pose proof (wf_step_nz v Hwf) as Hnz.
  unfold getitem_int, bind. rewrite get_index_false.
  destruct (vlen v =? 0) eqn:E0; [apply py_getitem_none; lia|].
  destruct ((i >? 0) && (i >=? vlen v)) eqn:E1; [apply py_getitem_none; lia|].
  destruct ((i <? 0) && (Z.abs i >? vlen v)) eqn:E2; [apply py_getitem_none; lia|].
  set (j := if i <? 0 then i + vlen v else i).
  assert (Hj : 0 <= j < vlen v) by (subst j; destruct (i <? 0) eqn:E; lia).
  (* the element Python returns *)
  assert (Hget : exists y, py_getitem (value v p) i = Some y /\ zget (value v p) j = [y]).
  { unfold py_getitem. rewrite Hlen. fold j.
    replace ((j <? 0) || (j >=? vlen v)) with false by lia.
    destruct (nth_error (value v p) (Z.to_nat j)) as [y|] eqn:En.
    - exists y. split; [reflexivity|]. apply zget_nth_error; [lia|assumption].
    - apply nth_error_None in En. unfold zlen in Hlen. lia. }
  destruct Hget as (y & Hy & Hz).
  destruct (step v >? 0) eqn:Es.
  - (* forward view *)
    assert (HC : 0 < step v) by lia.
    destruct (wf_fwd_facts v Hwf HC) as (Hn & HSE & HEn & _ & _ & HLc).
    cbv zeta.
    set (x := if i >=? 0 then start v + i * step v else start v + vlen v * step v + i * Z.abs (step v)).
    assert (Hx : x = start v + j * step v).
    { subst x j. destruct (i >=? 0) eqn:E; [replace (i <? 0) with false by lia; reflexivity|].
      replace (i <? 0) with true by lia. rewrite Z.abs_eq by lia. ring. }
    assert (Hxr : 0 <= x < seq_len v).
    { pose proof (mulr_le (step v) 0 j HC ltac:(lia)). pose proof (mulr_le (step v) j (vlen v - 1) HC ltac:(lia)). lia. }
    clearbody x. unfold rebuild.
    destruct (mk_view (seq_len v) (Some x) (Some (x + 1)) (Some 1) (offset v)) as [v'|e] eqn:Emk.
    2:{ exfalso. revert Emk. unfold mk_view. destruct (if 1 >? 0 then _ else _) as [[? ?] ?]. discriminate. }
    exists y. split; [assumption|].
    rewrite (value_mk_view_step p (seq_len v) _ _ 1 _ v' Hp ltac:(lia) Emk).
    rewrite py_slice_unfold, Hp. rewrite !adj_pos_nonneg by lia.
    replace (Z.min (seq_len v) x) with x by lia. replace (Z.min (seq_len v) (x + 1)) with (x + 1) by lia.
    rewrite (range_len_pos_char x (x + 1) 1 1) by lia.
    rewrite <- Hz. rewrite (value_fwd v p Hwf HC Hp).
    transitivity (gather (gather p (prog (start v) (step v) (Z.to_nat (vlen v)))) (prog j 1 1)).
    2:{ cbn [prog gather flat_map Z.to_nat Pos.to_nat Pos.iter_op]. now rewrite app_nil_r. }
    rewrite gather_prog_prog.
    + rewrite Hx, Z.mul_1_r. reflexivity.
    + intros k Hk. rewrite Hp. now apply value_fwd_in_range.
    + intros k [<-|[]]. lia.
  - (* reverse view *)
    assert (HC : step v < 0) by lia. replace (step v <? 0) with true by lia.
    destruct (wf_rev_facts v Hwf HC) as (Hn & HSE & HS1 & _ & _ & HLc).
    cbv zeta.
    set (x := if i >=? 0 then start v + i * step v else start v + vlen v * step v + i * step v).
    assert (Hx : x = start v + j * step v).
    { subst x j. destruct (i >=? 0) eqn:E; [replace (i <? 0) with false by lia; reflexivity|].
      replace (i <? 0) with true by lia. ring. }
    assert (Hxr : - seq_len v <= x <= -1).
    { pose proof (mulr_le_neg (step v) 0 j HC ltac:(lia)).
      pose proof (mulr_le_neg (step v) j (vlen v - 1) HC ltac:(lia)). lia. }
    clearbody x. unfold rebuild.
    destruct (mk_view (seq_len v) (Some x) (Some (x - 1)) (Some (-1)) (offset v)) as [v'|e] eqn:Emk.
    2:{ exfalso. revert Emk. unfold mk_view. destruct (if -1 >? 0 then _ else _) as [[? ?] ?]. discriminate. }
    exists y. split; [assumption|].
    rewrite (value_mk_view_step p (seq_len v) _ _ (-1) _ v' Hp ltac:(lia) Emk).
    rewrite py_slice_unfold, Hp. rewrite !adj_neg_neg by lia.
    replace (Z.max (-1) (x + seq_len v)) with (x + seq_len v) by lia.
    replace (Z.max (-1) (x - 1 + seq_len v)) with (x + seq_len v - 1) by lia.
    rewrite (range_len_neg_char (x + seq_len v) (x + seq_len v - 1) (-1) 1) by lia.
    rewrite <- Hz. rewrite (value_rev v p Hwf HC Hp).
    transitivity (gather (gather p (prog (start v + seq_len v) (step v) (Z.to_nat (vlen v)))) (prog j 1 1)).
    2:{ cbn [prog gather flat_map Z.to_nat Pos.to_nat Pos.iter_op]. now rewrite app_nil_r. }
    rewrite gather_prog_prog.
    + replace (start v + seq_len v + j * step v) with (x + seq_len v) by lia. reflexivity.
    + intros k Hk. rewrite Hp. now apply value_rev_in_range.
    + intros k [<-|[]]. lia.
Qed.

(** * the parent segment a view reports *)

(** plus-strand bounds, without the annotation offset *)
Definition seg_lo (v : view) : Z := parent_start v - offset v.
Definition seg_hi (v : view) : Z := parent_stop v - offset v.

Lemma seg_bounds v : WF v -> 0 <= seg_lo v <= seg_hi v /\ seg_hi v <= seq_len v.
Proof.
  intros Hwf. unfold seg_lo, seg_hi, parent_start, parent_stop, is_reversed.
  destruct (Z_lt_le_dec 0 (step v)) as [HC|HC].
  - destruct (wf_fwd_facts v Hwf HC) as (Hn & HSE & HEn & _). replace (step v <? 0) with false by lia. lia.
  - pose proof (wf_step_nz v Hwf). assert (HC' : step v < 0) by lia.
    destruct (wf_rev_facts v Hwf HC') as (Hn & HSE & HS1 & _). replace (step v <? 0) with true by lia. lia.
Qed.

Lemma seg_gather {A} (p : list A) lo hi : 0 <= lo <= hi -> hi <= zlen p ->
  seg p lo hi = gather p (prog lo 1 (Z.to_nat (hi - lo))) /\
  (forall i, In i (prog lo 1 (Z.to_nat (hi - lo))) -> 0 <= i < zlen p).
Proof.
  intros Hlo Hhi. split.
  - unfold seg. rewrite py_slice_unfold. rewrite !adj_pos_nonneg by (try apply zlen_nonneg; lia).
    replace (Z.min (zlen p) lo) with lo by lia. replace (Z.min (zlen p) hi) with hi by lia.
    rewrite (range_len_pos_char lo hi 1 (hi - lo)) by lia. reflexivity.
  - intros i Hi. apply prog_In in Hi. destruct Hi as (k & Hk & ->). lia.
Qed.

(** the displayed string is the reported plus-strand segment read with the
    view's stride and orientation (= what [SeqDataView.str_value] executes) *)
Lemma parent_segment_lemma {A} v (p : list A) : WF v -> zlen p = seq_len v ->
  value v p = strided (seg p (seg_lo v) (seg_hi v)) (step v).
Proof.
  intros Hwf Hp. pose proof (seg_bounds v Hwf) as Hb. rewrite <- Hp in Hb.
  destruct (seg_gather p (seg_lo v) (seg_hi v) (proj1 Hb) (proj2 Hb)) as [Hseg Hin].
  pose proof (wf_step_nz v Hwf) as Hnz.
  unfold strided. rewrite Hseg. rewrite py_slice_gather_prog; [|assumption|lia|assumption].
  revert Hb Hseg Hin. unfold seg_lo, seg_hi, parent_start, parent_stop, is_reversed.
  destruct (Z_lt_le_dec 0 (step v)) as [HC|HC].
  - destruct (wf_fwd_facts v Hwf HC) as (Hn & HSE & HEn & _ & HL0 & HLc).
    replace (step v <? 0) with false by lia. intros _ _ _.
    replace (offset v + start v - offset v) with (start v) by ring.
    replace (offset v + stop v - offset v) with (stop v) by ring.
    rewrite (value_fwd v p Hwf HC Hp).
    pose proof (adj_pos_spec (stop v - start v) (step v) false None HC ltac:(lia)) as H1.
    pose proof (adj_pos_spec (stop v - start v) (step v) true None HC ltac:(lia)) as H2.
    cbv beta iota in H1, H2. rewrite H1, H2.
    rewrite (range_len_pos_char 0 (stop v - start v) (step v) (vlen v)) by (assumption || nia).
    rewrite Z.mul_0_l, Z.add_0_r, Z.mul_1_l. reflexivity.
  - assert (HC' : step v < 0) by lia.
    destruct (wf_rev_facts v Hwf HC') as (Hn & HSE & HS1 & _ & HL0 & HLc).
    replace (step v <? 0) with true by lia. intros _ _ _.
    replace (offset v + (stop v + seq_len v + 1) - offset v) with (stop v + seq_len v + 1) by ring.
    replace (offset v + (start v + seq_len v + 1) - offset v) with (start v + seq_len v + 1) by ring.
    replace (start v + seq_len v + 1 - (stop v + seq_len v + 1)) with (start v - stop v) by ring.
    rewrite (value_rev v p Hwf HC' Hp).
    pose proof (adj_neg_spec (start v - stop v) (step v) false None HC' ltac:(lia)) as H1.
    pose proof (adj_neg_spec (start v - stop v) (step v) true None HC' ltac:(lia)) as H2.
    cbv beta iota in H1, H2. rewrite H1, H2.
    rewrite (range_len_neg_char (start v - stop v - 1) (-1) (step v) (vlen v)) by (assumption || nia).
    rewrite Z.mul_1_l. apply gather_prog_eq; [reflexivity|]. intros _. ring.
Qed.

(** for a contiguous view ([|step| = 1]) the reported segment is exactly as long as the view *)
Lemma parent_segment_exact v : WF v -> Z.abs (step v) = 1 -> seg_hi v - seg_lo v = vlen v.
Proof.
  intros Hwf H1. unfold seg_lo, seg_hi, parent_start, parent_stop, is_reversed.
  destruct (Z_lt_le_dec 0 (step v)) as [HC|HC].
  - destruct (wf_fwd_facts v Hwf HC) as (Hn & HSE & HEn & _ & HL0 & HLc).
    replace (step v <? 0) with false by lia. assert (step v = 1) by lia. nia.
  - assert (HC' : step v < 0) by (pose proof (wf_step_nz v Hwf); lia).
    destruct (wf_rev_facts v Hwf HC') as (Hn & HSE & HS1 & _ & HL0 & HLc).
    replace (step v <? 0) with true by lia. assert (step v = -1) by lia. nia.
Qed.

(** in general it starts at the first displayed residue's side and overshoots
    the last displayed residue by less than [|step|] *)
Lemma parent_segment_tight v : WF v -> 0 < vlen v ->
  Z.abs (step v) * (vlen v - 1) < seg_hi v - seg_lo v <= Z.abs (step v) * vlen v.
Proof.
  intros Hwf HL. unfold seg_lo, seg_hi, parent_start, parent_stop, is_reversed.
  destruct (Z_lt_le_dec 0 (step v)) as [HC|HC].
  - destruct (wf_fwd_facts v Hwf HC) as (Hn & HSE & HEn & _ & HL0 & HLc).
    replace (step v <? 0) with false by lia. rewrite Z.abs_eq by lia. lia.
  - assert (HC' : step v < 0) by (pose proof (wf_step_nz v Hwf); lia).
    destruct (wf_rev_facts v Hwf HC') as (Hn & HSE & HS1 & _ & HL0 & HLc).
    replace (step v <? 0) with true by lia. rewrite Z.abs_neq by lia. lia.
Qed.

(** [SeqDataView.str_value] (reads the parent at [parent_start:parent_stop]) *)
Lemma sdv_value_lemma {A} v (p : list A) : WF v -> zlen p = seq_len v -> offset v = 0 ->
  sdv_value v p = value v p.
Proof.
  intros Hwf Hp Hoff. rewrite (parent_segment_lemma v p Hwf Hp).
  unfold sdv_value, strided, seg, seg_lo, seg_hi. rewrite Hoff, !Z.sub_0_r.
  destruct (step v =? 1) eqn:E; [|reflexivity].
  assert (H1 : step v = 1) by lia. rewrite H1. now rewrite py_slice_full.
Qed.

(** * [copy(sliced=True)] / rich-dict re-basing *)

Lemma rich_seq_eq {A} v (p : list A) : rich_seq v p = seg p (seg_lo v) (seg_hi v).
Proof.
  unfold rich_seq, rich_bounds, seg, seg_lo, seg_hi, parent_start, parent_stop.
  destruct (is_reversed v); f_equal; f_equal; ring.
Qed.

Lemma zlen_seg {A} (p : list A) lo hi : 0 <= lo <= hi -> hi <= zlen p -> zlen (seg p lo hi) = hi - lo.
Proof.
  intros Hlo Hhi. destruct (seg_gather p lo hi Hlo Hhi) as [-> Hin].
  unfold zlen. rewrite gather_length, prog_length by assumption. lia.
Qed.

(** the re-based view displays the same string, and (non-empty views) reports
    the same parent segment once the enclosing sequence hands it
    [annotation_offset = parent_start] *)
Lemma copy_sliced_lemma {A} keep v (p : list A) : WF v -> zlen p = seq_len v ->
  let '(r, seg') := copy_sliced keep v p in
  exists v', r = Ok v' /\ WF v' /\ zlen seg' = seq_len v' /\
    value v' seg' = value v p /\ vlen v' = vlen v /\
    offset v' = (if keep then offset v else 0) /\
    (0 < vlen v ->
     seg_lo v' = 0 /\ seg_hi v' = seg_hi v - seg_lo v /\ (step v' <? 0) = (step v <? 0)).
Proof.
  intros Hwf Hp. unfold copy_sliced. rewrite rich_seq_eq.
  pose proof (seg_bounds v Hwf) as Hb. rewrite <- Hp in Hb.
  pose proof (zlen_seg p _ _ (proj1 Hb) (proj2 Hb)) as Hzs.
  set (sg := seg p (seg_lo v) (seg_hi v)) in *.
  pose proof (wf_step_nz v Hwf) as Hnz.
  destruct (mk_view (zlen sg) None None (Some (step v)) (if keep then offset v else 0)) as [v'|e] eqn:Emk.
  2:{ exfalso. revert Emk. rewrite (mk_view_step_unfold _ _ _ _ _ Hnz).
      destruct (if step v >? 0 then _ else _) as [[? ?] ?]. discriminate. }
  exists v'. split; [reflexivity|].
  pose proof (wf_mk_view_lemma _ _ _ _ _ _ (zlen_nonneg sg) Emk) as Hwf'.
  destruct (seq_len_mk_view _ _ _ _ _ _ Emk) as [Hsl Hoff].
  pose proof (value_mk_view_step sg (zlen sg) None None (step v) _ v' eq_refl Hnz Emk) as Hval.
  assert (Hvv : value v' sg = value v p).
  { rewrite Hval. symmetry. exact (parent_segment_lemma v p Hwf Hp). }
  assert (Hlen : vlen v' = vlen v).
  { rewrite <- (len_value_lemma v' sg Hwf' (eq_sym Hsl)), Hvv. exact (len_value_lemma v p Hwf Hp). }
  split; [exact Hwf'|]. split; [symmetry; exact Hsl|]. split; [exact Hvv|]. split; [exact Hlen|].
  split; [exact Hoff|].
  - (* the bounds of the re-based view *)
    intros HL. clear Hval Hvv. rewrite <- Hzs. revert Emk. rewrite (mk_view_step_unfold _ _ _ _ _ Hnz).
    destruct (Z_lt_le_dec 0 (step v)) as [HC|HC].
    + replace (step v >? 0) with true by lia. rewrite (ivp_spec _ _ _ _ HC (zlen_nonneg sg)).
      pose proof (adj_pos_spec (zlen sg) (step v) false None HC (zlen_nonneg sg)) as H1.
      pose proof (adj_pos_spec (zlen sg) (step v) true None HC (zlen_nonneg sg)) as H2.
      cbv beta iota in H1, H2. rewrite H1, H2.
      destruct (0 <? zlen sg) eqn:E; intros [= <-];
        unfold seg_lo, seg_hi, parent_start, parent_stop, is_reversed; cbn [start stop step seq_len offset].
      * replace (step v <? 0) with false by lia. lia.
      * exfalso. destruct (wf_fwd_facts v Hwf HC) as (_ & _ & _ & _ & _ & HLc).
        unfold seg_lo, seg_hi, parent_start, parent_stop, is_reversed in Hzs.
        replace (step v <? 0) with false in Hzs by lia. nia.
    + assert (HC' : step v < 0) by lia. replace (step v >? 0) with false by lia.
      destruct (input_vals_neg_step (zlen sg) None None (step v)) as [[s1 e1] k1] eqn:Eiv.
      pose proof (ivn_spec _ _ _ _ _ _ _ HC' (zlen_nonneg sg) Eiv) as Hsp.
      pose proof (adj_neg_spec (zlen sg) (step v) false None HC' (zlen_nonneg sg)) as H1.
      pose proof (adj_neg_spec (zlen sg) (step v) true None HC' (zlen_nonneg sg)) as H2.
      cbv beta iota in H1, H2. rewrite H1, H2 in Hsp.
      intros [= <-].
      unfold seg_lo, seg_hi, parent_start, parent_stop, is_reversed; cbn [start stop step seq_len offset].
      destruct Hsp as [(Hlt & -> & -> & ->)|(Hle & _)].
      * replace (step v <? 0) with true by lia. lia.
      * exfalso. destruct (wf_rev_facts v Hwf HC') as (_ & _ & _ & _ & _ & HLc).
        unfold seg_lo, seg_hi, parent_start, parent_stop, is_reversed in Hzs.
        replace (step v <? 0) with true in Hzs by lia. nia.
Qed.

(** * sequences: complement, realisation, operation chains *)

Lemma comp_involutive k x : comp k (comp k x) = x.
Proof.
  assert (Hc : forall y, comp_common (comp_common y) = y).
  { intros y. unfold comp_common.
    destruct (Z.eq_dec y 67) as [->|N1]; [reflexivity|].
    destruct (Z.eq_dec y 71) as [->|N2]; [reflexivity|].
    destruct (Z.eq_dec y 82) as [->|N3]; [reflexivity|].
    destruct (Z.eq_dec y 89) as [->|N4]; [reflexivity|].
    destruct (Z.eq_dec y 77) as [->|N5]; [reflexivity|].
    destruct (Z.eq_dec y 75) as [->|N6]; [reflexivity|].
    destruct (Z.eq_dec y 66) as [->|N7]; [reflexivity|].
    destruct (Z.eq_dec y 86) as [->|N8]; [reflexivity|].
    destruct (Z.eq_dec y 68) as [->|N9]; [reflexivity|].
    destruct (Z.eq_dec y 72) as [->|N10]; [reflexivity|].
    replace (y =? 67) with false by lia. replace (y =? 71) with false by lia.
    replace (y =? 82) with false by lia. replace (y =? 89) with false by lia.
    replace (y =? 77) with false by lia. replace (y =? 75) with false by lia.
    replace (y =? 66) with false by lia. replace (y =? 86) with false by lia.
    replace (y =? 68) with false by lia. replace (y =? 72) with false by lia.
    replace (y =? 67) with false by lia. replace (y =? 71) with false by lia.
    replace (y =? 82) with false by lia. replace (y =? 89) with false by lia.
    replace (y =? 77) with false by lia. replace (y =? 75) with false by lia.
    replace (y =? 66) with false by lia. replace (y =? 86) with false by lia.
    replace (y =? 68) with false by lia. replace (y =? 72) with false by lia. reflexivity. }
  assert (Hfix : forall y, (y =? 65) = false -> (y =? 84) = false -> (y =? 85) = false ->
                 (comp_common y =? 65) = false /\ (comp_common y =? 84) = false /\ (comp_common y =? 85) = false).
  { intros y H1 H2 H3. unfold comp_common.
    repeat match goal with |- context[if ?c then _ else _] => destruct c end; lia. }
  destruct k; cbn [comp]; [| |reflexivity].
  - destruct (x =? 65) eqn:E1; [cbn; lia|]. destruct (x =? 84) eqn:E2; [cbn; lia|].
    destruct (Z.eq_dec x 85) as [->|N]; [reflexivity|].
    destruct (Hfix x E1 E2 ltac:(lia)) as (-> & -> & _). apply Hc.
  - destruct (x =? 65) eqn:E1; [cbn; lia|]. destruct (x =? 85) eqn:E2; [cbn; lia|].
    destruct (Z.eq_dec x 84) as [->|N]; [reflexivity|].
    destruct (Hfix x E1 ltac:(lia) E2) as (-> & _ & ->). apply Hc.
Qed.

Lemma map_comp_involutive k l : map (comp k) (map (comp k) l) = l.
Proof. rewrite map_map. rewrite <- (map_id l) at 2. apply map_ext. apply comp_involutive. Qed.

Lemma py_getitem_map {A B} (f : A -> B) l i :
  py_getitem (map f l) i = option_map f (py_getitem l i).
Proof.
  unfold py_getitem. rewrite zlen_map.
  destruct (_ || _); [reflexivity|]. apply nth_error_map.
Qed.

Lemma py_getitem_nil {A} i : py_getitem (@nil A) i = None.
Proof. apply py_getitem_none. cbn. lia. Qed.

Definition plain_of (s : pseq) : plain := (realise s, skind s).

Lemma mk_view_step_cases n a b K off v : 0 <= n -> K <> 0 ->
  mk_view n a b (Some K) off = Ok v -> step v = K \/ start v = stop v.
Proof.
  intros Hn HK. rewrite (mk_view_step_unfold n a b K off HK).
  destruct (Z_lt_le_dec 0 K) as [HK'|HK'].
  - replace (K >? 0) with true by lia. rewrite (ivp_spec n a b K HK' Hn).
    destruct (_ <? _); intros [= <-]; [left|right]; reflexivity.
  - assert (HK'' : K < 0) by lia. replace (K >? 0) with false by lia.
    destruct (input_vals_neg_step n a b K) as [[s1 e1] K1] eqn:E.
    pose proof (ivn_spec n a b K s1 e1 K1 HK'' Hn E) as Hsp.
    intros [= <-]. cbn [start stop step]. lia.
Qed.

Lemma step_getitem_slice fl v a b c v' :
  WF v -> c <> Some 0 -> getitem_slice fl v a b c = Ok v' ->
  start v' = stop v' \/ step v' = step v * step_of c.
Proof.
  intros Hwf Hc. pose proof (wf_step_nz v Hwf) as Hnz.
  assert (Hz : forall w, zero_slice fl v = Ok w -> start w = stop w \/ step w = step v * step_of c).
  { intros w. rewrite zero_slice_eq. intros [= <-]. left. reflexivity. }
  assert (Hk : step_of c <> 0) by (destruct c as [k|]; cbn; [congruence|lia]).
  assert (Hr : forall s e w, rebuild v s e (step v * step_of c) = Ok w -> start w = stop w \/ step w = step v * step_of c).
  { intros s e w H. assert (Hprod : step v * step_of c <> 0) by (apply Z.neq_mul_0; tauto).
    destruct (mk_view_step_cases _ _ _ _ _ _ (proj1 Hwf) Hprod H); [right|left]; assumption. }
  assert (Hmain : (if vlen v =? 0 then Ok v else
      if opt_eqb a b then zero_slice fl v else
      let slice_step := match c with None => 1 | Some x => x end in
      if slice_step >? 0 then get_slice fl v a b slice_step
      else if slice_step <? 0 then get_reverse_slice fl v a b slice_step
      else Err E_Value) = Ok v' -> start v' = stop v' \/ step v' = step v * step_of c).
  { destruct (vlen v =? 0) eqn:E0.
    { intros [= <-]. left. apply (wf_empty_iff v Hwf). lia. }
    destruct (opt_eqb a b); [apply Hz|].
    cbv zeta. fold (step_of c). set (k := step_of c) in *.
    destruct (k >? 0).
    - unfold get_slice. destruct (step v >? 0).
      + unfold get_forward_slice_from_forward.
        repeat match goal with |- (if ?x then zero_slice _ _ else _) = _ -> _ =>
          destruct x; [apply Hz|] end.
        apply Hr.
      + destruct (step v <? 0); [|discriminate].
        unfold get_forward_slice_from_reverse.
        repeat match goal with |- (if ?x then zero_slice _ _ else _) = _ -> _ =>
          destruct x; [apply Hz|] end.
        apply Hr.
    - destruct (k <? 0); [|discriminate].
      unfold get_reverse_slice. destruct (step v <? 0).
      + unfold get_reverse_slice_from_reverse. cbv zeta.
        repeat match goal with |- (if ?x then zero_slice _ _ else _) = _ -> _ =>
          destruct x; [apply Hz|] end.
        apply Hr.
      + destruct (step v >? 0); [|discriminate].
        unfold get_reverse_slice_from_forward. cbv zeta.
        repeat match goal with |- (if ?x then zero_slice _ _ else _) = _ -> _ =>
          destruct x; [apply Hz|] end.
        apply Hr. }
  unfold getitem_slice.
  destruct a; [exact Hmain|]. destruct b; [exact Hmain|]. destruct c; [exact Hmain|].
  cbn [step_of]. destruct fl; cbn [copy_view].
  - intros H. destruct (mk_view_step_cases _ _ _ _ _ _ (proj1 Hwf) Hnz H); [right; lia|left; assumption].
  - intros [= <-]. right. lia.
Qed.

Lemma realise_nil s : WF (sv s) -> start (sv s) = stop (sv s) -> realise s = [].
Proof.
  intros Hwf H. unfold realise.
  rewrite (value_empty (sv s) (parent s) Hwf) by (now apply (wf_empty_iff _ Hwf)).
  destruct (is_reversed _); reflexivity.
Qed.

(** slicing a sequence = slicing its string (complementing for a negative step) *)
Lemma realise_slice s a b c v' hid :
  SWF s -> c <> Some 0 -> getitem_slice FSeqView (sv s) a b c = Ok v' ->
  SWF (mkS v' (parent s) (skind s) hid) /\
  realise (mkS v' (parent s) (skind s) hid) =
    (if step_of c <? 0 then map (comp (skind s)) (py_slice (realise s) a b (step_of c))
     else py_slice (realise s) a b (step_of c)).
Proof.
  intros [Hwf Hfit] Hc H.
  pose proof (wf_getitem_slice_lemma _ _ _ _ _ _ Hwf H) as Hwf'.
  pose proof (fits_getitem_slice _ _ _ _ _ _ _ Hwf Hfit H) as Hfit'.
  split; [split; assumption|].
  pose proof (value_getitem_slice_lemma _ _ (parent s) _ _ _ _ Hwf Hfit Hc H) as Hval.
  assert (Hk : step_of c <> 0) by (destruct c as [k|]; cbn; [congruence|lia]).
  pose proof (wf_step_nz _ Hwf) as Hnz.
  unfold realise at 1. cbn [sv parent skind]. rewrite Hval.
  assert (Hsrc : py_slice (realise s) a b (step_of c) =
                 if is_reversed (sv s) then map (comp (skind s)) (py_slice (value (sv s) (parent s)) a b (step_of c))
                 else py_slice (value (sv s) (parent s)) a b (step_of c)).
  { unfold realise. destruct (is_reversed (sv s)); [apply py_slice_map|reflexivity]. }
  rewrite Hsrc. set (r := py_slice (value (sv s) (parent s)) a b (step_of c)) in *.
  destruct (step_getitem_slice _ _ _ _ _ _ Hwf Hc H) as [Hemp|Hst].
  - assert (Hr : r = []).
    { rewrite <- Hval. apply (value_empty v' (parent s) Hwf'). now apply (wf_empty_iff _ Hwf'). }
    rewrite Hr. destruct (is_reversed v'), (step_of c <? 0), (is_reversed (sv s)); reflexivity.
  - unfold is_reversed. rewrite Hst.
    destruct (Z_lt_le_dec 0 (step (sv s))) as [H1|H1]; destruct (Z_lt_le_dec 0 (step_of c)) as [H2|H2].
    + replace (step (sv s) * step_of c <? 0) with false by nia.
      replace (step_of c <? 0) with false by lia. replace (step (sv s) <? 0) with false by lia. reflexivity.
    + replace (step (sv s) * step_of c <? 0) with true by nia.
      replace (step_of c <? 0) with true by lia. replace (step (sv s) <? 0) with false by lia. reflexivity.
    + replace (step (sv s) * step_of c <? 0) with true by nia.
      replace (step_of c <? 0) with false by lia. replace (step (sv s) <? 0) with true by lia. reflexivity.
    + replace (step (sv s) * step_of c <? 0) with false by nia.
      replace (step_of c <? 0) with true by lia. replace (step (sv s) <? 0) with true by lia.
      now rewrite map_comp_involutive.
Qed.

(** indexing a sequence = indexing its string *)
Lemma realise_index s i hid :
  SWF s ->
  match getitem_int (sv s) i with
  | Ok v' => SWF (mkS v' (parent s) (skind s) hid) /\
             exists y, py_getitem (realise s) i = Some y /\ realise (mkS v' (parent s) (skind s) hid) = [y]
  | Err _ => py_getitem (realise s) i = None
  end.
Proof.
  intros [Hwf Hfit]. pose proof (wf_step_nz _ Hwf) as Hnz.
  destruct Hfit as [H0|Hp].
  { unfold getitem_int, bind. rewrite get_index_false. replace (vlen (sv s) =? 0) with true by lia.
    rewrite (realise_nil s Hwf) by (now apply (wf_empty_iff _ Hwf)). apply py_getitem_nil. }
  pose proof (value_getitem_int_lemma (sv s) (parent s) i Hwf Hp) as Hv.
  destruct (getitem_int (sv s) i) as [v'|e] eqn:Eg.
  - destruct Hv as (y & Hy & Hval).
    pose proof (wf_getitem_int_lemma _ _ _ Hwf Eg) as Hwf'.
    assert (Hshape : seq_len v' = seq_len (sv s) /\ (step v' <? 0) = (step (sv s) <? 0)).
    { revert Eg Hval. unfold getitem_int, bind. rewrite get_index_false.
      destruct (vlen (sv s) =? 0); [discriminate|].
      destruct (_ && _); [discriminate|]. destruct (_ && _); [discriminate|].
      destruct (step (sv s) >? 0) eqn:Es.
      - cbv zeta. unfold rebuild. intros Hmk Hval.
        split; [exact (proj1 (seq_len_mk_view _ _ _ _ _ _ Hmk))|].
        destruct (mk_view_step_cases _ _ _ 1 _ _ (proj1 Hwf) ltac:(lia) Hmk) as [Hs|Hs].
        + rewrite Hs. lia.
        + exfalso. rewrite (value_empty v' (parent s) Hwf') in Hval by (now apply (wf_empty_iff _ Hwf')). discriminate.
      - replace (step (sv s) <? 0) with true by lia. cbv zeta. unfold rebuild. intros Hmk Hval.
        split; [exact (proj1 (seq_len_mk_view _ _ _ _ _ _ Hmk))|].
        destruct (mk_view_step_cases _ _ _ (-1) _ _ (proj1 Hwf) ltac:(lia) Hmk) as [Hs|Hs].
        + rewrite Hs. reflexivity.
        + exfalso. rewrite (value_empty v' (parent s) Hwf') in Hval by (now apply (wf_empty_iff _ Hwf')). discriminate. }
    destruct Hshape as [Hsl Hdir].
    split; [split; [exact Hwf'|right; cbn [sv parent]; congruence]|].
    unfold realise, is_reversed. cbn [sv parent skind]. rewrite Hval, Hdir.
    destruct (step (sv s) <? 0).
    + exists (comp (skind s) y). split; [|reflexivity]. rewrite py_getitem_map, Hy. reflexivity.
    + exists y. split; [exact Hy|reflexivity].
  - unfold realise. destruct (is_reversed (sv s)); [|exact Hv]. now rewrite py_getitem_map, Hv.
Qed.

(** ** [to_rna] / [to_dna] *)

Lemma mk_view_none_step n a b off : mk_view n a b None off = mk_view n a b (Some 1) off.
Proof. reflexivity. Qed.

Lemma fresh_spec k p' : exists s', fresh k p' = Ok s' /\ SWF s' /\ realise s' = p' /\ skind s' = k.
Proof.
  unfold fresh, with_view. rewrite mk_view_none_step.
  destruct (mk_view (zlen p') None None (Some 1) 0) as [v'|e] eqn:Emk.
  2:{ exfalso. revert Emk. rewrite (mk_view_step_unfold _ _ _ 1 _ ltac:(lia)).
      destruct (if 1 >? 0 then _ else _) as [[? ?] ?]. discriminate. }
  eexists. split; [reflexivity|].
  pose proof (wf_mk_view_lemma _ _ _ _ _ _ (zlen_nonneg p') Emk) as Hwf.
  destruct (seq_len_mk_view _ _ _ _ _ _ Emk) as [Hsl _].
  pose proof (value_mk_view_step p' (zlen p') None None 1 0 v' eq_refl ltac:(lia) Emk) as Hval.
  rewrite py_slice_full in Hval.
  split; [split; [exact Hwf|right; cbn [sv parent]; congruence]|].
  split; [|reflexivity].
  unfold realise, is_reversed. cbn [sv parent skind]. rewrite Hval.
  destruct (mk_view_step_cases _ _ _ 1 _ _ (zlen_nonneg p') ltac:(lia) Emk) as [Hs|Hs].
  - rewrite Hs. reflexivity.
  - destruct (step v' <? 0); [|reflexivity].
    rewrite <- Hval, (value_empty v' p' Hwf) by (now apply (wf_empty_iff _ Hwf)). reflexivity.
Qed.

(** ** [copy(sliced=True)] on a sequence *)

Definition with_off (v : view) (o : Z) : view := mkV (start v) (stop v) (step v) (seq_len v) o.

Lemma copy_sliced_any {A} keep v (p : list A) : WF v -> Fits v p ->
  exists v', fst (copy_sliced keep v p) = Ok v' /\ WF v' /\
    zlen (snd (copy_sliced keep v p)) = seq_len v' /\
    value v' (snd (copy_sliced keep v p)) = value v p /\
    (value v p <> [] -> is_reversed v' = is_reversed v) /\
    offset v' = (if keep then offset v else 0).
Proof.
  intros Hwf [H0|Hp].
  - (* an empty view that may have lost its parent *)
    pose proof (proj1 (wf_empty_iff v Hwf) H0) as Hse. pose proof (wf_step_nz v Hwf) as Hnz.
    unfold copy_sliced. cbn [fst snd].
    assert (Hseg : rich_seq v p = []).
    { unfold rich_seq, rich_bounds. rewrite Hse. destruct (is_reversed v); now apply py_slice_same_bounds. }
    rewrite Hseg.
    destruct (mk_view (zlen (@nil A)) None None (Some (step v)) (if keep then offset v else 0)) as [v'|e] eqn:Emk.
    2:{ exfalso. revert Emk. rewrite (mk_view_step_unfold _ _ _ _ _ Hnz).
        destruct (if step v >? 0 then _ else _) as [[? ?] ?]. discriminate. }
    exists v'. split; [reflexivity|].
    split; [exact (wf_mk_view_lemma _ _ _ _ _ _ (zlen_nonneg (@nil A)) Emk)|].
    destruct (seq_len_mk_view _ _ _ _ _ _ Emk) as [Hsl Hoff].
    split; [symmetry; exact Hsl|]. rewrite (value_empty v p Hwf H0).
    split; [unfold value; apply py_slice_nil|]. split; [congruence|exact Hoff].
  - pose proof (copy_sliced_lemma keep v p Hwf Hp) as H.
    destruct (copy_sliced keep v p) as [r sg]. destruct H as (v' & -> & Hwf' & Hz & Hval & Hlen & Hoff & Hb).
    exists v'. cbn [fst snd]. split; [reflexivity|]. split; [exact Hwf'|]. split; [exact Hz|].
    split; [exact Hval|]. split; [|exact Hoff].
    intros Hne. assert (HL : 0 < vlen v).
    { pose proof (len_value_lemma v p Hwf Hp) as Hl. pose proof (vlen_nonneg v).
      destruct (Z.eq_dec (vlen v) 0) as [E|E]; [|lia].
      exfalso. apply Hne. apply zlen_0_nil. lia. }
    unfold is_reversed. exact (proj2 (proj2 (Hb HL))).
Qed.

(** * one operation *)

(** slicing never raises for a non-zero step *)
Lemma getitem_slice_no_err fl v a b c e : WF v -> c <> Some 0 -> getitem_slice fl v a b c <> Err e.
Proof.
  intros Hwf Hc. unfold getitem_slice.
  assert (Hz : forall fl v, zero_slice fl v <> Err e) by (intros; rewrite zero_slice_eq; discriminate).
  assert (Hr : forall v x y k, k <> 0 -> rebuild v x y k <> Err e).
  { intros w x y k Hk. unfold rebuild. rewrite (mk_view_step_unfold _ _ _ _ _ Hk).
    destruct (if k >? 0 then _ else _) as [[? ?] ?]. discriminate. }
  pose proof (wf_step_nz _ Hwf) as Hnz.
  assert (Hk : step_of c <> 0) by (destruct c as [k|]; cbn; [congruence|lia]).
  assert (Hprod : step v * step_of c <> 0) by (apply Z.neq_mul_0; tauto).
  assert (Hmain : (if vlen v =? 0 then Ok v else
      if opt_eqb a b then zero_slice fl v else
      let slice_step := match c with None => 1 | Some x => x end in
      if slice_step >? 0 then get_slice fl v a b slice_step
      else if slice_step <? 0 then get_reverse_slice fl v a b slice_step
      else Err E_Value) <> Err e).
  { destruct (vlen v =? 0); [discriminate|]. destruct (opt_eqb a b); [apply Hz|].
    cbv zeta. fold (step_of c). set (k := step_of c) in *.
    destruct (k >? 0) eqn:Ek.
    - unfold get_slice. destruct (step v >? 0) eqn:Es.
      + unfold get_forward_slice_from_forward.
        repeat match goal with |- (if ?x then zero_slice _ _ else _) <> _ => destruct x; [apply Hz|] end.
        now apply Hr.
      + replace (step v <? 0) with true by lia.
        unfold get_forward_slice_from_reverse.
        repeat match goal with |- (if ?x then zero_slice _ _ else _) <> _ => destruct x; [apply Hz|] end.
        now apply Hr.
    - replace (k <? 0) with true by lia.
      unfold get_reverse_slice. destruct (step v <? 0) eqn:Es.
      + unfold get_reverse_slice_from_reverse. cbv zeta.
        repeat match goal with |- (if ?x then zero_slice _ _ else _) <> _ => destruct x; [apply Hz|] end.
        now apply Hr.
      + replace (step v >? 0) with true by lia.
        unfold get_reverse_slice_from_forward. cbv zeta.
        repeat match goal with |- (if ?x then zero_slice _ _ else _) <> _ => destruct x; [apply Hz|] end.
        now apply Hr. }
  destruct a; [exact Hmain|]. destruct b; [exact Hmain|]. destruct c; [exact Hmain|].
  destruct fl; cbn [copy_view]; [|discriminate].
  rewrite (mk_view_step_unfold _ _ _ _ _ Hnz).
  destruct (if step v >? 0 then _ else _) as [[? ?] ?]; discriminate.
Qed.

Lemma slice_op_spec s a b c : SWF s -> c <> Some 0 ->
  match with_view s (same_parent (sv s)) (getitem_slice FSeqView (sv s) a b c) with
  | Ok s' => SWF s' /\ skind s' = skind s /\
             realise s' = (if step_of c <? 0 then map (comp (skind s)) (py_slice (realise s) a b (step_of c))
                           else py_slice (realise s) a b (step_of c))
  | Err _ => False
  end.
Proof.
  intros Hs Hc.
  destruct (getitem_slice FSeqView (sv s) a b c) as [v'|e] eqn:Eg; cbn [with_view].
  - destruct (realise_slice s a b c v' (has_id s && same_parent (sv s) v') Hs Hc Eg) as [Hs' Hr].
    split; [exact Hs'|]. split; [reflexivity|exact Hr].
  - exact (getitem_slice_no_err _ _ _ _ _ _ (proj1 Hs) Hc Eg).
Qed.

Lemma apply_op_spec i s o : SWF s -> op_ok_for i o ->
  match apply_op i s o with
  | Ok s' => SWF s' /\ spec_op (plain_of s) o = Some (plain_of s')
  | Err _ => spec_op (plain_of s) o = None
  end.
Proof.
  intros Hs Hok. pose proof Hs as [Hwf Hfit].
  assert (Hok0 : op_ok o) by (destruct i; cbn in Hok; unfold op_ok_old, op_ok_new in Hok; tauto).
  destruct o as [a b c|n| | | |]; cbn [apply_op].
  - (* Slice *)
    assert (Hc : c <> Some 0) by (intros ->; exact Hok0).
    pose proof (slice_op_spec s a b c Hs Hc) as H.
    destruct (with_view s (same_parent (sv s)) (getitem_slice FSeqView (sv s) a b c)) as [s'|e]; [|contradiction].
    destruct H as (Hs' & Hk & Hr). split; [exact Hs'|].
    unfold plain_of. cbn [spec_op]. fold (step_of c). rewrite Hr, Hk. reflexivity.
  - (* Index *)
    pose proof (realise_index s n (has_id s && same_parent (sv s) (sv s)) Hs) as Hi.
    destruct (getitem_int (sv s) n) as [v'|e] eqn:Eg; cbn [with_view].
    + pose proof (realise_index s n (has_id s && same_parent (sv s) v') Hs) as Hi'. rewrite Eg in Hi'.
      destruct Hi' as [Hs' (y & Hy & Hr)]. split; [exact Hs'|].
      unfold plain_of at 1. cbn [spec_op]. rewrite Hy. unfold plain_of. rewrite Hr. reflexivity.
    + unfold plain_of. cbn [spec_op]. now rewrite Hi.
  - (* Rc *)
    destruct (skind s) eqn:Ek.
    3:{ unfold plain_of. cbn [spec_op]. rewrite Ek. reflexivity. }
    all: pose proof (slice_op_spec s None None (Some (-1)) Hs ltac:(discriminate)) as H;
      destruct (with_view s (same_parent (sv s)) (getitem_slice FSeqView (sv s) None None (Some (-1)))) as [s'|e];
      [|contradiction];
      destruct H as (Hs' & Hk & Hr); split; [exact Hs'|];
      unfold plain_of; cbn [spec_op]; rewrite Ek; cbn [nucleic]; rewrite Hr, Hk, Ek; cbn [step_of];
      replace (-1 <? 0) with true by reflexivity; now rewrite py_slice_rev, map_rev.
  - (* ToRna *)
    assert (Hi : i <> OldStyle) by (intros ->; cbn in Hok; unfold op_ok_old in Hok; tauto).
    unfold to_moltype. destruct (skind s) eqn:Ek.
    + destruct (fresh_spec KRna (map t2u (realise s))) as (s' & Hf & Hs' & Hr & Hk').
      replace (match i with OldStyle => value (sv s) (parent s) | _ => realise s end) with (realise s)
        by (destruct i; [contradiction| |]; reflexivity).
      rewrite Hf. split; [exact Hs'|]. unfold plain_of. cbn [spec_op]. now rewrite Ek, Hr, Hk'.
    + split; [exact Hs|]. unfold plain_of. cbn [spec_op]. now rewrite Ek.
    + unfold plain_of. cbn [spec_op]. now rewrite Ek.
  - (* ToDna *)
    assert (Hi : i <> OldStyle) by (intros ->; cbn in Hok; unfold op_ok_old in Hok; tauto).
    unfold to_moltype. destruct (skind s) eqn:Ek.
    + split; [exact Hs|]. unfold plain_of. cbn [spec_op]. now rewrite Ek.
    + destruct (fresh_spec KDna (map u2t (realise s))) as (s' & Hf & Hs' & Hr & Hk').
      replace (match i with OldStyle => value (sv s) (parent s) | _ => realise s end) with (realise s)
        by (destruct i; [contradiction| |]; reflexivity).
      rewrite Hf. split; [exact Hs'|]. unfold plain_of. cbn [spec_op]. now rewrite Ek, Hr, Hk'.
    + unfold plain_of. cbn [spec_op]. now rewrite Ek.
  - (* CopySliced *)
    assert (Hi : i <> NewStyle) by (intros ->; cbn in Hok; unfold op_ok_new in Hok; tauto).
    replace (match i with NewStyle => true | _ => false end) with false by (destruct i; [|contradiction|]; reflexivity).
    destruct (copy_sliced_any false (sv s) (parent s) Hwf Hfit) as (v' & Hr & Hwf' & Hz & Hval & Hdir & Hoff).
    destruct (copy_sliced false (sv s) (parent s)) as [r sg]. cbn [fst snd] in *. subst r.
    rewrite Hoff. replace (0 =? 0) with true by reflexivity. rewrite andb_false_r.
    set (v2 := if parent_start (sv s) =? 0 then v' else _).
    assert (Hv2 : v2 = with_off v' (offset v2)).
    { subst v2. destruct (parent_start (sv s) =? 0); [destruct v'|]; reflexivity. }
    assert (Hwf2 : WF v2) by (rewrite Hv2; exact Hwf').
    assert (Hval2 : value v2 sg = value v' sg) by (rewrite Hv2; reflexivity).
    assert (Hrev2 : is_reversed v2 = is_reversed v') by (rewrite Hv2; reflexivity).
    assert (Hsl2 : seq_len v2 = seq_len v') by (rewrite Hv2; reflexivity).
    split.
    + split; [exact Hwf2|right; cbn [sv parent]; congruence].
    + unfold plain_of. cbn [spec_op skind]. f_equal. f_equal.
      unfold realise. cbn [sv parent skind]. rewrite Hval2, Hrev2, Hval.
      destruct (value (sv s) (parent s)) as [|x l] eqn:Ev.
      * destruct (is_reversed v'), (is_reversed (sv s)); reflexivity.
      * rewrite Hdir by discriminate. reflexivity.
Qed.

(** * chains of operations *)

Lemma chain_spec_gen i ops : forall s, SWF s -> Forall (op_ok_for i) ops ->
  SWF (run_ops i s ops) /\ plain_of (run_ops i s ops) = run_spec ops (plain_of s).
Proof.
  induction ops as [|o ops IH]; intros s Hs Hok; [split; [exact Hs|reflexivity]|].
  inversion Hok as [|? ? Ho Hrest]; subst.
  unfold run_ops, run_spec. cbn [fold_left]. fold (run_ops i (apply_keep i s o) ops).
  fold (run_spec ops (spec_keep (plain_of s) o)).
  pose proof (apply_op_spec i s o Hs Ho) as H.
  unfold apply_keep, spec_keep. destruct (apply_op i s o) as [s'|e].
  - destruct H as [Hs' ->]. exact (IH s' Hs' Hrest).
  - rewrite H. exact (IH s Hs Hrest).
Qed.

Lemma init_seq_spec k p off : exists s0, init_seq k p off = Ok s0 /\ SWF s0 /\ plain_of s0 = (p, k) /\
  zlen p = seq_len (sv s0) /\ offset (sv s0) = off /\ parent s0 = p.
Proof.
  unfold init_seq, with_view. rewrite mk_view_none_step.
  destruct (mk_view (zlen p) None None (Some 1) off) as [v'|e] eqn:Emk.
  2:{ exfalso. revert Emk. rewrite (mk_view_step_unfold _ _ _ 1 _ ltac:(lia)).
      destruct (if 1 >? 0 then _ else _) as [[? ?] ?]. discriminate. }
  eexists. split; [reflexivity|].
  pose proof (wf_mk_view_lemma _ _ _ _ _ _ (zlen_nonneg p) Emk) as Hwf.
  destruct (seq_len_mk_view _ _ _ _ _ _ Emk) as [Hsl Hoff].
  pose proof (value_mk_view_step p (zlen p) None None 1 off v' eq_refl ltac:(lia) Emk) as Hval.
  rewrite py_slice_full in Hval.
  split; [split; [exact Hwf|right; cbn [sv parent]; congruence]|].
  split; [|cbn [sv parent]; repeat split; congruence].
  unfold plain_of. f_equal.
  unfold realise, is_reversed. cbn [sv parent skind]. rewrite Hval.
  destruct (mk_view_step_cases _ _ _ 1 _ _ (zlen_nonneg p) ltac:(lia) Emk) as [Hs|Hs].
  - rewrite Hs. reflexivity.
  - destruct (step v' <? 0); [|reflexivity].
    rewrite <- Hval, (value_empty v' p Hwf) by (now apply (wf_empty_iff _ Hwf)). reflexivity.
Qed.

(** HEADLINE (sequences): any chain of slices / indexings / rc / to_rna /
    to_dna / copy on a sequence reads as the same chain on the plain string *)
Lemma chain_spec_lemma i k p off ops s0 :
  init_seq k p off = Ok s0 -> Forall (op_ok_for i) ops ->
  plain_of (run_ops i s0 ops) = run_spec ops (p, k).
Proof.
  intros Hi Hok. destruct (init_seq_spec k p off) as (s1 & H1 & Hs & Hp & _).
  rewrite Hi in H1. injection H1 as <-. rewrite <- Hp.
  exact (proj2 (chain_spec_gen i ops s0 Hs Hok)).
Qed.

(** the two places where the pinned implementations leave the specification *)
Lemma to_rna_old_refuted_lemma :
  exists k p ops s0, init_seq k p 0 = Ok s0 /\ Forall op_ok ops /\
    plain_of (run_ops OldStyle s0 ops) <> run_spec ops (p, k).
Proof.
  exists KDna, [65; 67; 71; 71; 84; 78; 82; 89], [Rc; ToRna].
  eexists. split; [reflexivity|]. split; [repeat constructor|].
  vm_compute. discriminate.
Qed.

Lemma copy_new_refuted_lemma :
  exists k p off s0, init_seq k p off = Ok s0 /\
    apply_op NewStyle s0 CopySliced = Err E_Value /\
    spec_op (plain_of s0) CopySliced = Some (plain_of s0).
Proof.
  exists KDna, [65; 67; 71; 84], 3. eexists. split; [reflexivity|]. split; reflexivity.
Qed.

Lemma with_off_start v o : parent_start (with_off v o) = o + seg_lo v.
Proof. unfold with_off, seg_lo, parent_start, is_reversed. cbn [start stop step seq_len offset]. destruct (step v <? 0); ring. Qed.

Lemma with_off_stop v o : parent_stop (with_off v o) = o + seg_hi v.
Proof. unfold with_off, seg_hi, parent_stop, is_reversed. cbn [start stop step seq_len offset]. destruct (step v <? 0); ring. Qed.

Lemma with_off_rev v o : is_reversed (with_off v o) = is_reversed v.
Proof. reflexivity. Qed.

(** [copy(sliced=True)] keeps the reported parent coordinates *)
Lemma copy_sliced_coords_lemma i s s' : i <> NewStyle ->
  SWF s -> zlen (parent s) = seq_len (sv s) -> 0 < vlen (sv s) ->
  apply_op i s CopySliced = Ok s' -> parent_coords s' = parent_coords s /\ realise s' = realise s.
Proof.
  intros Hi Hs Hp HL. pose proof Hs as [Hwf Hfit].
  pose proof (apply_op_spec i s CopySliced Hs) as Hspec.
  assert (Hok : op_ok_for i CopySliced) by (destruct i; [split; [exact I|split; discriminate]|contradiction|exact I]).
  specialize (Hspec Hok).
  cbn [apply_op] in *.
  replace (match i with NewStyle => true | _ => false end) with false in * by (destruct i; [|contradiction|]; reflexivity).
  pose proof (copy_sliced_lemma false (sv s) (parent s) Hwf Hp) as Hc.
  destruct (copy_sliced false (sv s) (parent s)) as [r sg].
  destruct Hc as (v' & -> & Hwf' & Hz & Hval & Hlen & Hoff & Hb).
  destruct (Hb HL) as (Hlo & Hhi & Hdir).
  rewrite Hoff in *. replace (0 =? 0) with true in * by reflexivity. rewrite andb_false_r in *.
  intros [= <-]. destruct Hspec as [_ Hspec]. split.
  - unfold parent_coords. cbn [sv].
    set (v2 := if parent_start (sv s) =? 0 then v' else _).
    assert (Hv2 : v2 = with_off v' (parent_start (sv s))).
    { subst v2. destruct (parent_start (sv s) =? 0) eqn:E; [|reflexivity].
      destruct v'; cbn in *. unfold with_off; cbn. f_equal. lia. }
    rewrite Hv2, with_off_start, with_off_stop, with_off_rev. unfold is_reversed. rewrite Hdir, Hlo, Hhi.
    unfold seg_lo, seg_hi. f_equal. f_equal; lia.
  - unfold plain_of in Hspec. cbn [spec_op] in Hspec. injection Hspec as Hr. symmetry. exact Hr.
Qed.

(** * absolute / relative positions *)

Lemma abs_rel_inverse_lemma v i : WF v -> 0 <= offset v -> 0 <= i < vlen v ->
  exists a, absolute_position v i false = Ok a /\ relative_position v a false = Ok i.
Proof.
  intros Hwf Hoff Hi. pose proof (wf_step_nz v Hwf) as Hnz.
  unfold absolute_position, relative_position, bind. rewrite get_index_false.
  assert (E1 : (i >? 0) && (i >=? vlen v) = false) by (apply andb_false_iff; right; lia).
  assert (E2 : (i <? 0) && (Z.abs i >? vlen v) = false) by (apply andb_false_iff; left; lia).
  rewrite E1, E2.
  replace (vlen v =? 0) with false by lia. replace (i <? 0) with false by lia.
  unfold is_reversed.
  destruct (step v >? 0) eqn:Es.
  - assert (HC : 0 < step v) by lia.
    destruct (wf_fwd_facts v Hwf HC) as (Hn & HSE & HEn & _ & _ & HLc).
    cbv zeta. replace (i >=? 0) with true by lia. replace (step v <? 0) with false by lia.
    pose proof (mulr_le (step v) 0 i HC ltac:(lia)). pose proof (mulr_le (step v) i (vlen v - 1) HC ltac:(lia)).
    eexists. split; [reflexivity|].
    replace (offset v + (start v + i * step v) <? 0) with false by lia.
    replace (offset v + (start v + i * step v) - (offset v + start v)) with (i * step v) by ring.
    rewrite Z.mod_mul, Z.div_mul by lia. cbn [Z.eqb orb]. reflexivity.
  - assert (HC : step v < 0) by lia. replace (step v <? 0) with true by lia.
    destruct (wf_rev_facts v Hwf HC) as (Hn & HSE & HS1 & _ & _ & HLc).
    cbv zeta. replace (i >=? 0) with true by lia.
    pose proof (mulr_le_neg (step v) 0 i HC ltac:(lia)). pose proof (mulr_le_neg (step v) i (vlen v - 1) HC ltac:(lia)).
    eexists. split; [reflexivity|].
    replace (offset v + seq_len v + (start v + i * step v) + 1 <? 0) with false by lia.
    replace (seq_len v - (offset v + seq_len v + (start v + i * step v) + 1) + offset v + start v + 1)
      with ((- i) * step v) by ring.
    rewrite Z.mod_mul by lia. cbn [Z.eqb orb].
    rewrite Z.abs_neq by lia. replace (- i * step v) with (i * - step v) by ring.
    rewrite Z.div_mul by lia. reflexivity.
Qed.

(** * the three realisations of a view (str / bytes / index array)

    [SeqDataView.str_value], [bytes_value] and [array_value] execute the same
    two slices on three representations of the parent that are element-wise
    images of one another ([get_seq_bytes] = encode of [get_seq_str],
    [get_seq_array] = alphabet indices of it).  The model's [sdv_value] and
    [value] are polymorphic in the element type, so one definition covers the
    three routes, and they commute with any element-wise map: *)
Lemma sdv_value_map {A B} (f : A -> B) v (p : list A) : sdv_value v (map f p) = map f (sdv_value v p).
Proof.
  unfold sdv_value. rewrite py_slice_map. destruct (step v =? 1); [reflexivity|apply py_slice_map].
Qed.

Lemma value_map {A B} (f : A -> B) v (p : list A) : value v (map f p) = map f (value v p).
Proof. unfold value. apply py_slice_map. Qed.

Lemma sdv_routes_agree_lemma {A B} (f : A -> B) v (p : list A) :
  WF v -> zlen p = seq_len v -> offset v = 0 ->
  sdv_value v (map f p) = map f (value v p).
Proof. intros Hwf Hp Ho. rewrite sdv_value_map. f_equal. now apply sdv_value_lemma. Qed.
