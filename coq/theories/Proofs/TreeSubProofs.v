(** C09 — proofs about the tree-transformation model: get_sub_tree (tipsonly)
    and PhyloNode.prune preserve tips and tip-to-tip path lengths; the model of
    the distance computation agrees with the path-length specification. *)
From Coq Require Import Permutation.
From CG3 Require Import Lib.PyZ Lib.Val Lib.Rose Model.Tree Spec.TreeSpec.

(* ------------------------------------------------------------------ generalities *)

Lemma memb_cons a x l : memb a (x :: l) = str_eqb a x || memb a l.
Proof. reflexivity. Qed.

Lemma memb_filter a S l :
  memb a S = true -> memb a (filter (fun n => memb n S) l) = memb a l.
Proof.
  intros Ha. induction l as [|x l IH]; [reflexivity|].
  cbn [filter]. destruct (memb x S) eqn:Ex.
  - rewrite !memb_cons, IH. reflexivity.
  - rewrite memb_cons, IH. destruct (str_eqb_spec a x) as [->|Hn]; [congruence|reflexivity].
Qed.

Lemma filter_nil_memb a S l :
  filter (fun n => memb n S) l = [] -> memb a S = true -> memb a l = false.
Proof.
  intros Hf Ha. rewrite <- (memb_filter a S l Ha), Hf. reflexivity.
Qed.

Lemma contrib_node dflt a b n l cs :
  contrib dflt a b (Node n l cs) =
  (if sep (Node n l cs) a b then clen dflt (Node n l cs) else 0) + contribs dflt a b cs.
Proof. reflexivity. Qed.

Lemma contribs_zero dflt a b cs :
  Forall (fun c => memb a (tips c) = false -> memb b (tips c) = false -> contrib dflt a b c = 0) cs ->
  memb a (tips_of cs) = false -> memb b (tips_of cs) = false ->
  contribs dflt a b cs = 0.
Proof.
  induction 1 as [|c cs Hc _ IH]; intros Ha Hb; [reflexivity|].
  rewrite tips_of_cons, memb_app in Ha, Hb.
  apply orb_false_iff in Ha, Hb. destruct Ha as [Ha1 Ha2], Hb as [Hb1 Hb2].
  rewrite contribs_cons, Hc, IH by assumption. reflexivity.
Qed.

Lemma contrib_zero dflt a b c :
  memb a (tips c) = false -> memb b (tips c) = false -> contrib dflt a b c = 0.
Proof.
  induction c as [n l cs IH] using tree_ind'. intros Ha Hb.
  rewrite contrib_node. unfold sep. rewrite Ha, Hb. cbn [xorb].
  destruct cs as [|c0 cs]; [reflexivity|].
  rewrite tips_node in Ha, Hb by congruence.
  rewrite (contribs_zero _ _ _ _ IH Ha Hb). reflexivity.
Qed.

Lemma tips_rename l c : tips (Node (tname c) l (kids c)) = tips c.
Proof. destruct c as [m l' [|c0 cs]]; reflexivity. Qed.

(* ------------------------------------------------------------------ get_sub_tree *)

Definition good (c : tree) : bool :=
  match tlen c with Some z => 0 <? z | None => false end && pos_lens c.

Lemma pos_lens_node n l cs : pos_lens (Node n l cs) = forallb good cs.
Proof. reflexivity. Qed.

Lemma pos_lens_kids t : pos_lens t = forallb good (kids t).
Proof. destruct t; reflexivity. Qed.

Lemma gst_unfold S tp n l cs :
  gst S tp (Node n l cs) =
  if selected S tp (Node n l cs) then Some (Node n l cs)
  else match gst_kids S tp cs with
       | [] => None
       | [c] => Some (Node (tname c) (merge_len l (tlen c)) (kids c))
       | _ => Some (Node n l (gst_kids S tp cs))
       end.
Proof.
  cbn [gst]. destruct (selected S tp (Node n l cs)); [reflexivity|].
  match goal with |- match ?g with _ => _ end = _ =>
    assert (Hgo : g = gst_kids S tp cs) end.
  { induction cs as [|c cs IH]; [reflexivity|].
    unfold gst_kids. cbn [flat_map]. fold (gst_kids S tp cs).
    destruct (gst S tp c); rewrite IH; reflexivity. }
  rewrite Hgo. reflexivity.
Qed.

Definition gst_inv (dflt : Z) (S : list name) (c : tree) : Prop :=
  good c = true ->
  match gst S true c with
  | None => filter (fun n => memb n S) (tips c) = []
  | Some x =>
      tips x = filter (fun n => memb n S) (tips c) /\
      good x = true /\
      forall a b, memb a S = true -> memb b S = true ->
                  contrib dflt a b x = contrib dflt a b c
  end.

Lemma gst_kids_cons S tp c cs :
  gst_kids S tp (c :: cs) =
  match gst S tp c with Some x => [x] | None => [] end ++ gst_kids S tp cs.
Proof. reflexivity. Qed.

Lemma gst_kids_inv dflt S cs :
  Forall (gst_inv dflt S) cs -> forallb good cs = true ->
  tips_of (gst_kids S true cs) = filter (fun n => memb n S) (tips_of cs) /\
  forallb good (gst_kids S true cs) = true /\
  forall a b, memb a S = true -> memb b S = true ->
              contribs dflt a b (gst_kids S true cs) = contribs dflt a b cs.
Proof.
  induction 1 as [|c cs Hc _ IH]; intros Hg.
  - repeat split; reflexivity.
  - cbn [forallb] in Hg. apply andb_true_iff in Hg. destruct Hg as [Hgc Hgcs].
    destruct (IH Hgcs) as (IHt & IHg & IHc). clear IH.
    specialize (Hc Hgc). rewrite gst_kids_cons, tips_of_cons, filter_app.
    destruct (gst S true c) as [x|] eqn:Eg.
    + destruct Hc as (Ht & Hgx & Hcx). repeat split.
      * cbn [app]. rewrite tips_of_cons, Ht, IHt. reflexivity.
      * cbn [app forallb]. rewrite Hgx, IHg. reflexivity.
      * intros a b Ha Hb. cbn [app]. rewrite !contribs_cons, Hcx, IHc by assumption. reflexivity.
    + rewrite Hc. cbn [app]. repeat split; try assumption.
      intros a b Ha Hb. rewrite contribs_cons, IHc by assumption.
      rewrite (contrib_zero dflt a b c); [reflexivity| |];
        eapply filter_nil_memb; eassumption.
Qed.

Lemma sep_filter S x c a b :
  tips x = filter (fun n => memb n S) (tips c) ->
  memb a S = true -> memb b S = true -> sep x a b = sep c a b.
Proof.
  intros Ht Ha Hb. unfold sep. rewrite Ht, !memb_filter by assumption. reflexivity.
Qed.

Lemma gst_inv_all dflt S c : gst_inv dflt S c.
Proof.
  induction c as [n l cs IH] using tree_ind'. intros Hg.
  rewrite gst_unfold. destruct (selected S true (Node n l cs)) eqn:Esel.
  - unfold selected in Esel. cbn [tname negb orb] in Esel.
    apply andb_true_iff in Esel. destruct Esel as [Hn Htip].
    destruct cs as [|c0 cs]; [|discriminate].
    cbn [tips filter]. rewrite Hn. repeat split. exact Hg.
  - destruct cs as [|c0 cs].
    + unfold selected in Esel. cbn in Esel. rewrite andb_true_r in Esel.
      cbn [gst_kids flat_map tips filter]. rewrite Esel. reflexivity.
    + clear Esel. set (cs' := c0 :: cs) in *.
      assert (Hne : cs' <> []) by (subst cs'; congruence).
      unfold good in Hg. cbn [tlen] in Hg. apply andb_true_iff in Hg.
      destruct Hg as [Hl Hp]. destruct l as [lc|]; [|discriminate].
      apply Z.ltb_lt in Hl. rewrite pos_lens_node in Hp.
      destruct (gst_kids_inv dflt S cs' IH Hp) as (Ht & Hgk & Hck).
      rewrite (tips_node n (Some lc) cs' Hne).
      destruct (gst_kids S true cs') as [|x [|y sub]] eqn:Ek.
      * rewrite <- Ht. reflexivity.
      * cbn [forallb] in Hgk. rewrite andb_true_r in Hgk.
        rewrite tips_of_cons in Ht. cbn [tips_of flat_map] in Ht. rewrite app_nil_r in Ht.
        pose proof Hgk as Hgx. unfold good in Hgx. apply andb_true_iff in Hgx.
        destruct Hgx as [Hlx Hpx]. destruct (tlen x) as [lx|] eqn:Elx; [|discriminate].
        apply Z.ltb_lt in Hlx.
        assert (Hm : merge_len (Some lc) (Some lx) = Some (lc + lx)).
        { unfold merge_len. destruct (Z.eqb_spec (lc + lx) 0); [lia|reflexivity]. }
        rewrite Hm. split; [|split].
        -- rewrite tips_rename. exact Ht.
        -- unfold good. cbn [tlen]. rewrite pos_lens_kids. cbn [kids].
           rewrite <- pos_lens_kids, Hpx.
           destruct (Z.ltb_spec 0 (lc + lx)); [reflexivity|lia].
        -- intros a b Ha Hb. rewrite !contrib_node.
           rewrite <- (Hck a b Ha Hb). rewrite contribs_cons. cbn [contribs map zsum fold_right].
           assert (Hs1 : sep (Node (tname x) (Some (lc + lx)) (kids x)) a b = sep x a b).
           { unfold sep. rewrite tips_rename. reflexivity. }
           assert (Hs2 : sep (Node n (Some lc) cs') a b = sep x a b).
           { symmetry. apply (sep_filter S); try assumption.
             all: try (rewrite (tips_node n (Some lc) cs' Hne); exact Ht). }
           rewrite Hs1, Hs2. unfold contrib, edge_w, clen. rewrite Elx. cbn [tlen].
           destruct x as [nx l' kx]. cbn [kids tname]. rewrite !pathlen_node.
           destruct (sep (Node nx l' kx) a b); lia.
      * assert (Hne2 : x :: y :: sub <> []) by congruence.
        split; [|split].
        -- rewrite (tips_node n (Some lc) _ Hne2). exact Ht.
        -- unfold good. cbn [tlen]. rewrite pos_lens_node, Hgk.
           destruct (Z.ltb_spec 0 lc); [reflexivity|lia].
        -- intros a b Ha Hb. rewrite !contrib_node. rewrite (Hck a b Ha Hb).
           assert (Hs : sep (Node n (Some lc) (x :: y :: sub)) a b = sep (Node n (Some lc) cs') a b).
           { apply (sep_filter S); try assumption.
             all: try (rewrite (tips_node n (Some lc) _ Hne2), (tips_node n (Some lc) cs' Hne); exact Ht). }
           rewrite Hs. reflexivity.
Qed.

Lemma gst_inv_Forall dflt S cs : Forall (gst_inv dflt S) cs.
Proof. apply Forall_forall. intros c _. apply gst_inv_all. Qed.

(** general form: when the root is merged into its only surviving child
    ([keep_root = false]) the dropped root-side edges separate the subtree from
    names that are not in the tree at all, so [a] and [b] must be on the same
    side ("both in the tree" in practice) *)
Lemma sub_tree_core_gen dflt t S im kr r a b :
  pos_lens t = true ->
  get_sub_tree_core t S im kr true = Ok r ->
  memb a S = true -> memb b S = true ->
  (kr = true \/ memb a (tips t) = memb b (tips t)) ->
  tips r = filter (fun n => memb n S) (tips t) /\
  pathlen dflt r a b = pathlen dflt t a b /\
  pos_lens r = true.
Proof.
  intros Hp Hg Ha Hb Hside. unfold get_sub_tree_core in Hg.
  destruct (negb im && negb (forallb (fun n => memb n (node_names true t)) S)); [discriminate|].
  destruct (gst_top S true kr t) as [r0|] eqn:Et; [|discriminate].
  destruct (is_tip r0) eqn:Etip; [discriminate|].
  injection Hg as <-. unfold gst_top in Et.
  destruct (selected S true t) eqn:Esel.
  { injection Et as <-. unfold selected in Esel. cbn [negb orb] in Esel.
    apply andb_true_iff in Esel. destruct Esel as [_ Esel]. congruence. }
  clear Esel. destruct t as [n l cs]. cbn [kids tname tlen] in Et.
  destruct cs as [|c0 cs]; [discriminate|].
  set (cs' := c0 :: cs) in *.
  assert (Hne : cs' <> []) by (subst cs'; congruence).
  rewrite pos_lens_node in Hp.
  destruct (gst_kids_inv dflt S cs' (gst_inv_Forall dflt S cs') Hp) as (Ht & Hgk & Hck).
  rewrite (tips_node n l cs' Hne).
  destruct (gst_kids S true cs') as [|x [|y sub]] eqn:Ek; [discriminate| |].
  - rewrite tips_of_cons in Ht. cbn [tips_of flat_map] in Ht. rewrite app_nil_r in Ht.
    destruct kr.
    + injection Et as <-. unfold set_name. cbn [tlen kids].
      split; [|split].
      * cbn [tips flat_map]. rewrite app_nil_r. exact Ht.
      * rewrite !pathlen_node. apply Hck; assumption.
      * rewrite pos_lens_node. exact Hgk.
    + injection Et as <-. unfold set_name. cbn [tlen kids]. cbn [is_tip kids] in Etip.
      destruct x as [nx lx kx]. cbn [kids tname tlen] in *.
      destruct kx as [|k0 kx]; [discriminate|].
      split; [|split].
      * rewrite <- Ht. reflexivity.
      * rewrite !pathlen_node. rewrite <- (Hck a b Ha Hb).
        cbn [contribs map zsum fold_right]. rewrite contrib_node.
        destruct Hside as [Hk|Hside]; [discriminate|].
        rewrite (tips_node n l cs' Hne) in Hside.
        assert (Hs : sep (Node nx lx (k0 :: kx)) a b = false).
        { unfold sep. rewrite Ht, !memb_filter, Hside by assumption. apply xorb_nilpotent. }
        rewrite Hs. unfold contribs, zsum. cbn [map fold_right]. lia.
      * cbn [forallb] in Hgk. rewrite andb_true_r in Hgk. unfold good in Hgk.
        apply andb_true_iff in Hgk. destruct Hgk as [_ Hgk].
        rewrite pos_lens_node in *. exact Hgk.
  - assert (Hr : r0 = Node n l (x :: y :: sub)) by (destruct kr; congruence).
    subst r0. unfold set_name. cbn [tlen kids].
    split; [|split].
    + exact Ht.
    + rewrite !pathlen_node. apply Hck; assumption.
    + rewrite pos_lens_node. exact Hgk.
Qed.

(** The statement with only [In a S], [In b S] is false for
    [ignore_missing = true], [keep_root = false]: with
    t = root(X:1(A:1,B:1)), S = [A;B;Z], the result is root(A:1,B:1) and
    pathlen t A Z = 2 but pathlen r A Z = 1.  Hence the two extra hypotheses. *)
Theorem sub_tree_core_preserves : forall dflt t S im kr r a b,
  pos_lens t = true ->
  get_sub_tree_core t S im kr true = Ok r ->
  In a S -> In b S -> In a (tips t) -> In b (tips t) ->
  tips r = filter (fun n => memb n S) (tips t) /\
  pathlen dflt r a b = pathlen dflt t a b /\
  pos_lens r = true.
Proof.
  intros dflt t S im kr r a b Hp Hg Ha Hb Hat Hbt.
  apply memb_In in Ha, Hb, Hat, Hbt.
  eapply sub_tree_core_gen; try eassumption. right. congruence.
Qed.

Theorem sub_tree_core_preserves_keep_root : forall dflt t S im r a b,
  pos_lens t = true ->
  get_sub_tree_core t S im true true = Ok r ->
  In a S -> In b S ->
  tips r = filter (fun n => memb n S) (tips t) /\
  pathlen dflt r a b = pathlen dflt t a b /\
  pos_lens r = true.
Proof.
  intros dflt t S im r a b Hp Hg Ha Hb.
  apply memb_In in Ha, Hb.
  eapply sub_tree_core_gen; try eassumption. left. reflexivity.
Qed.

Theorem sub_tree_core_preserves_strict : forall dflt t S kr r a b,
  pos_lens t = true ->
  get_sub_tree_core t S false kr true = Ok r ->
  In a S -> In b S ->
  tips r = filter (fun n => memb n S) (tips t) /\
  pathlen dflt r a b = pathlen dflt t a b /\
  pos_lens r = true.
Proof.
  intros dflt t S kr r a b Hp Hg Ha Hb.
  assert (Hall : forallb (fun n => memb n (tips t)) S = true).
  { unfold get_sub_tree_core in Hg. cbn [negb andb node_names] in Hg.
    destruct (forallb (fun n => memb n (tips t)) S); [reflexivity|discriminate]. }
  rewrite forallb_forall in Hall.
  pose proof (Hall a Ha) as Hat. pose proof (Hall b Hb) as Hbt.
  apply memb_In in Ha, Hb.
  eapply sub_tree_core_gen; try eassumption. right. congruence.
Qed.

(* ------------------------------------------------------------------ prune *)

Lemma filter_partition_perm {A} (p : A -> bool) (l : list A) :
  Permutation (filter (fun x => negb (p x)) l ++ filter p l) l.
Proof.
  induction l as [|x l IH]; [constructor|].
  cbn [filter]. destruct (p x); cbn [negb].
  - symmetry. apply Permutation_cons_app. symmetry. exact IH.
  - cbn [app]. constructor. exact IH.
Qed.

(** the re-ordered list of replacements of the children *)
Definition pkids (cs : list tree) : list tree :=
  let rs := map (fun c => pc c (tlen c)) cs in
  map fst (filter (fun r => negb (snd r)) rs) ++ map fst (filter snd rs).

Definition prep (c : tree) : tree := fst (pc c (tlen c)).

Lemma pc_single n l c eff :
  pc (Node n l [c]) eff = (fst (pc c (prune_len (tlen c) eff)), true).
Proof. reflexivity. Qed.

Lemma pc_multi n l cs eff :
  length cs <> 1%nat -> pc (Node n l cs) eff = (Node n eff (pkids cs), false).
Proof. destruct cs as [|c [|d cs]]; cbn [length]; intros H; try reflexivity. congruence. Qed.

Lemma prune_unfold t : prune t = Node (tname t) (tlen t) (pkids (kids t)).
Proof. reflexivity. Qed.

Lemma pkids_perm cs : Permutation (pkids cs) (map prep cs).
Proof.
  unfold pkids, prep. rewrite <- map_app.
  rewrite <- (map_map (fun c => pc c (tlen c)) fst).
  apply Permutation_map. apply filter_partition_perm.
Qed.

Definition hl (c : tree) : bool :=
  match tlen c with Some _ => true | None => false end && has_lens c.

Lemma has_lens_node n l cs : has_lens (Node n l cs) = forallb hl cs.
Proof. reflexivity. Qed.

Definition pc_inv (dflt : Z) (t : tree) : Prop :=
  has_lens t = true -> forall e,
  Permutation (tips (fst (pc t (Some e)))) (tips t) /\
  (exists e', tlen (fst (pc t (Some e))) = Some e') /\
  forall a b, contrib dflt a b (fst (pc t (Some e))) =
              (if sep t a b then e else 0) + pathlen dflt t a b.

Lemma prep_inv dflt cs :
  Forall (pc_inv dflt) cs -> forallb hl cs = true ->
  Permutation (tips_of (map prep cs)) (tips_of cs) /\
  forall a b, contribs dflt a b (map prep cs) = contribs dflt a b cs.
Proof.
  induction 1 as [|c cs Hc _ IH]; intros Hh.
  - split; [constructor|reflexivity].
  - cbn [forallb] in Hh. apply andb_true_iff in Hh. destruct Hh as [Hhc Hhcs].
    destruct (IH Hhcs) as [IHt IHc]. clear IH.
    unfold hl in Hhc. apply andb_true_iff in Hhc. destruct Hhc as [Hl Hhc].
    destruct (tlen c) as [lc|] eqn:El; [|discriminate].
    destruct (Hc Hhc lc) as (Ht & _ & Hcc).
    cbn [map]. rewrite !tips_of_cons. split.
    + apply Permutation_app; [|exact IHt]. unfold prep. rewrite El. exact Ht.
    + intros a b. rewrite !contribs_cons, IHc. unfold prep at 1. rewrite El, Hcc.
      unfold contrib, edge_w, clen. rewrite El. reflexivity.
Qed.

Lemma pkids_inv dflt n l l' cs :
  Forall (pc_inv dflt) cs -> forallb hl cs = true ->
  Permutation (tips (Node n l' (pkids cs))) (tips (Node n l cs)) /\
  forall a b, contribs dflt a b (pkids cs) = contribs dflt a b cs.
Proof.
  intros HF Hh. destruct (prep_inv dflt cs HF Hh) as [Ht Hc].
  pose proof (pkids_perm cs) as HP. split.
  - destruct cs as [|c0 cs]; [reflexivity|].
    assert (Hne : pkids (c0 :: cs) <> []).
    { intros E. rewrite E in HP. apply Permutation_nil in HP. discriminate. }
    rewrite !tips_node by (assumption || congruence).
    rewrite (tips_of_perm _ _ HP). exact Ht.
  - intros a b. rewrite (contribs_perm dflt a b _ _ HP). apply Hc.
Qed.

Lemma pc_inv_all dflt t : pc_inv dflt t.
Proof.
  induction t as [n l cs IH] using tree_ind'. intros Hh e.
  rewrite has_lens_node in Hh.
  destruct (Nat.eq_dec (length cs) 1) as [H1|H1].
  - destruct cs as [|c [|d cs]]; try discriminate. clear H1.
    rewrite pc_single. cbn [fst].
    inversion IH as [|? ? Hc _]; subst.
    cbn [forallb] in Hh. rewrite andb_true_r in Hh. unfold hl in Hh.
    apply andb_true_iff in Hh. destruct Hh as [Hl Hhc].
    destruct (tlen c) as [lc|] eqn:El; [|discriminate].
    cbn [prune_len]. destruct (Hc Hhc (lc + e)) as (Ht & Hl' & Hcc).
    assert (Htc : tips (Node n l [c]) = tips c) by (cbn [tips flat_map]; apply app_nil_r).
    split; [|split].
    + rewrite Htc. exact Ht.
    + exact Hl'.
    + intros a b. rewrite Hcc, pathlen_node. unfold contribs. cbn [map zsum fold_right].
      unfold contrib, edge_w, clen, sep. rewrite El, Htc.
      destruct (xorb (memb a (tips c)) (memb b (tips c))); lia.
  - rewrite (pc_multi n l cs (Some e) H1). cbn [fst].
    destruct (pkids_inv dflt n l (Some e) cs IH Hh) as [Ht Hc].
    split; [|split].
    + exact Ht.
    + eexists. reflexivity.
    + intros a b. rewrite contrib_node, Hc, pathlen_node.
      rewrite (sep_perm _ _ a b Ht). reflexivity.
Qed.

Theorem prune_preserves : forall dflt t a b,
  has_lens t = true ->
  Permutation (tips (prune t)) (tips t) /\ pathlen dflt (prune t) a b = pathlen dflt t a b.
Proof.
  intros dflt t a b Hh. destruct t as [n l cs]. rewrite prune_unfold. cbn [tname tlen kids].
  rewrite has_lens_node in Hh.
  assert (HF : Forall (pc_inv dflt) cs) by (apply Forall_forall; intros c _; apply pc_inv_all).
  destruct (pkids_inv dflt n l l cs HF Hh) as [Ht Hc].
  split; [exact Ht|]. rewrite !pathlen_node. apply Hc.
Qed.

(** child-level invariant of [pc], as a theorem *)
Theorem pc_preserves : forall dflt t e a b,
  has_lens t = true ->
  Permutation (tips (fst (pc t (Some e)))) (tips t) /\
  (exists e', tlen (fst (pc t (Some e))) = Some e') /\
  contrib dflt a b (fst (pc t (Some e))) = (if sep t a b then e else 0) + pathlen dflt t a b.
Proof.
  intros dflt t e a b Hh. destruct (pc_inv_all dflt t Hh e) as (H1 & H2 & H3). auto.
Qed.

(** no unary node below the root after pruning *)
Definition nu (c : tree) : bool := negb (Nat.eqb (length (kids c)) 1) && no_unary c.

Lemma no_unary_node n l cs : no_unary (Node n l cs) = forallb nu cs.
Proof. reflexivity. Qed.

Lemma forallb_perm {A} (p : A -> bool) l1 l2 :
  Permutation l1 l2 -> forallb p l1 = forallb p l2.
Proof.
  induction 1 as [|x l1 l2 _ IH|x y l|l1 l2 l3 _ IH1 _ IH2]; cbn [forallb].
  - reflexivity.
  - rewrite IH. reflexivity.
  - destruct (p x), (p y); reflexivity.
  - congruence.
Qed.

Lemma pkids_nu cs :
  Forall (fun c => forall eff, nu (fst (pc c eff)) = true) cs -> forallb nu (pkids cs) = true.
Proof.
  intros HF. rewrite (forallb_perm nu _ _ (pkids_perm cs)).
  induction HF as [|c cs Hc _ IH]; [reflexivity|].
  cbn [map forallb]. unfold prep at 1. rewrite Hc, IH. reflexivity.
Qed.

Lemma pc_nu t : forall eff, nu (fst (pc t eff)) = true.
Proof.
  induction t as [n l cs IH] using tree_ind'. intros eff.
  destruct (Nat.eq_dec (length cs) 1) as [H1|H1].
  - destruct cs as [|c [|d cs]]; try discriminate.
    rewrite pc_single. cbn [fst]. inversion IH as [|? ? Hc _]; subst. apply Hc.
  - rewrite (pc_multi n l cs eff H1). cbn [fst]. unfold nu. cbn [kids].
    rewrite no_unary_node, (pkids_nu cs IH), andb_true_r.
    rewrite (Permutation_length (pkids_perm cs)), map_length.
    apply negb_true_iff. apply Nat.eqb_neq. exact H1.
Qed.

Theorem prune_no_unary : forall t, no_unary (prune t) = true.
Proof.
  intros t. rewrite prune_unfold, no_unary_node. apply pkids_nu.
  apply Forall_forall. intros c _. apply pc_nu.
Qed.

(* ------------------------------------------------------------------ distances *)

Lemma NoDup_app_disj {A} (l1 l2 : list A) x :
  NoDup (l1 ++ l2) -> In x l1 -> In x l2 -> False.
Proof.
  induction l1 as [|y l1 IH]; cbn [app]; intros Hnd H1 H2; [contradiction|].
  inversion Hnd as [|? ? Hni Hnd']; subst. destruct H1 as [->|H1].
  - apply Hni. apply in_or_app. right. exact H2.
  - exact (IH Hnd' H1 H2).
Qed.

Lemma NoDup_app_remove_r {A} (l1 l2 : list A) : NoDup (l1 ++ l2) -> NoDup l1.
Proof.
  induction l1 as [|y l1 IH]; cbn [app]; intros Hnd; [constructor|].
  inversion Hnd as [|? ? Hni Hnd']; subst. constructor; [|exact (IH Hnd')].
  intros H. apply Hni. apply in_or_app. left. exact H.
Qed.

Lemma NoDup_app_remove_l {A} (l1 l2 : list A) : NoDup (l1 ++ l2) -> NoDup l2.
Proof.
  induction l1 as [|y l1 IH]; cbn [app]; intros Hnd; [exact Hnd|].
  inversion Hnd as [|? ? Hni Hnd']; subst. exact (IH Hnd').
Qed.

Lemma contrib_zero' dflt a b c :
  ~ In a (tips c) -> ~ In b (tips c) -> contrib dflt a b c = 0.
Proof. intros Ha Hb. apply contrib_zero; apply memb_false_In; assumption. Qed.

Lemma contribs_zero' dflt a b cs :
  ~ In a (tips_of cs) -> ~ In b (tips_of cs) -> contribs dflt a b cs = 0.
Proof.
  intros Ha Hb. apply contribs_zero; try (apply memb_false_In; assumption).
  apply Forall_forall. intros c _. apply contrib_zero.
Qed.

Lemma sep_sym c a b : sep c a b = sep c b a.
Proof. unfold sep. apply xorb_comm. Qed.

Lemma contrib_sym dflt a b c : contrib dflt a b c = contrib dflt b a c.
Proof.
  induction c as [n l cs IH] using tree_ind'.
  rewrite !contrib_node, (sep_sym _ a b). f_equal.
  unfold contribs. apply zsum_map_ext. exact IH.
Qed.

Lemma contribs_sym dflt a b cs : contribs dflt a b cs = contribs dflt b a cs.
Proof.
  unfold contribs. apply zsum_map_ext. apply Forall_forall. intros c _. apply contrib_sym.
Qed.

Lemma pathlen_sym dflt t a b : pathlen dflt t a b = pathlen dflt t b a.
Proof. destruct t as [n l cs]. rewrite !pathlen_node. apply contribs_sym. Qed.

Lemma in_tips_of c cs x : In c cs -> In x (tips c) -> In x (tips_of cs).
Proof. intros Hc Hx. unfold tips_of. apply in_flat_map. exists c. auto. Qed.

(** the matching predicate of [lookup_dist] *)
Definition mt (a b : name) (e : (name * name) * Z) : bool :=
  (str_eqb (fst (fst e)) a && str_eqb (snd (fst e)) b)
  || (str_eqb (fst (fst e)) b && str_eqb (snd (fst e)) a).

Lemma lookup_dist_eq es a b :
  lookup_dist es a b = match find (mt a b) es with Some e => Some (snd e) | None => None end.
Proof. reflexivity. Qed.

Lemma mt_true a b e :
  mt a b e = true ->
  (fst (fst e) = a /\ snd (fst e) = b) \/ (fst (fst e) = b /\ snd (fst e) = a).
Proof. unfold mt. rewrite orb_true_iff, !andb_true_iff, !str_eqb_eq. tauto. Qed.

Lemma mt_intro a b v : mt a b ((a, b), v) = true.
Proof. unfold mt. cbn [fst snd]. rewrite !str_eqb_refl. reflexivity. Qed.

Lemma mt_sym a b e : mt a b e = mt b a e.
Proof. unfold mt. apply orb_comm. Qed.

Lemma find_app' {A} (p : A -> bool) (l1 l2 : list A) :
  find p (l1 ++ l2) = match find p l1 with Some x => Some x | None => find p l2 end.
Proof.
  induction l1 as [|x l1 IH]; [reflexivity|]. cbn [app find].
  destruct (p x); [reflexivity|exact IH].
Qed.

Lemma lookup_sym es a b : lookup_dist es a b = lookup_dist es b a.
Proof.
  rewrite !lookup_dist_eq. induction es as [|e es IH]; [reflexivity|].
  cbn [find]. rewrite (mt_sym a b e). destruct (mt b a e); [reflexivity|exact IH].
Qed.

Lemma lookup_skip l1 l2 a b :
  (forall e, In e l1 -> mt a b e = false) ->
  lookup_dist (l1 ++ l2) a b = lookup_dist l2 a b.
Proof.
  intros H. rewrite !lookup_dist_eq, find_app'.
  destruct (find (mt a b) l1) as [e|] eqn:E; [|reflexivity].
  apply find_some in E. destruct E as [Hi Hm]. rewrite (H _ Hi) in Hm. discriminate.
Qed.

Lemma lookup_app_some l1 l2 a b v :
  lookup_dist l1 a b = Some v -> lookup_dist (l1 ++ l2) a b = Some v.
Proof.
  rewrite !lookup_dist_eq, find_app'. destruct (find (mt a b) l1); [auto|discriminate].
Qed.

(** names of the depth lists *)
Lemma tip_depths_node dflt n l cs :
  cs <> [] -> tip_depths dflt (Node n l cs) = flat_map (shifted dflt) cs.
Proof. destruct cs; [congruence|reflexivity]. Qed.

Lemma shifted_fst dflt c : map fst (shifted dflt c) = map fst (tip_depths dflt c).
Proof. unfold shifted. rewrite map_map. apply map_ext. reflexivity. Qed.

Lemma tip_depths_names dflt c : map fst (tip_depths dflt c) = tips c.
Proof.
  induction c as [n l cs IH] using tree_ind'.
  destruct cs as [|c0 cs]; [reflexivity|].
  rewrite tip_depths_node, tips_node by congruence.
  induction IH as [|c cs' Hc _ IH']; [reflexivity|].
  cbn [flat_map]. rewrite tips_of_cons, map_app, shifted_fst, Hc, IH'. reflexivity.
Qed.

Lemma shifted_names dflt c : map fst (shifted dflt c) = tips c.
Proof. rewrite shifted_fst. apply tip_depths_names. Qed.

Lemma flat_shifted_names dflt cs : map fst (flat_map (shifted dflt) cs) = tips_of cs.
Proof.
  induction cs as [|c cs IH]; [reflexivity|].
  cbn [flat_map]. rewrite tips_of_cons, map_app, shifted_names, IH. reflexivity.
Qed.

Lemma shifted_in dflt c p : In p (shifted dflt c) -> In (fst p) (tips c).
Proof. intros H. rewrite <- (shifted_names dflt c). apply in_map. exact H. Qed.

Lemma flat_shifted_in dflt cs p : In p (flat_map (shifted dflt) cs) -> In (fst p) (tips_of cs).
Proof. intros H. rewrite <- (flat_shifted_names dflt cs). apply in_map. exact H. Qed.

Lemma shifted_ex dflt c a : In a (tips c) -> exists d, In (a, d) (shifted dflt c).
Proof.
  intros H. rewrite <- (shifted_names dflt c) in H. apply in_map_iff in H.
  destruct H as ([a' d] & <- & H). exists d. exact H.
Qed.

Lemma flat_shifted_ex dflt cs a :
  In a (tips_of cs) -> exists d, In (a, d) (flat_map (shifted dflt) cs).
Proof.
  intros H. rewrite <- (flat_shifted_names dflt cs) in H. apply in_map_iff in H.
  destruct H as ([a' d] & <- & H). exists d. exact H.
Qed.

(** the block of [cross_pairs] pairing the first child with the later ones *)
Definition xblock (dflt : Z) (c : tree) (cs : list tree) : list ((name * name) * Z) :=
  flat_map (fun p => flat_map (fun g2 => map (fun q => ((fst p, fst q), snd p + snd q)) g2)
                              (map (shifted dflt) cs)) (shifted dflt c).

Lemma cross_pairs_cons dflt c cs :
  cross_pairs (map (shifted dflt) (c :: cs)) = xblock dflt c cs ++ cross_pairs (map (shifted dflt) cs).
Proof. reflexivity. Qed.

Lemma dist_entries_node dflt n l cs :
  dist_entries dflt (Node n l cs) =
  flat_map (dist_entries dflt) cs ++ cross_pairs (map (shifted dflt) cs).
Proof. reflexivity. Qed.

Lemma in_prod dflt c cs e :
  In e (xblock dflt c cs) <->
  exists p q, In p (shifted dflt c) /\ In q (flat_map (shifted dflt) cs) /\
              e = ((fst p, fst q), snd p + snd q).
Proof.
  unfold xblock. rewrite in_flat_map. split.
  - intros (p & Hp & H). apply in_flat_map in H. destruct H as (g2 & Hg & H).
    apply in_map_iff in H. destruct H as (q & <- & Hq).
    apply in_map_iff in Hg. destruct Hg as (c2 & <- & Hc2).
    exists p, q. repeat split; try assumption. apply in_flat_map. exists c2. auto.
  - intros (p & q & Hp & Hq & ->). exists p. split; [exact Hp|].
    apply in_flat_map in Hq. destruct Hq as (c2 & Hc2 & Hq).
    apply in_flat_map. exists (shifted dflt c2). split; [apply in_map; exact Hc2|].
    apply in_map_iff. exists q. auto.
Qed.

Definition names_in (T : list name) (l : list ((name * name) * Z)) : Prop :=
  forall e, In e l -> In (fst (fst e)) T /\ In (snd (fst e)) T.

Lemma cross_names dflt cs : names_in (tips_of cs) (cross_pairs (map (shifted dflt) cs)).
Proof.
  induction cs as [|c cs IH]; intros e He; [contradiction|].
  rewrite cross_pairs_cons in He. rewrite tips_of_cons. apply in_app_or in He.
  destruct He as [He|He].
  - apply in_prod in He. destruct He as (p & q & Hp & Hq & ->). cbn [fst snd].
    apply shifted_in in Hp. apply flat_shifted_in in Hq.
    split; apply in_or_app; auto.
  - destruct (IH e He) as [H1 H2]. split; apply in_or_app; auto.
Qed.

Lemma dist_names dflt t : names_in (tips t) (dist_entries dflt t).
Proof.
  induction t as [n l cs IH] using tree_ind'. intros e He.
  rewrite dist_entries_node in He.
  destruct cs as [|c0 cs]; [contradiction|].
  rewrite tips_node by congruence. set (cs' := c0 :: cs) in *.
  apply in_app_or in He. destruct He as [He|He].
  - apply in_flat_map in He. destruct He as (c & Hc & He).
    rewrite Forall_forall in IH. destruct (IH c Hc e He) as [H1 H2].
    split; eapply in_tips_of; eassumption.
  - exact (cross_names dflt cs' e He).
Qed.

(** depth of a tip = the contribution of the subtree w.r.t. any outside name *)
Definition depth_ok (dflt : Z) (a b : name) (c : tree) : Prop :=
  forall d, NoDup (tips c) -> ~ In b (tips c) -> In (a, d) (shifted dflt c) ->
            contrib dflt a b c = d.

Lemma depth_kids dflt a b cs :
  Forall (depth_ok dflt a b) cs -> NoDup (tips_of cs) -> ~ In b (tips_of cs) ->
  forall d, In (a, d) (flat_map (shifted dflt) cs) -> contribs dflt a b cs = d.
Proof.
  induction 1 as [|c cs Hc _ IH]; intros Hnd Hb d Hin; [contradiction|].
  rewrite tips_of_cons in Hnd, Hb. cbn [flat_map] in Hin. rewrite contribs_cons.
  assert (Hbc : ~ In b (tips c)) by (intros H; apply Hb; apply in_or_app; auto).
  assert (Hbcs : ~ In b (tips_of cs)) by (intros H; apply Hb; apply in_or_app; auto).
  apply in_app_or in Hin. destruct Hin as [Hin|Hin].
  - rewrite (Hc d (NoDup_app_remove_r _ _ Hnd) Hbc Hin).
    apply shifted_in in Hin. cbn [fst] in Hin.
    rewrite contribs_zero'; [lia| |exact Hbcs].
    intros H. exact (NoDup_app_disj _ _ _ Hnd Hin H).
  - rewrite (IH (NoDup_app_remove_l _ _ Hnd) Hbcs d Hin).
    apply flat_shifted_in in Hin. cbn [fst] in Hin.
    rewrite contrib_zero'; [lia| |exact Hbc].
    intros H. exact (NoDup_app_disj _ _ _ Hnd H Hin).
Qed.

Lemma depth_all dflt a b c : depth_ok dflt a b c.
Proof.
  induction c as [n l cs IH] using tree_ind'. intros d Hnd Hb Hin.
  pose proof (shifted_in _ _ _ Hin) as Ha. cbn [fst] in Ha.
  unfold shifted in Hin. apply in_map_iff in Hin. destruct Hin as ([a' d'] & Heq & Hin).
  cbn [fst snd] in Heq. injection Heq as -> <-.
  rewrite contrib_node. unfold sep.
  apply memb_In in Ha. apply memb_false_In in Hb. rewrite Ha, Hb. cbn [xorb].
  apply memb_false_In in Hb.
  destruct cs as [|c0 cs].
  - cbn [tip_depths] in Hin. destruct Hin as [Heq|[]]. injection Heq as _ <-.
    unfold contribs. cbn [map zsum fold_right]. lia.
  - rewrite tip_depths_node in Hin by congruence.
    rewrite tips_node in Hnd, Hb by congruence.
    rewrite (depth_kids dflt a b _ IH Hnd Hb d' Hin). lia.
Qed.

Lemma depth_all_F dflt a b cs : Forall (depth_ok dflt a b) cs.
Proof. apply Forall_forall. intros c _. apply depth_all. Qed.

(** the pair between a tip of the first child and a tip of a later child *)
Lemma cross_head dflt a b c cs rest :
  NoDup (tips c ++ tips_of cs) -> In a (tips c) -> In b (tips_of cs) ->
  lookup_dist (xblock dflt c cs ++ rest) a b = Some (contrib dflt a b c + contribs dflt a b cs).
Proof.
  intros Hnd Ha Hb.
  assert (Hbc : ~ In b (tips c)) by (intros H; exact (NoDup_app_disj _ _ _ Hnd H Hb)).
  assert (Hacs : ~ In a (tips_of cs)) by (intros H; exact (NoDup_app_disj _ _ _ Hnd Ha H)).
  rewrite lookup_dist_eq, find_app'.
  destruct (find (mt a b) (xblock dflt c cs)) as [e|] eqn:E.
  - apply find_some in E. destruct E as [Hi Hm].
    apply in_prod in Hi. destruct Hi as ([a' da] & [b' db] & Hp & Hq & ->).
    apply mt_true in Hm. cbn [fst snd] in *.
    destruct Hm as [[-> ->]|[-> ->]].
    + rewrite (depth_all dflt a b c da (NoDup_app_remove_r _ _ Hnd) Hbc Hp).
      rewrite (contribs_sym dflt a b cs).
      rewrite (depth_kids dflt b a cs (depth_all_F _ _ _ _) (NoDup_app_remove_l _ _ Hnd) Hacs db Hq).
      reflexivity.
    + apply shifted_in in Hp. cbn [fst] in Hp. contradiction.
  - exfalso. destruct (shifted_ex dflt c a Ha) as [da Hda].
    destruct (flat_shifted_ex dflt cs b Hb) as [db Hdb].
    pose proof (find_none _ _ E ((a, b), da + db)) as Hn.
    rewrite mt_intro in Hn. assert (Hf : true = false); [|discriminate].
    apply Hn. apply in_prod. exists (a, da), (b, db). auto.
Qed.

Definition both (a b : name) (c : tree) : bool := memb a (tips c) && memb b (tips c).

Lemma cross_all dflt a b cs :
  NoDup (tips_of cs) -> In a (tips_of cs) -> In b (tips_of cs) ->
  existsb (both a b) cs = false ->
  lookup_dist (cross_pairs (map (shifted dflt) cs)) a b = Some (contribs dflt a b cs).
Proof.
  induction cs as [|c cs IH]; intros Hnd Ha Hb Hex; [contradiction|].
  rewrite cross_pairs_cons, contribs_cons. rewrite tips_of_cons in *.
  cbn [existsb] in Hex. apply orb_false_iff in Hex. destruct Hex as [Hbo Hex].
  apply in_app_or in Ha, Hb. destruct Ha as [Ha|Ha], Hb as [Hb|Hb].
  - unfold both in Hbo. apply memb_In in Ha, Hb. rewrite Ha, Hb in Hbo. discriminate.
  - apply cross_head; assumption.
  - rewrite lookup_sym, (contrib_sym dflt a b), (contribs_sym dflt a b).
    apply cross_head; assumption.
  - assert (Hac : ~ In a (tips c)) by (intros H; exact (NoDup_app_disj _ _ _ Hnd H Ha)).
    assert (Hbc : ~ In b (tips c)) by (intros H; exact (NoDup_app_disj _ _ _ Hnd H Hb)).
    rewrite lookup_skip.
    + rewrite (IH (NoDup_app_remove_l _ _ Hnd) Ha Hb Hex).
      rewrite contrib_zero' by assumption. reflexivity.
    + intros e He. destruct (mt a b e) eqn:Hm; [|reflexivity]. exfalso.
      apply in_prod in He. destruct He as (p & q & Hp & _ & ->).
      apply shifted_in in Hp. apply mt_true in Hm. cbn [fst snd] in Hm.
      destruct Hm as [[Hm _]|[Hm _]]; rewrite Hm in Hp; contradiction.
Qed.

Definition dist_ok (dflt : Z) (t : tree) : Prop :=
  NoDup (tips t) -> forall a b, In a (tips t) -> In b (tips t) -> a <> b ->
  lookup_dist (dist_entries dflt t) a b = Some (pathlen dflt t a b).

Lemma same_child dflt a b cs rest :
  Forall (dist_ok dflt) cs -> NoDup (tips_of cs) -> a <> b ->
  existsb (both a b) cs = true ->
  lookup_dist (flat_map (dist_entries dflt) cs ++ rest) a b = Some (contribs dflt a b cs).
Proof.
  induction 1 as [|c cs Hc _ IH]; intros Hnd Hab Hex; [discriminate|].
  cbn [flat_map]. rewrite <- app_assoc, contribs_cons. rewrite tips_of_cons in Hnd.
  cbn [existsb] in Hex. destruct (both a b c) eqn:Hbo.
  - unfold both in Hbo. apply andb_true_iff in Hbo. destruct Hbo as [Ha Hb].
    pose proof Ha as Ha'. pose proof Hb as Hb'. apply memb_In in Ha', Hb'.
    rewrite (lookup_app_some _ _ _ _ _ (Hc (NoDup_app_remove_r _ _ Hnd) a b Ha' Hb' Hab)).
    rewrite contribs_zero'.
    + unfold contrib, edge_w, sep. rewrite Ha, Hb. cbn [xorb]. f_equal. lia.
    + intros H. exact (NoDup_app_disj _ _ _ Hnd Ha' H).
    + intros H. exact (NoDup_app_disj _ _ _ Hnd Hb' H).
  - cbn [orb] in Hex. pose proof Hex as Hex'.
    apply existsb_exists in Hex'. destruct Hex' as (c' & Hc' & Hbo').
    unfold both in Hbo'. apply andb_true_iff in Hbo'. destruct Hbo' as [Ha Hb].
    apply memb_In in Ha, Hb.
    pose proof (in_tips_of _ _ _ Hc' Ha) as Ha'. pose proof (in_tips_of _ _ _ Hc' Hb) as Hb'.
    rewrite lookup_skip.
    + rewrite (IH (NoDup_app_remove_l _ _ Hnd) Hab Hex).
      rewrite contrib_zero'; [reflexivity| |].
      * intros H. exact (NoDup_app_disj _ _ _ Hnd H Ha').
      * intros H. exact (NoDup_app_disj _ _ _ Hnd H Hb').
    + intros e He. destruct (mt a b e) eqn:Hm; [|reflexivity]. exfalso.
      destruct (dist_names dflt c e He) as [H1 H2]. apply mt_true in Hm.
      destruct Hm as [[Hm _]|[_ Hm]].
      * rewrite Hm in H1. exact (NoDup_app_disj _ _ _ Hnd H1 Ha').
      * rewrite Hm in H2. exact (NoDup_app_disj _ _ _ Hnd H2 Ha').
Qed.

Lemma dist_ok_all dflt t : dist_ok dflt t.
Proof.
  induction t as [n l cs IH] using tree_ind'. intros Hnd a b Ha Hb Hab.
  destruct cs as [|c0 cs].
  { cbn [tips] in Ha, Hb. destruct Ha as [<-|[]], Hb as [<-|[]]. congruence. }
  rewrite tips_node in Hnd, Ha, Hb by congruence.
  rewrite dist_entries_node, pathlen_node. set (cs' := c0 :: cs) in *.
  destruct (existsb (both a b) cs') eqn:Hex.
  - apply same_child; assumption.
  - rewrite lookup_skip.
    + apply cross_all; assumption.
    + intros e He. destruct (mt a b e) eqn:Hm; [|reflexivity]. exfalso.
      apply in_flat_map in He. destruct He as (c & Hc & He).
      destruct (dist_names dflt c e He) as [H1 H2]. apply mt_true in Hm.
      assert (Hbo : both a b c = true).
      { unfold both. apply andb_true_iff.
        destruct Hm as [[<- <-]|[<- <-]]; split; apply memb_In; assumption. }
      assert (Hex' : existsb (both a b) cs' = true) by (apply existsb_exists; exists c; auto).
      congruence.
Qed.

Theorem get_distance_is_pathlen : forall dflt t a b,
  NoDup (tips t) -> In a (tips t) -> In b (tips t) -> a <> b ->
  get_distance dflt t a b = Some (pathlen dflt t a b).
Proof.
  intros dflt t a b Hnd Ha Hb Hab. unfold get_distance. apply dist_ok_all; assumption.
Qed.

(* ------------------------------------------------------------------ child-level statements of the get_sub_tree invariant *)

Lemma good_intro c lc : tlen c = Some lc -> 0 < lc -> pos_lens c = true -> good c = true.
Proof.
  intros Hl Hpos Hp. unfold good. rewrite Hl, Hp.
  destruct (Z.ltb_spec 0 lc); [reflexivity|lia].
Qed.

Theorem gst_child_none_iff : forall S c lc,
  tlen c = Some lc -> 0 < lc -> pos_lens c = true ->
  (gst S true c = None <-> filter (fun n => memb n S) (tips c) = []).
Proof.
  intros S c lc Hl Hpos Hp.
  pose proof (gst_inv_all 0 S c (good_intro c lc Hl Hpos Hp)) as H.
  destruct (gst S true c) as [x|]; split; intros E; try assumption; try reflexivity; try discriminate.
  destruct H as [Ht _]. rewrite E in Ht. exfalso. exact (tips_nonempty x Ht).
Qed.

Theorem gst_child_some : forall dflt S c lc x,
  tlen c = Some lc -> 0 < lc -> pos_lens c = true ->
  gst S true c = Some x ->
  tips x = filter (fun n => memb n S) (tips c) /\
  (exists lx, tlen x = Some lx /\ 0 < lx) /\
  pos_lens x = true /\
  forall a b, memb a S = true -> memb b S = true ->
              contrib dflt a b x = contrib dflt a b c.
Proof.
  intros dflt S c lc x Hl Hpos Hp Hg.
  pose proof (gst_inv_all dflt S c (good_intro c lc Hl Hpos Hp)) as H.
  rewrite Hg in H. destruct H as (Ht & Hgx & Hc).
  unfold good in Hgx. apply andb_true_iff in Hgx. destruct Hgx as [Hlx Hpx].
  destruct (tlen x) as [lx|]; [|discriminate]. apply Z.ltb_lt in Hlx.
  repeat split; try assumption. exists lx. auto.
Qed.

(* ------------------------------------------------------------------ prune keeps every length present *)

Lemma pkids_hl cs :
  Forall (fun c => has_lens c = true -> forall e, hl (fst (pc c (Some e))) = true) cs ->
  forallb hl cs = true -> forallb hl (pkids cs) = true.
Proof.
  intros HF Hh. rewrite (forallb_perm hl _ _ (pkids_perm cs)).
  induction HF as [|c cs Hc _ IH]; [reflexivity|].
  cbn [forallb] in Hh. apply andb_true_iff in Hh. destruct Hh as [Hhc Hhcs].
  unfold hl in Hhc. apply andb_true_iff in Hhc. destruct Hhc as [Hl Hhc].
  destruct (tlen c) as [lc|] eqn:El; [|discriminate].
  cbn [map forallb]. unfold prep at 1. rewrite El, (Hc Hhc lc), (IH Hhcs). reflexivity.
Qed.

Lemma pc_hl t : has_lens t = true -> forall e, hl (fst (pc t (Some e))) = true.
Proof.
  induction t as [n l cs IH] using tree_ind'. intros Hh e.
  rewrite has_lens_node in Hh.
  destruct (Nat.eq_dec (length cs) 1) as [H1|H1].
  - destruct cs as [|c [|d cs]]; try discriminate.
    rewrite pc_single. cbn [fst]. inversion IH as [|? ? Hc _]; subst.
    cbn [forallb] in Hh. rewrite andb_true_r in Hh. unfold hl in Hh.
    apply andb_true_iff in Hh. destruct Hh as [Hl Hhc].
    destruct (tlen c) as [lc|] eqn:El; [|discriminate].
    cbn [prune_len]. apply Hc. exact Hhc.
  - rewrite (pc_multi n l cs (Some e) H1). cbn [fst]. unfold hl. cbn [tlen].
    rewrite has_lens_node. apply (pkids_hl cs IH Hh).
Qed.

Theorem prune_has_lens : forall t, has_lens t = true -> has_lens (prune t) = true.
Proof.
  intros t Hh. destruct t as [n l cs]. rewrite prune_unfold. cbn [tname tlen kids].
  rewrite has_lens_node in *. apply pkids_hl; [|exact Hh].
  apply Forall_forall. intros c _. apply pc_hl.
Qed.
