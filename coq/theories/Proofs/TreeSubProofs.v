(** C09 — proofs about the tree-transformation model: get_sub_tree (tipsonly)
    and PhyloNode.prune preserve tips and tip-to-tip path lengths; the model of
    the distance computation agrees with the path-length specification. *)
From Coq Require Import Permutation.
From CG3 Require Import Lib.PyZ Lib.Val Lib.Rose Model.Tree Spec.TreeSpec.

(* ------------------------------------------------------------------ generalities *)

Lemma memb_cons a x l : memb a (x :: l) = str_eqb a x || memb a l.
Proof. reflexivity. Qed.

Lemma memb_filter a S l :
  memb a S = true -> memb a (filter (fun n => memb n S) l) = memb a l.
Proof.
  intros Ha. induction l as [|x l IH]; [reflexivity|].
  cbn [filter]. destruct (memb x S) eqn:Ex.
  - rewrite !memb_cons, IH. reflexivity.
  - rewrite memb_cons, IH. destruct (str_eqb_spec a x) as [->|Hn]; [congruence|reflexivity].
Qed.

Lemma filter_nil_memb a S l :
  filter (fun n => memb n S) l = [] -> memb a S = true -> memb a l = false.
Proof.
  intros Hf Ha. rewrite <- (memb_filter a S l Ha), Hf. reflexivity.
Qed.

Lemma contrib_node dflt a b n l cs :
  contrib dflt a b (Node n l cs) =
  (if sep (Node n l cs) a b then clen dflt (Node n l cs) else 0) + contribs dflt a b cs.
Proof. reflexivity. Qed.

Lemma contribs_zero dflt a b cs :
  Forall (fun c => memb a (tips c) = false -> memb b (tips c) = false -> contrib dflt a b c = 0) cs ->
  memb a (tips_of cs) = false -> memb b (tips_of cs) = false ->
  contribs dflt a b cs = 0.
Proof.
  induction 1 as [|c cs Hc _ IH]; intros Ha Hb; [reflexivity|].
  rewrite tips_of_cons, memb_app in Ha, Hb.
  apply orb_false_iff in Ha, Hb. destruct Ha as [Ha1 Ha2], Hb as [Hb1 Hb2].
  rewrite contribs_cons, Hc, IH by assumption. reflexivity.
Qed.

Lemma contrib_zero dflt a b c :
  memb a (tips c) = false -> memb b (tips c) = false -> contrib dflt a b c = 0.
Proof.
  induction c as [n l cs IH] using tree_ind'. intros Ha Hb.
  rewrite contrib_node. unfold sep. rewrite Ha, Hb. cbn [xorb].
  destruct cs as [|c0 cs]; [reflexivity|].
  rewrite tips_node in Ha, Hb by congruence.
  rewrite (contribs_zero _ _ _ _ IH Ha Hb). reflexivity.
Qed.

Lemma tips_rename l c : tips (Node (tname c) l (kids c)) = tips c.
Proof. destruct c as [m l' [|c0 cs]]; reflexivity. Qed.

(* ------------------------------------------------------------------ get_sub_tree *)

Definition good (c : tree) : bool :=
  match tlen c with Some z => 0 <? z | None => false end && pos_lens c.

Lemma pos_lens_node n l cs : pos_lens (Node n l cs) = forallb good cs.
Proof. reflexivity. Qed.

Lemma pos_lens_kids t : pos_lens t = forallb good (kids t).
Proof. destruct t; reflexivity. Qed.

Lemma gst_unfold S tp n l cs :
  gst S tp (Node n l cs) =
  if selected S tp (Node n l cs) then Some (Node n l cs)
  else match gst_kids S tp cs with
       | [] => None
       | [c] => Some (Node (tname c) (merge_len l (tlen c)) (kids c))
       | _ => Some (Node n l (gst_kids S tp cs))
       end.
Proof.
  cbn [gst]. destruct (selected S tp (Node n l cs)); [reflexivity|].
  match goal with |- match ?g with _ => _ end = _ =>
    assert (Hgo : g = gst_kids S tp cs) end.
  { induction cs as [|c cs IH]; [reflexivity|].
    unfold gst_kids. cbn [flat_map]. fold (gst_kids S tp cs).
    destruct (gst S tp c); rewrite IH; reflexivity. }
  rewrite Hgo. reflexivity.
Qed.

Definition gst_inv (dflt : Z) (S : list name) (c : tree) : Prop :=
  good c = true ->
  match gst S true c with
  | None => filter (fun n => memb n S) (tips c) = []
  | Some x =>
      tips x = filter (fun n => memb n S) (tips c) /\
      good x = true /\
      forall a b, memb a S = true -> memb b S = true ->
                  contrib dflt a b x = contrib dflt a b c
  end.

Lemma gst_kids_cons S tp c cs :
  gst_kids S tp (c :: cs) =
  match gst S tp c with Some x => [x] | None => [] end ++ gst_kids S tp cs.
Proof. reflexivity. Qed.

Lemma gst_kids_inv dflt S cs :
  Forall (gst_inv dflt S) cs -> forallb good cs = true ->
  tips_of (gst_kids S true cs) = filter (fun n => memb n S) (tips_of cs) /\
  forallb good (gst_kids S true cs) = true /\
  forall a b, memb a S = true -> memb b S = true ->
              contribs dflt a b (gst_kids S true cs) = contribs dflt a b cs.
Proof.
  induction 1 as [|c cs Hc _ IH]; intros Hg.
  - repeat split; reflexivity.
  - cbn [forallb] in Hg. apply andb_true_iff in Hg. destruct Hg as [Hgc Hgcs].
    destruct (IH Hgcs) as (IHt & IHg & IHc). clear IH.
    specialize (Hc Hgc). rewrite gst_kids_cons, tips_of_cons, filter_app.
    destruct (gst S true c) as [x|] eqn:Eg.
    + destruct Hc as (Ht & Hgx & Hcx). repeat split.
      * cbn [app]. rewrite tips_of_cons, Ht, IHt. reflexivity.
      * cbn [app forallb]. rewrite Hgx, IHg. reflexivity.
      * intros a b Ha Hb. cbn [app]. rewrite !contribs_cons, Hcx, IHc by assumption. reflexivity.
    + rewrite Hc. cbn [app]. repeat split; try assumption.
      intros a b Ha Hb. rewrite contribs_cons, IHc by assumption.
      rewrite (contrib_zero dflt a b c); [reflexivity| |];
        eapply filter_nil_memb; eassumption.
Qed.

Lemma sep_filter S x c a b :
  tips x = filter (fun n => memb n S) (tips c) ->
  memb a S = true -> memb b S = true -> sep x a b = sep c a b.
Proof.
  intros Ht Ha Hb. unfold sep. rewrite Ht, !memb_filter by assumption. reflexivity.
Qed.

Lemma gst_inv_all dflt S c : gst_inv dflt S c.
Proof.
  induction c as [n l cs IH] using tree_ind'. intros Hg.
  rewrite gst_unfold. destruct (selected S true (Node n l cs)) eqn:Esel.
  - unfold selected in Esel. cbn [tname negb orb] in Esel.
    apply andb_true_iff in Esel. destruct Esel as [Hn Htip].
    destruct cs as [|c0 cs]; [|discriminate].
    cbn [tips filter]. rewrite Hn. repeat split. exact Hg.
  - destruct cs as [|c0 cs].
    + unfold selected in Esel. cbn in Esel. rewrite andb_true_r in Esel.
      cbn [gst_kids flat_map tips filter]. rewrite Esel. reflexivity.
    + clear Esel. set (cs' := c0 :: cs) in *.
      assert (Hne : cs' <> []) by (subst cs'; congruence).
      unfold good in Hg. cbn [tlen] in Hg. apply andb_true_iff in Hg.
      destruct Hg as [Hl Hp]. destruct l as [lc|]; [|discriminate].
      apply Z.ltb_lt in Hl. rewrite pos_lens_node in Hp.
      destruct (gst_kids_inv dflt S cs' IH Hp) as (Ht & Hgk & Hck).
      rewrite (tips_node n (Some lc) cs' Hne).
      destruct (gst_kids S true cs') as [|x [|y sub]] eqn:Ek.
      * rewrite <- Ht. reflexivity.
      * cbn [forallb] in Hgk. rewrite andb_true_r in Hgk.
        rewrite tips_of_cons in Ht. cbn [tips_of flat_map] in Ht. rewrite app_nil_r in Ht.
        pose proof Hgk as Hgx. unfold good in Hgx. apply andb_true_iff in Hgx.
        destruct Hgx as [Hlx Hpx]. destruct (tlen x) as [lx|] eqn:Elx; [|discriminate].
        apply Z.ltb_lt in Hlx.
        assert (Hm : merge_len (Some lc) (Some lx) = Some (lc + lx)).
        { unfold merge_len. destruct (Z.eqb_spec (lc + lx) 0); [lia|reflexivity]. }
        rewrite Hm. split; [|split].
        -- rewrite tips_rename. exact Ht.
        -- unfold good. cbn [tlen]. rewrite pos_lens_kids. cbn [kids].
           rewrite <- pos_lens_kids, Hpx.
           destruct (Z.ltb_spec 0 (lc + lx)); [reflexivity|lia].
        -- intros a b Ha Hb. rewrite !contrib_node.
           rewrite <- (Hck a b Ha Hb). rewrite contribs_cons. cbn [contribs map zsum fold_right].
           assert (Hs1 : sep (Node (tname x) (Some (lc + lx)) (kids x)) a b = sep x a b).
           { unfold sep. rewrite tips_rename. reflexivity. }
           assert (Hs2 : sep (Node n (Some lc) cs') a b = sep x a b).
           { symmetry. apply (sep_filter S); try assumption.
             all: try (rewrite (tips_node n (Some lc) cs' Hne); exact Ht). }
           rewrite Hs1, Hs2. unfold contrib, edge_w, clen. rewrite Elx. cbn [tlen].
           destruct x as [nx l' kx]. cbn [kids tname]. rewrite !pathlen_node.
           destruct (sep (Node nx l' kx) a b); lia.
      * assert (Hne2 : x :: y :: sub <> []) by congruence.
        split; [|split].
        -- rewrite (tips_node n (Some lc) _ Hne2). exact Ht.
        -- unfold good. cbn [tlen]. rewrite pos_lens_node, Hgk.
           destruct (Z.ltb_spec 0 lc); [reflexivity|lia].
        -- intros a b Ha Hb. rewrite !contrib_node. rewrite (Hck a b Ha Hb).
           assert (Hs : sep (Node n (Some lc) (x :: y :: sub)) a b = sep (Node n (Some lc) cs') a b).
           { apply (sep_filter S); try assumption.
             all: try (rewrite (tips_node n (Some lc) _ Hne2), (tips_node n (Some lc) cs' Hne); exact Ht). }
           rewrite Hs. reflexivity.
Qed.

Lemma gst_inv_Forall dflt S cs : Forall (gst_inv dflt S) cs.
Proof. apply Forall_forall. intros c _. apply gst_inv_all. Qed.

(** general form: when the root is merged into its only surviving child
    ([keep_root = false]) the dropped root-side edges separate the subtree from
    names that are not in the tree at all, so [a] and [b] must be on the same
    side ("both in the tree" in practice) *)
Lemma sub_tree_core_gen dflt t S im kr r a b :
  pos_lens t = true ->
  get_sub_tree_core t S im kr true = Ok r ->
  memb a S = true -> memb b S = true ->
  (kr = true \/ memb a (tips t) = memb b (tips t)) ->
  tips r = filter (fun n => memb n S) (tips t) /\
  pathlen dflt r a b = pathlen dflt t a b /\
  pos_lens r = true.
Proof.
  intros Hp Hg Ha Hb Hside. unfold get_sub_tree_core in Hg.
  destruct (negb im && negb (forallb (fun n => memb n (node_names true t)) S)); [discriminate|].
  destruct (gst_top S true kr t) as [r0|] eqn:Et; [|discriminate].
  destruct (is_tip r0) eqn:Etip; [discriminate|].
  injection Hg as <-. unfold gst_top in Et.
  destruct (selected S true t) eqn:Esel.
  { injection Et as <-. unfold selected in Esel. cbn [negb orb] in Esel.
    apply andb_true_iff in Esel. destruct Esel as [_ Esel]. congruence. }
  clear Esel. destruct t as [n l cs]. cbn [kids tname tlen] in Et.
  destruct cs as [|c0 cs]; [discriminate|].
  set (cs' := c0 :: cs) in *.
  assert (Hne : cs' <> []) by (subst cs'; congruence).
  rewrite pos_lens_node in Hp.
  destruct (gst_kids_inv dflt S cs' (gst_inv_Forall dflt S cs') Hp) as (Ht & Hgk & Hck).
  rewrite (tips_node n l cs' Hne).
  destruct (gst_kids S true cs') as [|x [|y sub]] eqn:Ek; [discriminate| |].
  - rewrite tips_of_cons in Ht. cbn [tips_of flat_map] in Ht. rewrite app_nil_r in Ht.
    destruct kr.
    + injection Et as <-. unfold set_name. cbn [tlen kids].
      split; [|split].
      * cbn [tips flat_map]. rewrite app_nil_r. exact Ht.
      * rewrite !pathlen_node. apply Hck; assumption.
      * rewrite pos_lens_node. exact Hgk.
    + injection Et as <-. unfold set_name. cbn [tlen kids]. cbn [is_tip kids] in Etip.
      destruct x as [nx lx kx]. cbn [kids tname tlen] in *.
      destruct kx as [|k0 kx]; [discriminate|].
      split; [|split].
      * rewrite <- Ht. reflexivity.
      * rewrite !pathlen_node. rewrite <- (Hck a b Ha Hb).
        cbn [contribs map zsum fold_right]. rewrite contrib_node.
        destruct Hside as [Hk|Hside]; [discriminate|].
        rewrite (tips_node n l cs' Hne) in Hside.
        assert (Hs : sep (Node nx lx (k0 :: kx)) a b = false).
        { unfold sep. rewrite Ht, !memb_filter, Hside by assumption. apply xorb_nilpotent. }
        rewrite Hs. lia.
      * cbn [forallb] in Hgk. rewrite andb_true_r in Hgk. unfold good in Hgk.
        apply andb_true_iff in Hgk. destruct Hgk as [_ Hgk].
        rewrite pos_lens_node in *. exact Hgk.
  - assert (Hr : r0 = Node n l (x :: y :: sub)) by (destruct kr; congruence).
    subst r0. unfold set_name. cbn [tlen kids].
    split; [|split].
    + exact Ht.
    + rewrite !pathlen_node. apply Hck; assumption.
    + rewrite pos_lens_node. exact Hgk.
Qed.

(** The statement with only [In a S], [In b S] is false for
    [ignore_missing = true], [keep_root = false]: with
    t = root(X:1(A:1,B:1)), S = [A;B;Z], the result is root(A:1,B:1) and
    pathlen t A Z = 2 but pathlen r A Z = 1.  Hence the two extra hypotheses. *)
Theorem sub_tree_core_preserves : forall dflt t S im kr r a b,
  pos_lens t = true ->
  get_sub_tree_core t S im kr true = Ok r ->
  In a S -> In b S -> In a (tips t) -> In b (tips t) ->
  tips r = filter (fun n => memb n S) (tips t) /\
  pathlen dflt r a b = pathlen dflt t a b /\
  pos_lens r = true.
Proof.
  intros dflt t S im kr r a b Hp Hg Ha Hb Hat Hbt.
  apply memb_In in Ha, Hb, Hat, Hbt.
  eapply sub_tree_core_gen; try eassumption. right. congruence.
Qed.

Theorem sub_tree_core_preserves_keep_root : forall dflt t S im r a b,
  pos_lens t = true ->
  get_sub_tree_core t S im true true = Ok r ->
  In a S -> In b S ->
  tips r = filter (fun n => memb n S) (tips t) /\
  pathlen dflt r a b = pathlen dflt t a b /\
  pos_lens r = true.
Proof.
  intros dflt t S im r a b Hp Hg Ha Hb.
  apply memb_In in Ha, Hb.
  eapply sub_tree_core_gen; try eassumption. left. reflexivity.
Qed.

Theorem sub_tree_core_preserves_strict : forall dflt t S kr r a b,
  pos_lens t = true ->
  get_sub_tree_core t S false kr true = Ok r ->
  In a S -> In b S ->
  tips r = filter (fun n => memb n S) (tips t) /\
  pathlen dflt r a b = pathlen dflt t a b /\
  pos_lens r = true.
Proof.
  intros dflt t S kr r a b Hp Hg Ha Hb.
  assert (Hall : forallb (fun n => memb n (tips t)) S = true).
  { unfold get_sub_tree_core in Hg. cbn [negb andb node_names] in Hg.
    destruct (forallb (fun n => memb n (tips t)) S); [reflexivity|discriminate]. }
  rewrite forallb_forall in Hall.
  pose proof (Hall a Ha) as Hat. pose proof (Hall b Hb) as Hbt.
  apply memb_In in Ha, Hb.
  eapply sub_tree_core_gen; try eassumption. right. congruence.
Qed.
