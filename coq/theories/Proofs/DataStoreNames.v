(** C13 — a syntactic class of well-formed identifiers for the directory store:
    non-empty, no '.', no '/' (with a plain lower-case suffix of the store). *)
From Coq Require Import ZArith List Bool Lia.
From CG3 Require Import Lib.PyZ Lib.Val Lib.Chars Model.DataStore Spec.DataStoreSpec.
From CG3 Require Import Proofs.SqlStoreProofs Proofs.DataStoreProofs.
Import ListNotations.

Definition has_ch (c : Z) (x : str) : bool := existsb (Z.eqb c) x.

Lemma has_ch_false c x : has_ch c x = false -> ~ In c x.
Proof.
  intros H Hin. assert (has_ch c x = true); [|congruence].
  apply existsb_exists. exists c. split; [assumption|apply Z.eqb_refl].
Qed.

Lemma split1_app c p q : ~ In c p -> split1 c (p ++ c :: q) = Some (p, q).
Proof.
  induction p as [|x p IH]; intros H; cbn [app split1].
  - now rewrite Z.eqb_refl.
  - destruct (Z.eqb_spec x c) as [->|Hn]; [exfalso; apply H; now left|].
    rewrite IH; [reflexivity|]. intros Hin. apply H. now right.
Qed.

Lemma rsplit1_last c a b : ~ In c b -> rsplit1 c (a ++ c :: b) = Some (a, b).
Proof.
  intros H. unfold rsplit1.
  assert (E : rev (a ++ c :: b) = rev b ++ c :: rev a).
  { rewrite rev_app_distr. cbn [rev]. rewrite <- (app_assoc (rev b) [c] (rev a)). reflexivity. }
  rewrite E.
  rewrite split1_app; [now rewrite !rev_involutive|]. intros Hin. apply H. now apply in_rev.
Qed.

Lemma app_last_inj (c : Z) (a p b q : str) :
  ~ In c p -> ~ In c q -> a ++ c :: p = b ++ c :: q -> a = b /\ p = q.
Proof.
  intros Hp Hq E. assert (H : rsplit1 c (a ++ c :: p) = rsplit1 c (b ++ c :: q)) by now rewrite E.
  rewrite !rsplit1_last in H by assumption. inversion H. auto.
Qed.

Lemma split_on_none c s : ~ In c s -> split_on c s = [s].
Proof.
  induction s as [|x t IH]; intros H; cbn [split_on]; [reflexivity|].
  rewrite IH; [|intros Hin; apply H; now right].
  destruct (Z.eqb_spec x c) as [->|Hn]; [exfalso; apply H; now left|reflexivity].
Qed.

Lemma split_on_app c a b : ~ In c a -> split_on c (a ++ c :: b) = a :: split_on c b.
Proof.
  induction a as [|x a IH]; intros H; cbn [app split_on].
  - rewrite Z.eqb_refl. destruct (split_on c b) eqn:E; [|reflexivity].
    destruct b; cbn in E; [discriminate|]. destruct (split_on c b); [discriminate|]. destruct (z =? c); discriminate.
  - rewrite IH; [|intros Hin; apply H; now right].
    destruct (Z.eqb_spec x c) as [->|Hn]; [exfalso; apply H; now left|reflexivity].
Qed.

Lemma endswith_In s p c : endswith s p = true -> In c p -> In c s.
Proof. intros H Hin. destruct (endswith_split _ _ H) as [a ->]. apply in_app_iff. now right. Qed.

Lemma endswith_last c x p q :
  ~ In c p -> ~ In c q -> endswith (x ++ c :: p) (c :: q) = str_eqb p q.
Proof.
  intros Hp Hq. destruct (str_eqb_spec p q) as [->|Hn].
  - apply endswith_app.
  - destruct (endswith (x ++ c :: p) (c :: q)) eqn:E; [|reflexivity].
    destruct (endswith_split _ _ E) as [a Ea]. apply app_last_inj in Ea; [|assumption|assumption]. tauto.
Qed.

Lemma replace_go_nomatch c p new s : ~ In c s -> replace_go (c :: p) new O s = s.
Proof.
  induction s as [|x t IH]; intros H; cbn [replace_go]; [reflexivity|].
  cbn [startswith]. destruct (Z.eqb_spec x c) as [->|Hn]; [exfalso; apply H; now left|]. cbn [andb].
  rewrite IH; [reflexivity|]. intros Hin. apply H. now right.
Qed.

Lemma replace_go_skip old new t : replace_go old new (length t) t = [].
Proof. induction t; cbn; auto. Qed.

Lemma replace_go_tail c p s : ~ In c s -> replace_go (c :: p) [] O (s ++ c :: p) = s.
Proof.
  induction s as [|x t IH]; intros H; cbn [app].
  - assert (S : startswith (c :: p) (c :: p) = true).
    { rewrite <- (app_nil_r (c :: p)) at 1. apply startswith_app. }
    cbn [replace_go]. rewrite S. cbn [length pred app]. apply replace_go_skip.
  - cbn [replace_go startswith]. destruct (Z.eqb_spec x c) as [->|Hn]; [exfalso; apply H; now left|]. cbn [andb].
    rewrite IH; [reflexivity|]. intros Hin. apply H. now right.
Qed.

Lemma firstn_app_len {A} (a b : list A) : firstn (length (a ++ b) - length b) (a ++ b) = a.
Proof.
  rewrite app_length. replace (length a + length b - length b)%nat with (length a) by lia.
  rewrite firstn_app, Nat.sub_diag, firstn_all. cbn. apply app_nil_r.
Qed.

(** ------------------------------------------------------------------ plain strings *)

Definition plain_str (x : str) : bool := nonempty x && negb (has_ch ch_dot x) && negb (has_ch ch_slash x).

Definition plain_sfx (sfx : str) : bool :=
  plain_str sfx && str_eqb (ascii_lower sfx) sfx && negb (is_compression sfx) && negb (str_eqb sfx s_log).

Record plain_facts (x : str) : Prop := {
  pl_ne : x <> [];
  pl_dot : ~ In ch_dot x;
  pl_slash : ~ In ch_slash x }.

Lemma plain_unpack x : plain_str x = true -> plain_facts x.
Proof.
  unfold plain_str. intros H. apply andb_true_iff in H. destruct H as [H H3].
  apply andb_true_iff in H. destruct H as [H1 H2]. apply negb_true_iff in H2, H3.
  constructor; [intros ->; discriminate|now apply has_ch_false|now apply has_ch_false].
Qed.

Lemma plain_json : plain_facts s_json.
Proof. apply plain_unpack. reflexivity. Qed.

Lemma no_slash_dotted x suf : plain_facts x -> plain_facts suf -> ~ In ch_slash (x ++ ch_dot :: suf).
Proof.
  intros Hx Hs Hin. apply in_app_iff in Hin. destruct Hin as [Hin|[E|Hin]].
  - now apply (pl_slash _ Hx).
  - discriminate.
  - now apply (pl_slash _ Hs).
Qed.

Lemma path_name_plain x : ~ In ch_slash x -> path_name x = x.
Proof. intros H. unfold path_name. now rewrite rsplit1_none. Qed.

Lemma gfs_plain x : plain_facts x -> get_format_suffixes x = (None, None).
Proof.
  intros Hx. unfold get_format_suffixes. rewrite (path_name_plain x (pl_slash _ Hx)).
  unfold path_suffix. now rewrite (rsplit1_none _ _ (pl_dot _ Hx)).
Qed.

Lemma lstrip_plain x t : plain_facts x -> lstrip_ch ch_dot (x ++ t) = x ++ t.
Proof.
  intros Hx. destruct x as [|c x]; [exfalso; now apply (pl_ne _ Hx)|]. cbn [app lstrip_ch].
  destruct (Z.eqb_spec c ch_dot) as [->|]; [|reflexivity]. exfalso. apply (pl_dot _ Hx). now left.
Qed.

Lemma gfs_dotted x suf :
  plain_facts x -> plain_facts suf -> ascii_lower suf = suf -> is_compression suf = false ->
  get_format_suffixes (x ++ ch_dot :: suf) = (Some suf, None).
Proof.
  intros Hx Hs Hl Hc. unfold get_format_suffixes.
  rewrite (path_name_plain _ (no_slash_dotted x suf Hx Hs)).
  unfold path_suffix. rewrite (rsplit1_last _ x suf (pl_dot _ Hs)).
  destruct x as [|c0 x0] eqn:Ex; [exfalso; now apply (pl_ne _ Hx)|]. rewrite <- Ex in *.
  destruct suf as [|s0 suf0] eqn:Es; [exfalso; now apply (pl_ne _ Hs)|]. rewrite <- Es in *.
  assert (Hsuf : path_suffixes (x ++ ch_dot :: suf) = [ch_dot :: suf]).
  { unfold path_suffixes.
    assert (E : endswith (x ++ ch_dot :: suf) [ch_dot] = false).
    { rewrite (endswith_last ch_dot x suf []); [subst suf; reflexivity|apply (pl_dot _ Hs)|intros []]. }
    rewrite E. rewrite (lstrip_plain x _ Hx). rewrite (split_on_app _ x suf (pl_dot _ Hx)).
    rewrite (split_on_none _ suf (pl_dot _ Hs)). reflexivity. }
  rewrite Hsuf. cbn [last_n length Nat.sub skipn map wout_period].
  replace (ch_dot =? ch_dot) with true by reflexivity. rewrite Hl. cbn [rev app]. now rewrite Hc.
Qed.

Lemma path_stem_plain x : ~ In ch_dot x -> path_stem x = x.
Proof. intros H. unfold path_stem. now rewrite rsplit1_none. Qed.

Lemma path_stem_dotted x suf : plain_facts x -> plain_facts suf -> path_stem (x ++ ch_dot :: suf) = x.
Proof.
  intros Hx Hs. unfold path_stem. rewrite (rsplit1_last _ x suf (pl_dot _ Hs)).
  destruct x; [exfalso; now apply (pl_ne _ Hx)|]. destruct suf; [exfalso; now apply (pl_ne _ Hs)|]. reflexivity.
Qed.

Lemma replace_comp_dotted x suf old new :
  plain_facts x -> plain_facts suf ->
  replace_comp (x ++ ch_dot :: suf) old new = x ++ ch_dot :: (if str_eqb suf old then new else suf).
Proof.
  intros Hx Hs. unfold replace_comp. rewrite (split_on_app _ x suf (pl_dot _ Hx)).
  rewrite (split_on_none _ suf (pl_dot _ Hs)). cbn [map join_dot]. reflexivity.
Qed.

Section Names.
Variable sfx : str.
Hypothesis Hsfx : plain_sfx sfx = true.

Lemma sfx_facts : plain_facts sfx /\ ascii_lower sfx = sfx /\ is_compression sfx = false /\ str_eqb sfx s_log = false.
Proof.
  unfold plain_sfx in Hsfx. apply andb_true_iff in Hsfx. destruct Hsfx as [H H4].
  apply andb_true_iff in H. destruct H as [H H3]. apply andb_true_iff in H. destruct H as [H1 H2].
  apply str_eqb_eq in H2. apply negb_true_iff in H3, H4. split; [now apply plain_unpack|auto].
Qed.

Lemma plain_sfx_wf : wf_sfx sfx = true.
Proof.
  destruct sfx_facts as [Hs [_ [_ Hl]]]. unfold wf_sfx. rewrite Hl.
  destruct sfx; [exfalso; now apply (pl_ne _ Hs)|reflexivity].
Qed.

(** [_write]'s file name for a plain identifier, for the store's suffix and for "json" *)
Lemma write_name_plain x suffix :
  plain_facts x -> plain_facts suffix -> ascii_lower suffix = suffix -> is_compression suffix = false ->
  write_name repaired sfx suffix x = (x ++ ch_dot :: suffix, None).
Proof.
  intros Hx Hs Hl Hc. unfold write_name. rewrite (gfs_plain x Hx). cbn [opt_str_eqb].
  rewrite (path_name_plain x (pl_slash _ Hx)), (path_stem_plain x (pl_dot _ Hx)).
  rewrite (gfs_dotted x suffix Hx Hs Hl Hc). cbn [snd].
  destruct (nonempty sfx && negb (str_eqb sfx suffix)) eqn:E; [|reflexivity].
  unfold subst_suffix. cbn [v_sfx repaired]. rewrite (replace_comp_dotted x suffix sfx suffix Hx Hs).
  destruct (str_eqb suffix sfx); reflexivity.
Qed.

Lemma write_name_suffixed x suffix :
  plain_facts x -> plain_facts suffix -> ascii_lower suffix = suffix -> is_compression suffix = false ->
  write_name repaired sfx suffix (x ++ ch_dot :: sfx) = (x ++ ch_dot :: suffix, None).
Proof.
  intros Hx Hs Hl Hc. destruct sfx_facts as [Hf [Hfl [Hfc _]]].
  unfold write_name. rewrite (gfs_dotted x sfx Hx Hf Hfl Hfc). cbn [opt_str_eqb].
  destruct (str_eqb_spec sfx suffix) as [<-|Hne].
  - rewrite andb_false_r. reflexivity.
  - rewrite (path_name_plain _ (no_slash_dotted x sfx Hx Hf)), (path_stem_dotted x sfx Hx Hf).
    rewrite (gfs_dotted x suffix Hx Hs Hl Hc). cbn [snd].
    destruct (nonempty sfx && negb false) eqn:E; [|reflexivity].
    unfold subst_suffix. cbn [v_sfx repaired]. rewrite (replace_comp_dotted x suffix sfx suffix Hx Hs).
    destruct (str_eqb suffix sfx); reflexivity.
Qed.

Lemma md5_name_plain x suffix :
  plain_facts x -> plain_facts suffix ->
  md5_write_name repaired suffix (x ++ ch_dot :: suffix) = x ++ s_dot_txt.
Proof.
  intros Hx Hs. unfold md5_write_name, subst_suffix. cbn [v_sfx repaired].
  rewrite (replace_comp_dotted x suffix suffix s_txt Hx Hs). now rewrite str_eqb_refl.
Qed.

Lemma wf_name_plain x : plain_facts x -> wf_name sfx x = true.
Proof.
  intros Hx. destruct sfx_facts as [Hf [Hfl [Hfc Hlog]]]. pose proof plain_json as Hj.
  assert (Hns : ~ In ch_slash (nfile x)) by (unfold nfile; apply (no_slash_dotted x s_json Hx Hj)).
  assert (E3 : path_name (nmem x) = nfile x).
  { unfold path_name, nmem.
    change (s_nc_prefix ++ nfile x) with ([110;111;116;95;99;111;109;112;108;101;116;101;100] ++ ch_slash :: nfile x).
    now rewrite (rsplit1_last _ _ _ Hns). }
  assert (E4 : path_stem (nfile x) = x) by (apply (path_stem_dotted x s_json Hx Hj)).
  assert (E5 : md5_lookup_name sfx (cfile sfx x) = mfile x).
  { unfold md5_lookup_name, cfile. rewrite (path_name_plain _ (no_slash_dotted x sfx Hx Hf)).
    rewrite endswith_app. change (S (length sfx)) with (length (ch_dot :: sfx)). now rewrite firstn_app_len. }
  assert (E6 : md5_lookup_name sfx (nmem x) = mfile x).
  { unfold md5_lookup_name. rewrite E3. unfold nfile, s_dot_json.
    rewrite (endswith_last ch_dot x s_json sfx (pl_dot _ Hj) (pl_dot _ Hf)).
    destruct (str_eqb_spec s_json sfx) as [<-|Hne].
    - change (S (length s_json)) with (length (ch_dot :: s_json)). now rewrite firstn_app_len.
    - rewrite endswith_app. change 5%nat with (length (ch_dot :: s_json)). now rewrite firstn_app_len. }
  assert (E7 : forall p, In ch_slash p -> startswith (cfile sfx x) p = false).
  { intros p Hp. destruct (startswith (cfile sfx x) p) eqn:E; [|reflexivity]. exfalso.
    apply (no_slash_dotted x sfx Hx Hf). apply (startswith_In _ p ch_slash E Hp). }
  unfold wf_name. unfold cfile at 1. rewrite (md5_name_plain x sfx Hx Hf).
  unfold nfile at 1. unfold s_dot_json. rewrite (md5_name_plain x s_json Hx Hj).
  rewrite E3, E4, E5, E6. rewrite (E7 s_nc_prefix), (E7 s_logs_prefix); [|cbn; tauto|cbn; tauto].
  unfold mfile. now rewrite !str_eqb_refl.
Qed.

Lemma no_dot_endswith x p : ~ In ch_dot x -> endswith x (ch_dot :: p) = false.
Proof.
  intros H. destruct (endswith x (ch_dot :: p)) eqn:E; [|reflexivity]. exfalso. apply H.
  apply (endswith_In _ _ ch_dot E). now left.
Qed.

(** a plain identifier is well-formed *)
Lemma wf_id_plain x : plain_str x = true -> wf_id sfx x = true.
Proof.
  intros Hp. pose proof (plain_unpack x Hp) as Hx. destruct sfx_facts as [Hf [Hfl [Hfc Hlog]]]. pose proof plain_json as Hj.
  assert (Elid : dir_lid sfx x = x).
  { unfold dir_lid. now rewrite (no_dot_endswith x sfx (pl_dot _ Hx)). }
  unfold wf_id. rewrite Elid. rewrite (wf_name_plain x Hx).
  rewrite (write_name_plain x sfx Hx Hf Hfl Hfc).
  rewrite (write_name_plain x s_json Hx Hj eq_refl eq_refl).
  assert (Ed : drop_pattern sfx x = nfile x).
  { unfold drop_pattern, replace_all. rewrite (replace_go_nomatch _ _ _ _ (pl_dot _ Hx)).
    destruct x; [exfalso; now apply (pl_ne _ Hx)|reflexivity]. }
  assert (Ek : contains_key repaired sfx x = cfile sfx x).
  { unfold contains_key, special_suffix, s_dot_log, s_dot_json. cbn [v_sfx repaired].
    now rewrite !(no_dot_endswith x _ (pl_dot _ Hx)). }
  rewrite Ed, Ek. unfold cfile, nfile, s_dot_json. now rewrite !str_eqb_refl.
Qed.

(** ... and so is a plain identifier followed by the format suffix of the store *)
Lemma wf_id_suffixed x : plain_str x = true -> wf_id sfx (x ++ ch_dot :: sfx) = true.
Proof.
  intros Hp. pose proof (plain_unpack x Hp) as Hx. destruct sfx_facts as [Hf [Hfl [Hfc Hlog]]]. pose proof plain_json as Hj.
  assert (Elid : dir_lid sfx (x ++ ch_dot :: sfx) = x).
  { unfold dir_lid. rewrite endswith_app. change (S (length sfx)) with (length (ch_dot :: sfx)).
    rewrite firstn_app_len. rewrite app_length.
    replace (length x + length (ch_dot :: sfx) - length (ch_dot :: sfx))%nat with (length x) by lia.
    destruct x; [exfalso; now apply (pl_ne _ Hx)|reflexivity]. }
  unfold wf_id. rewrite Elid. rewrite (wf_name_plain x Hx).
  rewrite (write_name_suffixed x sfx Hx Hf Hfl Hfc).
  rewrite (write_name_suffixed x s_json Hx Hj eq_refl eq_refl).
  assert (Ed : drop_pattern sfx (x ++ ch_dot :: sfx) = nfile x).
  { unfold drop_pattern, replace_all. rewrite (replace_go_tail _ _ _ (pl_dot _ Hx)).
    destruct x; [exfalso; now apply (pl_ne _ Hx)|reflexivity]. }
  assert (Ek : contains_key repaired sfx (x ++ ch_dot :: sfx) = cfile sfx x).
  { unfold contains_key, special_suffix, s_dot_log, s_dot_json. cbn [v_sfx repaired].
    rewrite endswith_app. destruct (_ || _); reflexivity. }
  rewrite Ed, Ek. unfold cfile, nfile, s_dot_json. now rewrite !str_eqb_refl.
Qed.

End Names.

(** identifiers "with and without format suffixes": a plain name, optionally followed by ".<suffix>" *)
Definition plain_did (sfx id : str) : bool :=
  plain_str id ||
  (endswith id (ch_dot :: sfx) && plain_str (firstn (length id - S (length sfx)) id)).

Definition plain_dir_op (sfx : str) (o : op) : bool :=
  match o with
  | OWrite id _ | OWriteNC id _ | ODrop id => plain_did sfx id
  | _ => true
  end.

Lemma plain_did_wf sfx id : plain_sfx sfx = true -> plain_did sfx id = true -> wf_id sfx id = true.
Proof.
  intros Hs H. unfold plain_did in H. apply orb_true_iff in H. destruct H as [H|H].
  - now apply wf_id_plain.
  - apply andb_true_iff in H. destruct H as [He Hp]. destruct (endswith_split _ _ He) as [a ->].
    change (S (length sfx)) with (length (ch_dot :: sfx)) in Hp. rewrite firstn_app_len in Hp.
    now apply wf_id_suffixed.
Qed.

Theorem dir_refines_dict_plain sfx m ops :
  plain_sfx sfx = true -> forallb (plain_dir_op sfx) ops = true ->
  no_nc_over_completed dir_policy (d_new m) (map (dir_aop sfx) ops) = true ->
  dir_obs_match sfx (ds_run (ds_new sfx m) ops) (sp_run dir_policy (d_new m) (map (dir_aop sfx) ops)).
Proof.
  intros Hs Hops Hok. apply dir_refines_dict_all; [now apply plain_sfx_wf| |assumption].
  apply forallb_forall. intros o Ho. rewrite forallb_forall in Hops. specialize (Hops o Ho).
  destruct o; cbn [plain_dir_op dir_wf_op] in *; try reflexivity; now apply plain_did_wf.
Qed.

Example plain_example :
  plain_sfx s_fasta = true /\
  forallb (plain_did s_fasta) [[97]; [98;97]; [97;98]; [97;46;102;97;115;116;97]; [102;97;115;116;97;95;97];
                               [102;97;115;116;97]; [83;69;81;45;49]] = true.
Proof. split; reflexivity. Qed.
