(** C08 — corollaries in the literal form of the property: an operation on
    the map built from a gapped string gives THE map built from the
    correspondingly transformed string ([from_mask] is injective on strings and
    onto the well-formed maps: [abs_from_mask], [from_mask_abs]). *)
From CG3 Require Import Lib.PyZ Lib.Val Model.IndelMap Spec.IndelMapSpec.
From CG3 Require Import Proofs.IndelMapProofs Proofs.IndelMapOps Proofs.IndelMapSlice.

Local Open Scope Z_scope.

Lemma slice_from_mask (k : list bool) (a b : Z) :
  0 <= a -> a <= b -> b <= zlen k ->
  getitem_slice (from_mask k) (Some a) (Some b) = Ok (from_mask (msub k a b)).
Proof.
  intros Ha Hab Hb. pose proof (wf_from_mask k) as Hwf.
  assert (Hl : len (from_mask k) = zlen k) by (rewrite len_spec by auto; now rewrite abs_from_mask).
  destruct (slice_spec (from_mask k) a b Hwf Ha Hab ltac:(lia)) as (m' & E & Hwf' & Habs).
  rewrite E. f_equal. rewrite abs_from_mask in Habs. rewrite <- Habs. symmetry. now apply from_mask_abs.
Qed.

Lemma mul_from_mask (k : list bool) (s : Z) :
  1 <= s -> mul (from_mask k) s = Ok (from_mask (stretch s k)).
Proof.
  intros Hs. destruct (mul_spec (from_mask k) s (wf_from_mask k) Hs) as (m' & E & Hwf' & Habs).
  rewrite E. f_equal. rewrite abs_from_mask in Habs. rewrite <- Habs. symmetry. now apply from_mask_abs.
Qed.

Lemma nrev_from_mask (k : list bool) :
  nucleic_reversed (from_mask k) = Ok (from_mask (rev k)).
Proof.
  destruct (nrev_spec (from_mask k) (wf_from_mask k)) as (m' & E & Hwf' & Habs).
  rewrite E. f_equal. rewrite abs_from_mask in Habs. rewrite <- Habs. symmetry. now apply from_mask_abs.
Qed.

Lemma add_from_mask (k1 k2 : list bool) :
  ~ (ends_in_gap k1 /\ starts_with_gap k2) ->
  add (from_mask k1) (from_mask k2) = Ok (from_mask (k1 ++ k2)).
Proof.
  intros Hg. destruct (add_spec (from_mask k1) (from_mask k2) (wf_from_mask k1) (wf_from_mask k2)) as (m' & E & Hwf' & Habs).
  { now rewrite !abs_from_mask. }
  rewrite E. f_equal. rewrite !abs_from_mask in Habs. rewrite <- Habs. symmetry. now apply from_mask_abs.
Qed.

Lemma seq_index_from_mask (k : list bool) (i : Z) :
  0 <= i <= zlen k -> get_seq_index (from_mask k) i = Ok (residues (firstn (Z.to_nat i) k)).
Proof.
  intros Hi. pose proof (wf_from_mask k) as Hwf.
  assert (Hl : len (from_mask k) = zlen k) by (rewrite len_spec by auto; now rewrite abs_from_mask).
  rewrite (get_seq_index_spec (from_mask k) Hwf i) by lia. now rewrite abs_from_mask.
Qed.

Lemma len_from_mask (k : list bool) : len (from_mask k) = zlen k.
Proof. rewrite len_spec by apply wf_from_mask. now rewrite abs_from_mask. Qed.

Lemma spans_from_mask (k : list bool) : spans_mask (from_mask k) = k.
Proof. rewrite spans_mask_spec by apply wf_from_mask. apply abs_from_mask. Qed.

(** the concatenation that IS wrong: both maps well-formed, the result has a
    duplicated gap position and its [spans] spell one gap character too many *)
Lemma add_abutting_gaps_witness :
  exists k1 k2 m', ends_in_gap k1 /\ starts_with_gap k2 /\
    add (from_mask k1) (from_mask k2) = Ok m' /\ m' <> from_mask (k1 ++ k2) /\ ~ WF m' /\
    spans_mask m' <> k1 ++ k2.
Proof.
  exists [false], [false], (mk_imap [0; 0] [1; 2] 0).
  split; [exists []; reflexivity|]. split; [exists []; reflexivity|].
  split; [reflexivity|]. split; [vm_compute; congruence|]. split.
  - intros (_ & H). cbn in H. lia.
  - vm_compute. congruence.
Qed.

(** [make_seq_feature_map]: every alignment span [s, e) goes to the span of the residues its columns hold,
    i.e. [residues before s, residues before e) — also when s or e lies inside a gap run or in a trailing gap *)
Lemma make_seq_coords_spec m spans : WF m ->
  Forall (fun se : Z * Z => 0 <= fst se <= len m /\ 0 <= snd se <= len m) spans ->
  make_seq_coords m spans =
  Ok (map (fun se : Z * Z => (residues (firstn (Z.to_nat (fst se)) (abs m)), residues (firstn (Z.to_nat (snd se)) (abs m)))) spans).
Proof.
  intros Hwf. induction spans as [|(s, e) t IH]; intros HF; [reflexivity|].
  inversion HF as [|? ? (Hs & He) Ht]; subst. cbn [fst snd] in Hs, He.
  cbn [make_seq_coords map fst snd]. rewrite (get_seq_index_spec m Hwf s) by lia.
  rewrite (get_seq_index_spec m Hwf e) by lia. cbn [bind]. rewrite (IH Ht). reflexivity.
Qed.

(** the image never leaves the sequence: 0 <= start <= end <= parent_length *)
Lemma residues_app x y : residues (x ++ y) = residues x + residues y.
Proof. induction x as [|[|] x IHx]; cbn [app residues]; rewrite ?IHx; lia. Qed.

Lemma firstn_plus {A} (l : list A) : forall a b, firstn (a + b) l = firstn a l ++ firstn b (skipn a l).
Proof.
  induction l as [|x l IH]; intros a b.
  - now rewrite !firstn_nil, skipn_nil, firstn_nil.
  - destruct a; [reflexivity|]. cbn [Nat.add firstn skipn app]. now rewrite IH.
Qed.

Lemma residues_firstn_mono (k : list bool) a b : 0 <= a -> a <= b ->
  residues (firstn (Z.to_nat a) k) <= residues (firstn (Z.to_nat b) k).
Proof.
  intros Ha Hab. replace (Z.to_nat b) with (Z.to_nat a + Z.to_nat (b - a))%nat by lia.
  rewrite firstn_plus, residues_app.
  pose proof (residues_nonneg (firstn (Z.to_nat (b - a)) (skipn (Z.to_nat a) k))). lia.
Qed.

Lemma residues_count_true k : residues k = count_true k.
Proof. induction k as [|[|] k IH]; cbn [residues count_true]; lia. Qed.

Lemma seq_span_bounds m s e : WF m -> 0 <= s -> s <= e -> e <= len m ->
  0 <= residues (firstn (Z.to_nat s) (abs m)) <= residues (firstn (Z.to_nat e) (abs m)) /\
  residues (firstn (Z.to_nat e) (abs m)) <= parent_length m.
Proof.
  intros Hwf Hs Hse He.
  pose proof (residues_nonneg (firstn (Z.to_nat s) (abs m))) as N0.
  split; [split; [exact N0|apply residues_firstn_mono; lia]|].
  assert (Hall : residues (firstn (Z.to_nat (len m)) (abs m)) = parent_length m).
  { rewrite firstn_all2 by (pose proof (zlen_abs m Hwf); unfold zlen in *; lia).
    rewrite residues_count_true. pose proof (from_mask_abs m Hwf) as Fm.
    rewrite <- Fm at 2. reflexivity. }
  rewrite <- Hall. apply residues_firstn_mono; lia.
Qed.
