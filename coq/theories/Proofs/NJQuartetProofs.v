(** C15 — NJ on quartets: the score criterion selects a cherry for EVERY additive quartet, hence nj is exact for n = 4 without any hypothesis on the run. *)
From Coq Require Import QArith Qminmax List Bool Arith ZArith Lia Lqa Permutation.
From CG3 Require Import Model.NJ Spec.DistSpec Proofs.NJProofs Proofs.NJRunProofs Proofs.NJCompleteProofs Proofs.UPGMAProofs.
Import ListNotations.
Open Scope Q_scope.

Lemma score4 d k l :
  score_matrix (star_tree 4 d) k l ==
  (1#2) * d k l - (1#4) * (colsum 4 d k + colsum 4 d l) + (1#4) * qsum (map (colsum 4 d) (seq 0 4)).
Proof.
  unfold score_matrix. cbn [star_tree pt_L pt_d pt_score]. change (ofnat 4 - 2) with (2#1). field.
Qed.

Section Quartet.
  Variables (d : qmat) (x y z w : nat) (ax ay az aw e : Q).
  Hypothesis Hx : (x < 4)%nat. Hypothesis Hy : (y < 4)%nat. Hypothesis Hz : (z < 4)%nat. Hypothesis Hw : (w < 4)%nat.
  Hypothesis Dxy : x <> y. Hypothesis Dxz : x <> z. Hypothesis Dxw : x <> w.
  Hypothesis Dyz : y <> z. Hypothesis Dyw : y <> w. Hypothesis Dzw : z <> w.
  Hypothesis Pax : 0 < ax. Hypothesis Pay : 0 < ay. Hypothesis Paz : 0 < az. Hypothesis Paw : 0 < aw. Hypothesis Pe : 0 < e.
  Hypothesis Hsym : forall k l, (k < 4)%nat -> (l < 4)%nat -> d k l == d l k.
  Hypothesis Hdiag : forall k, (k < 4)%nat -> d k k == 0.
  Hypothesis Hxy : d x y == ax + ay.
  Hypothesis Hzw : d z w == az + aw.
  Hypothesis Hxz : d x z == ax + e + az.
  Hypothesis Hxw : d x w == ax + e + aw.
  Hypothesis Hyz : d y z == ay + e + az.
  Hypothesis Hyw : d y w == ay + e + aw.

  (** the score of a non-cherry pair exceeds that of the cherry (x, y) *)
  Lemma quartet_scores k l : (k < 4)%nat -> (l < 4)%nat -> k <> l ->
    score_matrix (star_tree 4 d) k l <= score_matrix (star_tree 4 d) x y ->
    (k = x /\ l = y) \/ (k = y /\ l = x) \/ (k = z /\ l = w) \/ (k = w /\ l = z).
  Proof.
    intros Hk Hl Hkl Hle. rewrite !score4 in Hle. unfold colsum in Hle. cbn [seq map qsum fold_right] in Hle.
    pose proof (Hsym x y Hx Hy). pose proof (Hsym z w Hz Hw). pose proof (Hsym x z Hx Hz). pose proof (Hsym x w Hx Hw).
    pose proof (Hsym y z Hy Hz). pose proof (Hsym y w Hy Hw).
    pose proof (Hdiag x Hx). pose proof (Hdiag y Hy). pose proof (Hdiag z Hz). pose proof (Hdiag w Hw).
    destruct x as [|[|[|[|?]]]]; try lia; destruct y as [|[|[|[|?]]]]; try lia; destruct z as [|[|[|[|?]]]]; try lia;
    destruct w as [|[|[|[|?]]]]; try lia;
    destruct k as [|[|[|[|?]]]]; try lia; destruct l as [|[|[|[|?]]]]; try lia; try tauto; exfalso; lra.
  Qed.
End Quartet.

Lemma in_offdiag_pairs L k l : In (k, l) (offdiag_pairs L) <-> (k < L)%nat /\ (l < L)%nat /\ k <> l.
Proof.
  unfold offdiag_pairs. rewrite in_flat_map. split.
  - intros (i & Hi & H). apply in_flat_map in H. destruct H as (j & Hj & H).
    destruct (Nat.eqb_spec i j); [destruct H|]. destruct H as [E|[]]. injection E as <- <-.
    apply in_seq in Hi. apply in_seq in Hj. lia.
  - intros (Hk & Hl & Hkl). exists k. split; [apply in_seq; lia|]. apply in_flat_map. exists l. split; [apply in_seq; lia|].
    destruct (Nat.eqb_spec k l); [contradiction|]. left. reflexivity.
Qed.

Lemma best_pair_spec t : (2 <= pt_L t)%nat ->
  let r := best_pair t in
  (fst r < pt_L t)%nat /\ (snd r < pt_L t)%nat /\ fst r <> snd r /\
  forall k l, (k < pt_L t)%nat -> (l < pt_L t)%nat -> k <> l ->
    score_matrix t (fst r) (snd r) <= score_matrix t k l.
Proof.
  intros HL. unfold best_pair.
  destruct (argmin_pairs_spec (score_matrix t) (offdiag_pairs (pt_L t)) (0, 1)%nat) as (H1 & _ & H3).
  set (r := argmin_pairs (score_matrix t) (offdiag_pairs (pt_L t)) (0%nat, 1%nat)) in *. cbv zeta.
  assert (Hin : In r (offdiag_pairs (pt_L t))).
  { destruct H1 as [->|H1]; [apply in_offdiag_pairs; lia|exact H1]. }
  destruct r as [a b]. apply in_offdiag_pairs in Hin. cbn [fst snd] in *.
  repeat split; try lia. intros k l Hk Hl Hkl. apply (H3 (k, l)). apply in_offdiag_pairs. lia.
Qed.

(** the quartet with cherries {x, y} and {z, w}: joining (x, y) is a good run *)
Lemma quartet_good_xy : forall (d : qmat) (x y z w : nat) (ax ay az aw e : Q),
  (x < 4)%nat -> (y < 4)%nat -> (z < 4)%nat -> (w < 4)%nat ->
  x <> y -> x <> z -> x <> w -> y <> z -> y <> w -> z <> w ->
  0 < ax -> 0 < ay -> 0 < az -> 0 < aw -> 0 < e ->
  (forall k l, (k < 4)%nat -> (l < 4)%nat -> d k l == d l k) ->
  (forall k, (k < 4)%nat -> d k k == 0) ->
  d x y == ax + ay -> d z w == az + aw ->
  d x z == ax + e + az -> d x w == ax + e + aw -> d y z == ay + e + az -> d y w == ay + e + aw ->
  best_pair (star_tree 4 d) = (x, y) -> good_run (star_tree 4 d).
Proof.
  intros d x y z w ax ay az aw e Hx Hy Hz Hw Dxy Dxz Dxw Dyz Dyw Dzw Pax Pay Paz Paw Pe Hsym Hdiag Hxy Hzw Hxz Hxw Hyz Hyw Eb.
  set (D := fun k : nat => if Nat.eqb k z then e + az else if Nat.eqb k w then e + aw else 0).
  assert (Hch : cherry_at 4 d x y ax ay D).
  { constructor; try assumption.
    - rewrite (Hsym y x Hy Hx). exact Hxy.
    - intros k Hk Hkx Hky. assert (k = z \/ k = w) as [-> | ->] by lia; unfold D.
      + rewrite Nat.eqb_refl. rewrite (Hsym z x Hz Hx), (Hsym z y Hz Hy), Hxz, Hyz. repeat split; ring.
      + destruct (Nat.eqb_spec w z); [congruence|]. rewrite Nat.eqb_refl.
        rewrite (Hsym w x Hw Hx), (Hsym w y Hw Hy), Hxw, Hyw. repeat split; ring. }
  destruct (join_exact (star_tree 4 d) x y ax ay D ltac:(cbn; lia) Hch (Qlt_le_weak _ _ Pax) (Qlt_le_weak _ _ Pay)) as (la & lb & Hla & Hlb & Ej).
  eapply (good_step _ _ ax ay D); try assumption.
  - cbn. lia.
  - rewrite Eb. exact Hch.
  - rewrite Eb. exact Ej.
  - apply good_final; [reflexivity|]. cbn [pt_d pt_L star_tree].
    pose proof (Hsym x y Hx Hy). pose proof (Hsym z w Hz Hw). pose proof (Hsym x z Hx Hz). pose proof (Hsym x w Hx Hw).
    pose proof (Hsym y z Hy Hz). pose proof (Hsym y w Hy Hw).
    pose proof (Hdiag x Hx). pose proof (Hdiag y Hy). pose proof (Hdiag z Hz). pose proof (Hdiag w Hw).
    clear Hch Ej Eb D Hsym Hdiag.
    unfold final_lengths, matsum, colsum, join_matrix, upd_col, upd_row, upd_cell.
    destruct x as [|[|[|[|?]]]]; try lia; destruct y as [|[|[|[|?]]]]; try lia; destruct z as [|[|[|[|?]]]]; try lia;
    destruct w as [|[|[|[|?]]]]; try lia;
    cbn [seq map qsum fold_right Nat.eqb andb Nat.sub]; unfold Qdiv; change (/ 4) with (1 # 4);
    (apply Forall_cons; [lra|]); (apply Forall_cons; [lra|]); (apply Forall_cons; [lra|]); apply Forall_nil.
Qed.

(** UNCONDITIONAL consistency for quartets: for every labelled quartet ((x,y),(z,w)) with positive
    branch lengths the score criterion selects a cherry (in whichever orientation / tie order),
    so the run is good *)
Theorem quartet_good_run : forall (d : qmat) (x y z w : nat) (ax ay az aw e : Q),
  (x < 4)%nat -> (y < 4)%nat -> (z < 4)%nat -> (w < 4)%nat ->
  x <> y -> x <> z -> x <> w -> y <> z -> y <> w -> z <> w ->
  0 < ax -> 0 < ay -> 0 < az -> 0 < aw -> 0 < e ->
  (forall k l, (k < 4)%nat -> (l < 4)%nat -> d k l == d l k) ->
  (forall k, (k < 4)%nat -> d k k == 0) ->
  d x y == ax + ay -> d z w == az + aw ->
  d x z == ax + e + az -> d x w == ax + e + aw -> d y z == ay + e + az -> d y w == ay + e + aw ->
  good_run (star_tree 4 d).
Proof.
  intros d x y z w ax ay az aw e Hx Hy Hz Hw Dxy Dxz Dxw Dyz Dyw Dzw Pax Pay Paz Paw Pe Hsym Hdiag Hxy Hzw Hxz Hxw Hyz Hyw.
  destruct (best_pair_spec (star_tree 4 d) ltac:(cbn; lia)) as (Hk & Hl & Hkl & Hmin).
  destruct (best_pair (star_tree 4 d)) as [k l] eqn:Eb. cbn [fst snd star_tree pt_L] in Hk, Hl, Hkl, Hmin.
  pose proof (Hmin x y Hx Hy Dxy) as Hle.
  assert (Hc : (k = x /\ l = y) \/ (k = y /\ l = x) \/ (k = z /\ l = w) \/ (k = w /\ l = z)).
  { eapply (quartet_scores d x y z w ax ay az aw e); eassumption. }
  destruct Hc as [[-> ->]|[[-> ->]|[[-> ->]|[-> ->]]]].
  - apply (quartet_good_xy d x y z w ax ay az aw e); assumption.
  - apply (quartet_good_xy d y x z w ay ax az aw e); try assumption; try (apply not_eq_sym; assumption).
    rewrite (Hsym y x Hy Hx), Hxy. ring.
  - apply (quartet_good_xy d z w x y az aw ax ay e); try assumption; try (apply not_eq_sym; assumption).
    + rewrite (Hsym z x Hz Hx), Hxz. ring.
    + rewrite (Hsym z y Hz Hy), Hyz. ring.
    + rewrite (Hsym w x Hw Hx), Hxw. ring.
    + rewrite (Hsym w y Hw Hy), Hyw. ring.
  - apply (quartet_good_xy d w z x y aw az ax ay e); try assumption; try (apply not_eq_sym; assumption).
    + rewrite (Hsym w z Hw Hz), Hzw. ring.
    + rewrite (Hsym w x Hw Hx), Hxw. ring.
    + rewrite (Hsym w y Hw Hy), Hyw. ring.
    + rewrite (Hsym z x Hz Hx), Hxz. ring.
    + rewrite (Hsym z y Hz Hy), Hyz. ring.
Qed.

(** ... hence nj returns, for every additive quartet, a tree with positive branch lengths whose
    tip-to-tip path lengths are exactly the input (every pair listed) *)
Theorem nj_quartet_exact : forall (d : qmat) (x y z w : nat) (ax ay az aw e : Q),
  (x < 4)%nat -> (y < 4)%nat -> (z < 4)%nat -> (w < 4)%nat ->
  x <> y -> x <> z -> x <> w -> y <> z -> y <> w -> z <> w ->
  0 < ax -> 0 < ay -> 0 < az -> 0 < aw -> 0 < e ->
  (forall k l, (k < 4)%nat -> (l < 4)%nat -> d k l == d l k) ->
  (forall k, (k < 4)%nat -> d k k == 0) ->
  d x y == ax + ay -> d z w == az + aw ->
  d x z == ax + e + az -> d x w == ax + e + aw -> d y z == ay + e + az -> d y w == ay + e + aw ->
  exists T, nj 4 d = Some T /\ pos_tree T /\
    (forall a b, (a < 4)%nat -> (b < 4)%nat -> a <> b ->
       exists q, (In (Z.of_nat a, Z.of_nat b, q) (tip_dists T) \/ In (Z.of_nat b, Z.of_nat a, q) (tip_dists T)) /\ q == d a b) /\
    (forall a b q, In (a, b, q) (tip_dists T) -> q == d (Z.to_nat a) (Z.to_nat b)).
Proof.
  intros d x y z w ax ay az aw e Hx Hy Hz Hw Dxy Dxz Dxw Dyz Dyw Dzw Pax Pay Paz Paw Pe Hsym Hdiag Hxy Hzw Hxz Hxw Hyz Hyw.
  destruct (nj_good_run_complete 4 d ltac:(lia) Hsym Hdiag) as (T & E & Hp & _ & H1 & H2).
  - apply (quartet_good_run d x y z w ax ay az aw e); assumption.
  - exists T. auto.
Qed.

(** non-vacuity: the quartet ((0:1,1:2):1,(2:3,3:1)) of NJProofs *)
Example ex_quartet_is_quartet :
  exists T, nj 4 ex_quartet = Some T /\ pos_tree T /\
    (forall a b q, In (a, b, q) (tip_dists T) -> q == ex_quartet (Z.to_nat a) (Z.to_nat b)).
Proof.
  destruct (nj_quartet_exact ex_quartet 0 1 2 3 1 2 3 1 1) as (T & E & Hp & _ & H); try lia; try reflexivity.
  - intros k l Hk Hl. destruct k as [|[|[|[|k]]]]; destruct l as [|[|[|[|l]]]]; try lia; reflexivity.
  - intros k Hk. destruct k as [|[|[|[|k]]]]; try lia; reflexivity.
  - exists T. auto.
Qed.
