(** C18 — proofs about the star-merge model: what does hold (residues are never
    altered: degapped rows = inputs) and the refutation of "every pairwise
    alignment is kept" by a concrete witness evaluated on the faithful model. *)
From CG3 Require Import Lib.PyZ Lib.Val Model.PairAlign Spec.AlignSpec Model.StarMerge.

Lemma degap_row_degap r : degap_row r = degap r.
Proof. reflexivity. Qed.

Lemma degap_repeat_gap n l : degap (repeat GAP n ++ l) = degap l.
Proof. induction n as [|n IH]; [reflexivity|]. cbn. exact IH. Qed.

Lemma degap_expand_aux gaps : forall seq p,
  Forall (fun a => a <> GAP) seq -> degap (expand_aux seq p gaps) = seq.
Proof.
  induction seq as [|c seq IH]; intros p F.
  - cbn [expand_aux]. rewrite degap_repeat_gap. reflexivity.
  - cbn [expand_aux]. rewrite degap_repeat_gap. inversion F as [|? ? Hc F']; subst.
    unfold degap. cbn [filter].
    assert (E : (c =? GAP) = false) by (apply Z.eqb_neq; exact Hc). rewrite E. cbn [negb].
    f_equal. apply IH. exact F'.
Qed.

Lemma degap_expand seq gaps : Forall (fun a => a <> GAP) seq -> degap (expand seq gaps) = seq.
Proof. apply degap_expand_aux. Qed.

Lemma degap_no_gap r : Forall (fun a => a <> GAP) (degap r).
Proof.
  unfold degap. apply Forall_forall. intros a Ha. apply filter_In in Ha. destruct Ha as (_ & Ha).
  apply negb_true_iff in Ha. apply Z.eqb_neq in Ha. exact Ha.
Qed.

(** residues are never altered by the merge: row 0 degaps to the reference, row
    i+1 to the residues of the i-th non-reference sequence *)
Lemma star_merge_degapped fixed ref pw rows :
  Forall (fun a => a <> GAP) ref ->
  star_merge fixed ref pw = Some rows ->
  exists r0 others, rows = r0 :: others /\ degap r0 = ref /\
                    Forall2 (fun ro row => degap row = degap (snd ro)) pw others.
Proof.
  intros Fref. unfold star_merge.
  destruct (forallb is_some (map (merge_row fixed (ref_union pw)) pw)) eqn:Hall; [|discriminate].
  intros H. inversion H; subst rows; clear H.
  eexists _, _. split; [reflexivity|]. split; [apply degap_expand; exact Fref|].
  revert Hall. generalize (ref_union pw). intros union.
  induction pw as [|[r o] pw IH]; cbn [map forallb]; intros Hall; constructor.
  - apply andb_true_iff in Hall. destruct Hall as [Hs _].
    cbn [snd]. unfold merge_row in *.
    destruct (gaps_for_injection fixed (gaps_of_row o) (combined_refseq_gaps (gaps_of_row r) union) (zlen (degap_row o))) as [[|kv inj]|].
    + reflexivity.
    + cbn [unwrap]. rewrite degap_expand; [reflexivity | apply degap_no_gap].
    + discriminate.
  - apply IH. apply andb_true_iff in Hall. tauto.
Qed.

(** the statement the property makes about reference-based alignment *)
Definition pairwise_ok (ref : list Z) (ro : list Z * list Z) : Prop :=
  length (fst ro) = length (snd ro) /\ degap (fst ro) = ref /\ ~ In SB (path_of_rows (fst ro) (snd ro)).

Definition star_merge_keeps_pairwise (fixed : bool) : Prop :=
  forall ref pw rows,
    Forall (fun a => a <> GAP) ref -> Forall (pairwise_ok ref) pw ->
    star_merge fixed ref pw = Some rows ->
    Forall2 (fun ro row => project (hd [] rows) row = ro) pw (tl rows).

(** witness (A=0, C=1, G=2, T=3): ref CCAG with ('CCA-G','--TT-'), ('C-CAG','-TT--'), ('C-CAG','AG---') *)
Definition w_ref : list Z := [1; 1; 0; 2].
Definition w_pw : list (list Z * list Z) :=
  [([1; 1; 0; -1; 2], [-1; -1; 3; 3; -1]);
   ([1; -1; 1; 0; 2], [-1; 3; 3; -1; -1]);
   ([1; -1; 1; 0; 2], [0; 2; -1; -1; -1])].

Lemma star_merge_witness :
  exists ref pw rows,
    Forall (fun a => a <> GAP) ref /\ Forall (pairwise_ok ref) pw /\
    star_merge false ref pw = Some rows /\
    exists ro row, In (ro, row) (combine pw (tl rows)) /\ project (hd [] rows) row <> ro.
Proof.
  exists w_ref, w_pw.
  eexists. split; [|split; [|split]].
  - repeat constructor; discriminate.
  - unfold pairwise_ok, w_pw, w_ref. repeat constructor; cbn; intuition discriminate.
  - vm_compute. reflexivity.
  - eexists _, _. split.
    + cbn [tl combine w_pw]. left. reflexivity.
    + vm_compute. discriminate.
Qed.

(** on the witness the repaired rule gives the right answer *)
Lemma star_merge_witness_fixed :
  exists rows, star_merge true w_ref w_pw = Some rows /\
               Forall2 (fun ro row => project (hd [] rows) row = ro) w_pw (tl rows).
Proof.
  eexists. split; [vm_compute; reflexivity|].
  cbn [tl hd]. repeat constructor.
Qed.

Lemma star_merge_keeps_pairwise_false : ~ star_merge_keeps_pairwise false.
Proof.
  intros H. destruct star_merge_witness as (ref & pw & rows & F & Fp & Hs & ro & row & Hin & Hne).
  specialize (H ref pw rows F Fp Hs).
  apply Hne. clear Hne Hs Fp F.
  remember (tl rows) as others eqn:Eo. clear Eo.
  revert Hin. induction H as [|x y l l' Hxy HF IH]; intros Hin.
  - destruct Hin.
  - cbn [combine In] in Hin. destruct Hin as [E | Hin].
    + inversion E; subst. reflexivity.
    + apply IH. exact Hin.
Qed.
